import JF.Props.SystemInv
import JF.Props.C19Loop
/-!
# The joint invariants of the composed system along DUMPED-AND-RESUMED runs

`JF/Props/SystemInv.lean` states the joint invariant (`joint_inv`) and its closed corollaries for the runs `JF.Sys.Reach` of the
composed system whose mediator uses the SPEC-level scheduler (`specI xcfg`).  `JF/Props/C19Loop.lean` proves that a run of the
mediator loop with the HEAP scheduler that is pickled and restored at any leg boundaries makes the commits of the uninterrupted
run.  This file puts the two together.

**What is modelled.**  C19's model of dump/resume: the mediator runs with the heap scheduler instance `heapI xcfg W` (model of
`HeapScheduler` on the model of `heap.c`); a dump at a leg boundary replaces the mediator state `st` by `dumpH xcfg st`: the
scheduler is pickled and rebuilt (`HSched.pickle`: `__getstate__` reads the entries of the C heap in array order, `__setstate__`
re-inserts them into a fresh heap), every other component — activator bookkeeping, `_event_handler_with_shortest_event_time`,
and here also the world of the composed system (point masses `us`, occupancy `occ`, and the ghost fields `ids`, `usPrev`, `mid`)
— is restored as it was (trusted base "`dill` is the identity on ordinary objects", exercised by C19's correspondence check).
`ReachD` = the runs of the composed system (`SysStepH`: field for field `JF.Sys.SysStep`, heap scheduler) dumped and resumed
any number of times at any leg boundaries.

**Results.**
* `reachD_reach` (main bridge, heap → spec): a `ReachD` run without time ties has a spec-level twin `JF.Sys.Reach` on the
  oracle values `oraclesOf ss` with the same commits, the same world and ghost fields, the same activator state and preceding
  handler.  Hence every theorem of `SystemInv` holds for it: `joint_inv_resumed`, `c09_fresh_closed_resumed`,
  `c09_fresh_every_leg_resumed`, `c08_closed_resumed`, `c08_stale_trashed_closed_resumed`, `c11_occinv_closed_resumed`,
  `c11_active_in_recorded_cell_closed_resumed`, `staysInRecordedCell_closed_resumed`, `commit_times_sorted_closed_resumed`,
  `candOK_closed_resumed`, `no_sample_skipped_resumed`.
* `resumed_is_uninterrupted` (C19Loop, NO tie hypothesis): leg for leg, a dumped-and-resumed run IS an uninterrupted run of the
  composed system with the heap scheduler — same oracle values, same commits, same world, mediator states equal up to the live
  part of the heap (`LiveEq`); `resumed_mediator_runD`: its mediator component is what `C19Loop.runD` computes, and its commits
  are those of `C19Loop.runLegsE` on `oraclesOf ss` (`resume_repeated`).
* `reach_reachD` (non-vacuity, spec → heap): every spec-level run without time ties, with dumps inserted at ANY leg boundaries
  (`ss` arbitrary with `oraclesOf ss = os`), is a `ReachD` run; `Example`: the 6-leg run of `SystemInv.Example`, dumped before
  the first leg, after legs 1, 3 (twice), 4 and 6.

**The no-tie hypothesis**, exactly: E1's `NoTies xcfg xcfg.finite (fun _ => none) cs` — at no `get_succeeding_event` of the
run are two finite pending candidate times of different handlers equal/incomparable (`NoTie` on the ghost dictionary after the
pushes of the leg).  It is needed only to go from the heap instance to the spec instance, in which the joint invariants are
stated (with a tie the heap scheduler returns *a* minimal event, the spec scheduler possibly another one).  It is NOT needed
for resume = uninterrupted (`resumed_is_uninterrupted`).  The hypotheses `TieFree`/`TieFreeAll` of the original theorems
(a sampling/dumping/any event not committed at the time of the pending cell-boundary candidate) are kept as they are.

**Not covered.**  The list scheduler (its pickling is the identity: `C19Loop.resume_list`); the invariants under time ties among
pending events (would need the joint invariant stated over the heap instance); the identity of `dill` on everything that is not
the C heap (trusted base); the multi-process mediator; runs that leave the loop with an exception (a `ReachD` run consists of
successful legs); `sched_mirrors_running_closed` and `guard_never_fires_closed` (they speak about the spec scheduler state
itself; the heap versions are `JF.MediatorLoop.heap_sched_mirrors_running` / `guard_never_fires` with `reachD_minv`).
-/
namespace JF.SystemInvResume
open JF JF.Act JF.Heap JF.Sched JF.Med JF.CW JF.C14 JF.MediatorLoop JF.Kin JF.Sys JF.SystemInv
open JF.C19Loop (Step oraclesOf dumpH dumpWith StRel ExRel RunRel runD runLegsE heapBisim leg_congr)

/-! ## 1.–3. the composed system with the heap scheduler, its legs, its dumped-and-resumed runs -/

/-- the composed system between two legs, with the heap scheduler (field for field `JF.Sys.Sys`) -/
structure SysH where
  /-- activator bookkeeping, HEAP scheduler, `_event_handler_with_shortest_event_time` -/
  med : MedState (HSched XTime)
  us : List (PUnit ℚ)
  occ : Occ.State
  ids : HandlerId → IdTuple
  usPrev : List (PUnit ℚ)
  mid : Act

/-- the same world and ghost fields around a spec-level mediator state -/
def SysH.toSys (s : SysH) (m : MedState (SSched XTime)) : Sys := ⟨m, s.us, s.occ, s.ids, s.usPrev, s.mid⟩

/-- the same world and ghost fields around a heap-level mediator state -/
def SysH.ofSys (s : Sys) (m : MedState (HSched XTime)) : SysH := ⟨m, s.us, s.occ, s.ids, s.usPrev, s.mid⟩

section defs
variable (env : Env ℚ) (geo : Geo env) (c : Wiring) (S : TaggerIdx) (needs : HandlerId → Bool)

/-- one leg of the composed system with the heap scheduler: field for field `JF.Sys.SysStep` (`occ1` is `occNext` unfolded) -/
structure SysStepH (W : Nat) (s : SysH) (o : Oracle XTime) (cm : Committed XTime) (s' : SysH) : Prop where
  occ1 : (if s.med.act.started then occAfter env (hasOccOf c) s.occ s.us else some s.occ) = some s'.occ
  yields : o.yields = fun T => yieldCls env (c.tagger T).cls ⟨s.us, s'.occ⟩
  leg : leg (mwire c S needs) (heapI xcfg W) s.med o = .ok (s'.med, cm)
  cands : CandsOK env geo c s.us s.med.sched.last o cm.created
  ev : ∃ t, cm.time = .fin t ∧ Commits env geo (kindOfH c cm.handler) t s.us s'.us
  ids' : s'.ids = assign s.ids cm.created
  prev : s'.usPrev = s.us
  mid' : s'.mid = midAct (mwire c S needs) s.med o

/-- **a run of the composed system (heap scheduler) that is dumped and resumed any number of times at any leg boundaries**:
`ss` lists the legs (with their oracle values) and the dump/resume round trips in the order in which they happen; a dump
replaces the mediator by `dumpH xcfg` of it (scheduler pickled and rebuilt, everything else — world included — as it was);
no leg after the end-of-run commit -/
inductive ReachD (W : Nat) : List (Step XTime) → List (Committed XTime) → SysH → Prop
  | init (s : SysH) (hmed : s.med = MedState.init (heapI xcfg W) c.wires)
      (h : Init env c (s.toSys (MedState.init (specI xcfg) c.wires))) : ReachD W [] [] s
  | step {ss : List (Step XTime)} {cs : List (Committed XTime)} {s s' : SysH} {o : Oracle XTime} {cm : Committed XTime}
      (prev : ReachD W ss cs s) (hgo : ∀ cl, cs.getLast? = some cl → cl.stop = false)
      (hstep : SysStepH env geo c S needs W s o cm s') : ReachD W (ss ++ [.leg o]) (cs ++ [cm]) s'
  | dump {ss : List (Step XTime)} {cs : List (Committed XTime)} {s : SysH}
      (prev : ReachD W ss cs s) : ReachD W (ss ++ [.dump]) cs { s with med := dumpH (W := W) xcfg s.med }

end defs

/-! ## small lemmas -/

theorem oraclesOf_append {κ : Type} : ∀ (ss ts : List (Step κ)), oraclesOf (ss ++ ts) = oraclesOf ss ++ oraclesOf ts := by
  intro ss ts
  induction ss with
  | nil => rfl
  | cons x ss ih =>
    cases x with
    | leg o => show o :: oraclesOf (ss ++ ts) = o :: oraclesOf ss ++ oraclesOf ts; rw [ih]; rfl
    | dump => exact ih

theorem oraclesOf_snoc_leg {κ : Type} (ss : List (Step κ)) (o : Oracle κ) :
    oraclesOf (ss ++ [.leg o]) = oraclesOf ss ++ [o] := by rw [oraclesOf_append]; rfl

theorem oraclesOf_snoc_dump {κ : Type} (ss : List (Step κ)) : oraclesOf (ss ++ [.dump]) = oraclesOf ss := by
  rw [oraclesOf_append]; exact List.append_nil _

theorem noTies_snoc {κ : Type} {cfg : Cfg κ} {vis : κ → Bool} : ∀ (cs : List (Committed κ)) (p : Pend κ) (c : Committed κ),
    NoTies cfg vis p (cs ++ [c]) ↔ NoTies cfg vis p cs ∧ NoTie cfg vis (pendPushed (pendOf p cs) c) := by
  intro cs
  induction cs with
  | nil => intro p c; simp [NoTies, pendOf]
  | cons a cs ih =>
    intro p c
    show (NoTie cfg vis (pendPushed p a) ∧ NoTies cfg vis (pendAfter p a) (cs ++ [c])) ↔
      ((NoTie cfg vis (pendPushed p a) ∧ NoTies cfg vis (pendAfter p a) cs) ∧
        NoTie cfg vis (pendPushed (pendOf (pendAfter p a) cs) c))
    rw [ih, and_assoc]

theorem midAct_congr {κ σ τ : Type} (M : MWire) {a : MedState σ} {b : MedState τ} (o : Oracle κ)
    (hact : a.act = b.act) (hpre : a.preceding = b.preceding) : midAct M a o = midAct M b o := by
  unfold midAct; rw [hact, hpre]

section main
variable {env : Env ℚ} {geo : Geo env} {c : Wiring} {S : TaggerIdx} {needs : HandlerId → Bool} {W : Nat}

/-! ## E1's invariant along a dumped-and-resumed run (no tie hypothesis) -/

/-- the loop invariant of E1 for the heap instance holds along every dumped-and-resumed run, with the ghost dictionary and the
last commit time determined by the commits alone (a dump changes neither: `pickle_spec`) -/
theorem reachD_minv (hs : Static (mwire c S needs)) (hW : 0 < W) {ss : List (Step XTime)} {cs : List (Committed XTime)}
    {sH : SysH} (hr : ReachD env geo c S needs W ss cs sH) :
    MInv (I := heapI xcfg W) (mwire c S needs) (HRelM xcfg W) sH.med (pendOf (fun _ => none) cs) (lastOf xcfg.bot cs) := by
  induction hr with
  | init s hmed _ => rw [hmed]; exact minv_init (heapLaws xcfg_strictWeak hW) (mwire c S needs)
  | step _ _ hstep ih =>
    rw [pendOf_snoc, lastOf_snoc]
    exact (leg_inv (heapLaws xcfg_strictWeak hW) hs ih hstep.leg).1
  | dump _ ih =>
    obtain ⟨P1, _, P3, _⟩ := pickle_spec xcfg_strictWeak ih.rel.1
    exact ⟨ih.pool, ⟨P1, by show (HSched.pickle xcfg _).last = _; rw [P3]; exact ih.rel.2⟩, ih.mirror⟩

/-! ## 4. the main bridge: heap level → spec level -/

/-- **the main bridge.**  A dumped-and-resumed run of the composed system with the heap scheduler, without time ties among the
finite pending candidate times (E1's `NoTies`), has a spec-level twin: a run `JF.Sys.Reach` on the oracle values of its legs with
the same commits `cs`, the same world and ghost fields, the same activator state and the same preceding handler. -/
theorem reachD_reach (hs : Static (mwire c S needs)) (hW : 0 < W) {ss : List (Step XTime)} {cs : List (Committed XTime)}
    {sH : SysH} (hr : ReachD env geo c S needs W ss cs sH) (nt : NoTies xcfg xcfg.finite (fun _ => none) cs) :
    ∃ m : MedState (SSched XTime), JF.Sys.Reach env geo c S needs (oraclesOf ss) cs (sH.toSys m) ∧
      m.act = sH.med.act ∧ m.preceding = sH.med.preceding := by
  induction hr with
  | init s hmed h =>
    refine ⟨MedState.init (specI xcfg) c.wires, .init _ h, ?_, ?_⟩ <;> rw [hmed] <;> rfl
  | @step ss cs s s' o cm prev hgo hstep ih =>
    obtain ⟨nt0, ntl⟩ := (noTies_snoc cs _ cm).mp nt
    obtain ⟨m, hreach, hact, hpre⟩ := ih nt0
    have invH := reachD_minv hs hW prev
    have invS : MInv (I := specI xcfg) (mwire c S needs) (SRel xcfg) m (pendOf (fun _ => none) cs) (lastOf xcfg.bot cs) :=
      (MediatorLoop.run_inv (specLaws xcfg_strictWeak) hs (reach_medRun hreach)
        (minv_init (specLaws xcfg_strictWeak) (mwire c S needs))).1
    obtain ⟨m', hleg, hact', hpre', _⟩ :=
      refines_leg (heapLaws xcfg_strictWeak hW) (specLaws xcfg_strictWeak) hs (fun _ h => h)
        (fun a b _ hb hb' => by rw [hb] at hb'; cases hb') invH invS.rel hact hpre hstep.leg ntl
    refine ⟨m', ?_, hact', hpre'⟩
    rw [oraclesOf_snoc_leg]
    refine .step hreach hgo ⟨?_, hstep.yields, hleg, ?_, hstep.ev, hstep.ids', hstep.prev, ?_⟩
    · show (if m.act.started then occAfter env (hasOccOf c) s.occ s.us else some s.occ) = some s'.occ
      rw [hact]; exact hstep.occ1
    · show CandsOK env geo c s.us m.sched.last o cm.created
      rw [invS.rel.last, ← invH.rel.2]; exact hstep.cands
    · show s'.mid = midAct (mwire c S needs) m o
      rw [midAct_congr _ o hact hpre]; exact hstep.mid'
  | dump prev ih =>
    obtain ⟨m, hreach, hact, hpre⟩ := ih nt
    exact ⟨m, by rw [oraclesOf_snoc_dump]; exact hreach, hact, hpre⟩

/-! ## 5. leg for leg the uninterrupted run (C19Loop; NO tie hypothesis) -/

/-- the steps that are legs -/
def notDump {κ : Type} : Step κ → Bool
  | .leg _ => true
  | .dump => false

theorem filter_snoc_leg {κ : Type} (ss : List (Step κ)) (o : Oracle κ) :
    (ss ++ [Step.leg o]).filter notDump = ss.filter notDump ++ [Step.leg o] := by rw [List.filter_append]; rfl

theorem filter_snoc_dump {κ : Type} (ss : List (Step κ)) : (ss ++ [Step.dump]).filter notDump = ss.filter notDump := by
  rw [List.filter_append]; exact List.append_nil _

theorem oraclesOf_filter {κ : Type} : ∀ ss : List (Step κ), oraclesOf (ss.filter notDump) = oraclesOf ss := by
  intro ss
  induction ss with
  | nil => rfl
  | cons x ss ih =>
    cases x with
    | leg o => show o :: oraclesOf (ss.filter notDump) = o :: oraclesOf ss; rw [ih]
    | dump => exact ih

/-- **resume = uninterrupted for the composed system, leg for leg** (no tie hypothesis): for a run that is dumped and resumed
any number of times there is an UNINTERRUPTED run of the composed system with the heap scheduler (`ss.filter notDump`: the same
legs on the same oracle values, no dump) with exactly the same commits `cs`, ending in the same world and ghost fields
(`us`, `occ`, `ids`, `usPrev`, `mid`) and in a mediator state with the same activator bookkeeping, the same preceding handler and a
scheduler with the same live part (`LiveEq`: observationally equal for ever, `C19Loop.StRel.obsEqI`) -/
theorem resumed_is_uninterrupted (hs : Static (mwire c S needs)) (hW : 0 < W) {ss : List (Step XTime)}
    {cs : List (Committed XTime)} {sH : SysH} (hr : ReachD env geo c S needs W ss cs sH) :
    ∃ m' : MedState (HSched XTime), ReachD env geo c S needs W (ss.filter notDump) cs { sH with med := m' } ∧
      StRel (LiveEq xcfg) m' sH.med := by
  induction hr with
  | init s hmed h =>
    have h0 : ReachD env geo c S needs W [] [] s := .init s hmed h
    exact ⟨s.med, h0, rfl, rfl, LiveEq.refl (reachD_minv hs hW h0).rel.1.inv⟩
  | @step ss cs s s' o cm prev hgo hstep ih =>
    obtain ⟨m0, hr0, rel⟩ := ih
    have h := leg_congr (heapBisim xcfg_strictWeak W) (mwire c S needs) o rel
    rw [hstep.leg] at h
    cases h1 : leg (mwire c S needs) (heapI xcfg W) m0 o with
    | error e => rw [h1] at h; exact h.elim
    | ok x =>
      rw [h1] at h
      obtain ⟨x1, cm'⟩ := x
      obtain ⟨hcm, rel'⟩ := h
      simp only at hcm
      subst hcm
      refine ⟨x1, ?_, rel'⟩
      rw [filter_snoc_leg]
      refine .step hr0 hgo ⟨?_, hstep.yields, h1, ?_, hstep.ev, hstep.ids', hstep.prev, ?_⟩
      · show (if m0.act.started then occAfter env (hasOccOf c) s.occ s.us else some s.occ) = some s'.occ
        rw [rel.act]; exact hstep.occ1
      · show CandsOK env geo c s.us m0.sched.last o cm'.created
        rw [rel.sched.last]; exact hstep.cands
      · show s'.mid = midAct (mwire c S needs) m0 o
        rw [midAct_congr _ o rel.act rel.preceding]; exact hstep.mid'
  | dump prev ih =>
    obtain ⟨m0, hr0, rel⟩ := ih
    have inv := reachD_minv hs hW prev
    refine ⟨m0, ?_, rel.act, rel.preceding, rel.sched.trans (pickle_liveEq xcfg_strictWeak inv.rel.1)⟩
    rw [filter_snoc_dump]; exact hr0

/-! ### the mediator component of a dumped-and-resumed run is what `C19Loop.runD` computes -/

section runD
variable {κ : Type} (M : MWire) (I : SchedI κ) (pk : I.σ → I.σ)

/-- a run with dumps that was not ended by the end-of-run handler continues on further steps where it stands -/
theorem runD_append : ∀ (ss1 ss2 : List (Step κ)) (st st1 : MedState I.σ) (cs1 : List (Committed κ)),
    runD M I pk st ss1 = (cs1, .ok st1) → (∀ c ∈ cs1, c.stop = false) →
    runD M I pk st (ss1 ++ ss2) = (cs1 ++ (runD M I pk st1 ss2).1, (runD M I pk st1 ss2).2) := by
  intro ss1
  induction ss1 with
  | nil =>
    intro ss2 st st1 cs1 e _
    simp only [runD, Prod.mk.injEq, Except.ok.injEq] at e
    obtain ⟨rfl, rfl⟩ := e
    rfl
  | cons x ss1 ih =>
    intro ss2 st st1 cs1 e hn
    cases x with
    | dump =>
      have e' : runD M I pk (dumpWith pk st) ss1 = (cs1, .ok st1) := e
      exact ih ss2 _ st1 cs1 e' hn
    | leg o =>
      rw [C19Loop.runD_leg] at e
      rw [List.cons_append, C19Loop.runD_leg]
      cases hl : leg M I st o with
      | error err => rw [hl] at e; simp at e
      | ok y =>
        obtain ⟨s', c⟩ := y
        rw [hl] at e
        simp only at e ⊢
        by_cases hc : c.stop = true
        · rw [if_pos hc] at e
          simp only [Prod.mk.injEq] at e
          have := hn c (by rw [← e.1]; simp)
          rw [hc] at this; cases this
        · rw [if_neg hc] at e
          rw [if_neg hc]
          simp only [Prod.mk.injEq] at e
          obtain ⟨rfl, e2⟩ := e
          have := ih ss2 s' st1 _ (Prod.ext rfl e2) (fun c' hc' => hn c' (List.mem_cons_of_mem _ hc'))
          rw [this]; rfl

theorem runD_single {st st' : MedState I.σ} {o : Oracle κ} {c : Committed κ} (h : leg M I st o = .ok (st', c)) :
    runD M I pk st [Step.leg o] = ([c], .ok st') := by
  rw [C19Loop.runD_leg, h]
  simp only
  split <;> rfl

/-- a dump at the end does not change the commits -/
theorem runD_snoc_dump_fst : ∀ (ss : List (Step κ)) (st : MedState I.σ),
    (runD M I pk st (ss ++ [Step.dump])).1 = (runD M I pk st ss).1 := by
  intro ss
  induction ss with
  | nil => intro st; rfl
  | cons x ss ih =>
    intro st
    cases x with
    | dump => exact ih (dumpWith pk st)
    | leg o =>
      rw [List.cons_append, C19Loop.runD_leg, C19Loop.runD_leg]
      cases leg M I st o with
      | error e => rfl
      | ok y =>
        obtain ⟨s', c⟩ := y
        simp only
        by_cases hc : c.stop = true
        · rw [if_pos hc, if_pos hc]
        · rw [if_neg hc, if_neg hc, ih s']

end runD

/-- in a run whose last commit is not the end of the run, no commit is -/
theorem reachD_allgo {ss : List (Step XTime)} {cs : List (Committed XTime)} {sH : SysH}
    (hr : ReachD env geo c S needs W ss cs sH) :
    (∀ cl, cs.getLast? = some cl → cl.stop = false) → ∀ cl ∈ cs, cl.stop = false := by
  induction hr with
  | init => intro _ cl h; cases h
  | @step ss cs s s' o cm prev hgo hstep ih =>
    intro hl cl hcl
    rcases List.mem_append.mp hcl with h | h
    · exact ih hgo cl h
    · have : cl = cm := by simpa using h
      subst this
      exact hl _ (by simp)
  | dump prev ih => exact ih

/-- **the mediator component of a dumped-and-resumed run of the composed system is what `C19Loop.runD` computes** from the
initial mediator state on the same steps: the same commits `cs` — always —, and, as long as the run has not been ended by the
end-of-run commit (after which `runD`, like the loop, does nothing any more, while `ReachD` still allows dumps), the same final
mediator state -/
theorem resumed_mediator_runD {ss : List (Step XTime)} {cs : List (Committed XTime)} {sH : SysH}
    (hr : ReachD env geo c S needs W ss cs sH) :
    (runD (mwire c S needs) (heapI xcfg W) (HSched.pickle xcfg)
      (MedState.init (heapI xcfg W) (mwire c S needs).w) ss).1 = cs ∧
    ((∀ cl ∈ cs, cl.stop = false) →
      runD (mwire c S needs) (heapI xcfg W) (HSched.pickle xcfg)
        (MedState.init (heapI xcfg W) (mwire c S needs).w) ss = (cs, .ok sH.med)) := by
  induction hr with
  | init s hmed _ => rw [hmed]; exact ⟨rfl, fun _ => rfl⟩
  | @step ss cs s s' o cm prev hgo hstep ih =>
    have hall := reachD_allgo prev hgo
    have happ := runD_append (mwire c S needs) (heapI xcfg W) (HSched.pickle xcfg) ss [Step.leg o] _ _ _ (ih.2 hall) hall
    have e1 := runD_single (mwire c S needs) (heapI xcfg W) (HSched.pickle xcfg) hstep.leg
    have e2 : runD (mwire c S needs) (heapI xcfg W) (HSched.pickle xcfg)
        (MedState.init (heapI xcfg W) (mwire c S needs).w) (ss ++ [Step.leg o]) = (cs ++ [cm], .ok s'.med) :=
      happ.trans (congrArg (fun x => (cs ++ x.1, x.2)) e1)
    exact ⟨congrArg Prod.fst e2, fun _ => e2⟩
  | @dump ss cs s prev ih =>
    refine ⟨(runD_snoc_dump_fst _ _ _ ss _).trans ih.1, fun hne => ?_⟩
    have happ := runD_append (mwire c S needs) (heapI xcfg W) (HSched.pickle xcfg) ss [Step.dump] _ _ _ (ih.2 hne) hne
    exact happ.trans (Prod.ext (List.append_nil cs) rfl)

/-- … hence (`C19Loop.resume_repeated`, no tie hypothesis) **the commits of a dumped-and-resumed run of the composed system are
exactly the commits of the uninterrupted mediator loop** `runLegsE` with the heap scheduler on the oracle values of its legs -/
theorem resumed_commits_uninterrupted (hs : Static (mwire c S needs)) (hW : 0 < W) {ss : List (Step XTime)}
    {cs : List (Committed XTime)} {sH : SysH} (hr : ReachD env geo c S needs W ss cs sH) :
    (runLegsE (mwire c S needs) (heapI xcfg W) (MedState.init (heapI xcfg W) (mwire c S needs).w) (oraclesOf ss)).1 = cs :=
  (C19Loop.resume_repeated xcfg_strictWeak hW hs C19Loop.Reach.init ss).1.trans (resumed_mediator_runD hr).1

/-- … and while the run has not ended, the uninterrupted loop ends without exception in a mediator state with the same activator
bookkeeping, the same preceding handler and the same live part of the heap -/
theorem resumed_runRel_uninterrupted (hs : Static (mwire c S needs)) (hW : 0 < W) {ss : List (Step XTime)}
    {cs : List (Committed XTime)} {sH : SysH} (hr : ReachD env geo c S needs W ss cs sH) (hne : ∀ cl ∈ cs, cl.stop = false) :
    RunRel (LiveEq xcfg)
      (runLegsE (mwire c S needs) (heapI xcfg W) (MedState.init (heapI xcfg W) (mwire c S needs).w) (oraclesOf ss))
      (cs, .ok sH.med) :=
  Eq.mp (congrArg _ ((resumed_mediator_runD hr).2 hne))
    (C19Loop.resume_repeated xcfg_strictWeak hW hs C19Loop.Reach.init ss)

/-! ## 6. the joint invariant and its corollaries along dumped-and-resumed runs -/

/-- **the joint invariant holds after every leg of every dumped-and-resumed run** (for the spec-level twin of the mediator) -/
theorem joint_inv_resumed (H : Hyp env c S) (hW : 0 < W) {ss : List (Step XTime)} {cs : List (Committed XTime)} {sH : SysH}
    (hr : ReachD env geo c S needs W ss cs sH) (ntH : NoTies xcfg xcfg.finite (fun _ => none) cs) (nt : TieFree c cs) :
    ∃ m : MedState (SSched XTime), m.act = sH.med.act ∧ m.preceding = sH.med.preceding ∧
      JInv env geo c S needs cs (sH.toSys m) := by
  obtain ⟨m, hreach, ha, hp⟩ := reachD_reach (hyp_static H) hW hr ntH
  exact ⟨m, ha, hp, joint_inv H hreach nt⟩

/-- `JF.SystemInv.c09_fresh_closed` along dumped-and-resumed runs -/
theorem c09_fresh_closed_resumed (H : Hyp env c S) (hW : 0 < W) {ss : List (Step XTime)} {cs : List (Committed XTime)}
    {sH : SysH} (hr : ReachD env geo c S needs W ss cs sH) (ntH : NoTies xcfg xcfg.finite (fun _ => none) cs)
    (nt : TieFree c cs) (h2 : 2 ≤ cs.length) :
    ∃ hc : Consistent env (hasOccOf c) ⟨sH.usPrev, sH.occ⟩,
      (∀ T, (world env c).live T → Fresh (world env c) ⟨sH.mid, sH.ids, ⟨⟨sH.usPrev, sH.occ⟩, hc⟩⟩ T) ∧
      Act.Run c (world env c) (Tr env c) S ⟨sH.mid, sH.ids, ⟨⟨sH.usPrev, sH.occ⟩, hc⟩⟩ := by
  obtain ⟨m, hreach, _, _⟩ := reachD_reach (hyp_static H) hW hr ntH
  exact c09_fresh_closed H hreach nt h2

/-- `JF.SystemInv.c09_fresh_every_leg` along dumped-and-resumed runs -/
theorem c09_fresh_every_leg_resumed (H : Hyp env c S) (hW : 0 < W) {ss : List (Step XTime)} {cs : List (Committed XTime)}
    {sH : SysH} (hr : ReachD env geo c S needs W ss cs sH) (ntH : NoTies xcfg xcfg.finite (fun _ => none) cs)
    (nt : TieFree c cs) {k : Nat} {cm : Committed XTime} (hk : cs[k + 1]? = some cm) :
    ∃ (s1 : Sys) (hc : Consistent env (hasOccOf c) ⟨s1.usPrev, s1.occ⟩),
      (∀ T, (world env c).live T → Fresh (world env c) ⟨s1.mid, s1.ids, ⟨⟨s1.usPrev, s1.occ⟩, hc⟩⟩ T) ∧
      (∀ x, (pendPushed (pendOf (fun _ => none) (cs.take (k + 1))) cm x).isSome ↔ ∃ T, x ∈ (getT s1.mid T).running) := by
  obtain ⟨m, hreach, _, _⟩ := reachD_reach (hyp_static H) hW hr ntH
  exact c09_fresh_every_leg H hreach nt hk

/-- `JF.SystemInv.c11_active_in_recorded_cell_closed` along dumped-and-resumed runs -/
theorem c11_active_in_recorded_cell_closed_resumed (H : Hyp env c S) (hW : 0 < W) {ss : List (Step XTime)}
    {cs : List (Committed XTime)} {sH : SysH} (hr : ReachD env geo c S needs W ss cs sH)
    (ntH : NoTies xcfg xcfg.finite (fun _ => none) cs) (nt : TieFree c cs) (hO : hasOccOf c = true) {cl : Committed XTime}
    (hl : cs.getLast? = some cl) :
    OldActiveStays env sH.occ sH.usPrev sH.usPrev ∧
    (kindOfH c cl.handler ≠ .cellBoundary → NoTieAll c (pendOf (fun _ => none) cs.dropLast) cl →
      OldActiveStays env sH.occ sH.usPrev sH.us) := by
  obtain ⟨m, hreach, _, _⟩ := reachD_reach (hyp_static H) hW hr ntH
  exact c11_active_in_recorded_cell_closed H hreach nt hO hl

/-- `JF.SystemInv.staysInRecordedCell_closed` along dumped-and-resumed runs -/
theorem staysInRecordedCell_closed_resumed (H : Hyp env c S) (hW : 0 < W) {ss : List (Step XTime)}
    {cs : List (Committed XTime)} {sH : SysH} (hr : ReachD env geo c S needs W ss cs sH)
    (ntH : NoTies xcfg xcfg.finite (fun _ => none) cs) (nt : TieFree c cs) (hO : hasOccOf c = true) {cl : Committed XTime}
    (hl : cs.getLast? = some cl) (hq : kindOfH c cl.handler = .sampling ∨ kindOfH c cl.handler = .dumping) :
    StaysInRecordedCell env sH.occ sH.us := by
  obtain ⟨m, hreach, _, _⟩ := reachD_reach (hyp_static H) hW hr ntH
  exact staysInRecordedCell_closed H hreach nt hO hl hq

/-- `JF.SystemInv.c11_occinv_closed` along dumped-and-resumed runs -/
theorem c11_occinv_closed_resumed (H : Hyp env c S) (hW : 0 < W) {ss : List (Step XTime)} {cs : List (Committed XTime)}
    {sH : SysH} (hr : ReachD env geo c S needs W ss cs sH) (ntH : NoTies xcfg xcfg.finite (fun _ => none) cs)
    (nta : TieFreeAll c cs) (hO : hasOccOf c = true) :
    C11.OccInv (relW env sH.usPrev) (cellW env sH.usPrev) sH.occ := by
  obtain ⟨m, hreach, _, _⟩ := reachD_reach (hyp_static H) hW hr ntH
  exact c11_occinv_closed H hreach nta hO

/-- `JF.SystemInv.candOK_closed` along dumped-and-resumed runs -/
theorem candOK_closed_resumed (H : Hyp env c S) (hW : 0 < W) (hdq : dumpQuiet c = true) {ss : List (Step XTime)}
    {cs : List (Committed XTime)} {sH : SysH} (hr : ReachD env geo c S needs W ss cs sH)
    (ntH : NoTies xcfg xcfg.finite (fun _ => none) cs) (nt : TieFree c cs) :
    MediatorLoop.Legs (CandOK xcfg) (fun _ => none) xcfg.bot cs := by
  obtain ⟨m, hreach, _, _⟩ := reachD_reach (hyp_static H) hW hr ntH
  exact candOK_closed H hdq hreach nt

/-- `JF.SystemInv.commit_times_sorted_closed` along dumped-and-resumed runs -/
theorem commit_times_sorted_closed_resumed (H : Hyp env c S) (hW : 0 < W) (hdq : dumpQuiet c = true)
    {ss : List (Step XTime)} {cs : List (Committed XTime)} {sH : SysH} (hr : ReachD env geo c S needs W ss cs sH)
    (ntH : NoTies xcfg xcfg.finite (fun _ => none) cs) (nt : TieFree c cs) :
    cs.Pairwise (fun a b => xcfg.lt b.time a.time = false) := by
  obtain ⟨m, hreach, _, _⟩ := reachD_reach (hyp_static H) hW hr ntH
  exact commit_times_sorted_closed H hdq hreach nt

/-- `JF.SystemInv.no_sample_skipped` along dumped-and-resumed runs -/
theorem no_sample_skipped_resumed (H : Hyp env c S) (hW : 0 < W) {ss : List (Step XTime)} {cs : List (Committed XTime)}
    {sH : SysH} (hr : ReachD env geo c S needs W ss cs sH) (ntH : NoTies xcfg xcfg.finite (fun _ => none) cs)
    {k : Nat} {cm : Committed XTime} (hk : cs[k]? = some cm)
    {hs : HandlerId} {ts : XTime} (hkind : kindOfH c hs = .sampling)
    (hp : pendPushed (pendOf (fun _ => none) (cs.take k)) cm hs = some ts) (hfin : xcfg.finite ts = true) :
    xcfg.lt ts cm.time = false ∧ (cm.handler = hs → cm.time = ts) := by
  obtain ⟨m, hreach, _, _⟩ := reachD_reach (hyp_static H) hW hr ntH
  exact no_sample_skipped H hreach hk hkind hp hfin

/-- `JF.SystemInv.c08_closed` along dumped-and-resumed runs -/
theorem c08_closed_resumed (H : Hyp env c S) (hW : 0 < W) {ss : List (Step XTime)} {cs : List (Committed XTime)}
    {sH : SysH} (hr : ReachD env geo c S needs W ss cs sH) (ntH : NoTies xcfg xcfg.finite (fun _ => none) cs)
    (nt : TieFree c cs) {cl : Committed XTime} (hl : cs.getLast? = some cl) :
    ∃ (hc : Consistent env (hasOccOf c) ⟨sH.usPrev, sH.occ⟩) (born : HandlerId → G env c),
      C08.Reach8 c.wires (world env c) (motionOf env c) S ⟨⟨sH.mid, sH.ids, ⟨⟨sH.usPrev, sH.occ⟩, hc⟩⟩, born⟩ ∧
      C08.Current (motionOf env c) ⟨⟨sH.mid, sH.ids, ⟨⟨sH.usPrev, sH.occ⟩, hc⟩⟩, born⟩ ∧
      ∀ E, owner c.wires cl.handler = some E → motionBound (c.tagger E) = true →
        ∀ u ∈ (motionOf env c).units (sH.ids cl.handler), SameMotion env.L (born cl.handler).1.us sH.usPrev u := by
  obtain ⟨m, hreach, _, _⟩ := reachD_reach (hyp_static H) hW hr ntH
  exact c08_closed H hreach nt hl

/-- `JF.SystemInv.c08_stale_trashed_closed` along dumped-and-resumed runs -/
theorem c08_stale_trashed_closed_resumed (H : Hyp env c S) (hW : 0 < W) {ss : List (Step XTime)}
    {cs : List (Committed XTime)} {sH : SysH} (hr : ReachD env geo c S needs W ss cs sH)
    (ntH : NoTies xcfg xcfg.finite (fun _ => none) cs) (nt : TieFree c cs) {k j : Nat} {ck cj : Committed XTime}
    (hk : cs[k]? = some ck) {E : TaggerIdx} (hE : owner c.wires ck.handler = some E)
    (hm : affects (c.tagger E) .motion = true) {h : HandlerId} {T : TaggerIdx} (hT : owner c.wires h = some T)
    (hb : motionBound (c.tagger T) = true)
    (hp : (pendPushed (pendOf (fun _ => none) (cs.take k)) ck h).isSome) :
    h ∈ ck.trashed ∧
    (k < j → cs[j]? = some cj → cj.handler = h →
      ∃ (i : Nat) (ci : Committed XTime), k < i ∧ i ≤ j ∧ cs[i]? = some ci ∧ h ∈ ci.created.map Prod.fst) := by
  obtain ⟨m, hreach, _, _⟩ := reachD_reach (hyp_static H) hW hr ntH
  exact c08_stale_trashed_closed H hreach nt hk hE hm hT hb hp

/-! ## 7. non-vacuity: every spec-level run without ties, with dumps inserted anywhere, is a dumped-and-resumed run -/

theorem reach_nil_inv {os : List (Oracle XTime)} {cs : List (Committed XTime)} {s : Sys}
    (hr : JF.Sys.Reach env geo c S needs os cs s) (he : os = []) : cs = [] ∧ Init env c s := by
  cases hr with
  | init _ h => exact ⟨rfl, h⟩
  | step _ _ _ => simp at he

theorem reach_snoc_inv {os' : List (Oracle XTime)} {cs' : List (Committed XTime)} {s' : Sys}
    (hr : JF.Sys.Reach env geo c S needs os' cs' s') {os : List (Oracle XTime)} {o : Oracle XTime} (he : os' = os ++ [o]) :
    ∃ cs s cm, cs' = cs ++ [cm] ∧ JF.Sys.Reach env geo c S needs os cs s ∧
      (∀ cl, cs.getLast? = some cl → cl.stop = false) ∧ SysStep env geo c S needs s o cm s' := by
  cases hr with
  | init _ h => simp at he
  | @step os0 cs0 s0 _ o0 cm0 prev hgo hstep =>
    obtain ⟨h1, h2⟩ := List.append_inj' he rfl
    simp only [List.cons.injEq, and_true] at h2
    subst h1 h2
    exact ⟨cs0, s0, cm0, rfl, prev, hgo, hstep⟩

/-- **the converse construction (spec → heap).**  Take any run `JF.Sys.Reach` of the composed system with the spec-level scheduler
without time ties, and insert dump/resume round trips at ANY leg boundaries, any number of them (`ss` is an arbitrary list of
legs and dumps whose legs carry the oracle values of the run: `oraclesOf ss = os`): the result is a dumped-and-resumed run
`ReachD` of the composed system with the heap scheduler, with the same commits and the same world and ghost fields.  So the
hypotheses of the `…_resumed` theorems are satisfiable whenever those of the originals are. -/
theorem reach_reachD (hs : Static (mwire c S needs)) (hW : 0 < W) : ∀ (ss : List (Step XTime)) {cs : List (Committed XTime)}
    {s : Sys}, JF.Sys.Reach env geo c S needs (oraclesOf ss) cs s → NoTies xcfg xcfg.finite (fun _ => none) cs →
    ∃ mH : MedState (HSched XTime), ReachD env geo c S needs W ss cs (SysH.ofSys s mH) ∧
      mH.act = s.med.act ∧ mH.preceding = s.med.preceding := by
  intro ss
  induction ss using List.reverseRecOn with
  | nil =>
    intro cs s hr _
    obtain ⟨rfl, hi⟩ := reach_nil_inv hr rfl
    refine ⟨MedState.init (heapI xcfg W) c.wires, .init _ rfl
      ⟨rfl, hi.wf, hi.box, hi.rest, hi.occId, hi.occCell, hi.occInit, hi.prev⟩, ?_, ?_⟩ <;> rw [hi.med] <;> rfl
  | append_singleton ss x ih =>
    intro cs s hr nt
    cases x with
    | dump =>
      rw [oraclesOf_snoc_dump] at hr
      obtain ⟨mH, hD, hact, hpre⟩ := ih hr nt
      have hD' : ReachD env geo c S needs W (ss ++ [Step.dump]) cs (SysH.ofSys s (dumpH (W := W) xcfg mH)) := ReachD.dump hD
      exact ⟨dumpH (W := W) xcfg mH, hD', hact, hpre⟩
    | leg o =>
      obtain ⟨cs0, s0, cm, rfl, hr0, hgo, hstep⟩ := reach_snoc_inv hr (oraclesOf_snoc_leg ss o)
      obtain ⟨nt0, ntl⟩ := (noTies_snoc cs0 _ cm).mp nt
      obtain ⟨mH0, hD, hact, hpre⟩ := ih hr0 nt0
      have invH := reachD_minv hs hW hD
      have invS : MInv (I := specI xcfg) (mwire c S needs) (SRel xcfg) s0.med (pendOf (fun _ => none) cs0)
          (lastOf xcfg.bot cs0) :=
        (MediatorLoop.run_inv (specLaws xcfg_strictWeak) hs (reach_medRun hr0)
          (minv_init (specLaws xcfg_strictWeak) (mwire c S needs))).1
      obtain ⟨mH', hleg, hact', hpre', _⟩ :=
        refines_leg (specLaws xcfg_strictWeak) (heapLaws xcfg_strictWeak hW) hs (fun _ h => h)
          (fun a b _ hb hb' => by rw [hb] at hb'; cases hb') invS invH.rel hact hpre hstep.leg ntl
      refine ⟨mH', .step hD hgo ⟨?_, hstep.yields, hleg, ?_, hstep.ev, hstep.ids', hstep.prev, ?_⟩, hact', hpre'⟩
      · show (if mH0.act.started then occAfter env (hasOccOf c) s0.occ s0.us else some s0.occ) = some s.occ
        rw [hact]; exact hstep.occ1
      · show CandsOK env geo c s0.us mH0.sched.last o cm.created
        have e : mH0.sched.last = lastOf xcfg.bot cs0 := invH.rel.2
        rw [e, ← invS.rel.last]; exact hstep.cands
      · show s.mid = midAct (mwire c S needs) mH0 o
        rw [midAct_congr _ o hact hpre]; exact hstep.mid'

end main

/-! ## non-vacuity on the concrete 6-leg run of `JF.SystemInv.Example` (coulomb_atoms, cell_bounded) -/

namespace Example
open JF.SystemInv.Example

/-- counter range of a C `unsigned int` -/
abbrev W32 : Nat := 4294967296

/-- E1's no-tie hypothesis holds for the six commits (start of run at 0, sampling at 1/28, cell boundary at 1/14, lifting at
5/56, sampling at 3/28, lifting at 1/8): at no `get_succeeding_event` do two finite pending candidate times coincide -/
theorem noTies6 : NoTies xcfg xcfg.finite (fun _ => none) cs6 :=
  noTies_of_check _ _ [] (fun h t e => by cases e) (by decide +kernel)

theorem noTies4 : NoTies xcfg xcfg.finite (fun _ => none) cs4 :=
  noTies_of_check _ _ [] (fun h t e => by cases e) (by decide +kernel)

/-- the six legs with dumps before the first leg, after legs 1, 3 (twice in a row), 4 and 6 -/
def steps6 : List (Step XTime) :=
  [.dump, .leg (mkO s0.us occ0 cand1), .dump, .leg (mkO s1.us occ1 cand2), .leg (mkO s2.us occ2 cand3), .dump, .dump,
   .leg (mkO s3.us occ3 cand4), .dump, .leg (mkO s4.us occ4 cand5), .leg (mkO s5.us occ5 cand6), .dump]

/-- the first four legs with dumps after legs 1 and 3 -/
def steps4 : List (Step XTime) :=
  [.leg (mkO s0.us occ0 cand1), .dump, .leg (mkO s1.us occ1 cand2), .leg (mkO s2.us occ2 cand3), .dump,
   .leg (mkO s3.us occ3 cand4)]

/-- **the dumped-and-resumed 6-leg run exists**: heap scheduler, six dump/resume round trips, the commits `cs6` and the world of
`s6` -/
theorem dumped6 : ∃ mH : MedState (HSched XTime), ReachD env geo cfg 7 needs W32 steps6 cs6 (SysH.ofSys s6 mH) ∧
    mH.act = s6.med.act ∧ mH.preceding = s6.med.preceding :=
  reach_reachD (hyp_static hyp) (by decide) steps6
    (show JF.Sys.Reach env geo cfg 7 needs (oraclesOf steps6) cs6 s6 from reach6) noTies6

theorem dumped4 : ∃ mH : MedState (HSched XTime), ReachD env geo cfg 7 needs W32 steps4 cs4 (SysH.ofSys s4 mH) ∧
    mH.act = s4.med.act ∧ mH.preceding = s4.med.preceding :=
  reach_reachD (hyp_static hyp) (by decide) steps4
    (show JF.Sys.Reach env geo cfg 7 needs (oraclesOf steps4) cs4 s4 from reach4) noTies4

/-- the joint invariant after the six legs of the dumped run -/
example : ∃ (mH : MedState (HSched XTime)) (m : MedState (SSched XTime)), m.act = mH.act ∧ m.preceding = mH.preceding ∧
    JInv env geo cfg 7 needs cs6 ((SysH.ofSys s6 mH).toSys m) := by
  obtain ⟨mH, hD, _, _⟩ := dumped6
  obtain ⟨m, h1, h2, h3⟩ := joint_inv_resumed hyp (by decide) hD noTies6 tieFree6
  exact ⟨mH, m, h1, h2, h3⟩

/-- C09 in the middle of the fourth leg of the dumped run (dumps after legs 1 and 3) -/
example : ∃ hc : Consistent env (hasOccOf cfg) ⟨s4.usPrev, s4.occ⟩,
    ∀ T, (world env cfg).live T → Fresh (world env cfg) ⟨s4.mid, s4.ids, ⟨⟨s4.usPrev, s4.occ⟩, hc⟩⟩ T := by
  obtain ⟨mH, hD, _, _⟩ := dumped4
  obtain ⟨hc, h, _⟩ := c09_fresh_closed_resumed hyp (by decide) hD noTies4 tieFree4 (by decide)
  exact ⟨hc, h⟩

/-- C11's full invariant in the middle of leg 6 of the dumped run -/
example : C11.OccInv (relW env s6.usPrev) (cellW env s6.usPrev) s6.occ := by
  obtain ⟨mH, hD, _, _⟩ := dumped6
  exact c11_occinv_closed_resumed hyp (by decide) hD noTies6 tieFreeAll6 rfl

/-- commit times of the dumped run never decrease -/
example : cs6.Pairwise (fun a b => xcfg.lt b.time a.time = false) := by
  obtain ⟨mH, hD, _, _⟩ := dumped6
  exact commit_times_sorted_closed_resumed hyp (by decide) dumpQuiet_shipped.1 hD noTies6 tieFree6

/-- `c08_closed` for the `coulomb_surplus` event committed in leg 6 of the dumped run -/
example : ∃ born : HandlerId → G env cfg,
    ∀ u ∈ (motionOf env cfg).units (s6.ids c6.handler), SameMotion env.L (born c6.handler).1.us s6.usPrev u := by
  obtain ⟨mH, hD, _, _⟩ := dumped6
  obtain ⟨_, born, _, _, h⟩ := c08_closed_resumed hyp (by decide) hD noTies6 tieFree6 (cl := c6) (by simp [cs6])
  exact ⟨born, h 3 (by decide +kernel) (by decide)⟩

/-- … and the dumped run is, leg for leg, an uninterrupted run of the composed system with the heap scheduler -/
example : ∃ mH m' : MedState (HSched XTime), ReachD env geo cfg 7 needs W32 (steps6.filter notDump) cs6 (SysH.ofSys s6 m') ∧
    StRel (LiveEq xcfg) m' mH := by
  obtain ⟨mH, hD, _, _⟩ := dumped6
  obtain ⟨m', h1, h2⟩ := resumed_is_uninterrupted (hyp_static hyp) (by decide) hD
  exact ⟨mH, m', h1, h2⟩

/-- … and its commits are those of the uninterrupted mediator loop with the heap scheduler on the six oracle values -/
example : (runLegsE M (heapI xcfg W32) (MedState.init (heapI xcfg W32) M.w) os6).1 = cs6 := by
  obtain ⟨mH, hD, _, _⟩ := dumped6
  exact resumed_commits_uninterrupted (hyp_static hyp) (by decide) hD

end Example

end JF.SystemInvResume
