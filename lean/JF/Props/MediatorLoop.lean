import JF.Lemmas.MediatorInv
import JF.Props.C06
import JF.Props.C08
/-!
# The single-process mediator loop as one composed machine (links C06 × C08 × C09)

Model: `JF/Model/Mediator.lean` — `JF.Med.leg` is one pass through the body of `SingleProcessMediator.run`
(`get_event_handlers_to_run` → one `push_event` per handler handed out → `get_succeeding_event` → commit →
`get_trashable_events` → one `trash_event` per listed handler → mediating method), composed from the activator model
(`JF.Act.getToRun` / `getTrashable`) and a scheduler behind the interface `JF.Med.SchedI` with three instances: the
spec-level scheduler `specI`, the model of `ListScheduler` `listI` and the model of `HeapScheduler` + `heap.c` `heapI`.

Every theorem below is about ALL legs of ALL runs: for every configuration `M` with `Static M` (duplicate-free create lists
in range, duplicate-free disjoint handler pools), every list of oracle values (yields of all taggers, candidate time of every
handler handed out — any value, infinite included), and every scheduler instance satisfying `JF.Med.Laws`
(`specLaws`, `listLaws`, `heapLaws` in `JF/Lemmas/MediatorLaws.lean`; the last two are C06's refinement lemmas).

* `sched_mirrors_running` (+ `spec_…`, `list_…`, `heap_…`): after every leg the scheduler holds exactly the events of the
  ghost dictionary `pendOf cs` (handler ↦ candidate time pushed for it, `pend_origin`) that it keeps — all of them for the list,
  the finite ones for the heap and the spec-level scheduler; a handler has an entry iff it is a running handler of some
  tagger; pooled handlers have none; no handler has two.
* `committed_is_running`: the handler returned by `get_succeeding_event` is a running handler of its own tagger `E` (the
  activator state `midAct` of that moment is the one C08's `born` bookkeeping speaks about), it is a minimal one among the
  pending events the scheduler keeps (C06's specification), and the `trash_event` calls of the leg are exactly the activator's
  trash list for `E`.
* `trashed_never_committed`: a handler trashed in leg `k` is not committed in a later leg unless it was handed out again in
  between; `no_stale_event_committed` composes this with `JF.C08.stale_handlers_are_trashed` to C08's second sentence.
* `commit_times_sorted` / `guard_never_fires`: if every candidate time is not before the time of the leg in which it was
  computed, commit times never decrease and the monotonicity assertion of the scheduler never fires.
* `refines_runLegs`, `list_refines_spec`, `heap_refines_spec`: without time ties among the kept pending events the loop with
  the list / heap scheduler makes exactly the commits of the loop with the spec-level scheduler (with ties it still commits *a*
  minimal pending event: `committed_is_running` for that instance).
-/
namespace JF.MediatorLoop
open JF JF.Act JF.Heap JF.Sched JF.Med

variable {κ : Type}

/-! ### runs -/

/-- a run: any sequence of successful legs (a superset of the runs of `runLegs`, which stop at the end-of-run commit) -/
inductive Run (M : MWire) (I : SchedI κ) : MedState I.σ → List (Oracle κ) → List (Committed κ) → MedState I.σ → Prop
  | nil (st : MedState I.σ) : Run M I st [] [] st
  | cons {st st1 st' : MedState I.σ} {o : Oracle κ} {os : List (Oracle κ)} {c : Committed κ} {cs : List (Committed κ)}
      (hleg : leg M I st o = .ok (st1, c)) (hrun : Run M I st1 os cs st') : Run M I st (o :: os) (c :: cs) st'

/-- the ghost dictionary / the last commit time after the legs `cs` -/
def pendOf (p : Pend κ) (cs : List (Committed κ)) : Pend κ := cs.foldl pendAfter p
def lastOf (l : κ) (cs : List (Committed κ)) : κ := cs.foldl (fun _ c => c.time) l

/-- `P` holds for every leg of `cs`, with the ghost dictionary and last commit time of its moment -/
def Legs (P : Pend κ → κ → Committed κ → Prop) : Pend κ → κ → List (Committed κ) → Prop
  | _, _, [] => True
  | p, l, c :: cs => P p l c ∧ Legs P (pendAfter p c) c.time cs

/-- the loop of the model makes runs -/
theorem runLegs_run (M : MWire) (I : SchedI κ) : ∀ (os : List (Oracle κ)) (st st' : MedState I.σ) (cs : List (Committed κ)),
    runLegs M I st os = (cs, some st') → ∃ os', Run M I st os' cs st' := by
  intro os
  induction os with
  | nil =>
    intro st st' cs e
    simp only [runLegs, Prod.mk.injEq, Option.some.injEq] at e
    obtain ⟨rfl, rfl⟩ := e
    exact ⟨[], .nil _⟩
  | cons o os ih =>
    intro st st' cs e
    unfold runLegs at e
    split at e
    · simp at e
    · next st1 c hleg =>
      split at e
      · simp only [Prod.mk.injEq, Option.some.injEq] at e
        obtain ⟨rfl, rfl⟩ := e
        exact ⟨[o], .cons hleg (.nil _)⟩
      · simp only [Prod.mk.injEq] at e
        obtain ⟨rfl, e2⟩ := e
        obtain ⟨os', hr⟩ := ih st1 st' _ (Prod.ext rfl e2)
        exact ⟨o :: os', .cons hleg hr⟩

section generic
variable {cfg : Cfg κ} {I : SchedI κ} {vis : κ → Bool} {R : I.σ → Pend κ → κ → Prop} {M : MWire}

/-- **the invariant over runs** (induction over the oracle list) -/
theorem run_inv (L : Laws cfg I vis R) (hs : Static M) {st st' : MedState I.σ} {os : List (Oracle κ)}
    {cs : List (Committed κ)} (hrun : Run M I st os cs st') : ∀ {p : Pend κ} {l : κ}, MInv M R st p l →
    MInv M R st' (pendOf p cs) (lastOf l cs) ∧ Legs (LegOK cfg vis) p l cs := by
  induction hrun with
  | nil st => intro p l inv; exact ⟨inv, trivial⟩
  | cons hleg _ ih =>
    intro p l inv
    obtain ⟨inv1, ok, _⟩ := leg_inv L hs inv hleg
    obtain ⟨inv', legs⟩ := ih inv1
    exact ⟨inv', ok, legs⟩

/-- **`sched_mirrors_running`**: after every leg of every run from the initial state, (1) the scheduler state is related by
`R` to the ghost dictionary of the pending candidate times (what `R` says per instance: the three corollaries below), and
(2) a handler has a pending event iff it is a running handler of some tagger — pooled handlers have none -/
theorem sched_mirrors_running (L : Laws cfg I vis R) (hs : Static M) {st : MedState I.σ} {os : List (Oracle κ)}
    {cs : List (Committed κ)} (hrun : Run M I (MedState.init I M.w) os cs st) :
    R st.sched (pendOf (fun _ => none) cs) (lastOf cfg.bot cs) ∧
    ∀ h, (pendOf (fun _ => none : Pend κ) cs h).isSome ↔ ∃ T, h ∈ (getT st.act.ts T).running :=
  let inv := (run_inv L hs hrun (minv_init L M)).1
  ⟨inv.rel, inv.mirror⟩

/-- where the entries of the ghost dictionary come from: the candidate time the oracle returned for the handler in the leg
that handed it out -/
theorem pend_origin (L : Laws cfg I vis R) (hs : Static M) {st st' : MedState I.σ} {os : List (Oracle κ)}
    {cs : List (Committed κ)} (hrun : Run M I st os cs st') : ∀ {p : Pend κ} {l : κ}, MInv M R st p l →
    ∀ h t, pendOf p cs h = some t → p h = some t ∨
      ∃ (k : Nat) (o : Oracle κ) (c : Committed κ), os[k]? = some o ∧ cs[k]? = some c ∧ h ∈ c.created.map Prod.fst ∧ t = o.cand h := by
  induction hrun with
  | nil st => intro p l _ h t e; exact Or.inl e
  | @cons st st1 st' o os c cs hleg _ ih =>
    intro p l inv h t e
    obtain ⟨inv1, _, hpushed, _⟩ := leg_inv L hs inv hleg
    rcases ih inv1 h t e with h1 | ⟨k, o', c', h1, h2, h3, h4⟩
    · have h1' : dropAll (pushAll p c.pushed) c.trashed h = some t := h1
      rw [dropAll_eq] at h1'
      split at h1'
      · cases h1'
      · rcases pushAll_some _ _ h1' with h2 | h2
        · exact Or.inl h2
        · right
          refine ⟨0, o, c, rfl, rfl, ?_, ?_⟩
          · rw [hpushed] at h2
            obtain ⟨q, hq, hqe⟩ := List.mem_map.mp h2
            simp only [Prod.mk.injEq] at hqe
            exact List.mem_map.mpr ⟨q, hq, hqe.1⟩
          · rw [hpushed] at h2
            obtain ⟨q, _, hqe⟩ := List.mem_map.mp h2
            simp only [Prod.mk.injEq] at hqe
            rw [← hqe.2, hqe.1]
    · exact Or.inr ⟨k + 1, o', c', by rw [List.getElem?_cons_succ]; exact h1, by rw [List.getElem?_cons_succ]; exact h2, h3, h4⟩

/-- **`committed_is_running`**: in every leg of every run the handler returned by `get_succeeding_event` is a running handler
of its own tagger `E` in the activator state of that moment (`midAct`: after `get_event_handlers_to_run`, before the trash —
the state in which C08's `born h` is the state the candidate of `h` was computed from); its event is pending with the
committed time, kept by the scheduler, minimal among the kept pending events, not before the last commit (`LegOK`); and the
`trash_event` calls of the leg are the activator's trash list for `E`, after which the activator is in the state `trash` leaves -/
theorem committed_is_running (L : Laws cfg I vis R) (hs : Static M) {st st' : MedState I.σ} {os : List (Oracle κ)}
    {cs : List (Committed κ)} (hrun : Run M I (MedState.init I M.w) os cs st) {o : Oracle κ} {c : Committed κ}
    (hleg : leg M I st o = .ok (st', c)) :
    LegOK cfg vis (pendOf (fun _ => none) cs) (lastOf cfg.bot cs) c ∧
    ∃ E, owner M.w c.handler = some E ∧ c.handler ∈ (getT (midAct M st o) E).running ∧
      c.trashed = (trash M.w (midAct M st o) E).2 ∧ st'.act.ts = (trash M.w (midAct M st o) E).1 :=
  let r := leg_inv L hs (run_inv L hs hrun (minv_init L M)).1 hleg
  ⟨r.2.1, r.2.2.2.2.2⟩

/-! ### trashed events are never committed -/

/-- a handler without a pending event is not committed unless it is handed out first -/
theorem committed_was_handed_out : ∀ (cs : List (Committed κ)) (p : Pend κ) (l : κ), Legs (LegOK cfg vis) p l cs →
    ∀ h, p h = none → ∀ (j : Nat) (cj : Committed κ), cs[j]? = some cj → cj.handler = h →
    ∃ (i : Nat) (ci : Committed κ), i ≤ j ∧ cs[i]? = some ci ∧ h ∈ ci.created.map Prod.fst := by
  intro cs
  induction cs with
  | nil => intro p l _ h _ j cj hj; simp at hj
  | cons c cs ih =>
    intro p l legs h hp j cj hj hc
    obtain ⟨ok, rest⟩ := legs
    by_cases hk : h ∈ c.pushed.map Prod.fst
    · exact ⟨0, c, Nat.zero_le _, rfl, by rw [← ok.pushed_keys]; exact hk⟩
    · cases j with
      | zero =>
        simp only [List.getElem?_cons_zero, Option.some.injEq] at hj
        subst hj
        have := ok.pending
        rw [hc, pendPushed, pushAll_not_mem _ _ hk, hp] at this
        cases this
      | succ j =>
        have hp' : pendAfter p c h = none := by
          show dropAll (pushAll p c.pushed) c.trashed h = none
          rw [dropAll_eq, pushAll_not_mem _ _ hk, hp]; simp
        obtain ⟨i, ci, hi, h1, h2⟩ := ih _ _ rest h hp' j cj (by simpa using hj) hc
        exact ⟨i + 1, ci, by omega, by simpa using h1, h2⟩

/-- **`trashed_never_committed`**: if `h` is trashed in leg `k` and committed in a later leg `j`, it was handed out again
(a new candidate was computed and pushed) in some leg `i` with `k < i ≤ j` -/
theorem trashed_never_committed : ∀ (cs : List (Committed κ)) (p : Pend κ) (l : κ), Legs (LegOK cfg vis) p l cs →
    ∀ (k : Nat) (ck : Committed κ) (h : HandlerId), cs[k]? = some ck → h ∈ ck.trashed →
    ∀ (j : Nat) (cj : Committed κ), k < j → cs[j]? = some cj → cj.handler = h →
    ∃ (i : Nat) (ci : Committed κ), k < i ∧ i ≤ j ∧ cs[i]? = some ci ∧ h ∈ ci.created.map Prod.fst := by
  intro cs
  induction cs with
  | nil => intro p l _ k ck h hk; simp at hk
  | cons c cs ih =>
    intro p l legs k ck h hk hh j cj hkj hj hc
    obtain ⟨ok, rest⟩ := legs
    cases j with
    | zero => omega
    | succ j =>
      cases k with
      | zero =>
        simp only [List.getElem?_cons_zero, Option.some.injEq] at hk
        subst hk
        have hp' : pendAfter p c h = none := by
          show dropAll (pushAll p c.pushed) c.trashed h = none
          rw [dropAll_eq]; simp [hh]
        obtain ⟨i, ci, hi, h1, h2⟩ := committed_was_handed_out cs _ _ rest h hp' j cj (by simpa using hj) hc
        exact ⟨i + 1, ci, by omega, by omega, by simpa using h1, h2⟩
      | succ k =>
        obtain ⟨i, ci, h0, hi, h1, h2⟩ := ih _ _ rest k ck h (by simpa using hk) hh j cj (by omega) (by simpa using hj) hc
        exact ⟨i + 1, ci, by omega, by omega, by simpa using h1, h2⟩

/-- `trashed_never_committed` for the runs of the loop from the initial state -/
theorem trashed_never_committed_run (L : Laws cfg I vis R) (hs : Static M) {st : MedState I.σ} {os : List (Oracle κ)}
    {cs : List (Committed κ)} (hrun : Run M I (MedState.init I M.w) os cs st)
    {k j : Nat} {ck cj : Committed κ} {h : HandlerId} (hk : cs[k]? = some ck) (hh : h ∈ ck.trashed) (hkj : k < j)
    (hj : cs[j]? = some cj) (hc : cj.handler = h) :
    ∃ (i : Nat) (ci : Committed κ), k < i ∧ i ≤ j ∧ cs[i]? = some ci ∧ h ∈ ci.created.map Prod.fst :=
  trashed_never_committed cs _ _ (run_inv L hs hrun (minv_init L M)).2 k ck h hk hh j cj hkj hj hc

/-- **C08's second sentence, end to end** (composition with `JF.C08.stale_handlers_are_trashed`): let a leg of a run commit an
event of tagger `E` that may change the motion of a unit (`Mo.moves E`), under the hypotheses `StepOK8` of C08 for the
activator state `midAct` of that leg (clause (h), proved from `WiringSound` by `JF.C08.clause_h_of_wiringSound`).  Then no
event of a bound (interaction / cell-veto) tagger that was pending at that commit — i.e. computed before it — is ever returned
by the scheduler afterwards: if its handler `h` is committed in a later leg `j`, `h` was handed out again after the
motion-changing commit and the committed event is the new one. -/
theorem no_stale_event_committed {G U : Type} (L : Laws cfg I vis R) (hs : Static M) {st st1 st2 : MedState I.σ}
    {os os' : List (Oracle κ)} {cs cs' : List (Committed κ)} (hrun : Run M I (MedState.init I M.w) os cs st)
    {o : Oracle κ} {c : Committed κ} (hleg : leg M I st o = .ok (st1, c)) (hlater : Run M I st1 os' cs' st2)
    (Mo : C08.Motion G U) (ms : C08.MS G) (hms : ms.rs.act = midAct M st o) {E : TaggerIdx}
    (hE : owner M.w c.handler = some E) {g' : G} (ok : C08.StepOK8 M.w Mo ms E g') (hm : Mo.moves E)
    {T : TaggerIdx} (hb : Mo.bound T) {h : HandlerId} (hh : h ∈ (getT (midAct M st o) T).running)
    {j : Nat} {cj : Committed κ} (hj : cs'[j]? = some cj) (hc : cj.handler = h) :
    ∃ (i : Nat) (ci : Committed κ), i ≤ j ∧ cs'[i]? = some ci ∧ h ∈ ci.created.map Prod.fst := by
  obtain ⟨inv1, _, _, _, _, E', hE', _, htr, _⟩ := leg_inv L hs (run_inv L hs hrun (minv_init L M)).1 hleg
  rw [hE] at hE'; cases hE'
  have hin : h ∈ c.trashed := by
    rw [htr, ← hms]
    exact C08.stale_handlers_are_trashed ok hm hb (by rw [hms]; exact hh)
  have hp' : pendAfter (pendOf (fun _ => none) cs) c h = none := by
    show dropAll (pushAll _ c.pushed) c.trashed h = none
    rw [dropAll_eq]; simp [hin]
  exact committed_was_handed_out cs' _ _ (run_inv L hs hlater inv1).2 h hp' j cj hj hc

/-! ### commit times -/

/-- every pending event the scheduler keeps is not before `l` -/
def Above (cfg : Cfg κ) (vis : κ → Bool) (p : Pend κ) (l : κ) : Prop :=
  ∀ h t, p h = some t → vis t = true → cfg.lt t l = false

/-- after a leg every kept pending event is not before the committed time (the committed one was minimal) -/
theorem above_after {p : Pend κ} {l : κ} {c : Committed κ} (ok : LegOK cfg vis p l c) :
    Above cfg vis (pendAfter p c) c.time := by
  intro h t e hv
  have e' : dropAll (pendPushed p c) c.trashed h = some t := e
  rw [dropAll_eq] at e'
  split at e'
  · cases e'
  · exact ok.minimal h t e' hv

/-- the hypothesis of `commit_times_sorted`, per leg: every candidate time pushed in the leg is not before the time of the
previous commit (= the time of the leg in which it was computed; `cfg.bot` before the first commit) -/
def CandOK (cfg : Cfg κ) : Pend κ → κ → Committed κ → Prop := fun _ l c => ∀ q ∈ c.pushed, cfg.lt q.2 l = false

theorem sorted_legs : ∀ (cs : List (Committed κ)) (p : Pend κ) (l : κ), Legs (LegOK cfg vis) p l cs → Legs (CandOK cfg) p l cs →
    Above cfg vis p l → Legs (fun _ l c => cfg.lt c.time l = false) p l cs := by
  intro cs
  induction cs with
  | nil => intro _ _ _ _ _; trivial
  | cons c cs ih =>
    intro p l legs cand ab
    obtain ⟨ok, rest⟩ := legs
    obtain ⟨ck, crest⟩ := cand
    refine ⟨?_, ih _ _ rest crest (above_after ok)⟩
    rcases pushAll_some _ _ ok.pending with h1 | h1
    · exact ab _ _ h1 ok.visible
    · exact ck _ h1

/-- **commit times are non-decreasing** if every candidate time is not before the time of the leg in which it was computed
(`CandOK`): each commit is not before the previous one … (this proof does not use the scheduler's own monotonicity assertion;
`LegOK.guard` gives the same conclusion from the assertion alone) -/
theorem commit_times_sorted (L : Laws cfg I vis R) (hs : Static M) {st : MedState I.σ} {os : List (Oracle κ)}
    {cs : List (Committed κ)} (hrun : Run M I (MedState.init I M.w) os cs st)
    (hcand : Legs (CandOK cfg) (fun _ => none) cfg.bot cs) {k : Nat} {c c' : Committed κ}
    (h1 : cs[k]? = some c) (h2 : cs[k + 1]? = some c') : cfg.lt c'.time c.time = false := by
  have legs := sorted_legs cs _ _ (run_inv L hs hrun (minv_init L M)).2 hcand (fun h t e => by cases e)
  clear hrun hcand
  generalize (fun _ => none : Pend κ) = p at legs
  generalize cfg.bot = l at legs
  induction cs generalizing p l k with
  | nil => simp at h1
  | cons a cs ih =>
    obtain ⟨_, rest⟩ := legs
    cases k with
    | zero =>
      simp only [List.getElem?_cons_zero, Option.some.injEq] at h1
      subst h1
      cases cs with
      | nil => simp at h2
      | cons b cs =>
        simp only [List.getElem?_cons_succ, List.getElem?_cons_zero, Option.some.injEq] at h2
        subst h2
        exact rest.1
    | succ k => exact ih (by simpa using h1) (by simpa using h2) _ _ rest

/-- … hence (the comparison being a strict weak order) no commit is before any earlier one -/
theorem commit_times_sorted_pairwise (o : StrictWeak cfg) (L : Laws cfg I vis R) (hs : Static M) {st : MedState I.σ}
    {os : List (Oracle κ)} {cs : List (Committed κ)} (hrun : Run M I (MedState.init I M.w) os cs st)
    (hcand : Legs (CandOK cfg) (fun _ => none) cfg.bot cs) :
    cs.Pairwise (fun c c' => cfg.lt c'.time c.time = false) := by
  have legs := sorted_legs cs _ _ (run_inv L hs hrun (minv_init L M)).2 hcand (fun h t e => by cases e)
  clear hrun hcand
  generalize (fun _ => none : Pend κ) = p at legs
  generalize cfg.bot = l at legs
  have key : ∀ (cs : List (Committed κ)) (p : Pend κ) (l : κ), Legs (fun _ l c => cfg.lt c.time l = false) p l cs →
      (∀ c ∈ cs, cfg.lt c.time l = false) ∧ cs.Pairwise (fun c c' => cfg.lt c'.time c.time = false) := by
    intro cs
    induction cs with
    | nil => intro _ _ _; simp
    | cons a cs ih =>
      intro p l legs
      obtain ⟨ha, rest⟩ := legs
      obtain ⟨i1, i2⟩ := ih _ _ rest
      refine ⟨?_, List.pairwise_cons.mpr ⟨i1, i2⟩⟩
      intro c hc
      rcases List.mem_cons.mp hc with rfl | hc
      · exact ha
      · exact o.ntrans _ _ _ (i1 c hc) ha
  exact (key cs p l legs).2

theorem pushLoop_error {o : Oracle κ} : ∀ (created : List (HandlerId × IdTuple)) (s : I.σ) (e : Err),
    pushLoop M I o s created = .error e → ∃ h, e = .inStateAssertion h := by
  intro created
  induction created with
  | nil => intro s e h; simp [pushLoop] at h
  | cons a rest ih =>
    intro s e h
    obtain ⟨x, ids⟩ := a
    unfold pushLoop at h
    split at h
    · simp only [Except.error.injEq] at h; exact ⟨x, h.symm⟩
    · exact ih _ _ h

theorem trashAll_error : ∀ (hs : List HandlerId) (s : I.σ) (e : Err),
    trashAll I s hs = .error e → ∃ h, e = .schedTrash h := by
  intro hs
  induction hs with
  | nil => intro s e h; simp [trashAll] at h
  | cons a rest ih =>
    intro s e h
    unfold trashAll at h
    split at h
    · simp only [Except.error.injEq] at h; exact ⟨a, h.symm⟩
    · exact ih _ _ h

/-- the handlers `get_event_handlers_to_run` hands out in the leg from `st` on the oracle value `o` -/
def createdOf (M : MWire) {σ : Type} (st : MedState σ) (o : Oracle κ) : List HandlerId :=
  match (getToRun M.w M.S st.act st.preceding o.yields).2 with
  | .ok created => created.map Prod.fst
  | _ => []

/-- **the monotonicity assertion of the scheduler never fires** in a leg whose candidate times are not before the time of the
previous commit -/
theorem guard_never_fires (L : Laws cfg I vis R) (hs : Static M) {st : MedState I.σ} {os : List (Oracle κ)}
    {cs : List (Committed κ)} (hrun : Run M I (MedState.init I M.w) os cs st) (o : Oracle κ)
    (hcand : ∀ h ∈ createdOf M st o, cfg.lt (o.cand h) (lastOf cfg.bot cs) = false) (h : HandlerId) :
    leg M I st o ≠ .error (.schedGuard h) := by
  obtain ⟨inv, legs⟩ := run_inv L hs hrun (minv_init L M)
  -- every kept pending event is not before the last commit
  have ab : Above cfg vis (pendOf (fun _ => none) cs) (lastOf cfg.bot cs) := by
    clear hcand inv hrun
    generalize hp : (fun _ => none : Pend κ) = p at legs
    generalize cfg.bot = l at legs
    have h0 : Above cfg vis p l := by subst hp; intro h t e; cases e
    clear hp
    induction cs generalizing p l with
    | nil => exact h0
    | cons c cs ih => exact ih _ _ legs.2 (above_after legs.1)
  intro e
  unfold leg at e
  simp only at e
  split at e
  · cases e
  · cases e
  · cases e
  · next created hcr =>
    have hrunr : getToRun M.w M.S st.act st.preceding o.yields =
        ((getToRun M.w M.S st.act st.preceding o.yields).1, .ok created) := by rw [← hcr]
    obtain ⟨_, cnd, cfresh, _⟩ := getToRun_ok hs inv.pool hrunr
    have hco : createdOf M st o = created.map Prod.fst := by unfold createdOf; rw [hcr]
    split at e
    · next e' he' =>
      obtain ⟨x, hx⟩ := pushLoop_error _ _ _ he'
      rw [hx] at e; cases e
    · next s1 hpush =>
      have hfresh : ∀ h ∈ created.map Prod.fst, pendOf (fun _ => none) cs h = none := by
        intro x hx
        cases hp : pendOf (fun _ => none) cs x with
        | none => rfl
        | some t =>
          obtain ⟨T, hT⟩ := (inv.mirror x).mp (by simp [hp])
          exact absurd hT (cfresh x hx T)
      have R1 := pushLoop_rel L M o created st.sched s1 _ _ inv.rel cnd hfresh hpush
      have G := L.get R1
      unfold GetSpec at G
      split at e
      · cases e
      · next x t hget =>
        rw [hget] at G
        simp only at G
        obtain ⟨gp, gv, _, gguard⟩ := G
        have : cfg.lt t (lastOf cfg.bot cs) = false := by
          rcases pushAll_some _ _ gp with h1 | h1
          · exact ab _ _ h1 gv
          · obtain ⟨q, hq, hqe⟩ := List.mem_map.mp h1
            simp only [Prod.mk.injEq] at hqe
            rw [← hqe.2]
            exact hcand q.1 (by rw [hco]; exact List.mem_map.mpr ⟨q, hq, rfl⟩)
        rw [this] at gguard; cases gguard
      · split at e
        · cases e
        · cases e
        · split at e
          · next e' he' =>
            obtain ⟨x, hx⟩ := trashAll_error _ _ _ he'
            rw [hx] at e; cases e
          · cases e

end generic

/-! ### refinement: the loop with a real scheduler makes the commits of the loop with the spec-level scheduler -/

/-- no two kept pending events of different handlers have incomparable (equal) times -/
def NoTie (cfg : Cfg κ) (vis : κ → Bool) (p : Pend κ) : Prop :=
  ∀ h h' t t', p h = some t → p h' = some t' → vis t = true → vis t' = true → h ≠ h' →
    cfg.lt t t' = true ∨ cfg.lt t' t = true

section refinement
variable {cfg : Cfg κ} {I J : SchedI κ} {visI visJ : κ → Bool} {RI : I.σ → Pend κ → κ → Prop}
  {RJ : J.σ → Pend κ → κ → Prop} {M : MWire}

/-- **one leg**: `J` keeps at least the events `I` keeps, and events only `J` keeps are later than all events `I` keeps
(`hfin`: infinite times are after finite ones).  From states with the same activator state, the same preceding handler and the
same ghost dictionary: if the leg with `I` succeeds and there is no tie among the pending events `I` keeps at the moment of
`get_succeeding_event`, the leg with `J` succeeds with the same record (same handler, time, pushes, trash list, stop flag) -/
theorem refines_leg (LI : Laws cfg I visI RI) (LJ : Laws cfg J visJ RJ) (hs : Static M)
    (hsub : ∀ t, visI t = true → visJ t = true)
    (hfin : ∀ a b, visI a = true → visI b = false → visJ b = true → cfg.lt a b = true)
    {stI stI' : MedState I.σ} {stJ : MedState J.σ} {p : Pend κ} {l : κ} {o : Oracle κ} {c : Committed κ}
    (invI : MInv M RI stI p l) (relJ : RJ stJ.sched p l) (hact : stJ.act = stI.act) (hpre : stJ.preceding = stI.preceding)
    (e : leg M I stI o = .ok (stI', c)) (nt : NoTie cfg visI (pendPushed p c)) :
    ∃ stJ', leg M J stJ o = .ok (stJ', c) ∧ stJ'.act = stI'.act ∧ stJ'.preceding = stI'.preceding ∧
      RJ stJ'.sched (pendAfter p c) c.time := by
  obtain ⟨_, ok, hpushed, _, _, _⟩ := leg_inv LI hs invI e
  unfold leg at e ⊢
  simp only at e ⊢
  rw [hact, hpre]
  split at e
  · cases e
  · cases e
  · cases e
  · next created hcr =>
    have hrun : getToRun M.w M.S stI.act stI.preceding o.yields =
        ((getToRun M.w M.S stI.act stI.preceding o.yields).1, .ok created) := by rw [← hcr]
    obtain ⟨pinv1, cnd, cfresh, _⟩ := getToRun_ok hs invI.pool hrun
    split at e
    · cases e
    · next s1 hpush =>
      obtain ⟨sJ1, hpushJ⟩ := pushLoop_transfer (J := J) M o created _ _ stJ.sched hpush
      rw [hpushJ]
      simp only
      have hfresh : ∀ h ∈ created.map Prod.fst, p h = none := by
        intro h hh
        cases hp : p h with
        | none => rfl
        | some t =>
          obtain ⟨T, hT⟩ := (invI.mirror h).mp (by simp [hp])
          exact absurd hT (cfresh h hh T)
      have RJ1 := pushLoop_rel LJ M o created stJ.sched sJ1 p l relJ cnd hfresh hpushJ
      have GJ := LJ.get RJ1
      unfold GetSpec at GJ
      split at e
      · cases e
      · cases e
      · next h t hget =>
        split at e
        · cases e
        · cases e
        · next trashed htr =>
          split at e
          · cases e
          · next s3 htall =>
            simp only [Except.ok.injEq, Prod.mk.injEq] at e
            obtain ⟨rfl, rfl⟩ := e
            -- what the leg with `I` committed
            have okp : pushAll p (created.map fun q => (q.1, o.cand q.1)) h = some t := ok.pending
            have okv : visI t = true := ok.visible
            have okmin := ok.minimal
            have nt' : NoTie cfg visI (pushAll p (created.map fun q => (q.1, o.cand q.1))) := nt
            -- `J` returns the same handler
            have same : (J.get sJ1).2 = .ok h t ∧ RJ (J.get sJ1).1 (pushAll p (created.map fun q => (q.1, o.cand q.1))) t := by
              have key : ∀ hJ tJ, pushAll p (created.map fun q => (q.1, o.cand q.1)) hJ = some tJ → visJ tJ = true →
                  (∀ h' t', pushAll p (created.map fun q => (q.1, o.cand q.1)) h' = some t' → visJ t' = true →
                    cfg.lt t' tJ = false) → hJ = h ∧ tJ = t := by
                intro hJ tJ pJ vJ mJ
                have n1 : cfg.lt t tJ = false := mJ h t okp (hsub t okv)
                have vI : visI tJ = true := by
                  cases hv : visI tJ with
                  | true => rfl
                  | false => have := hfin t tJ okv hv vJ; rw [n1] at this; cases this
                have n2 : cfg.lt tJ t = false := okmin hJ tJ pJ vI
                have hh : hJ = h := by
                  by_cases hne : hJ = h
                  · exact hne
                  · rcases nt' hJ h tJ t pJ okp vI okv hne with h1 | h1
                    · rw [n2] at h1; cases h1
                    · rw [n1] at h1; cases h1
                subst hh
                rw [okp] at pJ
                exact ⟨rfl, (Option.some.inj pJ).symm⟩
              cases hr : (J.get sJ1).2 with
              | empty =>
                rw [hr] at GJ
                have := GJ h t okp
                rw [hsub t okv] at this; cases this
              | guard hJ tJ =>
                rw [hr] at GJ
                simp only at GJ
                obtain ⟨pJ, vJ, mJ, gJ⟩ := GJ
                obtain ⟨_, rfl⟩ := key hJ tJ pJ vJ mJ
                rw [ok.guard] at gJ; cases gJ
              | ok hJ tJ =>
                rw [hr] at GJ
                simp only at GJ
                obtain ⟨pJ, vJ, mJ, _, rJ⟩ := GJ
                obtain ⟨rfl, rfl⟩ := key hJ tJ pJ vJ mJ
                exact ⟨rfl, rJ⟩
            rw [same.1]
            simp only
            rw [htr]
            simp only
            -- the trash loop of `J` succeeds: every listed handler has a pending event, none is listed twice
            obtain ⟨sJ3, htallJ⟩ := trashAll_succeeds LJ trashed _ _ _ same.2 ok.trashed_nodup ok.trashed_pending
            rw [htallJ]
            exact ⟨_, rfl, rfl, rfl, trashAll_rel LJ trashed _ sJ3 _ _ same.2 htallJ⟩

/-- the hypothesis "no time ties", along the commits of a run: at every `get_succeeding_event`, among the pending events `I` keeps -/
def NoTies (cfg : Cfg κ) (vis : κ → Bool) : Pend κ → List (Committed κ) → Prop
  | _, [] => True
  | p, c :: cs => NoTie cfg vis (pendPushed p c) ∧ NoTies cfg vis (pendAfter p c) cs

/-- **the whole loop**: if the loop with `I` makes the commits `cs` on the oracle list `os` without an exception and without
time ties, the loop with `J` makes exactly the same commits -/
theorem refines_runLegs (LI : Laws cfg I visI RI) (LJ : Laws cfg J visJ RJ) (hs : Static M)
    (hsub : ∀ t, visI t = true → visJ t = true)
    (hfin : ∀ a b, visI a = true → visI b = false → visJ b = true → cfg.lt a b = true) :
    ∀ (os : List (Oracle κ)) (stI stI' : MedState I.σ) (stJ : MedState J.σ) (p : Pend κ) (l : κ) (cs : List (Committed κ)),
    MInv M RI stI p l → RJ stJ.sched p l → stJ.act = stI.act → stJ.preceding = stI.preceding →
    runLegs M I stI os = (cs, some stI') → NoTies cfg visI p cs →
    ∃ stJ', runLegs M J stJ os = (cs, some stJ') ∧ stJ'.act = stI'.act ∧ stJ'.preceding = stI'.preceding := by
  intro os
  induction os with
  | nil =>
    intro stI stI' stJ p l cs _ _ hact hpre e _
    simp only [runLegs, Prod.mk.injEq, Option.some.injEq] at e
    obtain ⟨rfl, rfl⟩ := e
    exact ⟨stJ, rfl, hact, hpre⟩
  | cons o os ih =>
    intro stI stI' stJ p l cs invI relJ hact hpre e nts
    unfold runLegs at e ⊢
    split at e
    · simp at e
    · next st1 c hleg =>
      have hnt : NoTie cfg visI (pendPushed p c) ∧ (c.stop = false → ∃ cs', cs = c :: cs' ∧ NoTies cfg visI (pendAfter p c) cs') := by
        split at e
        · simp only [Prod.mk.injEq] at e
          obtain ⟨rfl, _⟩ := e
          exact ⟨nts.1, fun h => by simp_all⟩
        · simp only [Prod.mk.injEq] at e
          obtain ⟨rfl, _⟩ := e
          exact ⟨nts.1, fun _ => ⟨_, rfl, nts.2⟩⟩
      obtain ⟨stJ1, hlegJ, hact1, hpre1, relJ1⟩ := refines_leg LI LJ hs hsub hfin invI relJ hact hpre hleg hnt.1
      obtain ⟨invI1, _, _⟩ := leg_inv LI hs invI hleg
      rw [hlegJ]
      simp only
      split at e
      · next hstop =>
        simp only [Prod.mk.injEq, Option.some.injEq] at e
        obtain ⟨rfl, rfl⟩ := e
        rw [if_pos hstop]
        exact ⟨stJ1, rfl, hact1, hpre1⟩
      · next hstop =>
        simp only [Prod.mk.injEq] at e
        obtain ⟨rfl, e2⟩ := e
        rw [if_neg hstop]
        obtain ⟨cs', hcs, nts'⟩ := hnt.2 (by simpa using hstop)
        simp only [List.cons.injEq, true_and] at hcs
        obtain ⟨stJ', hrJ, a, b⟩ := ih st1 stI' stJ1 _ _ _ invI1 relJ1 hact1 hpre1 (Prod.ext rfl e2) (by subst hcs; exact nts')
        exact ⟨stJ', by rw [hrJ], a, b⟩

end refinement

/-- **the loop with the model of `ListScheduler` refines the loop with the spec-level scheduler**: same commits (handlers,
times, pushes, trash lists) whenever the spec-level loop runs without exception and without ties among finite pending times.
`hfin`: an infinite candidate time is after every finite one (`JF.C06.time_fin_lt` for `Time`). -/
theorem list_refines_spec {cfg : Cfg κ} (o : StrictWeak cfg)
    (hfin : ∀ a b, cfg.finite a = true → cfg.finite b = false → cfg.lt a b = true) {M : MWire} (hs : Static M)
    {os : List (Oracle κ)} {cs : List (Committed κ)} {st : MedState (SSched κ)}
    (e : runLegs M (specI cfg) (MedState.init (specI cfg) M.w) os = (cs, some st))
    (nt : NoTies cfg cfg.finite (fun _ => none) cs) :
    ∃ st' : MedState (LSched κ), runLegs M (listI cfg) (MedState.init (listI cfg) M.w) os = (cs, some st') ∧
      st'.act = st.act ∧ st'.preceding = st.preceding :=
  refines_runLegs (specLaws o) (listLaws o) hs (fun _ _ => rfl) (fun a b ha hb _ => hfin a b ha hb) os _ _ _ _ _ _
    (minv_init (specLaws o) M) (listLaws o).init rfl rfl e nt

/-- **the loop with the model of `HeapScheduler` on the model of `heap.c` refines the loop with the spec-level scheduler**
(any content of fresh memory, any counter range `W ≥ 1`) -/
theorem heap_refines_spec {cfg : Cfg κ} (o : StrictWeak cfg) {W : Nat} (hW : 0 < W) {M : MWire} (hs : Static M)
    {os : List (Oracle κ)} {cs : List (Committed κ)} {st : MedState (SSched κ)}
    (e : runLegs M (specI cfg) (MedState.init (specI cfg) M.w) os = (cs, some st))
    (nt : NoTies cfg cfg.finite (fun _ => none) cs) :
    ∃ st' : MedState (HSched κ), runLegs M (heapI cfg W) (MedState.init (heapI cfg W) M.w) os = (cs, some st') ∧
      st'.act = st.act ∧ st'.preceding = st.preceding :=
  refines_runLegs (specLaws o) (heapLaws o hW) hs (fun _ h => h)
    (fun a b _ hb hb' => by rw [hb] at hb'; cases hb') os _ _ _ _ _ _
    (minv_init (specLaws o) M) (heapLaws o hW).init rfl rfl e nt

/-! ### `sched_mirrors_running`, spelled out per scheduler -/

section instances
variable {cfg : Cfg κ} {M : MWire}

/-- spec-level scheduler: its live list is exactly the running handlers whose candidate time was finite, each once -/
theorem spec_sched_mirrors_running (o : StrictWeak cfg) (hs : Static M) {st : MedState (SSched κ)} {os : List (Oracle κ)}
    {cs : List (Committed κ)} (hrun : Run M (specI cfg) (MedState.init (specI cfg) M.w) os cs st) :
    (∀ h t, (t, h) ∈ st.sched.live ↔ pendOf (fun _ => none) cs h = some t ∧ cfg.finite t = true) ∧
    st.sched.live.Pairwise (fun a b => a.2 ≠ b.2) ∧
    (∀ h, (pendOf (fun _ => none : Pend κ) cs h).isSome ↔ ∃ T, h ∈ (getT st.act.ts T).running) ∧
    (∀ h, (∀ T, h ∉ (getT st.act.ts T).running) → ∀ t, (t, h) ∉ st.sched.live) := by
  obtain ⟨r, m⟩ := sched_mirrors_running (specLaws o) hs hrun
  refine ⟨r.mem, r.nodup, m, fun h hn t ht => ?_⟩
  have := ((r.mem h t).1 ht).1
  obtain ⟨T, hT⟩ := (m h).mp (by simp [this])
  exact hn T hT

/-- model of `ListScheduler`: `_times` holds exactly one element per running handler (object `h + 1`), with the candidate
time pushed for it — infinite times included —, and nothing else -/
theorem list_sched_mirrors_running (o : StrictWeak cfg) (hs : Static M) {st : MedState (LSched κ)} {os : List (Oracle κ)}
    {cs : List (Committed κ)} (hrun : Run M (listI cfg) (MedState.init (listI cfg) M.w) os cs st) :
    (∀ h t, (t, h + 1) ∈ st.sched.times ↔ pendOf (fun _ => none) cs h = some t) ∧
    (∀ t, (t, 0) ∉ st.sched.times) ∧
    st.sched.times.Pairwise (fun a b => a.2 ≠ b.2) ∧
    (∀ h, (pendOf (fun _ => none : Pend κ) cs h).isSome ↔ ∃ T, h ∈ (getT st.act.ts T).running) := by
  obtain ⟨r, m⟩ := sched_mirrors_running (listLaws o) hs hrun
  refine ⟨fun h t => r.1.mem (h + 1) t, fun t ht => ?_, r.1.nodup, m⟩
  have := (r.1.mem 0 t).1 ht
  simp [shift] at this

/-- model of `HeapScheduler`: the heap entries whose counter is the handler's current counter (the ones
`event_valid_callback` accepts) are exactly the running handlers whose candidate time was finite, each with that time; the
heap invariant holds and no array access left the block -/
theorem heap_sched_mirrors_running (o : StrictWeak cfg) {W : Nat} (hW : 0 < W) (hs : Static M) {st : MedState (HSched κ)}
    {os : List (Oracle κ)} {cs : List (Committed κ)}
    (hrun : Run M (heapI cfg W) (MedState.init (heapI cfg W) M.w) os cs st) :
    (∀ h t, (∃ m, mvGet st.sched.mv (h + 1) = some m ∧ Mem cfg st.sched.heap ⟨t, h + 1, m⟩) ↔
      pendOf (fun _ => none) cs h = some t ∧ cfg.finite t = true) ∧
    Inv cfg st.sched.heap ∧ st.sched.heap.fault = false ∧
    (∀ h, (pendOf (fun _ => none : Pend κ) cs h).isSome ↔ ∃ T, h ∈ (getT st.act.ts T).running) := by
  obtain ⟨r, m⟩ := sched_mirrors_running (heapLaws o hW) hs hrun
  exact ⟨fun h t => ((r.1.cur (h + 1) t).symm), r.1.inv, r.1.inv.1.1, m⟩

end instances

/-! ### the static hypothesis holds for every configuration with `WiringSound` (all shipped `.ini`: `cfg_sound_<name>`) -/

theorem static_ofWiring (c : Wiring) (S : TaggerIdx) (needs : HandlerId → Bool) (hw : wfStatic c S = true) (hS : S < c.n) :
    Med.Static (MWire.ofWiring c S needs) :=
  ⟨wfw_of_static (static_of_wfStatic hw), poolsOK_wires c, by show S < c.wires.length; rw [c.wires_length]; exact hS⟩

theorem static_of_wiringSound (c : Wiring) (S : TaggerIdx) (needs : HandlerId → Bool) (sound : WiringSound c = true)
    (hS : c.start? = some S) : Med.Static (MWire.ofWiring c S needs) := by
  have hw : wfStatic c S = true := by
    unfold WiringSound at sound
    rw [hS] at sound
    simp only [Bool.and_eq_true] at sound
    exact sound.1.1.1
  exact static_ofWiring c S needs hw (start_spec hS).1

/-! ### a decidable sufficient condition for `NoTies` (used by the example below) -/

section notie
variable {cfg : Cfg κ} {vis : κ → Bool}

/-- the pending events as an association list, after one leg -/
def pendL (L : List (HandlerId × κ)) (c : Committed κ) : List (HandlerId × κ) :=
  (L ++ c.pushed).filter fun q => !c.trashed.contains q.1

def noTieL (cfg : Cfg κ) (vis : κ → Bool) (L : List (HandlerId × κ)) : Bool :=
  L.all fun a => L.all fun b => a.1 == b.1 || !vis a.2 || !vis b.2 || cfg.lt a.2 b.2 || cfg.lt b.2 a.2

def noTiesL (cfg : Cfg κ) (vis : κ → Bool) : List (HandlerId × κ) → List (Committed κ) → Bool
  | _, [] => true
  | L, c :: cs => noTieL cfg vis (L ++ c.pushed) && noTiesL cfg vis (pendL L c) cs

theorem noTies_of_check : ∀ (cs : List (Committed κ)) (p : Pend κ) (L : List (HandlerId × κ)),
    (∀ h t, p h = some t → (h, t) ∈ L) → noTiesL cfg vis L cs = true → NoTies cfg vis p cs := by
  intro cs
  induction cs with
  | nil => intro _ _ _ _; trivial
  | cons c cs ih =>
    intro p L cover chk
    simp only [noTiesL, Bool.and_eq_true] at chk
    have cover1 : ∀ h t, pendPushed p c h = some t → (h, t) ∈ L ++ c.pushed := by
      intro h t e
      rcases pushAll_some _ _ e with h1 | h1
      · exact List.mem_append_left _ (cover h t h1)
      · exact List.mem_append_right _ h1
    refine ⟨?_, ih _ (pendL L c) ?_ chk.2⟩
    · intro h h' t t' e e' v v' hne
      have := List.all_eq_true.mp (List.all_eq_true.mp chk.1 _ (cover1 h t e)) _ (cover1 h' t' e')
      simp only [Bool.or_eq_true, beq_iff_eq, Bool.not_eq_true', v, v'] at this
      rcases this with (((h1 | h1) | h1) | h1) | h1
      · exact absurd h1 hne
      · cases h1
      · cases h1
      · exact Or.inl h1
      · exact Or.inr h1
    · intro h t e
      have e' : dropAll (pendPushed p c) c.trashed h = some t := e
      rw [dropAll_eq] at e'
      split at e'
      · cases e'
      · next hn =>
        exact List.mem_filter.mpr ⟨cover1 h t e', by simpa using hn⟩

end notie

/-! ### non-vacuity: a concrete small configuration and a run of it on which every hypothesis above holds -/

namespace Example

/-- times are naturals compared by `<`; sentinel `0`; "infinite" = `≥ 1000` -/
def natCfg : Cfg Nat := ⟨fun a b => decide (a < b), 0, fun t => decide (t < 1000), fun _ => ⟨7, 99, 5⟩⟩

theorem natOrd : StrictWeak natCfg where
  irrefl a := by simp [natCfg]
  trans a b c := by simp only [natCfg, decide_eq_true_eq]; omega
  ntrans a b c := by simp only [natCfg, decide_eq_false_iff_not]; omega
  bot_min a := by simp [natCfg]

/-- the hypothesis `hfin` of `list_refines_spec` -/
theorem natFin : ∀ a b, natCfg.finite a = true → natCfg.finite b = false → natCfg.lt a b = true := by
  intro a b; simp only [natCfg, decide_eq_true_eq, decide_eq_false_iff_not]; omega

/-- 0: a factor tagger (two handlers: 0, 1), 1: sampling (handler 2), 2: end of run (handler 3), 3: start of run (handler 4) -/
def tiny : Wiring :=
  { name := "tiny", labels := [],
    taggers := [
      ⟨"coulomb", .factorTypeMap, "", .interaction, [0], [0], [], [], 2, none⟩,
      ⟨"sampling", .noInState, "", .sampling, [1], [1], [], [], 1, none⟩,
      ⟨"end_of_run", .noInState, "", .endOfRun, [2], [0, 1, 2], [], [], 1, none⟩,
      ⟨"start_of_run", .noInState, "", .startOfRun, [0, 1, 2], [3], [], [], 1, none⟩ ] }

/-- only the factor handlers take an in-state -/
def M : MWire := MWire.ofWiring tiny 3 (fun h => decide (h < 2))

theorem static : Med.Static M := static_ofWiring tiny 3 _ (by decide) (by decide)
/-- … and the configuration passes the whole `WiringSound` test, so `static_of_wiringSound` applies as well -/
example : WiringSound tiny = true ∧ tiny.start? = some 3 := by decide +kernel

def ys : TaggerIdx → List IdTuple := fun T => if T = 0 then [some [[5], [6]]] else [none]

/-- six legs: start of run at 0; the factor event of handler 1 at 7 (a motion-changing commit: handler 1 is trashed and
handed out again); its new event at 8; then handler 1 gets an INFINITE candidate time (never in the heap, but in the list), a
sampling event at 10, another at 20, the end of run at 30 (trashing the event with the infinite time as well) -/
def o0 : Oracle Nat := ⟨ys, fun _ => 0⟩
def o1 : Oracle Nat := ⟨ys, fun h => if h = 1 then 7 else if h = 2 then 10 else 30⟩
def o2 : Oracle Nat := ⟨ys, fun _ => 8⟩
def o3 : Oracle Nat := ⟨ys, fun _ => 1000⟩
def o4 : Oracle Nat := ⟨ys, fun _ => 20⟩
def o5 : Oracle Nat := ⟨ys, fun _ => 35⟩
def os : List (Oracle Nat) := [o0, o1, o2, o3, o4, o5]

def specRun := runLegs M (specI natCfg) (MedState.init (specI natCfg) M.w) os
def listRun := runLegs M (listI natCfg) (MedState.init (listI natCfg) M.w) os
def heapRun := runLegs M (heapI natCfg 4294967296) (MedState.init (heapI natCfg 4294967296) M.w) os

/-- the run of the spec-level loop: committed handlers 4, 1, 1, 2, 2, 3 at times 0, 7, 8, 10, 20, 30; it ends with the
end-of-run commit, which trashes the pending events of all three taggers (handler 1's has the infinite time 1000) -/
theorem specRun_eq :
    specRun.1.map (·.handler) = [4, 1, 1, 2, 2, 3] ∧ specRun.1.map (·.time) = [0, 7, 8, 10, 20, 30] ∧
    specRun.1.map (·.pushed) = [[(4, 0)], [(1, 7), (2, 10), (3, 30)], [(1, 8)], [(1, 1000)], [(2, 20)], [(2, 35)]] ∧
    specRun.1.map (·.trashed) = [[4], [1], [1], [2], [2], [1, 2, 3]] ∧
    specRun.1.map (·.stop) = [false, false, false, false, false, true] ∧ specRun.2.isSome = true := by decide +kernel

theorem specRun_some : specRun.2.isSome = true := specRun_eq.2.2.2.2.2

/-- the list loop and the heap loop (model of `heap.c` included) make the same commits, computed … -/
example : listRun.1.map (·.handler) = specRun.1.map (·.handler) ∧ listRun.1.map (·.trashed) = specRun.1.map (·.trashed) ∧
    heapRun.1.map (·.handler) = specRun.1.map (·.handler) ∧ heapRun.1.map (·.trashed) = specRun.1.map (·.trashed) := by
  decide +kernel

theorem specRun_ok : specRun = (specRun.1, some (specRun.2.get specRun_some)) :=
  Prod.ext rfl (Option.some_get _).symm

/-- … and by the refinement theorems, whose hypotheses (`Static`, a run without exception, `NoTies`) hold here -/
theorem noTies : NoTies natCfg natCfg.finite (fun _ => none) specRun.1 :=
  noTies_of_check _ _ [] (fun h t e => by cases e) (by decide +kernel)

example : ∃ st', listRun = (specRun.1, some st') :=
  let ⟨st', h, _⟩ := list_refines_spec natOrd natFin static specRun_ok noTies; ⟨st', h⟩
example : ∃ st', heapRun = (specRun.1, some st') :=
  let ⟨st', h, _⟩ := heap_refines_spec natOrd (W := 4294967296) (by decide) static specRun_ok noTies; ⟨st', h⟩

/-- the run as a `Run` (hypothesis of `sched_mirrors_running`, `committed_is_running`, `trashed_never_committed_run`,
`commit_times_sorted`, `guard_never_fires`) -/
theorem run : ∃ os', Run M (specI natCfg) (MedState.init (specI natCfg) M.w) os' specRun.1 (specRun.2.get specRun_some) :=
  runLegs_run M (specI natCfg) os _ _ _ specRun_ok

/-- `trashed_never_committed`: handler 1 is trashed in leg 1 and committed in leg 2 — it was handed out again in leg 2 -/
example : (specRun.1[1]?.map (·.trashed)) = some [1] ∧ (specRun.1[2]?.map (·.handler)) = some 1 := by decide +kernel

/-- `commit_times_sorted`: every candidate time of the run is not before the previous commit time -/
theorem candOK : Legs (CandOK natCfg) (fun _ => none) natCfg.bot specRun.1 := by
  have h : ∀ (cs : List (Committed Nat)) (p : Pend Nat) (l : Nat),
      (cs.foldr (fun c (acc : Nat → Bool) l => c.pushed.all (fun q => !natCfg.lt q.2 l) && acc c.time) (fun _ => true)) l = true →
      Legs (CandOK natCfg) p l cs := by
    intro cs
    induction cs with
    | nil => intro _ _ _; trivial
    | cons c cs ih =>
      intro p l hc
      simp only [List.foldr_cons, Bool.and_eq_true, List.all_eq_true, Bool.not_eq_true'] at hc
      exact ⟨fun q hq => hc.1 q hq, ih _ _ hc.2⟩
  exact h _ _ _ (by decide +kernel)

example := let ⟨_, r⟩ := run; commit_times_sorted_pairwise natOrd (specLaws natOrd) static r candOK

/-! `no_stale_event_committed` applies: leg 1 commits a motion-changing event of the factor tagger 0 (handler 1, pending for the
bound tagger 0, is trashed: clause (h)); handler 1 IS committed in the next leg — and was handed out again in that leg, so the
committed event is the one computed after the motion-changing commit.  The abstract motion world is the one of
`JF.C08.Example` (`moves` everything, `bound` = tagger 0). -/

theorem ok_of_toOption {ε α : Type} {e : Except ε α} {x : α} (h : e.toOption = some x) : e = .ok x := by
  cases e with
  | error _ => simp [Except.toOption] at h
  | ok y => simp only [Except.toOption, Option.some.injEq] at h; rw [h]

def rA := runLegs M (specI natCfg) (MedState.init (specI natCfg) M.w) [o0]
theorem rA_some : rA.2.isSome = true := by decide +kernel
def stA := rA.2.get rA_some
def legB := (leg M (specI natCfg) stA o1).toOption
theorem legB_some : legB.isSome = true := by decide +kernel
def stB := (legB.get legB_some).1
def cB := (legB.get legB_some).2
def rC := runLegs M (specI natCfg) stB [o2, o3, o4, o5]
theorem rC_some : rC.2.isSome = true := by decide +kernel
theorem rC_first : (rC.1[0]?).isSome = true := by decide +kernel
def cj := (rC.1[0]?).get rC_first

example : ∃ (i : Nat) (ci : Committed Nat), i ≤ 0 ∧ rC.1[i]? = some ci ∧ (1 : HandlerId) ∈ ci.created.map Prod.fst := by
  obtain ⟨osA, runA⟩ := runLegs_run M (specI natCfg) [o0] _ stA rA.1 (Prod.ext rfl (Option.some_get rA_some).symm)
  have hleg : leg M (specI natCfg) stA o1 = .ok (stB, cB) := ok_of_toOption (Option.some_get legB_some).symm
  obtain ⟨osC, runC⟩ := runLegs_run M (specI natCfg) [o2, o3, o4, o5] stB (rC.2.get rC_some) rC.1
    (Prod.ext rfl (Option.some_get rC_some).symm)
  refine no_stale_event_committed (specLaws natOrd) static runA hleg runC C08.Example.M
    (⟨⟨midAct M stA o1, fun _ => none, 5⟩, fun _ => 5⟩ : C08.MS Nat) rfl (E := 0) (by decide +kernel) (g' := 5)
    ⟨fun h => absurd trivial h, fun _ T hb => Or.inl (by rw [show T = 0 from hb]; decide +kernel)⟩ trivial (T := 0) rfl (h := 1)
    (by decide +kernel) (j := 0) (cj := cj) (Option.some_get rC_first).symm (by decide +kernel)

/-- `guard_never_fires` / `committed_is_running` apply to leg 1 of the run (state `stA` after the start-of-run leg) -/
example : ∀ h, leg M (specI natCfg) stA o1 ≠ .error (.schedGuard h) := by
  obtain ⟨osA, runA⟩ := runLegs_run M (specI natCfg) [o0] _ stA rA.1 (Prod.ext rfl (Option.some_get rA_some).symm)
  exact guard_never_fires (specLaws natOrd) static runA o1 (by decide +kernel)

example : ∃ E, owner M.w cB.handler = some E ∧ cB.handler ∈ (getT (midAct M stA o1) E).running := by
  obtain ⟨osA, runA⟩ := runLegs_run M (specI natCfg) [o0] _ stA rA.1 (Prod.ext rfl (Option.some_get rA_some).symm)
  have hleg : leg M (specI natCfg) stA o1 = .ok (stB, cB) := ok_of_toOption (Option.some_get legB_some).symm
  obtain ⟨_, E, h1, h2, _⟩ := committed_is_running (specLaws natOrd) static runA hleg
  exact ⟨E, h1, h2⟩

theorem sr1 : (specRun.1[1]?).isSome = true := by decide +kernel
theorem sr2 : (specRun.1[2]?).isSome = true := by decide +kernel

/-- `trashed_never_committed_run` applies with `k = 1`, `j = 2`, `h = 1` (see above) -/
example : ∃ (i : Nat) (ci : Committed Nat), 1 < i ∧ i ≤ 2 ∧ specRun.1[i]? = some ci ∧ (1 : HandlerId) ∈ ci.created.map Prod.fst := by
  obtain ⟨_, r⟩ := run
  exact trashed_never_committed_run (specLaws natOrd) static r (k := 1) (j := 2) (h := 1)
    (Option.some_get sr1).symm (by decide +kernel) (by decide) (Option.some_get sr2).symm (by decide +kernel)

end Example

end JF.MediatorLoop
