import JF.Props.C12
import JF.Lemmas.CompositeChainSteps
import JF.Lemmas.Kinematics
/-!
# C12 / C07 for composite objects — the ONE-CHAIN invariant of the two-level machine

`JF/Props/C12.lean` proves "every event keeps every composite object consistent with its point masses" under the
admissibility predicate `Adm`, which *assumes* state facts that the code only asserts locally: the object receiving the
velocity from another object is at rest as a whole (`exchange`, `eocLeaf`, `eocRoot`, `pass`), only leaf `j` of the source
moves (`eocLeaf`, `toRoot`), all leaves of the source move with one velocity (`pass`, `eocRoot`, `toLeaf`), the object that
starts is at rest (`start`).  Here these facts are DERIVED from a system-level invariant, and the C07 clause "after every
event there is exactly one moving chain: … a single point mass or all point masses of one composite object, one velocity,
speed = initial speed" is proved for the two-level model (`chain_clause`).

* `OneChain cs sq` (`JF/Lemmas/CompositeChain.lean`): exactly one object has a moving leaf; in it exactly one leaf or all
  leaves move; the moving leaves share one velocity of squared norm `sq`; all other objects are at rest.
* `AdmW` (weak admissibility): only what the caller chooses and the code checks by indexing.  No "at rest" assumption on
  any object, no assumption on which leaves of the source move.
* **The one fact that is not derivable: the mode.**  `OneChain` + "leaf `(i, j)` moves" does not tell whether the chain is
  in leaf mode (one point mass moves) or in root mode (all point masses of object `i` move): leaf `(i, j)` moves in both.
  And the event kinds are NOT interchangeable: e.g. an `exchange` from leaf `(i, j)` to a leaf of another object, applied
  in root mode to an object with two leaves, satisfies all assertions of `_exchange_velocity` (and `Adm`), keeps every
  object consistent, and leaves TWO objects with moving leaves.  In the code the mode is the state of the activator's
  tags: the switcher event (`root_leaf_unit_active_switcher.py`) activates the event handlers of the other mode and
  deactivates the present ones; the in-states of the leaf-mode handlers are branches that contain only the two leaves
  concerned, so `_extract_active_leaf_unit` (`len(active_leaf_units) == 1`) cannot see the siblings.  The model state
  `List (CObj ℚ)` has no such component, so the mode is carried as a *ghost* value `Mode` along the event list
  (`modeStep`): `exchange`, `eocLeaf`, `toRoot` are leaf-mode kinds, `pass`, `eocRoot`, `toLeaf` root-mode kinds, `keep` and
  `snap` belong to both, `toRoot` / `toLeaf` switch, `start` fixes the first mode (`StartMode`).  This is a condition on the
  SEQUENCE OF EVENT KINDS only, not on the state.  `OneChainM cs sq m` is `OneChain` in mode `m`
  (`oneChain_iff : OneChain cs sq ↔ ∃ m, OneChainM cs sq m`).
  Consequently `admW_adm` / `step_oneChainM` carry the extra hypothesis `modeStep m e = some m'`.
-/
namespace JF.C12
open JF JF.Composite

/-- `nsq` is the squared norm used by C07 (`JF.Kin.normSq`) -/
theorem nsq_eq_normSq (v : List ℚ) : nsq v = JF.Kin.normSq v := rfl

/-! ### weak admissibility -/

/-- Weak admissibility of an event in a state: what the caller chooses and the code checks by indexing (evaluated, like
`Adm`, after the in-state has been time-sliced).
* indices in range: the objects / leaves named by the event exist (`… = some _`), the leaf chosen by the switcher exists;
* the source designated by the event is the moving one: leaf `(i, j)` moves (leaf-mode kinds), object `i` has a moving
  leaf (root-mode kinds);
* the target differs from the source (`exchange`: `i = i' → j ≠ j'`; `pass`: `iL ≠ iT`);
* the in-state `S` contains the source (`exchange`, `pass`);
* a new velocity has the box dimension, is non-zero, and for an end of chain has the squared norm of the old one;
* `snap`: the boundary is the coordinate reached at the event time;
* `start`: `P` lists distinct existing leaves, at least one. -/
def AdmW (d : Nat) (L : List ℚ) (cs : List (CObj ℚ)) : Composite.Ev ℚ → Prop
  | .keep _ _ => True
  | .snap t S i j dd x =>
    ∀ c, (sliceAt Ops.rat L t S cs)[i]? = some c →
      match j with
      | none => x = c.root.pos.getD dd 0
      | some j => ∀ l, c.leaves[j]? = some l → x = l.pos.getD dd 0
  | .exchange t S i j i' j' =>
    i ∈ S ∧ (i = i' → j ≠ j') ∧ ∃ a b v, leafOf (sliceAt Ops.rat L t S cs) i j = some a ∧ a.vel = some v ∧
      leafOf (sliceAt Ops.rat L t S cs) i' j' = some b
  | .pass t S iL iT =>
    iL ∈ S ∧ iL ≠ iT ∧ ∃ cL cT a, (sliceAt Ops.rat L t S cs)[iL]? = some cL ∧ (sliceAt Ops.rat L t S cs)[iT]? = some cT ∧
      a ∈ cL.leaves ∧ a.vel ≠ none
  | .eocLeaf t i j i' j' vn =>
    ∃ c0 c' a b old, cs[i]? = some c0 ∧ (sliceComp Ops.rat L t c0).leaves[j]? = some a ∧ a.vel = some old ∧
      (sliceAt Ops.rat L t [i] cs)[i']? = some c' ∧ c'.leaves[j']? = some b ∧ NZ vn ∧ vn.length = d ∧ nsq vn = nsq old
  | .eocRoot t i i' vn =>
    ∃ c c' a old, (sliceAt Ops.rat L t [i] cs)[i]? = some c ∧ (sliceAt Ops.rat L t [i] cs)[i']? = some c' ∧
      a ∈ c.leaves ∧ a.vel = some old ∧ NZ vn ∧ vn.length = d ∧ nsq vn = nsq old
  | .toLeaf t i ch =>
    ∃ co a, (sliceAt Ops.rat L t [i] cs)[i]? = some co ∧ a ∈ co.leaves ∧ a.vel ≠ none ∧ ch < co.leaves.length
  | .toRoot t i =>
    ∃ co a, (sliceAt Ops.rat L t [i] cs)[i]? = some co ∧ a ∈ co.leaves ∧ a.vel ≠ none
  | .start i P v =>
    ∃ c, cs[i]? = some c ∧ P.Nodup ∧ (∀ k ∈ P, k < c.leaves.length) ∧ P ≠ [] ∧ NZ v ∧ v.length = d

/-- the ghost mode: which event kinds are possible in which mode, and the mode afterwards (`none`: the kind does not
occur in this mode; a second `start` never occurs) -/
def modeStep : Mode → Composite.Ev ℚ → Option Mode
  | m, .keep _ _ => some m
  | m, .snap _ _ _ _ _ _ => some m
  | .leaf, .exchange _ _ _ _ _ _ => some .leaf
  | .leaf, .eocLeaf _ _ _ _ _ _ => some .leaf
  | .leaf, .toRoot _ _ => some .root
  | .root, .pass _ _ _ _ => some .root
  | .root, .eocRoot _ _ _ _ => some .root
  | .root, .toLeaf _ _ _ => some .leaf
  | _, _ => none

/-- mode after `start i P v`: leaf mode if one leaf is listed, root mode if all leaves of the object are listed (both for
an object with a single leaf) -/
def StartMode (cs : List (CObj ℚ)) (i : Nat) (P : List Nat) : Mode → Prop
  | .leaf => P.length = 1
  | .root => ∃ c, cs[i]? = some c ∧ ∀ k, k < c.leaves.length → k ∈ P

/-! ### one event -/

/-- **(a) + (b)** for every event kind after the start: under the invariants, weak admissibility implies the admissibility
`Adm` of `JF/Props/C12.lean`, and the event keeps the one-chain invariant (same squared speed, mode given by `modeStep`). -/
theorem step_chain_aux {d : Nat} {L : List ℚ} (hL : BoxOK d L) {cs : List (CObj ℚ)} {sq : ℚ} {m m' : Mode}
    (h : AllGood d L cs) (hc : OneChainM cs sq m) (e : Composite.Ev ℚ) (hm : modeStep m e = some m')
    (ha : AdmW d L cs e) : Adm d L cs e ∧ OneChainM (step Ops.rat isZ L cs e) sq m' := by
  cases e with
  | keep t S =>
    refine ⟨trivial, ?_⟩
    cases m with
    | leaf =>
      simp only [modeStep, Option.some.injEq] at hm; subst hm
      obtain ⟨i, j, v, hv, hM⟩ := hc
      exact ⟨i, j, v, hv, keep_chain (velInv_one j v) hM L t S⟩
    | root =>
      simp only [modeStep, Option.some.injEq] at hm; subst hm
      obtain ⟨i, v, hv, hM⟩ := hc
      exact ⟨i, v, hv, keep_chain (velInv_all v) hM L t S⟩
  | snap t S i' j dd x =>
    refine ⟨ha, ?_⟩
    cases m with
    | leaf =>
      simp only [modeStep, Option.some.injEq] at hm; subst hm
      obtain ⟨i, j0, v, hv, hM⟩ := hc
      exact ⟨i, j0, v, hv, snap_chain (velInv_one j0 v) hM L t S i' j dd x⟩
    | root =>
      simp only [modeStep, Option.some.injEq] at hm; subst hm
      obtain ⟨i, v, hv, hM⟩ := hc
      exact ⟨i, v, hv, snap_chain (velInv_all v) hM L t S i' j dd x⟩
  | exchange t S i j i' j' =>
    cases m with
    | root => simp [modeStep] at hm
    | leaf =>
      simp only [modeStep, Option.some.injEq] at hm; subst hm
      obtain ⟨i0, j0, v0, hv, hM⟩ := hc
      obtain ⟨hiS, hne, a, b, v, h1, h2, h3⟩ := ha
      obtain ⟨hbv, hrest, hM'⟩ := exchange_chain hM t S i j i' j' h1 h2 h3 hne
      exact ⟨⟨hiS, a, b, v, h1, h2, h3, hbv, hrest⟩, i', j', v0, hv, hM'⟩
  | pass t S iL iT =>
    cases m with
    | leaf => simp [modeStep] at hm
    | root =>
      simp only [modeStep, Option.some.injEq] at hm; subst hm
      obtain ⟨i0, v0, hv, hM⟩ := hc
      obtain ⟨hiS, hne, cL, cT, a, h1, h2, h3, h4⟩ := ha
      have hTne : cT.leaves ≠ [] := ((sliceAt_spec hL t S h).1.get h2).wf.2.2
      obtain ⟨hall, hrest, hM'⟩ := pass_chain hM t S iL iT hne h1 h2 h3 h4 hTne
      exact ⟨⟨hiS, hne, cL, cT, v0, h1, h2, hall, hrest⟩, iT, v0, hv, hM'⟩
  | eocLeaf t i j i' j' vn =>
    cases m with
    | root => simp [modeStep] at hm
    | leaf =>
      simp only [modeStep, Option.some.injEq] at hm; subst hm
      obtain ⟨i0, j0, v0, hv, hM⟩ := hc
      obtain ⟨c0, c', a, b, old, h1, h2, h3, h4, h5, h6, h7, h8⟩ := ha
      obtain ⟨hold, hmode, hrest, hM'⟩ := eocLeaf_chain hM t i j i' j' vn h1 h2 h3 h4 h5 h6
      exact ⟨⟨c0, c', a, b, old, h1, h2, h3, hmode, h4, h5, hrest, h6, h7⟩, i', j', vn, by rw [h8, hold, hv], hM'⟩
  | eocRoot t i i' vn =>
    cases m with
    | leaf => simp [modeStep] at hm
    | root =>
      simp only [modeStep, Option.some.injEq] at hm; subst hm
      obtain ⟨i0, v0, hv, hM⟩ := hc
      obtain ⟨c, c', a, old, h1, h2, h3, h4, h5, h6, h7⟩ := ha
      have hne' : c'.leaves ≠ [] := ((sliceAt_spec hL t [i] h).1.get h2).wf.2.2
      obtain ⟨hall, hrest, hM'⟩ := eocRoot_chain hM t i i' vn h1 h2 h3 (by rw [h4]; simp) h5 hne'
      have hold : old = v0 := by
        have := hall a h3
        rw [h4] at this
        exact Option.some.inj this
      exact ⟨⟨c, c', v0, h1, h2, hall, hrest, h5, h6⟩, i', vn, by rw [h7, hold, hv], hM'⟩
  | toLeaf t i ch =>
    cases m with
    | leaf => simp [modeStep] at hm
    | root =>
      simp only [modeStep, Option.some.injEq] at hm; subst hm
      obtain ⟨i0, v0, hv, hM⟩ := hc
      obtain ⟨co, a, h1, h2, h3, h4⟩ := ha
      obtain ⟨hall, hM'⟩ := toLeaf_chain hM t i ch h1 h2 h3 h4
      exact ⟨⟨co, v0, h1, hall⟩, i, ch, v0, hv, hM'⟩
  | toRoot t i =>
    cases m with
    | root => simp [modeStep] at hm
    | leaf =>
      simp only [modeStep, Option.some.injEq] at hm; subst hm
      obtain ⟨i0, j0, v0, hv, hM⟩ := hc
      obtain ⟨co, a, h1, h2, h3⟩ := ha
      obtain ⟨⟨ua, g1, g2, g3, g4⟩, hM'⟩ := toRoot_chain hM t i h1 h2 h3
      exact ⟨⟨co, j0, ua, v0, h1, g1, g2, g3, g4⟩, i, v0, hv, hM'⟩
  | start i P v => cases m <;> simp [modeStep] at hm

/-- **(a)** weak admissibility + the invariants imply the admissibility `Adm` of `JF/Props/C12.lean`: the "at rest" and
"which leaves of the source move" facts are consequences of the one-chain invariant -/
theorem admW_adm {d : Nat} {L : List ℚ} (hL : BoxOK d L) {cs : List (CObj ℚ)} {sq : ℚ} {m m' : Mode}
    (h : AllGood d L cs) (hc : OneChainM cs sq m) (e : Composite.Ev ℚ) (hm : modeStep m e = some m')
    (ha : AdmW d L cs e) : Adm d L cs e :=
  (step_chain_aux hL h hc e hm ha).1

/-- **(b)** every event kind keeps the one-chain invariant, with the same squared speed -/
theorem step_oneChainM {d : Nat} {L : List ℚ} (hL : BoxOK d L) {cs : List (CObj ℚ)} {sq : ℚ} {m m' : Mode}
    (h : AllGood d L cs) (hc : OneChainM cs sq m) (e : Composite.Ev ℚ) (hm : modeStep m e = some m')
    (ha : AdmW d L cs e) : OneChainM (step Ops.rat isZ L cs e) sq m' :=
  (step_chain_aux hL h hc e hm ha).2

/-- mode-free form of (b) -/
theorem step_oneChain {d : Nat} {L : List ℚ} (hL : BoxOK d L) {cs : List (CObj ℚ)} {sq : ℚ} {m m' : Mode}
    (h : AllGood d L cs) (hc : OneChainM cs sq m) (e : Composite.Ev ℚ) (hm : modeStep m e = some m')
    (ha : AdmW d L cs e) : OneChain (step Ops.rat isZ L cs e) sq :=
  (oneChain_iff _ _).mpr ⟨m', step_oneChainM hL h hc e hm ha⟩

/-- start of run, (a): in the state at rest, weak admissibility implies `Adm` -/
theorem admW_adm_start {d : Nat} {L : List ℚ} {cs : List (CObj ℚ)} (hR : AllRest cs) {i : Nat} {P : List Nat} {v : List ℚ}
    (ha : AdmW d L cs (.start i P v)) : Adm d L cs (.start i P v) := by
  obtain ⟨c, h1, h2, h3, h4, h5, h6⟩ := ha
  exact ⟨c, h1, hR c (List.mem_of_getElem? h1), h2, h3, h4, h5, h6⟩

/-- start of run, (b): the start-of-run event establishes the one-chain invariant from the state at rest, with the
squared speed of the start velocity -/
theorem start_oneChainM {d : Nat} {L : List ℚ} {cs : List (CObj ℚ)} (hR : AllRest cs) {i : Nat} {P : List Nat} {v : List ℚ}
    (ha : AdmW d L cs (.start i P v)) {m : Mode} (hm : StartMode cs i P m) :
    OneChainM (step Ops.rat isZ L cs (.start i P v)) (nsq v) m := by
  obtain ⟨c, h1, _, h3, h4, _, _⟩ := ha
  obtain ⟨hleaf, hroot⟩ := start_chain hR L i P v h1 h3
  cases m with
  | leaf =>
    obtain ⟨k0, hk0⟩ := List.length_eq_one_iff.mp hm
    exact ⟨i, k0, v, rfl, hleaf k0 hk0⟩
  | root =>
    obtain ⟨c1, hc1, hcov⟩ := hm
    rw [h1] at hc1; simp only [Option.some.injEq] at hc1; subst hc1
    obtain ⟨k0, hk0⟩ := List.exists_mem_of_ne_nil _ h4
    have hne : c.leaves ≠ [] := List.ne_nil_of_length_pos (by have := h3 k0 hk0; omega)
    exact ⟨i, v, rfl, hroot hcov hne⟩

theorem start_oneChain {d : Nat} {L : List ℚ} {cs : List (CObj ℚ)} (hR : AllRest cs) {i : Nat} {P : List Nat} {v : List ℚ}
    (ha : AdmW d L cs (.start i P v)) {m : Mode} (hm : StartMode cs i P m) :
    OneChain (step Ops.rat isZ L cs (.start i P v)) (nsq v) :=
  (oneChain_iff _ _).mpr ⟨m, start_oneChainM hR ha hm⟩

/-! ### event lists -/

/-- every event of the history (after the start) is weakly admissible in the state it is applied to, and its kind is
possible in the current mode -/
def AdmWRun (d : Nat) (L : List ℚ) : Mode → List (CObj ℚ) → List (Composite.Ev ℚ) → Prop
  | _, _, [] => True
  | m, cs, e :: es => ∃ m', modeStep m e = some m' ∧ AdmW d L cs e ∧ AdmWRun d L m' (step Ops.rat isZ L cs e) es

/-- a weakly admissible history from the state at rest: the start-of-run event, then `es` -/
def AdmWStart (d : Nat) (L : List ℚ) (cs : List (CObj ℚ)) (i : Nat) (P : List Nat) (v : List ℚ)
    (es : List (Composite.Ev ℚ)) : Prop :=
  AdmW d L cs (.start i P v) ∧ ∃ m, StartMode cs i P m ∧ AdmWRun d L m (step Ops.rat isZ L cs (.start i P v)) es

theorem admWRun_take {d : Nat} {L : List ℚ} : ∀ (es : List (Composite.Ev ℚ)) (n : Nat) (m : Mode) (cs : List (CObj ℚ)),
    AdmWRun d L m cs es → AdmWRun d L m cs (es.take n)
  | [], n, _, _, _ => by simp [AdmWRun]
  | e :: es, 0, _, _, _ => by simp [AdmWRun]
  | e :: es, n + 1, m, cs, ⟨m', h1, h2, h3⟩ => by
    rw [List.take_succ_cons]
    exact ⟨m', h1, h2, admWRun_take es n m' _ h3⟩

/-- **(c), induction over the event list.** From a state satisfying `AllGood` and the one-chain invariant, along every
weakly admissible history: the history is admissible in the sense of `JF/Props/C12.lean`, and the reached state satisfies
`AllGood` and the one-chain invariant with the same squared speed. -/
theorem run_oneChainM {d : Nat} {L : List ℚ} (hL : BoxOK d L) {sq : ℚ} : ∀ (es : List (Composite.Ev ℚ)) (m : Mode)
    (cs : List (CObj ℚ)), AllGood d L cs → OneChainM cs sq m → AdmWRun d L m cs es →
    AdmRun d L cs es ∧ AllGood d L (run Ops.rat isZ L cs es) ∧ ∃ m', OneChainM (run Ops.rat isZ L cs es) sq m'
  | [], m, _, h, hc, _ => ⟨trivial, h, m, hc⟩
  | e :: es, m, cs, h, hc, ⟨m', hm, ha, hes⟩ => by
    obtain ⟨hadm, hc'⟩ := step_chain_aux hL h hc e hm ha
    obtain ⟨r1, r2, r3⟩ := run_oneChainM hL es m' _ (step_good hL h e hadm) hc' hes
    exact ⟨⟨hadm, r1⟩, r2, r3⟩

theorem run_oneChain {d : Nat} {L : List ℚ} (hL : BoxOK d L) {sq : ℚ} (es : List (Composite.Ev ℚ)) (m : Mode)
    (cs : List (CObj ℚ)) (h : AllGood d L cs) (hc : OneChainM cs sq m) (ha : AdmWRun d L m cs es) :
    OneChain (run Ops.rat isZ L cs es) sq :=
  (oneChain_iff _ _).mpr (run_oneChainM hL es m cs h hc ha).2.2

/-- **C07, chain clause for composite objects** (readable form of `OneChain`): there are an object `i` and a velocity `v`
with squared norm `sq` such that every moving point mass of the system belongs to object `i` and has velocity `v`, and the
moving point masses are a single point mass or all point masses of object `i` (which has at least one). -/
theorem chain_clause {cs : List (CObj ℚ)} {sq : ℚ} (h : OneChain cs sq) :
    ∃ (i : Nat) (c : CObj ℚ) (v : List ℚ), cs[i]? = some c ∧ nsq v = sq ∧
      (∀ (k : Nat) (ck : CObj ℚ) (l : PUnit ℚ), cs[k]? = some ck → l ∈ ck.leaves → l.vel ≠ none → k = i ∧ l.vel = some v) ∧
      ((∃ (j : Nat) (a : PUnit ℚ), c.leaves[j]? = some a ∧ a.vel = some v ∧
          ∀ (k : Nat) (l : PUnit ℚ), c.leaves[k]? = some l → l.vel ≠ none → k = j) ∨
       (c.leaves ≠ [] ∧ ∀ l ∈ c.leaves, l.vel = some v)) := by
  obtain ⟨i, c, v, hc, hv, hmode, ho⟩ := h
  refine ⟨i, c, v, hc, hv, ?_, ?_⟩
  · intro k ck l hk hl hne
    have hki : k = i := by
      by_contra hki
      exact hne (ho k ck hk hki l hl)
    subst hki
    rw [hc] at hk; simp only [Option.some.injEq] at hk; subst hk
    refine ⟨rfl, ?_⟩
    rcases hmode with ⟨j, ⟨a, ha, hav⟩, hoth⟩ | hall
    · obtain ⟨k', hk'⟩ := List.getElem?_of_mem hl
      by_cases hkj : k' = j
      · subst hkj
        rw [ha] at hk'; simp only [Option.some.injEq] at hk'; subst hk'; exact hav
      · exact absurd (hoth k' l hk' hkj) hne
    · exact hall.2 l hl
  · rcases hmode with ⟨j, ⟨a, ha, hav⟩, hoth⟩ | hall
    · refine Or.inl ⟨j, a, ha, hav, ?_⟩
      intro k l hk hne
      by_contra hkj
      exact hne (hoth k l hk hkj)
    · exact Or.inr hall

/-- **C12 without the at-rest hypotheses, and C07's chain clause for composite objects.**
From an initial state at rest that satisfies `AllGood` (e.g. the random node creators, `dipole_initial_good`,
`water_initial_good`), for the start-of-run event followed by ANY event list whose events satisfy only the weak
admissibility `AdmW` (and whose kinds follow the mode protocol): the history is admissible in the sense of
`JF/Props/C12.lean`, and the reached state satisfies `AllGood`, `OneChain` with the squared speed of the start velocity,
and `RootConsistent` for every object. -/
theorem run_rootConsistent_chain {d : Nat} {L : List ℚ} (hL : BoxOK d L) (cs : List (CObj ℚ)) (h : AllGood d L cs)
    (hR : AllRest cs) (i : Nat) (P : List Nat) (v : List ℚ) (es : List (Composite.Ev ℚ))
    (ha : AdmWStart d L cs i P v es) :
    AdmRun d L cs (.start i P v :: es) ∧
    AllGood d L (run Ops.rat isZ L cs (.start i P v :: es)) ∧
    OneChain (run Ops.rat isZ L cs (.start i P v :: es)) (nsq v) ∧
    ∀ c ∈ run Ops.rat isZ L cs (.start i P v :: es), RootConsistent L c := by
  obtain ⟨hs, m, hm, hes⟩ := ha
  have hadm := admW_adm_start hR hs
  have hg := step_good hL h _ hadm
  obtain ⟨r1, r2, r3⟩ := run_oneChainM hL es m _ hg (start_oneChainM hR hs hm) hes
  exact ⟨⟨hadm, r1⟩, r2, (oneChain_iff _ _).mpr r3, fun c hc => good_rootConsistent (r2 c hc)⟩

/-- the same after every event of the history ("every reached state"): the state after the start and the first `n`
events of `es` -/
theorem reached_rootConsistent_chain {d : Nat} {L : List ℚ} (hL : BoxOK d L) (cs : List (CObj ℚ)) (h : AllGood d L cs)
    (hR : AllRest cs) (i : Nat) (P : List Nat) (v : List ℚ) (es : List (Composite.Ev ℚ))
    (ha : AdmWStart d L cs i P v es) (n : Nat) :
    AllGood d L (run Ops.rat isZ L cs (.start i P v :: es.take n)) ∧
    OneChain (run Ops.rat isZ L cs (.start i P v :: es.take n)) (nsq v) ∧
    ∀ c ∈ run Ops.rat isZ L cs (.start i P v :: es.take n), RootConsistent L c := by
  obtain ⟨hs, m, hm, hes⟩ := ha
  exact (run_rootConsistent_chain hL cs h hR i P v (es.take n) ⟨hs, m, hm, admWRun_take es n m _ hes⟩).2

/-- C07's chain clause after every weakly admissible history from rest -/
theorem run_chain_clause {d : Nat} {L : List ℚ} (hL : BoxOK d L) (cs : List (CObj ℚ)) (h : AllGood d L cs)
    (hR : AllRest cs) (i : Nat) (P : List Nat) (v : List ℚ) (es : List (Composite.Ev ℚ))
    (ha : AdmWStart d L cs i P v es) :
    ∃ (i' : Nat) (c : CObj ℚ) (w : List ℚ), (run Ops.rat isZ L cs (.start i P v :: es))[i']? = some c ∧ nsq w = nsq v ∧
      (∀ (k : Nat) (ck : CObj ℚ) (l : PUnit ℚ), (run Ops.rat isZ L cs (.start i P v :: es))[k]? = some ck → l ∈ ck.leaves →
        l.vel ≠ none → k = i' ∧ l.vel = some w) ∧
      ((∃ (j : Nat) (a : PUnit ℚ), c.leaves[j]? = some a ∧ a.vel = some w ∧
          ∀ (k : Nat) (l : PUnit ℚ), c.leaves[k]? = some l → l.vel ≠ none → k = j) ∨
       (c.leaves ≠ [] ∧ ∀ l ∈ c.leaves, l.vel = some w)) :=
  chain_clause (run_rootConsistent_chain hL cs h hR i P v es ha).2.2.1

/-! ### non-vacuity: the two dipole histories of `JF/Props/C12.lean` are weakly admissible from the state at rest -/

section examples

theorem ex_rest : AllRest [exC0, exC1] := by
  intro c hc
  simp only [List.mem_cons, List.not_mem_nil, or_false] at hc
  rcases hc with rfl | rfl <;>
  · intro l hl
    simp only [exC0, exC1, List.mem_cons, List.not_mem_nil, or_false] at hl
    rcases hl with rfl | rfl <;> rfl

/-- leaf mode: `exLeafHistory = start (leaf 0 of object 0) :: exchange :: eocLeaf :: keep` -/
theorem ex_leaf_admW : AdmWStart 2 exL [exC0, exC1] 0 [0] [1, 0]
    [.exchange ⟨0, 1/2⟩ [0] 0 0 0 1, .eocLeaf ⟨1, 0⟩ 0 1 1 0 [0, 1], .keep ⟨1, 1/2⟩ [1]] := by
  refine ⟨⟨exC0, rfl, by decide, by decide, by simp, ⟨0, by simp⟩, rfl⟩, .leaf, rfl, ?_⟩
  refine ⟨.leaf, rfl, ?_, .leaf, rfl, ?_, .leaf, rfl, trivial, trivial⟩
  · exact ⟨by simp, fun _ => by decide, ⟨[1/4, 1/2], some [1, 0], some ⟨0, 1/2⟩⟩, ⟨[1/4, 1/2], none, none⟩, [1, 0],
      by decide +kernel, rfl, by decide +kernel⟩
  · exact ⟨⟨⟨[3/4, 1/2], some [1/2, 0], some ⟨0, 1/2⟩⟩, [⟨[1/4, 1/2], none, none⟩, ⟨[1/4, 1/2], some [1, 0], some ⟨0, 1/2⟩⟩]⟩,
      ⟨⟨[1/10, 1/5], none, none⟩, [⟨[3/10, 1/5], none, none⟩, ⟨[9/10, 1/5], none, none⟩]⟩,
      ⟨[3/4, 1/2], some [1, 0], some ⟨1, 0⟩⟩, ⟨[3/10, 1/5], none, none⟩, [1, 0],
      by decide +kernel, by decide +kernel, rfl, by decide +kernel, by decide +kernel, ⟨1, by simp⟩, rfl,
      by norm_num [nsq]⟩

example : exLeafHistory = .start 0 [0] [1, 0] ::
    [.exchange ⟨0, 1/2⟩ [0] 0 0 0 1, .eocLeaf ⟨1, 0⟩ 0 1 1 0 [0, 1], .keep ⟨1, 1/2⟩ [1]] := rfl

/-- the main theorem applies to the leaf-mode history: no at-rest / which-leaves-move hypothesis was supplied -/
example : AdmRun 2 exL [exC0, exC1] exLeafHistory ∧ AllGood 2 exL (run Ops.rat isZ exL [exC0, exC1] exLeafHistory) ∧
    OneChain (run Ops.rat isZ exL [exC0, exC1] exLeafHistory) 1 ∧
    ∀ c ∈ run Ops.rat isZ exL [exC0, exC1] exLeafHistory, RootConsistent exL c := by
  have := run_rootConsistent_chain exBox _ ex_initial ex_rest _ _ _ _ ex_leaf_admW
  have e : nsq [1, 0] = 1 := by norm_num [nsq]
  rw [e] at this
  exact this

/-- root mode: `exRootHistory = start (both leaves of object 0) :: pass :: toLeaf :: toRoot :: eocRoot :: eocRoot` -/
theorem ex_root_admW : AdmWStart 2 exL [exC0, exC1] 0 [0, 1] [1, 0]
    [.pass ⟨0, 1/4⟩ [0, 1] 0 1, .toLeaf ⟨0, 1/2⟩ 1 1, .toRoot ⟨0, 3/4⟩ 1, .eocRoot ⟨1, 0⟩ 1 1 [0, 1],
     .eocRoot ⟨1, 1/2⟩ 1 0 [1, 0]] := by
  refine ⟨⟨exC0, rfl, by decide, by decide, by simp, ⟨0, by simp⟩, rfl⟩, .root, ⟨exC0, rfl, ?_⟩, ?_⟩
  · intro k hk
    have : k < 2 := hk
    match k, this with
    | 0, _ => simp
    | 1, _ => simp
  refine ⟨.root, rfl, ?_, .leaf, rfl, ?_, .root, rfl, ?_, .root, rfl, ?_, .root, rfl, ?_, trivial⟩
  · exact ⟨by simp, by decide,
      ⟨⟨[3/4, 1/2], some [1, 0], some ⟨0, 1/4⟩⟩, [⟨[0, 1/2], some [1, 0], some ⟨0, 1/4⟩⟩, ⟨[1/2, 1/2], some [1, 0], some ⟨0, 1/4⟩⟩]⟩,
      ⟨⟨[1/10, 1/5], none, none⟩, [⟨[3/10, 1/5], none, none⟩, ⟨[9/10, 1/5], none, none⟩]⟩,
      ⟨[0, 1/2], some [1, 0], some ⟨0, 1/4⟩⟩, by decide +kernel, by decide +kernel, by simp, by simp⟩
  · exact ⟨⟨⟨[7/20, 1/5], some [1, 0], some ⟨0, 1/2⟩⟩, [⟨[11/20, 1/5], some [1, 0], some ⟨0, 1/2⟩⟩, ⟨[3/20, 1/5], some [1, 0], some ⟨0, 1/2⟩⟩]⟩,
      ⟨[11/20, 1/5], some [1, 0], some ⟨0, 1/2⟩⟩, by decide +kernel, by simp, by simp, by simp⟩
  · exact ⟨⟨⟨[19/40, 1/5], some [1/2, 0], some ⟨0, 3/4⟩⟩, [⟨[11/20, 1/5], none, none⟩, ⟨[2/5, 1/5], some [1, 0], some ⟨0, 3/4⟩⟩]⟩,
      ⟨[2/5, 1/5], some [1, 0], some ⟨0, 3/4⟩⟩, by decide +kernel, by simp, by simp⟩
  · exact ⟨⟨⟨[29/40, 1/5], some [1, 0], some ⟨1, 0⟩⟩, [⟨[4/5, 1/5], some [1, 0], some ⟨1, 0⟩⟩, ⟨[13/20, 1/5], some [1, 0], some ⟨1, 0⟩⟩]⟩,
      ⟨⟨[29/40, 1/5], some [1, 0], some ⟨1, 0⟩⟩, [⟨[4/5, 1/5], some [1, 0], some ⟨1, 0⟩⟩, ⟨[13/20, 1/5], some [1, 0], some ⟨1, 0⟩⟩]⟩,
      ⟨[4/5, 1/5], some [1, 0], some ⟨1, 0⟩⟩, [1, 0], by decide +kernel, by decide +kernel, by simp, rfl, ⟨1, by simp⟩, rfl,
      by norm_num [nsq]⟩
  · exact ⟨⟨⟨[29/40, 7/10], some [0, 1], some ⟨1, 1/2⟩⟩, [⟨[4/5, 7/10], some [0, 1], some ⟨1, 1/2⟩⟩, ⟨[13/20, 7/10], some [0, 1], some ⟨1, 1/2⟩⟩]⟩,
      ⟨⟨[3/4, 1/2], none, none⟩, [⟨[0, 1/2], none, none⟩, ⟨[1/2, 1/2], none, none⟩]⟩,
      ⟨[4/5, 7/10], some [0, 1], some ⟨1, 1/2⟩⟩, [0, 1], by decide +kernel, by decide +kernel, by simp, rfl, ⟨0, by simp⟩, rfl,
      by norm_num [nsq]⟩

example : exRootHistory = .start 0 [0, 1] [1, 0] ::
    [.pass ⟨0, 1/4⟩ [0, 1] 0 1, .toLeaf ⟨0, 1/2⟩ 1 1, .toRoot ⟨0, 3/4⟩ 1, .eocRoot ⟨1, 0⟩ 1 1 [0, 1],
     .eocRoot ⟨1, 1/2⟩ 1 0 [1, 0]] := rfl

example : AdmRun 2 exL [exC0, exC1] exRootHistory ∧ AllGood 2 exL (run Ops.rat isZ exL [exC0, exC1] exRootHistory) ∧
    OneChain (run Ops.rat isZ exL [exC0, exC1] exRootHistory) 1 ∧
    ∀ c ∈ run Ops.rat isZ exL [exC0, exC1] exRootHistory, RootConsistent exL c := by
  have := run_rootConsistent_chain exBox _ ex_initial ex_rest _ _ _ _ ex_root_admW
  have e : nsq [1, 0] = 1 := by norm_num [nsq]
  rw [e] at this
  exact this

/-- a history with a cell-boundary event (the `snap` instance of `JF/Props/C12.lean`): leaf 0 of object 0 started at
x = 3/4 with velocity 1 and reaches the boundary x = 0 (≡ 1) at t = 1/4 -/
theorem ex_snap_admW : AdmWStart 2 exL [exC0, exC1] 0 [0] [1, 0] [.snap ⟨0, 1/4⟩ [0] 0 (some 0) 0 0] := by
  refine ⟨⟨exC0, rfl, by decide, by decide, by simp, ⟨0, by simp⟩, rfl⟩, .leaf, rfl, .leaf, rfl, ?_, trivial⟩
  intro c hc
  have : c = ⟨⟨[5/8, 1/2], some [1/2, 0], some ⟨0, 1/4⟩⟩, [⟨[0, 1/2], some [1, 0], some ⟨0, 1/4⟩⟩, ⟨[1/4, 1/2], none, none⟩]⟩ := by
    have h2 : (sliceAt Ops.rat exL ⟨0, 1/4⟩ [0] (step Ops.rat isZ exL [exC0, exC1] (.start 0 [0] [1, 0])))[0]?
        = some ⟨⟨[5/8, 1/2], some [1/2, 0], some ⟨0, 1/4⟩⟩, [⟨[0, 1/2], some [1, 0], some ⟨0, 1/4⟩⟩, ⟨[1/4, 1/2], none, none⟩]⟩ := by
      decide +kernel
    rw [h2] at hc
    exact (Option.some.inj hc).symm
  subst this
  intro l hl
  simp at hl
  subst hl
  rfl

example : OneChain (run Ops.rat isZ exL [exC0, exC1] [.start 0 [0] [1, 0], .snap ⟨0, 1/4⟩ [0] 0 (some 0) 0 0]) (nsq [1, 0]) :=
  (run_rootConsistent_chain exBox _ ex_initial ex_rest _ _ _ _ ex_snap_admW).2.2.1

/-- the mode hypothesis cannot be dropped: in ROOT mode (both leaves of object 0 move) the leaf-mode event kind `exchange`
from leaf (0, 0) to leaf (1, 0) satisfies `AdmW` and even the strong `Adm`, yet afterwards two objects have moving leaves -/
example : AdmW 2 exL (step Ops.rat isZ exL [exC0, exC1] (.start 0 [0, 1] [1, 0])) (.exchange ⟨0, 1/4⟩ [0] 0 0 1 0) ∧
    Adm 2 exL (step Ops.rat isZ exL [exC0, exC1] (.start 0 [0, 1] [1, 0])) (.exchange ⟨0, 1/4⟩ [0] 0 0 1 0) ∧
    ¬ ∃ sq, OneChain (run Ops.rat isZ exL [exC0, exC1] [.start 0 [0, 1] [1, 0], .exchange ⟨0, 1/4⟩ [0] 0 0 1 0]) sq := by
  have hst : run Ops.rat isZ exL [exC0, exC1] [.start 0 [0, 1] [1, 0], .exchange ⟨0, 1/4⟩ [0] 0 0 1 0]
      = [⟨⟨[3/4, 1/2], some [1/2, 0], some ⟨0, 1/4⟩⟩, [⟨[0, 1/2], none, none⟩, ⟨[1/2, 1/2], some [1, 0], some ⟨0, 1/4⟩⟩]⟩,
         ⟨⟨[1/10, 1/5], some [1/2, 0], some ⟨0, 1/4⟩⟩, [⟨[3/10, 1/5], some [1, 0], some ⟨0, 1/4⟩⟩, ⟨[9/10, 1/5], none, none⟩]⟩] := by
    decide +kernel
  refine ⟨?_, ?_, ?_⟩
  · exact ⟨by simp, fun h => absurd h (by decide), ⟨[0, 1/2], some [1, 0], some ⟨0, 1/4⟩⟩, ⟨[3/10, 1/5], none, none⟩, [1, 0],
      by decide +kernel, rfl, by decide +kernel⟩
  · refine ⟨by simp, ⟨[0, 1/2], some [1, 0], some ⟨0, 1/4⟩⟩, ⟨[3/10, 1/5], none, none⟩, [1, 0],
      by decide +kernel, rfl, by decide +kernel, rfl, ?_⟩
    intro _ c' hc'
    have e : (sliceAt Ops.rat exL ⟨0, 1/4⟩ [0] (step Ops.rat isZ exL [exC0, exC1] (.start 0 [0, 1] [1, 0])))[1]?
        = some ⟨⟨[1/10, 1/5], none, none⟩, [⟨[3/10, 1/5], none, none⟩, ⟨[9/10, 1/5], none, none⟩]⟩ := by decide +kernel
    rw [e] at hc'
    simp only [Option.some.injEq] at hc'
    subst hc'
    intro l hl
    simp only [List.mem_cons, List.not_mem_nil, or_false] at hl
    rcases hl with rfl | rfl <;> rfl
  · rintro ⟨sq, i, c, v, hc, _, _, ho⟩
    rw [hst] at hc ho
    match i, hc with
    | 0, _ =>
      have := ho 1 _ rfl (by decide) ⟨[3/10, 1/5], some [1, 0], some ⟨0, 1/4⟩⟩ (by simp)
      simp at this
    | 1, _ =>
      have := ho 0 _ rfl (by decide) ⟨[1/2, 1/2], some [1, 0], some ⟨0, 1/4⟩⟩ (by simp)
      simp at this
    | k + 2, hc => simp at hc

end examples

end JF.C12
