import JF.Props.C15
import JF.Model.Kinematics
/-!
# C07, rounding-abstract reading of the time slice — "positions remain inside the periodic box"

`BasicEventHandler._time_slice_unit` computes, per coordinate, `correct_position_entry(p + v * dt)` (model
`JF.Kin.sliceCoord`, the repaired position correction `pywrap`).  Read over `RQ R` — rationals whose `+ − ×` round
with an ARBITRARY monotone idempotent rounding `R.rnd` (`JF/Lemmas/PeriodicRnd.lean`), `fmod` exact as in C — the
sliced coordinate lies in the HALF-OPEN box `[0, L)` and is representable for EVERY position, velocity and time
difference, whatever the roundings of the product and of the sum did (`slice_in_box`); this is the float-level
statement behind `C07.chain machine invariant … box` of the exact reading.  (Before the repair `f8d52fc` the statement
was false in binary64: `C15.f1_*` keeps the witnesses.)

Standing hypotheses as in C15 §7: `0` and `L` representable, the exact `fmod` result representable (true for binary
floating point: `fmod` never rounds).
-/
namespace JF.C07F
open JF JF.Kin JF.Periodic JF.C15

variable (R : Rnd)

/-- multiplication of `RQ R` rounds like the other operations -/
instance : Mul (RQ R) := ⟨fun a b => ⟨R.rnd (a.val * b.val)⟩⟩
@[simp] theorem mul_val (a b : RQ R) : (a * b).val = R.rnd (a.val * b.val) := rfl

/-- the argument of the position correction: `fl(p + fl(v * dt))`, two roundings -/
theorem slice_arg (p v dt : RQ R) : (p + v * dt).val = R.rnd (p.val + R.rnd (v.val * dt.val)) := rfl

theorem sliceCoord_eq (L p v dt : RQ R) : sliceCoord (opsRq R) L p v dt = wrap (opsRq R) (p + v * dt) L := rfl

/-- **every time-sliced coordinate lies in `[0, L)`**, for every position (inside the box or not), velocity and time
difference and every monotone rounding -/
theorem slice_in_box (L p v dt : RQ R) (hL : 0 < L.val) (h0 : R.Rep 0) (hLr : R.Rep L.val)
    (hm : R.Rep (Ops.rat.fmod (p + v * dt).val L.val)) :
    0 ≤ (sliceCoord (opsRq R) L p v dt).val ∧ (sliceCoord (opsRq R) L p v dt).val < L.val := by
  rw [sliceCoord_eq]; exact rq_wrap_range R (p + v * dt) L hL h0 hLr hm

/-- … and is representable -/
theorem slice_rep (L p v dt : RQ R) (h0 : R.Rep 0) (hm : R.Rep (Ops.rat.fmod (p + v * dt).val L.val)) :
    R.Rep (sliceCoord (opsRq R) L p v dt).val := by
  rw [sliceCoord_eq]; exact rq_wrap_rep R (p + v * dt) L h0 hm

/-- it is the exact position `p + v·dt` up to the two roundings of the argument, wrapped and rounded once more
(or `0` when that last rounding is `L`) -/
theorem slice_cases (L p v dt : RQ R) (hL : 0 < L.val) (h0 : R.Rep 0)
    (hm : R.Rep (Ops.rat.fmod (p + v * dt).val L.val)) :
    (sliceCoord (opsRq R) L p v dt).val = R.rnd (wrap Ops.rat (R.rnd (p.val + R.rnd (v.val * dt.val))) L.val) ∨
    (R.rnd (wrap Ops.rat (R.rnd (p.val + R.rnd (v.val * dt.val))) L.val) = L.val ∧
      (sliceCoord (opsRq R) L p v dt).val = 0) := by
  rw [sliceCoord_eq, ← slice_arg]; exact rq_wrap_cases R (p + v * dt) L hL h0 hm

/-- slicing by a zero time difference does not move a representable position of the box (time-slicing twice to the same
time is time-slicing once) -/
theorem slice_zero_dt (L p v dt : RQ R) (hdt : dt.val = 0) (hp0 : 0 ≤ p.val) (hp1 : p.val < L.val) (h0 : R.Rep 0)
    (hp : R.Rep p.val) : (sliceCoord (opsRq R) L p v dt).val = p.val := by
  have e : (p + v * dt).val = p.val := by
    rw [slice_arg, hdt, mul_zero]
    have h0' : R.rnd 0 = 0 := h0
    rw [h0', add_zero]
    exact hp
  rw [sliceCoord_eq]
  have hx0 : 0 ≤ (p + v * dt).val := by rw [e]; exact hp0
  have hx1 : (p + v * dt).val < L.val := by rw [e]; exact hp1
  rw [rq_wrap_fixed R (p + v * dt) L hx0 hx1 h0 (by rw [e]; exact hp), e]

/-- hence: slicing a sliced coordinate again to the same time leaves it where it is -/
theorem slice_idem (L p v dt dt' : RQ R) (hdt' : dt'.val = 0) (hL : 0 < L.val) (h0 : R.Rep 0) (hLr : R.Rep L.val)
    (hm : R.Rep (Ops.rat.fmod (p + v * dt).val L.val)) :
    (sliceCoord (opsRq R) L (sliceCoord (opsRq R) L p v dt) v dt').val = (sliceCoord (opsRq R) L p v dt).val := by
  have hb := slice_in_box R L p v dt hL h0 hLr hm
  exact slice_zero_dt R L _ v dt' hdt' hb.1 hb.2 h0 (slice_rep R L p v dt h0 hm)

/-- non-vacuity with the toy rounding of C15 (round up to the next integer from zero on): `L = 3`, `p = 2`, `v = 1`,
`dt = 1/2`: the product `1/2` rounds to `1`, the sum is `3 = L`, the corrected coordinate is `0` — inside the box -/
example : toyRnd.Rep 0 ∧ toyRnd.Rep 3 ∧
    ((⟨2⟩ : RQ toyRnd) + (⟨1⟩ : RQ toyRnd) * ⟨1 / 2⟩).val = 3 := by
  refine ⟨by simp [Rnd.Rep, toyRnd], by norm_num [Rnd.Rep, toyRnd], ?_⟩
  rw [slice_arg]
  norm_num [toyRnd]

end JF.C07F
