import JF.Lemmas.CompositeSteps
/-!
# C12 — Composite objects stay consistent with their point masses

Exact reading (`α = ℚ`, `Ops.rat`) of the two-level machine `JF.Composite.step` of `JF/Model/Composite.lean`, for any
number `n ≥ 1` of members per object and any dimension `d`.  **The test `abs(component) < 1.0e-13` of the code is
replaced by `component = 0` (`isZ`) in this reading.**

`RootConsistent L c` (below) is the property: the stored root velocity is the weighted sum (weights `1/n`) of the members'
velocities (`None` read as zero), it is absent exactly when no member moves, and for every time `τ` the root position
advanced to `τ` is the weighted barycentre of the members' positions advanced to `τ` *with their own time stamps*,
modulo the box: stated with explicit integer image shifts `s j` of the members, so no nearest-image function is needed
(with weights `1/n` this is the same as `n · x_root ≡ Σ x_leaf (mod L)`).

The induction invariant `Good` (`JF/Lemmas/CompositeInv.lean`) additionally carries: well-formedness (vector lengths, a
moving unit has a time stamp), "the moving members of one object share one non-zero velocity" and "a stored root
velocity is non-zero"; `good_rootConsistent` derives `RootConsistent` from it.

Admissibility hypotheses of the per-event theorems are the `assert`s of the code evaluated after time-slicing (the unit
handing over its velocity moves, the receiver is at rest, …) plus, where marked *(one chain)*, the C07 fact that only
one chain moves (the object receiving the velocity is at rest as a whole).
-/
namespace JF.C12
open JF JF.Kin JF.Composite

/-! ### the property -/

/-- weighted sum `Σ_j w · f(leaf_j)` -/
def wsum (w : ℚ) (ls : List (PUnit ℚ)) (f : PUnit ℚ → ℚ) : ℚ := (ls.map (fun l => w * f l)).sum

structure RootConsistent (L : List ℚ) (c : CObj ℚ) : Prop where
  /-- stored velocity = weighted sum of the members' velocities (`None` read as zero), weights `1 / len(children)` -/
  vel : ∀ k, velAt c.root k = wsum (weight Ops.rat c) c.leaves (fun l => velAt l k)
  /-- absent exactly when no member moves -/
  absent : c.root.vel = none ↔ ∀ l ∈ c.leaves, l.vel = none
  /-- position advanced to any time `τ` = weighted barycentre of suitable periodic images of the members advanced to `τ` -/
  pos : ∀ τ k, k < L.length → ∃ s : Nat → ℤ,
    advAt c.root τ k = (c.leaves.zipIdx.map (fun p => weight Ops.rat c * (advAt p.1 τ k + s p.2 * L.getD k 0))).sum

theorem sum_zipIdx_shift (w l : ℚ) (f : PUnit ℚ → ℚ) : ∀ (ls : List (PUnit ℚ)) (m : Nat) (z : ℤ), ls ≠ [] →
    ∃ s : Nat → ℤ, ((ls.zipIdx m).map (fun p => w * (f p.1 + s p.2 * l))).sum = (ls.map (fun x => w * f x)).sum + w * (z * l)
  | [], _, _, h => absurd rfl h
  | x :: ls, m, z, _ => by
    refine ⟨fun i => if i = m then z else 0, ?_⟩
    have hrest : ∀ (ls : List (PUnit ℚ)) (m' : Nat), m < m' →
        ((ls.zipIdx m').map (fun p => w * (f p.1 + ((if p.2 = m then z else 0 : ℤ) : ℚ) * l))).sum = (ls.map (fun x => w * f x)).sum := by
      intro ls
      induction ls with
      | nil => intro m' _; simp
      | cons y ys ih =>
        intro m' hm
        have hne : ¬ m' = m := by omega
        simp only [List.zipIdx_cons, List.map_cons, List.sum_cons, ih (m' + 1) (by omega), hne, if_false]
        simp
    simp only [List.zipIdx_cons, List.map_cons, List.sum_cons, hrest ls (m + 1) (by omega), if_true]
    ring

theorem good_rootConsistent {d : Nat} {L : List ℚ} {c : CObj ℚ} (h : Good d L c) : RootConsistent L c := by
  have hne := h.wf.2.2
  have hn : (c.leaves.length : ℚ) ≠ 0 := by
    have : c.leaves.length ≠ 0 := by simpa [List.length_eq_zero_iff] using hne
    exact_mod_cast this
  refine ⟨?_, absent_iff hne h.vel h.sh h.rnz, ?_⟩
  · intro k
    have := h.vel k
    unfold wsum
    rw [weight_rat]
    have e : (c.leaves.map (fun l => 1 / (c.leaves.length : ℚ) * velAt l k)).sum
        = (c.leaves.map (fun l => velAt l k)).sum * (1 / (c.leaves.length : ℚ)) := by
      rw [← sum_map_mul_const]; exact sum_map_congr _ _ _ (fun l _ => by ring)
    rw [e, ← this]; field_simp
  · intro τ k hk
    obtain ⟨z, hz⟩ := h.pos τ k hk
    obtain ⟨s, hs⟩ := sum_zipIdx_shift (weight Ops.rat c) (L.getD k 0) (fun l => advAt l τ k) c.leaves 0 z hne
    refine ⟨s, ?_⟩
    rw [hs, weight_rat]
    have e : (c.leaves.map (fun l => 1 / (c.leaves.length : ℚ) * advAt l τ k)).sum
        = (c.leaves.map (fun l => advAt l τ k)).sum * (1 / (c.leaves.length : ℚ)) := by
      rw [← sum_map_mul_const]; exact sum_map_congr _ _ _ (fun l _ => by ring)
    rw [e]
    field_simp
    linarith

/-! ### every event preserves the invariant -/

/-- Admissibility of an event in a state = the assertions of the code (evaluated, as in the code, after the in-state has
been time-sliced; time-slicing does not change velocities, `timeSlice_vel`), plus *(one chain, C07)* "the object that
receives the velocity from another object is at rest as a whole" for `exchange` / `eocLeaf`, plus for `snap` "the
boundary is the coordinate reached at the event time", plus for the end of chain "the new velocity is non-zero". -/
def Adm (d : Nat) (L : List ℚ) (cs : List (CObj ℚ)) : Composite.Ev ℚ → Prop
  | .keep _ _ => True
  | .snap t S i j dd x =>
    ∀ c, (sliceAt Ops.rat L t S cs)[i]? = some c →
      match j with
      | none => x = c.root.pos.getD dd 0
      | some j => ∀ l, c.leaves[j]? = some l → x = l.pos.getD dd 0
  | .exchange t S i j i' j' =>
    i ∈ S ∧ ∃ a b v, leafOf (sliceAt Ops.rat L t S cs) i j = some a ∧ a.vel = some v ∧
      leafOf (sliceAt Ops.rat L t S cs) i' j' = some b ∧ b.vel = none ∧
      (i ≠ i' → ∀ c', (sliceAt Ops.rat L t S cs)[i']? = some c' → ∀ l ∈ c'.leaves, l.vel = none)
  | .pass t S iL iT =>
    iL ∈ S ∧ iL ≠ iT ∧ ∃ cL cT v, (sliceAt Ops.rat L t S cs)[iL]? = some cL ∧ (sliceAt Ops.rat L t S cs)[iT]? = some cT ∧
      (∀ l ∈ cL.leaves, l.vel = some v) ∧ (∀ l ∈ cT.leaves, l.vel = none)
  | .eocLeaf t i j i' j' vn =>
    ∃ c0 c' a b old, cs[i]? = some c0 ∧ (sliceComp Ops.rat L t c0).leaves[j]? = some a ∧ a.vel = some old ∧
      (∀ k l, (sliceComp Ops.rat L t c0).leaves[k]? = some l → k ≠ j → l.vel = none) ∧
      (sliceAt Ops.rat L t [i] cs)[i']? = some c' ∧ c'.leaves[j']? = some b ∧
      (i ≠ i' → ∀ l ∈ c'.leaves, l.vel = none) ∧ NZ vn ∧ vn.length = d
  | .eocRoot t i i' vn =>
    ∃ c c' old, (sliceAt Ops.rat L t [i] cs)[i]? = some c ∧ (sliceAt Ops.rat L t [i] cs)[i']? = some c' ∧
      (∀ l ∈ c.leaves, l.vel = some old) ∧ (i ≠ i' → ∀ l ∈ c'.leaves, l.vel = none) ∧ NZ vn ∧ vn.length = d
  | .toLeaf t i _ =>
    ∃ co v, (sliceAt Ops.rat L t [i] cs)[i]? = some co ∧ ∀ l ∈ co.leaves, l.vel = some v
  | .toRoot t i =>
    ∃ co a ua v, (sliceAt Ops.rat L t [i] cs)[i]? = some co ∧ activeLeaf co = some a ∧ co.leaves[a]? = some ua ∧
      ua.vel = some v ∧ ∀ k l, co.leaves[k]? = some l → k ≠ a → l.vel = none
  | .start i P v =>
    ∃ c, cs[i]? = some c ∧ (∀ l ∈ c.leaves, l.vel = none) ∧ P.Nodup ∧ (∀ k ∈ P, k < c.leaves.length) ∧ P ≠ [] ∧
      NZ v ∧ v.length = d

/-- **Step case.** Every modelled event kind preserves the invariant of every composite object. -/
theorem step_good {d : Nat} {L : List ℚ} (hL : BoxOK d L) {cs : List (CObj ℚ)} (h : AllGood d L cs) (e : Composite.Ev ℚ)
    (ha : Adm d L cs e) : AllGood d L (step Ops.rat isZ L cs e) := by
  cases e with
  | keep t S => exact keep_good hL h t S
  | snap t S i j dd x => exact snap_good hL h t S i j dd x ha
  | exchange t S i j i' j' =>
    obtain ⟨hiS, a, b, v, h1, h2, h3, h4, h5⟩ := ha
    exact exchange_good hL h t S i j i' j' hiS h1 h2 h3 h4 h5
  | pass t S iL iT =>
    obtain ⟨hiS, hne, cL, cT, v, h1, h2, h3, h4⟩ := ha
    exact pass_good hL h t S iL iT hiS hne h1 h2 h3 h4
  | eocLeaf t i j i' j' vn =>
    obtain ⟨c0, c', a, b, old, h1, h2, h3, h4, h5, h6, h7, h8, h9⟩ := ha
    exact eocLeaf_good hL h t i j i' j' vn h1 h2 h3 h4 h5 h6 h7 h8 h9
  | eocRoot t i i' vn =>
    obtain ⟨c, c', old, h1, h2, h3, h4, h5, h6⟩ := ha
    exact eocRoot_good hL h t i i' vn h1 h2 h3 h4 h5 h6
  | toLeaf t i ch =>
    obtain ⟨co, v, h1, h2⟩ := ha
    exact toLeaf_good hL h t i ch h1 h2
  | toRoot t i =>
    obtain ⟨co, a, ua, v, h1, h2, h3, h4, h5⟩ := ha
    exact toRoot_good hL h t i h1 h2 h3 h4 h5
  | start i P v =>
    obtain ⟨c, h1, h2, h3, h4, h5, h6, h7⟩ := ha
    exact start_good hL h i P v h1 h2 h3 h4 h5 h6 h7

/-- every event of the history is admissible in the state it is applied to -/
def AdmRun (d : Nat) (L : List ℚ) : List (CObj ℚ) → List (Composite.Ev ℚ) → Prop
  | _, [] => True
  | cs, e :: es => Adm d L cs e ∧ AdmRun d L (step Ops.rat isZ L cs e) es

/-- **Induction over the event list.** -/
theorem run_good {d : Nat} {L : List ℚ} (hL : BoxOK d L) : ∀ (es : List (Composite.Ev ℚ)) (cs : List (CObj ℚ)),
    AllGood d L cs → AdmRun d L cs es → AllGood d L (run Ops.rat isZ L cs es)
  | [], _, h, _ => h
  | e :: es, _, h, ha => run_good hL es _ (step_good hL h e ha.1) ha.2

/-- **C12 (exact reading).** After every admissible event history, every composite object is consistent with its point
masses: velocity = weighted sum, absent exactly when none moves, position at every time = weighted barycentre of
periodic images of its members advanced with their own time stamps. -/
theorem run_rootConsistent {d : Nat} {L : List ℚ} (hL : BoxOK d L) (es : List (Composite.Ev ℚ)) (cs : List (CObj ℚ))
    (h : AllGood d L cs) (ha : AdmRun d L cs es) : ∀ c ∈ run Ops.rat isZ L cs es, RootConsistent L c :=
  fun c hc => good_rootConsistent (run_good hL es cs h ha c hc)

/-! ### base case: the random node creators -/

/-- a well-formed object at rest whose root position is congruent to the mean of its members satisfies the invariant -/
theorem rest_good {d : Nat} {L : List ℚ} {c : CObj ℚ} (hwf : WFC d c) (hr : c.root.vel = none)
    (hl : ∀ l ∈ c.leaves, l.vel = none)
    (hp : ∀ k, k < L.length → Cong (L.getD k 0) ((c.leaves.length : ℚ) * c.root.pos.getD k 0) ((c.leaves.map (fun l => l.pos.getD k 0)).sum)) :
    Good d L c := by
  have hv0 : ∀ l ∈ c.leaves, ∀ k, velAt l k = 0 := fun l hm k => by simp only [velAt, velOpt, hl l hm]
  refine ⟨hwf, ?_, ⟨[1], ⟨0, by simp⟩, fun l hm => Or.inl (hl l hm)⟩, fun v hv => by rw [hr] at hv; exact absurd hv (by simp), ?_⟩
  · intro k
    rw [sum_map_congr _ (fun _ => (0 : ℚ)) _ (fun l hm => hv0 l hm k)]
    simp [velAt, velOpt, hr]
  · intro τ k hk
    have e1 : advAt c.root τ k = c.root.pos.getD k 0 := by simp [advAt, velAt, velOpt, hr]
    rw [e1, sum_map_congr _ (fun l => l.pos.getD k 0) _ (fun l hm => by simp [advAt, hv0 l hm k])]
    exact hp k hk

/-- dipole, one coordinate: `2 · centre ≡ position_one + position_two (mod L)` (plain algebra: the `± direction·separation`
terms cancel) -/
theorem dipoleCoord_centre (l c dir s : ℚ) (hl : 0 < l) :
    Cong l (2 * c) ((dipoleCoord Ops.rat l c dir s).1 + (dipoleCoord Ops.rat l c dir s).2) := by
  simp only [dipoleCoord, pywrap_rat_pos _ _ hl]
  exact ⟨⌊(c + dir * s) / l⌋ + ⌊(c - dir * s) / l⌋, by push_cast; ring⟩

/-- water, one coordinate: `3 · centre ≡ hydrogen_one + oxygen + hydrogen_two (mod L)`
(`oxygen = centre − (a + b)/3`, `hydrogen_k = oxygen + oh_vector_k`) -/
theorem waterCoord_centre (l c a b : ℚ) (hl : 0 < l) :
    Cong l (3 * c) ((waterCoord Ops.rat l c a b).1 + (waterCoord Ops.rat l c a b).2.1 + (waterCoord Ops.rat l c a b).2.2) := by
  simp only [waterCoord, pywrap_rat_pos _ _ hl, rat_ofInt]
  exact ⟨⌊(c - (a + b) / ((3 : ℤ) : ℚ) + a) / l⌋ + ⌊(c - (a + b) / ((3 : ℤ) : ℚ)) / l⌋ + ⌊(c - (a + b) / ((3 : ℤ) : ℚ) + b) / l⌋, by
    push_cast; ring⟩

theorem dipoleLeaves_spec : ∀ (L C D : List ℚ) (s : ℚ), C.length = L.length → D.length = L.length →
    (dipoleLeaves Ops.rat L C D s).1.length = L.length ∧ (dipoleLeaves Ops.rat L C D s).2.length = L.length ∧
    ∀ k, k < L.length →
      (dipoleLeaves Ops.rat L C D s).1.getD k 0 = (dipoleCoord Ops.rat (L.getD k 0) (C.getD k 0) (D.getD k 0) s).1 ∧
      (dipoleLeaves Ops.rat L C D s).2.getD k 0 = (dipoleCoord Ops.rat (L.getD k 0) (C.getD k 0) (D.getD k 0) s).2
  | [], [], [], _, _, _ => by simp [dipoleLeaves]
  | l :: L, c :: C, dd :: D, s, h1, h2 => by
    obtain ⟨a1, a2, a3⟩ := dipoleLeaves_spec L C D s (by simpa using h1) (by simpa using h2)
    refine ⟨by simp [dipoleLeaves, a1], by simp [dipoleLeaves, a2], ?_⟩
    intro k hk
    cases k with
    | zero => simp [dipoleLeaves]
    | succ k =>
      have := a3 k (by simpa using hk)
      simpa [dipoleLeaves] using this
  | [], _ :: _, _, _, h1, _ => by simp at h1
  | [], [], _ :: _, _, _, h2 => by simp at h2
  | _ :: _, [], _, _, h1, _ => by simp at h1
  | _ :: _, _ :: _, [], _, _, h2 => by simp at h2

theorem waterLeaves_spec : ∀ (L C A B : List ℚ), C.length = L.length → A.length = L.length → B.length = L.length →
    (waterLeaves Ops.rat L C A B).1.length = L.length ∧ (waterLeaves Ops.rat L C A B).2.1.length = L.length ∧
    (waterLeaves Ops.rat L C A B).2.2.length = L.length ∧
    ∀ k, k < L.length →
      (waterLeaves Ops.rat L C A B).1.getD k 0 = (waterCoord Ops.rat (L.getD k 0) (C.getD k 0) (A.getD k 0) (B.getD k 0)).1 ∧
      (waterLeaves Ops.rat L C A B).2.1.getD k 0 = (waterCoord Ops.rat (L.getD k 0) (C.getD k 0) (A.getD k 0) (B.getD k 0)).2.1 ∧
      (waterLeaves Ops.rat L C A B).2.2.getD k 0 = (waterCoord Ops.rat (L.getD k 0) (C.getD k 0) (A.getD k 0) (B.getD k 0)).2.2
  | [], [], [], [], _, _, _ => by simp [waterLeaves]
  | l :: L, c :: C, a :: A, b :: B, h1, h2, h3 => by
    obtain ⟨a1, a2, a3, a4⟩ := waterLeaves_spec L C A B (by simpa using h1) (by simpa using h2) (by simpa using h3)
    refine ⟨by simp [waterLeaves, a1], by simp [waterLeaves, a2], by simp [waterLeaves, a3], ?_⟩
    intro k hk
    cases k with
    | zero => simp [waterLeaves]
    | succ k =>
      have := a4 k (by simpa using hk)
      simpa [waterLeaves] using this
  | [], _ :: _, _, _, h1, _, _ => by simp at h1
  | [], [], _ :: _, _, _, h2, _ => by simp at h2
  | [], [], [], _ :: _, _, _, h3 => by simp at h3
  | _ :: _, [], _, _, h1, _, _ => by simp at h1
  | _ :: _, _ :: _, [], _, _, h2, _ => by simp at h2
  | _ :: _, _ :: _, _ :: _, [], _, _, h3 => by simp at h3

/-- **Base case, dipoles** (`DipoleRandomNodeCreator.fill_root_node`): root at the random centre, the two charges at
`centre ± direction · separation` folded into the box, everything at rest. -/
theorem dipole_initial_good {d : Nat} {L : List ℚ} (hL : BoxOK d L) (C D : List ℚ) (s : ℚ) (hC : C.length = d) (hD : D.length = d) :
    Good d L ⟨⟨C, none, none⟩, [⟨(dipoleLeaves Ops.rat L C D s).1, none, none⟩, ⟨(dipoleLeaves Ops.rat L C D s).2, none, none⟩]⟩ := by
  obtain ⟨a1, a2, a3⟩ := dipoleLeaves_spec L C D s (by rw [hC, hL.1]) (by rw [hD, hL.1])
  apply rest_good
  · refine ⟨⟨hC, by simp⟩, ?_, by simp⟩
    intro l hl
    simp only [List.mem_cons, List.not_mem_nil, or_false] at hl
    rcases hl with rfl | rfl
    · exact ⟨by rw [a1, hL.1], by simp⟩
    · exact ⟨by rw [a2, hL.1], by simp⟩
  · rfl
  · intro l hl
    simp only [List.mem_cons, List.not_mem_nil, or_false] at hl
    rcases hl with rfl | rfl <;> rfl
  · intro k hk
    have hk' : k < d := by rw [← hL.1]; exact hk
    obtain ⟨b1, b2⟩ := a3 k hk
    simp only [List.length_cons, List.length_nil, List.map_cons, List.map_nil, List.sum_cons, List.sum_nil, b1, b2]
    have := dipoleCoord_centre (L.getD k 0) (C.getD k 0) (D.getD k 0) s (hL.pos hk')
    obtain ⟨z, hz⟩ := this
    exact ⟨z, by push_cast; linarith⟩

/-- **Base case, water** (`WaterRandomNodeCreator.fill_root_node`): root at the random centre; members (H, O, H). -/
theorem water_initial_good {d : Nat} {L : List ℚ} (hL : BoxOK d L) (C A B : List ℚ) (hC : C.length = d) (hA : A.length = d)
    (hB : B.length = d) :
    Good d L ⟨⟨C, none, none⟩, [⟨(waterLeaves Ops.rat L C A B).1, none, none⟩, ⟨(waterLeaves Ops.rat L C A B).2.1, none, none⟩,
      ⟨(waterLeaves Ops.rat L C A B).2.2, none, none⟩]⟩ := by
  obtain ⟨a1, a2, a3, a4⟩ := waterLeaves_spec L C A B (by rw [hC, hL.1]) (by rw [hA, hL.1]) (by rw [hB, hL.1])
  apply rest_good
  · refine ⟨⟨hC, by simp⟩, ?_, by simp⟩
    intro l hl
    simp only [List.mem_cons, List.not_mem_nil, or_false] at hl
    rcases hl with rfl | rfl | rfl
    · exact ⟨by rw [a1, hL.1], by simp⟩
    · exact ⟨by rw [a2, hL.1], by simp⟩
    · exact ⟨by rw [a3, hL.1], by simp⟩
  · rfl
  · intro l hl
    simp only [List.mem_cons, List.not_mem_nil, or_false] at hl
    rcases hl with rfl | rfl | rfl <;> rfl
  · intro k hk
    have hk' : k < d := by rw [← hL.1]; exact hk
    obtain ⟨b1, b2, b3⟩ := a4 k hk
    simp only [List.length_cons, List.length_nil, List.map_cons, List.map_nil, List.sum_cons, List.sum_nil, b1, b2, b3]
    obtain ⟨z, hz⟩ := waterCoord_centre (L.getD k 0) (C.getD k 0) (A.getD k 0) (B.getD k 0) (hL.pos hk')
    exact ⟨z, by push_cast; linarith⟩

/-! ### non-vacuity: two concrete histories (two dipoles in the unit square) whose hypotheses are met -/

section examples
deriving instance DecidableEq for JF.Time
deriving instance DecidableEq for JF.PUnit
deriving instance DecidableEq for JF.CObj

def exL : List ℚ := [1, 1]
/-- dipole at the centre, axis along x, half separation 1/4: members at x = 3/4 and 1/4 -/
def exC0 : CObj ℚ := ⟨⟨[1/2, 1/2], none, none⟩,
  [⟨(dipoleLeaves Ops.rat exL [1/2, 1/2] [1, 0] (1/4)).1, none, none⟩, ⟨(dipoleLeaves Ops.rat exL [1/2, 1/2] [1, 0] (1/4)).2, none, none⟩]⟩
/-- dipole across the periodic boundary: centre x = 1/10, members at x = 3/10 and 9/10 (image −1/10) -/
def exC1 : CObj ℚ := ⟨⟨[1/10, 1/5], none, none⟩,
  [⟨(dipoleLeaves Ops.rat exL [1/10, 1/5] [1, 0] (1/5)).1, none, none⟩, ⟨(dipoleLeaves Ops.rat exL [1/10, 1/5] [1, 0] (1/5)).2, none, none⟩]⟩

theorem exBox : BoxOK 2 exL := ⟨rfl, by intro l hl; simp [exL] at hl; subst hl; norm_num⟩

/-- base case instance: the creators' geometry, including a member folded across the boundary -/
theorem ex_initial : AllGood 2 exL [exC0, exC1] := by
  intro c hc
  simp only [List.mem_cons, List.not_mem_nil, or_false] at hc
  rcases hc with rfl | rfl
  · exact dipole_initial_good exBox _ _ _ rfl rfl
  · exact dipole_initial_good exBox _ _ _ rfl rfl

/-- leaf mode: start of run (one leaf), velocity exchange within the object at t = 1/2, end of chain at t = 1 handing the
chain to a leaf of the other object with a new direction, a sampling event at t = 3/2 -/
def exLeafHistory : List (Composite.Ev ℚ) :=
  [.start 0 [0] [1, 0], .exchange ⟨0, 1/2⟩ [0] 0 0 0 1, .eocLeaf ⟨1, 0⟩ 0 1 1 0 [0, 1], .keep ⟨1, 1/2⟩ [1]]

theorem ex_leaf_admissible : AdmRun 2 exL [exC0, exC1] exLeafHistory := by
  refine ⟨?_, ?_, ?_, trivial, trivial⟩
  · exact ⟨exC0, rfl, by decide +kernel, by decide, by decide, by simp, ⟨0, by simp⟩, rfl⟩
  · refine ⟨by simp, ⟨[1/4, 1/2], some [1, 0], some ⟨0, 1/2⟩⟩, ⟨[1/4, 1/2], none, none⟩, [1, 0], by decide +kernel, rfl,
      by decide +kernel, rfl, fun h => absurd rfl h⟩
  · refine ⟨⟨⟨[3/4, 1/2], some [1/2, 0], some ⟨0, 1/2⟩⟩, [⟨[1/4, 1/2], none, none⟩, ⟨[1/4, 1/2], some [1, 0], some ⟨0, 1/2⟩⟩]⟩,
      ⟨⟨[1/10, 1/5], none, none⟩, [⟨[3/10, 1/5], none, none⟩, ⟨[9/10, 1/5], none, none⟩]⟩,
      ⟨[3/4, 1/2], some [1, 0], some ⟨1, 0⟩⟩, ⟨[3/10, 1/5], none, none⟩, [1, 0],
      by decide +kernel, by decide +kernel, rfl, ?_, by decide +kernel, by decide +kernel, fun _ => by decide +kernel,
      ⟨1, by simp⟩, rfl⟩
    intro k l hk hne
    have e : (sliceComp Ops.rat exL ⟨1, 0⟩ ⟨⟨[3/4, 1/2], some [1/2, 0], some ⟨0, 1/2⟩⟩,
        [⟨[1/4, 1/2], none, none⟩, ⟨[1/4, 1/2], some [1, 0], some ⟨0, 1/2⟩⟩]⟩).leaves
        = [⟨[1/4, 1/2], none, none⟩, ⟨[3/4, 1/2], some [1, 0], some ⟨1, 0⟩⟩] := by decide +kernel
    rw [e] at hk
    match k, hk, hne with
    | 0, hk, _ => simp at hk; subst hk; rfl
    | 1, _, hne => exact absurd rfl hne
    | k + 2, hk, _ => simp at hk

/-- the theorem applies to this history: every object is consistent afterwards -/
example : ∀ c ∈ run Ops.rat isZ exL [exC0, exC1] exLeafHistory, RootConsistent exL c :=
  run_rootConsistent exBox _ _ ex_initial ex_leaf_admissible

/-- root mode: start of run with both leaves of object 0, pass of the velocity to object 1 at t = 1/4, switch to leaf
mode (leaf 1 keeps moving) at t = 1/2, back to root mode at t = 3/4, end of chain on the same object (new direction) at
t = 1, end of chain handing over to object 0 at t = 3/2 -/
def exRootHistory : List (Composite.Ev ℚ) :=
  [.start 0 [0, 1] [1, 0], .pass ⟨0, 1/4⟩ [0, 1] 0 1, .toLeaf ⟨0, 1/2⟩ 1 1, .toRoot ⟨0, 3/4⟩ 1, .eocRoot ⟨1, 0⟩ 1 1 [0, 1],
   .eocRoot ⟨1, 1/2⟩ 1 0 [1, 0]]

theorem ex_root_admissible : AdmRun 2 exL [exC0, exC1] exRootHistory := by
  refine ⟨?_, ?_, ?_, ?_, ?_, ?_, trivial⟩
  · exact ⟨exC0, rfl, by decide +kernel, by decide, by decide, by simp, ⟨0, by simp⟩, rfl⟩
  · exact ⟨by simp, by decide,
      ⟨⟨[3/4, 1/2], some [1, 0], some ⟨0, 1/4⟩⟩, [⟨[0, 1/2], some [1, 0], some ⟨0, 1/4⟩⟩, ⟨[1/2, 1/2], some [1, 0], some ⟨0, 1/4⟩⟩]⟩,
      ⟨⟨[1/10, 1/5], none, none⟩, [⟨[3/10, 1/5], none, none⟩, ⟨[9/10, 1/5], none, none⟩]⟩, [1, 0],
      by decide +kernel, by decide +kernel, by decide +kernel, by decide +kernel⟩
  · exact ⟨⟨⟨[7/20, 1/5], some [1, 0], some ⟨0, 1/2⟩⟩, [⟨[11/20, 1/5], some [1, 0], some ⟨0, 1/2⟩⟩, ⟨[3/20, 1/5], some [1, 0], some ⟨0, 1/2⟩⟩]⟩,
      [1, 0], by decide +kernel, by decide +kernel⟩
  · refine ⟨⟨⟨[19/40, 1/5], some [1/2, 0], some ⟨0, 3/4⟩⟩, [⟨[11/20, 1/5], none, none⟩, ⟨[2/5, 1/5], some [1, 0], some ⟨0, 3/4⟩⟩]⟩,
      1, ⟨[2/5, 1/5], some [1, 0], some ⟨0, 3/4⟩⟩, [1, 0], by decide +kernel, by decide +kernel, by decide +kernel, rfl, ?_⟩
    intro k l hk hne
    match k, hk, hne with
    | 0, hk, _ => simp at hk; subst hk; rfl
    | 1, _, hne => exact absurd rfl hne
    | k + 2, hk, _ => simp at hk
  · exact ⟨⟨⟨[29/40, 1/5], some [1, 0], some ⟨1, 0⟩⟩, [⟨[4/5, 1/5], some [1, 0], some ⟨1, 0⟩⟩, ⟨[13/20, 1/5], some [1, 0], some ⟨1, 0⟩⟩]⟩,
      ⟨⟨[29/40, 1/5], some [1, 0], some ⟨1, 0⟩⟩, [⟨[4/5, 1/5], some [1, 0], some ⟨1, 0⟩⟩, ⟨[13/20, 1/5], some [1, 0], some ⟨1, 0⟩⟩]⟩,
      [1, 0], by decide +kernel, by decide +kernel, by decide +kernel, fun h => absurd rfl h, ⟨1, by simp⟩, rfl⟩
  · exact ⟨⟨⟨[29/40, 7/10], some [0, 1], some ⟨1, 1/2⟩⟩, [⟨[4/5, 7/10], some [0, 1], some ⟨1, 1/2⟩⟩, ⟨[13/20, 7/10], some [0, 1], some ⟨1, 1/2⟩⟩]⟩,
      ⟨⟨[3/4, 1/2], none, none⟩, [⟨[0, 1/2], none, none⟩, ⟨[1/2, 1/2], none, none⟩]⟩,
      [0, 1], by decide +kernel, by decide +kernel, by decide +kernel, fun _ => by decide +kernel, ⟨0, by simp⟩, rfl⟩

example : ∀ c ∈ run Ops.rat isZ exL [exC0, exC1] exRootHistory, RootConsistent exL c :=
  run_rootConsistent exBox _ _ ex_initial ex_root_admissible

/-- a cell-boundary event whose boundary is the coordinate reached at the event time: leaf 0 of object 0 started at
x = 3/4 with velocity 1 and reaches the boundary x = 0 (≡ 1) at t = 1/4 -/
example : Adm 2 exL (step Ops.rat isZ exL [exC0, exC1] (.start 0 [0] [1, 0])) (.snap ⟨0, 1/4⟩ [0] 0 (some 0) 0 0) := by
  intro c hc
  have : c = ⟨⟨[5/8, 1/2], some [1/2, 0], some ⟨0, 1/4⟩⟩, [⟨[0, 1/2], some [1, 0], some ⟨0, 1/4⟩⟩, ⟨[1/4, 1/2], none, none⟩]⟩ := by
    have h2 : (sliceAt Ops.rat exL ⟨0, 1/4⟩ [0] (step Ops.rat isZ exL [exC0, exC1] (.start 0 [0] [1, 0])))[0]?
        = some ⟨⟨[5/8, 1/2], some [1/2, 0], some ⟨0, 1/4⟩⟩, [⟨[0, 1/2], some [1, 0], some ⟨0, 1/4⟩⟩, ⟨[1/4, 1/2], none, none⟩]⟩ := by
      decide +kernel
    rw [h2] at hc
    exact (Option.some.inj hc).symm
  subst this
  intro l hl
  simp at hl
  subst hl
  rfl

end examples

end JF.C12
