import JF.Lemmas.HeapList
import JF.Lemmas.HeapPickle
import JF.Lemmas.HeapLength
import Mathlib.Order.Basic
import Mathlib.Order.Lattice
/-!
# C06 — Scheduler always yields a live event with the smallest candidate time

The theorems are about the executable models `JF.Model.Heap` (`heap.c`, every array access
bounds-checked, fresh memory arbitrary) and `JF.Model.Sched` (`HeapScheduler`, `ListScheduler`) —
the same definitions the driver runs against the real code — for **every** history of
`push / trash / get / pickle` operations that respects the mediator protocol, every key type with a
strict weak order `lt` and a minimal sentinel key (`StrictWeak`; the instance for `Time` with the
comparison of `heap.c` over any linear order is `timeCfg_strictWeak`), every content of
fresh memory (`cfg.garbage`) and every counter range `W ≥ 1` (the C code has `W = 2^32`).

Supporting lemmas (all proved, no `sorry`): `JF/Lemmas/HeapBasic, HeapInsert, HeapDown, HeapSched,
HeapList, HeapPickle`.
-/
namespace JF.C06
open JF JF.Heap JF.Sched

/-! ### the comparison of `heap.c` on `Time` is a strict weak order with `(⊥, ⊥)` minimal -/

section TimeOrder
variable {α : Type} [LinearOrder α]

/-- configuration with `Time` keys: `lt` is literally `Time.cLt`, the finiteness test of
`HeapScheduler.push_event` is literally `time < Time(top, top)` -/
def timeCfg (bot top : α) (g : Nat → Entry (Time α)) : Cfg (Time α) where
  lt := Time.cLt
  bot := ⟨bot, bot⟩
  finite t := Time.lt t ⟨top, top⟩
  garbage := g

theorem cLt_iff (t u : Time α) : Time.cLt t u = true ↔ t.q < u.q ∨ (t.q = u.q ∧ t.r < u.r) := by
  simp [Time.cLt]

theorem cLt_false_iff (t u : Time α) : Time.cLt t u = false ↔ u.q < t.q ∨ (t.q = u.q ∧ u.r ≤ t.r) := by
  rw [← Bool.not_eq_true, cLt_iff]
  constructor
  · intro h
    rcases lt_trichotomy t.q u.q with h1 | h1 | h1
    · exact absurd (Or.inl h1) h
    · exact Or.inr ⟨h1, not_lt.1 fun h2 => h (Or.inr ⟨h1, h2⟩)⟩
    · exact Or.inl h1
  · rintro (h | ⟨h1, h2⟩) (h' | ⟨h1', h2'⟩)
    · exact lt_asymm h h'
    · rw [h1'] at h; exact lt_irrefl _ h
    · rw [h1] at h'; exact lt_irrefl _ h'
    · exact not_lt.2 h2 h2'

theorem cLt_ntrans (a b c : Time α) :
    Time.cLt a b = false → Time.cLt b c = false → Time.cLt a c = false := by
  simp only [cLt_false_iff]
  rintro (h | ⟨h1, h2⟩) (h' | ⟨h1', h2'⟩)
  · exact Or.inl (lt_trans h' h)
  · exact Or.inl (h1' ▸ h)
  · exact Or.inl (h1 ▸ h')
  · exact Or.inr ⟨h1.trans h1', le_trans h2' h2⟩

theorem timeCfg_strictWeak (bot top : α) (g : Nat → Entry (Time α)) (hb : ∀ a, bot ≤ a) :
    StrictWeak (timeCfg bot top g) where
  irrefl a := by
    show Time.cLt a a = false
    rw [cLt_false_iff]; exact Or.inr ⟨rfl, le_refl _⟩
  trans a b c := by
    show Time.cLt a b = true → Time.cLt b c = true → Time.cLt a c = true
    simp only [cLt_iff]
    rintro (h | ⟨h1, h2⟩) (h' | ⟨h1', h2'⟩)
    · exact Or.inl (lt_trans h h')
    · exact Or.inl (h1' ▸ h)
    · exact Or.inl (h1 ▸ h')
    · exact Or.inr ⟨h1.trans h1', lt_trans h2 h2'⟩
  ntrans := cLt_ntrans
  bot_min a := by
    show Time.cLt a ⟨bot, bot⟩ = false
    rw [cLt_false_iff]
    rcases lt_or_eq_of_le (hb a.q) with h | h
    · exact Or.inl h
    · exact Or.inr ⟨h.symm, hb _⟩

/-- `lt`-incomparable times are equal: the order on `Time` is total, so "the minimal time" is unique -/
theorem time_total (t u : Time α) (h1 : Time.cLt t u = false) (h2 : Time.cLt u t = false) : t = u := by
  rw [cLt_false_iff] at h1 h2
  obtain ⟨tq, tr⟩ := t; obtain ⟨uq, ur⟩ := u
  simp only at h1 h2
  rcases h1 with h1 | ⟨e1, l1⟩ <;> rcases h2 with h2 | ⟨e2, l2⟩
  · exact absurd h1 (lt_asymm h2)
  · rw [e2] at h1; exact absurd h1 (lt_irrefl _)
  · rw [e1] at h2; exact absurd h2 (lt_irrefl _)
  · rw [e1, le_antisymm l1 l2]

/-- an infinite time is never before a finite one (`finite t` is `t < (top, top)`) -/
theorem time_fin_lt (bot top : α) (g : Nat → Entry (Time α)) (a b : Time α)
    (ha : (timeCfg bot top g).finite a = true) (hb : (timeCfg bot top g).finite b = false) :
    (timeCfg bot top g).lt a b = true := by
  change Time.lt a ⟨top, top⟩ = true at ha
  change Time.lt b ⟨top, top⟩ = false at hb
  change Time.cLt a b = true
  have e : ∀ x y : Time α, Time.lt x y = Time.cLt x y := fun _ _ => rfl
  rw [e] at ha hb
  cases h : Time.cLt a b with
  | true => rfl
  | false => have := cLt_ntrans _ _ _ h hb; rw [ha] at this; cases this

end TimeOrder

/-! ### histories -/

section Histories
variable {κ : Type} {cfg : Cfg κ}

/-- one operation of a history; `pickle` is `pickle.loads(pickle.dumps(scheduler))` -/
inductive Op (κ : Type) where
  | push (t : κ) (h : Nat)
  | trash (h : Nat)
  | get
  | pickle

/-- the plain reference model: dictionary handler ↦ current event -/
def specStep (live : Live κ) : Op κ → Live κ
  | .push t h => live.set h (some t)
  | .trash h => live.set h none
  | .get => live
  | .pickle => live

def specRun (live : Live κ) : List (Op κ) → Live κ
  | [] => live
  | op :: ops => specRun (specStep live op) ops

/-- the mediator protocol: a handler (a non-`NULL` object) is pushed only while it has no current event -/
def Protocol (live : Live κ) : List (Op κ) → Prop
  | [] => True
  | .push t h :: ops => h ≠ 0 ∧ live h = none ∧ Protocol (live.set h (some t)) ops
  | op :: ops => Protocol (specStep live op) ops

def hStep (cfg : Cfg κ) (W : Nat) (s : HSched κ) : Op κ → HSched κ
  | .push t h => s.push cfg W t h
  | .trash h => s.trash h
  | .get => (s.get cfg).1
  | .pickle => s.pickle cfg

def hRun (cfg : Cfg κ) (W : Nat) (s : HSched κ) (ops : List (Op κ)) : HSched κ := ops.foldl (hStep cfg W) s

/-- list scheduler; a `trash_event` that raises `SchedulerError` leaves the scheduler unchanged; its pickle
round trip is the identity on the Python list -/
def lStep (cfg : Cfg κ) (s : LSched κ) : Op κ → LSched κ
  | .push t h => s.push t h
  | .trash h => (s.trash h).getD s
  | .get => (s.get cfg).1
  | .pickle => s

def lRun (cfg : Cfg κ) (s : LSched κ) (ops : List (Op κ)) : LSched κ := ops.foldl (lStep cfg) s

theorem live_set_none_of_none (live : Live κ) (h : Nat) (hl : live h = none) : live.set h none = live := by
  funext x; unfold Live.set; split
  · next e => rw [e, hl]
  · rfl

/-- the refinement relations survive every protocol-respecting history -/
theorem run_rel (o : StrictWeak cfg) {W : Nat} (hW : 0 < W) :
    ∀ (ops : List (Op κ)) (s : HSched κ) (ls : LSched κ) (live : Live κ),
      Rel cfg W s live → LRel ls live → Protocol live ops →
      Rel cfg W (hRun cfg W s ops) (specRun live ops) ∧ LRel (lRun cfg ls ops) (specRun live ops) := by
  intro ops
  induction ops with
  | nil => intro s ls live R L _; exact ⟨R, L⟩
  | cons op ops ih =>
    intro s ls live R L hp
    cases op with
    | push t h =>
      obtain ⟨h0, hl, hp⟩ := hp
      exact ih _ _ _ (push_rel o hW R t h0 hl) (lpush_rel L t hl) hp
    | trash h =>
      refine ih _ _ _ (trash_rel R h) ?_ hp
      show LRel ((ls.trash h).getD ls) (live.set h none)
      cases hl : live h with
      | none => rw [(ltrash_rel L h).1 hl, live_set_none_of_none live h hl]; exact L
      | some t => obtain ⟨ls', e, L'⟩ := (ltrash_rel L h).2 t hl; rw [e]; exact L'
    | get =>
      refine ih _ _ _ (get_rel o R).1 ⟨?_, ?_⟩ hp
      · show ∀ h t, (t, h) ∈ (ls.get cfg).1.times ↔ live h = some t
        rw [(lget_rel o L).1]; exact L.mem
      · show (ls.get cfg).1.times.Pairwise _
        rw [(lget_rel o L).1]; exact L.nodup
    | pickle => exact ih _ _ _ (pickle_spec o R).1 L hp

/-- the heap length (sentinel included) grows by at most one per operation -/
theorem run_length (o : StrictWeak cfg) {W : Nat} (hW : 0 < W) :
    ∀ (ops : List (Op κ)) (s : HSched κ) (live : Live κ),
      Rel cfg W s live → Protocol live ops →
      max (hRun cfg W s ops).heap.length 1 ≤ max s.heap.length 1 + ops.length := by
  intro ops
  induction ops with
  | nil => intro s live _ _; simp [hRun]
  | cons op ops ih =>
    intro s live R hp
    have step : ∀ s' live', Rel cfg W s' live' → Protocol live' ops →
        max s'.heap.length 1 ≤ max s.heap.length 1 + 1 →
        max (hRun cfg W s' ops).heap.length 1 ≤ max s.heap.length 1 + (ops.length + 1) := by
      intro s' live' R' hp' hl
      have := ih s' live' R' hp'
      omega
    cases op with
    | push t h =>
      obtain ⟨h0, hl, hp⟩ := hp
      exact step _ _ (push_rel o hW R t h0 hl) hp (push_length o R t h)
    | trash h => exact step _ _ (trash_rel R h) hp (by show max s.heap.length 1 ≤ _; omega)
    | get =>
      refine step _ _ (get_rel o R).1 hp ?_
      have h1 : (s.get cfg).1.heap = (root cfg (deadCb s.mv) s.heap).1 := by
        unfold HSched.get
        generalize root cfg (deadCb s.mv) s.heap = rt
        obtain ⟨a, b⟩ := rt
        dsimp only
        split
        · rfl
        · split <;> rfl
      have := (root_spec o (deadCb s.mv) R.inv).1.len
      show max (s.get cfg).1.heap.length 1 ≤ _
      rw [h1]; omega
    | pickle =>
      refine step _ _ (pickle_spec o R).1 hp ?_
      have := (pickle_spec o R).2.2.2.2
      show max (s.pickle cfg).heap.length 1 ≤ _
      rw [this]; split <;> omega

variable (o : StrictWeak cfg) {W : Nat} (hW : 0 < W) (ops : List (Op κ))
  (hp : Protocol (fun _ => none : Live κ) ops)
include o hW hp

/-- state of the heap scheduler / list scheduler / reference model after the history `ops` -/
local notation "HS" => hRun cfg W (HSched.init cfg) ops
local notation "LS" => lRun cfg (LSched.init cfg) ops
local notation "LIVE" => specRun (fun _ => none : Live κ) ops

/-- **no invalid memory access**: after any protocol-respecting history no array access of the model of
`heap.c` left the allocated block (nor did a loop run out of fuel), the sentinel is in place, the
spare slot exists and the heap order holds -/
theorem heap_safe : (HS).heap.fault = false ∧ Inv cfg (HS).heap :=
  let R := (run_rel o hW ops _ _ _ (rel_init cfg W) (lrel_init cfg) hp).1
  ⟨R.inv.1.1, R.inv⟩

/-- … and so does the `get_succeeding_event` that follows (the call that runs `root`/`bubble_down`) -/
theorem heap_safe_get : ((HS).get cfg).1.heap.fault = false :=
  let R := (run_rel o hW ops _ _ _ (rel_init cfg W) (lrel_init cfg) hp).1
  (get_rel o R).1.inv.1.1

/-- **the C `uint` length cannot wrap**: after a history of `n` operations the heap length (sentinel
included) is at most `n + 1`; so for histories shorter than `2^32 - 2` operations the model's unbounded
`length` is the C `uint` (the allocated size is the least `64·2^k ≥ length + 1` ever needed) -/
theorem length_le : (HS).heap.length ≤ ops.length + 1 := by
  have := run_length o hW ops (HSched.init cfg) _ (rel_init cfg W) hp
  have h0 : (HSched.init cfg).heap.length = 0 := rfl
  rw [h0] at this; omega

/-- every stored counter fits the C `unsigned int` (`< W`), and never exceeds the handler's current counter -/
theorem counters_fit (e : Entry κ) (he : Mem cfg (HS).heap e) :
    e.c < W ∧ ∃ m, mvGet (HS).mv e.h = some m ∧ e.c ≤ m :=
  let R := (run_rel o hW ops _ _ _ (rel_init cfg W) (lrel_init cfg) hp).1
  (R.cnt e he).2

/-- **the heap scheduler yields a live event with the smallest time**: after any protocol-respecting
history, `get_succeeding_event` returns (or, if the monotonicity assertion fires, reports) a handler
whose *current* event has a finite time that no current finite event undercuts; it raises the
"empty" `SchedulerError` exactly when no handler has a current finite event. -/
theorem heap_get_minimal : GetOK cfg (LIVE) ((HS).get cfg).2 :=
  let R := (run_rel o hW ops _ _ _ (rel_init cfg W) (lrel_init cfg) hp).1
  (get_rel o R).2.1

/-- **trashed events are never returned** (nor handlers that never pushed) -/
theorem heap_never_returns_trashed (h : Nat) (t : κ) (hl : (LIVE) h = none) :
    ((HS).get cfg).2 ≠ .ok h t := by
  intro e
  have := heap_get_minimal o hW ops hp
  rw [e] at this
  have h1 : (LIVE) h = some t := this.1
  rw [hl] at h1; cases h1

/-- **empty ⇒ scheduler error**: with no current event at all both schedulers raise the "empty" error -/
theorem empty_error (he : ∀ h, (LIVE) h = none) :
    ((HS).get cfg).2 = .empty ∧ ((LS).get cfg).2 = .empty := by
  have RL := run_rel o hW ops _ _ _ (rel_init cfg W) (lrel_init cfg) hp
  constructor
  · have := (get_rel o RL.1).2.1
    cases hr : ((HS).get cfg).2 with
    | empty => rfl
    | ok h t => rw [hr] at this; have := this.1; rw [he] at this; cases this
    | guard h t => rw [hr] at this; have := this.1; rw [he] at this; cases this
  · have := (lget_rel o RL.2).2
    cases hr : ((LS).get cfg).2 with
    | empty => rfl
    | ok h t => rw [hr] at this; have := this.1; rw [he] at this; cases this
    | guard h t => rw [hr] at this; have := this.1; rw [he] at this; cases this

/-- the list scheduler returns a current event that no current event undercuts -/
theorem list_get_minimal : LGetOK cfg (LIVE) ((LS).get cfg).2 :=
  (lget_rel o (run_rel o hW ops _ _ _ (rel_init cfg W) (lrel_init cfg) hp).2).2

/-- handler and time carried by an outcome -/
def resEvent : GetRes κ → Option (Nat × κ)
  | .ok h t | .guard h t => some (h, t)
  | .empty => none

omit hW hp in
/-- **heap scheduler, list scheduler and reference model agree on the returned time** whenever a finite
current event exists (infinite times are never returned before finite ones): both return a current
event, both times are finite, and neither is smaller than the other nor than any current finite time.
`hfin` is the only fact used about `finite` (`time_fin_lt` proves it for `Time`). -/
theorem agree_time
    (hfin : ∀ a b, cfg.finite a = true → cfg.finite b = false → cfg.lt a b = true)
    {s : HSched κ} {ls : LSched κ} {live : Live κ} (R : Rel cfg W s live) (L : LRel ls live)
    (hex : ∃ h t, live h = some t ∧ cfg.finite t = true) :
    ∃ hH tH hL tL, resEvent (s.get cfg).2 = some (hH, tH) ∧ resEvent (ls.get cfg).2 = some (hL, tL) ∧
      live hH = some tH ∧ live hL = some tL ∧ cfg.finite tH = true ∧ cfg.finite tL = true ∧
      cfg.lt tH tL = false ∧ cfg.lt tL tH = false ∧
      ∀ h t, live h = some t → cfg.lt t tH = false ∧ cfg.lt t tL = false := by
  obtain ⟨h0, t0, hl0, hf0⟩ := hex
  have G := (get_rel o R).2.1
  have LG := (lget_rel o L).2
  -- the list scheduler returns something
  have key : ∀ hL tL, live hL = some tL → (∀ h' t', live h' = some t' → cfg.lt t' tL = false) →
      ∀ hH tH, live hH = some tH → cfg.finite tH = true →
        (∀ h' t', live h' = some t' → cfg.finite t' = true → cfg.lt t' tH = false) →
      cfg.finite tL = true ∧ cfg.lt tH tL = false ∧ cfg.lt tL tH = false ∧
        ∀ h t, live h = some t → cfg.lt t tH = false ∧ cfg.lt t tL = false := by
    intro hL tL lL mL hH tH lH fH mH
    have fL : cfg.finite tL = true := by
      cases hf : cfg.finite tL with
      | true => rfl
      | false => have := hfin _ _ hf0 hf; rw [mL _ _ hl0] at this; cases this
    refine ⟨fL, mL _ _ lH, mH _ _ lL fL, fun h t hl => ⟨?_, mL _ _ hl⟩⟩
    cases hf : cfg.finite t with
    | true => exact mH _ _ hl hf
    | false => exact o.asymm (hfin _ _ fH hf)
  cases hr : (s.get cfg).2 with
  | empty => rw [hr] at G; have := G h0 t0 hl0; rw [hf0] at this; cases this
  | ok hH tH =>
    rw [hr] at G
    cases hl : (ls.get cfg).2 with
    | empty => rw [hl] at LG; have := LG h0; rw [hl0] at this; cases this
    | ok hL tL =>
      rw [hl] at LG
      obtain ⟨a, b, c, d⟩ := key hL tL LG.1 LG.2 hH tH G.1 G.2.1 G.2.2
      exact ⟨hH, tH, hL, tL, rfl, rfl, G.1, LG.1, G.2.1, a, b, c, d⟩
    | guard hL tL =>
      rw [hl] at LG
      obtain ⟨a, b, c, d⟩ := key hL tL LG.1 LG.2 hH tH G.1 G.2.1 G.2.2
      exact ⟨hH, tH, hL, tL, rfl, rfl, G.1, LG.1, G.2.1, a, b, c, d⟩
  | guard hH tH =>
    rw [hr] at G
    cases hl : (ls.get cfg).2 with
    | empty => rw [hl] at LG; have := LG h0; rw [hl0] at this; cases this
    | ok hL tL =>
      rw [hl] at LG
      obtain ⟨a, b, c, d⟩ := key hL tL LG.1 LG.2 hH tH G.1 G.2.1 G.2.2
      exact ⟨hH, tH, hL, tL, rfl, rfl, G.1, LG.1, G.2.1, a, b, c, d⟩
    | guard hL tL =>
      rw [hl] at LG
      obtain ⟨a, b, c, d⟩ := key hL tL LG.1 LG.2 hH tH G.1 G.2.1 G.2.2
      exact ⟨hH, tH, hL, tL, rfl, rfl, G.1, LG.1, G.2.1, a, b, c, d⟩

/-- `agree_time` after any protocol-respecting history (pickling at any point included) -/
theorem agree_time_history
    (hfin : ∀ a b, cfg.finite a = true → cfg.finite b = false → cfg.lt a b = true)
    (hex : ∃ h t, (LIVE) h = some t ∧ cfg.finite t = true) :
    ∃ hH tH hL tL, resEvent ((HS).get cfg).2 = some (hH, tH) ∧ resEvent ((LS).get cfg).2 = some (hL, tL) ∧
      (LIVE) hH = some tH ∧ (LIVE) hL = some tL ∧ cfg.finite tH = true ∧ cfg.finite tL = true ∧
      cfg.lt tH tL = false ∧ cfg.lt tL tH = false ∧
      ∀ h t, (LIVE) h = some t → cfg.lt t tH = false ∧ cfg.lt t tL = false :=
  let RL := run_rel o hW ops _ _ _ (rel_init cfg W) (lrel_init cfg) hp
  agree_time o hfin RL.1 RL.2 hex

omit hW hp in
/-- if the minimum is unique, heap scheduler and list scheduler return the same *handler* -/
theorem agree_handler_unique
    (hfin : ∀ a b, cfg.finite a = true → cfg.finite b = false → cfg.lt a b = true)
    {s : HSched κ} {ls : LSched κ} {live : Live κ} (R : Rel cfg W s live) (L : LRel ls live)
    (hex : ∃ h t, live h = some t ∧ cfg.finite t = true)
    (huniq : ∀ h t h' t', live h = some t → live h' = some t' → h ≠ h' →
      cfg.lt t t' = true ∨ cfg.lt t' t = true) :
    (resEvent (s.get cfg).2).map (·.1) = (resEvent (ls.get cfg).2).map (·.1) := by
  obtain ⟨hH, tH, hL, tL, e1, e2, l1, l2, _, _, n1, n2, _⟩ := agree_time o hfin R L hex
  rw [e1, e2]
  by_cases hne : hH = hL
  · rw [hne]; rfl
  · rcases huniq hH tH hL tL l1 l2 hne with h | h
    · rw [n1] at h; cases h
    · rw [n2] at h; cases h

/-- the monotonicity assertion (`_event_time_increasing`): a handler is returned iff its time is not before the
last returned time, which then becomes the last returned time; otherwise the scheduler error is raised and
the last returned time is kept -/
theorem heap_get_guard :
    match ((HS).get cfg).2 with
    | .ok _ t => cfg.lt t (HS).last = false ∧ ((HS).get cfg).1.last = t
    | .guard _ t => cfg.lt t (HS).last = true ∧ ((HS).get cfg).1.last = (HS).last
    | .empty => ((HS).get cfg).1.last = (HS).last :=
  let R := (run_rel o hW ops _ _ _ (rel_init cfg W) (lrel_init cfg) hp).1
  (get_rel o R).2.2.2

/-- **pickle round trip**: re-inserting the entries in array order reproduces the array index by index
(no bubble-up step fires), so the unpickled scheduler is the same scheduler -/
theorem pickle_id :
    (∀ i, 1 ≤ i → i < (HS).heap.length → get cfg ((HS).pickle cfg).heap i = get cfg (HS).heap i) ∧
    ((HS).pickle cfg).heap.length = (if (HS).heap.length ≤ 1 then 0 else (HS).heap.length) ∧
    ((HS).pickle cfg).mv = (HS).mv ∧ ((HS).pickle cfg).last = (HS).last ∧
    ((HS).pickle cfg).heap.fault = false :=
  let R := (run_rel o hW ops _ _ _ (rel_init cfg W) (lrel_init cfg) hp).1
  let P := pickle_spec o R
  ⟨P.2.2.2.1, P.2.2.2.2, P.2.1, P.2.2.1, P.1.inv.1.1⟩

/-- **counter overflow path**: a push for an idle handler whose deletion counter cannot be passed to C
(`≥ W`) leaves exactly one entry of that handler — the new one, with counter 0 — resets the counter
to 0 and keeps every entry of the other handlers -/
theorem overflow_ok (t : κ) (h : Nat) (h0 : h ≠ 0) (hl : (LIVE) h = none) (hf : cfg.finite t = true)
    (m : Nat) (hm : mvGet (HS).mv h = some m) (hmW : W ≤ m) :
    let s' := (HS).push cfg W t h
    mvGet s'.mv h = some 0 ∧
    (∀ e, Mem cfg s'.heap e → e.h = h → e = ⟨t, h, 0⟩) ∧ Mem cfg s'.heap ⟨t, h, 0⟩ ∧
    (∀ e, e.h ≠ h → (Mem cfg s'.heap e ↔ Mem cfg (HS).heap e)) ∧
    Rel cfg W s' ((LIVE).set h (some t)) := by
  have R := (run_rel o hW ops _ _ _ (rel_init cfg W) (lrel_init cfg) hp).1
  intro s'
  have hR' : Rel cfg W s' ((LIVE).set h (some t)) := push_rel o hW R t h0 hl
  have hs' : s' = { (HS) with mv := mvSet (mvSetDefault (HS).mv h 0) h 0,
                               heap := insert cfg (deleteEvents cfg (HS).heap h) t h 0 } := by
    show (HS).push cfg W t h = _
    unfold HSched.push
    have : ¬ ((mvGet (HS).mv h).getD 0 < W) := by rw [hm]; simp; omega
    simp only [hf, if_true, this, if_false]
  obtain ⟨I1, _, M1⟩ := deleteEvents_spec o h R.inv
  obtain ⟨_, M', _, _⟩ := insert_spec o t h 0 I1
  rw [hs']
  refine ⟨by simp [mvGet_mvSet], ?_, (M' _).2 (Or.inl rfl), ?_, by rw [← hs']; exact hR'⟩
  · intro e he heh
    rcases (M' e).1 he with h1 | h1
    · exact h1
    · exact absurd heh ((M1 e).1 h1).2
  · intro e hne
    simp only
    rw [M' e, M1 e]
    constructor
    · rintro (h1 | ⟨h1, _⟩)
      · rw [h1] at hne; exact absurd rfl hne
      · exact h1
    · intro h1; exact Or.inr ⟨h1, hne⟩

end Histories

/-- for `Time` keys compared as in `heap.c` (quotient, then remainder) over any linear order with a least
element, the heap scheduler and the list scheduler return **the same time** after every
protocol-respecting history with a finite current event, and it is the least current time -/
theorem agree_time_Time {α : Type} [LinearOrder α] (bot top : α) (g : Nat → Entry (Time α)) (hb : ∀ a, bot ≤ a)
    {W : Nat} (hW : 0 < W) (ops : List (Op (Time α))) (hp : Protocol (fun _ => none : Live (Time α)) ops)
    (hex : ∃ h t, specRun (fun _ => none : Live (Time α)) ops h = some t ∧ (timeCfg bot top g).finite t = true) :
    ∃ hH hL t, resEvent ((hRun (timeCfg bot top g) W (HSched.init (timeCfg bot top g)) ops).get (timeCfg bot top g)).2 = some (hH, t) ∧
      resEvent ((lRun (timeCfg bot top g) (LSched.init (timeCfg bot top g)) ops).get (timeCfg bot top g)).2 = some (hL, t) ∧
      specRun (fun _ => none : Live (Time α)) ops hH = some t ∧ specRun (fun _ => none : Live (Time α)) ops hL = some t ∧
      ∀ h t', specRun (fun _ => none : Live (Time α)) ops h = some t' → Time.cLt t' t = false := by
  obtain ⟨hH, tH, hL, tL, e1, e2, l1, l2, _, _, n1, n2, mn⟩ :=
    agree_time_history (timeCfg_strictWeak bot top g hb) hW ops hp (time_fin_lt bot top g) hex
  have : tH = tL := time_total tH tL n1 n2
  subst this
  exact ⟨hH, hL, tH, e1, e2, l1, l2, fun h t' hl => (mn h t' hl).1⟩

/-! ### non-vacuity: concrete instances of every hypothesis used above -/

section Examples

/-- `Time` over `ℕ` (quotient-then-remainder comparison of `heap.c`), sentinel `(0, 0)`, "infinity" `(1000, 1000)`,
fresh memory filled with a bogus entry -/
def exCfg : Cfg (Time Nat) := timeCfg 0 1000 (fun _ => ⟨⟨7, 7⟩, 99, 5⟩)

/-- `StrictWeak` holds for it … -/
example : StrictWeak exCfg := timeCfg_strictWeak 0 1000 _ (fun a => Nat.zero_le a)
/-- … and so does the hypothesis `hfin` of `agree_time` -/
example : ∀ a b, exCfg.finite a = true → exCfg.finite b = false → exCfg.lt a b = true :=
  time_fin_lt 0 1000 _

/-- a protocol-respecting history with ties (equal quotient and remainder, equal quotient only), an
infinite time, a trash, a lazy deletion at the root, a pickle round trip and a re-push -/
def exHist : List (Op (Time Nat)) :=
  [.push ⟨1, 5⟩ 1, .push ⟨1, 5⟩ 2, .push ⟨1, 2⟩ 3, .push ⟨1000, 1000⟩ 4, .trash 3, .get, .pickle,
   .push ⟨1, 7⟩ 3, .trash 1, .get]

example : Protocol (fun _ => none) exHist := by
  simp [exHist, Protocol, specStep, Live.set]

/-- a finite current event exists after it (hypothesis `hex` of `agree_time_history`) -/
example : ∃ h t, specRun (fun _ => none) exHist h = some t ∧ exCfg.finite t = true :=
  ⟨2, ⟨1, 5⟩, by simp [exHist, specRun, specStep, Live.set], by decide⟩

/-- on this history the model of the heap scheduler returns handler 2 at time (1, 5): the trashed handlers 3
(smaller time) and 1 (equal time) are skipped -/
example : (resEvent ((hRun exCfg 4294967296 (HSched.init exCfg) exHist).get exCfg).2).map
    (fun p => (p.1, p.2.q, p.2.r)) = some (2, 1, 5) := by decide +kernel

/-- hypotheses of `overflow_ok` with the counter range `W = 2`: after two trashes the counter of handler 1 is 2 -/
example : Protocol (fun _ => none) ([.trash 1, .trash 1] : List (Op (Time Nat))) ∧
    specRun (fun _ => none) ([.trash 1, .trash 1] : List (Op (Time Nat))) 1 = none ∧
    mvGet (hRun exCfg 2 (HSched.init exCfg) [.trash 1, .trash 1]).mv 1 = some 2 := by
  refine ⟨by simp [Protocol], by simp [specRun, specStep, Live.set], by decide⟩

/-- hypothesis `huniq` of `agree_handler_unique`: a history whose current events have pairwise different times -/
example : ∀ h t h' t',
    specRun (fun _ => none) ([.push ⟨1, 5⟩ 1, .push ⟨1, 6⟩ 2] : List (Op (Time Nat))) h = some t →
    specRun (fun _ => none) ([.push ⟨1, 5⟩ 1, .push ⟨1, 6⟩ 2] : List (Op (Time Nat))) h' = some t' → h ≠ h' →
    exCfg.lt t t' = true ∨ exCfg.lt t' t = true := by
  intro h t h' t' h1 h2 hne
  simp only [specRun, specStep, Live.set] at h1 h2
  split at h1 <;> split at h2
  · omega
  · split at h2
    · cases h1; cases h2; right; decide
    · cases h2
  · split at h1
    · cases h1; cases h2; left; decide
    · cases h1
  · split at h1 <;> split at h2
    · omega
    · cases h2
    · cases h1
    · cases h1

/-- `agree_time_Time` applies to `exCfg` / `exHist` -/
example := agree_time_Time (α := Nat) 0 1000 (fun _ => ⟨⟨7, 7⟩, 99, 5⟩) (fun a => Nat.zero_le a)
    (show 0 < 4294967296 by decide) exHist
    (by simp [exHist, Protocol, specStep, Live.set])
    ⟨2, ⟨1, 5⟩, by simp [exHist, specRun, specStep, Live.set], by decide⟩

end Examples
end JF.C06
