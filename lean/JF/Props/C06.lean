import JF.Model.Sched
import Mathlib.Order.Basic
/-! # C06 (theorems under construction) -/
namespace JF.C06
open JF.Heap JF.Sched

/-- asking a freshly constructed heap scheduler fails with the "empty" scheduler error -/
theorem get_init_empty {κ : Type} (cfg : Cfg κ) :
    ((HSched.init cfg).get cfg).2 = GetRes.empty := by
  simp [HSched.get, HSched.init, root, rootLoop, CHeap.empty, nullEntry]

end JF.C06
