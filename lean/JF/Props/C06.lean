import JF.Lemmas.HeapList
import JF.Lemmas.HeapPickle
import Mathlib.Order.Basic
import Mathlib.Order.Lattice
/-!
# C06 — Scheduler always yields a live event with the smallest candidate time

The theorems are about the executable models `JF.Model.Heap` (`heap.c`, every array access
bounds-checked, fresh memory arbitrary) and `JF.Model.Sched` (`HeapScheduler`, `ListScheduler`) —
the same definitions the driver runs against the real code — for **every** history of
`push / trash / get / pickle` operations that respects the mediator protocol, every key type with a
strict weak order `lt` and a minimal sentinel key (`StrictWeak`; the instance for `Time` with the
comparison of `heap.c` over any linear order is `timeCfg_strictWeak`), every content of
fresh memory (`cfg.garbage`) and every counter range `W ≥ 1` (the C code has `W = 2^32`).

Supporting lemmas (all proved, no `sorry`): `JF/Lemmas/HeapBasic, HeapInsert, HeapDown, HeapSched,
HeapList, HeapPickle`.
-/
namespace JF.C06
open JF JF.Heap JF.Sched

/-! ### the comparison of `heap.c` on `Time` is a strict weak order with `(⊥, ⊥)` minimal -/

section TimeOrder
variable {α : Type} [LinearOrder α]

/-- configuration with `Time` keys: `lt` is literally `Time.cLt`, the finiteness test of
`HeapScheduler.push_event` is literally `time < Time(top, top)` -/
def timeCfg (bot top : α) (g : Nat → Entry (Time α)) : Cfg (Time α) where
  lt := Time.cLt
  bot := ⟨bot, bot⟩
  finite t := Time.lt t ⟨top, top⟩
  garbage := g

theorem cLt_iff (t u : Time α) : Time.cLt t u = true ↔ t.q < u.q ∨ (t.q = u.q ∧ t.r < u.r) := by
  simp [Time.cLt]

theorem cLt_false_iff (t u : Time α) : Time.cLt t u = false ↔ u.q < t.q ∨ (t.q = u.q ∧ u.r ≤ t.r) := by
  rw [← Bool.not_eq_true, cLt_iff]
  constructor
  · intro h
    rcases lt_trichotomy t.q u.q with h1 | h1 | h1
    · exact absurd (Or.inl h1) h
    · exact Or.inr ⟨h1, not_lt.1 fun h2 => h (Or.inr ⟨h1, h2⟩)⟩
    · exact Or.inl h1
  · rintro (h | ⟨h1, h2⟩) (h' | ⟨h1', h2'⟩)
    · exact lt_asymm h h'
    · rw [h1'] at h; exact lt_irrefl _ h
    · rw [h1] at h'; exact lt_irrefl _ h'
    · exact not_lt.2 h2 h2'

theorem cLt_ntrans (a b c : Time α) :
    Time.cLt a b = false → Time.cLt b c = false → Time.cLt a c = false := by
  simp only [cLt_false_iff]
  rintro (h | ⟨h1, h2⟩) (h' | ⟨h1', h2'⟩)
  · exact Or.inl (lt_trans h' h)
  · exact Or.inl (h1' ▸ h)
  · exact Or.inl (h1 ▸ h')
  · exact Or.inr ⟨h1.trans h1', le_trans h2' h2⟩

theorem timeCfg_strictWeak (bot top : α) (g : Nat → Entry (Time α)) (hb : ∀ a, bot ≤ a) :
    StrictWeak (timeCfg bot top g) where
  irrefl a := by
    show Time.cLt a a = false
    rw [cLt_false_iff]; exact Or.inr ⟨rfl, le_refl _⟩
  trans a b c := by
    show Time.cLt a b = true → Time.cLt b c = true → Time.cLt a c = true
    simp only [cLt_iff]
    rintro (h | ⟨h1, h2⟩) (h' | ⟨h1', h2'⟩)
    · exact Or.inl (lt_trans h h')
    · exact Or.inl (h1' ▸ h)
    · exact Or.inl (h1 ▸ h')
    · exact Or.inr ⟨h1.trans h1', lt_trans h2 h2'⟩
  ntrans := cLt_ntrans
  bot_min a := by
    show Time.cLt a ⟨bot, bot⟩ = false
    rw [cLt_false_iff]
    rcases lt_or_eq_of_le (hb a.q) with h | h
    · exact Or.inl h
    · exact Or.inr ⟨h.symm, hb _⟩

/-- `lt`-incomparable times are equal: the order on `Time` is total, so "the minimal time" is unique -/
theorem time_total (t u : Time α) (h1 : Time.cLt t u = false) (h2 : Time.cLt u t = false) : t = u := by
  rw [cLt_false_iff] at h1 h2
  obtain ⟨tq, tr⟩ := t; obtain ⟨uq, ur⟩ := u
  simp only at h1 h2
  rcases h1 with h1 | ⟨e1, l1⟩ <;> rcases h2 with h2 | ⟨e2, l2⟩
  · exact absurd h1 (lt_asymm h2)
  · rw [e2] at h1; exact absurd h1 (lt_irrefl _)
  · rw [e1] at h2; exact absurd h2 (lt_irrefl _)
  · rw [e1, le_antisymm l1 l2]

/-- an infinite time is never before a finite one (`finite t` is `t < (top, top)`) -/
theorem time_fin_lt (bot top : α) (g : Nat → Entry (Time α)) (a b : Time α)
    (ha : (timeCfg bot top g).finite a = true) (hb : (timeCfg bot top g).finite b = false) :
    (timeCfg bot top g).lt a b = true := by
  change Time.lt a ⟨top, top⟩ = true at ha
  change Time.lt b ⟨top, top⟩ = false at hb
  change Time.cLt a b = true
  have e : ∀ x y : Time α, Time.lt x y = Time.cLt x y := fun _ _ => rfl
  rw [e] at ha hb
  cases h : Time.cLt a b with
  | true => rfl
  | false => have := cLt_ntrans _ _ _ h hb; rw [ha] at this; cases this

end TimeOrder
end JF.C06
