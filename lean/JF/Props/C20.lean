import JF.Model.MPMediator
import JF.Lemmas.MPLocal
import JF.Lemmas.MPLoop
import JF.Lemmas.MPLeg
import JF.Lemmas.MPRun
/-!
# C20 — Multi-process mediator commits the same events as the single-process mediator

Object of the theorems: the protocol model `JF/Model/MPMediator.lean` of
`jellyfysh/mediator/multi_process_mediator/multi_process_mediator.py` — one leg of `MultiProcessMediator.run`
(`JF.MP.leg` = `legRecv` ; `HS.commit` ; `trashAll`), the worker loop `run_in_process` (`HS.start`, `HS.cont`,
`HS.finish`), and the two mediators closed over the same rest of the application (`runMP`, `runSP`).
Values are abstracted to **tags**: a candidate time / out-state is identified by the handler and the leg in which the
in-state it was computed from was extracted (handler computations are deterministic functions of that in-state and
of the position in the handler's private random stream; out-state computations draw no random numbers — the
quantifier of the property).

All statements hold for every core count (in particular every `cores ≥ 2`: the pre-computation threshold
`0 < remaining < cores − 1` only decides *when* something is started ahead of time, never *what* is committed),
every set of handlers, every assignment of `send_out_state` arities and **every adversary**: the adversary is the
list of results of `connection.wait`, constrained only by the contract of `wait` without time-out (`waitOK`: a
non-empty list of distinct pipes of the leg that have something in flight).

Hypotheses stated explicitly: the activator protocol (`running`, below and `JF.MP.Protocol`): a handler is returned
by `get_event_handlers_to_run` only if it is not running; the handler returned by the scheduler is running; the
committed handler is in its own trash list; trashed handlers stop running.

Abstracted (exercised by the real runs of the check, not proved): the non-atomicity of the monkey-patched or-event,
OS pipes/semaphore/process reaping.

**Historical note (ties).** Until the repair recorded in `known_findings/C20.json` (status "fixed") the multi-process
mediator called `push_event` inside the receive loop, i.e. in the order in which the workers finished. The schedulers
return the first-pushed of several minimal events, so when two handlers started in the same leg reported the same
candidate time (sampling interval = end-of-run time; the sphere handler and the dipole handler of one pair of
spheres in the shipped `hard_disk_dipoles_cells.ini`) the committed handler depended on the arrival order, and the
refinement theorem needed the extra hypothesis "the scheduler's answer does not depend on the push order"
(`Protocol.choose_perm`). The repaired mediator collects the candidate times in `received_event_times` and pushes
them after the loop in the order in which the activator returned the handlers (`pushAll`) — the push sequence of the
single-process mediator. `stage_inv` now proves the pushes ARE `created` in order, and `mp_refines_sp` no longer
assumes anything about ties. §6 keeps the counterexample for the old arrival-order variant.
-/
namespace JF.C20
open JF.MP

/-! ## 0. the initial state -/

/-- `_start_processes`: every handler idle, every worker blocked in its first `wait()`, pipes empty, `_out_states`
empty, nothing running: the boundary invariant holds -/
theorem init_inv : BInv (fun _ => false) (fun _ => {}) := by
  intro h; show ({} : HS).boundary false = true; decide

/-! ## 1. `leg_terminates` -/

/-- **Variant.** `mu` = Σ over the handlers of the leg of: 2 if `event_time_started`, 1 if `out_state_started`,
1 if suspended and queued in `pipes_time_received`, else 0. One `for` loop over a legitimate `wait` result of
length `k ≥ 1` lowers it by at least `k` and raises no error. -/
theorem variant_decreases {n : Nat} {created : List Nat} {s0 : St} (c : Cfg) (w : List Nat) {L : Loop}
    (hI : LInv n created s0 L) (hw : waitOK created L.st w = true) :
    ∃ L', procWait c created.length L w = .ok L' ∧ LInv n created s0 L' ∧ mu created L' + w.length ≤ mu created L ∧
      1 ≤ w.length := by
  rw [waitOK_iff] at hw
  obtain ⟨L', h1, h2, h3, -⟩ := procWait_ok c w hI hw.2.1 hw.2.2
  refine ⟨L', h1, h2, h3, ?_⟩
  cases w with
  | nil => exact absurd rfl hw.1
  | cons _ _ => simp

/-- **The receive loop ends after at most `2 · len(created)` waits**, for every legitimate adversary: it raises
nothing ("already finished" never fires), `connection.wait` is never called with nothing in flight (no deadlock),
and the only way not to finish is that the adversary stops answering before `2 · len(created)` waits (unfair). -/
theorem leg_terminates (c : Cfg) (n : Nat) {running : Nat → Bool} {s : St} {created : List Nat}
    (waits : List (List Nat)) (hB : BInv running s) (hn : created.Nodup)
    (hfresh : ∀ h ∈ created, running h = false) (hl : legLegit c n s created waits = true) :
    (legRecv c n s created waits = .error .starved ∧ waits.length < 2 * created.length) ∨
    ∃ L ps rest, legRecv c n s created waits = .ok (L, ps, rest) ∧ rest.length ≤ waits.length ∧
      waits.length - rest.length ≤ 2 * created.length := by
  rcases legRecv_ok c n waits hB hn hfresh hl with h | ⟨L, rest, h1, -, h3, h4⟩
  · exact Or.inl h
  · exact Or.inr ⟨L, _, rest, h1, h3, h4⟩

/-- fairness in its simplest form: an adversary that supplies `2 · len(created)` legitimate waits is enough -/
theorem leg_terminates_fair (c : Cfg) (n : Nat) {running : Nat → Bool} {s : St} {created : List Nat}
    (waits : List (List Nat)) (hB : BInv running s) (hn : created.Nodup)
    (hfresh : ∀ h ∈ created, running h = false) (hl : legLegit c n s created waits = true)
    (hlen : 2 * created.length ≤ waits.length) :
    ∃ L ps rest, legRecv c n s created waits = .ok (L, ps, rest) := by
  rcases leg_terminates c n waits hB hn hfresh hl with ⟨-, h⟩ | ⟨L, ps, rest, h, -⟩
  · omega
  · exact ⟨L, ps, rest, h⟩

/-! ## 2. `stage_inv` -/

/-- **One leg preserves the boundary invariant and cannot fail.** Under the boundary invariant `BInv running s`
(every handler: stage ↔ worker program counter ↔ pipe contents coherent, `HS.coh`; nobody `event_time_started`; a
handler that is not running is idle with no stored out-state; a running idle handler has a stored out-state), the
activator protocol (`hn hfresh hrun htr`) and a legitimate adversary, the leg
* raises none of "Event Process not ready!", "… already finished …", `KeyError`, the `assert`, the worker's
  "Continue event is not allowed in idle state!", never blocks in `recv`/`wait` and never misreads a pipe — its only
  other outcome is `starved` (the adversary stopped before `2·len(created)` waits);
* re-establishes the invariant for `running' = (running ∪ created) \ trash`;
* commits the out-state tagged with the leg of the last start of the chosen handler;
* pushes exactly the candidate times of this leg, in the order in which the activator returned the handlers — the
  `push_event` sequence of the single-process mediator (the arrival order `o.loop.recvd` is irrelevant);
* leaves every worker that is not (still) running blocked with an empty pipe. -/
theorem stage_inv (c : Cfg) (n : Nat) {running : Nat → Bool} {last : Nat → Nat} {s : St} {created : List Nat}
    (waits : List (List Nat)) {chosen : Nat} {trash : List Nat}
    (hB : BInv running s) (hlast : ∀ h, (s h).tag = last h)
    (hn : created.Nodup) (hfresh : ∀ h ∈ created, running h = false)
    (hrun : running chosen = true ∨ chosen ∈ created) (htr : chosen ∈ trash)
    (hl : legLegit c n s created waits = true) :
    (leg c n s created waits chosen trash = .error .starved ∧ waits.length < 2 * created.length) ∨
    ∃ o, leg c n s created waits chosen trash = .ok o ∧
      BInv (running' running created trash) o.st ∧
      (∀ h, (o.st h).tag = last' last created n h) ∧
      o.tag = last' last created n chosen ∧
      o.pushes = (created.map fun h => (h, n)) ∧
      (∀ h, running' running created trash h = false → (o.st h).quiescent = true) ∧
      (∀ h, (o.st h).stage ≠ .outStarted → (o.st h).quiescent = true) := by
  rcases legRecv_ok c n waits hB hn hfresh hl with ⟨h1, h2⟩ | ⟨L, rest, hL, hP, -, -⟩
  · left; exact ⟨by simp [leg, h1], h2⟩
  · right
    obtain ⟨p, y, s3, ds, hcom, htrash, hB3, hlast3, hq1, hq2⟩ := legEnd_ok hB hlast hP hrun htr
    exact ⟨⟨s3, upd L.st chosen y, L, created.map fun h => (h, n), rest.length, last' last created n chosen, p, ds⟩,
      by simp [leg, hL, hcom, htrash], hB3, hlast3, rfl, rfl, hq1, hq2⟩

/-- "Event Process not ready!" never fires: under the invariant every handler the activator may return is idle -/
theorem activatable_is_idle {running : Nat → Bool} {s : St} (hB : BInv running s) {h : Nat}
    (hr : running h = false) : (s h).stage = .idle ∧ (s h).stored = none ∧ (s h).chan = [] := by
  have hb := (boundary_iff _ _).1 (hB h)
  obtain ⟨h1, h2⟩ := hb.2.2.2 hr
  refine ⟨h1, h2, ?_⟩
  have := (coh_iff _).1 hb.1
  rw [h1] at this
  exact this.1.2

/-- a handler is in stage suspended / out_state_started only while it is running -/
theorem busy_only_while_running {running : Nat → Bool} {s : St} (hB : BInv running s) {h : Nat}
    (hs : (s h).stage ≠ .idle) : running h = true := by
  cases hr : running h with
  | true => rfl
  | false => exact absurd (activatable_is_idle hB hr).1 hs

/-! ## 3. `mp_refines_sp`, `no_stale_out_state` -/

/-- **Nothing computed for a handler survives its trashing**: at every leg boundary a handler that is not running
has no stored out-state and an empty pipe, and its worker is blocked; whatever is stored or in flight for a running
handler carries the tag of its last start. Hence an out-state pre-computed for an event that was trashed can never
be committed later. -/
theorem no_stale_out_state {running : Nat → Bool} {s : St} (hB : BInv running s) (h : Nat) :
    (running h = false → (s h).stored = none ∧ (s h).chan = [] ∧ (s h).quiescent = true) ∧
    (∀ t, (s h).stored = some t → t = (s h).tag) ∧
    (∀ m ∈ (s h).chan, m = .out (s h).tag) := by
  have hb := (boundary_iff _ _).1 (hB h)
  have hc := (coh_iff _).1 hb.1
  refine ⟨?_, fun t ht => (hc.2 t ht).2, ?_⟩
  · intro hr
    obtain ⟨h1, h2, h3⟩ := activatable_is_idle hB hr
    refine ⟨h2, h3, ?_⟩
    have := hc.1
    rw [h1] at this
    simp only [HS.quiescent, decide_eq_true_eq]
    exact this
  · intro m hm
    have h1 := hc.1
    cases hst : (s h).stage with
    | idle => rw [hst] at h1; rw [h1.2] at hm; cases hm
    | suspended => rw [hst] at h1; rw [h1.2] at hm; cases hm
    | timeStarted => exact absurd hst hb.2.1
    | outStarted =>
      rw [hst] at h1
      rcases h1 with h1 | h1
      · rw [h1.2] at hm; cases hm
      · rw [h1.2] at hm; simpa using hm

/-- **The multi-process mediator refines the single-process mediator.** For every rest of the application `env`
obeying the activator/scheduler protocol, every core count, every arity assignment and every adversary (one list of
`wait` results per leg), from the initial state: the run of the multi-process mediator either commits exactly the
sequence of (handler, event time, out-state, global state after the commit) of the single-process mediator over the
same number of legs, or it stopped because the adversary broke the contract of `connection.wait` / stopped
answering. No other outcome exists: no `MediatorError`, no `KeyError`, no blocked `recv`, no deadlock.
Nothing is assumed about the scheduler (`env.choose` is an arbitrary function of its state and of the sequence of
pushes): equal candidate times are covered, because both mediators push the same sequence.
Every sample is written by a mediating method as a function of the committed handler and the global state, so the
samples coincide as well. -/
theorem mp_refines_sp {G E T O : Type} (env : Env G E T O) (R : E → Nat → Bool) (P : Protocol env R) (cfg : Cfg)
    (advs : List (List (List Nat))) (g : G) (e : E) (hR : ∀ h, R e h = false) (hist : Nat → G) :
    runMP env cfg advs 0 g e (fun _ => {}) hist = .ok (runSP env advs.length 0 g e (fun _ => 0) hist) ∨
    AdvFail (runMP env cfg advs 0 g e (fun _ => {}) hist) := by
  have hB : BInv (R e) (fun _ => {}) := by
    have : R e = fun _ => false := funext hR
    rw [this]; exact init_inv
  exact runMP_refines env R P cfg advs 0 g e _ hist (fun _ => 0) hB (fun _ => rfl)

/-- the same from any boundary state satisfying the invariant (e.g. after a resume) -/
theorem mp_refines_sp_from {G E T O : Type} (env : Env G E T O) (R : E → Nat → Bool) (P : Protocol env R) (cfg : Cfg)
    (advs : List (List (List Nat))) (n : Nat) (g : G) (e : E) (s : St) (hist : Nat → G) (last : Nat → Nat)
    (hB : BInv (R e) s) (hlast : ∀ h, (s h).tag = last h) :
    runMP env cfg advs n g e s hist = .ok (runSP env advs.length n g e last hist) ∨
    AdvFail (runMP env cfg advs n g e s hist) :=
  runMP_refines env R P cfg advs n g e s hist last hB hlast

/-! ## 4. the end of the run -/

/-- **Workers at the end of a run.** The run ends (EndOfRun raised by a mediating method) after the trash loop of
some leg, i.e. in a boundary state. There no worker has raised (see `stage_inv`: "Continue event is not allowed in
idle state!" cannot fire), so every worker process is alive inside its loop and `post_run`'s
`is_alive → terminate → join` reaches each of them. Every worker is blocked in one of its two `wait()` calls with an
empty pipe, *except* running handlers left in `out_state_started` by a pre-computation that was neither used nor
trashed: those are computing or have one unread out-state in their pipe (which is smaller than the pipe buffer or
else the worker is blocked in `send`; either way `terminate` does not depend on it). -/
theorem workers_at_end {running : Nat → Bool} {s : St} (hB : BInv running s) (h : Nat) :
    (s h).quiescent = true ∨
    (running h = true ∧ (s h).stage = .outStarted ∧
      (((s h).pc = .computingOut ∧ (s h).chan = []) ∨ ((s h).pc = .idle ∧ (s h).chan = [.out (s h).tag]))) := by
  have hb := (boundary_iff _ _).1 (hB h)
  have hc := ((coh_iff _).1 hb.1).1
  cases hst : (s h).stage with
  | timeStarted => exact absurd hst hb.2.1
  | idle => left; rw [hst] at hc; simpa [HS.quiescent] using hc
  | suspended => left; rw [hst] at hc; simp [HS.quiescent, hc.1, hc.2]
  | outStarted =>
    right
    rw [hst] at hc
    exact ⟨busy_only_while_running hB (by rw [hst]; simp), rfl, hc⟩

/-- if the last committed handler trashes everything that runs (as the end-of-run tagger of the shipped
configurations does for every handler with a pre-computable out-state), every worker is blocked with an empty pipe -/
theorem all_quiescent_at_end {running : Nat → Bool} {s : St} (hB : BInv running s)
    (hnone : ∀ h, (s h).stage = .outStarted → running h = false) (h : Nat) : (s h).quiescent = true := by
  rcases workers_at_end hB h with hq | ⟨hr, hst, -⟩
  · exact hq
  · rw [hnone h hst] at hr; cases hr

/-! ## 5. non-vacuity: a concrete leg with 4 handlers on 3 cores -/

/-- 3 cores, no handler takes `send_out_state` arguments -/
def exCfg : Cfg := ⟨3, fun _ => false⟩
/-- leg 7 from the initial state; the activator returns handlers 0 1 2 3 -/
def exCreated : List Nat := [0, 1, 2, 3]
/-- adversary: first the times of 2 0 1 arrive, in this order (after the third, `0 < 1 < 2`: handler 2, the head of
`pipes_time_received`, is started ahead of time), then the pre-computed out-state of 2 (which starts the
pre-computation of 0) together with the time of 3 -/
def exWaits : List (List Nat) := [[2, 0, 1], [2, 3]]

/-- the scheduler returns 3; its trash list contains 0 (pre-computation in flight: drained and discarded) and 2
(pre-computed out-state stored: deleted); 1 stays suspended -/
def exLeg : Except Err LegOut := leg exCfg 7 (fun _ => {}) exCreated exWaits 3 [3, 0, 2]

example : legLegit exCfg 7 (fun _ => {}) exCreated exWaits = true := by decide

example : (match exLeg with
    | .ok o => decide (
        o.loop.pre = [2, 0] ∧                                   -- two pre-computations were started
        o.loop.recvd = [(2, 7), (0, 7), (1, 7), (3, 7)] ∧       -- arrival order
        o.pushes = [(0, 7), (1, 7), (2, 7), (3, 7)] ∧           -- push order = order of `created`
        (o.atCommit 2).stored = some 7 ∧ (o.atCommit 0).stage = .outStarted ∧
        (o.atCommit 1).stage = .suspended ∧ (o.atCommit 3).stored = some 7 ∧
        o.tag = 7 ∧ o.path = .startedNow ∧
        o.discarded = [3, 0, 2] ∧                               -- 0 (in flight) and 2 (stored) thrown away, 3 = the committed one
        (o.st 2).stage = .idle ∧ (o.st 2).stored = none ∧ (o.st 0).stage = .idle ∧ (o.st 0).chan = [] ∧
        (o.st 1).stage = .suspended ∧ (o.st 3).stage = .idle ∧ o.waitsLeft = 0)
    | .error _ => false) = true := by decide

/-- next leg: only 0 and 2 are restarted, 1 is still suspended from leg 7 and is chosen now: its out-state carries
tag 7 (the leg of its last start), while the out-state of 2 pre-computed in leg 8 is committed in leg 9 -/
example : (match exLeg with
    | .ok o =>
      match leg exCfg 8 o.st [0, 2] [[2, 0]] 1 [1] with
      | .ok o2 =>
        decide (o2.tag = 7 ∧ o2.path = .startedNow ∧ o2.loop.pre = [2] ∧ (o2.st 2).stage = .outStarted ∧
                o2.pushes = [(0, 8), (2, 8)]) &&
        (match leg exCfg 9 o2.st [1] [[1]] 2 [2] with
         | .ok o3 => decide (o3.tag = 8 ∧ o3.path = .inFlight)
         | .error _ => false)
      | .error _ => false
    | .error _ => false) = true := by decide

/-- the error outcomes are reachable when the hypotheses are dropped: a handler that is not idle is returned by the
activator; a `wait` result lists a pipe with nothing in flight; the scheduler returns a handler that never ran -/
example : (match leg exCfg 1 (upd (fun _ => {}) 0 { stage := .suspended, pc := .suspended }) [0] [[0]] 0 [0] with
    | .error e => decide (e = .notReady) | _ => false) = true := by
  decide
example : (match leg ⟨2, fun _ => false⟩ 1 (fun _ => {}) [0, 1] [[0, 0]] 0 [0] with
    | .error e => decide (e = .alreadyFinished) | _ => false) = true := by
  decide
example : (match leg exCfg 1 (fun _ => {}) [0] [[0]] 5 [5] with | .error e => decide (e = .keyError) | _ => false) = true := by
  decide

/-! ### a toy application satisfying `Protocol` -/

/-- three handlers 0 1 2; `E` = the set of running handlers; the activator returns every handler that is not
running; the scheduler answers with a handler determined by the multiset of pushed times; only the committed handler
is trashed -/
def toyEnv : Env Nat (Nat → Bool) Nat Nat where
  activate := fun _ e => ([0, 1, 2].filter (fun h => !e h), fun h => e h || decide (h ∈ [0, 1, 2].filter (fun h => !e h)))
  timeOf := fun h n g => 2 * h + 2 * n + g
  outOf := fun h n g => h * n + g + 1
  choose := fun e l => ((l.map (·.2)).sum % 3, e)
  commit := fun g o => g + o
  trash := fun e c => ([c], fun h => e h && !decide (h ∈ [c]))

theorem toy_protocol : Protocol toyEnv (fun e h => e h) where
  act_nodup := by
    intro g e
    exact List.Nodup.sublist List.filter_sublist (by decide)
  act_fresh := by
    intro g e h hh
    simp only [toyEnv, List.mem_filter] at hh
    simpa using hh.2
  act_run := by intro g e h; rfl
  choose_run := by
    intro g e l
    have h3 : (l.map (·.2)).sum % 3 = 0 ∨ (l.map (·.2)).sum % 3 = 1 ∨ (l.map (·.2)).sum % 3 = 2 := by omega
    simp only [toyEnv]
    rcases h3 with h | h | h <;> rw [h] <;> cases he : e _ <;> simp [he]
  choose_keep := by intro e l h; rfl
  trash_self := by intro e c; simp [toyEnv]
  trash_run := by intro e c h; rfl

/-- six legs of the toy application on 3 cores under a legitimate adversary that delivers out of order (in leg 0 the
out-state of handler 2 is started ahead of time; it is committed in leg 2): the multi-process run commits what the
single-process run commits -/
example : ((runMP toyEnv exCfg [[[2, 0], [1]], [[0]], [[1]], [[2]], [[0]], [[1]]] 0 5 (fun _ => false) (fun _ => {})
        (fun _ => 0)).toOption.map fun l => l.map fun c => (c.handler, c.time, c.out, c.post)) =
    some ((runSP toyEnv 6 0 5 (fun _ => false) (fun _ => 0) (fun _ => 0)).map fun c => (c.handler, c.time, c.out, c.post)) := by
  decide

example : (runSP toyEnv 6 0 5 (fun _ => false) (fun _ => 0) (fun _ => 0)).map (·.handler) = [0, 1, 2, 0, 1, 1] := by
  decide

/-! ## 6. ties between candidate times: harmless now, and why they were not (historical) -/

/-- `ListScheduler.get_succeeding_event` on the events of one leg: `min(events, key=time)` — the *first* minimal one -/
def firstMin : List (Nat × Nat) → Nat
  | [] => 0
  | (h, t) :: l => if l.all (fun p => decide (t ≤ p.2)) then h else firstMin l

/-- the toy application with a scheduler that breaks ties by push order, and handlers that all report the same
candidate time -/
def tieEnv : Env Nat (Nat → Bool) Nat Nat :=
  { toyEnv with timeOf := fun _ _ _ => 7, choose := fun e l => (firstMin l, e) }

/-- with the model of the repaired mediator the tie is harmless: all candidate times equal, a scheduler that returns
the first-pushed minimal event, the times arrive in the order 2, 1, 0 — both mediators commit handler 0 -/
example :
    (runSP tieEnv 1 0 5 (fun _ => false) (fun _ => 0) (fun _ => 0)).map (·.handler) = [0] ∧
    ((runMP tieEnv exCfg [[[2, 1, 0]]] 0 5 (fun _ => false) (fun _ => {}) (fun _ => 0)).toOption.map
      fun l => l.map (·.handler)) = some [0] := by
  decide

/-- HISTORICAL: `MultiProcessMediator.run` as it was before the repair — `push_event` inside the receive loop, i.e.
the scheduler sees the candidate times in arrival order (`L.recvd`). Not a model of the current code. -/
def runMPArrivalOrder {G E T O : Type} (env : Env G E T O) (cfg : Cfg) :
    List (List (List Nat)) → Nat → G → E → St → (Nat → G) → Except (Nat × Err) (List (Commit G T O))
  | [], _, _, _, _, _ => .ok []
  | ws :: rest, n, g, e, s, hist =>
    let (cr, e1) := env.activate g e
    let hist' : Nat → G := fun m => if m = n then g else hist m
    if legLegit cfg n s cr ws = false then .error (n, .adversary) else
    match legRecv cfg n s cr ws with
    | .error err => .error (n, err)
    | .ok (L, _, _) =>
      let (c, e2) := env.choose e1 (L.recvd.map fun p => (p.1, env.timeOf p.1 p.2 (hist' p.2)))
      match (L.st c).commit with
      | .error err => .error (n, err)
      | .ok (tag, _, y) =>
        let out := env.outOf c tag (hist' tag)
        let g' := env.commit g out
        let (tr, e3) := env.trash e2 c
        match trashAll (upd L.st c y) tr with
        | .error err => .error (n, err)
        | .ok (s3, _) =>
          match runMPArrivalOrder env cfg rest (n + 1) g' e3 s3 hist' with
          | .ok l => .ok (⟨c, env.timeOf c tag (hist' tag), out, g'⟩ :: l)
          | .error err => .error err

/-- **HISTORICAL counterexample — about the OLD arrival-order mediator `runMPArrivalOrder`, not the current one**
(it was found on the real code before the repair, `known_findings/C20.json`): with equal candidate times in one leg,
a scheduler that returns the first-pushed minimal event, and an adversary that delivers the times in the order
2, 1, 0, the old mediator ran without any error and committed handler 2 where the single-process mediator commits
handler 0. -/
theorem tie_breaks_refinement :
    (runSP tieEnv 1 0 5 (fun _ => false) (fun _ => 0) (fun _ => 0)).map (·.handler) = [0] ∧
    ((runMPArrivalOrder tieEnv exCfg [[[2, 1, 0]]] 0 5 (fun _ => false) (fun _ => {}) (fun _ => 0)).toOption.map
      fun l => l.map (·.handler)) = some [2] := by
  decide

end JF.C20
