/-!
# C20 — Multi-process mediator commits the same events as the single-process mediator
(placeholder: the stage-machine model and its refinement theorem are in preparation; the check currently rests on the
schedule-controlled differential runs)
-/
namespace JF.C20
theorem placeholder : True := trivial
end JF.C20
