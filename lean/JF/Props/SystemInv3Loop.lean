import JF.Lemmas.SystemRun3LoopStep
import JF.Props.SystemInv3
import JF.Props.SystemInv
import Mathlib.Tactic.IntervalCases
/-!
# SystemInv3Loop (E41 = stage 2 of E22) — ONE joint invariant for COMPOSITE OBJECTS WITH CELL SYSTEMS at the level of the composed MEDIATOR LOOP

**System** (`JF/Model/SystemRun3Loop.lean`, `JF/Lemmas/SystemRun3LoopDefs.lean`, namespace `JF.Sys3L`): a run `Reach3 os cs s` is any
number of legs `SysStep3`, each of which is one pass of `SingleProcessMediator.run` = `JF.Med.leg` (E1, spec-level scheduler over exact
times `XTime`) on the concrete state of E22 (`JF.CW3`: `List (CObj ℚ)`, two-level trees, + one `SingleActiveCellOccupancy` per internal
state of the activator, any number of them, each on its own cell level), where
* every internal state is updated at the beginning of every leg but the first on the current global state (`occAfter`), and the taggers'
  yields are COMPUTED from the concrete state and those occupancies (`yieldCls3`),
* the candidate of the cell-boundary handler of cell system `l` is EXACTLY `time stamp + (geo l).ttb position velocity` of the active
  unit ON THE CELL LEVEL OF `l` (level 1: the root unit of the active composite object — it moves with `v / nPer`; level 2: the active
  point mass), that unit being in the box, moving in a direction of the geometry (`velOK`; positive axis direction for `axisGeoPos`) and
  carrying the time of the last commit as time stamp; every other candidate is a normalised finite time or `inf`, not before the last
  commit (`CandsOK3`),
* the global state moves by `Composite.step` of an event of a kind that the handler class of the committing tagger commits in LEAF mode
  (the wirings are `LeafOnly`; E13's `hkind` is the definition of the step relation), at the committed time, under C12's weak
  admissibility `AdmW` (`Commits3`), and no leg follows the end-of-run commit,
* the run starts from a state at rest satisfying C12's `AllGood` with occupancies that record no active unit (`Init3`).

**Hypotheses** (`Hyp3L`): a box, and the decidable `WiringSound`, `start? = some S`, `Supported3`, `LeafOnly`, `cbWired3` (every internal
state has exactly one cell-boundary handler tagger, of class `CellBoundaryTagger`, activated in every reachable activation state); the
geometry `geo l : Geo (cwEnv env l)` per cell system (E9's interface; `axisGeoPos` = positive axis direction); and the **no-tie
hypothesis** `TieFree3 cs`: no event of a tagger that does not affect cell system `l` according to the footprint table (sampling,
dumping, end of run, THE CELL-BOUNDARY EVENT OF ANOTHER CELL SYSTEM) is committed at exactly the time of a pending cell-boundary
candidate of `l`.

**Main theorem** `joint_inv3`: by ONE induction over the legs, `JInv3` = `Big3` holds after every leg: E1's `MInv`; the state in the
middle of the leg satisfies `Inv3` and is a state of `JF.Act.Run` for the transition relation `Tr3L` — hence (`trRaw3_of_leafOnly`) for
`Tr3`, *whose premise `StaysInRecordedCell` is now DERIVED at every step* (`Big3.stays`: pending cell-boundary candidate of that system
by C09's freshness + scheduler minimality + `Geo` for that level + no tie) — hence C09's `Fresh` for every live tagger; C12's `AllGood`
and C07's one-chain clause for the state after the commit; C11's mirror for the active unit of every cell system; every pending
cell-boundary candidate of every cell system is a time until which the active unit on its level stays in its cell (`Big3.cb`).

**Corollaries**: (a) `staysInRecordedCell_closed3`, `tr3_premise_closed3`; (b) `c09_fresh_closed3`, `c09_fresh_every_leg3`,
`c08_closed3` (clause (h)), `c08_stale_trashed_closed3`, `c12_rootConsistent_closed3`, `c11_consistent_closed3`,
`c11_active_in_recorded_cell_closed3`; (c) `candOK_closed3`, `commit_times_sorted_closed3`, `no_sample_skipped3`; instantiated by
`decide` for the six shipped composite wirings with cells, with a concrete multi-leg run of `dipoles/cell_bounded.ini` (`Example`).

**What is still assumed, by name.**  `CandsOK3` — about the candidate request of the cell-boundary handler of system `l`: its in-state
unit is the active unit on the cell level of `l` (`activeOn env l cs = [a]`, the same assertion `SingleActiveCellOccupancy.update` makes),
that unit is in the box (`InBox`), moves in a direction of the geometry (`velOK`), its time stamp IS the time of the last commit
(`last = .fin ts`), and the candidate is exactly `ts + ttb pos vel`; about every other handler: normalised finite or `inf`, not before
the last commit.  (E9 derived `InBox`, `velOK` and `ts = last commit` from C07's kinematic invariant `KinI`; C12's `Good` of the
composite machine has no in-box / time-stamp clause, so here they are conditions on the step relation, to be MEASURED at every
cell-boundary candidate request.)  `Commits3` / `EvAdm3` — kinds of the handler class in leaf mode, `AdmW`, leaf start.  `TieFree3`.
`Geo` per cell system (`axisGeoPos`: positive axis direction only, as in E9).  `Init3`.

**Not reached** (d): C11's full `OccInv` per cell system (`c11_occinv_closed3` does not exist): it needs `hmove` of `C11.update_inv` at
LIFTING commits — i.e. `Big3.stays` also for the commits that DO change the active unit, which the present `stays` does not cover (it is
stated for `affects · (.cell l) = false` only; the argument is the same with a stronger no-tie hypothesis, E9's `TieFreeAll`) — and the
lemma that `Composite.step` does not displace units at rest, for all five leaf-mode event kinds.
-/
namespace JF.SystemInv3Loop
open JF JF.Act JF.Heap JF.Sched JF.Med JF.CW3 JF.C14 JF.MediatorLoop JF.Sys JF.Sys3 JF.Sys3L JF.Composite JF.C12 JF.Footprints3

section
variable {env : Env ℚ} {geo : ∀ l, Geo (cwEnv env l)} {mw : ModeWiring} {S : TaggerIdx} {needs : HandlerId → Bool}

/-! ## the joint invariant -/

/-- before the first leg: the initial state; after a leg: `Big3` for the last committed event -/
def JInv3 (env : Env ℚ) (mw : ModeWiring) (S : TaggerIdx) (needs : HandlerId → Bool)
    (cs : List (Committed XTime)) (s : Sys3) : Prop :=
  (cs = [] ∧ Init3 env mw s) ∨
  ∃ cs0 cl E tl, cs = cs0 ++ [cl] ∧ Big3 env mw S needs cs cl s E tl

theorem tieFree3_snoc {cs : List (Committed XTime)} {cm : Committed XTime} (h : TieFree3 mw (cs ++ [cm])) :
    TieFree3 mw cs ∧ TieFreeLeg3 mw (pendOf (fun _ => none) cs) cm := by
  constructor
  · intro k x hk
    have hlt : k < cs.length := (List.getElem?_eq_some_iff.mp hk).1
    have := h k x (by rw [List.getElem?_append_left hlt]; exact hk)
    rwa [List.take_append_of_le_length (Nat.le_of_lt hlt)] at this
  · have := h cs.length cm (by simp)
    simpa using this

theorem tieFree3_take {cs : List (Committed XTime)} (h : TieFree3 mw cs) (k : Nat) : TieFree3 mw (cs.take k) := by
  intro j x hj
  rw [List.getElem?_take] at hj
  split at hj
  · next hjk =>
    have := h j x hj
    rwa [List.take_take, Nat.min_eq_left (Nat.le_of_lt hjk)]
  · cases hj

/-- **the joint invariant holds after every leg of every run** (ONE induction over the legs) -/
theorem joint_inv3 (H : Hyp3L env mw S) {os : List (Oracle XTime)} {cs : List (Committed XTime)} {s : Sys3}
    (hr : Reach3 env geo mw S needs os cs s) (nt : TieFree3 mw cs) : JInv3 env mw S needs cs s := by
  induction hr with
  | init s h => exact Or.inl ⟨rfl, h⟩
  | @step os cs s s' o cm prev hgo hstep ih =>
    obtain ⟨nt0, _⟩ := tieFree3_snoc nt
    right
    rcases ih nt0 with ⟨rfl, hi⟩ | ⟨cs0, cl, E, tl, rfl, big⟩
    · obtain ⟨E', tl', hb⟩ := first_step3 H hi hstep
      exact ⟨[], cm, E', tl', rfl, hb⟩
    · have hgo' : cl.stop = false := hgo cl (by simp)
      have ntl : TieFreeLeg3 mw (pendOf (fun _ => none) (cs0 ++ [cl]).dropLast) cl := by
        rw [List.dropLast_concat]; exact (tieFree3_snoc nt0).2
      obtain ⟨E', tl', hb⟩ := big_step3 H big hgo' ntl hstep
      exact ⟨cs0 ++ [cl], cm, E', tl', rfl, hb⟩

/-! ## runs of the composed system are runs of E1's loop; every leg of a run -/

theorem reach_medRun3 {os : List (Oracle XTime)} {cs : List (Committed XTime)} {s : Sys3}
    (hr : Reach3 env geo mw S needs os cs s) :
    MediatorLoop.Run (mwire mw.w S needs) (specI xcfg) (MedState.init (specI xcfg) (mwire mw.w S needs).w) os cs s.med := by
  induction hr with
  | init s h => rw [h.med]; exact .nil _
  | step _ _ hstep ih => exact run_snoc ih hstep.leg

/-- every leg of a run is a step from a reachable state (the run up to that leg) -/
theorem reach_leg3 {os : List (Oracle XTime)} {cs : List (Committed XTime)} {s : Sys3}
    (hr : Reach3 env geo mw S needs os cs s) {k : Nat} {cm : Committed XTime} (hk : cs[k]? = some cm) :
    ∃ s0 s1 o, Reach3 env geo mw S needs (os.take k) (cs.take k) s0 ∧
      (∀ cl, (cs.take k).getLast? = some cl → cl.stop = false) ∧ SysStep3 env geo mw S needs s0 o cm s1 := by
  induction hr with
  | init s h => simp at hk
  | @step os cs s s' o cm' prev hgo hstep ih =>
    have hlen : os.length = cs.length := by
      clear ih hk hgo hstep
      induction prev with
      | init => rfl
      | step _ _ _ ih => simp [ih]
    by_cases hlt : k < cs.length
    · rw [List.getElem?_append_left hlt] at hk
      obtain ⟨s0, s1, o0, h1, h2, h3⟩ := ih hk
      refine ⟨s0, s1, o0, ?_, ?_, h3⟩
      · rw [List.take_append_of_le_length (Nat.le_of_lt hlt), List.take_append_of_le_length (by omega)]; exact h1
      · rw [List.take_append_of_le_length (Nat.le_of_lt hlt)]; exact h2
    · have hke : k = cs.length := by
        have := (List.getElem?_eq_some_iff.mp hk).1
        simp at this; omega
      subst hke
      simp only [List.getElem?_concat_length, Option.some.injEq] at hk
      subst hk
      refine ⟨s, s', o, ?_, ?_, hstep⟩
      · rw [List.take_left' rfl, ← hlen, List.take_left' rfl]; exact prev
      · rw [List.take_left' rfl]; exact hgo

/-- the invariant for the last committed event -/
theorem jinv_big3 {cs : List (Committed XTime)} {s : Sys3} (h : JInv3 env mw S needs cs s) {cl : Committed XTime}
    (hl : cs.getLast? = some cl) : ∃ E tl, Big3 env mw S needs cs cl s E tl := by
  rcases h with ⟨rfl, _⟩ | ⟨cs0, cl', E, tl, rfl, big⟩
  · simp at hl
  · have : cl' = cl := by simpa using hl
    subst this
    exact ⟨E, tl, big⟩

theorem tieFree3_last {cs : List (Committed XTime)} (nt : TieFree3 mw cs) {cl : Committed XTime} (hl : cs.getLast? = some cl) :
    TieFreeLeg3 mw (pendOf (fun _ => none) cs.dropLast) cl := by
  have hcs : cs = cs.dropLast ++ [cl] := by
    have := List.dropLast_append_getLast? cl (by rw [hl]; simp)
    exact this.symm
  have := nt cs.dropLast.length cl (by rw [hcs]; simp)
  rw [hcs] at this
  simpa using this

/-! ## (a) the former premise of `Tr3` -/

/-- **`staysInRecordedCell_closed3` — (a): E22's premise is a theorem.**  After every commit of every run whose tagger does not affect
cell system `l` according to the footprint table (sampling, dumping, end of run, the cell-boundary event of ANOTHER cell system): the
active unit on the cell level of `l` — as the commit left it, i.e. time-sliced to the committed time — is still in the cell the
occupancy of `l` has recorded for it.  Derived from: the cell-boundary candidate of `l` is pending (C09's freshness in the middle of the
leg), it is `time stamp + time to the boundary` (`CandsOK3`), the leg commits a minimal pending candidate (E1), the unit stays in its
cell strictly before that time (`Geo.stays`), and the no-tie hypothesis. -/
theorem staysInRecordedCell_closed3 (H : Hyp3L env mw S) {os : List (Oracle XTime)} {cs : List (Committed XTime)} {s : Sys3}
    (hr : Reach3 env geo mw S needs os cs s) (nt : TieFree3 mw cs) {cl : Committed XTime} (hl : cs.getLast? = some cl)
    {E : TaggerIdx} (hE : owner mw.w.wires cl.handler = some E) {l : Nat} (hlab : l < mw.w.labels.length)
    (haff : affects (mw.w.tagger E) (.cell l) = false) :
    StaysInRecordedCell env.base.nPer (env.oe l) (getOcc s.occs l) s.cs := by
  obtain ⟨E0, tl, big⟩ := jinv_big3 (joint_inv3 H hr nt) hl
  have : E0 = E := by
    have := big.owner; rw [hE] at this; exact (Option.some.inj this).symm
  subst this
  exact big.stays l hlab haff (tieFree3_last nt hl E0 l hE hlab haff)

/-- **every commit after the start-of-run event that does not end the run is a transition of E22's `Tr3`, premise included** (between
the states in the middle of two consecutive legs; `occs'` = the occupancies after the next leg's update) -/
theorem tr3_premise_closed3 (H : Hyp3L env mw S) {os : List (Oracle XTime)} {cs : List (Committed XTime)} {s : Sys3}
    (hr : Reach3 env geo mw S needs os cs s) (nt : TieFree3 mw cs) (h2 : 2 ≤ cs.length) {cl : Committed XTime}
    (hl : cs.getLast? = some cl) (hgo : cl.stop = false) {occs' : List Occ.State}
    (hocc : OccsUpdated env mw.w.labels.length s.occs occs' s.cs) :
    ∃ E, owner mw.w.wires cl.handler = some E ∧ TrRaw3 env mw E ⟨s.csPrev, .leaf, s.occs⟩ ⟨s.cs, .leaf, occs'⟩ := by
  obtain ⟨E, tl, big⟩ := jinv_big3 (joint_inv3 H hr nt) hl
  refine ⟨E, big.owner, ?_⟩
  obtain ⟨hi, hph⟩ := big.phase
  rcases hph with ⟨h1, _⟩ | hrun
  · omega
  · have hpend : (getT s.mid E).running ≠ [] := List.ne_nil_of_mem big.running
    have hend : (mw.w.tagger E).kind ≠ .endOfRun := by
      have := endOfRun_of_stop3 big.owner big.stopEq
      rw [hgo] at this
      intro hk; rw [hk] at this; simp at this
    obtain ⟨hEn, hEk, _⟩ := can_commit3 H (runInv3 H hrun) hpend hend
    obtain ⟨e, hk, _, ⟨ha, _⟩, hcs⟩ := big.commit
    exact trRaw3_of_leafOnly H.leaf ⟨hEn, rfl, rfl, ⟨e, hk, not_start_kind H.supp hEn hEk hk, ha, hcs⟩, hocc,
      fun l hlab haff => big.stays l hlab haff (tieFree3_last nt hl E l big.owner hlab haff)⟩

/-! ## (b) C09, C08, C12, C11 without `_partial` -/

/-- **`c09_fresh_closed3` — C09 for composite objects with cell systems, no `FootprintsSound`, no mode premise, NO HISTORY PREMISE**:
after every leg but the first, the state in the middle of that leg — the activator's lists `s.mid`, the identifiers handed out
`s.ids`, the concrete global state `s.csPrev` the leg's candidates were computed on, the occupancies `s.occs` as updated in that leg —
satisfies `Inv3`, every live tagger is `Fresh` there, and it is a state of `JF.Act.Run` for E22's transition relation `Tr3` (whose
premise is proved at every step). -/
theorem c09_fresh_closed3 (H : Hyp3L env mw S) {os : List (Oracle XTime)} {cs : List (Committed XTime)} {s : Sys3}
    (hr : Reach3 env geo mw S needs os cs s) (nt : TieFree3 mw cs) (h2 : 2 ≤ cs.length) :
    ∃ hi : Inv3 env mw ⟨s.csPrev, .leaf, s.occs⟩,
      (∀ T, (world3 env mw).live T → Fresh (world3 env mw) ⟨s.mid, s.ids, ⟨_, hi⟩⟩ T) ∧
      Act.Run mw.w (world3 env mw) (Tr3 env mw) S ⟨s.mid, s.ids, ⟨_, hi⟩⟩ := by
  rcases joint_inv3 H hr nt with ⟨rfl, _⟩ | ⟨cs0, cl, E, tl, rfl, big⟩
  · simp at h2
  · obtain ⟨hi, hph⟩ := big.phase
    rcases hph with ⟨h1, _⟩ | hrun
    · omega
    · exact ⟨hi, (runInv3 H hrun).fresh, run_mono (fun _ _ _ htr => trRaw3_of_leafOnly H.leaf htr) hrun⟩

/-- … and the pending events in the middle of a leg are exactly those of the running handlers of that moment: **pending = fresh
yield at every leg** (leg `k ≥ 1` of a run; `s1` the state after it) -/
theorem c09_fresh_every_leg3 (H : Hyp3L env mw S) {os : List (Oracle XTime)} {cs : List (Committed XTime)} {s : Sys3}
    (hr : Reach3 env geo mw S needs os cs s) (nt : TieFree3 mw cs) {k : Nat} {cm : Committed XTime}
    (hk : cs[k + 1]? = some cm) :
    ∃ (s1 : Sys3) (hi : Inv3 env mw ⟨s1.csPrev, .leaf, s1.occs⟩),
      (∀ T, (world3 env mw).live T → Fresh (world3 env mw) ⟨s1.mid, s1.ids, ⟨_, hi⟩⟩ T) ∧
      (∀ x, (pendPushed (pendOf (fun _ => none) (cs.take (k + 1))) cm x).isSome ↔ ∃ T, x ∈ (getT s1.mid T).running) := by
  obtain ⟨s0, s1, o, hr0, hgo, hst⟩ := reach_leg3 hr hk
  have hr1 := Reach3.step hr0 hgo hst
  have hklt : k + 1 < cs.length := (List.getElem?_eq_some_iff.mp hk).1
  have hlen : 2 ≤ (cs.take (k + 1) ++ [cm]).length := by
    rw [List.length_append, List.length_take, Nat.min_eq_left (Nat.le_of_lt hklt)]; simp
  have hcat : cs.take (k + 1) ++ [cm] = cs.take (k + 2) := by
    rw [List.take_add_one (i := k + 1), hk]; rfl
  have nt1 : TieFree3 mw (cs.take (k + 1) ++ [cm]) := by rw [hcat]; exact tieFree3_take nt _
  obtain ⟨hi, hfr, _⟩ := c09_fresh_closed3 H hr1 nt1 hlen
  refine ⟨s1, hi, hfr, ?_⟩
  rcases joint_inv3 H hr0 (tieFree3_take nt _) with ⟨he, _⟩ | ⟨cs0, cl, E, tl, he, big⟩
  · have h0 : (cs.take (k + 1)).length = 0 := by rw [he]; rfl
    rw [List.length_take, Nat.min_eq_left (Nat.le_of_lt hklt)] at h0; omega
  · have := (mid_mirror (hyp3_static H) big.med hst.leg).2.1
    rw [hst.mid']; exact this

/-- **`c08_closed3` — C08's clause (h) in the middle of every leg**, without the `FootprintsSound` hypothesis, without the mode
premise and without the history premise: if a tagger `E` whose commits may change the motion of a unit has a pending handler, every
interaction / cell-veto tagger is in its trash list or idle -/
theorem c08_closed3 (H : Hyp3L env mw S) {os : List (Oracle XTime)} {cs : List (Committed XTime)} {s : Sys3}
    (hr : Reach3 env geo mw S needs os cs s) (nt : TieFree3 mw cs) (h2 : 2 ≤ cs.length)
    {E : TaggerIdx} (hE : (getT s.mid E).running ≠ []) (hend : (mw.w.tagger E).kind ≠ .endOfRun)
    (hm : affects (mw.w.tagger E) .motion = true) {T : TaggerIdx} (hT : T < mw.w.n) (hb : motionBound (mw.w.tagger T) = true) :
    T ∈ (getW mw.w.wires E).trashes ∨ (getT s.mid T).running = [] := by
  obtain ⟨hi, _, hrun⟩ := c09_fresh_closed3 H hr nt h2
  exact clause_h_concrete3 env H.box mw S H.sound H.start H.supp hrun (E := E) hE hend hm hT hb

/-- **`c08_stale_trashed_closed3` — C08's second sentence for every run.**  If leg `k` commits an event that may change the motion of
a unit while the event of a handler `h` of an interaction / cell-veto tagger is pending — i.e. `h`'s candidate was computed before that
commit —, then `h`'s event is in the trash list of leg `k`, and if `h` commits in a later leg `j`, it was handed out again in some leg
`i` with `k < i ≤ j`. -/
theorem c08_stale_trashed_closed3 (H : Hyp3L env mw S) {os : List (Oracle XTime)} {cs : List (Committed XTime)} {s : Sys3}
    (hr : Reach3 env geo mw S needs os cs s) (nt : TieFree3 mw cs) {k j : Nat} {ck cj : Committed XTime}
    (hk : cs[k]? = some ck) {E : TaggerIdx} (hE : owner mw.w.wires ck.handler = some E)
    (hm : affects (mw.w.tagger E) .motion = true) {h : HandlerId} {T : TaggerIdx} (hT : owner mw.w.wires h = some T)
    (hb : motionBound (mw.w.tagger T) = true)
    (hp : (pendPushed (pendOf (fun _ => none) (cs.take k)) ck h).isSome) :
    h ∈ ck.trashed ∧
    (k < j → cs[j]? = some cj → cj.handler = h →
      ∃ (i : Nat) (ci : Committed XTime), k < i ∧ i ≤ j ∧ cs[i]? = some ci ∧ h ∈ ci.created.map Prod.fst) := by
  have htr : h ∈ ck.trashed := by
    obtain ⟨s0, s1, o, hr0, hgo, hst⟩ := reach_leg3 hr hk
    have nt0 := tieFree3_take nt k
    rcases joint_inv3 H hr0 nt0 with ⟨he, hi⟩ | ⟨cs0, cl, E0, tl, he, big⟩
    · exfalso
      rw [he] at hp
      have := (first_leg_only H hi hst).2.2.2 h hp
      rw [kindOfH_of_owner hT] at this
      rw [motionBound, this] at hb; simp at hb
    · have hl : (cs.take k).getLast? = some cl := by rw [he]; simp
      have hgo' := hgo cl hl
      have ntl := tieFree3_last nt0 hl
      have hTn : T < mw.w.n := by rw [← mw.w.wires_length]; exact owner_lt hT
      obtain ⟨pmid, mirr, _⟩ := mid_mirror (hyp3_static H) big.med hst.leg
      obtain ⟨T', hT'⟩ := (mirr h).mp hp
      have : owner mw.w.wires h = some T' := owner_of_running (poolsOK_wires mw.w) pmid hT'
      rw [hT] at this
      have : T = T' := Option.some.inj this
      subst this
      exact stale_trashed_step3 H big hgo' ntl hst hE hm hTn hb (by rw [hst.mid']; exact hT')
  refine ⟨htr, fun hkj hj hc => ?_⟩
  exact trashed_never_committed_run (specLaws xcfg_strictWeak) (hyp3_static H) (reach_medRun3 hr) hk htr hkj hj hc

/-- **`c12_rootConsistent_closed3` — C12 / C07 at every leg of every run**: after every commit every composite object satisfies C12's
`Good` (hence `RootConsistent`), has `nPer` point masses, and nothing moves or exactly one point mass does (leaf mode) -/
theorem c12_rootConsistent_closed3 (H : Hyp3L env mw S) {os : List (Oracle XTime)} {cs : List (Committed XTime)} {s : Sys3}
    (hr : Reach3 env geo mw S needs os cs s) (nt : TieFree3 mw cs) :
    AllGood env.base.d env.base.L s.cs ∧ CW2.Uniform env.base.nPer s.cs ∧ (∀ c ∈ s.cs, RootConsistent env.base.L c) ∧
    (AllRest s.cs ∨ ∃ sq, OneChainM s.cs sq .leaf) := by
  rcases joint_inv3 H hr nt with ⟨rfl, hi⟩ | ⟨cs0, cl, E, tl, rfl, big⟩
  · exact ⟨hi.good, hi.unif, fun c hc => good_rootConsistent (hi.good c hc), Or.inl hi.rest⟩
  · exact ⟨big.invNext.1, big.invNext.2.1, fun c hc => good_rootConsistent (big.invNext.1 c hc), big.invNext.2.2⟩

/-- **`c11_consistent_closed3` — C11's mirror, consistency form, in the middle of every leg**: the occupancy of internal state `l`
records the active unit on its cell level iff it is relevant, and an active cell iff an identifier -/
theorem c11_consistent_closed3 (H : Hyp3L env mw S) {os : List (Oracle XTime)} {cs : List (Committed XTime)} {s : Sys3}
    (hr : Reach3 env geo mw S needs os cs s) (nt : TieFree3 mw cs) {l : Nat} (hl : l < mw.w.labels.length) :
    ConsistentOcc (env.oe l).relevant (unitsOn env.base.nPer (env.oe l).level (CW2.flags s.csPrev)) (getOcc s.occs l) := by
  rcases joint_inv3 H hr nt with ⟨rfl, hi⟩ | ⟨cs0, cl, E, tl, rfl, big⟩
  · rw [hi.prev]; exact hi.cons l hl
  · obtain ⟨hi, _⟩ := big.phase
    exact hi.2 l hl

/-- **`c11_active_in_recorded_cell_closed3` — C11's mirror for the active unit of every cell system**: in the middle of every leg
after the first the recorded active cell of cell system `l` is the cell of the position of the (relevant) active unit on its level; and
after the commit of a tagger that does not affect `l` that unit is still in it (`staysInRecordedCell_closed3`) -/
theorem c11_active_in_recorded_cell_closed3 (H : Hyp3L env mw S) {os : List (Oracle XTime)} {cs : List (Committed XTime)}
    {s : Sys3} (hr : Reach3 env geo mw S needs os cs s) (nt : TieFree3 mw cs) (h2 : 2 ≤ cs.length) {l : Nat}
    (hl : l < mw.w.labels.length) {a : Nat} (ha : activeOn env l s.csPrev = [a]) (hrel : (env.oe l).relevant a = true) :
    (getOcc s.occs l).activeCell = some ((env.oe l).cellOf (posOn env.base.nPer (env.oe l).level s.csPrev a)) := by
  rcases joint_inv3 H hr nt with ⟨rfl, _⟩ | ⟨cs0, cl, E, tl, rfl, big⟩
  · simp at h2
  · exact big.mirror h2 l hl a ha hrel

/-! ## (c) commit times, the C17 link -/

/-- **`CandOK` of E1 holds along every run**: every pushed candidate time is not before the previous commit — the constraint
`CandsOK3` for the handlers that are not cell-boundary handlers, DERIVED for the cell-boundary handlers of every cell system from
`Geo.pos` (positive time to the boundary) -/
theorem candOK_closed3 (H : Hyp3L env mw S) {os : List (Oracle XTime)} {cs : List (Committed XTime)} {s : Sys3}
    (hr : Reach3 env geo mw S needs os cs s) (nt : TieFree3 mw cs) :
    MediatorLoop.Legs (CandOK xcfg) (fun _ => none) xcfg.bot cs := by
  induction hr with
  | init => trivial
  | @step os cs s s' o cm prev hgo hstep ih =>
    obtain ⟨nt0, _⟩ := tieFree3_snoc nt
    rw [SystemInv.legs_snoc]
    refine ⟨ih nt0, ?_⟩
    show ∀ q ∈ cm.pushed, xcfg.lt q.2 (lastOf xcfg.bot cs) = false
    rcases joint_inv3 H prev nt0 with ⟨rfl, _⟩ | ⟨cs0, cl, E, tl, rfl, big⟩
    · intro q _; exact xcfg_strictWeak.bot_min q.2
    · rw [lastOf_snoc]; exact candOK_step3 H big hstep

/-- **(c) commit times never decrease** (C07's time order for the composed system), from `candOK_closed3` and E1 -/
theorem commit_times_sorted_closed3 (H : Hyp3L env mw S) {os : List (Oracle XTime)} {cs : List (Committed XTime)} {s : Sys3}
    (hr : Reach3 env geo mw S needs os cs s) (nt : TieFree3 mw cs) : cs.Pairwise (fun a b => xcfg.lt b.time a.time = false) :=
  commit_times_sorted_pairwise xcfg_strictWeak (specLaws xcfg_strictWeak) (hyp3_static H) (reach_medRun3 hr)
    (candOK_closed3 H hr nt)

/-- **`no_sample_skipped3` — the C17 link.**  In every leg `k` of every run: while a sampling candidate with time `t_s` is pending
(in the middle of the leg), the event committed by the leg is not later than `t_s` (minimality, E1/C06), and when the sampling
handler itself commits, it commits at exactly `t_s`.  With `commit_times_sorted_closed3`: no event after `t_s` is committed before
the sample. -/
theorem no_sample_skipped3 (H : Hyp3L env mw S) {os : List (Oracle XTime)} {cs : List (Committed XTime)} {s : Sys3}
    (hr : Reach3 env geo mw S needs os cs s) {k : Nat} {cm : Committed XTime} (hk : cs[k]? = some cm)
    {hs : HandlerId} {ts : XTime} (_ : kindOfH mw.w hs = .sampling)
    (hp : pendPushed (pendOf (fun _ => none) (cs.take k)) cm hs = some ts) (hfin : xcfg.finite ts = true) :
    xcfg.lt ts cm.time = false ∧ (cm.handler = hs → cm.time = ts) := by
  have legs := (MediatorLoop.run_inv (specLaws xcfg_strictWeak) (hyp3_static H) (reach_medRun3 hr)
    (minv_init (specLaws xcfg_strictWeak) (mwire mw.w S needs))).2
  have ok := SystemInv.legs_get _ _ _ legs k cm hk
  refine ⟨ok.minimal hs ts hp hfin, fun he => ?_⟩
  have := ok.pending
  rw [he, hp] at this
  exact (Option.some.inj this).symm

end

/-! ## the six shipped configurations of composite objects with cells satisfy the hypotheses (by `decide`) -/

open JF.Act.Gen JF.SystemInv3

theorem cbWired3_shipped : cbWired3 cfg_dipoles_cell_bounded 9 = true ∧ cbWired3 cfg_dipoles_cell_veto 9 = true ∧
    cbWired3 cfg_water_coulomb_cell_veto_lj_cell_veto 13 = true ∧ cbWired3 cfg_water_coulomb_cell_veto_lj_inverted 10 = true ∧
    cbWired3 cfg_water_coulomb_power_bounded_lj_cell_bounded 10 = true ∧
    cbWired3 cfg_hard_disk_dipoles_hard_disk_dipoles_cells 6 = true := by
  decide +kernel

theorem hyp3L_of_hyp3 {env : Env ℚ} {mw : ModeWiring} {S : TaggerIdx} (h : Hyp3 env mw S) (hcb : cbWired3 mw.w S = true) :
    Hyp3L env mw S := ⟨h.box, h.sound, h.start, h.supp, h.leaf, hcb⟩

/-- one cell system on the root level -/
theorem hyp3L_dipoles_cell_bounded (env : Env ℚ) (hL : BoxOK env.base.d env.base.L) : Hyp3L env mcfg_dipoles_cell_bounded 9 :=
  hyp3L_of_hyp3 (hyp3_dipoles_cell_bounded env hL) cbWired3_shipped.1
theorem hyp3L_dipoles_cell_veto (env : Env ℚ) (hL : BoxOK env.base.d env.base.L) : Hyp3L env mcfg_dipoles_cell_veto 9 :=
  hyp3L_of_hyp3 (hyp3_dipoles_cell_veto env hL) cbWired3_shipped.2.1
/-- TWO cell systems (oxygens on the leaf level, molecules on the root level) -/
theorem hyp3L_water_cell_veto_lj_cell_veto (env : Env ℚ) (hL : BoxOK env.base.d env.base.L) :
    Hyp3L env mcfg_water_coulomb_cell_veto_lj_cell_veto 13 :=
  hyp3L_of_hyp3 (hyp3_water_cell_veto_lj_cell_veto env hL) cbWired3_shipped.2.2.1
theorem hyp3L_water_cell_veto_lj_inverted (env : Env ℚ) (hL : BoxOK env.base.d env.base.L) :
    Hyp3L env mcfg_water_coulomb_cell_veto_lj_inverted 10 :=
  hyp3L_of_hyp3 (hyp3_water_cell_veto_lj_inverted env hL) cbWired3_shipped.2.2.2.1
/-- one cell system on the leaf level -/
theorem hyp3L_water_power_bounded_lj_cell_bounded (env : Env ℚ) (hL : BoxOK env.base.d env.base.L) :
    Hyp3L env mcfg_water_coulomb_power_bounded_lj_cell_bounded 10 :=
  hyp3L_of_hyp3 (hyp3_water_power_bounded_lj_cell_bounded env hL) cbWired3_shipped.2.2.2.2.1
theorem hyp3L_hard_disk_dipoles_cells (env : Env ℚ) (hL : BoxOK env.base.d env.base.L) :
    Hyp3L env mcfg_hard_disk_dipoles_hard_disk_dipoles_cells 6 :=
  hyp3L_of_hyp3 (hyp3_hard_disk_dipoles_cells env hL) cbWired3_shipped.2.2.2.2.2

/-- the side condition `cbWired3` is not trivially true: if the cell-boundary handler is driven by a tagger of another class, it fails -/
example : cbWired3 { cfg_dipoles_cell_bounded with taggers := cfg_dipoles_cell_bounded.taggers.map fun t =>
    if t.kind == .cellBoundary then { t with cls := .cellVeto } else t } 9 = false := by decide +kernel

/-! ## non-vacuity: a four-leg run of `dipoles/cell_bounded.ini` with two dipoles (exact reading)

The two dipoles of `JF/Props/C12.lean` in the unit square (`exC0`: centre (1/2, 1/2); `exC1`: centre (1/10, 1/5)), ONE occupancy on the
root level (`cell_level = 1`) over a 4 × 4 grid with one layer of nearby cells, `maximum_number_occupants = 1`, geometry
`axisGeoPos` (positive axis direction).  Four legs of the composed system, every one computed by `JF.Med.leg` (`decide +kernel`):
start of run at 0 (point mass (0, 0) starts with velocity (1, 0); the centre of dipole 0 moves with (1/2, 0)) — the sampling event
at 1/8 while the cell-boundary candidate `0 + timeToBoundary = 1/2` of the ROOT unit is pending (the derived premise) — that
cell-boundary event (the centre reaches x = 3/4, cell (3, 2)) — the `harmonic` event at 5/8 handed out in leg 2 (lifting
(0, 0) → (0, 1) inside the molecule).  Every hypothesis of the theorems above holds for it: `Hyp3L` (`hyp`), the geometry (`geo`),
`Reach3` (`reach4`), `TieFree3` (`tieFree4`). -/

namespace Example
open JF.C11

abbrev mw : ModeWiring := mcfg_dipoles_cell_bounded
abbrev cfg : Wiring := cfg_dipoles_cell_bounded

/-- four cells of side 1/4 per direction -/
def g4 : Grid := ⟨4, 1 / 4, by decide, by norm_num⟩

/-- the occupancy's environment: root level (`cell_level = 1`), 4 × 4 cells, index of cell (ix, iy) in `yield_cells()` order = ix + 4 iy -/
def oe : OccEnv ℚ :=
  { level := 1, grid := ⟨[4, 4], 1⟩
    cellOf := fun p => (g4.idx (p.getD 0 0)).toNat + 4 * (g4.idx (p.getD 1 0)).toNat
    relevant := fun _ => true }

def env : Env ℚ :=
  { base := Footprints2.envOf exL 2 "factor_set_dipoles_dipole.txt"
      ["CoulombCellBounding", "CoulombNearby", "CoulombSurplus", "CellBoundary", "Harmonic", "Repulsive", "Sampling", "EndOfChain",
       "EndOfRun", "StartOfRun"]
    occs := [oe] }

theorem box : BoxOK env.base.d env.base.L := exBox

def abox (l : Nat) : AxisBox (cwEnv env l) where
  grids := [g4, g4]
  hn2 := by intro g hg; simp at hg; subst hg; decide
  hL := by show exL = _; simp [exL, Grid.L, g4]
  hcell := by
    intro p q hp hq h
    have hpl : p.length = 2 := ((Kin.inBox_iff _ _).mp hp).1
    have hql : q.length = 2 := ((Kin.inBox_iff _ _).mp hq).1
    obtain ⟨p0, p1, rfl⟩ := List.length_eq_two.mp hpl
    obtain ⟨q0, q1, rfl⟩ := List.length_eq_two.mp hql
    have h0 := h 0 (by simp) (by simp) (by simp)
    have h1 := h 1 (by simp) (by simp) (by simp)
    simp only [List.getElem_cons_zero, List.getElem_cons_succ] at h0 h1
    match l with
    | 0 => show (g4.idx p0).toNat + 4 * (g4.idx p1).toNat = (g4.idx q0).toNat + 4 * (g4.idx q1).toNat; rw [h0, h1]
    | l + 1 => rfl

def geo (l : Nat) : Geo (cwEnv env l) := axisGeoPos (abox l)

/-- a handler has an in-state iff its tagger is not a `NoInStateTagger` -/
def needs : HandlerId → Bool := fun h =>
  match owner cfg.wires h with
  | some T => (cfg.tagger T).cls != .noInState
  | none => false

abbrev M : MWire := mwire cfg 9 needs

theorem hyp : Hyp3L env mw 9 := hyp3L_dipoles_cell_bounded env box

theorem ex_uniform : CW2.Uniform env.base.nPer [exC0, exC1] := by
  intro c hc
  simp only [List.mem_cons, List.not_mem_nil, or_false] at hc
  rcases hc with rfl | rfl <;> rfl

/-- `SingleActiveCellOccupancy.initialize`: dipole 0 in cell (2, 2) = 10, dipole 1 in cell (0, 0) = 0 -/
def occ0 : Occ.State := Occ.init 1 [⟨0, true, 10⟩, ⟨1, true, 0⟩]
def s0 : Sys3 := Sys3.init cfg [exC0, exC1] [occ0]

theorem init0 : Init3 env mw s0 where
  med := rfl
  good := ex_initial
  unif := ex_uniform
  rest := ex_rest
  cons := fun l hl => by
    have : l = 0 := Nat.lt_one_iff.mp hl
    subst this
    exact consistent_init _ _ _
  prev := rfl

theorem ok_of_toOption {ε α : Type} {e : Except ε α} {x : α} (h : e.toOption = some x) : e = .ok x := by
  cases e with
  | error _ => simp [Except.toOption] at h
  | ok y => simp only [Except.toOption, Option.some.injEq] at h; rw [h]

/-- the result of a leg that succeeds -/
def legR (s : Sys3) (o : Oracle XTime) (h : (leg M (specI xcfg) s.med o).toOption.isSome = true) :
    MedState (SSched XTime) × Committed XTime := (leg M (specI xcfg) s.med o).toOption.get h

/-- the state after it, given the new global state and the occupancies the leg worked with -/
def nextS (s : Sys3) (o : Oracle XTime) (h : (leg M (specI xcfg) s.med o).toOption.isSome = true)
    (cs' : List (CObj ℚ)) (occs' : List Occ.State) : Sys3 :=
  ⟨(legR s o h).1, cs', occs', assign s.ids (legR s o h).2.created, s.cs, midAct M s.med o⟩

/-- the oracle of a leg: the yields are computed from the state, the candidate times are given -/
def mkO (cs : List (CObj ℚ)) (occs' : List Occ.State) (cand : HandlerId → XTime) : Oracle XTime :=
  ⟨fun T => yieldCls3 env T (cfg.tagger T).cls (cfg.tagger T).label cs occs', cand⟩

theorem step_of (s : Sys3) (occs' : List Occ.State) (cand : HandlerId → XTime)
    (h : (leg M (specI xcfg) s.med (mkO s.cs occs' cand)).toOption.isSome = true) (cs' : List (CObj ℚ))
    (hocc : if s.med.act.started = true then OccsUpdated env mw.w.labels.length s.occs occs' s.cs else occs' = s.occs)
    (hc : CandsOK3 env geo mw s.cs s.med.sched.last (mkO s.cs occs' cand) (legR s _ h).2.created)
    (hev : ∃ t E', (legR s _ h).2.time = .fin t ∧ owner mw.w.wires (legR s _ h).2.handler = some E' ∧
      Commits3 env mw E' t s.cs cs') :
    SysStep3 env geo mw 9 needs s (mkO s.cs occs' cand) (legR s _ h).2 (nextS s _ h cs' occs') where
  occ1 := hocc
  yields := rfl
  leg := ok_of_toOption (Option.some_get h).symm
  cands := hc
  ev := hev
  ids' := rfl
  prev := rfl
  mid' := rfl

theorem normT (q : ℤ) (r : ℚ) (h0 : 0 ≤ r) (h1 : r < 1) : Normalised ⟨q, r⟩ := ⟨⟨q, rfl⟩, h0, h1⟩

/-- a handler whose tagger is not a cell-boundary tagger -/
theorem not_cb {h : HandlerId} {T : TaggerIdx} (ho : owner cfg.wires h = some T) (hk : (cfg.tagger T).kind ≠ .cellBoundary)
    {P : Nat → Prop} : ∀ B l, owner mw.w.wires h = some B → isCBT mw.w l B = true → P l := by
  intro B l hB hcb
  have hB' : owner cfg.wires h = some B := hB
  rw [ho] at hB'
  cases hB'
  exact absurd (isCBT_kind hcb).1 hk

/-- the candidates of the handlers that are not cell-boundary handlers: normalised, not before the last commit -/
theorem cand_plain {cs : List (CObj ℚ)} {last : XTime} {o : Oracle XTime} (q : HandlerId × IdTuple) {T : TaggerIdx}
    (ho : owner cfg.wires q.1 = some T) (hk : (cfg.tagger T).kind ≠ .cellBoundary) (hn : NormX (o.cand q.1))
    (hl : xcfg.lt (o.cand q.1) last = false) :
    (∀ B l, owner mw.w.wires q.1 = some B → isCBT mw.w l B = true →
      ∃ a u v ts, activeOn env l cs = [a] ∧ Sys2.unitAt cs (identL env l a) = some u ∧ u.vel = some v ∧ u.ts = some ts ∧
        Kin.InBox env.base.L u.pos ∧ (geo l).velOK v ∧ last = .fin ts ∧
        o.cand q.1 = .fin (Time.add Ops.rat ts ((geo l).ttb u.pos v))) ∧
    (kindOfH mw.w q.1 ≠ .cellBoundary → NormX (o.cand q.1) ∧ xcfg.lt (o.cand q.1) last = false) :=
  ⟨not_cb ho hk, fun _ => ⟨hn, hl⟩⟩

/-- the candidate of the cell-boundary handler (handler 3, internal state 0): the root unit `u` of the active dipole `a` -/
theorem cand_cb {cs : List (CObj ℚ)} {last : XTime} {o : Oracle XTime} (ids : IdTuple) (a : Nat) (u : PUnit ℚ) (v : List ℚ)
    (ts : Time ℚ) (h1 : activeOn env 0 cs = [a]) (h2 : Sys2.unitAt cs (identL env 0 a) = some u) (h3 : u.vel = some v)
    (h4 : u.ts = some ts) (h5 : Kin.InBox env.base.L u.pos) (h6 : (geo 0).velOK v) (h7 : last = .fin ts)
    (h8 : o.cand 3 = .fin (Time.add Ops.rat ts ((geo 0).ttb u.pos v))) :
    (∀ B l, owner mw.w.wires ((3, ids) : HandlerId × IdTuple).1 = some B → isCBT mw.w l B = true →
      ∃ a u v ts, activeOn env l cs = [a] ∧ Sys2.unitAt cs (identL env l a) = some u ∧ u.vel = some v ∧ u.ts = some ts ∧
        Kin.InBox env.base.L u.pos ∧ (geo l).velOK v ∧ last = .fin ts ∧
        o.cand ((3, ids) : HandlerId × IdTuple).1 = .fin (Time.add Ops.rat ts ((geo l).ttb u.pos v))) ∧
    (kindOfH mw.w ((3, ids) : HandlerId × IdTuple).1 ≠ .cellBoundary →
      NormX (o.cand ((3, ids) : HandlerId × IdTuple).1) ∧ xcfg.lt (o.cand ((3, ids) : HandlerId × IdTuple).1) last = false) := by
  refine ⟨?_, fun h => absurd (show kindOfH cfg 3 = .cellBoundary by decide) h⟩
  intro B l hB hcb
  have hB' : owner cfg.wires 3 = some B := hB
  have h3o : owner cfg.wires 3 = some 3 := by decide
  rw [h3o] at hB'
  cases hB'
  have hl : l = 0 := by
    have : (cfg.tagger 3).label = some l := (isCBT_kind hcb).2
    have h3l : (cfg.tagger 3).label = some 0 := by decide
    rw [h3l] at this
    exact (Option.some.inj this).symm
  subst hl
  exact ⟨a, u, v, ts, h1, h2, h3, h4, h5, h6, h7, h8⟩

theorem velOK_x (l : Nat) (w : ℚ) (hw : 0 < w) : (geo l).velOK [w, 0] :=
  ⟨rfl, 0, by simp, by simpa using hw, by
    intro d' hd' hne
    simp at hd'
    have : d' = 1 := by omega
    subst this; rfl⟩

/-! leg 1: the start-of-run handler (9) is handed out, commits at time 0: point mass (0, 0) starts moving with velocity (1, 0) -/

def cand1 : HandlerId → XTime := fun _ => .fin ⟨0, 0⟩
theorem h1 : (leg M (specI xcfg) s0.med (mkO s0.cs [occ0] cand1)).toOption.isSome = true := by decide +kernel
def cs1 : List (CObj ℚ) := step Ops.rat isZ env.base.L s0.cs (.start 0 [0] [1, 0])
def s1 : Sys3 := nextS s0 _ h1 cs1 [occ0]
def c1 : Committed XTime := (legR s0 _ h1).2

theorem step1 : SysStep3 env geo mw 9 needs s0 (mkO s0.cs [occ0] cand1) c1 s1 := by
  refine step_of s0 [occ0] cand1 h1 cs1 (by rw [if_neg (by decide)]; rfl) ?_
    ⟨⟨0, 0⟩, 9, by decide +kernel, by decide +kernel, ?_⟩
  · have hcr : (legR s0 _ h1).2.created = [(9, none)] := by decide +kernel
    rw [hcr]
    intro q hq
    simp only [List.mem_singleton] at hq
    subst hq
    exact cand_plain _ (T := 9) (by decide) (by decide) (normT 0 0 (by norm_num) (by norm_num)) (by decide +kernel)
  · exact ⟨.start 0 [0] [1, 0], by decide, rfl, ⟨JF.C12.ModeExample.start_admW, fun i P v h => by cases h; rfl⟩, rfl⟩

/-! leg 2: the occupancy records dipole 0 as active in cell (2, 2); the cell taggers, the cell-boundary handler (candidate
`0 + timeToBoundary = 1/2`: the centre of dipole 0 moves with speed 1/2 from x = 1/2 to the boundary x = 3/4), `harmonic` (5/8), … are
handed out; the sampling event at 1/8 commits while the cell-boundary candidate is pending -/

theorem hoccS (s : Sys3) (hs : s.med.act.started = true)
    (h : (occAfter 2 oe (getOcc s.occs 0) s.cs).isSome = true) :
    if s.med.act.started = true then
      OccsUpdated env mw.w.labels.length s.occs [(occAfter 2 oe (getOcc s.occs 0) s.cs).get h] s.cs
    else [(occAfter 2 oe (getOcc s.occs 0) s.cs).get h] = s.occs := by
  rw [if_pos hs]
  intro l hl
  have : l = 0 := Nat.lt_one_iff.mp hl
  subst this
  exact (Option.some_get h).symm

def occs1 : List Occ.State := [(occAfter 2 oe (getOcc s1.occs 0) s1.cs).get (by decide +kernel)]
def cand2 : HandlerId → XTime := fun h =>
  if h = 3 then .fin (Time.add Ops.rat ⟨0, 0⟩ (axisTtb [g4, g4] [1/2, 1/2] [1/2, 0]))
  else if h = 6 then .fin ⟨0, 1/8⟩ else if h = 4 then .fin ⟨0, 5/8⟩ else if h = 7 then .fin ⟨10, 0⟩
  else if h = 8 then .fin ⟨100, 0⟩ else .inf
theorem h2 : (leg M (specI xcfg) s1.med (mkO s1.cs occs1 cand2)).toOption.isSome = true := by decide +kernel
def cs2 : List (CObj ℚ) := step Ops.rat isZ env.base.L s1.cs (.keep ⟨0, 1/8⟩ [0])
def s2 : Sys3 := nextS s1 _ h2 cs2 occs1
def c2 : Committed XTime := (legR s1 _ h2).2

theorem step2 : SysStep3 env geo mw 9 needs s1 (mkO s1.cs occs1 cand2) c2 s2 := by
  refine step_of s1 occs1 cand2 h2 cs2 (hoccS s1 (by decide +kernel) _) ?_
    ⟨⟨0, 1/8⟩, 6, by decide +kernel, by decide +kernel, ?_⟩
  · have hcr : (legR s1 _ h2).2.created = [(0, some [[0], [1]]), (3, some [[0]]), (4, some [[0, 0], [0, 1]]),
        (5, some [[0, 0], [1, 1]]), (6, none), (7, some [[0, 0]]), (8, none)] := by decide +kernel
    rw [hcr]
    intro q hq
    simp only [List.mem_cons, List.not_mem_nil, or_false] at hq
    rcases hq with rfl | rfl | rfl | rfl | rfl | rfl | rfl
    · exact cand_plain _ (T := 0) (by decide) (by decide) trivial (by decide +kernel)
    · exact cand_cb _ 0 ⟨[1/2, 1/2], some [1/2, 0], some ⟨0, 0⟩⟩ [1/2, 0] ⟨0, 0⟩ (by decide +kernel) (by decide +kernel) rfl rfl
        (by norm_num [Kin.InBox, env, Footprints2.envOf, exL]) (velOK_x 0 (1/2) (by norm_num)) (by decide +kernel) rfl
    · exact cand_plain _ (T := 4) (by decide) (by decide) (normT 0 (5/8) (by norm_num) (by norm_num)) (by decide +kernel)
    · exact cand_plain _ (T := 5) (by decide) (by decide) trivial (by decide +kernel)
    · exact cand_plain _ (T := 6) (by decide) (by decide) (normT 0 (1/8) (by norm_num) (by norm_num)) (by decide +kernel)
    · exact cand_plain _ (T := 7) (by decide) (by decide) (normT 10 0 (by norm_num) (by norm_num)) (by decide +kernel)
    · exact cand_plain _ (T := 8) (by decide) (by decide) (normT 100 0 (by norm_num) (by norm_num)) (by decide +kernel)
  · exact ⟨.keep ⟨0, 1/8⟩ [0], by decide, rfl, ⟨trivial, fun i P v h => by cases h⟩, rfl⟩

/-! leg 3: the sampling handler is handed out again (next sample at 3/4); the cell-boundary event of dipole 0 (time 1/2) commits -/

def occs2 : List Occ.State := [(occAfter 2 oe (getOcc s2.occs 0) s2.cs).get (by decide +kernel)]
def cand3 : HandlerId → XTime := fun h => if h = 6 then .fin ⟨0, 3/4⟩ else .inf
theorem h3 : (leg M (specI xcfg) s2.med (mkO s2.cs occs2 cand3)).toOption.isSome = true := by decide +kernel
def e3 : Composite.Ev ℚ := .snap ⟨0, 1/2⟩ [0] 0 none 0 (3/4)
def cs3 : List (CObj ℚ) := step Ops.rat isZ env.base.L s2.cs e3
def s3 : Sys3 := nextS s2 _ h3 cs3 occs2
def c3 : Committed XTime := (legR s2 _ h3).2

theorem adm3 : AdmW env.base.d env.base.L s2.cs e3 := by
  intro c hc
  have h : (sliceAt Ops.rat env.base.L ⟨0, 1/2⟩ [0] s2.cs)[0]? = some
      ⟨⟨[3/4, 1/2], some [1/2, 0], some ⟨0, 1/2⟩⟩, [⟨[1/4, 1/2], some [1, 0], some ⟨0, 1/2⟩⟩, ⟨[1/4, 1/2], none, none⟩]⟩ := by
    decide +kernel
  rw [h] at hc
  cases hc
  rfl

theorem step3 : SysStep3 env geo mw 9 needs s2 (mkO s2.cs occs2 cand3) c3 s3 := by
  refine step_of s2 occs2 cand3 h3 cs3 (hoccS s2 (by decide +kernel) _) ?_
    ⟨⟨0, 1/2⟩, 3, by decide +kernel, by decide +kernel, ?_⟩
  · have hcr : (legR s2 _ h3).2.created = [(6, none)] := by decide +kernel
    rw [hcr]
    intro q hq
    simp only [List.mem_singleton] at hq
    subst hq
    exact cand_plain _ (T := 6) (by decide) (by decide) (normT 0 (3/4) (by norm_num) (by norm_num)) (by decide +kernel)
  · exact ⟨e3, by decide, rfl, ⟨adm3, fun i P v h => by cases h⟩, rfl⟩

/-! leg 4: the cell taggers and the cell-boundary handler are re-created on the new cell (3, 2) (candidate `1/2 + timeToBoundary = 1`);
the `harmonic` event handed out in leg 2 (5/8) is still pending and commits: lifting (0, 0) → (0, 1) inside dipole 0 -/

def occs3 : List Occ.State := [(occAfter 2 oe (getOcc s3.occs 0) s3.cs).get (by decide +kernel)]
def cand4 : HandlerId → XTime := fun h =>
  if h = 3 then .fin (Time.add Ops.rat ⟨0, 1/2⟩ (axisTtb [g4, g4] [3/4, 1/2] [1/2, 0])) else .inf
theorem h4 : (leg M (specI xcfg) s3.med (mkO s3.cs occs3 cand4)).toOption.isSome = true := by decide +kernel
def e4 : Composite.Ev ℚ := .exchange ⟨0, 5/8⟩ [0] 0 0 0 1
def cs4 : List (CObj ℚ) := step Ops.rat isZ env.base.L s3.cs e4
def s4 : Sys3 := nextS s3 _ h4 cs4 occs3
def c4 : Committed XTime := (legR s3 _ h4).2

theorem adm4 : AdmW env.base.d env.base.L s3.cs e4 :=
  ⟨by simp, fun _ => by decide, ⟨[3/8, 1/2], some [1, 0], some ⟨0, 5/8⟩⟩, ⟨[1/4, 1/2], none, none⟩, [1, 0],
    by decide +kernel, rfl, by decide +kernel⟩

theorem step4 : SysStep3 env geo mw 9 needs s3 (mkO s3.cs occs3 cand4) c4 s4 := by
  refine step_of s3 occs3 cand4 h4 cs4 (hoccS s3 (by decide +kernel) _) ?_
    ⟨⟨0, 5/8⟩, 4, by decide +kernel, by decide +kernel, ?_⟩
  · have hcr : (legR s3 _ h4).2.created = [(0, some [[0], [1]]), (3, some [[0]])] := by decide +kernel
    rw [hcr]
    intro q hq
    simp only [List.mem_cons, List.not_mem_nil, or_false] at hq
    rcases hq with rfl | rfl
    · exact cand_plain _ (T := 0) (by decide) (by decide) trivial (by decide +kernel)
    · exact cand_cb _ 0 ⟨[3/4, 1/2], some [1/2, 0], some ⟨0, 1/2⟩⟩ [1/2, 0] ⟨0, 1/2⟩ (by decide +kernel) (by decide +kernel) rfl rfl
        (by norm_num [Kin.InBox, env, Footprints2.envOf, exL]) (velOK_x 0 (1/2) (by norm_num)) (by decide +kernel) rfl
  · exact ⟨e4, by decide, rfl, ⟨adm4, fun i P v h => by cases h⟩, rfl⟩

/-! the run -/

def os4 : List (Oracle XTime) :=
  [] ++ [mkO s0.cs [occ0] cand1] ++ [mkO s1.cs occs1 cand2] ++ [mkO s2.cs occs2 cand3] ++ [mkO s3.cs occs3 cand4]
def cs4c : List (Committed XTime) := [] ++ [c1] ++ [c2] ++ [c3] ++ [c4]

theorem reach1 : Reach3 env geo mw 9 needs ([] ++ [mkO s0.cs [occ0] cand1]) ([] ++ [c1]) s1 :=
  .step (.init s0 init0) (by simp) step1
theorem reach2 : Reach3 env geo mw 9 needs ([] ++ [mkO s0.cs [occ0] cand1] ++ [mkO s1.cs occs1 cand2]) ([] ++ [c1] ++ [c2]) s2 :=
  .step reach1 (by intro cl h; simp at h; subst h; decide +kernel) step2
theorem reach3 : Reach3 env geo mw 9 needs
    ([] ++ [mkO s0.cs [occ0] cand1] ++ [mkO s1.cs occs1 cand2] ++ [mkO s2.cs occs2 cand3]) ([] ++ [c1] ++ [c2] ++ [c3]) s3 :=
  .step reach2 (by intro cl h; simp at h; subst h; decide +kernel) step3
theorem reach4 : Reach3 env geo mw 9 needs os4 cs4c s4 :=
  .step reach3 (by intro cl h; simp at h; subst h; decide +kernel) step4

/-- the committed handlers and times: start of run at 0, sampling at 1/8, cell boundary at 1/2, `harmonic` at 5/8 -/
example : cs4c.map (·.handler) = [9, 6, 3, 4] ∧
    cs4c.map (·.time) = [.fin ⟨0, 0⟩, .fin ⟨0, 1/8⟩, .fin ⟨0, 1/2⟩, .fin ⟨0, 5/8⟩] := by
  decide +kernel

/-- the only cell-boundary handler of the configuration is handler 3 -/
theorem cb_handler {l : Nat} {hb : HandlerId} (h : isCBH mw l hb) : hb = 3 := by
  obtain ⟨B, ho, hcb⟩ := h
  have ho' : owner cfg.wires hb = some B := ho
  have hk : (cfg.tagger B).kind = .cellBoundary := (isCBT_kind hcb).1
  have hB : B < 10 := owner_lt ho'
  have hm := owner_mem ho'
  revert hk hm
  interval_cases B <;> intro hk hm <;> first | (exact absurd hk (by decide)) | skip
  have : (getW cfg.wires 3).pool = [3] := by decide
  rw [this] at hm
  simpa using hm

/-- **the no-tie hypothesis holds for this run**: the sampling event (1/8) is not committed at the time of the pending cell-boundary
candidate (1/2); the other three commits affect the cell system -/
theorem tieFree4 : TieFree3 mw cs4c := by
  intro k cm hk E l hE hl haff hb hcb
  have := cb_handler hcb
  subst this
  have hl0 : l = 0 := Nat.lt_one_iff.mp hl
  subst hl0
  have hk4 : k < 4 := (List.getElem?_eq_some_iff.mp hk).1
  interval_cases k
  all_goals
    simp only [cs4c, List.nil_append, List.cons_append, List.getElem?_cons_zero, List.getElem?_cons_succ,
      Option.some.injEq] at hk
    subst hk
  · decide +kernel
  · decide +kernel
  · exfalso
    have h3 : owner cfg.wires c3.handler = some 3 := by decide +kernel
    have hE' : owner cfg.wires c3.handler = some E := hE
    rw [h3] at hE'
    cases hE'
    exact absurd haff (by decide)
  · decide +kernel

/-! ### the theorems apply -/

/-- the joint invariant after the four legs -/
example : JInv3 env mw 9 needs cs4c s4 := joint_inv3 hyp reach4 tieFree4

/-- **(a) the former premise after the sampling commit (leg 2)**: the centre of dipole 0, time-sliced to 1/8 (x = 9/16), is still in
its recorded cell (2, 2) = 10 -/
example : StaysInRecordedCell env.base.nPer (env.oe 0) (getOcc s2.occs 0) s2.cs :=
  staysInRecordedCell_closed3 hyp reach2 (tieFree3_take (k := 2) tieFree4) (cl := c2) (by simp) (E := 6) (by decide +kernel)
    (by decide) (by decide)
example : activeOn env 0 s2.cs = [0] ∧ (getOcc s2.occs 0).activeCell = some 10 ∧
    posOn 2 1 s2.cs 0 = [9/16, 1/2] := by decide +kernel

/-- (b) C09 in the middle of the fourth leg, and it speaks about non-empty pending lists: the cell-bounding tagger's event carries
(dipole 0, dipole 1), the cell-boundary tagger's `((0,),)`, `harmonic` the bond of dipole 0 -/
example : ∃ hi : Inv3 env mw ⟨s4.csPrev, .leaf, s4.occs⟩,
    ∀ T, (world3 env mw).live T → Fresh (world3 env mw) ⟨s4.mid, s4.ids, ⟨_, hi⟩⟩ T :=
  let ⟨hi, h, _⟩ := c09_fresh_closed3 hyp reach4 tieFree4 (by decide); ⟨hi, h⟩
example : (getT s4.mid 0).running.map s4.ids = [some [[0], [1]]] ∧ (getT s4.mid 3).running.map s4.ids = [some [[0]]] ∧
    (getT s4.mid 4).running.map s4.ids = [some [[0, 0], [0, 1]]] := by decide +kernel

/-- C11's mirror in the middle of leg 4: dipole 0 active in its recorded cell (3, 2) = 11 -/
example : (getOcc s4.occs 0).activeCell = some ((env.oe 0).cellOf (posOn env.base.nPer (env.oe 0).level s4.csPrev 0)) :=
  c11_active_in_recorded_cell_closed3 hyp reach4 tieFree4 (by decide) (l := 0) (by decide) (a := 0) (by decide +kernel) rfl
example : (getOcc s4.occs 0).activeCell = some 11 := by decide +kernel

/-- (c) commit times sorted, and the C17 link on the run: in leg 3 the sampling candidate 3/4 is pending, the committed time 1/2 is
not later -/
example : cs4c.Pairwise (fun a b => xcfg.lt b.time a.time = false) := commit_times_sorted_closed3 hyp reach4 tieFree4
example : xcfg.lt (.fin ⟨0, 3/4⟩) c3.time = false :=
  (no_sample_skipped3 hyp reach4 (k := 2) (cm := c3) (by simp [cs4c]) (hs := 6) (ts := .fin ⟨0, 3/4⟩) (by decide)
    (by decide +kernel) rfl).1

/-- `c08_stale_trashed_closed3`: the lifting of leg 4 (tagger 4 `harmonic`, motion-changing) finds the cell-bounding event of handler
0 pending — it is in the trash list of that leg -/
example : (0 : HandlerId) ∈ c4.trashed :=
  (c08_stale_trashed_closed3 hyp reach4 tieFree4 (k := 3) (j := 3) (ck := c4) (cj := c4) (by simp [cs4c]) (E := 4)
    (by decide +kernel) (by decide) (h := 0) (T := 0) (by decide) (by decide) (by decide +kernel)).1

end Example
end JF.SystemInv3Loop
