import JF.Lemmas.SystemRun3LoopStep
import JF.Props.SystemInv3
import JF.Props.SystemInv
import Mathlib.Tactic.IntervalCases
/-!
# SystemInv3Loop (E41 = stage 2 of E22) — ONE joint invariant for COMPOSITE OBJECTS WITH CELL SYSTEMS at the level of the composed MEDIATOR LOOP

**System** (`JF/Model/SystemRun3Loop.lean`, `JF/Lemmas/SystemRun3LoopDefs.lean`, namespace `JF.Sys3L`): a run `Reach3 os cs s` is any
number of legs `SysStep3`, each of which is one pass of `SingleProcessMediator.run` = `JF.Med.leg` (E1, spec-level scheduler over exact
times `XTime`) on the concrete state of E22 (`JF.CW3`: `List (CObj ℚ)`, two-level trees, + one `SingleActiveCellOccupancy` per internal
state of the activator, any number of them, each on its own cell level), where
* every internal state is updated at the beginning of every leg but the first on the current global state (`occAfter`), and the taggers'
  yields are COMPUTED from the concrete state and those occupancies (`yieldCls3`),
* the candidate of the cell-boundary handler of cell system `l` is EXACTLY `time stamp + (geo l).ttb position velocity` of the active
  unit ON THE CELL LEVEL OF `l` (level 1: the root unit of the active composite object — it moves with `v / nPer`; level 2: the active
  point mass), that unit being in the box, moving in a direction of the geometry (`velOK`; positive axis direction for `axisGeoPos`) and
  carrying the time of the last commit as time stamp; every other candidate is a normalised finite time or `inf`, not before the last
  commit (`CandsOK3`),
* the global state moves by `Composite.step` of an event of a kind that the handler class of the committing tagger commits in LEAF mode
  (the wirings are `LeafOnly`; E13's `hkind` is the definition of the step relation), at the committed time, under C12's weak
  admissibility `AdmW` (`Commits3`), and no leg follows the end-of-run commit,
* the run starts from a state at rest satisfying C12's `AllGood` with occupancies that record no active unit (`Init3`).

**Hypotheses** (`Hyp3L`): a box, and the decidable `WiringSound`, `start? = some S`, `Supported3`, `LeafOnly`, `cbWired3` (every internal
state has exactly one cell-boundary handler tagger, of class `CellBoundaryTagger`, activated in every reachable activation state); the
geometry `geo l : Geo (cwEnv env l)` per cell system (E9's interface; `axisGeoPos` = positive axis direction); and the **no-tie
hypothesis** `TieFree3 cs`: no event of a tagger that does not affect cell system `l` according to the footprint table (sampling,
dumping, end of run, THE CELL-BOUNDARY EVENT OF ANOTHER CELL SYSTEM) is committed at exactly the time of a pending cell-boundary
candidate of `l`.

**Main theorem** `joint_inv3`: by ONE induction over the legs, `JInv3` = `Big3` holds after every leg: E1's `MInv`; the state in the
middle of the leg satisfies `Inv3` and is a state of `JF.Act.Run` for the transition relation `Tr3L` — hence (`trRaw3_of_leafOnly`) for
`Tr3`, *whose premise `StaysInRecordedCell` is now DERIVED at every step* (`Big3.stays`: pending cell-boundary candidate of that system
by C09's freshness + scheduler minimality + `Geo` for that level + no tie) — hence C09's `Fresh` for every live tagger; C12's `AllGood`
and C07's one-chain clause for the state after the commit; C11's mirror for the active unit of every cell system; every pending
cell-boundary candidate of every cell system is a time until which the active unit on its level stays in its cell (`Big3.cb`).

**Corollaries**: (a) `staysInRecordedCell_closed3`, `tr3_premise_closed3`; (b) `c09_fresh_closed3`, `c09_fresh_every_leg3`,
`c08_closed3` (clause (h)), `c08_stale_trashed_closed3`, `c12_rootConsistent_closed3`, `c11_consistent_closed3`,
`c11_active_in_recorded_cell_closed3`; (c) `candOK_closed3`, `commit_times_sorted_closed3`, `no_sample_skipped3`; instantiated by
`decide` for the six shipped composite wirings with cells, with a concrete multi-leg run of `dipoles/cell_bounded.ini` (`Example`).

**Not reached** (d): C11's full `OccInv` per cell system (`c11_occinv_closed3` does not exist): it needs `hmove` of `C11.update_inv` at
LIFTING commits — i.e. `Big3.stays` also for the commits that DO change the active unit, which the present `stays` does not cover (it is
stated for `affects · (.cell l) = false` only; the argument is the same with a stronger no-tie hypothesis, E9's `TieFreeAll`) — and the
lemma that `Composite.step` does not displace units at rest, for all five leaf-mode event kinds.
-/
namespace JF.SystemInv3Loop
open JF JF.Act JF.Heap JF.Sched JF.Med JF.CW3 JF.C14 JF.MediatorLoop JF.Sys JF.Sys3 JF.Sys3L JF.Composite JF.C12 JF.Footprints3

section
variable {env : Env ℚ} {geo : ∀ l, Geo (cwEnv env l)} {mw : ModeWiring} {S : TaggerIdx} {needs : HandlerId → Bool}

/-! ## the joint invariant -/

/-- before the first leg: the initial state; after a leg: `Big3` for the last committed event -/
def JInv3 (env : Env ℚ) (mw : ModeWiring) (S : TaggerIdx) (needs : HandlerId → Bool)
    (cs : List (Committed XTime)) (s : Sys3) : Prop :=
  (cs = [] ∧ Init3 env mw s) ∨
  ∃ cs0 cl E tl, cs = cs0 ++ [cl] ∧ Big3 env mw S needs cs cl s E tl

theorem tieFree3_snoc {cs : List (Committed XTime)} {cm : Committed XTime} (h : TieFree3 mw (cs ++ [cm])) :
    TieFree3 mw cs ∧ TieFreeLeg3 mw (pendOf (fun _ => none) cs) cm := by
  constructor
  · intro k x hk
    have hlt : k < cs.length := (List.getElem?_eq_some_iff.mp hk).1
    have := h k x (by rw [List.getElem?_append_left hlt]; exact hk)
    rwa [List.take_append_of_le_length (Nat.le_of_lt hlt)] at this
  · have := h cs.length cm (by simp)
    simpa using this

theorem tieFree3_take {cs : List (Committed XTime)} (h : TieFree3 mw cs) (k : Nat) : TieFree3 mw (cs.take k) := by
  intro j x hj
  rw [List.getElem?_take] at hj
  split at hj
  · next hjk =>
    have := h j x hj
    rwa [List.take_take, Nat.min_eq_left (Nat.le_of_lt hjk)]
  · cases hj

/-- **the joint invariant holds after every leg of every run** (ONE induction over the legs) -/
theorem joint_inv3 (H : Hyp3L env mw S) {os : List (Oracle XTime)} {cs : List (Committed XTime)} {s : Sys3}
    (hr : Reach3 env geo mw S needs os cs s) (nt : TieFree3 mw cs) : JInv3 env mw S needs cs s := by
  induction hr with
  | init s h => exact Or.inl ⟨rfl, h⟩
  | @step os cs s s' o cm prev hgo hstep ih =>
    obtain ⟨nt0, _⟩ := tieFree3_snoc nt
    right
    rcases ih nt0 with ⟨rfl, hi⟩ | ⟨cs0, cl, E, tl, rfl, big⟩
    · obtain ⟨E', tl', hb⟩ := first_step3 H hi hstep
      exact ⟨[], cm, E', tl', rfl, hb⟩
    · have hgo' : cl.stop = false := hgo cl (by simp)
      have ntl : TieFreeLeg3 mw (pendOf (fun _ => none) (cs0 ++ [cl]).dropLast) cl := by
        rw [List.dropLast_concat]; exact (tieFree3_snoc nt0).2
      obtain ⟨E', tl', hb⟩ := big_step3 H big hgo' ntl hstep
      exact ⟨cs0 ++ [cl], cm, E', tl', rfl, hb⟩

/-! ## runs of the composed system are runs of E1's loop; every leg of a run -/

theorem reach_medRun3 {os : List (Oracle XTime)} {cs : List (Committed XTime)} {s : Sys3}
    (hr : Reach3 env geo mw S needs os cs s) :
    MediatorLoop.Run (mwire mw.w S needs) (specI xcfg) (MedState.init (specI xcfg) (mwire mw.w S needs).w) os cs s.med := by
  induction hr with
  | init s h => rw [h.med]; exact .nil _
  | step _ _ hstep ih => exact run_snoc ih hstep.leg

/-- every leg of a run is a step from a reachable state (the run up to that leg) -/
theorem reach_leg3 {os : List (Oracle XTime)} {cs : List (Committed XTime)} {s : Sys3}
    (hr : Reach3 env geo mw S needs os cs s) {k : Nat} {cm : Committed XTime} (hk : cs[k]? = some cm) :
    ∃ s0 s1 o, Reach3 env geo mw S needs (os.take k) (cs.take k) s0 ∧
      (∀ cl, (cs.take k).getLast? = some cl → cl.stop = false) ∧ SysStep3 env geo mw S needs s0 o cm s1 := by
  induction hr with
  | init s h => simp at hk
  | @step os cs s s' o cm' prev hgo hstep ih =>
    have hlen : os.length = cs.length := by
      clear ih hk hgo hstep
      induction prev with
      | init => rfl
      | step _ _ _ ih => simp [ih]
    by_cases hlt : k < cs.length
    · rw [List.getElem?_append_left hlt] at hk
      obtain ⟨s0, s1, o0, h1, h2, h3⟩ := ih hk
      refine ⟨s0, s1, o0, ?_, ?_, h3⟩
      · rw [List.take_append_of_le_length (Nat.le_of_lt hlt), List.take_append_of_le_length (by omega)]; exact h1
      · rw [List.take_append_of_le_length (Nat.le_of_lt hlt)]; exact h2
    · have hke : k = cs.length := by
        have := (List.getElem?_eq_some_iff.mp hk).1
        simp at this; omega
      subst hke
      simp only [List.getElem?_concat_length, Option.some.injEq] at hk
      subst hk
      refine ⟨s, s', o, ?_, ?_, hstep⟩
      · rw [List.take_left' rfl, ← hlen, List.take_left' rfl]; exact prev
      · rw [List.take_left' rfl]; exact hgo

/-- the invariant for the last committed event -/
theorem jinv_big3 {cs : List (Committed XTime)} {s : Sys3} (h : JInv3 env mw S needs cs s) {cl : Committed XTime}
    (hl : cs.getLast? = some cl) : ∃ E tl, Big3 env mw S needs cs cl s E tl := by
  rcases h with ⟨rfl, _⟩ | ⟨cs0, cl', E, tl, rfl, big⟩
  · simp at hl
  · have : cl' = cl := by simpa using hl
    subst this
    exact ⟨E, tl, big⟩

theorem tieFree3_last {cs : List (Committed XTime)} (nt : TieFree3 mw cs) {cl : Committed XTime} (hl : cs.getLast? = some cl) :
    TieFreeLeg3 mw (pendOf (fun _ => none) cs.dropLast) cl := by
  have hcs : cs = cs.dropLast ++ [cl] := by
    have := List.dropLast_append_getLast? cl (by rw [hl]; simp)
    exact this.symm
  have := nt cs.dropLast.length cl (by rw [hcs]; simp)
  rw [hcs] at this
  simpa using this

/-! ## (a) the former premise of `Tr3` -/

/-- **`staysInRecordedCell_closed3` — (a): E22's premise is a theorem.**  After every commit of every run whose tagger does not affect
cell system `l` according to the footprint table (sampling, dumping, end of run, the cell-boundary event of ANOTHER cell system): the
active unit on the cell level of `l` — as the commit left it, i.e. time-sliced to the committed time — is still in the cell the
occupancy of `l` has recorded for it.  Derived from: the cell-boundary candidate of `l` is pending (C09's freshness in the middle of the
leg), it is `time stamp + time to the boundary` (`CandsOK3`), the leg commits a minimal pending candidate (E1), the unit stays in its
cell strictly before that time (`Geo.stays`), and the no-tie hypothesis. -/
theorem staysInRecordedCell_closed3 (H : Hyp3L env mw S) {os : List (Oracle XTime)} {cs : List (Committed XTime)} {s : Sys3}
    (hr : Reach3 env geo mw S needs os cs s) (nt : TieFree3 mw cs) {cl : Committed XTime} (hl : cs.getLast? = some cl)
    {E : TaggerIdx} (hE : owner mw.w.wires cl.handler = some E) {l : Nat} (hlab : l < mw.w.labels.length)
    (haff : affects (mw.w.tagger E) (.cell l) = false) :
    StaysInRecordedCell env.base.nPer (env.oe l) (getOcc s.occs l) s.cs := by
  obtain ⟨E0, tl, big⟩ := jinv_big3 (joint_inv3 H hr nt) hl
  have : E0 = E := by
    have := big.owner; rw [hE] at this; exact (Option.some.inj this).symm
  subst this
  exact big.stays l hlab haff (tieFree3_last nt hl E0 l hE hlab haff)

/-- **every commit after the start-of-run event that does not end the run is a transition of E22's `Tr3`, premise included** (between
the states in the middle of two consecutive legs; `occs'` = the occupancies after the next leg's update) -/
theorem tr3_premise_closed3 (H : Hyp3L env mw S) {os : List (Oracle XTime)} {cs : List (Committed XTime)} {s : Sys3}
    (hr : Reach3 env geo mw S needs os cs s) (nt : TieFree3 mw cs) (h2 : 2 ≤ cs.length) {cl : Committed XTime}
    (hl : cs.getLast? = some cl) (hgo : cl.stop = false) {occs' : List Occ.State}
    (hocc : OccsUpdated env mw.w.labels.length s.occs occs' s.cs) :
    ∃ E, owner mw.w.wires cl.handler = some E ∧ TrRaw3 env mw E ⟨s.csPrev, .leaf, s.occs⟩ ⟨s.cs, .leaf, occs'⟩ := by
  obtain ⟨E, tl, big⟩ := jinv_big3 (joint_inv3 H hr nt) hl
  refine ⟨E, big.owner, ?_⟩
  obtain ⟨hi, hph⟩ := big.phase
  rcases hph with ⟨h1, _⟩ | hrun
  · omega
  · have hpend : (getT s.mid E).running ≠ [] := List.ne_nil_of_mem big.running
    have hend : (mw.w.tagger E).kind ≠ .endOfRun := by
      have := endOfRun_of_stop3 big.owner big.stopEq
      rw [hgo] at this
      intro hk; rw [hk] at this; simp at this
    obtain ⟨hEn, hEk, _⟩ := can_commit3 H (runInv3 H hrun) hpend hend
    obtain ⟨e, hk, _, ⟨ha, _⟩, hcs⟩ := big.commit
    exact trRaw3_of_leafOnly H.leaf ⟨hEn, rfl, rfl, ⟨e, hk, not_start_kind H.supp hEn hEk hk, ha, hcs⟩, hocc,
      fun l hlab haff => big.stays l hlab haff (tieFree3_last nt hl E l big.owner hlab haff)⟩

/-! ## (b) C09, C08, C12, C11 without `_partial` -/

/-- **`c09_fresh_closed3` — C09 for composite objects with cell systems, no `FootprintsSound`, no mode premise, NO HISTORY PREMISE**:
after every leg but the first, the state in the middle of that leg — the activator's lists `s.mid`, the identifiers handed out
`s.ids`, the concrete global state `s.csPrev` the leg's candidates were computed on, the occupancies `s.occs` as updated in that leg —
satisfies `Inv3`, every live tagger is `Fresh` there, and it is a state of `JF.Act.Run` for E22's transition relation `Tr3` (whose
premise is proved at every step). -/
theorem c09_fresh_closed3 (H : Hyp3L env mw S) {os : List (Oracle XTime)} {cs : List (Committed XTime)} {s : Sys3}
    (hr : Reach3 env geo mw S needs os cs s) (nt : TieFree3 mw cs) (h2 : 2 ≤ cs.length) :
    ∃ hi : Inv3 env mw ⟨s.csPrev, .leaf, s.occs⟩,
      (∀ T, (world3 env mw).live T → Fresh (world3 env mw) ⟨s.mid, s.ids, ⟨_, hi⟩⟩ T) ∧
      Act.Run mw.w (world3 env mw) (Tr3 env mw) S ⟨s.mid, s.ids, ⟨_, hi⟩⟩ := by
  rcases joint_inv3 H hr nt with ⟨rfl, _⟩ | ⟨cs0, cl, E, tl, rfl, big⟩
  · simp at h2
  · obtain ⟨hi, hph⟩ := big.phase
    rcases hph with ⟨h1, _⟩ | hrun
    · omega
    · exact ⟨hi, (runInv3 H hrun).fresh, run_mono (fun _ _ _ htr => trRaw3_of_leafOnly H.leaf htr) hrun⟩

/-- … and the pending events in the middle of a leg are exactly those of the running handlers of that moment: **pending = fresh
yield at every leg** (leg `k ≥ 1` of a run; `s1` the state after it) -/
theorem c09_fresh_every_leg3 (H : Hyp3L env mw S) {os : List (Oracle XTime)} {cs : List (Committed XTime)} {s : Sys3}
    (hr : Reach3 env geo mw S needs os cs s) (nt : TieFree3 mw cs) {k : Nat} {cm : Committed XTime}
    (hk : cs[k + 1]? = some cm) :
    ∃ (s1 : Sys3) (hi : Inv3 env mw ⟨s1.csPrev, .leaf, s1.occs⟩),
      (∀ T, (world3 env mw).live T → Fresh (world3 env mw) ⟨s1.mid, s1.ids, ⟨_, hi⟩⟩ T) ∧
      (∀ x, (pendPushed (pendOf (fun _ => none) (cs.take (k + 1))) cm x).isSome ↔ ∃ T, x ∈ (getT s1.mid T).running) := by
  obtain ⟨s0, s1, o, hr0, hgo, hst⟩ := reach_leg3 hr hk
  have hr1 := Reach3.step hr0 hgo hst
  have hklt : k + 1 < cs.length := (List.getElem?_eq_some_iff.mp hk).1
  have hlen : 2 ≤ (cs.take (k + 1) ++ [cm]).length := by
    rw [List.length_append, List.length_take, Nat.min_eq_left (Nat.le_of_lt hklt)]; simp
  have hcat : cs.take (k + 1) ++ [cm] = cs.take (k + 2) := by
    rw [List.take_add_one (i := k + 1), hk]; rfl
  have nt1 : TieFree3 mw (cs.take (k + 1) ++ [cm]) := by rw [hcat]; exact tieFree3_take nt _
  obtain ⟨hi, hfr, _⟩ := c09_fresh_closed3 H hr1 nt1 hlen
  refine ⟨s1, hi, hfr, ?_⟩
  rcases joint_inv3 H hr0 (tieFree3_take nt _) with ⟨he, _⟩ | ⟨cs0, cl, E, tl, he, big⟩
  · have h0 : (cs.take (k + 1)).length = 0 := by rw [he]; rfl
    rw [List.length_take, Nat.min_eq_left (Nat.le_of_lt hklt)] at h0; omega
  · have := (mid_mirror (hyp3_static H) big.med hst.leg).2.1
    rw [hst.mid']; exact this

/-- **`c08_closed3` — C08's clause (h) in the middle of every leg**, without the `FootprintsSound` hypothesis, without the mode
premise and without the history premise: if a tagger `E` whose commits may change the motion of a unit has a pending handler, every
interaction / cell-veto tagger is in its trash list or idle -/
theorem c08_closed3 (H : Hyp3L env mw S) {os : List (Oracle XTime)} {cs : List (Committed XTime)} {s : Sys3}
    (hr : Reach3 env geo mw S needs os cs s) (nt : TieFree3 mw cs) (h2 : 2 ≤ cs.length)
    {E : TaggerIdx} (hE : (getT s.mid E).running ≠ []) (hend : (mw.w.tagger E).kind ≠ .endOfRun)
    (hm : affects (mw.w.tagger E) .motion = true) {T : TaggerIdx} (hT : T < mw.w.n) (hb : motionBound (mw.w.tagger T) = true) :
    T ∈ (getW mw.w.wires E).trashes ∨ (getT s.mid T).running = [] := by
  obtain ⟨hi, _, hrun⟩ := c09_fresh_closed3 H hr nt h2
  exact clause_h_concrete3 env H.box mw S H.sound H.start H.supp hrun (E := E) hE hend hm hT hb

/-- **`c08_stale_trashed_closed3` — C08's second sentence for every run.**  If leg `k` commits an event that may change the motion of
a unit while the event of a handler `h` of an interaction / cell-veto tagger is pending — i.e. `h`'s candidate was computed before that
commit —, then `h`'s event is in the trash list of leg `k`, and if `h` commits in a later leg `j`, it was handed out again in some leg
`i` with `k < i ≤ j`. -/
theorem c08_stale_trashed_closed3 (H : Hyp3L env mw S) {os : List (Oracle XTime)} {cs : List (Committed XTime)} {s : Sys3}
    (hr : Reach3 env geo mw S needs os cs s) (nt : TieFree3 mw cs) {k j : Nat} {ck cj : Committed XTime}
    (hk : cs[k]? = some ck) {E : TaggerIdx} (hE : owner mw.w.wires ck.handler = some E)
    (hm : affects (mw.w.tagger E) .motion = true) {h : HandlerId} {T : TaggerIdx} (hT : owner mw.w.wires h = some T)
    (hb : motionBound (mw.w.tagger T) = true)
    (hp : (pendPushed (pendOf (fun _ => none) (cs.take k)) ck h).isSome) :
    h ∈ ck.trashed ∧
    (k < j → cs[j]? = some cj → cj.handler = h →
      ∃ (i : Nat) (ci : Committed XTime), k < i ∧ i ≤ j ∧ cs[i]? = some ci ∧ h ∈ ci.created.map Prod.fst) := by
  have htr : h ∈ ck.trashed := by
    obtain ⟨s0, s1, o, hr0, hgo, hst⟩ := reach_leg3 hr hk
    have nt0 := tieFree3_take nt k
    rcases joint_inv3 H hr0 nt0 with ⟨he, hi⟩ | ⟨cs0, cl, E0, tl, he, big⟩
    · exfalso
      rw [he] at hp
      have := (first_leg_only H hi hst).2.2.2 h hp
      rw [kindOfH_of_owner hT] at this
      rw [motionBound, this] at hb; simp at hb
    · have hl : (cs.take k).getLast? = some cl := by rw [he]; simp
      have hgo' := hgo cl hl
      have ntl := tieFree3_last nt0 hl
      have hTn : T < mw.w.n := by rw [← mw.w.wires_length]; exact owner_lt hT
      obtain ⟨pmid, mirr, _⟩ := mid_mirror (hyp3_static H) big.med hst.leg
      obtain ⟨T', hT'⟩ := (mirr h).mp hp
      have : owner mw.w.wires h = some T' := owner_of_running (poolsOK_wires mw.w) pmid hT'
      rw [hT] at this
      have : T = T' := Option.some.inj this
      subst this
      exact stale_trashed_step3 H big hgo' ntl hst hE hm hTn hb (by rw [hst.mid']; exact hT')
  refine ⟨htr, fun hkj hj hc => ?_⟩
  exact trashed_never_committed_run (specLaws xcfg_strictWeak) (hyp3_static H) (reach_medRun3 hr) hk htr hkj hj hc

/-- **`c12_rootConsistent_closed3` — C12 / C07 at every leg of every run**: after every commit every composite object satisfies C12's
`Good` (hence `RootConsistent`), has `nPer` point masses, and nothing moves or exactly one point mass does (leaf mode) -/
theorem c12_rootConsistent_closed3 (H : Hyp3L env mw S) {os : List (Oracle XTime)} {cs : List (Committed XTime)} {s : Sys3}
    (hr : Reach3 env geo mw S needs os cs s) (nt : TieFree3 mw cs) :
    AllGood env.base.d env.base.L s.cs ∧ CW2.Uniform env.base.nPer s.cs ∧ (∀ c ∈ s.cs, RootConsistent env.base.L c) ∧
    (AllRest s.cs ∨ ∃ sq, OneChainM s.cs sq .leaf) := by
  rcases joint_inv3 H hr nt with ⟨rfl, hi⟩ | ⟨cs0, cl, E, tl, rfl, big⟩
  · exact ⟨hi.good, hi.unif, fun c hc => good_rootConsistent (hi.good c hc), Or.inl hi.rest⟩
  · exact ⟨big.invNext.1, big.invNext.2.1, fun c hc => good_rootConsistent (big.invNext.1 c hc), big.invNext.2.2⟩

/-- **`c11_consistent_closed3` — C11's mirror, consistency form, in the middle of every leg**: the occupancy of internal state `l`
records the active unit on its cell level iff it is relevant, and an active cell iff an identifier -/
theorem c11_consistent_closed3 (H : Hyp3L env mw S) {os : List (Oracle XTime)} {cs : List (Committed XTime)} {s : Sys3}
    (hr : Reach3 env geo mw S needs os cs s) (nt : TieFree3 mw cs) {l : Nat} (hl : l < mw.w.labels.length) :
    ConsistentOcc (env.oe l).relevant (unitsOn env.base.nPer (env.oe l).level (CW2.flags s.csPrev)) (getOcc s.occs l) := by
  rcases joint_inv3 H hr nt with ⟨rfl, hi⟩ | ⟨cs0, cl, E, tl, rfl, big⟩
  · rw [hi.prev]; exact hi.cons l hl
  · obtain ⟨hi, _⟩ := big.phase
    exact hi.2 l hl

/-- **`c11_active_in_recorded_cell_closed3` — C11's mirror for the active unit of every cell system**: in the middle of every leg
after the first the recorded active cell of cell system `l` is the cell of the position of the (relevant) active unit on its level; and
after the commit of a tagger that does not affect `l` that unit is still in it (`staysInRecordedCell_closed3`) -/
theorem c11_active_in_recorded_cell_closed3 (H : Hyp3L env mw S) {os : List (Oracle XTime)} {cs : List (Committed XTime)}
    {s : Sys3} (hr : Reach3 env geo mw S needs os cs s) (nt : TieFree3 mw cs) (h2 : 2 ≤ cs.length) {l : Nat}
    (hl : l < mw.w.labels.length) {a : Nat} (ha : activeOn env l s.csPrev = [a]) (hrel : (env.oe l).relevant a = true) :
    (getOcc s.occs l).activeCell = some ((env.oe l).cellOf (posOn env.base.nPer (env.oe l).level s.csPrev a)) := by
  rcases joint_inv3 H hr nt with ⟨rfl, _⟩ | ⟨cs0, cl, E, tl, rfl, big⟩
  · simp at h2
  · exact big.mirror h2 l hl a ha hrel

/-! ## (c) commit times, the C17 link -/

/-- **`CandOK` of E1 holds along every run**: every pushed candidate time is not before the previous commit — the constraint
`CandsOK3` for the handlers that are not cell-boundary handlers, DERIVED for the cell-boundary handlers of every cell system from
`Geo.pos` (positive time to the boundary) -/
theorem candOK_closed3 (H : Hyp3L env mw S) {os : List (Oracle XTime)} {cs : List (Committed XTime)} {s : Sys3}
    (hr : Reach3 env geo mw S needs os cs s) (nt : TieFree3 mw cs) :
    MediatorLoop.Legs (CandOK xcfg) (fun _ => none) xcfg.bot cs := by
  induction hr with
  | init => trivial
  | @step os cs s s' o cm prev hgo hstep ih =>
    obtain ⟨nt0, _⟩ := tieFree3_snoc nt
    rw [SystemInv.legs_snoc]
    refine ⟨ih nt0, ?_⟩
    show ∀ q ∈ cm.pushed, xcfg.lt q.2 (lastOf xcfg.bot cs) = false
    rcases joint_inv3 H prev nt0 with ⟨rfl, _⟩ | ⟨cs0, cl, E, tl, rfl, big⟩
    · intro q _; exact xcfg_strictWeak.bot_min q.2
    · rw [lastOf_snoc]; exact candOK_step3 H big hstep

/-- **(c) commit times never decrease** (C07's time order for the composed system), from `candOK_closed3` and E1 -/
theorem commit_times_sorted_closed3 (H : Hyp3L env mw S) {os : List (Oracle XTime)} {cs : List (Committed XTime)} {s : Sys3}
    (hr : Reach3 env geo mw S needs os cs s) (nt : TieFree3 mw cs) : cs.Pairwise (fun a b => xcfg.lt b.time a.time = false) :=
  commit_times_sorted_pairwise xcfg_strictWeak (specLaws xcfg_strictWeak) (hyp3_static H) (reach_medRun3 hr)
    (candOK_closed3 H hr nt)

/-- **`no_sample_skipped3` — the C17 link.**  In every leg `k` of every run: while a sampling candidate with time `t_s` is pending
(in the middle of the leg), the event committed by the leg is not later than `t_s` (minimality, E1/C06), and when the sampling
handler itself commits, it commits at exactly `t_s`.  With `commit_times_sorted_closed3`: no event after `t_s` is committed before
the sample. -/
theorem no_sample_skipped3 (H : Hyp3L env mw S) {os : List (Oracle XTime)} {cs : List (Committed XTime)} {s : Sys3}
    (hr : Reach3 env geo mw S needs os cs s) {k : Nat} {cm : Committed XTime} (hk : cs[k]? = some cm)
    {hs : HandlerId} {ts : XTime} (_ : kindOfH mw.w hs = .sampling)
    (hp : pendPushed (pendOf (fun _ => none) (cs.take k)) cm hs = some ts) (hfin : xcfg.finite ts = true) :
    xcfg.lt ts cm.time = false ∧ (cm.handler = hs → cm.time = ts) := by
  have legs := (MediatorLoop.run_inv (specLaws xcfg_strictWeak) (hyp3_static H) (reach_medRun3 hr)
    (minv_init (specLaws xcfg_strictWeak) (mwire mw.w S needs))).2
  have ok := SystemInv.legs_get _ _ _ legs k cm hk
  refine ⟨ok.minimal hs ts hp hfin, fun he => ?_⟩
  have := ok.pending
  rw [he, hp] at this
  exact (Option.some.inj this).symm

end

/-! ## the six shipped configurations of composite objects with cells satisfy the hypotheses (by `decide`) -/

open JF.Act.Gen JF.SystemInv3

theorem cbWired3_shipped : cbWired3 cfg_dipoles_cell_bounded 9 = true ∧ cbWired3 cfg_dipoles_cell_veto 9 = true ∧
    cbWired3 cfg_water_coulomb_cell_veto_lj_cell_veto 13 = true ∧ cbWired3 cfg_water_coulomb_cell_veto_lj_inverted 10 = true ∧
    cbWired3 cfg_water_coulomb_power_bounded_lj_cell_bounded 10 = true ∧
    cbWired3 cfg_hard_disk_dipoles_hard_disk_dipoles_cells 6 = true := by
  decide +kernel

theorem hyp3L_of_hyp3 {env : Env ℚ} {mw : ModeWiring} {S : TaggerIdx} (h : Hyp3 env mw S) (hcb : cbWired3 mw.w S = true) :
    Hyp3L env mw S := ⟨h.box, h.sound, h.start, h.supp, h.leaf, hcb⟩

/-- one cell system on the root level -/
theorem hyp3L_dipoles_cell_bounded (env : Env ℚ) (hL : BoxOK env.base.d env.base.L) : Hyp3L env mcfg_dipoles_cell_bounded 9 :=
  hyp3L_of_hyp3 (hyp3_dipoles_cell_bounded env hL) cbWired3_shipped.1
theorem hyp3L_dipoles_cell_veto (env : Env ℚ) (hL : BoxOK env.base.d env.base.L) : Hyp3L env mcfg_dipoles_cell_veto 9 :=
  hyp3L_of_hyp3 (hyp3_dipoles_cell_veto env hL) cbWired3_shipped.2.1
/-- TWO cell systems (oxygens on the leaf level, molecules on the root level) -/
theorem hyp3L_water_cell_veto_lj_cell_veto (env : Env ℚ) (hL : BoxOK env.base.d env.base.L) :
    Hyp3L env mcfg_water_coulomb_cell_veto_lj_cell_veto 13 :=
  hyp3L_of_hyp3 (hyp3_water_cell_veto_lj_cell_veto env hL) cbWired3_shipped.2.2.1
theorem hyp3L_water_cell_veto_lj_inverted (env : Env ℚ) (hL : BoxOK env.base.d env.base.L) :
    Hyp3L env mcfg_water_coulomb_cell_veto_lj_inverted 10 :=
  hyp3L_of_hyp3 (hyp3_water_cell_veto_lj_inverted env hL) cbWired3_shipped.2.2.2.1
/-- one cell system on the leaf level -/
theorem hyp3L_water_power_bounded_lj_cell_bounded (env : Env ℚ) (hL : BoxOK env.base.d env.base.L) :
    Hyp3L env mcfg_water_coulomb_power_bounded_lj_cell_bounded 10 :=
  hyp3L_of_hyp3 (hyp3_water_power_bounded_lj_cell_bounded env hL) cbWired3_shipped.2.2.2.2.1
theorem hyp3L_hard_disk_dipoles_cells (env : Env ℚ) (hL : BoxOK env.base.d env.base.L) :
    Hyp3L env mcfg_hard_disk_dipoles_hard_disk_dipoles_cells 6 :=
  hyp3L_of_hyp3 (hyp3_hard_disk_dipoles_cells env hL) cbWired3_shipped.2.2.2.2.2

/-- the side condition `cbWired3` is not trivially true: if the cell-boundary handler is driven by a tagger of another class, it fails -/
example : cbWired3 { cfg_dipoles_cell_bounded with taggers := cfg_dipoles_cell_bounded.taggers.map fun t =>
    if t.kind == .cellBoundary then { t with cls := .cellVeto } else t } 9 = false := by decide +kernel

end JF.SystemInv3Loop
