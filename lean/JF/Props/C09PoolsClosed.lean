import JF.Lemmas.C09PoolsClosedCW
import JF.Lemmas.C09PoolsClosedCW2
import JF.Gen.WiringsSound
/-!
# C09, last clause, CLOSED on the runs of the composed systems (E42): no pool is ever exhausted — without a demand hypothesis

`JF/Props/C09Pools.lean` (E40) proved demand bounds for the yield functions of the concrete worlds, generated the decidable obligation
`shortfalls pc = []` ("pool ≥ bound") per shipped `.ini`, and composed the two only under the hypothesis "every yield respects
`demandBound` on the visited states" (`shipped_no_pool_exhausted_partial`).  This module discharges that hypothesis along the runs of
the composed mediator loop, with the joint invariants of `JF/Props/SystemInv.lean` / `JF/Props/SystemInv2.lean`.

## A. coulomb_atoms world (`JF.Sys.Reach`, point masses + one `SingleActiveCellOccupancy`)

Setting: a run `Reach env geo pc.w S needs os cs s` under SystemInv's `Hyp`, `TieFreeAll` (the strong no-tie hypothesis under which
C11's FULL `OccInv` holds; for wirings without a cell-boundary handler it holds by itself: `tieFreeAll_of_no_cb`), `CellOfInGrid env`
(C10Closed: `position_to_cell` of a position in the box is a cell of the grid; `GridBox.inGrid`), the generated obligation
`shortfalls pc = []`, and `Fits pc env s` (the generated numbers describe THIS environment: number of point masses, cell system,
occupant limit, number of charged point masses — invariants of the legs, `fits_step`).

`NextLeg env c s o occ'`: the inputs of the NEXT pass of the loop body — the occupancy `occ'` after the `update` the next call of
`get_event_handlers_to_run` performs, and the yields `o.yields` COMPUTED from `⟨s.us, occ'⟩` (`CW.yieldCls`).  The next leg is NOT
assumed to succeed.

* `demand_le_pool_closed`: every tagger of the wiring yields at most `pool` in-states on that state.
* `no_pool_exhausted_closed`: `leg … s.med o ≠ .error .tagActivatorError` — the next pass of `SingleProcessMediator.run` does not
  leave the loop with `TagActivatorError`, whatever the candidate times are; this includes the very first call (`cs = []`) and the
  commit of the start-of-run event.
* `demand_le_pool_every_leg`: at every leg `k` of the run, the oracle of that leg asked no tagger for more in-states than its pool holds.
* instances for the four shipped coulomb_atoms wirings (`no_pool_exhausted_cell_bounded`, `…_cell_veto`, `…_power_bounded`,
  `…_power_bounded_dump`).

## B. composite objects without cells (`JF.Sys2.Reach2`), activation-aware (namespace `JF.C09Pools.Closed2`)

Setting: a run `Reach2 env mw S needs os cs s` under SystemInv2's `Hyp2` (NO no-tie hypothesis in this world), `pc.w = mw.w`,
`shortfalls pc = []`, `Fits2 pc env s.cs` (numbers of composite objects / point masses per object ≠ 1, factor maps and factor types of
the generated data are those of the environment) and the decidable **`selSound mw pc S`**: in every reachable activation state an
activated tagger with `sel = 0` (asked in leaf mode only) sees leaf mode — the mode READ OFF THE FLAGS, `ModeWiring.mode` — and one
with `sel = 1` sees root mode.
* `next_flags_reach`: the activation flags of the next call are a reachable activation state;
* `demand_le_pool_closed2` (B1): after every leg that did not end the run, every tagger ACTIVATED in the next call yields at most
  `pool` in-states on the state that call sees (the one-chain clause `Big2.chain` of the joint invariant gives the mode of the state);
* `no_pool_exhausted_closed2` (B2): the next pass does not raise `TagActivatorError` (leg not assumed to succeed);
* `selSound_dipole_motion`, `demand_le_pool_dipole_motion`, `no_pool_exhausted_dipole_motion`: `dipoles/dipole_motion.ini`.

## NOT done (named gaps)
* B: the very FIRST call (`cs = []`, only the start-of-run tagger is asked) is not covered by B1/B2 (A covers it); instances are
  given for `dipole_motion.ini` only (`selSound` evaluates to `true` for `atom_factors` and `water/single_molecule` as well; the
  instances are one line each); no concrete multi-leg `Reach2` run is exhibited here as non-vacuity witness of B (SystemInv2's 8-leg run of
  `dipole_motion.ini` is the candidate), only `Fits2` and `selSound` are shown satisfiable / non-trivial.
* A: `Fits` is a hypothesis about the reached state (it speaks about quantities no leg changes: `fits_step`, `fits_step_back`,
  `fits_reach`); the exact reading (`env.o = Ops.rat`), the positive direction of motion and `TieFreeAll` are SystemInv's.
* composite objects WITH cells (`dipoles/cell_*.ini`, water): `JF.Props.SystemInv3` has no mediator-level `Reach` yet.
-/
namespace JF.C09Pools.Closed
open JF JF.Act JF.Heap JF.Sched JF.Med JF.CW JF.C14 JF.MediatorLoop JF.Kin JF.Sys JF.SystemInv JF.CellTaggers JF.C10C11
  JF.C10Closed JF.C09Pools

section
variable {env : Env ℚ} {geo : Geo env} {S : TaggerIdx} {needs : HandlerId → Bool}

/-- the inputs of the next pass of the loop body: the occupancy after the activator's `update` (none in the first call), and the
yields of the taggers computed on the current point masses and that occupancy -/
structure NextLeg (env : Env ℚ) (c : Wiring) (s : Sys) (o : Oracle XTime) (occ' : Occ.State) : Prop where
  occ1 : occNext env (hasOccOf c) s = some occ'
  yields : o.yields = fun T => yieldCls env (c.tagger T).cls ⟨s.us, occ'⟩

/-- a wiring without a cell-boundary handler needs no no-tie hypothesis -/
theorem tieFreeAll_of_no_cb {c : Wiring} (h : (List.range c.n).all (fun E => (c.tagger E).kind != .cellBoundary) = true)
    (cs : List (Committed XTime)) : TieFreeAll c cs := by
  intro k cm _ _ hb hkb
  exfalso
  unfold kindOfH at hkb
  cases ho : owner c.wires hb with
  | none => rw [ho] at hkb; cases hkb
  | some E =>
    rw [ho] at hkb
    have hE : E < c.n := by rw [← c.wires_length]; exact owner_lt ho
    have := List.all_eq_true.mp h E (List.mem_range.mpr hE)
    simp [hkb] at this

/-- **A1 — the demand hypothesis of E40, discharged**: on the state the next leg's taggers yield on, every tagger yields at most
`demandBound` in-states -/
theorem demand_le_bound_closed (pc : PoolCfg) (H : Hyp env pc.w S) (hG : hasOccOf pc.w = true → CellOfInGrid env)
    {os : List (Oracle XTime)} {cs : List (Committed XTime)} {s : Sys} (hr : Reach env geo pc.w S needs os cs s)
    (nta : TieFreeAll pc.w cs) (fit : Fits pc env s) {o : Oracle XTime} {occ' : Occ.State} (nl : NextLeg env pc.w s o occ')
    (T : TaggerIdx) : (o.yields T).length ≤ demandBound pc T := by
  rw [nl.yields]
  refine yield_le_demandBound pc env H.sup s.us occ' fit.nPer fit.nRoots (next_movers H hr (tieFree_of_all nta)) ?_ T
  intro hO
  obtain ⟨o', h1, h2, h3, h4⟩ := fit.occ hO
  exact ⟨⟨o', h1, h2, by rw [occNext_cap nl.occ1]; exact h3, h4⟩, next_occInv H hr nta hO nl.occ1,
    next_inGrid H (hG hO) hr (tieFree_of_all nta)⟩

/-- **A2 — demand ≤ pool**: with the generated obligation, every tagger yields at most as many in-states as its pool holds -/
theorem demand_le_pool_closed (pc : PoolCfg) (H : Hyp env pc.w S) (hG : hasOccOf pc.w = true → CellOfInGrid env) (ok : shortfalls pc = [])
    {os : List (Oracle XTime)} {cs : List (Committed XTime)} {s : Sys} (hr : Reach env geo pc.w S needs os cs s)
    (nta : TieFreeAll pc.w cs) (fit : Fits pc env s) {o : Oracle XTime} {occ' : Occ.State} (nl : NextLeg env pc.w s o occ')
    (T : TaggerIdx) (hT : T < pc.w.n) : (o.yields T).length ≤ (pc.w.tagger T).pool :=
  Nat.le_trans (demand_le_bound_closed pc H hG hr nta fit nl T) (pool_ge_of_no_shortfall ok hT)

/-- **A3 — `no_pool_exhausted_closed`: the next pass of `SingleProcessMediator.run` does not raise `TagActivatorError`**, for every
run of the composed system, whatever candidate times the handlers return: NO demand hypothesis, and the leg is not assumed to
succeed.  (`hgo`: the last leg did not commit the end-of-run event — after it there is no next pass.) -/
theorem no_pool_exhausted_closed (pc : PoolCfg) (H : Hyp env pc.w S) (hG : hasOccOf pc.w = true → CellOfInGrid env) (ok : shortfalls pc = [])
    {os : List (Oracle XTime)} {cs : List (Committed XTime)} {s : Sys} (hr : Reach env geo pc.w S needs os cs s)
    (nta : TieFreeAll pc.w cs) (hgo : ∀ cl, cs.getLast? = some cl → cl.stop = false) (fit : Fits pc env s)
    {o : Oracle XTime} {occ' : Occ.State} (nl : NextLeg env pc.w s o occ') :
    leg (mwire pc.w S needs) (specI xcfg) s.med o ≠ .error .tagActivatorError := by
  intro herr
  have hdem := demand_le_pool_closed pc H hG ok hr nta fit nl
  have hte := leg_tagErr herr
  have nt := tieFree_of_all nta
  have sound' := H.sound
  unfold WiringSound at sound'
  rw [H.hS] at sound'
  simp only [Bool.and_eq_true] at sound'
  obtain ⟨⟨⟨hwf, _⟩, _⟩, _⟩ := sound'
  have st := static_of_wfStatic hwf
  obtain ⟨hSn, _, _⟩ := start_spec H.hS
  rcases joint_inv H hr nt with ⟨rfl, hi⟩ | ⟨cs0, cl, E, tl, a, pos, v, ts, rfl, big⟩
  · -- the very first call
    have hmed := hi.med
    have hst : s.med.act.started = false := by rw [hmed]; rfl
    have hpre : s.med.preceding = none := by rw [hmed]; rfl
    rw [hpre] at hte
    have hf : first pc.w.wires s.med.act.ts S o.yields = none := getToRun_first_tagErr hst hte
    have hts : s.med.act.ts = initAct pc.w.wires := by rw [hmed]; rfl
    rw [hts] at hf
    let W : World Unit := ⟨fun T _ => o.yields T, fun _ x => x, fun _ => True⟩
    have := first_isSome pc.w W S H.hS () (hdem S hSn)
    change (first pc.w.wires (initAct pc.w.wires) S o.yields).isSome = true at this
    rw [hf] at this; cases this
  · have hgo' : cl.stop = false := hgo cl (by simp)
    rw [big.prec] at hte
    have hu : update pc.w.wires s.med.act.ts E o.yields = none := getToRun_started_tagErr big.started big.owner hte
    obtain ⟨hc, hph⟩ := big.phase
    have hocc : occAfter env (hasOccOf pc.w) s.occ s.us = some occ' := by
      have := nl.occ1; unfold occNext at this; rw [big.started] at this; simpa using this
    have hc' : Consistent env (hasOccOf pc.w) ⟨s.us, occ'⟩ :=
      consistent_after (g := ⟨s.usPrev, s.occ⟩) (g' := ⟨s.us, occ'⟩) hc hocc
    have hy : (fun T => (world env pc.w).yieldOf T ⟨⟨s.us, occ'⟩, hc'⟩) = o.yields := by rw [nl.yields]; rfl
    have hsome : (commit pc.w.wires (world env pc.w) ⟨s.mid, s.ids, ⟨⟨s.usPrev, s.occ⟩, hc⟩⟩ E ⟨⟨s.us, occ'⟩, hc'⟩).isSome
        = true := by
      rcases hph with ⟨_, hES, ids0, out, hfirst, _⟩ | hrunp
      · subst hES
        refine start_commit_isSome_act pc.w (world env pc.w) E H.sound H.hS hfirst s.ids _ _ ?_
        intro T hT _
        have := hdem T (st.creates_lt E T hT)
        rw [← hy] at this; exact this
      · have hend : (pc.w.tagger E).kind ≠ .endOfRun := by
          have := big.stopEq
          rw [hgo'] at this
          have h2 : (mwire pc.w S needs).endOfRun cl.handler = ((pc.w.tagger E).kind == .endOfRun) := by
            show (match owner pc.w.wires cl.handler with
              | some E => (pc.w.tagger E).kind == HandlerKind.endOfRun
              | none => false) = _
            rw [big.owner]
          rw [h2] at this
          intro hk; rw [hk] at this; simp at this
        refine run_next_commit_isSome_act pc.w (world env pc.w) (Tr env pc.w) S H.sound H.hS
          (Footprints.footprintsSound_concrete env pc.w H.sup) (liveIs env pc.w) hrunp
          (List.ne_nil_of_mem big.running) hend ?_
        intro T hT _
        have := hdem T (st.creates_lt E T hT)
        rw [← hy] at this; exact this
    have := update_isSome_of_commit hsome
    rw [hy, ← big.trashEq, hu] at this
    cases this

/-- **A4 — at every leg of every run** the taggers were asked for at most `pool` in-states each (the oracle of leg `k` is the
computed yield of that leg: `SysStep.yields`) -/
theorem demand_le_pool_every_leg (pc : PoolCfg) (H : Hyp env pc.w S) (hG : hasOccOf pc.w = true → CellOfInGrid env) (ok : shortfalls pc = [])
    {os : List (Oracle XTime)} {cs : List (Committed XTime)} {s : Sys} (hr : Reach env geo pc.w S needs os cs s)
    (nta : TieFreeAll pc.w cs) (fit : Fits pc env s) {k : Nat} {cm : Committed XTime} (hk : cs[k]? = some cm) :
    ∃ s0 s1 o, SysStep env geo pc.w S needs s0 o cm s1 ∧
      ∀ T, T < pc.w.n → (o.yields T).length ≤ (pc.w.tagger T).pool := by
  induction hr with
  | init s h => simp at hk
  | @step os cs s s' o cm' prev hgo hstep ih =>
    have nta0 := tieFreeAll_snoc nta
    have fit0 := fits_step_back H.ho hstep fit
    by_cases hlt : k < cs.length
    · rw [List.getElem?_append_left hlt] at hk
      exact ih nta0 fit0 hk
    · have hke : k = cs.length := by
        have := (List.getElem?_eq_some_iff.mp hk).1
        simp at this; omega
      subst hke
      simp only [List.getElem?_concat_length, Option.some.injEq] at hk
      subst hk
      exact ⟨s, s', o, hstep, fun T hT => demand_le_pool_closed pc H hG ok prev nta0 fit0 ⟨hstep.occ1, hstep.yields⟩ T hT⟩

end

/-! ## A — the four shipped coulomb_atoms wirings -/

open JF.Act.Gen JF.C09Pools.Gen

section
variable {geo : ∀ env : Env ℚ, Geo env} {needs : HandlerId → Bool}

/-- **`coulomb_atoms/cell_bounded.ini`: no run raises `TagActivatorError`** (any geometry instance; the environment has the
generated cell system `3 × 5 × 7`, occupant limit 1, two point masses, both charged: `Fits`) -/
theorem no_pool_exhausted_cell_bounded (env : Env ℚ) (ho : env.o = Ops.rat) (hG : CellOfInGrid env)
    {os : List (Oracle XTime)} {cs : List (Committed XTime)} {s : Sys}
    (hr : Reach env (geo env) cfg_coulomb_atoms_cell_bounded 7 needs os cs s) (nta : TieFreeAll cfg_coulomb_atoms_cell_bounded cs)
    (hgo : ∀ cl, cs.getLast? = some cl → cl.stop = false) (fit : Fits pool_coulomb_atoms_cell_bounded env s)
    {o : Oracle XTime} {occ' : Occ.State} (nl : NextLeg env cfg_coulomb_atoms_cell_bounded s o occ') :
    (∀ T, T < 8 → (o.yields T).length ≤ (cfg_coulomb_atoms_cell_bounded.tagger T).pool) ∧
    leg (mwire cfg_coulomb_atoms_cell_bounded 7 needs) (specI xcfg) s.med o ≠ .error .tagActivatorError :=
  ⟨demand_le_pool_closed pool_coulomb_atoms_cell_bounded (hyp_cell_bounded env ho) (fun _ => hG) shortfalls_coulomb_atoms_cell_bounded hr nta fit nl,
   no_pool_exhausted_closed pool_coulomb_atoms_cell_bounded (hyp_cell_bounded env ho) (fun _ => hG) shortfalls_coulomb_atoms_cell_bounded hr nta
    hgo fit nl⟩

/-- **`coulomb_atoms/cell_veto.ini`** -/
theorem no_pool_exhausted_cell_veto (env : Env ℚ) (ho : env.o = Ops.rat) (hG : CellOfInGrid env)
    {os : List (Oracle XTime)} {cs : List (Committed XTime)} {s : Sys}
    (hr : Reach env (geo env) cfg_coulomb_atoms_cell_veto 7 needs os cs s) (nta : TieFreeAll cfg_coulomb_atoms_cell_veto cs)
    (hgo : ∀ cl, cs.getLast? = some cl → cl.stop = false) (fit : Fits pool_coulomb_atoms_cell_veto env s)
    {o : Oracle XTime} {occ' : Occ.State} (nl : NextLeg env cfg_coulomb_atoms_cell_veto s o occ') :
    (∀ T, T < 8 → (o.yields T).length ≤ (cfg_coulomb_atoms_cell_veto.tagger T).pool) ∧
    leg (mwire cfg_coulomb_atoms_cell_veto 7 needs) (specI xcfg) s.med o ≠ .error .tagActivatorError :=
  ⟨demand_le_pool_closed pool_coulomb_atoms_cell_veto (hyp_cell_veto env ho) (fun _ => hG) shortfalls_coulomb_atoms_cell_veto hr nta fit nl,
   no_pool_exhausted_closed pool_coulomb_atoms_cell_veto (hyp_cell_veto env ho) (fun _ => hG) shortfalls_coulomb_atoms_cell_veto hr nta hgo fit nl⟩

/-- **`coulomb_atoms/power_bounded.ini`**: no internal state, no cell-boundary handler — neither a no-tie hypothesis nor
`CellOfInGrid` is needed -/
theorem no_pool_exhausted_power_bounded (env : Env ℚ) (ho : env.o = Ops.rat)
    {os : List (Oracle XTime)} {cs : List (Committed XTime)} {s : Sys}
    (hr : Reach env (geo env) cfg_coulomb_atoms_power_bounded 3 needs os cs s)
    (hgo : ∀ cl, cs.getLast? = some cl → cl.stop = false) (fit : Fits pool_coulomb_atoms_power_bounded env s)
    {o : Oracle XTime} {occ' : Occ.State} (nl : NextLeg env cfg_coulomb_atoms_power_bounded s o occ') :
    (∀ T, T < 5 → (o.yields T).length ≤ (cfg_coulomb_atoms_power_bounded.tagger T).pool) ∧
    leg (mwire cfg_coulomb_atoms_power_bounded 3 needs) (specI xcfg) s.med o ≠ .error .tagActivatorError :=
  have nta : TieFreeAll cfg_coulomb_atoms_power_bounded cs := tieFreeAll_of_no_cb (by decide) cs
  ⟨demand_le_pool_closed pool_coulomb_atoms_power_bounded (hyp_power_bounded env ho) (fun h => absurd h (by decide)) shortfalls_coulomb_atoms_power_bounded hr nta fit nl,
   no_pool_exhausted_closed pool_coulomb_atoms_power_bounded (hyp_power_bounded env ho) (fun h => absurd h (by decide)) shortfalls_coulomb_atoms_power_bounded hr nta
    hgo fit nl⟩

/-- **`coulomb_atoms/power_bounded_dump.ini`** -/
theorem no_pool_exhausted_power_bounded_dump (env : Env ℚ) (ho : env.o = Ops.rat)
    {os : List (Oracle XTime)} {cs : List (Committed XTime)} {s : Sys}
    (hr : Reach env (geo env) cfg_coulomb_atoms_power_bounded_dump 4 needs os cs s)
    (hgo : ∀ cl, cs.getLast? = some cl → cl.stop = false) (fit : Fits pool_coulomb_atoms_power_bounded_dump env s)
    {o : Oracle XTime} {occ' : Occ.State} (nl : NextLeg env cfg_coulomb_atoms_power_bounded_dump s o occ') :
    (∀ T, T < 6 → (o.yields T).length ≤ (cfg_coulomb_atoms_power_bounded_dump.tagger T).pool) ∧
    leg (mwire cfg_coulomb_atoms_power_bounded_dump 4 needs) (specI xcfg) s.med o ≠ .error .tagActivatorError :=
  have nta : TieFreeAll cfg_coulomb_atoms_power_bounded_dump cs := tieFreeAll_of_no_cb (by decide) cs
  ⟨demand_le_pool_closed pool_coulomb_atoms_power_bounded_dump (hyp_power_bounded_dump env ho) (fun h => absurd h (by decide))
    shortfalls_coulomb_atoms_power_bounded_dump hr nta fit nl,
   no_pool_exhausted_closed pool_coulomb_atoms_power_bounded_dump (hyp_power_bounded_dump env ho) (fun h => absurd h (by decide))
    shortfalls_coulomb_atoms_power_bounded_dump hr nta hgo fit nl⟩

end

/-! ## A — non-vacuity: `cell_bounded.ini` with two point masses in SystemInv's example environment

One-dimensional box, seven cells, occupant limit 1; point masses 0 and 1 at 1/14 and 9/14.  The generated `PoolCfg` of
`cell_bounded.ini` with the cell system of this environment (`pcEx`; pools and everything else as shipped) has no shortfall.  After the
first leg (start of run: unit 0 starts moving) every hypothesis of `no_pool_exhausted_closed` holds, `NextLeg` is inhabited, and the
second call of `get_event_handlers_to_run` — the commit of the start-of-run event, which creates ALL other taggers — does not raise. -/

namespace Example
open JF.SystemInv.Example JF.C10Closed.Example

def pcEx : PoolCfg := { pool_coulomb_atoms_cell_bounded with occs := [{ level := 1, grid := ⟨[7], 1⟩, cap := 1, nRel := 2 }] }
theorem okEx : shortfalls pcEx = [] := by decide +kernel

def us0' : List (PUnit ℚ) := [⟨[1/14], none, none⟩, ⟨[9/14], none, none⟩]
def occ0' : Occ.State := Occ.init 1 (unitsOf env us0')
def s0' : Sys := Sys.init cfg us0' occ0'

theorem init0' : Init env cfg s0' where
  med := rfl
  wf := by intro u hu; simp [s0', Sys.init, us0'] at hu; rcases hu with rfl | rfl <;> simp [WFU, env]
  box := by
    intro u hu; simp [s0', Sys.init, us0'] at hu
    rcases hu with rfl | rfl <;> norm_num [InBox, env, C11.Grid.L, g7]
  rest := by intro u hu; simp [s0', Sys.init, us0'] at hu; rcases hu with rfl | rfl <;> rfl
  occId := (init_active _ _).1
  occCell := (init_active _ _).2
  occInit := ⟨1, rfl⟩
  prev := rfl

theorem fit0' : Fits pcEx env s0' :=
  ⟨rfl, rfl, fun _ => ⟨_, rfl, rfl, by decide +kernel, by decide +kernel⟩⟩

/-- the very first call does not raise, whatever the candidate times -/
example (cand : HandlerId → XTime) :
    leg M (specI xcfg) s0'.med (mkO s0'.us occ0' cand) ≠ .error .tagActivatorError :=
  no_pool_exhausted_closed pcEx hyp (fun _ => inGrid) okEx (geo := geo) (.init s0' init0') (fun _ _ hk _ => by simp at hk) (by simp) fit0'
    ⟨rfl, rfl⟩

theorem h1' : (leg M (specI xcfg) s0'.med (mkO s0'.us occ0' cand1)).toOption.isSome = true := by decide +kernel
def us1' : List (PUnit ℚ) := Kin.step Ops.rat env.L us0' (.start ⟨0, 0⟩ 0 [1])
def s1' : Sys := nextS s0' _ h1' us1' occ0'
def c1' : Committed XTime := (legR s0' _ h1').2

theorem step1' : SysStep env geo cfg 7 needs s0' (mkO s0'.us occ0' cand1) c1' s1' := by
  refine step_of s0' occ0' cand1 h1' us1' rfl ?_ ⟨⟨0, 0⟩, by decide +kernel, ?_⟩
  · have hcr : (legR s0' _ h1').2.created = [(7, none)] := by decide +kernel
    rw [hcr]
    intro q hq
    simp only [List.mem_singleton] at hq
    subst hq
    refine ⟨fun h => absurd h (by decide), fun _ => ⟨normT 0 0 (by norm_num) (by norm_num), by decide +kernel⟩⟩
  · have hk : kindOfH cfg (legR s0' _ h1').2.handler = .startOfRun := by decide +kernel
    rw [hk]
    exact Or.inl ⟨.start ⟨0, 0⟩ 0 [1], rfl, rfl, ⟨by decide, velOK1, init0'.rest⟩, rfl⟩

theorem reach1' : Reach env geo cfg 7 needs ([] ++ [mkO s0'.us occ0' cand1]) ([] ++ [c1']) s1' :=
  .step (.init s0' init0') (by simp) step1'

theorem tieFreeAll1' : TieFreeAll cfg ([] ++ [c1']) := by
  intro k cm hk hq hb hkb
  have := cb_handler hkb
  subst this
  have hk1 : k < 1 := (List.getElem?_eq_some_iff.mp hk).1
  have : k = 0 := by omega
  subst this
  simp only [List.nil_append, List.getElem?_cons_zero, Option.some.injEq] at hk
  subst hk
  decide +kernel

theorem fit1' : Fits pcEx env s1' := fits_step rfl step1' fit0'

/-- the occupancy the second call works with: unit 0 has become the active unit of cell 0 -/
def occ1' : Occ.State := (occAfter env (hasOccOf cfg) s1'.occ s1'.us).get (by decide +kernel)
theorem next1' (cand : HandlerId → XTime) : NextLeg env cfg s1' (mkO s1'.us occ1' cand) occ1' :=
  ⟨hoccS s1' (by decide +kernel) _, rfl⟩

/-- **the commit of the start-of-run event creates every other tagger and does not raise**, whatever the candidate times; the
cell-bounding tagger (pool 1) is asked for exactly one in-state — `(0, 1)`: unit 1 sits in the non-nearby cell 4 — the bound is attained -/
example (cand : HandlerId → XTime) :
    leg M (specI xcfg) s1'.med (mkO s1'.us occ1' cand) ≠ .error .tagActivatorError :=
  no_pool_exhausted_closed pcEx hyp (fun _ => inGrid) okEx reach1' tieFreeAll1' (by intro cl hl; simp at hl; subst hl; decide +kernel) fit1'
    (next1' cand)
example : (mkO s1'.us occ1' cand1).yields 0 = [some [[0], [1]]] ∧ (cfg.tagger 0).pool = 1 ∧ demandBound pcEx 0 = 1 := by
  decide +kernel

end Example

end JF.C09Pools.Closed

/-! # B. composite objects without cells (`JF.Sys2.Reach2`), activation-aware -/

namespace JF.C09Pools.Closed2
open JF JF.Act JF.Heap JF.Sched JF.Med JF.CW2 JF.C14 JF.MediatorLoop JF.Sys JF.Sys2 JF.Composite JF.C12 JF.SystemInv2 JF.C09Pools

section
variable {env : CW2.Env ℚ} {mw : ModeWiring} {S : TaggerIdx} {needs : HandlerId → Bool}

theorem supported2_clsOK {mw : ModeWiring} (hs : Supported2 mw = true) {T : TaggerIdx} (hT : T < mw.w.n) :
    CW2.clsOK (mw.w.tagger T).cls = true := by
  unfold Supported2 at hs
  simp only [Bool.and_eq_true] at hs
  have := List.all_eq_true.mp hs.1.2 (mw.w.tagger T) (by
    unfold Wiring.tagger
    rw [List.getElem?_eq_getElem hT]
    exact List.getElem_mem hT)
  simp only [Bool.and_eq_true] at this
  exact this.1

/-- **the activation flags in the middle of the NEXT leg are a reachable activation state** of the wiring (so that the decidable
conditions over `reach` — `WiringSound`, `ModeSound`, `selSound` — speak about them) -/
theorem next_flags_reach (H : Hyp2 env mw S) {cs : List (Committed XTime)} {cl : Committed XTime} {s : Sys2} {E : TaggerIdx}
    {tl : Time ℚ} {sq : ℚ} (big : Big2 env mw S needs cs cl s E tl sq) (hgo : cl.stop = false) :
    E < mw.w.n ∧ aStep mw.w (absOf s.mid) E ∈ reach mw.w S := by
  have sound' := H.sound
  unfold WiringSound at sound'
  rw [H.hS] at sound'
  simp only [Bool.and_eq_true] at sound'
  obtain ⟨⟨⟨hwf, _⟩, hclosed⟩, _⟩ := sound'
  obtain ⟨hSn, hSk, hSu⟩ := start_spec H.hS
  obtain ⟨hi, hph⟩ := big.phase
  rcases hph with ⟨_, hES, _, _, ids0, out, hfirst, _⟩ | ⟨h, hrunK⟩
  · subst hES
    refine ⟨hSn, ?_⟩
    rw [absOf_first mw.w hfirst]
    exact mem_reachFrom_of_mem mw.w (fuel mw.w) (List.mem_singleton.mpr rfl)
  · have hrun := hrunK.toRun
    have ih := Act.run_inv mw.w (world2 env mw) (Tr2 env mw) S H.sound H.hS (hyp2_fps H) (liveIs2 env mw) hrun
    have hpending : (getT s.mid E).running ≠ [] := List.ne_nil_of_mem big.running
    have hend : (mw.w.tagger E).kind ≠ .endOfRun := by
      have := big.stopEq
      rw [hgo] at this
      have h2 : (mwire mw.w S needs).endOfRun cl.handler = ((mw.w.tagger E).kind == .endOfRun) := by
        show (match owner mw.w.wires cl.handler with
          | some E => (mw.w.tagger E).kind == HandlerKind.endOfRun
          | none => false) = _
        rw [big.owner]
      rw [h2] at this
      intro hk; rw [hk] at this; simp at this
    have hEn : E < mw.w.n := by rw [← mw.w.wires_length]; exact owner_lt big.owner
    have hEk : (mw.w.tagger E).kind ≠ .startOfRun := by
      intro hk
      have := hSu E hEn hk
      subst this
      exact hpending ih.startIdle
    have hEl : (world2 env mw).live E := (liveIs2 env mw E).mpr ⟨hEn, hEk⟩
    have hEa : aGet (absOf s.mid) E = true := by
      rw [aGet_absOf]
      cases ha : (getT s.mid E).activated
      · exact absurd (fresh_nil_of_deactivated (ih.fresh E hEl) ha) hpending
      · rfl
    have hcan : canCommit mw.w (absOf s.mid) E = true := by
      unfold canCommit
      simp only [hEa, Bool.true_and, Bool.and_eq_true, bne_iff_ne, ne_eq]
      exact ⟨hEk, hend⟩
    exact ⟨hEn, closed_step hclosed ih.reach hEn hcan⟩

/-- **B1 — demand ≤ pool along `Reach2`, activation-aware, NO demand hypothesis.**  After every leg of every run (that did not end
the run), on the global state the NEXT call of `get_event_handlers_to_run` sees (`s.cs`), every tagger that is ACTIVATED in the
activation flags of that call (`aStep mw.w (absOf s.mid) E`: the flags in the middle of the last leg after the activate / deactivate
lists of the committing tagger `E`) yields at most as many in-states as its pool holds.  The mode of the flags bounds which factor
taggers are activated (`selSound`, decidable), the one-chain clause of the joint invariant (`Big2.chain`) says that the state IS a
one-chain state of that mode. -/
theorem demand_le_pool_closed2 (pc : PoolCfg) (H : Hyp2 env mw S) (hw : pc.w = mw.w) (ok : shortfalls pc = [])
    (hsel : selSound mw pc S = true) {os : List (Oracle XTime)} {cs : List (Committed XTime)} {s : Sys2}
    (hr : Reach2 env mw S needs os cs s) {cl : Committed XTime} (hl : cs.getLast? = some cl) (hgo : cl.stop = false)
    (fit : Fits2 pc env s.cs) :
    ∃ E, owner mw.w.wires cl.handler = some E ∧
      ∀ T, T < mw.w.n → aGet (aStep mw.w (absOf s.mid) E) T = true →
        (CW2.yieldCls env T (mw.w.tagger T).cls s.cs).length ≤ (mw.w.tagger T).pool := by
  obtain ⟨E, tl, sq, big⟩ := jinv_big2 (joint_inv2 H hr) hl
  refine ⟨E, big.owner, fun T hT ha => ?_⟩
  obtain ⟨_, hσ⟩ := next_flags_reach H big hgo
  obtain ⟨m, hc, hm⟩ := big.chain
  have hm' := hm hgo
  have hs := selSound_spec hsel hσ hT ha
  have hcls : CW2.clsOK (mw.w.tagger T).cls = true := supported2_clsOK H.sup hT
  have hb := yield2_le_demandBound pc env s.cs fit big.good big.unif hc T (by rw [hw]; exact hcls)
    ⟨fun h0 => by rw [hm', hs.1 h0]; rfl, fun h1 => by rw [hm', hs.2 h1]; rfl⟩
  have hp := pool_ge_of_no_shortfall ok (T := T) (by rw [hw]; exact hT)
  rw [hw] at hb hp
  exact Nat.le_trans hb hp

/-- **B2 — the next pass of `SingleProcessMediator.run` does not raise `TagActivatorError`** along `Reach2` (after at least one
leg; the leg is not assumed to succeed, the candidate times are arbitrary): activation-aware, no demand hypothesis -/
theorem no_pool_exhausted_closed2 (pc : PoolCfg) (H : Hyp2 env mw S) (hw : pc.w = mw.w) (ok : shortfalls pc = [])
    (hsel : selSound mw pc S = true) {os : List (Oracle XTime)} {cs : List (Committed XTime)} {s : Sys2}
    (hr : Reach2 env mw S needs os cs s) {cl : Committed XTime} (hl : cs.getLast? = some cl) (hgo : cl.stop = false)
    (fit : Fits2 pc env s.cs) {o : Oracle XTime}
    (hy : o.yields = fun T => CW2.yieldCls env T (mw.w.tagger T).cls s.cs) :
    leg (mwire mw.w S needs) (specI xcfg) s.med o ≠ .error .tagActivatorError := by
  intro herr
  obtain ⟨E', hE', hdem⟩ := demand_le_pool_closed2 pc H hw ok hsel hr hl hgo fit
  obtain ⟨E, tl, sq, big⟩ := jinv_big2 (joint_inv2 H hr) hl
  have hEE : E' = E := by rw [big.owner] at hE'; exact (Option.some.inj hE').symm
  subst hEE
  have hte := leg_tagErr herr
  rw [big.prec] at hte
  have hu : update mw.w.wires s.med.act.ts E' o.yields = none := getToRun_started_tagErr big.started big.owner hte
  have sound' := H.sound
  unfold WiringSound at sound'
  rw [H.hS] at sound'
  simp only [Bool.and_eq_true] at sound'
  obtain ⟨⟨⟨hwf, _⟩, _⟩, _⟩ := sound'
  have st := static_of_wfStatic hwf
  have hend : (mw.w.tagger E').kind ≠ .endOfRun := by
    have := big.stopEq
    rw [hgo] at this
    have h2 : (mwire mw.w S needs).endOfRun cl.handler = ((mw.w.tagger E').kind == .endOfRun) := by
      show (match owner mw.w.wires cl.handler with
        | some E => (mw.w.tagger E).kind == HandlerKind.endOfRun
        | none => false) = _
      rw [big.owner]
    rw [h2] at this
    intro hk; rw [hk] at this; simp at this
  obtain ⟨m, hc, hm⟩ := big.chain
  have hi' : Inv env ⟨s.cs, ofW (mw.mode (aStep mw.w (absOf s.mid) E'))⟩ :=
    ⟨big.good, big.unif, Or.inr ⟨sq, by rw [← hm hgo]; exact hc⟩⟩
  obtain ⟨hi, hph⟩ := big.phase
  have hyW : (fun T => (world2 env mw).yieldOf T ⟨_, hi'⟩) = o.yields := by rw [hy]; rfl
  have hsome : (commit mw.w.wires (world2 env mw) ⟨s.mid, s.ids, ⟨_, hi⟩⟩ E' ⟨_, hi'⟩).isSome = true := by
    rcases hph with ⟨_, hES, _, _, ids0, out, hfirst, _⟩ | ⟨h, hrunK⟩
    · subst hES
      refine start_commit_isSome_act mw.w (world2 env mw) E' H.sound H.hS hfirst s.ids _ _ ?_
      intro T hT ha
      exact hdem T (st.creates_lt E' T hT) ha
    · refine run_next_commit_isSome_act mw.w (world2 env mw) (Tr2 env mw) S H.sound H.hS (hyp2_fps H) (liveIs2 env mw)
        hrunK.toRun (List.ne_nil_of_mem big.running) hend ?_
      intro T hT ha
      exact hdem T (st.creates_lt E' T hT) ha
  have := update_isSome_of_commit hsome
  rw [hyW, ← big.trashEq, hu] at this
  cases this

end

end JF.C09Pools.Closed2

/-! ## B — `dipoles/dipole_motion.ini` (mode switcher) and the other shipped wirings of this world -/

namespace JF.C09Pools.Closed2
open JF JF.Act JF.Act.Gen JF.Heap JF.Sched JF.Med JF.CW2 JF.C14 JF.MediatorLoop JF.Sys JF.Sys2 JF.Composite JF.C12 JF.SystemInv2
  JF.C09Pools JF.C09Pools.Gen

/-- the activation-aware link holds for the shipped wirings of this world: in `dipole_motion.ini` the leaf-mode factor taggers
(`harmonic_leaf`, `coulomb_leaf`, `repulsive_leaf`: `sel = 0`) are activated only in the leaf-mode activation state, the root-mode ones
(`coulomb_root`, `repulsive_root`: `sel = 1`) only in the root-mode one -/
theorem selSound_dipole_motion : selSound mcfg_dipoles_dipole_motion pool_dipoles_dipole_motion 10 = true := by decide +kernel

/-- … and it is not trivially true: if `repulsive_leaf` (pool 1; it would yield 2 in-states on a root-mode state) were asked in
both modes, or if `root_to_leaf` did not deactivate `repulsive_root`, the condition fails -/
example : selSound mcfg_dipoles_dipole_motion { pool_dipoles_dipole_motion with sel := [0, 0, 1, 1, 1, 2, 2, 2, 2, 2, 2] } 10 = false := by
  decide +kernel

theorem hyp2_dipole_motion (env : CW2.Env ℚ) (hL : BoxOK env.d env.L) : Hyp2 env mcfg_dipoles_dipole_motion 10 :=
  ⟨hL, cfg_sound_dipoles_dipole_motion, by decide, by decide, modeSound_dipoles_dipole_motion⟩

/-- **B for `dipoles/dipole_motion.ini`**: along every run, after every leg that did not end the run, every tagger that is ACTIVATED
in the next call of `get_event_handlers_to_run` yields at most `pool` in-states on the state that call sees — in particular
`repulsive_leaf` (pool 1) is never asked on a root-mode state, where it would yield 2 -/
theorem demand_le_pool_dipole_motion (env : CW2.Env ℚ) (hL : BoxOK env.d env.L) {needs : HandlerId → Bool}
    {os : List (Oracle XTime)} {cs : List (Committed XTime)} {s : Sys2}
    (hr : Reach2 env mcfg_dipoles_dipole_motion 10 needs os cs s) {cl : Committed XTime} (hl : cs.getLast? = some cl)
    (hgo : cl.stop = false) (fit : Fits2 pool_dipoles_dipole_motion env s.cs) :
    ∃ E, owner mcfg_dipoles_dipole_motion.w.wires cl.handler = some E ∧
      ∀ T, T < 11 → aGet (aStep mcfg_dipoles_dipole_motion.w (absOf s.mid) E) T = true →
        (CW2.yieldCls env T (mcfg_dipoles_dipole_motion.w.tagger T).cls s.cs).length ≤
          (mcfg_dipoles_dipole_motion.w.tagger T).pool :=
  demand_le_pool_closed2 pool_dipoles_dipole_motion (hyp2_dipole_motion env hL) rfl shortfalls_dipoles_dipole_motion
    selSound_dipole_motion hr hl hgo fit

/-- **… hence no run of `dipole_motion.ini` leaves the loop with `TagActivatorError`** at any pass after the first -/
theorem no_pool_exhausted_dipole_motion (env : CW2.Env ℚ) (hL : BoxOK env.d env.L) {needs : HandlerId → Bool}
    {os : List (Oracle XTime)} {cs : List (Committed XTime)} {s : Sys2}
    (hr : Reach2 env mcfg_dipoles_dipole_motion 10 needs os cs s) {cl : Committed XTime} (hl : cs.getLast? = some cl)
    (hgo : cl.stop = false) (fit : Fits2 pool_dipoles_dipole_motion env s.cs) {o : Oracle XTime}
    (hy : o.yields = fun T => CW2.yieldCls env T (mcfg_dipoles_dipole_motion.w.tagger T).cls s.cs) :
    leg (mwire mcfg_dipoles_dipole_motion.w 10 needs) (specI xcfg) s.med o ≠ .error .tagActivatorError :=
  no_pool_exhausted_closed2 pool_dipoles_dipole_motion (hyp2_dipole_motion env hL) rfl shortfalls_dipoles_dipole_motion
    selSound_dipole_motion hr hl hgo fit hy

/-- `Fits2` is satisfiable for the generated data of `dipole_motion.ini`: two dipoles, the factor maps of the shipped factor file -/
example : Fits2 pool_dipoles_dipole_motion
    ⟨[1], 1, 2, pool_dipoles_dipole_motion.fs, pool_dipoles_dipole_motion.ftypeOf⟩
    [⟨⟨[0], none, none⟩, [⟨[0], none, none⟩, ⟨[0], none, none⟩]⟩, ⟨⟨[0], none, none⟩, [⟨[0], none, none⟩, ⟨[0], none, none⟩]⟩] :=
  ⟨rfl, by decide, rfl, rfl, fun _ => rfl⟩

end JF.C09Pools.Closed2
