import JF.Model.Thinning
import JF.Lemmas.PyArith
/-! # C04 — thinning is sound (placeholder, being filled) -/
namespace JF.C04
open JF JF.Thin

theorem confirmLeaf_false_of_nonpos (q d : ℚ) (h : q ≤ 0) : confirmLeaf Ops.rat q d = false := by
  have : ¬ ((0:ℚ) < q) := not_lt.mpr h
  simp [confirmLeaf, Ops.rat, this]

end JF.C04
