import JF.Model.Thinning
import Mathlib.MeasureTheory.Measure.Lebesgue.Basic
import Mathlib.Tactic.Linarith
import Mathlib.Tactic.Ring
import Mathlib.Tactic.Positivity
import Mathlib.Tactic.FieldSimp
import Mathlib.Algebra.Order.Field.Basic
import Mathlib.Order.Interval.Set.Basic
import Mathlib.Algebra.BigOperators.Group.List.Basic
/-!
# C04 — Thinning is sound: the bounding rate dominates and acceptance is the exact ratio

Theorems about the model `JF.Model.Thinning` (the model is tied to /repo by the correspondence run of
`harness/props/c04.py`, bit for bit, for all six handlers that confirm events against a bounding rate).

* Part A (kernel, exact reading `α = ℚ`): what the comparisons of the handlers accept; the accepting draws form the
  interval `[0, max(0,q)/b)`; thinned-rate identity; the summed bound dominates.
* Part B (handlers, **every scalar type and every `Ops`**, so also binary64): `send_out_state` confirms exactly
  when the kernel comparison says so, an unconfirmed event returns the proposal state unchanged (all velocities,
  time stamps, positions, identifiers), the warning is a flag and never changes the outcome.
* Part C (exact reading): the two combined: with a dominating bound, P(confirm) = max(0,q)/b.
* Part D: the scaled 1/r bound: sign, and the reduction of "every charge sign, every separation of the
  minimum-image cube, every direction" to the hypothesis `Dominates` on the positive half for unit charges.

`Dominates` itself (a supremum of a transcendental ratio with margin 1e-4) is a HYPOTHESIS: it is not proved
here; the check searches for a failing input numerically on the compiled C routines.
-/
namespace JF.C04
open JF JF.Thin MeasureTheory

/-! ## Part A — the decision kernel, exact reading -/


@[simp] theorem rat0 : Ops.rat.ofInt 0 = (0:ℚ) := by simp [Ops.rat]
theorem confirmLeaf_iff (q d : ℚ) : confirmLeaf Ops.rat q d = true ↔ 0 < q ∧ d < q := by
  simp [confirmLeaf]
theorem confirmComposite_iff (e d : ℚ) : confirmComposite e d = true ↔ d < e := by
  simp [confirmComposite]
theorem pymax0_eq (x : ℚ) : pymax0 Ops.rat x = max 0 x := by
  unfold pymax0; simp only [rat0]
  split
  · next h => exact (max_eq_right h.le).symm
  · next h => exact (max_eq_left (not_lt.mp h)).symm
theorem pyUniform_rat (b r : ℚ) : pyUniform (Ops.rat.ofInt 0) b r = b * r := by
  simp [pyUniform]

/-- for non-negative draws the two ways the handlers write the comparison accept the same draws:
exactly those below `max 0 q` -/
theorem accept_iff_lt_max (q d : ℚ) (hd : 0 ≤ d) :
    (confirmLeaf Ops.rat q d = true ↔ d < max 0 q) ∧
    (confirmComposite (pymax0 Ops.rat q) d = true ↔ d < max 0 q) := by
  rw [confirmLeaf_iff, confirmComposite_iff, pymax0_eq]
  refine ⟨⟨fun ⟨_, h⟩ => lt_max_of_lt_right h, fun h => ?_⟩, Iff.rfl⟩
  rcases lt_max_iff.mp h with h | h
  · exact absurd h (not_lt.mpr hd)
  · exact ⟨lt_of_le_of_lt hd h, h⟩

/-- the accepting values of `random()` form the interval `[0, max(0,q)/b)` -/
theorem accept_unit_iff (b q r : ℚ) (hb : 0 < b) (hr : 0 ≤ r) :
    confirmLeaf Ops.rat q (pyUniform (Ops.rat.ofInt 0) b r) = true ↔ r < max 0 q / b := by
  rw [pyUniform_rat, (accept_iff_lt_max q (b * r) (mul_nonneg hb.le hr)).1, lt_div_iff₀ hb, mul_comm]

theorem accept_set (b q : ℚ) (hb : 0 < b) (hq : q ≤ b) :
    {r : ℚ | 0 ≤ r ∧ r < 1 ∧ confirmLeaf Ops.rat q (pyUniform (Ops.rat.ofInt 0) b r) = true}
      = Set.Ico 0 (max 0 q / b) ∧ 0 ≤ max 0 q / b ∧ max 0 q / b ≤ 1 := by
  have h1 : max 0 q / b ≤ 1 := by
    rw [div_le_one hb]; exact max_le hb.le hq
  refine ⟨?_, div_nonneg (le_max_left _ _) hb.le, h1⟩
  ext r
  simp only [Set.mem_ofPred_eq, Set.mem_Ico]
  constructor
  · rintro ⟨h0, _, h⟩; exact ⟨h0, (accept_unit_iff b q r hb h0).mp h⟩
  · rintro ⟨h0, h⟩; exact ⟨h0, lt_of_lt_of_le h h1, (accept_unit_iff b q r hb h0).mpr h⟩

theorem thinned_rate (b q : ℚ) (hb : 0 < b) : b * (max 0 q / b) = max 0 q := by
  field_simp

theorem summedBound_eq (bds : List ℚ) : summedBound Ops.rat bds = (bds.map (max 0)).sum := by
  unfold summedBound
  have : ∀ (l : List ℚ) (a : ℚ), l.foldl (fun acc bd => acc + pymax0 Ops.rat bd) a = a + (l.map (max 0)).sum := by
    intro l; induction l with
    | nil => intro a; simp
    | cons x xs ih => intro a; rw [List.foldl_cons, ih, pymax0_eq, List.map_cons, List.sum_cons]; ring
  rw [this]; simp

theorem factorDerivative_eq (qs : List ℚ) : factorDerivative Ops.rat qs = qs.sum := by
  unfold factorDerivative
  have : ∀ (l : List ℚ) (a : ℚ), l.foldl (fun acc q => acc + q) a = a + l.sum := by
    intro l; induction l with
    | nil => intro a; simp
    | cons x xs ih => intro a; simp only [List.foldl_cons, List.sum_cons, ih]; ring
  rw [this]; simp

theorem summed_dominates (qs bds : List ℚ) (h : List.Forall₂ (· ≤ ·) qs bds) :
    pymax0 Ops.rat (factorDerivative Ops.rat qs) ≤ summedBound Ops.rat bds := by
  rw [pymax0_eq, summedBound_eq, factorDerivative_eq]
  induction h with
  | nil => simp
  | cons hab _ ih =>
    simp only [List.sum_cons, List.map_cons]
    rename_i a b l₁ l₂ _
    have h0 : (0:ℚ) ≤ (l₂.map (max 0)).sum := le_trans (le_max_left _ _) ih
    have h1 : l₁.sum ≤ (l₂.map (max 0)).sum := le_trans (le_max_right _ _) ih
    have h2 : a ≤ max 0 b := le_trans hab (le_max_right _ _)
    have h3 : (0:ℚ) ≤ max 0 b := le_max_left _ _
    apply max_le <;> linarith


/-! ### the probability statement proper (real reading, Lebesgue measure on `random()` ∈ [0,1)) -/

/-- an `Ops ℝ` for the real reading (only the literal `ofInt` is used by the comparisons) -/
noncomputable def Ops.real0 : Ops ℝ where
  ofInt n := (n : ℝ)
  floor x := (⌊x⌋ : ℝ)
  fmod x _ := x
  toInt x := ⌊x⌋
  isInf _ := false
  zeroLike _ := 0
  sqrt x := x

/-- **The acceptance probability is exactly the ratio.**  Real reading of the comparison the handlers make
(`α = ℝ`, any `Ops ℝ` whose literal `0` is `0`): if `random()` is uniform on `[0,1)` (Lebesgue measure), the set of
values for which `random.uniform(0, b) < q` confirms the event has measure `max(0,q)/b`, for every bound `b > 0`
that dominates `q`. -/
theorem accept_probability (o : Ops ℝ) (ho : o.ofInt 0 = 0) (b q : ℝ) (hb : 0 < b) (hq : q ≤ b) :
    volume {r : ℝ | r ∈ Set.Ico (0:ℝ) 1 ∧ confirmLeaf o q (pyUniform (o.ofInt 0) b r) = true}
      = ENNReal.ofReal (max 0 q / b) := by
  have hset : {r : ℝ | r ∈ Set.Ico (0:ℝ) 1 ∧ confirmLeaf o q (pyUniform (o.ofInt 0) b r) = true}
      = Set.Ico 0 (max 0 q / b) := by
    ext r
    simp only [Set.mem_ofPred_eq, Set.mem_Ico, confirmLeaf, pyUniform, ho, zero_add, sub_zero, Bool.and_eq_true,
      decide_eq_true_eq]
    have h1 : max 0 q / b ≤ 1 := by rw [div_le_one hb]; exact max_le hb.le hq
    constructor
    · rintro ⟨⟨h0, _⟩, hq0, hlt⟩
      refine ⟨h0, ?_⟩
      rw [lt_div_iff₀ hb, mul_comm]
      exact lt_of_lt_of_le hlt (le_max_right _ _)
    · rintro ⟨h0, hlt⟩
      rw [lt_div_iff₀ hb, mul_comm] at hlt
      have hbr : 0 ≤ b * r := mul_nonneg hb.le h0
      have hq0 : 0 < q := by
        rcases lt_max_iff.mp hlt with h | h
        · exact absurd h (not_lt.mpr hbr)
        · exact lt_of_le_of_lt hbr h
      refine ⟨⟨h0, ?_⟩, hq0, ?_⟩
      · have : b * r < b * 1 := by
          rw [mul_one]; exact lt_of_lt_of_le hlt (max_le hb.le hq)
        exact lt_of_mul_lt_mul_left this hb.le
      · rwa [max_eq_right hq0.le] at hlt
  rw [hset, Real.volume_Ico, sub_zero]

/-- the same for the comparison of the composite-object handlers, `event_rate <= uniform(0.0, B)` rejects, with
`event_rate = max(0.0, Σ q_i)` -/
theorem accept_probability_composite (o : Ops ℝ) (ho : o.ofInt 0 = 0) (B fd : ℝ) (hB : 0 < B)
    (hE : max 0 fd ≤ B) :
    volume {r : ℝ | r ∈ Set.Ico (0:ℝ) 1 ∧ confirmComposite (pymax0 o fd) (pyUniform (o.ofInt 0) B r) = true}
      = ENNReal.ofReal (max 0 fd / B) := by
  have hmax : pymax0 o fd = max 0 fd := by
    unfold pymax0; rw [ho]
    split
    · next h => exact (max_eq_right h.le).symm
    · next h => exact (max_eq_left (not_lt.mp h)).symm
  have hset : {r : ℝ | r ∈ Set.Ico (0:ℝ) 1 ∧ confirmComposite (pymax0 o fd) (pyUniform (o.ofInt 0) B r) = true}
      = Set.Ico 0 (max 0 fd / B) := by
    ext r
    simp only [Set.mem_ofPred_eq, Set.mem_Ico, confirmComposite, pyUniform, ho, zero_add, sub_zero, hmax,
      Bool.not_eq_true', decide_eq_false_iff_not, not_le]
    constructor
    · rintro ⟨⟨h0, _⟩, hlt⟩
      exact ⟨h0, by rw [lt_div_iff₀ hB, mul_comm]; exact hlt⟩
    · rintro ⟨h0, hlt⟩
      rw [lt_div_iff₀ hB, mul_comm] at hlt
      refine ⟨⟨h0, ?_⟩, hlt⟩
      have : B * r < B * 1 := by rw [mul_one]; exact lt_of_lt_of_le hlt hE
      exact lt_of_mul_lt_mul_left this hB.le
  rw [hset, Real.volume_Ico, sub_zero]


/-! ## Part B — the handlers, for every scalar type (in particular binary64) -/


section generic
variable {α : Type} [Add α] [Sub α] [Mul α] [Div α] [Neg α] [LT α] [DecidableLT α] [LE α] [DecidableLE α] [BEq α]

omit [Div α] [LE α] [DecidableLE α] in
theorem calcLeaf_spec (o : Ops α) (c : Consts α) (et : Time α) (st : List (CNode α)) (ai : Nat) (b q draw : α)
    (calls : List (Call α)) {st' cf w cs ins u}
    (h : calcLeaf o c et st ai b q draw calls = .out st' cf w cs ins u) :
    cf = confirmLeaf o q draw ∧ (cf = false → st' = st) ∧ w = warns o b q ∧ ins = []
      ∧ (u = if o.ofInt 0 < q then some b else none) := by
  simp only [calcLeaf] at h
  simp only [confirmLeaf, warns]
  iterate 6 (all_goals (try split at h))
  all_goals (try cases h)
  all_goals simp_all [warns]

/-- no proposal: the cell-veto handler found the target cell empty -/
def noProposal (vk kind : Nat) (target : Option (CNode α)) : Prop := kind = vk ∧ target = none

omit [LE α] [DecidableLE α] in
theorem sendLeaf_spec (o : Ops α) (c : Consts α) (kind : Nat) (uc : Bool) (et : Time α) (st : List (CNode α))
    (target : Option (CNode α)) (g : Bool) (b q : α) (dr : Draw α) {st' cf w cs ins u}
    (h : sendLeaf o c kind uc et st target g b q dr = .out st' cf w cs ins u) :
    (noProposal 3 kind target → cf = false ∧ st' = st ∧ u = none) ∧
    (¬ noProposal 3 kind target →
        cf = confirmLeaf o q (dr.get o b) ∧ (cf = false → st' = proposalState 3 kind st target)
        ∧ w = warns o b q ∧ (u = if o.ofInt 0 < q then some b else none)) := by
  simp only [sendLeaf] at h
  split at h
  · cases h
  · split at h
    · next hk =>
      cases h
      simp only [Bool.and_eq_true, beq_iff_eq, Option.isNone_iff_eq_none] at hk
      exact ⟨fun _ => ⟨rfl, rfl, rfl⟩, fun hn => absurd hk hn⟩
    · next hk =>
      simp only [Bool.and_eq_true, beq_iff_eq, Option.isNone_iff_eq_none] at hk
      refine ⟨fun hn => absurd hn hk, fun _ => ?_⟩
      split at h
      · cases h
      · split at h
        · have := calcLeaf_spec _ _ _ _ _ _ _ _ _ h
          exact ⟨this.1, this.2.1, this.2.2.1, this.2.2.2.2⟩
        · cases h

omit [Div α] in
theorem calcComposite_spec (o : Ops α) (c : Consts α) (kind : Nat) (et : Time α) (st : List (CNode α)) (ai : Nat)
    (au : LUnit α) (locals targets : List (LUnit α)) (bound fd draw : α) (qs : List α) (pairs : List (List α))
    (nextId : List Nat) (calls flCalls : List (Call α)) {st' cf w cs ins u}
    (h : calcComposite o c kind et st ai au locals targets bound fd draw qs pairs nextId calls flCalls
          = .out st' cf w cs ins u) :
    cf = confirmComposite (pymax0 o fd) draw ∧ (cf = false → st' = st ∧ ins = [])
      ∧ w = warns o bound (pymax0 o fd) ∧ u = some bound ∧ (kind ≠ 4 → o.ofInt 0 ≤ bound) := by
  simp only [calcComposite] at h
  iterate 6 (all_goals (try split at h))
  all_goals (try cases h)
  all_goals simp_all

theorem sendComposite_spec (o : Ops α) (c : Consts α) (kind : Nat) (uc : Bool) (et : Time α) (st : List (CNode α))
    (target : Option (CNode α)) (g : Bool) (b : α) (bds qs : List α) (pairs : List (List α)) (dr : Draw α)
    (nextId : List Nat) {st' cf w cs ins u}
    (h : sendComposite o c kind uc et st target g b bds qs pairs dr nextId = .out st' cf w cs ins u) :
    (noProposal 6 kind target → cf = false ∧ st' = st ∧ u = none) ∧
    (¬ noProposal 6 kind target →
        cf = confirmComposite (pymax0 o (factorDerivative o qs)) (dr.get o (compositeBound o kind b bds))
        ∧ (cf = false → st' = proposalState 6 kind st target ∧ ins = [])
        ∧ w = warns o (compositeBound o kind b bds) (pymax0 o (factorDerivative o qs))
        ∧ u = some (compositeBound o kind b bds)
        ∧ (kind ≠ 4 → o.ofInt 0 ≤ compositeBound o kind b bds)) := by
  simp only [sendComposite] at h
  split at h
  · cases h
  · split at h
    · next hk =>
      cases h
      simp only [Bool.and_eq_true, beq_iff_eq, Option.isNone_iff_eq_none] at hk
      exact ⟨fun _ => ⟨rfl, rfl, rfl⟩, fun hn => absurd hk hn⟩
    · next hk =>
      simp only [Bool.and_eq_true, beq_iff_eq, Option.isNone_iff_eq_none] at hk
      refine ⟨fun hn => absurd hn hk, fun _ => ?_⟩
      split at h
      · cases h
      · split at h
        · exact calcComposite_spec _ _ _ _ _ _ _ _ _ _ _ _ _ _ _ _ _ h
        · cases h

end generic

/-! ## Part C — handlers in the exact reading: the acceptance probability is the exact ratio -/

theorem draw_unit_rat (b r : ℚ) : (Draw.unit r).get Ops.rat b = b * r := by
  simp [Draw.get, pyUniform]

/-- **Two-leaf-unit handlers (kinds 1–3).**  A proposal with bounding rate `b > 0` and true derivative `q ≤ b`,
decided with `random() = r ∈ [0,1)`:
the event is confirmed iff `r < max(0,q)/b` (so with probability exactly `max(0,q)/b ∈ [0,1]`), an unconfirmed
event returns the proposal state unchanged, and no warning is logged. -/
theorem leaf_thinning_exact (c : Consts ℚ) (kind : Nat) (uc : Bool) (et : Time ℚ) (st : List (CNode ℚ))
    (target : Option (CNode ℚ)) (g : Bool) (b q r : ℚ) (hb : 0 < b) (hq : q ≤ b) (hr : 0 ≤ r)
    (hp : ¬ noProposal 3 kind target) {st' cf w cs ins u}
    (h : sendLeaf Ops.rat c kind uc et st target g b q (.unit r) = .out st' cf w cs ins u) :
    (cf = true ↔ r < max 0 q / b) ∧ (cf = false → st' = proposalState 3 kind st target) ∧ w = false
      ∧ 0 ≤ max 0 q / b ∧ max 0 q / b ≤ 1 := by
  obtain ⟨h1, h2, h3, _⟩ := (sendLeaf_spec _ _ _ _ _ _ _ _ _ _ _ h).2 hp
  refine ⟨?_, h2, ?_, div_nonneg (le_max_left _ _) hb.le, ?_⟩
  · rw [h1]; exact accept_unit_iff b q r hb hr
  · rw [h3]
    have : ¬ (b < q) := not_lt.mpr hq
    simp [warns, this]
  · rw [div_le_one hb]; exact max_le hb.le hq

/-- a two-leaf proposal whose true derivative is not positive is never confirmed (and draws no uniform number),
whatever the bound and the draw -/
theorem leaf_nonpos_rejected (c : Consts ℚ) (kind : Nat) (uc : Bool) (et : Time ℚ) (st : List (CNode ℚ))
    (target : Option (CNode ℚ)) (g : Bool) (b q : ℚ) (dr : Draw ℚ) (hq : q ≤ 0) {st' cf w cs ins u}
    (h : sendLeaf Ops.rat c kind uc et st target g b q dr = .out st' cf w cs ins u) :
    cf = false ∧ u = none := by
  have hs := sendLeaf_spec _ _ _ _ _ _ _ _ _ _ _ h
  by_cases hp : noProposal 3 kind target
  · exact ⟨(hs.1 hp).1, (hs.1 hp).2.2⟩
  · obtain ⟨h1, _, _, h4⟩ := hs.2 hp
    have : ¬ ((0:ℚ) < q) := not_lt.mpr hq
    refine ⟨?_, ?_⟩
    · rw [h1]; simp [confirmLeaf, this]
    · rw [h4]; simp [this]

/-- **Composite-object handlers (kinds 4–6).**  With bounding rate `B > 0` (`Σ max(0,b_i)` for kind 4, the cell
bound for kinds 5, 6) and true event rate `E = max(0, Σ q_i) ≤ B`: confirmed iff `r < E/B`; an unconfirmed event
returns the proposal state unchanged and leaves the lifting scheme untouched; no warning. -/
theorem composite_thinning_exact (c : Consts ℚ) (kind : Nat) (uc : Bool) (et : Time ℚ) (st : List (CNode ℚ))
    (target : Option (CNode ℚ)) (g : Bool) (b : ℚ) (bds qs : List ℚ) (pairs : List (List ℚ)) (r : ℚ)
    (nextId : List Nat) (hB : 0 < compositeBound Ops.rat kind b bds)
    (hE : max 0 qs.sum ≤ compositeBound Ops.rat kind b bds)
    (hp : ¬ noProposal 6 kind target) {st' cf w cs ins u}
    (h : sendComposite Ops.rat c kind uc et st target g b bds qs pairs (.unit r) nextId = .out st' cf w cs ins u) :
    (cf = true ↔ r < max 0 qs.sum / compositeBound Ops.rat kind b bds)
      ∧ (cf = false → st' = proposalState 6 kind st target ∧ ins = []) ∧ w = false
      ∧ 0 ≤ max 0 qs.sum / compositeBound Ops.rat kind b bds
      ∧ max 0 qs.sum / compositeBound Ops.rat kind b bds ≤ 1 := by
  obtain ⟨h1, h2, h3, _, _⟩ := (sendComposite_spec _ _ _ _ _ _ _ _ _ _ _ _ _ _ h).2 hp
  rw [pymax0_eq, factorDerivative_eq] at h1 h3
  refine ⟨?_, h2, ?_, div_nonneg (le_max_left _ _) hB.le, (div_le_one hB).mpr hE⟩
  · rw [h1, confirmComposite_iff, draw_unit_rat, lt_div_iff₀ hB, mul_comm]
  · rw [h3]
    have : ¬ (compositeBound Ops.rat kind b bds < max 0 qs.sum) := not_lt.mpr hE
    simp [warns, this]

/-- for the summed handler (kind 4) the hypothesis `E ≤ B` of `composite_thinning_exact` follows from pairwise
domination `q_i ≤ b_i` -/
theorem summed_bound_hyp (b : ℚ) (qs bds : List ℚ) (h : List.Forall₂ (· ≤ ·) qs bds) :
    max 0 qs.sum ≤ compositeBound Ops.rat 4 b bds := by
  have := summed_dominates qs bds h
  rwa [pymax0_eq, factorDerivative_eq] at this

/-- zero true rate: a composite proposal with `Σ q_i ≤ 0` is never confirmed when the bound is non-negative
(in particular when the bound is `0`: `0 <= uniform(0, 0)`) -/
theorem composite_zero_rate_rejected (c : Consts ℚ) (kind : Nat) (uc : Bool) (et : Time ℚ) (st : List (CNode ℚ))
    (target : Option (CNode ℚ)) (g : Bool) (b : ℚ) (bds qs : List ℚ) (pairs : List (List ℚ)) (r : ℚ)
    (nextId : List Nat) (hB : 0 ≤ compositeBound Ops.rat kind b bds) (hE : qs.sum ≤ 0) (hr : 0 ≤ r)
    {st' cf w cs ins u}
    (h : sendComposite Ops.rat c kind uc et st target g b bds qs pairs (.unit r) nextId = .out st' cf w cs ins u) :
    cf = false := by
  have hs := sendComposite_spec _ _ _ _ _ _ _ _ _ _ _ _ _ _ h
  by_cases hp : noProposal 6 kind target
  · exact (hs.1 hp).1
  · obtain ⟨h1, _⟩ := hs.2 hp
    rw [pymax0_eq, factorDerivative_eq, max_eq_left hE] at h1
    rw [h1, draw_unit_rat]
    have : (0:ℚ) ≤ compositeBound Ops.rat kind b bds * r := mul_nonneg hB hr
    simp [confirmComposite, this]

/-- the summed bound is never negative (so `uniform(0.0, bound)` is a draw from `[0, bound]`) -/
theorem summedBound_nonneg (bds : List ℚ) : 0 ≤ summedBound Ops.rat bds := by
  rw [summedBound_eq]
  induction bds with
  | nil => simp
  | cons x xs ih => simp only [List.map_cons, List.sum_cons]; exact add_nonneg (le_max_left _ _) ih

/-! ## Part D — the 1/r bound -/


/-! ### the scaled 1/r bound and the reduction of "all charge signs, all separations" to the positive half -/

/-- `|s|²` -/
def nsq (s : ℚ × ℚ × ℚ) : ℚ := s.1 * s.1 + s.2.1 * s.2.1 + s.2.2 * s.2.2

/-- mirror image in the direction of motion -/
def mirror (s : ℚ × ℚ × ℚ) : ℚ × ℚ × ℚ := (-s.1, s.2.1, s.2.2)

/-- the minimum-image cube of a box of length `L` (closed: the boundary planes are included) -/
def inCube (L : ℚ) (s : ℚ × ℚ × ℚ) : Prop := |s.1| ≤ L / 2 ∧ |s.2.1| ≤ L / 2 ∧ |s.2.2| ≤ L / 2

/-- **Hypothesis of the domination claim** (not provable here; searched numerically by the check):
`D` is the derivative along `+x` of the true pair potential for unit charges.  On the half `s_x > 0` of the cube
it is non-negative and at most the bound `k s_x / |s|³`; it is odd under the mirror `s_x ↦ -s_x`. -/
structure Dominates (pow32 : ℚ → ℚ) (k L : ℚ) (D : ℚ × ℚ × ℚ → ℚ) : Prop where
  odd : ∀ s, D (mirror s) = - D s
  nonneg : ∀ s, inCube L s → 0 < s.1 → 0 ≤ D s
  le : ∀ s, inCube L s → 0 < s.1 → D s ≤ k * s.1 / pow32 (nsq s)

theorem nsq_mirror (s : ℚ × ℚ × ℚ) : nsq (mirror s) = nsq s := by simp [nsq, mirror]

theorem inCube_mirror {L : ℚ} {s : ℚ × ℚ × ℚ} (h : inCube L s) : inCube L (mirror s) := by
  simpa [inCube, mirror] using h

theorem boundDerivC_eq (pow32 : ℚ → ℚ) (pp : ℚ) (s : ℚ × ℚ × ℚ) :
    boundDerivC pow32 pp s.1 s.2.1 s.2.2 = pp * s.1 / pow32 (nsq s) := rfl

/-- sign of the bounding derivative: that of `c₁ c₂ s_x` -/
theorem bound_pos_iff (pow32 : ℚ → ℚ) (hpow : ∀ x, 0 < x → 0 < pow32 x) (k c : ℚ) (hk : 0 < k)
    (s : ℚ × ℚ × ℚ) (hs : 0 < nsq s) :
    0 < boundDerivC pow32 (k * c) s.1 s.2.1 s.2.2 ↔ 0 < c * s.1 := by
  rw [boundDerivC_eq, div_pos_iff_of_pos_right (hpow _ hs), mul_assoc, mul_pos_iff_of_pos_left hk]

/-- **Domination for every charge product and every separation of the cube**, from the hypothesis on the
positive half: with true derivative `q = c·D(s)` and bounding derivative `b = (k·c)·s_x/|s|³`
(`c = c₁c₂` of either sign), the bounding event rate `max 0 b` is at least the true event rate `max 0 q`,
and wherever the true rate is positive the bound is positive and `q ≤ b` (so the acceptance ratio `q/b ≤ 1`). -/
theorem rate_dominated (pow32 : ℚ → ℚ) (hpow : ∀ x, 0 < x → 0 < pow32 x) (k L : ℚ) (hk : 0 < k)
    (D : ℚ × ℚ × ℚ → ℚ) (hD : Dominates pow32 k L D) (c : ℚ) (s : ℚ × ℚ × ℚ) (hs : inCube L s) :
    let q := c * D s
    let b := boundDerivC pow32 (k * c) s.1 s.2.1 s.2.2
    max 0 q ≤ max 0 b ∧ (0 < q → 0 < b ∧ q ≤ b) := by
  intro q b
  have key : 0 < q → 0 < b ∧ q ≤ b := by
    intro hq
    simp only [q] at hq
    rcases lt_trichotomy s.1 0 with hx | hx | hx
    · -- negative half: use the mirror image
      have hm := inCube_mirror hs
      have hmx : 0 < (mirror s).1 := by simp [mirror]; exact hx
      have h0 := hD.nonneg _ hm hmx
      have h1 := hD.le _ hm hmx
      rw [hD.odd, nsq_mirror] at h1
      rw [hD.odd] at h0
      have hDs : D s ≤ 0 := by linarith
      have hc : c < 0 := by
        by_contra hc; have hc := not_lt.mp hc
        have : c * D s ≤ 0 := mul_nonpos_of_nonneg_of_nonpos hc hDs
        linarith
      have hn : 0 < nsq s := by
        have : 0 < s.1 * s.1 := mul_pos_of_neg_of_neg hx hx
        simp only [nsq]; nlinarith [mul_self_nonneg s.2.1, mul_self_nonneg s.2.2]
      have hp := hpow _ hn
      simp only [mirror] at h1
      have hb : b = (-c) * (k * (-s.1) / pow32 (nsq s)) := by
        simp only [b, boundDerivC_eq]; ring
      have hq' : c * D s = (-c) * (- D s) := by ring
      refine ⟨?_, ?_⟩
      · rw [hb]; exact mul_pos (by linarith) (div_pos (mul_pos hk (by linarith)) hp)
      · simp only [q]; rw [hb, hq']; exact mul_le_mul_of_nonneg_left h1 (by linarith)
    · -- on the symmetry plane the true derivative vanishes
      have : mirror s = s := by
        ext <;> simp [mirror, hx]
      have h := hD.odd s
      rw [this] at h
      have : D s = 0 := by linarith
      rw [this] at hq; simp at hq
    · have h0 := hD.nonneg _ hs hx
      have h1 := hD.le _ hs hx
      have hc : 0 < c := by
        by_contra hc; have hc := not_lt.mp hc
        have : c * D s ≤ 0 := mul_nonpos_of_nonpos_of_nonneg hc h0
        linarith
      have hn : 0 < nsq s := by
        have : 0 < s.1 * s.1 := mul_pos hx hx
        simp only [nsq]; nlinarith [mul_self_nonneg s.2.1, mul_self_nonneg s.2.2]
      have hp := hpow _ hn
      have hb : b = c * (k * s.1 / pow32 (nsq s)) := by
        simp only [b, boundDerivC_eq]; ring
      refine ⟨?_, ?_⟩
      · rw [hb]; exact mul_pos hc (div_pos (mul_pos hk hx) hp)
      · simp only [q]; rw [hb]; exact mul_le_mul_of_nonneg_left h1 hc.le
  refine ⟨?_, key⟩
  rcases le_or_gt q 0 with hq | hq
  · rw [max_eq_left hq]; exact le_max_left _ _
  · obtain ⟨_, h2⟩ := key hq
    exact max_le (le_max_left _ _) (le_trans h2 (le_max_right _ _))

/-! ### all three directions: the C routine is called with the separation rotated so that the direction of
motion comes first -/

theorem nsq_perm3 (d : Nat) (s : ℚ × ℚ × ℚ) : nsq (perm3 d s) = nsq s := by
  unfold perm3 nsq
  split <;> simp only <;> ring

theorem inCube_perm3 {L : ℚ} (d : Nat) {s : ℚ × ℚ × ℚ} (h : inCube L s) : inCube L (perm3 d s) := by
  obtain ⟨h1, h2, h3⟩ := h
  unfold perm3 inCube
  split
  · exact ⟨h1, h2, h3⟩
  · exact ⟨h2, h3, h1⟩
  · exact ⟨h3, h1, h2⟩

/-- `InversePowerCoulombBoundingPotential.derivative` for a motion along `+d` with speed `v` is the `x`-routine
on the rotated separation, times the speed -/
theorem boundDeriv_eq (pow32 : ℚ → ℚ) (k c1 c2 : ℚ) (d : Nat) (s : ℚ × ℚ × ℚ) (v : ℚ) :
    boundDeriv pow32 k c1 c2 d s v
      = boundDerivC pow32 (k * (c1 * c2)) (perm3 d s).1 (perm3 d s).2.1 (perm3 d s).2.2 * v := by
  simp only [boundDeriv, mul_assoc]

/-- **domination in every direction, for every charge pair and speed**: with the true derivative along `+d`
being `c₁c₂·D(rotated s)·v` (which is how `MergedImageCoulombPotential.derivative` calls its `x`-routine) -/
theorem rate_dominated_dir (pow32 : ℚ → ℚ) (hpow : ∀ x, 0 < x → 0 < pow32 x) (k L : ℚ) (hk : 0 < k)
    (D : ℚ × ℚ × ℚ → ℚ) (hD : Dominates pow32 k L D) (c1 c2 v : ℚ) (hv : 0 < v) (d : Nat)
    (s : ℚ × ℚ × ℚ) (hs : inCube L s) :
    let q := c1 * c2 * D (perm3 d s) * v
    let b := boundDeriv pow32 k c1 c2 d s v
    max 0 q ≤ max 0 b ∧ (0 < q → 0 < b ∧ q ≤ b) := by
  intro q b
  have h := rate_dominated pow32 hpow k L hk D hD (c1 * c2) (perm3 d s) (inCube_perm3 d hs)
  simp only at h
  obtain ⟨_, h2⟩ := h
  have hb : b = boundDerivC pow32 (k * (c1 * c2)) (perm3 d s).1 (perm3 d s).2.1 (perm3 d s).2.2 * v :=
    boundDeriv_eq _ _ _ _ _ _ _
  have key : 0 < q → 0 < b ∧ q ≤ b := by
    intro hq
    have hq0 : 0 < c1 * c2 * D (perm3 d s) := by
      by_contra hn
      have : c1 * c2 * D (perm3 d s) * v ≤ 0 := mul_nonpos_of_nonpos_of_nonneg (not_lt.mp hn) hv.le
      exact absurd hq (not_lt.mpr this)
    obtain ⟨hb0, hle⟩ := h2 hq0
    rw [hb]
    exact ⟨mul_pos hb0 hv, mul_le_mul_of_nonneg_right hle hv.le⟩
  refine ⟨?_, key⟩
  rcases le_or_gt q 0 with hq | hq
  · rw [max_eq_left hq]; exact le_max_left _ _
  · obtain ⟨_, h3⟩ := key hq
    exact max_le (le_max_left _ _) (le_trans h3 (le_max_right _ _))

/-- non-vacuity of `Dominates`: a "true" potential that is 2/3 of the bound (with `pow32 x = x²`, `k = 3/2`) -/
theorem exDominates : Dominates (fun x => x * x) (3/2) 1 (fun s => s.1 / (nsq s * nsq s)) where
  odd s := by simp [mirror, nsq]; ring
  nonneg s _ hx := by
    apply div_nonneg hx.le (mul_self_nonneg _)
  le s _ hx := by
    have hn : 0 < nsq s := by
      have : 0 < s.1 * s.1 := mul_pos hx hx
      simp only [nsq]; nlinarith [mul_self_nonneg s.2.1, mul_self_nonneg s.2.2]
    rw [div_le_div_iff_of_pos_right (mul_pos hn hn)]; linarith



/-! ## Part E — the property for the model: handlers + 1/r bound under `Dominates`

The two theorems below are the statement of C04 for the model, **except** that the domination of the shipped bound
(prefactor 1.5837) over the actual merged-image (Ewald) derivative is a hypothesis (`Dominates`) and not a theorem:
hence the suffix `_partial`.  What is missing is exactly `Dominates pow32 1.5837 L D` for `D` = the derivative computed
by `merged_image_coulomb_potential.c` and `pow32 x = x^(3/2)` (margin 1e-4; searched numerically by the check). -/

/-- the summed bound dominates already when every pairwise true derivative is below the *positive part* of its
pairwise bound (a negative pairwise bound contributes `0` to the sum) -/
theorem summed_dominates' (qs bds : List ℚ) (h : List.Forall₂ (fun q b => q ≤ max 0 b) qs bds) :
    max 0 qs.sum ≤ (bds.map (max 0)).sum := by
  induction h with
  | nil => simp
  | cons hab _ ih =>
    simp only [List.sum_cons, List.map_cons]
    rename_i a b l₁ l₂ _
    have h0 : (0:ℚ) ≤ (l₂.map (max 0)).sum := le_trans (le_max_left _ _) ih
    have h1 : l₁.sum ≤ (l₂.map (max 0)).sum := le_trans (le_max_right _ _) ih
    have h3 : (0:ℚ) ≤ max 0 b := le_max_left _ _
    apply max_le <;> linarith

theorem warns_false_of_le (b q : ℚ) (h : q ≤ b) : warns Ops.rat b q = false := by
  simp [warns, not_lt.mpr h]

/-- the true derivative as the handlers obtain it from `MergedImageCoulombPotential.derivative` (prefactor 1):
`c₁ c₂ · D(rotated separation) · speed` -/
def trueDeriv (D : ℚ × ℚ × ℚ → ℚ) (c1 c2 : ℚ) (d : Nat) (s : ℚ × ℚ × ℚ) (v : ℚ) : ℚ :=
  c1 * c2 * D (perm3 d s) * v

/-- **C04 for the two-leaf-unit handlers with the 1/r bound**, under `Dominates`: for every charge pair (both signs),
every separation of the minimum-image cube, every direction and speed, every `random()` value `r ≥ 0`:
no warning; an unconfirmed event returns the proposal state unchanged; the event is confirmed iff the true
derivative `q` is positive and `r < q/b`; and then `0 < b`, `q/b ≤ 1`. -/
theorem leaf_one_over_r_sound_partial (pow32 : ℚ → ℚ) (hpow : ∀ x, 0 < x → 0 < pow32 x) (k L : ℚ) (hk : 0 < k)
    (D : ℚ × ℚ × ℚ → ℚ) (hD : Dominates pow32 k L D)
    (c : Consts ℚ) (kind : Nat) (uc : Bool) (et : Time ℚ) (st : List (CNode ℚ)) (target : Option (CNode ℚ)) (g : Bool)
    (c1 c2 v : ℚ) (hv : 0 < v) (d : Nat) (s : ℚ × ℚ × ℚ) (hs : inCube L s) (r : ℚ) (hr : 0 ≤ r)
    (hp : ¬ noProposal 3 kind target) {st' cf w cs ins u}
    (h : sendLeaf Ops.rat c kind uc et st target g (boundDeriv pow32 k c1 c2 d s v) (trueDeriv D c1 c2 d s v)
          (.unit r) = .out st' cf w cs ins u) :
    w = false ∧ (cf = false → st' = proposalState 3 kind st target)
      ∧ (cf = true ↔ 0 < trueDeriv D c1 c2 d s v ∧ r < trueDeriv D c1 c2 d s v / boundDeriv pow32 k c1 c2 d s v)
      ∧ (0 < trueDeriv D c1 c2 d s v →
          0 < boundDeriv pow32 k c1 c2 d s v ∧ trueDeriv D c1 c2 d s v / boundDeriv pow32 k c1 c2 d s v ≤ 1) := by
  have hdom := (rate_dominated_dir pow32 hpow k L hk D hD c1 c2 v hv d s hs).2
  change 0 < trueDeriv D c1 c2 d s v → _ at hdom
  have hspec := (sendLeaf_spec _ _ _ _ _ _ _ _ _ _ _ h).2 hp
  rcases le_or_gt (trueDeriv D c1 c2 d s v) 0 with hq | hq
  · have hcf := (leaf_nonpos_rejected _ _ _ _ _ _ _ _ _ _ hq h).1
    refine ⟨?_, hspec.2.1, ?_, fun h0 => absurd h0 (not_lt.mpr hq)⟩
    · rw [hspec.2.2.1]; simp [warns, not_lt.mpr hq]
    · rw [hcf]; simp [not_lt.mpr hq]
  · obtain ⟨hb, hle⟩ := hdom hq
    obtain ⟨h1, h2, h3, _, h5⟩ := leaf_thinning_exact c kind uc et st target g (boundDeriv pow32 k c1 c2 d s v)
      (trueDeriv D c1 c2 d s v) r hb hle hr hp h
    rw [max_eq_right hq.le] at h1 h5
    exact ⟨h3, h2, by rw [h1]; simp [hq], fun _ => ⟨hb, h5⟩⟩

/-- pairwise: every true derivative is below the positive part of its 1/r bound -/
theorem pairwise_dominated (pow32 : ℚ → ℚ) (hpow : ∀ x, 0 < x → 0 < pow32 x) (k L : ℚ) (hk : 0 < k)
    (D : ℚ × ℚ × ℚ → ℚ) (hD : Dominates pow32 k L D) (ca v : ℚ) (hv : 0 < v) (d : Nat)
    (tg : List (ℚ × (ℚ × ℚ × ℚ))) (hs : ∀ x ∈ tg, inCube L x.2) :
    List.Forall₂ (fun q b => q ≤ max 0 b) (tg.map fun x => trueDeriv D ca x.1 d x.2 v)
      (tg.map fun x => boundDeriv pow32 k ca x.1 d x.2 v) := by
  induction tg with
  | nil => exact .nil
  | cons x xs ih =>
    refine .cons ?_ (ih (fun y hy => hs y (List.mem_cons_of_mem _ hy)))
    have := (rate_dominated_dir pow32 hpow k L hk D hD ca x.1 v hv d x.2 (hs x List.mem_cons_self)).1
    exact le_trans (le_max_right _ _) this

/-- **C04 for the summed composite-object handler (kind 4) with the 1/r bound**, under `Dominates`: `tg` lists the
target leaf units as (charge, separation from the active unit); the active unit has charge `ca`.  The summed bounding
rate `B = Σ max(0, b_i)` dominates the true rate `E = max(0, Σ q_i)`; no warning; an unconfirmed event changes
nothing; the event is confirmed iff `0 < E` and `r < E/B`. -/
theorem summed_one_over_r_sound_partial (pow32 : ℚ → ℚ) (hpow : ∀ x, 0 < x → 0 < pow32 x) (k L : ℚ) (hk : 0 < k)
    (D : ℚ × ℚ × ℚ → ℚ) (hD : Dominates pow32 k L D)
    (c : Consts ℚ) (uc : Bool) (et : Time ℚ) (st : List (CNode ℚ)) (target : Option (CNode ℚ)) (g : Bool) (b0 : ℚ)
    (ca v : ℚ) (hv : 0 < v) (d : Nat) (tg : List (ℚ × (ℚ × ℚ × ℚ))) (hs : ∀ x ∈ tg, inCube L x.2)
    (pairs : List (List ℚ)) (r : ℚ) (hr : 0 ≤ r) (nextId : List Nat) {st' cf w cs ins u}
    (h : sendComposite Ops.rat c 4 uc et st target g b0
          (tg.map fun x => boundDeriv pow32 k ca x.1 d x.2 v) (tg.map fun x => trueDeriv D ca x.1 d x.2 v)
          pairs (.unit r) nextId = .out st' cf w cs ins u) :
    let B := summedBound Ops.rat (tg.map fun x => boundDeriv pow32 k ca x.1 d x.2 v)
    let E := max 0 (tg.map fun x => trueDeriv D ca x.1 d x.2 v).sum
    E ≤ B ∧ w = false ∧ (cf = false → st' = st ∧ ins = []) ∧ (cf = true ↔ 0 < E ∧ r < E / B) := by
  intro B E
  have hF := pairwise_dominated pow32 hpow k L hk D hD ca v hv d tg hs
  have hEB : E ≤ B := by
    have := summed_dominates' _ _ hF
    simp only [E, B, summedBound_eq]; exact this
  have hp : ¬ noProposal 6 4 target := by simp [noProposal]
  have hps : proposalState 6 4 st target = st := by
    unfold proposalState; cases target <;> simp
  have hcb : compositeBound Ops.rat 4 b0 (tg.map fun x => boundDeriv pow32 k ca x.1 d x.2 v) = B := by
    simp [compositeBound, B]
  obtain ⟨h1, h2, h3, _, _⟩ := (sendComposite_spec _ _ _ _ _ _ _ _ _ _ _ _ _ _ h).2 hp
  rw [pymax0_eq, factorDerivative_eq, hcb] at h1 h3
  rw [hps] at h2
  have hB0 : 0 ≤ B := summedBound_nonneg _
  refine ⟨hEB, ?_, h2, ?_⟩
  · rw [h3]; exact warns_false_of_le _ _ hEB
  · rw [h1, confirmComposite_iff, draw_unit_rat]
    change B * r < E ↔ 0 < E ∧ r < E / B
    rcases eq_or_lt_of_le hB0 with hB | hB
    · -- B = 0, hence E = 0: never confirmed
      have hE0 : E = 0 := le_antisymm (by rw [← hB] at hEB; exact hEB) (le_max_left _ _)
      rw [← hB, hE0]; simp
    · rw [lt_div_iff₀ hB, mul_comm]
      constructor
      · intro hlt; exact ⟨lt_of_le_of_lt (mul_nonneg hr hB.le) hlt, hlt⟩
      · exact fun hh => hh.2


/-! ## Part F — `_fill_lifting` (exact reading) -/

/-! ### the derivative table handed to the lifting scheme sums to zero -/

theorem sum_zipWith_sub (ts row : List ℚ) (h : row.length = ts.length) :
    (List.zipWith (fun t p => t - p) ts row).sum = ts.sum - row.sum := by
  induction ts generalizing row with
  | nil => cases row with
    | nil => simp
    | cons _ _ => simp at h
  | cons t ts ih => cases row with
    | nil => simp at h
    | cons p ps =>
      simp only [List.zipWith_cons_cons, List.sum_cons]
      rw [ih ps (by simpa using h)]; ring

theorem foldl_add_rat (l : List ℚ) : l.foldl (fun s p => s + p) 0 = l.sum := by
  have : ∀ (l : List ℚ) (a : ℚ), l.foldl (fun s p => s + p) a = a + l.sum := by
    intro l; induction l with
    | nil => intro a; simp
    | cons x xs ih => intro a; rw [List.foldl_cons, ih, List.sum_cons]; ring
  rw [this]; simp

/-- the accumulator of `_fill_lifting`'s double loop -/
def flStep (A : ℚ) (acc : List ℚ × List ℚ) (lp : (List Nat × Bool) × List ℚ) : List ℚ × List ℚ :=
  if lp.1.2 then (acc.1 ++ [A], acc.2)
  else (acc.1 ++ [lp.2.foldl (fun s p => s + p) 0], List.zipWith (fun t p => t - p) acc.2 lp.2)

theorem flStep_fold (A : ℚ) (l : List ((List Nat × Bool) × List ℚ)) (acc : List ℚ × List ℚ)
    (hrows : ∀ lp ∈ l, lp.2.length = acc.2.length) :
    let r := l.foldl (flStep A) acc
    r.1.sum + r.2.sum = acc.1.sum + acc.2.sum + ((l.filter (fun lp => lp.1.2)).length : ℚ) * A
      ∧ r.1.length = acc.1.length + l.length ∧ r.2.length = acc.2.length := by
  induction l generalizing acc with
  | nil => simp
  | cons lp l ih =>
    simp only [List.foldl_cons]
    have hlp := hrows lp List.mem_cons_self
    by_cases ha : lp.1.2 = true
    · have hs : flStep A acc lp = (acc.1 ++ [A], acc.2) := by simp [flStep, ha]
      rw [hs]
      obtain ⟨h1, h2, h3⟩ := ih (acc.1 ++ [A], acc.2) (fun x hx => hrows x (List.mem_cons_of_mem _ hx))
      refine ⟨?_, ?_, h3⟩
      · rw [h1]; simp [ha]; ring
      · rw [h2]; simp; ring
    · have hs : flStep A acc lp
          = (acc.1 ++ [lp.2.foldl (fun s p => s + p) 0], List.zipWith (fun t p => t - p) acc.2 lp.2) := by
        simp [flStep, ha]
      rw [hs]
      have hl : (List.zipWith (fun t p => t - p) acc.2 lp.2).length = acc.2.length := by
        simp [hlp]
      obtain ⟨h1, h2, h3⟩ := ih (acc.1 ++ [lp.2.foldl (fun s p => s + p) 0], List.zipWith (fun t p => t - p) acc.2 lp.2)
        (fun x hx => by simp only; rw [hl]; exact hrows x (List.mem_cons_of_mem _ hx))
      refine ⟨?_, ?_, by rw [h3, hl]⟩
      · rw [h1]; simp only [List.sum_append, List.sum_cons, List.sum_nil, foldl_add_rat,
          sum_zipWith_sub _ _ hlp, List.filter_cons, ha]
        simp
      · rw [h2]; simp only [List.length_append, List.length_cons, List.length_nil]; ring

theorem filter_zip_length (locals : List (List Nat × Bool)) (pairs : List (List ℚ)) (h : pairs.length = locals.length) :
    ((locals.zip pairs).filter (fun lp => lp.1.2)).length = (locals.filter (·.2)).length := by
  induction locals generalizing pairs with
  | nil => simp
  | cons l ls ih => cases pairs with
    | nil => simp at h
    | cons p ps =>
      have := ih ps (by simpa using h)
      by_cases hl : l.2 = true <;> simp [hl, this]

/-- **sum of the derivative table**: the derivatives `_fill_lifting` inserts into the lifting scheme add up to
(number of active local units)·`activeDeriv` + Σ target derivatives — the pairwise terms between non-active local
units and target units cancel. -/
theorem fillLifting_sum (locals : List (List Nat × Bool)) (targets : List (List Nat)) (A : ℚ) (tds : List ℚ)
    (pairs : List (List ℚ)) (hp : pairs.length = locals.length) (hrows : ∀ row ∈ pairs, row.length = tds.length)
    (ht : targets.length = tds.length) :
    ((fillLifting Ops.rat locals targets A tds pairs).map (·.1)).sum
      = ((locals.filter (·.2)).length : ℚ) * A + tds.sum := by
  have hfold := flStep_fold A (locals.zip pairs) ([], tds)
    (fun lp hlp => hrows lp.2 (List.of_mem_zip hlp).2)
  simp only at hfold
  obtain ⟨h1, h2, h3⟩ := hfold
  have hstep : (fun (acc : List ℚ × List ℚ) (lp : (List Nat × Bool) × List ℚ) =>
      if lp.1.2 = true then (acc.1 ++ [A], acc.2)
      else (acc.1 ++ [lp.2.foldl (fun s p => s + p) (Ops.rat.ofInt 0)],
            List.zipWith (fun t p => t - p) acc.2 lp.2)) = flStep A := by
    funext acc lp; simp [flStep]
  unfold fillLifting
  simp only [hstep]
  generalize List.foldl (flStep A) ([], tds) (locals.zip pairs) = r at h1 h2 h3 ⊢
  have hl1 : r.1.length = locals.length := by
    rw [h2]; simp [List.length_zip, hp]
  have hl2 : r.2.length = targets.length := by rw [h3, ht]
  have e1 : (((locals.zip r.1).map fun (x : (List Nat × Bool) × ℚ) => (x.2, x.1.1, x.1.2)).map (·.1)) = r.1 := by
    rw [List.map_map]
    have : ((fun (x : ℚ × List Nat × Bool) => x.1) ∘ fun (x : (List Nat × Bool) × ℚ) => (x.2, x.1.1, x.1.2)) = Prod.snd := by
      funext x; rfl
    rw [this]; exact List.map_snd_zip (by omega)
  have e2 : (((targets.zip r.2).map fun (x : List Nat × ℚ) => (x.2, x.1, false)).map (·.1)) = r.2 := by
    rw [List.map_map]
    have : ((fun (x : ℚ × List Nat × Bool) => x.1) ∘ fun (x : List Nat × ℚ) => (x.2, x.1, false)) = Prod.snd := by
      funext x; rfl
    rw [this]; exact List.map_snd_zip (by omega)
  have hcount := filter_zip_length locals pairs hp
  have hsum : r.1.sum + r.2.sum = ((locals.filter (·.2)).length : ℚ) * A + tds.sum := by
    rw [h1, hcount]; simp; ring
  split
  · rw [List.map_append, List.sum_append, e1, e2]; exact hsum
  · rw [List.map_append, List.sum_append, e1, e2, add_comm]; exact hsum

theorem targetDerivs_sum (qs : List ℚ) : (targetDerivs Ops.rat qs).sum = - qs.sum := by
  unfold targetDerivs
  induction qs with
  | nil => simp
  | cons x xs ih =>
    simp only [List.map_cons, List.sum_cons, rat0, zero_sub] at ih ⊢
    rw [ih]; ring

/-- … hence it **sums to zero** for the table the composite handlers build: one active local unit carrying the
factor derivative `Σ q_i`, target entries starting from `0 - q_i` -/
theorem fillLifting_sum_zero (locals : List (List Nat × Bool)) (targets : List (List Nat)) (qs : List ℚ)
    (pairs : List (List ℚ)) (hone : (locals.filter (·.2)).length = 1) (hp : pairs.length = locals.length)
    (hrows : ∀ row ∈ pairs, row.length = qs.length) (ht : targets.length = qs.length) :
    ((fillLifting Ops.rat locals targets (factorDerivative Ops.rat qs) (targetDerivs Ops.rat qs) pairs).map (·.1)).sum
      = 0 := by
  have hl : (targetDerivs Ops.rat qs).length = qs.length := by simp [targetDerivs]
  rw [fillLifting_sum _ _ _ _ _ hp (fun row hr => by rw [hl]; exact hrows row hr) (by rw [hl]; exact ht), hone,
    factorDerivative_eq]
  have := targetDerivs_sum qs
  rw [this]; simp


/-! ## Part G — what a confirmed event does (atoms), for every scalar type -/

section generic
variable {α : Type} [Add α] [Sub α] [Mul α] [Div α] [Neg α] [LT α] [DecidableLT α] [LE α] [DecidableLE α] [BEq α]

omit [Div α] [LE α] [DecidableLE α] in
theorem commitUnit_nil (o : Ops α) (c : Consts α) (et : Time α) (u : LUnit α) : commitUnit o c et [] u = u := by
  simp [commitUnit]

omit [Div α] [LE α] [DecidableLE α] in
/-- **a confirmed event between two atoms** (leaf units that are their own root nodes): the velocity and the time
stamp of the active unit move to the target unit, the active unit becomes inactive, nothing else changes
(no parent velocities to keep consistent). -/
theorem exchange_atoms (o : Ops α) (c : Consts α) (et : Time α) (st st' : List (CNode α)) (i j : Nat)
    (h : exchange o c et st (i, none) (j, none) = some st') :
    ∃ au tu v, getLeaf st (i, none) = some au ∧ getLeaf st (j, none) = some tu ∧ au.vel = some v ∧ tu.vel = none ∧
      st' = setLeaf (setLeaf st (j, none) { tu with vel := some v, ts := au.ts }) (i, none)
              { au with vel := none, ts := none } := by
  simp only [exchange] at h
  split at h
  · next au tu hau htu =>
    split at h
    · cases h
    · next v hv =>
      split at h
      · cases h
      · next htv =>
        refine ⟨au, tu, v, hau, htu, hv, by simpa using htv, ?_⟩
        simp only [commitUnit_nil, Option.some.injEq] at h
        rw [← h]
        have : ∀ (l : List (CNode α)), l.map (fun r => { r with unit := r.unit, children := r.children.map fun cw => (cw.1, cw.2) }) = l := by
          intro l; induction l with
          | nil => rfl
          | cons x xs _ => simp
        simp
  · cases h

end generic

/-! ## Non-vacuity: concrete proposals (kernel-evaluated on the exact reading of the model) that meet the
hypotheses of the theorems above, one confirmed and one rejected each -/

/-- the confirmation flag of an out-state result -/
def confirmed? {α : Type} : Res α → Option Bool
  | .out _ cf _ _ _ _ => some cf
  | _ => none

theorem exists_out_of_confirmed? {α : Type} {r : Res α} {cf : Bool} (h : confirmed? r = some cf) :
    ∃ st' w cs ins u, r = .out st' cf w cs ins u := by
  cases r with
  | out st' cf' w cs ins u => simp only [confirmed?, Option.some.injEq] at h; subst h; exact ⟨_, _, _, _, _, rfl⟩
  | err t => simp [confirmed?] at h
  | invalid => simp [confirmed?] at h

def exA : CNode ℚ := ⟨⟨[0], [1/10, 2/10, 3/10], 1, some [1, 0, 0], some ⟨5, 1/4⟩⟩, 1, []⟩
def exB : CNode ℚ := ⟨⟨[1], [6/10, 2/10, 9/10], -1, none, none⟩, 1, []⟩
def exC : Consts ℚ := ⟨1, 1/10^13⟩

example : confirmed? (sendLeaf Ops.rat exC 1 true ⟨5, 1/4⟩ [exA, exB] none true 2 1 (.unit (1/4))) = some true := by
  decide +kernel
example : confirmed? (sendLeaf Ops.rat exC 1 true ⟨5, 1/4⟩ [exA, exB] none true 2 1 (.unit (3/4))) = some false := by
  decide +kernel


/-- two dipoles `(0,·)` (active leaf `(0,1)`) and `(3,·)` -/
def dipA : CNode ℚ :=
  ⟨⟨[0], [1/10, 2/10, 3/10], 0, some [1/2, 0, 0], some ⟨5, 1/4⟩⟩, 1,
   [(⟨[0, 0], [1/10, 2/10, 3/10], 1, none, none⟩, 1/2),
    (⟨[0, 1], [2/10, 2/10, 3/10], -1, some [1, 0, 0], some ⟨5, 1/4⟩⟩, 1/2)]⟩
def dipB : CNode ℚ :=
  ⟨⟨[3], [6/10, 7/10, 3/10], 0, none, none⟩, 1,
   [(⟨[3, 0], [6/10, 7/10, 3/10], 1, none, none⟩, 1/2),
    (⟨[3, 1], [7/10, 7/10, 3/10], -1, none, none⟩, 1/2)]⟩

-- kind 4: bounds (2, -1) -> Σ max(0,·) = 2; true derivatives (3/2, -1) -> rate 1/2; r = 1/8 < 1/4: confirmed
example : confirmed? (sendComposite Ops.rat ⟨1, 1/10^13⟩ 4 true ⟨5, 1/4⟩ [dipB, dipA] none true 0 [2, -1] [3/2, -1]
    [[1/3, -1/5], [0, 0]] (.unit (1/8)) [3, 1]) = some true := by decide +kernel
example : confirmed? (sendComposite Ops.rat ⟨1, 1/10^13⟩ 4 true ⟨5, 1/4⟩ [dipB, dipA] none true 0 [2, -1] [3/2, -1]
    [[1/3, -1/5], [0, 0]] (.unit (1/2)) [3, 1]) = some false := by decide +kernel
example : List.Forall₂ (· ≤ ·) [(3/2 : ℚ), -1] [2, -1] := by
  refine .cons (by norm_num) (.cons (by norm_num) .nil)


/-- the hypotheses of `leaf_thinning_exact` are met by the confirmed atom example (`b = 2`, `q = 1`, `r = 1/4`) -/
example : ∃ st' w cs ins u, sendLeaf Ops.rat exC 1 true ⟨5, 1/4⟩ [exA, exB] none true 2 1 (.unit (1/4))
    = .out st' true w cs ins u := exists_out_of_confirmed? (by decide +kernel)

/-- … and those of `composite_thinning_exact` / `summed_bound_hyp` by the dipole example -/
example : ∃ st' w cs ins u, sendComposite Ops.rat ⟨1, 1/10^13⟩ 4 true ⟨5, 1/4⟩ [dipB, dipA] none true 0 [2, -1]
    [3/2, -1] [[1/3, -1/5], [0, 0]] (.unit (1/8)) [3, 1] = .out st' true w cs ins u :=
  exists_out_of_confirmed? (by decide +kernel)
example : (0:ℚ) < compositeBound Ops.rat 4 0 [2, -1] ∧ max 0 ([3/2, -1] : List ℚ).sum ≤ compositeBound Ops.rat 4 0 [2, -1] := by
  refine ⟨by decide +kernel, summed_bound_hyp 0 _ _ (.cons (by norm_num) (.cons (by norm_num) .nil))⟩
example := accept_set 2 1 (by norm_num) (by norm_num)
example := accept_probability Ops.real0 (by simp [Ops.real0]) 2 1 (by norm_num) (by norm_num)

/-- the end-to-end theorem applies to a concrete confirmed proposal: separation `(1/4, 1/4, 0)`, unit charges,
`D`, `pow32`, `k` of `exDominates`: `q = 16`, `b = 24`, `r = 1/2 < 2/3` -/
example : ∃ st' w cs ins u, sendLeaf Ops.rat exC 1 true ⟨5, 1/4⟩ [exA, exB] none true
    (boundDeriv (fun x => x * x) (3/2) 1 1 0 (1/4, 1/4, 0) 1)
    (trueDeriv (fun s => s.1 / (nsq s * nsq s)) 1 1 0 (1/4, 1/4, 0) 1) (.unit (1/2)) = .out st' true w cs ins u :=
  exists_out_of_confirmed? (by decide +kernel)
example : inCube 1 ((1/4, 1/4, 0) : ℚ × ℚ × ℚ) := by
  simp only [inCube]; norm_num [abs_of_nonneg]

/-- `fillLifting_sum_zero` on the dipole example's table -/
example := fillLifting_sum_zero [([0, 0], false), ([0, 1], true)] [[3, 0], [3, 1]] [3/2, -1] [[1/3, -1/5], [0, 0]]
  (by decide) rfl (by simp) rfl

/-! ### binary64 boundary facts (kernel-evaluated on the float reading the driver runs) -/

/-- a draw equal to the true rate is rejected by both ways of writing the comparison -/
example : confirmLeaf Ops.float 0.5 0.5 = false ∧ confirmComposite (pymax0 Ops.float 0.5) 0.5 = false := by
  decide +kernel
/-- zero true rate (`±0.0`), draw `0.0` (e.g. `uniform(0.0, 0.0)`): rejected -/
example : confirmLeaf Ops.float 0.0 0.0 = false ∧ confirmComposite (pymax0 Ops.float (-0.0)) 0.0 = false
    ∧ confirmComposite (pymax0 Ops.float (-1.5)) (pyUniform (Ops.float.ofInt 0) 0.0 0.75) = false := by
  decide +kernel
/-- the smallest draw `0.0` confirms every positive rate, however small -/
example : confirmLeaf Ops.float 5e-324 0.0 = true ∧ confirmComposite (pymax0 Ops.float 5e-324) 0.0 = true := by
  decide +kernel

/-- `exchange_atoms` applies: the two-atom example state admits the exchange -/
example : (exchange Ops.rat exC ⟨5, 1/4⟩ [exA, exB] (0, none) (1, none)).isSome = true := by decide +kernel

/-! ## Part H — the root-unit-active handlers (kinds 7, 8): a whole composite object moves

`RootUnitActiveTwoCompositeObjectSummedBoundingPotentialEventHandler` (kind 7) thins: its bounding rate is
`Σ max(0, b_ij)` and its true rate `max(0, Σ q_ij)`, both over ALL (active leaf `i`, target leaf `j`) pairs.
`RootUnitActiveTwoLeafUnitEventHandler` (kind 8) does not thin (directly invertible potential; model: `sendRoot … 8`
always passes the velocity), so C04 makes no statement about it beyond "it never draws a uniform number". -/

section generic
variable {α : Type} [Add α] [Sub α] [Mul α] [Div α] [Neg α] [LT α] [DecidableLT α] [LE α] [DecidableLE α] [BEq α]

omit [Div α] [LE α] [DecidableLE α] [Neg α] in
/-- time-slicing moves a unit, it never touches its velocity -/
theorem timeSliceUnit_vel (o : Ops α) (c : Consts α) (et : Time α) (u : LUnit α) :
    (timeSliceUnit o c et u).vel = u.vel := by
  unfold timeSliceUnit
  split
  · rfl
  · next h => simp [h]

omit [Div α] [LE α] [DecidableLE α] [Neg α] in
theorem timeSliceState_velocities (o : Ops α) (c : Consts α) (et : Time α) (st : List (CNode α)) :
    velocities (timeSliceState o c et st) = velocities st := by
  unfold velocities timeSliceState
  induction st with
  | nil => rfl
  | cons r rs ih =>
    simp only [List.map_cons, List.flatMap_cons, timeSliceUnit_vel, List.map_map]
    rw [ih]
    congr 2
    apply List.map_congr_left
    intro cw _
    simp [timeSliceUnit_vel]

omit [LE α] [DecidableLE α] in
/-- **kind 7, every scalar type (in particular binary64)**: `send_out_state` confirms exactly when the two-leaf
style comparison `factor_derivative > 0 and uniform(0, bound) < factor_derivative` holds, with
`bound = Σ max(0.0, b_ij)` and `factor_derivative = Σ q_ij` over all pairs; an unconfirmed event returns the
time-sliced branches (all velocities as handed in); the warning is a flag; a uniform number is drawn exactly when
the factor derivative is positive, from `[0, bound]`. -/
theorem sendRoot_spec (o : Ops α) (c : Consts α) (kind : Nat) (hk : kind ≠ 8) (uc : Bool) (et : Time α)
    (ist branches : List (CNode α)) (bds qs : List α) (dr : Draw α) {st' cf w cs ins u}
    (h : sendRoot o c kind uc et ist branches bds qs dr = .out st' cf w cs ins u) :
    cf = confirmLeaf o (factorDerivative o qs) (dr.get o (summedBound o bds))
      ∧ (cf = false → st' = timeSliceState o c et branches ∧ velocities st' = velocities branches)
      ∧ w = warns o (summedBound o bds) (factorDerivative o qs) ∧ ins = []
      ∧ (u = if o.ofInt 0 < factorDerivative o qs then some (summedBound o bds) else none) := by
  have hk' : (kind == 8) = false := by simpa using hk
  simp only [sendRoot, hk'] at h
  simp only [confirmLeaf]
  iterate 5 (all_goals (try split at h))
  all_goals (try cases h)
  all_goals simp_all [timeSliceState_velocities]

omit [LE α] [DecidableLE α] in
/-- kind 8 never thins: whenever it returns an out-state, the event is confirmed and no uniform number is drawn -/
theorem sendRoot_invertible (o : Ops α) (c : Consts α) (uc : Bool) (et : Time α)
    (ist branches : List (CNode α)) (bds qs : List α) (dr : Draw α) {st' cf w cs ins u}
    (h : sendRoot o c 8 uc et ist branches bds qs dr = .out st' cf w cs ins u) :
    cf = true ∧ w = false ∧ u = none ∧ cs = [] := by
  simp only [sendRoot] at h
  split at h
  · split at h
    · cases h; exact ⟨rfl, rfl, rfl, rfl⟩
    · cases h
  · next hne => exact absurd rfl hne

end generic

/-- **Kind 7 in the exact reading**: with bounding rate `B = Σ max(0, b_ij) > 0` and true rate
`E = max(0, Σ q_ij) ≤ B` (sums over all pairs), decided with `random() = r ≥ 0`: confirmed iff `r < E/B`, i.e. with
probability exactly `E/B ∈ [0,1]`; an unconfirmed event leaves every velocity unchanged; no warning. -/
theorem root_thinning_exact (c : Consts ℚ) (kind : Nat) (hk : kind ≠ 8) (uc : Bool) (et : Time ℚ)
    (ist branches : List (CNode ℚ)) (bds qs : List ℚ) (r : ℚ) (hB : 0 < summedBound Ops.rat bds)
    (hE : max 0 qs.sum ≤ summedBound Ops.rat bds) (hr : 0 ≤ r) {st' cf w cs ins u}
    (h : sendRoot Ops.rat c kind uc et ist branches bds qs (.unit r) = .out st' cf w cs ins u) :
    (cf = true ↔ r < max 0 qs.sum / summedBound Ops.rat bds)
      ∧ (cf = false → st' = timeSliceState Ops.rat c et branches ∧ velocities st' = velocities branches)
      ∧ w = false ∧ 0 ≤ max 0 qs.sum / summedBound Ops.rat bds ∧ max 0 qs.sum / summedBound Ops.rat bds ≤ 1 := by
  obtain ⟨h1, h2, h3, _, _⟩ := sendRoot_spec _ _ _ hk _ _ _ _ _ _ _ h
  rw [factorDerivative_eq] at h1 h3
  refine ⟨?_, h2, ?_, div_nonneg (le_max_left _ _) hB.le, (div_le_one hB).mpr hE⟩
  · rw [h1]; exact accept_unit_iff _ _ r hB hr
  · rw [h3]; exact warns_false_of_le _ _ (le_trans (le_max_right _ _) hE)

/-- zero true rate: if the sum of ALL pairwise true derivatives is not positive the event is never confirmed and no
uniform number is drawn — whatever the bounds of the single pairs, whatever the draw -/
theorem root_zero_rate_rejected (c : Consts ℚ) (kind : Nat) (hk : kind ≠ 8) (uc : Bool) (et : Time ℚ)
    (ist branches : List (CNode ℚ)) (bds qs : List ℚ) (dr : Draw ℚ) (hq : qs.sum ≤ 0) {st' cf w cs ins u}
    (h : sendRoot Ops.rat c kind uc et ist branches bds qs dr = .out st' cf w cs ins u) :
    cf = false ∧ u = none ∧ velocities st' = velocities branches := by
  obtain ⟨h1, h2, _, _, h5⟩ := sendRoot_spec _ _ _ hk _ _ _ _ _ _ _ h
  rw [factorDerivative_eq] at h1 h5
  have hn : ¬ ((0:ℚ) < qs.sum) := not_lt.mpr hq
  have hcf : cf = false := by rw [h1]; simp [confirmLeaf, hn]
  refine ⟨hcf, ?_, (h2 hcf).2⟩
  rw [h5]; simp [hn]

/-! ### the rates of the double loop: a table `q i j`, `b i j` (active leaf `i`, target leaf `j`) -/

theorem forall₂_flatten {R : ℚ → ℚ → Prop} (qss bss : List (List ℚ)) (h : List.Forall₂ (List.Forall₂ R) qss bss) :
    List.Forall₂ R qss.flatten bss.flatten := by
  induction h with
  | nil => exact .nil
  | cons hrow _ ih =>
    simp only [List.flatten_cons]
    induction hrow with
    | nil => simpa using ih
    | cons hab _ ih2 => exact .cons hab ih2

/-- **the thinned rate of the root-active sum**: if every pair's true derivative is at most the positive part of
the pair's bound, then `E = max(0, Σ_i Σ_j q_ij)` is at most `B = Σ_i Σ_j max(0, b_ij)` (the two numbers the handler
accumulates in its double loop), and proposing at rate `B` and confirming with probability `E/B ∈ [0,1]` gives the
rate `E`. -/
theorem root_thinned_rate (qss bss : List (List ℚ))
    (h : List.Forall₂ (List.Forall₂ fun q b => q ≤ max 0 b) qss bss) :
    let B := summedBound Ops.rat bss.flatten
    let E := max 0 (factorDerivative Ops.rat qss.flatten)
    E = max 0 (qss.map List.sum).sum ∧ B = (bss.map fun row => (row.map (max 0)).sum).sum ∧ E ≤ B
      ∧ (0 < B → B * (E / B) = E ∧ 0 ≤ E / B ∧ E / B ≤ 1) := by
  intro B E
  have hE : E = max 0 (qss.map List.sum).sum := by
    simp only [E, factorDerivative_eq, List.sum_flatten]
  have hBsum : B = (bss.map fun row => (row.map (max 0)).sum).sum := by
    simp only [B, summedBound_eq, List.map_flatten, List.sum_flatten, List.map_map, Function.comp_def]
  have hEB : E ≤ B := by
    have := summed_dominates' _ _ (forall₂_flatten _ _ h)
    simpa only [E, B, summedBound_eq, factorDerivative_eq] using this
  refine ⟨hE, hBsum, hEB, fun hB => ⟨mul_div_cancel₀ E hB.ne', div_nonneg ?_ hB.le, (div_le_one hB).mpr hEB⟩⟩
  exact le_max_left _ _

/-- the two-leaf style comparison, read as a ratio test against `E = max(0, fd)` (also for `B = 0`) -/
theorem confirm_iff_ratio (B fd r : ℚ) (hB0 : 0 ≤ B) (hEB : max 0 fd ≤ B) :
    (0 < fd ∧ B * r < fd) ↔ (0 < max 0 fd ∧ r < max 0 fd / B) := by
  rcases eq_or_lt_of_le hB0 with hB | hB
  · have hfd : fd ≤ 0 := by
      have h1 : fd ≤ max 0 fd := le_max_right _ _
      rw [← hB] at hEB; exact le_trans h1 hEB
    rw [max_eq_left hfd]; simp [not_lt.mpr hfd]
  · rw [lt_div_iff₀ hB, mul_comm r B]
    constructor
    · rintro ⟨h0, hlt⟩
      rw [max_eq_right h0.le]; exact ⟨h0, hlt⟩
    · rintro ⟨h0, hlt⟩
      have h0' : 0 < fd := by
        rcases lt_max_iff.mp h0 with hh | hh
        · exact absurd hh (lt_irrefl _)
        · exact hh
      rw [max_eq_right h0'.le] at hlt; exact ⟨h0', hlt⟩

/-- pairwise domination for a list of pairs `(active charge, target charge, separation)` that all move along `+d`
with the same speed (all leaves of the active composite object carry the root's velocity) -/
theorem pairwise_dominated_pairs (pow32 : ℚ → ℚ) (hpow : ∀ x, 0 < x → 0 < pow32 x) (k L : ℚ) (hk : 0 < k)
    (D : ℚ × ℚ × ℚ → ℚ) (hD : Dominates pow32 k L D) (v : ℚ) (hv : 0 < v) (d : Nat)
    (pr : List (ℚ × ℚ × (ℚ × ℚ × ℚ))) (hs : ∀ x ∈ pr, inCube L x.2.2) :
    List.Forall₂ (fun q b => q ≤ max 0 b) (pr.map fun x => trueDeriv D x.1 x.2.1 d x.2.2 v)
      (pr.map fun x => boundDeriv pow32 k x.1 x.2.1 d x.2.2 v) := by
  induction pr with
  | nil => exact .nil
  | cons x xs ih =>
    refine .cons ?_ (ih (fun y hy => hs y (List.mem_cons_of_mem _ hy)))
    have := (rate_dominated_dir pow32 hpow k L hk D hD x.1 x.2.1 v hv d x.2.2 (hs x List.mem_cons_self)).1
    exact le_trans (le_max_right _ _) this

/-- **C04 for the root-unit-active summed handler (kind 7) with the 1/r bound**, under `Dominates` (hence
`_partial`, as for kinds 1–6: the domination of the shipped prefactor over the Ewald derivative is a hypothesis).
`pr` lists ALL (active leaf, target leaf) pairs in loop order as (active charge, target charge, separation); charges
of either sign.  The summed bounding rate dominates the true rate `E = max(0, Σ_all pairs q)`; no warning; an
unconfirmed event leaves all velocities unchanged; the event is confirmed iff `0 < E` and `r < E/B`. -/
theorem root_one_over_r_sound_partial (pow32 : ℚ → ℚ) (hpow : ∀ x, 0 < x → 0 < pow32 x) (k L : ℚ) (hk : 0 < k)
    (D : ℚ × ℚ × ℚ → ℚ) (hD : Dominates pow32 k L D)
    (c : Consts ℚ) (uc : Bool) (et : Time ℚ) (ist branches : List (CNode ℚ))
    (v : ℚ) (hv : 0 < v) (d : Nat) (pr : List (ℚ × ℚ × (ℚ × ℚ × ℚ))) (hs : ∀ x ∈ pr, inCube L x.2.2)
    (r : ℚ) {st' cf w cs ins u}
    (h : sendRoot Ops.rat c 7 uc et ist branches
          (pr.map fun x => boundDeriv pow32 k x.1 x.2.1 d x.2.2 v) (pr.map fun x => trueDeriv D x.1 x.2.1 d x.2.2 v)
          (.unit r) = .out st' cf w cs ins u) :
    let B := summedBound Ops.rat (pr.map fun x => boundDeriv pow32 k x.1 x.2.1 d x.2.2 v)
    let E := max 0 (pr.map fun x => trueDeriv D x.1 x.2.1 d x.2.2 v).sum
    E ≤ B ∧ w = false ∧ (cf = false → velocities st' = velocities branches) ∧ (cf = true ↔ 0 < E ∧ r < E / B) := by
  intro B E
  have hF := pairwise_dominated_pairs pow32 hpow k L hk D hD v hv d pr hs
  have hEB : E ≤ B := by
    have := summed_dominates' _ _ hF
    simp only [E, B, summedBound_eq]; exact this
  obtain ⟨h1, h2, h3, _, _⟩ := sendRoot_spec _ _ 7 (by decide) _ _ _ _ _ _ _ h
  rw [factorDerivative_eq] at h1 h3
  have hB0 : 0 ≤ B := summedBound_nonneg _
  refine ⟨hEB, ?_, fun hc => (h2 hc).2, ?_⟩
  · rw [h3]; exact warns_false_of_le _ _ (le_trans (le_max_right _ _) hEB)
  · rw [h1, confirmLeaf_iff, draw_unit_rat]
    exact confirm_iff_ratio B _ r hB0 hEB

/-! ### non-vacuity: two dipoles, the whole dipole `(0,·)` moves; event time `5 + 1/2` -/

def dipAct : CNode ℚ :=
  ⟨⟨[0], [15/100, 2/10, 3/10], 0, some [1, 0, 0], some ⟨5, 1/4⟩⟩, 1,
   [(⟨[0, 0], [1/10, 2/10, 3/10], 1, some [1, 0, 0], some ⟨5, 1/4⟩⟩, 1/2),
    (⟨[0, 1], [2/10, 2/10, 3/10], -1, some [1, 0, 0], some ⟨5, 1/4⟩⟩, 1/2)]⟩

-- pairs (0,0)-(3,0), (0,0)-(3,1), (0,1)-(3,0), (0,1)-(3,1): bounds (2, -1, -1/2, 1) -> B = 3; true derivatives
-- (3/2, -1, -1/4, 1/2) -> Σ = 3/4 (the pair with bound -1 <= 0 has true derivative -1 < 0: dropping it, and the pair
-- (-1/2, -1/4), would give 2 instead).  r = 1/8: 3/8 < 3/4 confirmed;  r = 1/2: 3/2 >= 3/4 rejected
-- (a rate of 2 would have confirmed it).
example : confirmed? (sendRoot Ops.rat exC 7 true ⟨5, 1/2⟩ (timeSliceState Ops.rat exC ⟨5, 1/2⟩ [dipB, dipAct])
    [dipAct, dipB] [2, -1, -1/2, 1] [3/2, -1, -1/4, 1/2] (.unit (1/8))) = some true := by decide +kernel
example : confirmed? (sendRoot Ops.rat exC 7 true ⟨5, 1/2⟩ (timeSliceState Ops.rat exC ⟨5, 1/2⟩ [dipB, dipAct])
    [dipAct, dipB] [2, -1, -1/2, 1] [3/2, -1, -1/4, 1/2] (.unit (1/2))) = some false := by decide +kernel

/-- the hypotheses of `root_thinning_exact` are met by the example (`B = 3`, `E = 3/4`) … -/
example : ∃ st' w cs ins u, sendRoot Ops.rat exC 7 true ⟨5, 1/2⟩ (timeSliceState Ops.rat exC ⟨5, 1/2⟩ [dipB, dipAct])
    [dipAct, dipB] [2, -1, -1/2, 1] [3/2, -1, -1/4, 1/2] (.unit (1/8)) = .out st' true w cs ins u :=
  exists_out_of_confirmed? (by decide +kernel)
example : (0:ℚ) < summedBound Ops.rat [2, -1, -1/2, 1]
    ∧ max 0 ([3/2, -1, -1/4, 1/2] : List ℚ).sum ≤ summedBound Ops.rat [2, -1, -1/2, 1] := by decide +kernel
/-- … and those of `root_thinned_rate` by its 2×2 table -/
example : List.Forall₂ (List.Forall₂ fun (q b : ℚ) => q ≤ max 0 b) [[3/2, -1], [-1/4, 1/2]] [[2, -1], [-1/2, 1]] := by
  refine .cons (.cons ?_ (.cons ?_ .nil)) (.cons (.cons ?_ (.cons ?_ .nil)) .nil) <;> norm_num

/-- what the confirmed event does: the velocity of the whole dipole `(0,·)` (root and both leaves) moves to the
whole dipole `(3,·)` (both leaves get `[1,0,0]`, the root `1/2·[1,0,0] + 1/2·[1,0,0]`) -/
example : (match sendRoot Ops.rat exC 7 true ⟨5, 1/2⟩ (timeSliceState Ops.rat exC ⟨5, 1/2⟩ [dipB, dipAct])
    [dipAct, dipB] [2, -1, -1/2, 1] [3/2, -1, -1/4, 1/2] (.unit (1/8)) with
    | .out st' _ _ _ _ _ => velocities st'
    | _ => []) = [none, none, none, some [1, 0, 0], some [1, 0, 0], some [1, 0, 0]] := by decide +kernel
/-- the unconfirmed one leaves all velocities as they were -/
example : (match sendRoot Ops.rat exC 7 true ⟨5, 1/2⟩ (timeSliceState Ops.rat exC ⟨5, 1/2⟩ [dipB, dipAct])
    [dipAct, dipB] [2, -1, -1/2, 1] [3/2, -1, -1/4, 1/2] (.unit (1/2)) with
    | .out st' _ _ _ _ _ => velocities st'
    | _ => []) = velocities [dipAct, dipB] := by decide +kernel
/-- kind 8 (no thinning) passes the velocity without any rate -/
example : confirmed? (sendRoot Ops.rat exC 8 false ⟨5, 1/2⟩ [] [dipAct, dipB] [] [] (.value 0)) = some true := by
  decide +kernel

end JF.C04
