import JF.Model.Cells
import Mathlib.Tactic.Linarith
/-!
# C16 — The cell grid partitions the box; neighbour/offset relations form a torus
-/
namespace JF.C16
open JF JF.Cells

theorem dot_nil (a : List Int) : dot a [] = 0 := by cases a <;> rfl

end JF.C16
