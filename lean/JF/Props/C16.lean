import JF.Model.Cells
import JF.Lemmas.CellsSys
import JF.Lemmas.CellsGeom
import JF.Lemmas.CellsStep
/-!
# C16 — The cell grid partitions the box; neighbour/offset relations form a torus

Model: `JF.Model.Cells` (after `cuboid_cells.py`, `cuboid_periodic_cells.py`).

Contents
* A, B — identifiers and torus laws (index bijection, the constructor enumerates the identifiers, nearby /
  neighbour = index arithmetic mod n, symmetric, reflexive).  They hold for EVERY scalar type, every float
  stepper and every fuel, i.e. also for the binary64 reading the driver runs: they only concern identifiers.
* C — positions in the exact reading (`ℚ`): partition of the box, `position_to_cell` is total on the closed box the
  assertion admits, `relative_cell` / `translate` as `(c ∓ r) mod n`, mutual inverses, translation invariance of
  nearby.  Hypotheses `Geo` / `GeoIdeal` describe the recorded extents (within `side/8` of / equal to the ideal
  `[i·side, (i+1)·side]`); they are NOT derived from the constructor, whose float stepping has no exact-reading
  counterpart — part D is the bridge.
* D — rounding-abstract reading of the stepping loops (`extent_sound`, `cells_abut`, `last_cell_reaches_top`,
  `position_in_recorded_extent`), any scalar type.
* E — binary64: the top of the box is covered, kernel-evaluated on `Float` on the witnesses of the former finding F2.

Historical note (finding F2, repaired).  Until the repair of `cuboid_cells.py`, `position_to_cell` and the stepping
loops of the constructor used the raw quotient `int(p / side)`.  For the top floats of the box (`p = nextafter(L, 0)`,
cell counts 3, 6, 7, 9, 12, …) the binary64 quotient rounds up to `n`: the position was looked up in a wrong cell or
raised `IndexError`, and the stepping ended the last cell's `cell_max` below `nextafter(L, 0)`, so the recorded extents
did not cover `[0, L)`.  Part E then held the counterexample theorems `float_digit_overflow`,
`float_position_in_wrong_cell`, `float_position_index_error`, `float_last_cell_max_below_top`, and `extent_sound`
could only speak about the raw digit (extents never covered a scalar of raw digit `n`).  The repair introduced
`CuboidCells._cell_identifier` (`min(int(p / side), n - 1)`, model `cellDigit`) for `position_to_cell` and the stepping
loops, and bounds the upper stepping by the system length (the last `cell_max` is the largest float below `L`).
`float_digit_overflow` is kept as the fact that the raw quotient still overflows (the clamp is live); the other three
are replaced by the positive facts `float_position_in_last_cell`, `float_corner_position_in_last_cell`,
`float_last_cell_max_is_top` on the same witnesses.
-/
namespace JF.C16
open JF JF.Cells

/-! ## A. identifiers -/

/-- **index bijection**: for cell counts `n_d ≥ 1` the list index `Σ ident[d]·cumulative_product[d]` is a
bijection between the identifiers `Π [0, n_d)` and `[0, Π n_d)`. -/
theorem index_bijection (n : List Int) (hp : ∀ x ∈ n, 1 ≤ x) :
    (∀ a, Valid n a → 0 ≤ flat n a ∧ flat n a < numberOfCells n) ∧
    (∀ a b, Valid n a → Valid n b → flat n a = flat n b → a = b) ∧
    (∀ k, 0 ≤ k → k < numberOfCells n → ∃ a, Valid n a ∧ flat n a = k) :=
  ⟨fun _ h => flat_bounds h, fun _ _ ha hb h => flat_inj ha hb h,
   fun k h0 h1 => ⟨unflat n k, unflat_valid hp h0 h1⟩⟩

example : Valid [3, 5, 7] [2, 4, 6] ∧ flat [3, 5, 7] [2, 4, 6] = 104 ∧ numberOfCells [3, 5, 7] = 105 := by
  refine ⟨by simp [Valid], by decide, by decide⟩

section anyScalar
variable {α : Type} [Add α] [Sub α] [Mul α] [Div α] [Neg α] [LT α] [DecidableLT α] [LE α] [DecidableLE α] [BEq α]

omit [Add α] [Sub α] [Neg α] in
/-- **the constructor enumerates the identifiers**: whenever `CuboidCells.__init__` succeeds (any scalar
type, any stepping functions), there are exactly `Π n_d` cells, cell number `k` carries a valid identifier
whose list index is `k` (so the constructor's own `assert` can never fire), and every valid identifier is
carried by exactly one cell. -/
theorem constructor_enumerates_identifiers (o : Ops α) (st : Stepper α) (fuel : Nat) (periodic : Bool)
    (lengths : List α) (cps : List Int) (layers : Int) (s : System α)
    (h : create o st fuel periodic lengths cps layers = .ok s) :
    (s.cells.size : Int) = numberOfCells s.perSide ∧
    (∀ k (hk : k < s.cells.size), Valid s.perSide s.cells[k].ident ∧ flat s.perSide s.cells[k].ident = k) ∧
    (∀ t, Valid s.perSide t → ∃ k, ∃ hk : k < s.cells.size, s.cells[k].ident = t ∧
        ∀ k' (hk' : k' < s.cells.size), s.cells[k'].ident = t → k' = k) := by
  have w := (create_wf o st fuel periodic lengths cps layers s h).1
  refine ⟨w.size, w.ident, ?_⟩
  intro t ht
  obtain ⟨k, hk, _, _, e⟩ := cellOfIdent_valid w ht
  exact ⟨k, hk, e, fun k' hk' e' => ident_inj w k' k hk' hk (by rw [e, e'])⟩

/-- non-vacuity: the constructor succeeds (native binary64, evaluated by the kernel) -/
example : (match create Ops.float Stepper.float 100 true [1.0, 2.0] [4, 3] 1 with
    | .ok s => s.cells.size | .error _ => 0) = 12 := by decide +kernel
end anyScalar

/-! ## B. nearby cells, neighbours (identifier arithmetic modulo `n`) -/

section torus
variable {α : Type} {s : System α}

/-- the cell a successful lookup of `t` returns (total version used to describe `mapE`) -/
private def lookup (s : System α) (t : List Int) : Cell α :=
  match cellOfIdent s t with
  | .ok c => c
  | .error _ => ⟨[], [], []⟩

private theorem lookup_valid (w : WF s) {t : List Int} (hv : Valid s.perSide t) :
    cellOfIdent s t = .ok (lookup s t) ∧ (lookup s t).ident = t ∧
      ∃ k, ∃ hk : k < s.cells.size, lookup s t = s.cells[k] := by
  obtain ⟨k, hk, _, hc, e⟩ := cellOfIdent_valid w hv
  have : lookup s t = s.cells[k] := by simp [lookup, hc]
  exact ⟨by rw [this]; exact hc, by rw [this]; exact e, k, hk, this⟩

private theorem lookup_self (w : WF s) (k : Nat) (hk : k < s.cells.size) :
    lookup s s.cells[k].ident = s.cells[k] := by
  simp [lookup, cellOfIdent_self w k hk]

/-- **nearby_spec (periodic)**: `_yield_nearby_cells` of `CuboidPeriodicCells` never fails and yields exactly
the cells whose identifier is `(ident + k) mod n` with `|k_d| ≤ neighbor_layers` in every direction. -/
theorem nearby_spec_periodic (w : WF s) (hp : s.periodic = true) (k : Nat) (hk : k < s.cells.size) :
    ∃ l, nearby s s.cells[k] = .ok l ∧
      ∀ k' (hk' : k' < s.cells.size),
        (s.cells[k'] ∈ l ↔ NearMod s.layers s.perSide s.cells[k].ident s.cells[k'].ident) := by
  have hlen : s.cells[k].ident.length = s.perSide.length := (w.ident k hk).1.length_eq
  have hmem := fun t => mem_nearbyIdents_periodic (ℓ := s.layers) w.layers (n := s.perSide) t hlen
  refine ⟨(nearbyIdents s.periodic s.perSide s.layers s.cells[k].ident).map (lookup s), ?_, ?_⟩
  · unfold nearby
    apply mapE_ok
    intro t ht
    rw [hp] at ht
    exact (lookup_valid w (((hmem t).mp ht).valid w.pos)).1
  · intro k' hk'
    rw [hp, List.mem_map]
    constructor
    · rintro ⟨t, ht, e⟩
      have hn := (hmem t).mp ht
      have := (lookup_valid w (hn.valid w.pos)).2.1
      rw [e] at this; rw [this]; exact hn
    · intro hn
      exact ⟨_, (hmem _).mpr hn, lookup_self w k' hk'⟩

/-- every element of the periodic nearby list is a cell of the system -/
theorem nearby_periodic_subset (w : WF s) (hp : s.periodic = true) (k : Nat) (hk : k < s.cells.size)
    (l : List (Cell α)) (hl : nearby s s.cells[k] = .ok l) :
    ∀ c ∈ l, ∃ k', ∃ hk' : k' < s.cells.size, c = s.cells[k'] := by
  have hlen : s.cells[k].ident.length = s.perSide.length := (w.ident k hk).1.length_eq
  have hmem := fun t => mem_nearbyIdents_periodic (ℓ := s.layers) w.layers (n := s.perSide) t hlen
  have : nearby s s.cells[k] = .ok ((nearbyIdents s.periodic s.perSide s.layers s.cells[k].ident).map (lookup s)) := by
    unfold nearby
    apply mapE_ok
    intro t ht
    rw [hp] at ht
    exact (lookup_valid w (((hmem t).mp ht).valid w.pos)).1
  rw [this] at hl
  cases hl
  intro c hc
  rw [hp, List.mem_map] at hc
  obtain ⟨t, ht, rfl⟩ := hc
  exact (lookup_valid w (((hmem t).mp ht).valid w.pos)).2.2

/-- **nearby_spec (non-periodic)**: `CuboidCells._yield_nearby_cells` yields exactly the cells whose
identifier lies in the window `ident ± neighbor_layers` clipped to the grid. -/
theorem nearby_spec_clipped (w : WF s) (hp : s.periodic = false) (k : Nat) (hk : k < s.cells.size) :
    ∃ l, nearby s s.cells[k] = .ok l ∧
      ∀ k' (hk' : k' < s.cells.size),
        (s.cells[k'] ∈ l ↔ NearClip s.layers s.perSide s.cells[k].ident s.cells[k'].ident) := by
  have hlen : s.cells[k].ident.length = s.perSide.length := (w.ident k hk).1.length_eq
  have hmem := fun t => mem_nearbyIdents_clipped (ℓ := s.layers) w.layers (n := s.perSide) t hlen
  refine ⟨(nearbyIdents s.periodic s.perSide s.layers s.cells[k].ident).map (lookup s), ?_, ?_⟩
  · unfold nearby
    apply mapE_ok
    intro t ht
    rw [hp] at ht
    exact (lookup_valid w ((hmem t).mp ht).valid).1
  · intro k' hk'
    rw [hp, List.mem_map]
    constructor
    · rintro ⟨t, ht, e⟩
      have hn := (hmem t).mp ht
      have := (lookup_valid w hn.valid).2.1
      rw [e] at this; rw [this]; exact hn
    · intro hn
      exact ⟨_, (hmem _).mpr hn, lookup_self w k' hk'⟩

/-- **nearby is symmetric and reflexive** (periodic and non-periodic cell systems) -/
theorem nearby_symm (w : WF s) (k k' : Nat) (hk : k < s.cells.size) (hk' : k' < s.cells.size)
    (l l' : List (Cell α)) (hl : nearby s s.cells[k] = .ok l) (hl' : nearby s s.cells[k'] = .ok l')
    (h : s.cells[k'] ∈ l) : s.cells[k] ∈ l' := by
  cases hp : s.periodic
  · obtain ⟨m, hm, sp⟩ := nearby_spec_clipped w hp k hk
    obtain ⟨m', hm', sp'⟩ := nearby_spec_clipped w hp k' hk'
    rw [hl] at hm; cases hm; rw [hl'] at hm'; cases hm'
    exact (sp' k hk).mpr (((sp k' hk').mp h).symm (w.ident k hk).1)
  · obtain ⟨m, hm, sp⟩ := nearby_spec_periodic w hp k hk
    obtain ⟨m', hm', sp'⟩ := nearby_spec_periodic w hp k' hk'
    rw [hl] at hm; cases hm; rw [hl'] at hm'; cases hm'
    exact (sp' k hk).mpr (((sp k' hk').mp h).symm (w.ident k hk).1)

theorem self_mem_nearby (w : WF s) (k : Nat) (hk : k < s.cells.size) :
    ∃ l, nearby s s.cells[k] = .ok l ∧ s.cells[k] ∈ l := by
  cases hp : s.periodic
  · obtain ⟨m, hm, sp⟩ := nearby_spec_clipped w hp k hk
    exact ⟨m, hm, (sp k hk).mpr (NearClip.refl w.layers (w.ident k hk).1)⟩
  · obtain ⟨m, hm, sp⟩ := nearby_spec_periodic w hp k hk
    exact ⟨m, hm, (sp k hk).mpr (NearMod.refl w.layers (w.ident k hk).1)⟩

/-- **neighbor_spec (periodic)**: `neighbor_cell(c, d, ±)` never fails and returns the cell whose identifier is
that of `c` with entry `d` replaced by `(c_d ± 1) mod n_d`. -/
theorem neighbor_spec_periodic (w : WF s) (hp : s.periodic = true) (k : Nat) (hk : k < s.cells.size)
    (d : Nat) (hd : d < s.perSide.length) (positive : Bool) :
    ∃ k', ∃ hk' : k' < s.cells.size, neighbor s s.cells[k] (d : Int) positive = .ok (some s.cells[k']) ∧
      s.cells[k'].ident = modifyDir s.cells[k].ident d
        (fun v => (v + (if positive then 1 else -1)) % s.perSide.getD d 1) := by
  have hv := (w.ident k hk).1
  have hb := getD_bounds d hv hd
  have hn : 1 ≤ s.perSide.getD d 1 := by omega
  have hv' : Valid s.perSide (modifyDir s.cells[k].ident d
      (fun v => (v + (if positive then 1 else -1)) % s.perSide.getD d 1)) :=
    valid_modifyDir d _ hv hd ⟨Int.emod_nonneg _ (by omega), Int.emod_lt_of_pos _ (by omega)⟩
  obtain ⟨k', hk', _, hlook, hid⟩ := cellOfIdent_valid w hv'
  refine ⟨k', hk', ?_, hid⟩
  have hdim : (d : Int) < (s.lengths.length : Int) := by rw [← w.dim]; exact_mod_cast hd
  unfold neighbor
  simp only [Int.natCast_nonneg, decide_true, hdim, Bool.and_self, Bool.not_true, Bool.false_eq_true, if_false,
    Int.toNat_natCast, neighborIdent, hp, if_true]
  cases positive
  · simp only [Bool.false_eq_true, if_false] at hlook ⊢
    have e : (fun v : Int => (v - 1) % s.perSide.getD d 1) = (fun v => (v + -1) % s.perSide.getD d 1) := by
      funext v; rfl
    rw [e, hlook]
  · simp only [if_true] at hlook ⊢
    rw [hlook]

/-- **neighbor_spec (non-periodic)**: `None` exactly at the border of the grid, otherwise the cell with entry
`d` of the identifier changed by `± 1`. -/
theorem neighbor_spec_clipped (w : WF s) (hp : s.periodic = false) (k : Nat) (hk : k < s.cells.size)
    (d : Nat) (hd : d < s.perSide.length) (positive : Bool) :
    let i := s.cells[k].ident.getD d 0
    let i' := i + (if positive then 1 else -1)
    (¬ (0 ≤ i' ∧ i' < s.perSide.getD d 1) → neighbor s s.cells[k] (d : Int) positive = .ok none) ∧
    ((0 ≤ i' ∧ i' < s.perSide.getD d 1) →
      ∃ k', ∃ hk' : k' < s.cells.size, neighbor s s.cells[k] (d : Int) positive = .ok (some s.cells[k']) ∧
        s.cells[k'].ident = modifyDir s.cells[k].ident d (fun v => v + (if positive then 1 else -1))) := by
  intro i i'
  have hv := (w.ident k hk).1
  have hb := getD_bounds d hv hd
  have hdim : (d : Int) < (s.lengths.length : Int) := by rw [← w.dim]; exact_mod_cast hd
  constructor
  · intro hout
    unfold neighbor
    simp only [Int.natCast_nonneg, decide_true, hdim, Bool.and_self, Bool.not_true, Bool.false_eq_true, if_false,
      Int.toNat_natCast, neighborIdent, hp]
    cases positive
    · simp only [i', i, Bool.false_eq_true, if_false] at hout ⊢
      have : s.cells[k].ident.getD d 0 - 1 < 0 := by omega
      rw [if_pos this]
    · simp only [i', i, if_true] at hout ⊢
      have : s.cells[k].ident.getD d 0 + 1 ≥ s.perSide.getD d 1 := by omega
      rw [if_pos this]
  · intro hin
    have hv' : Valid s.perSide (modifyDir s.cells[k].ident d (fun v => v + (if positive then 1 else -1))) :=
      valid_modifyDir d _ hv hd hin
    obtain ⟨k', hk', _, hlook, hid⟩ := cellOfIdent_valid w hv'
    refine ⟨k', hk', ?_, hid⟩
    unfold neighbor
    simp only [Int.natCast_nonneg, decide_true, hdim, Bool.and_self, Bool.not_true, Bool.false_eq_true, if_false,
      Int.toNat_natCast, neighborIdent, hp]
    cases positive
    · simp only [i', i, Bool.false_eq_true, if_false] at hin hlook ⊢
      have : ¬ (s.cells[k].ident.getD d 0 - 1 < 0) := by omega
      have e : (fun v : Int => v - 1) = (fun v => v + -1) := by funext v; rfl
      simp only [this, if_false, e, hlook]
    · simp only [i', i, if_true] at hin hlook ⊢
      have : ¬ (s.cells[k].ident.getD d 0 + 1 ≥ s.perSide.getD d 1) := by omega
      simp only [this, if_false, hlook]

/-- the zero cell is the cell with the all-zero identifier -/
theorem zeroCell_spec (w : WF s) : ∃ h0 : 0 < s.cells.size, zeroCell s = .ok s.cells[0] ∧
    s.cells[0].ident = List.replicate s.perSide.length 0 := by
  have hN := numberOfCells_pos w.pos
  have h0 : 0 < s.cells.size := by have := w.size; omega
  refine ⟨h0, ?_, ?_⟩
  · have := pyGet_nat s.cells 0 h0
    simpa [zeroCell] using this
  · obtain ⟨v, f⟩ := w.ident 0 h0
    exact flat_inj v (valid_replicate_zero w.pos) (by rw [f, flat_replicate_zero]; simp)

end torus

/-! ## C. positions: exact reading (`ℚ`)

`Geo s`: the per-direction data of the system are consistent (`n_d ≥ 1`, `side_d > 0`, `L_d = n_d·side_d`; this
is what `side = L / n` gives in exact arithmetic) and every recorded extent is within `side/8` of the ideal
extent `[i·side, (i+1)·side]` — the float-stepped extents of the real class are within one ulp of it.
`GeoIdeal s`: the recorded extents are the ideal ones (half-open reading `[min, max)`). -/

structure Geo (s : System ℚ) : Prop where
  dir : DirOK s.perSide s.side s.lengths
  ext : ∀ k (h : k < s.cells.size), ExtNear s.side s.cells[k].ident s.cells[k].cmin s.cells[k].cmax

structure GeoIdeal (s : System ℚ) : Prop where
  dir : DirOK s.perSide s.side s.lengths
  ext : ∀ k (h : k < s.cells.size), ExtIdeal s.side s.cells[k].ident s.cells[k].cmin s.cells[k].cmax

theorem GeoIdeal.geo {s : System ℚ} (g : GeoIdeal s) : Geo s :=
  ⟨g.dir, fun k h => (g.ext k h).near g.dir.pos.2⟩

section exact
variable {s : System ℚ}

private theorem positionToCell_eq (pos : List ℚ) (h : assertInBox s.lengths pos = true) :
    positionToCell Ops.rat s pos = cellOfIdent s (posIdent s.side s.perSide pos) := by
  unfold positionToCell
  unfold assertInBox at h
  simp only [h, Bool.not_true, Bool.false_eq_true, if_false]
  rfl

/-- **partition**: with ideal extents, every position of the box `Π [0, L_d)` is mapped by `position_to_cell`
to a cell whose extent `Π [min_d, max_d)` contains it, and no other cell's extent contains it. -/
theorem partition (w : WF s) (g : GeoIdeal s) (p : List ℚ) (hb : InBox s.lengths p) :
    ∃ k, ∃ hk : k < s.cells.size, positionToCell Ops.rat s p = .ok s.cells[k] ∧
      Contains s.cells[k].cmin s.cells[k].cmax p ∧
      ∀ k' (hk' : k' < s.cells.size), Contains s.cells[k'].cmin s.cells[k'].cmax p → k' = k := by
  obtain ⟨ha, hv, hc⟩ := posIdent_valid g.dir hb
  obtain ⟨k, hk, _, hlook, hid⟩ := cellOfIdent_valid w hv
  refine ⟨k, hk, ?_, ?_, ?_⟩
  · rw [positionToCell_eq p ha, hlook]
  · exact (hc _ _ _ (g.ext k hk) (w.ident k hk).1).mpr hid
  · intro k' hk' hcont
    have := (hc _ _ _ (g.ext k' hk') (w.ident k' hk').1).mp hcont
    exact ident_inj w k' k hk' hk (by rw [this, hid])

/-- **position_to_cell is total on the closed box**: every position the assertion of `position_to_cell` admits
(`0 ≤ p_d ≤ L_d`, the system length itself included) is mapped to a cell of the system — no `IndexError`, no lookup
through a negative or wrapped index (`_cell_identifier` clamps the digit to `n_d − 1`). -/
theorem position_to_cell_total (w : WF s) (dir : DirOK s.perSide s.side s.lengths) (p : List ℚ)
    (hb : InClosedBox s.lengths p) :
    ∃ k, ∃ hk : k < s.cells.size, positionToCell Ops.rat s p = .ok s.cells[k] ∧
      s.cells[k].ident = posIdent s.side s.perSide p ∧ Valid s.perSide s.cells[k].ident := by
  obtain ⟨ha, hv⟩ := posIdent_valid_closed dir hb
  obtain ⟨k, hk, _, hlook, hid⟩ := cellOfIdent_valid w hv
  exact ⟨k, hk, by rw [positionToCell_eq p ha, hlook], hid, by rw [hid]; exact hv⟩

/-- the system length itself is mapped to the last cell of its direction -/
theorem system_length_in_last_cell {side : ℚ} {n : ℤ} (hs : 0 < side) :
    cellDigit Ops.rat side n (n * side) = n - 1 := cellDigit_rat_top hs

example : InClosedBox [1, 2] [1, 2] ∧ ¬ InBox [1, 2] [1, 2] := by simp [InClosedBox, InBox]

/-- **relative_spec**: `relative_cell(c, r)` never fails and returns the cell with identifier `(c − r) mod n` -/
theorem relative_spec (w : WF s) (g : Geo s) (k r : Nat) (hk : k < s.cells.size) (hr : r < s.cells.size) :
    ∃ k', ∃ hk' : k' < s.cells.size, relativeCell Ops.rat s s.cells[k] s.cells[r] = .ok s.cells[k'] ∧
      s.cells[k'].ident = subMod s.perSide s.cells[k].ident s.cells[r].ident := by
  obtain ⟨ha, hd⟩ := mid_digits false g.dir (g.ext k hk) (g.ext r hr)
  have hv : Valid s.perSide (subMod s.perSide s.cells[k].ident s.cells[r].ident) :=
    subMod_valid w.pos (w.ident k hk).1.length_eq (w.ident r hr).1.length_eq
  obtain ⟨k', hk', _, hlook, hid⟩ := cellOfIdent_valid w hv
  refine ⟨k', hk', ?_, hid⟩
  unfold relativeCell midPosition
  rw [positionToCell_eq _ ha, hd]
  exact hlook

/-- **translate_spec**: `translate(c, o)` never fails and returns the cell with identifier `(c + o) mod n` -/
theorem translate_spec (w : WF s) (g : Geo s) (k r : Nat) (hk : k < s.cells.size) (hr : r < s.cells.size) :
    ∃ k', ∃ hk' : k' < s.cells.size, translate Ops.rat s s.cells[k] s.cells[r] = .ok s.cells[k'] ∧
      s.cells[k'].ident = addMod s.perSide s.cells[k].ident s.cells[r].ident := by
  obtain ⟨ha, hd⟩ := mid_digits true g.dir (g.ext k hk) (g.ext r hr)
  have hv : Valid s.perSide (addMod s.perSide s.cells[k].ident s.cells[r].ident) :=
    addMod_valid w.pos (w.ident k hk).1.length_eq (w.ident r hr).1.length_eq
  obtain ⟨k', hk', _, hlook, hid⟩ := cellOfIdent_valid w hv
  refine ⟨k', hk', ?_, hid⟩
  unfold translate midPosition
  rw [positionToCell_eq _ ha, hd]
  exact hlook

/-- **translate inverts relative_cell**: `translate(r, relative_cell(c, r)) = c` -/
theorem translate_relative (w : WF s) (g : Geo s) (k r : Nat) (hk : k < s.cells.size) (hr : r < s.cells.size) :
    ∃ k', ∃ hk' : k' < s.cells.size, relativeCell Ops.rat s s.cells[k] s.cells[r] = .ok s.cells[k'] ∧
      translate Ops.rat s s.cells[r] s.cells[k'] = .ok s.cells[k] := by
  obtain ⟨k', hk', h1, e1⟩ := relative_spec w g k r hk hr
  obtain ⟨k'', hk'', h2, e2⟩ := translate_spec w g r k' hr hk'
  refine ⟨k', hk', h1, ?_⟩
  rw [e1, addMod_subMod (w.ident k hk).1 (w.ident r hr).1.length_eq] at e2
  have := ident_inj w k'' k hk'' hk e2
  subst this; exact h2

/-- **relative_cell inverts translate**: `relative_cell(translate(c, o), c) = o` -/
theorem relative_translate (w : WF s) (g : Geo s) (k r : Nat) (hk : k < s.cells.size) (hr : r < s.cells.size) :
    ∃ k', ∃ hk' : k' < s.cells.size, translate Ops.rat s s.cells[k] s.cells[r] = .ok s.cells[k'] ∧
      relativeCell Ops.rat s s.cells[k'] s.cells[k] = .ok s.cells[r] := by
  obtain ⟨k', hk', h1, e1⟩ := translate_spec w g k r hk hr
  obtain ⟨k'', hk'', h2, e2⟩ := relative_spec w g k' k hk' hk
  refine ⟨k', hk', h1, ?_⟩
  rw [e1, subMod_addMod (w.ident r hr).1 (w.ident k hk).1.length_eq] at e2
  have := ident_inj w k'' r hk'' hr e2
  subst this; exact h2

/-- **translation invariance of nearby** (needed by C10/C18): in a periodic cell system `c'` is nearby `c`
iff `relative_cell(c', c)` is nearby the zero cell. -/
theorem nearby_translation_invariant (w : WF s) (g : Geo s) (hp : s.periodic = true)
    (k k' : Nat) (hk : k < s.cells.size) (hk' : k' < s.cells.size) :
    ∃ (l l0 : List (Cell ℚ)) (z : Cell ℚ) (rel : Cell ℚ),
      nearby s s.cells[k] = .ok l ∧ zeroCell s = .ok z ∧ nearby s z = .ok l0 ∧
      relativeCell Ops.rat s s.cells[k'] s.cells[k] = .ok rel ∧
      (s.cells[k'] ∈ l ↔ rel ∈ l0) := by
  obtain ⟨l, hl, sp⟩ := nearby_spec_periodic w hp k hk
  obtain ⟨h0, hz, ez⟩ := zeroCell_spec w
  obtain ⟨l0, hl0, sp0⟩ := nearby_spec_periodic w hp 0 h0
  obtain ⟨j, hj, hrel, ej⟩ := relative_spec w g k' k hk' hk
  refine ⟨l, l0, s.cells[0], s.cells[j], hl, hz, hl0, hrel, ?_⟩
  rw [sp k' hk', sp0 j hj, ez, ej]
  exact nearMod_iff_relative (w.ident k' hk').1 (w.ident k hk).1.length_eq

/-- in exact arithmetic `side = L / n` gives `L = n · side`: the `DirOK` part of `Geo` is established by the
constructor for positive box lengths -/
theorem constructor_dirOK (st : Stepper ℚ) (fuel : Nat) (periodic : Bool) (lengths : List ℚ)
    (cps : List Int) (layers : Int) (s : System ℚ) (hL : ∀ l ∈ lengths, 0 < l)
    (h : create Ops.rat st fuel periodic lengths cps layers = .ok s) :
    DirOK s.perSide s.side s.lengths := by
  obtain ⟨w, _, e1, _, _, e3⟩ := create_wf Ops.rat st fuel periodic lengths cps layers s h
  rw [e3, e1]
  exact dirOK_of_div _ _ (by rw [w.dim, e1]) w.pos hL

/-! ### non-vacuity of `WF`, `Geo`, `GeoIdeal` -/

/-- a 2×2 grid on the box `[0,1) × [0,2)` with ideal extents -/
def exIdeal : System ℚ :=
  ⟨true, [1, 2], [2, 2], 1, [1/2, 1], [1, 2],
   #[⟨[0, 0], [0, 0], [1/2, 1]⟩, ⟨[1, 0], [1/2, 0], [1, 1]⟩, ⟨[0, 1], [0, 1], [1/2, 2]⟩, ⟨[1, 1], [1/2, 1], [1, 2]⟩]⟩

example : WF exIdeal ∧ GeoIdeal exIdeal := by
  refine ⟨⟨by simp [exIdeal], rfl, rfl, rfl, ?_, by simp [exIdeal]⟩, ⟨?_, ?_⟩⟩
  · intro k hk
    have hk' : k < 4 := hk
    have : k = 0 ∨ k = 1 ∨ k = 2 ∨ k = 3 := by omega
    rcases this with rfl | rfl | rfl | rfl <;>
      exact ⟨by simp [exIdeal, Valid], by simp [exIdeal, flat, cumProdFrom, dot]⟩
  · simp [exIdeal, DirOK]
  · intro k hk
    have hk' : k < 4 := hk
    have : k = 0 ∨ k = 1 ∨ k = 2 ∨ k = 3 := by omega
    rcases this with rfl | rfl | rfl | rfl <;> simp [exIdeal, ExtIdeal] <;> norm_num

/-- the constructor itself, read over `ℚ` with a fixed-point stepper (step 1/16), succeeds and records the
closed extents `[i·side, (i+1)·side − 1/16]`, which satisfy the `side/8` hypothesis of `Geo` -/
example : ((create Ops.rat ⟨(· + 1/16), (· - 1/16)⟩ 10 true [1, 2] [2, 2] 1).toOption.map
    (fun s => s.cells.toList.map (fun c => (c.ident, c.cmin, c.cmax)))) =
    some [([0, 0], [0, 0], [7/16, 15/16]), ([1, 0], [1/2, 0], [15/16, 15/16]),
          ([0, 1], [0, 1], [7/16, 31/16]), ([1, 1], [1/2, 1], [15/16, 31/16])] := by
  decide +kernel

example : ExtNear [1/2, 1] [1, 0] [1/2, 0] [15/16, 15/16] := by
  simp only [ExtNear, and_true]; norm_num [abs_le]

end exact

/-! ## D. the float-stepping loops, rounding-abstract reading -/

section stepping
variable {α : Type} [Mul α] [Div α] [LT α] [DecidableLT α] [LE α] [DecidableLE α] [BEq α]

/-- **extent_sound**: for any scalar type and any mutually inverse stepping functions along which the cell digit
`_cell_identifier(x) = min(int(x / side), n − 1)` is monotone and changes by at most one per step, and for which the
largest scalar below the system length has digit `n − 1` (`StepLaws`; true of binary64 as long as a cell is wider than
an ulp), the loops of `CuboidCells.__init__`, when they terminate, return for every cell `i < n` the two ends of the
maximal run of consecutive scalars below the system length that `position_to_cell` sends to index `i`:
`max < L`, `digit(max) = i`, and `next_up(max) < L ∧ digit(next_up(max)) = i + 1` for an inner cell resp.
`next_up(max) ≥ L` for the last cell (**its `cell_max` is the largest scalar below the system length**);
`digit(min) = i`, `digit(next_down(min)) = i − 1` (`min` of the first cell is the literal `0·side`). -/
theorem extent_sound (o : Ops α) (st : Stepper α) (fuel : Nat) (side : α) (n : Int) (len : α) (i : Int)
    (laws : StepLaws o st side n len) :
    (∀ u, i < n → (len ≤ o.ofInt (i + 1) * side ∨ i ≤ cellDigit o side n (o.ofInt (i + 1) * side)) →
        upperPos o st fuel side n len i = .ok u →
        u < len ∧ cellDigit o side n u = i ∧
          (i + 1 < n → st.up u < len ∧ cellDigit o side n (st.up u) = i + 1) ∧ (i + 1 = n → len ≤ st.up u)) ∧
    (∀ l, o.ofInt 0 < o.ofInt i * side → cellDigit o side n (o.ofInt i * side) ≤ i → lowerPos o st fuel side n i = .ok l →
        cellDigit o side n l = i ∧ cellDigit o side n (st.down l) = i - 1) ∧
    (¬ (o.ofInt 0 < o.ofInt i * side) → lowerPos o st fuel side n i = .ok (o.ofInt i * side)) :=
  ⟨fun u hi hs h => upperPos_sound o st fuel side n len i laws hi hs u h,
   fun l hp hs h => lowerPos_sound o st fuel side n len i laws hp hs l h,
   fun hp => lowerPos_origin o st fuel side n i hp⟩

/-- **cells abut**: under the order laws of the scalars (`OrderLaws`: total order, `up x` is the successor of
`x`, the cell digit is monotone), the scalar following `cell_max` of cell `i` is exactly `cell_min` of cell `i+1`
(both as characterised by `extent_sound`): consecutive cells neither overlap nor leave a scalar out. -/
theorem cells_abut {α : Type} [Div α] [LT α] [LE α] (o : Ops α) (st : Stepper α) (side : α) (n : Int)
    (laws : OrderLaws o st side n) (i : Int) (u l : α)
    (hu : cellDigit o side n u = i) (hu' : cellDigit o side n (st.up u) = i + 1)
    (hl : cellDigit o side n l = i + 1) (hl' : cellDigit o side n (st.down l) = i) : st.up u = l :=
  extents_abut o st side n laws i u l hu hu' hl hl'

/-- **the last cell reaches the top of the box**: with `cell_max = u` of the last cell as characterised by
`extent_sound` (`next_up(u) ≥ L`), every scalar below the system length is `≤ u`: the recorded extents leave no scalar
of `[0, L)` out at the top. -/
theorem last_cell_reaches_top {α : Type} [Div α] [LT α] [LE α] (o : Ops α) (st : Stepper α) (side : α) (n : Int)
    (laws : OrderLaws o st side n) (lin : LinearLaws α) (len u x : α) (hu : len ≤ st.up u) (hx : ¬ len ≤ x) : x ≤ u :=
  (laws.total x u).elim id fun h => absurd (lin.trans _ _ _ hu (laws.succ _ _ h)) hx

/-- **a position lies in the recorded extent of the cell `position_to_cell` maps it to**: for a scalar `x` below the
system length with `_cell_identifier(x) = j`, and `lo`, `hi` the recorded `cell_min`, `cell_max` of cell `j` as
characterised by `extent_sound` (the first cell's `cell_min` is only known to be the origin: `lo ≤ x` is then the
hypothesis `0 ≤ x`), `lo ≤ x ≤ hi`. -/
theorem position_in_recorded_extent {α : Type} [Div α] [LT α] [LE α] (o : Ops α) (st : Stepper α) (side : α)
    (n : Int) (laws : OrderLaws o st side n) (lin : LinearLaws α) (len : α) (j : Int) (lo hi x : α)
    (hx : cellDigit o side n x = j) (hxl : ¬ len ≤ x)
    (hlo : lo ≤ x ∨ cellDigit o side n (st.down lo) = j - 1)
    (hhi : j + 1 < n → cellDigit o side n (st.up hi) = j + 1) (hhi' : ¬ j + 1 < n → len ≤ st.up hi) :
    lo ≤ x ∧ x ≤ hi :=
  ⟨hlo.elim id (cellMin_le_position o st side n laws lin j lo x hx),
   position_le_cellMax o st side n laws lin len j hi x hx hxl hhi hhi'⟩

/-- non-vacuity of `StepLaws`: a fixed-point grid of spacing `δ ≤ side` over `ℚ` (2 cells of side 1/2, length 1) -/
example : StepLaws Ops.rat ⟨(· + 1/16), (· - 1/16)⟩ (1/2) 2 ((2 : ℤ) * (1/2)) :=
  stepLaws_grid (1/2) (1/16) 2 (by norm_num) (by norm_num) (by norm_num)

/-- non-vacuity: fixed-point scalars (`ℤ`, unit = one grid step), `int(x / side)` = floor division, `n` cells -/
private def fixOps : Ops Int := ⟨id, id, fun x y => x % y, id, fun _ => false, fun _ => 0, id⟩
example (side n : Int) (hs : 1 ≤ side) :
    OrderLaws fixOps ⟨(· + 1), (· - 1)⟩ side n ∧ StepLaws fixOps ⟨(· + 1), (· - 1)⟩ side n (n * side) ∧
      LinearLaws Int := by
  have dmono : ∀ x y : Int, x ≤ y → cellDigit fixOps side n x ≤ cellDigit fixOps side n y := by
    intro x y h
    have : x / side ≤ y / side := Int.ediv_le_ediv (by omega) h
    show min (x / side) (n - 1) ≤ min (y / side) (n - 1)
    omega
  refine ⟨⟨fun x y => by omega, fun x y h1 h2 => by omega, fun x y h => by show x + 1 ≤ y; omega,
    fun x => by show x - 1 + 1 = x; omega, dmono⟩,
    ⟨fun x => by show x - 1 + 1 = x; omega, fun x => by show x + 1 - 1 = x; omega,
     fun x => dmono _ _ (by show x - 1 ≤ x; omega), ?_, fun x => by omega, fun x h => by show ¬ n * side ≤ x - 1; omega,
     ?_⟩, ⟨fun x y z => Int.le_trans, fun x y h => by omega⟩⟩
  · intro x
    have : x / side ≤ (x - 1) / side + 1 := by
      have : (x - 1) / side + 1 = (x - 1 + 1 * side) / side := (Int.add_mul_ediv_right _ _ (by omega)).symm
      rw [this]
      exact Int.ediv_le_ediv (by omega) (by omega)
    show min (x / side) (n - 1) ≤ min ((x - 1) / side) (n - 1) + 1
    omega
  · intro x h _
    have : n - 1 ≤ (x - 1) / side := by
      have e : n - 1 = ((n - 1) * side) / side := (Int.mul_ediv_cancel _ (by omega)).symm
      rw [e]
      apply Int.ediv_le_ediv (by omega)
      have : (n - 1) * side = n * side - side := by rw [Int.sub_mul]; omega
      omega
    show min ((x - 1) / side) (n - 1) = n - 1
    omega

end stepping

/-! ## E. binary64: the top of the box is covered (witnesses of the former finding F2), proved on native `Float` by
kernel evaluation -/

/-- the largest float below 1.0 -/
def belowOne : Float := Float.ofBits 0x3FEFFFFFFFFFFFFF

/-- the raw quotient still overflows: `int(p / (1/3)) = 3` for `p = 1 − 2⁻⁵³` although `0 ≤ p < L = 1` (likewise for
6, 7, 9, 12 cells per side) — the clamp of `_cell_identifier` is live: it returns `n − 1` there -/
theorem float_digit_overflow :
    [3, 6, 7, 9, 12].all (fun n =>
      digit Ops.float ((1.0 : Float) / Ops.float.ofInt n) belowOne == n &&
      cellDigit Ops.float ((1.0 : Float) / Ops.float.ofInt n) n belowOne == n - 1) = true := by
  decide +kernel

/-- `cell_min[d] <= p[d] <= cell_max[d]` in every direction -/
def cellContains (c : Cell Float) (p : List Float) : Bool :=
  (zipWith3' (fun lo hi x => decide (lo ≤ x) && decide (x ≤ hi)) c.cmin c.cmax p).all id && c.cmin.length == p.length

/-- on the 3×5×7 grid of the unit box, `position_to_cell((1 − 2⁻⁵³, 0.1, 0.1))` returns cell `(2, 0, 0)`, whose
recorded extent contains the position (before the repair: cell `(0, 1, 0)`, not containing it) -/
theorem float_position_in_last_cell :
    (match create Ops.float Stepper.float 1000 true [1.0, 1.0, 1.0] [3, 5, 7] 1 with
     | .ok s =>
       (match positionToCell Ops.float s [belowOne, 0.1, 0.1] with
        | .ok c => c.ident == [2, 0, 0] && cellContains c [belowOne, 0.1, 0.1]
        | .error _ => false)
     | .error _ => false) = true := by
  decide +kernel

/-- … and `position_to_cell((1 − 2⁻⁵³,)*3)` returns the last cell `(2, 4, 6)`, whose recorded extent contains the
position (before the repair: `IndexError`) -/
theorem float_corner_position_in_last_cell :
    (match create Ops.float Stepper.float 1000 true [1.0, 1.0, 1.0] [3, 5, 7] 1 with
     | .ok s =>
       (match positionToCell Ops.float s [belowOne, belowOne, belowOne] with
        | .ok c => c.ident == [2, 4, 6] && cellContains c [belowOne, belowOne, belowOne]
        | .error _ => false)
     | .error _ => false) = true := by
  decide +kernel

/-- the constructor's stepping ends the last cell of every direction at `1 − 2⁻⁵³`, the largest float below the system
length, and every other cell below it: the recorded extents cover the top of `[0, 1)` (before the repair the last cell
of direction 0 ended at `1 − 2⁻⁵²`) -/
theorem float_last_cell_max_is_top :
    (match create Ops.float Stepper.float 1000 true [1.0, 1.0, 1.0] [3, 5, 7] 1 with
     | .ok s => s.cells.toList.all (fun c =>
         (zipWith3' (fun (i n : Int) (hi : Float) =>
            if i + 1 == n then hi.toBits == 0x3FEFFFFFFFFFFFFF else decide (hi < belowOne)) c.ident s.perSide c.cmax).all id)
     | .error _ => false) = true := by
  decide +kernel

/-- one direction of the unit box with `n = 1 … 12` cells: the first cell starts at `0.0`, the float following each
`cell_max` is the next cell's `cell_min`, the last `cell_max` is `1 − 2⁻⁵³`, and `position_to_cell` maps every recorded
`cell_min` / `cell_max` to its own cell -/
theorem float_unit_box_tiled :
    (List.range 12).all (fun k =>
      match create Ops.float Stepper.float 1000 false [1.0] [(k : Int) + 1] 1 with
      | .ok s =>
        let cs := s.cells.toList
        (cs.head?.map (fun c => c.cmin.map Float.toBits)) == some [0] &&
        (cs.getLast?.map (fun c => c.cmax.map Float.toBits)) == some [0x3FEFFFFFFFFFFFFF] &&
        (List.zipWith (fun (a b : Cell Float) => (a.cmax.map (fun x => (fNextUp x).toBits)) == b.cmin.map Float.toBits)
          cs cs.tail).all id &&
        cs.all (fun c =>
          (match positionToCell Ops.float s c.cmin with | .ok c' => c'.ident == c.ident | .error _ => false) &&
          (match positionToCell Ops.float s c.cmax with | .ok c' => c'.ident == c.ident | .error _ => false))
      | .error _ => false) = true := by
  decide +kernel

end JF.C16
