import JF.Props.C09PoolsClosed
import JF.Lemmas.C09PoolsClosed2Run
import JF.Lemmas.C09PoolsClosed2Formula
/-!
# C09, last clause — the loose ends of `JF/Props/C09PoolsClosed.lean` part B (E46)

(a) **the very first call** of `get_event_handlers_to_run` along `Reach2` (`cs = []`): `demand_le_pool_first2`,
    `no_pool_exhausted_first2` (no `Fits2`, no `selSound` needed: on the initial state, at rest, the factor and active-root-unit taggers
    yield nothing); `no_pool_exhausted_every_call2`: B at EVERY call of every run;
(b) **instances** for the other shipped wirings of the world of composite objects without cells: `dipoles/atom_factors.ini`,
    `dipoles/dipole_factors_{inside_first, outside_first, ratio}.ini`, `water/single_molecule.ini` (`hyp2_*`, `selSound_*`,
    `no_pool_exhausted_*`), and the every-call form for `dipole_motion.ini`;
(c) **non-vacuity of B**: a concrete 7-leg `Reach2` run of `dipole_motion.ini` with both mode switches
    (`JF/Lemmas/C09PoolsClosed2Run.lean`: `reach7`), to which B1 / B2 / the first-call theorem are applied (`Example`);
(d) **`hard_disk_dipoles.ini`** (81 dipoles): `shortfalls_hard_disk_dipoles`, kernel-checked through the closed formula of
    `JF/Lemmas/C09PoolsClosed2Formula.lean` (`demandMax_leaf_inter` / `demandMax_leaf_intra`, `shortfallsF`, `shortfalls_nil_of_F`),
    and `no_pool_exhausted_hard_disk_dipoles`.

Nothing here is `_partial`.  Remaining hypotheses are those of part B: `Hyp2` (decidable), `Fits2`, what `SysStep2` assumes.
Suggestion for the generator (`harness/translate_pools.py`): emit `shortfallsF pool_X = []` (`decide +kernel`, cheap for every
configuration) and derive `shortfalls_X` by `shortfalls_nil_of_F`, instead of skipping the theorem when the brute-force cost is high.
-/
namespace JF.C09Pools.Closed2
open JF JF.Act JF.Heap JF.Sched JF.Med JF.CW2 JF.C14 JF.MediatorLoop JF.Sys JF.Sys2 JF.Composite JF.C12 JF.SystemInv2 JF.C09Pools

section
variable {env : CW2.Env ℚ} {mw : ModeWiring} {S : TaggerIdx} {needs : HandlerId → Bool}

/-- a state at rest has no independent active identifier -/
theorem independent_rest {d : Nat} {L : List ℚ} (nPer : Nat) {cs : List (CObj ℚ)} (hg : AllGood d L cs) (hr : AllRest cs) :
    independent nPer (flags cs) = [] := by
  unfold independent
  rw [List.flatMap_eq_nil_iff]
  intro k hk
  have hlen : (flags cs).length = cs.length := by simp [flags]
  rw [hlen] at hk
  have hk' := List.mem_range.mp hk
  rw [flags_getElem?, List.getElem?_eq_getElem hk']
  simp only [Option.map_some]
  exact independentOf_rest (hg _ (List.getElem_mem hk')) (hr _ (List.getElem_mem hk')) nPer k

/-- on a state at rest every tagger of this world yields at most one in-state, the identifier-reading ones none -/
theorem yield2_rest_le (env : CW2.Env ℚ) {cs : List (CObj ℚ)} (hg : AllGood env.d env.L cs) (hr : AllRest cs) (T : TaggerIdx)
    (cls : TaggerClass) :
    (CW2.yieldCls env T cls cs).length ≤ (match cls with | .noInState | .activeGlobalState => 1 | _ => 0) := by
  have hb : branches env.nPer (flags cs) = [] := by unfold branches; rw [independent_rest env.nPer hg hr]; rfl
  unfold CW2.yieldCls CW2.yieldF
  simp only [hb]
  cases cls <;> simp [FactorMaps.taggerYield, FactorMaps.yieldAll, CellTaggers.dedupe]

/-- **(a) demand ≤ pool in the very first call** (`cs = []`: the state is the initial one, at rest): every tagger of the wiring —
in particular the start-of-run tagger `S`, the only one that is asked — yields at most `pool` in-states.  No `Fits2`, no `selSound`:
on a state at rest the factor taggers and the active-root-unit taggers yield nothing. -/
theorem demand_le_pool_first2 (pc : PoolCfg) (hw : pc.w = mw.w) (ok : shortfalls pc = [])
    {s : Sys2} (hi : Init2 env mw s) (T : TaggerIdx) (hT : T < mw.w.n) :
    (CW2.yieldCls env T (mw.w.tagger T).cls s.cs).length ≤ (mw.w.tagger T).pool := by
  have hp := pool_ge_of_no_shortfall ok (T := T) (by rw [hw]; exact hT)
  rw [hw] at hp
  refine Nat.le_trans ?_ hp
  have hy := yield2_rest_le env hi.good hi.rest T (mw.w.tagger T).cls
  unfold demandBound
  rw [hw]
  generalize (mw.w.tagger T).cls = cls at hy ⊢
  cases cls <;> (dsimp only at hy ⊢; omega)

/-- **(a) — B for the very first call: the first pass of `SingleProcessMediator.run` does not raise `TagActivatorError`** along
`Reach2` (`cs = []`; whatever the candidate times; the leg is not assumed to succeed) -/
theorem no_pool_exhausted_first2 (pc : PoolCfg) (H : Hyp2 env mw S) (hw : pc.w = mw.w) (ok : shortfalls pc = [])
    {os : List (Oracle XTime)} {s : Sys2} (hr : Reach2 env mw S needs os [] s) {o : Oracle XTime}
    (hy : o.yields = fun T => CW2.yieldCls env T (mw.w.tagger T).cls s.cs) :
    leg (mwire mw.w S needs) (specI xcfg) s.med o ≠ .error .tagActivatorError := by
  intro herr
  rcases joint_inv2 H hr with ⟨_, hi⟩ | ⟨cs0, cl, E, tl, sq, he, _⟩
  · obtain ⟨hSn, _, _⟩ := start_spec H.hS
    have hte := leg_tagErr herr
    have hmed := hi.med
    have hst : s.med.act.started = false := by rw [hmed]; rfl
    have hpre : s.med.preceding = none := by rw [hmed]; rfl
    rw [hpre] at hte
    have hf : first mw.w.wires s.med.act.ts S o.yields = none := getToRun_first_tagErr hst hte
    have hts : s.med.act.ts = initAct mw.w.wires := by rw [hmed]; rfl
    rw [hts] at hf
    let W : World Unit := ⟨fun T _ => o.yields T, fun _ x => x, fun _ => True⟩
    have hd := demand_le_pool_first2 pc hw ok hi S hSn
    have := first_isSome mw.w W S H.hS () (by show (o.yields S).length ≤ _; rw [hy]; exact hd)
    change (first mw.w.wires (initAct mw.w.wires) S o.yields).isSome = true at this
    rw [hf] at this; cases this
  · simp at he

/-- **B at EVERY call**: no pass of `SingleProcessMediator.run` along `Reach2` — the first one included — raises
`TagActivatorError` (`hgo`: the run has not committed the end-of-run event) -/
theorem no_pool_exhausted_every_call2 (pc : PoolCfg) (H : Hyp2 env mw S) (hw : pc.w = mw.w) (ok : shortfalls pc = [])
    (hsel : selSound mw pc S = true) {os : List (Oracle XTime)} {cs : List (Committed XTime)} {s : Sys2}
    (hr : Reach2 env mw S needs os cs s) (hgo : ∀ cl, cs.getLast? = some cl → cl.stop = false)
    (fit : Fits2 pc env s.cs) {o : Oracle XTime}
    (hy : o.yields = fun T => CW2.yieldCls env T (mw.w.tagger T).cls s.cs) :
    leg (mwire mw.w S needs) (specI xcfg) s.med o ≠ .error .tagActivatorError := by
  cases hl : cs.getLast? with
  | none =>
    have := List.getLast?_eq_none_iff.mp hl
    subst this
    exact no_pool_exhausted_first2 pc H hw ok hr hy
  | some cl => exact no_pool_exhausted_closed2 pc H hw ok hsel hr hl (hgo cl hl) fit hy

end

end JF.C09Pools.Closed2

/-! ## (b) the other shipped wirings of this world -/

namespace JF.C09Pools.Closed2
open JF JF.Act JF.Act.Gen JF.Heap JF.Sched JF.Med JF.CW2 JF.C14 JF.MediatorLoop JF.Sys JF.Sys2 JF.Composite JF.C12 JF.SystemInv2
  JF.C09Pools JF.C09Pools.Gen

theorem hyp2_atom_factors (env : CW2.Env ℚ) (hL : BoxOK env.d env.L) : Hyp2 env mcfg_dipoles_atom_factors 6 :=
  ⟨hL, cfg_sound_dipoles_atom_factors, by decide, by decide, modeSound_dipoles_atom_factors⟩
theorem hyp2_dipole_factors_inside_first (env : CW2.Env ℚ) (hL : BoxOK env.d env.L) :
    Hyp2 env mcfg_dipoles_dipole_factors_inside_first 6 :=
  ⟨hL, cfg_sound_dipoles_dipole_factors_inside_first, by decide, by decide, modeSound_dipoles_dipole_factors_inside_first⟩
theorem hyp2_dipole_factors_outside_first (env : CW2.Env ℚ) (hL : BoxOK env.d env.L) :
    Hyp2 env mcfg_dipoles_dipole_factors_outside_first 6 :=
  ⟨hL, cfg_sound_dipoles_dipole_factors_outside_first, by decide, by decide, modeSound_dipoles_dipole_factors_outside_first⟩
theorem hyp2_dipole_factors_ratio (env : CW2.Env ℚ) (hL : BoxOK env.d env.L) : Hyp2 env mcfg_dipoles_dipole_factors_ratio 6 :=
  ⟨hL, cfg_sound_dipoles_dipole_factors_ratio, by decide, by decide, modeSound_dipoles_dipole_factors_ratio⟩
theorem hyp2_single_molecule (env : CW2.Env ℚ) (hL : BoxOK env.d env.L) : Hyp2 env mcfg_water_single_molecule 5 :=
  ⟨hL, cfg_sound_water_single_molecule, by decide, by decide, modeSound_water_single_molecule⟩

theorem selSound_atom_factors : selSound mcfg_dipoles_atom_factors pool_dipoles_atom_factors 6 = true := by decide +kernel
theorem selSound_dipole_factors_inside_first :
    selSound mcfg_dipoles_dipole_factors_inside_first pool_dipoles_dipole_factors_inside_first 6 = true := by decide +kernel
theorem selSound_dipole_factors_outside_first :
    selSound mcfg_dipoles_dipole_factors_outside_first pool_dipoles_dipole_factors_outside_first 6 = true := by decide +kernel
theorem selSound_dipole_factors_ratio : selSound mcfg_dipoles_dipole_factors_ratio pool_dipoles_dipole_factors_ratio 6 = true := by
  decide +kernel
theorem selSound_single_molecule : selSound mcfg_water_single_molecule pool_water_single_molecule 5 = true := by decide +kernel

section
variable {needs : HandlerId → Bool} {os : List (Oracle XTime)} {cs : List (Committed XTime)} {s : Sys2} {o : Oracle XTime}

/-- **`dipoles/atom_factors.ini`: no pass of any run raises `TagActivatorError`** (first call included) -/
theorem no_pool_exhausted_atom_factors (env : CW2.Env ℚ) (hL : BoxOK env.d env.L)
    (hr : Reach2 env mcfg_dipoles_atom_factors 6 needs os cs s) (hgo : ∀ cl, cs.getLast? = some cl → cl.stop = false)
    (fit : Fits2 pool_dipoles_atom_factors env s.cs)
    (hy : o.yields = fun T => CW2.yieldCls env T (mcfg_dipoles_atom_factors.w.tagger T).cls s.cs) :
    leg (mwire mcfg_dipoles_atom_factors.w 6 needs) (specI xcfg) s.med o ≠ .error .tagActivatorError :=
  no_pool_exhausted_every_call2 pool_dipoles_atom_factors (hyp2_atom_factors env hL) rfl shortfalls_dipoles_atom_factors
    selSound_atom_factors hr hgo fit hy

/-- **`dipoles/dipole_factors_inside_first.ini`** -/
theorem no_pool_exhausted_dipole_factors_inside_first (env : CW2.Env ℚ) (hL : BoxOK env.d env.L)
    (hr : Reach2 env mcfg_dipoles_dipole_factors_inside_first 6 needs os cs s)
    (hgo : ∀ cl, cs.getLast? = some cl → cl.stop = false) (fit : Fits2 pool_dipoles_dipole_factors_inside_first env s.cs)
    (hy : o.yields = fun T => CW2.yieldCls env T (mcfg_dipoles_dipole_factors_inside_first.w.tagger T).cls s.cs) :
    leg (mwire mcfg_dipoles_dipole_factors_inside_first.w 6 needs) (specI xcfg) s.med o ≠ .error .tagActivatorError :=
  no_pool_exhausted_every_call2 pool_dipoles_dipole_factors_inside_first (hyp2_dipole_factors_inside_first env hL) rfl
    shortfalls_dipoles_dipole_factors_inside_first selSound_dipole_factors_inside_first hr hgo fit hy

/-- **`dipoles/dipole_factors_outside_first.ini`** -/
theorem no_pool_exhausted_dipole_factors_outside_first (env : CW2.Env ℚ) (hL : BoxOK env.d env.L)
    (hr : Reach2 env mcfg_dipoles_dipole_factors_outside_first 6 needs os cs s)
    (hgo : ∀ cl, cs.getLast? = some cl → cl.stop = false) (fit : Fits2 pool_dipoles_dipole_factors_outside_first env s.cs)
    (hy : o.yields = fun T => CW2.yieldCls env T (mcfg_dipoles_dipole_factors_outside_first.w.tagger T).cls s.cs) :
    leg (mwire mcfg_dipoles_dipole_factors_outside_first.w 6 needs) (specI xcfg) s.med o ≠ .error .tagActivatorError :=
  no_pool_exhausted_every_call2 pool_dipoles_dipole_factors_outside_first (hyp2_dipole_factors_outside_first env hL) rfl
    shortfalls_dipoles_dipole_factors_outside_first selSound_dipole_factors_outside_first hr hgo fit hy

/-- **`dipoles/dipole_factors_ratio.ini`** -/
theorem no_pool_exhausted_dipole_factors_ratio (env : CW2.Env ℚ) (hL : BoxOK env.d env.L)
    (hr : Reach2 env mcfg_dipoles_dipole_factors_ratio 6 needs os cs s) (hgo : ∀ cl, cs.getLast? = some cl → cl.stop = false)
    (fit : Fits2 pool_dipoles_dipole_factors_ratio env s.cs)
    (hy : o.yields = fun T => CW2.yieldCls env T (mcfg_dipoles_dipole_factors_ratio.w.tagger T).cls s.cs) :
    leg (mwire mcfg_dipoles_dipole_factors_ratio.w 6 needs) (specI xcfg) s.med o ≠ .error .tagActivatorError :=
  no_pool_exhausted_every_call2 pool_dipoles_dipole_factors_ratio (hyp2_dipole_factors_ratio env hL) rfl
    shortfalls_dipoles_dipole_factors_ratio selSound_dipole_factors_ratio hr hgo fit hy

/-- **`water/single_molecule.ini`** (one molecule of three point masses) -/
theorem no_pool_exhausted_single_molecule (env : CW2.Env ℚ) (hL : BoxOK env.d env.L)
    (hr : Reach2 env mcfg_water_single_molecule 5 needs os cs s) (hgo : ∀ cl, cs.getLast? = some cl → cl.stop = false)
    (fit : Fits2 pool_water_single_molecule env s.cs)
    (hy : o.yields = fun T => CW2.yieldCls env T (mcfg_water_single_molecule.w.tagger T).cls s.cs) :
    leg (mwire mcfg_water_single_molecule.w 5 needs) (specI xcfg) s.med o ≠ .error .tagActivatorError :=
  no_pool_exhausted_every_call2 pool_water_single_molecule (hyp2_single_molecule env hL) rfl shortfalls_water_single_molecule
    selSound_single_molecule hr hgo fit hy

/-- **`dipoles/dipole_motion.ini`, first call included** -/
theorem no_pool_exhausted_dipole_motion_every_call (env : CW2.Env ℚ) (hL : BoxOK env.d env.L)
    (hr : Reach2 env mcfg_dipoles_dipole_motion 10 needs os cs s) (hgo : ∀ cl, cs.getLast? = some cl → cl.stop = false)
    (fit : Fits2 pool_dipoles_dipole_motion env s.cs)
    (hy : o.yields = fun T => CW2.yieldCls env T (mcfg_dipoles_dipole_motion.w.tagger T).cls s.cs) :
    leg (mwire mcfg_dipoles_dipole_motion.w 10 needs) (specI xcfg) s.med o ≠ .error .tagActivatorError :=
  no_pool_exhausted_every_call2 pool_dipoles_dipole_motion (hyp2_dipole_motion env hL) rfl shortfalls_dipoles_dipole_motion
    selSound_dipole_motion hr hgo fit hy

end

end JF.C09Pools.Closed2

/-! ## (c) non-vacuity of B: the theorems apply to the 7-leg run of `dipole_motion.ini` of `JF/Lemmas/C09PoolsClosed2Run.lean`

start of run — `leaf_to_root` — `coulomb_root` — `end_of_chain` (root mode) — `root_to_leaf` — `harmonic_leaf` — `end_of_chain` (leaf
mode): `Reach2` holds (`reach7`), `Hyp2` (`hyp`), `Fits2` (`fits`), so B1/B2 speak about every boundary of this run. -/

namespace JF.C09Pools.Closed2.Example
open JF JF.Act JF.Act.Gen JF.Heap JF.Sched JF.Med JF.CW2 JF.C14 JF.MediatorLoop JF.Sys JF.Sys2 JF.Composite JF.C12 JF.SystemInv2
  JF.C09Pools JF.C09Pools.Gen

/-- the first call does not raise, whatever the candidate times -/
example (cand : HandlerId → XTime) : leg M (specI xcfg) s0.med (mkO s0.cs cand) ≠ .error .tagActivatorError :=
  no_pool_exhausted_first2 pc hyp rfl shortfalls_dipoles_dipole_motion (needs := needs) (.init s0 init0) rfl

/-- after leg 2 (`leaf_to_root` committed: ROOT mode) the next call does not raise; the activated `repulsive_root` (pool 2) yields
exactly two in-states on that state — the bound is attained —, while the deactivated `repulsive_leaf` (pool 1) WOULD yield two: the
activation-awareness is needed -/
example (cand : HandlerId → XTime) : leg M (specI xcfg) s2.med (mkO s2.cs cand) ≠ .error .tagActivatorError :=
  no_pool_exhausted_dipole_motion env box reach2 (cl := c2) (by simp) (by decide +kernel) (fits _ (by decide +kernel)) rfl
example : (CW2.yieldCls env 4 (cfg.tagger 4).cls s2.cs).length = 2 ∧ (cfg.tagger 4).pool = 2 ∧
    (CW2.yieldCls env 2 (cfg.tagger 2).cls s2.cs).length = 2 ∧ (cfg.tagger 2).pool = 1 ∧
    aGet (aStep cfg (absOf s2.mid) 6) 4 = true ∧ aGet (aStep cfg (absOf s2.mid) 6) 2 = false := by decide +kernel

/-- B1 at the end of the run (leaf mode again), B2 for an eighth call, and the every-call form for the whole run -/
example : ∃ E, owner cfg.wires c7.handler = some E ∧
    ∀ T, T < 11 → aGet (aStep cfg (absOf s7.mid) E) T = true →
      (CW2.yieldCls env T (cfg.tagger T).cls s7.cs).length ≤ (cfg.tagger T).pool :=
  demand_le_pool_dipole_motion env box reach7 (cl := c7) (by simp [cs7c]) (by decide +kernel) (fits _ (by decide +kernel))
example (cand : HandlerId → XTime) : leg M (specI xcfg) s7.med (mkO s7.cs cand) ≠ .error .tagActivatorError :=
  no_pool_exhausted_dipole_motion_every_call env box reach7
    (by intro cl h; simp [cs7c] at h; subst h; decide +kernel) (fits _ (by decide +kernel)) rfl

end JF.C09Pools.Closed2.Example

/-! ## (d) `hard_disk_dipoles/hard_disk_dipoles.ini` (81 dipoles): a kernel-checked `shortfalls = []` through the closed formula

`JF/Lemmas/C09PoolsClosed2Formula.lean`: for a factor tagger asked in leaf mode only the demand over all one-chain states is at most
`(nRoots − 1) · maxEntries` (inter-object type) resp. `maxEntries` (intra-object type) — `demandMax_leaf_inter`, `demandMax_leaf_intra`,
proved once from C10's specification of the factor maps; `shortfallsF` is the obligation with that formula, `shortfalls_nil_of_F` the
implication.  For `hard_disk_dipoles.ini`: `sphere` (inter, pool 160) has the bound `80 · 2 = 160` — attained —, `dipole` (intra, pool 1)
the bound 1. -/

namespace JF.C09Pools.Closed2
open JF JF.Act JF.Act.Gen JF.Heap JF.Sched JF.Med JF.CW2 JF.C14 JF.MediatorLoop JF.Sys JF.Sys2 JF.Composite JF.C12 JF.SystemInv2
  JF.C09Pools JF.C09Pools.Gen

/-- the cheap obligation (closed formula), by kernel evaluation -/
theorem shortfallsF_hard_disk_dipoles : shortfallsF pool_hard_disk_dipoles_hard_disk_dipoles = [] := by decide +kernel

/-- **`shortfalls pool_hard_disk_dipoles_hard_disk_dipoles = []`, kernel-checked** (the brute-force evaluation takes ≈ 9 min; the
generator only computed it in Python) -/
theorem shortfalls_hard_disk_dipoles : shortfalls pool_hard_disk_dipoles_hard_disk_dipoles = [] :=
  shortfalls_nil_of_F shortfallsF_hard_disk_dipoles

/-- the formula values: `sphere` 160 = its pool (the bound is attained: `poolcorr` measures 160 on the real tagger), `dipole` 1 -/
example : demandBoundF pool_hard_disk_dipoles_hard_disk_dipoles 0 = 160 ∧ demandBoundF pool_hard_disk_dipoles_hard_disk_dipoles 1 = 1 ∧
    (cfg_hard_disk_dipoles_hard_disk_dipoles.tagger 0).pool = 160 := by decide +kernel

/-- the formula is not trivially satisfied: with the pool of `sphere` lowered by one the cheap obligation reports it -/
example : shortfallsF { pool_hard_disk_dipoles_hard_disk_dipoles with
    w := { cfg_hard_disk_dipoles_hard_disk_dipoles with taggers := cfg_hard_disk_dipoles_hard_disk_dipoles.taggers.map fun t =>
      if t.tag == "sphere" then { t with pool := 159 } else t } } = [(0, 159, 160)] := by decide +kernel

/-- on the small configurations the formula and the brute-force bound agree (two dipoles: `coulomb` 4·1, `harmonic` 1, `repulsive` 1·… ) -/
example : (List.range 3).map (demandBoundF pool_dipoles_dipole_factors_ratio) =
    (List.range 3).map (demandBound pool_dipoles_dipole_factors_ratio) := by decide +kernel
example : shortfallsF pool_dipoles_dipole_motion = [] ∧ shortfallsF pool_water_single_molecule = [] ∧
    shortfallsF pool_hard_disk_dipoles_single_hard_disk_dipole = [] := by decide +kernel

theorem hyp2_hard_disk_dipoles (env : CW2.Env ℚ) (hL : BoxOK env.d env.L) : Hyp2 env mcfg_hard_disk_dipoles_hard_disk_dipoles 5 :=
  ⟨hL, cfg_sound_hard_disk_dipoles_hard_disk_dipoles, by decide, by decide, modeSound_hard_disk_dipoles_hard_disk_dipoles⟩

theorem selSound_hard_disk_dipoles :
    selSound mcfg_hard_disk_dipoles_hard_disk_dipoles pool_hard_disk_dipoles_hard_disk_dipoles 5 = true := by decide +kernel

/-- **`hard_disk_dipoles/hard_disk_dipoles.ini`: no pass of any run raises `TagActivatorError`** (81 dipoles; first call included) -/
theorem no_pool_exhausted_hard_disk_dipoles (env : CW2.Env ℚ) (hL : BoxOK env.d env.L) {needs : HandlerId → Bool}
    {os : List (Oracle XTime)} {cs : List (Committed XTime)} {s : Sys2} {o : Oracle XTime}
    (hr : Reach2 env mcfg_hard_disk_dipoles_hard_disk_dipoles 5 needs os cs s)
    (hgo : ∀ cl, cs.getLast? = some cl → cl.stop = false) (fit : Fits2 pool_hard_disk_dipoles_hard_disk_dipoles env s.cs)
    (hy : o.yields = fun T => CW2.yieldCls env T (mcfg_hard_disk_dipoles_hard_disk_dipoles.w.tagger T).cls s.cs) :
    leg (mwire mcfg_hard_disk_dipoles_hard_disk_dipoles.w 5 needs) (specI xcfg) s.med o ≠ .error .tagActivatorError :=
  no_pool_exhausted_every_call2 pool_hard_disk_dipoles_hard_disk_dipoles (hyp2_hard_disk_dipoles env hL) rfl
    shortfalls_hard_disk_dipoles selSound_hard_disk_dipoles hr hgo fit hy

end JF.C09Pools.Closed2
