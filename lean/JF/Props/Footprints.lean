/-
Footprints — the hypothesis `FootprintsSound` of C09's freshness theorem and of C08's clause-(h) link, discharged for a concrete world.

Model: `JF/Model/ConcreteWorld.lean` (namespace `JF.CW`): point masses (`Kin.step`, C07) + one carried `SingleActiveCellOccupancy`
(`Occ.update`, C11) + the yields of the tagger classes (`CellTaggers`, C10) + handler kind ↦ event kind.  Lemmas:
`JF/Lemmas/ConcreteWorld.lean`.  Everything here holds for an ARBITRARY scalar type (exact or binary64 reading): positions enter the
yields only through `Env.cellOf`.

* `footprintsSound_concrete` — `FootprintsSound c (world env c) (Tr env c)` for every `Supported` wiring;
* `fresh_concrete`, `clause_h_concrete` — C09's freshness / C08's clause (h) at this world without the `FootprintsSound` hypothesis;
  `fresh_cell_bounded`, `fresh_cell_veto`, `fresh_power_bounded`, `fresh_power_bounded_dump` for the shipped coulomb_atoms wirings;
* `Example.run4` … — a run of `cell_bounded.ini` with three point masses (non-vacuity);
* `Example.quiet_commit_needs_premise` — FINDING about the tables: `affects (sampling|dumping|endOfRun) (.cell l) = false` holds only
  under the C11 history premise `StaysInRecordedCell`, which is therefore part of `Tr` for those kinds.
What remains hypothesis: that premise (derived elsewhere from a pending cell-boundary candidate + the scheduler's minimality:
`JF.Links.active_unit_stays_in_recorded_cell`), and the modelling assumptions of the world (point masses, one pair-factor type).
-/
import JF.Lemmas.ConcreteWorld
import JF.Props.C09
import JF.Props.C08
import JF.Gen.Wirings
import JF.Gen.WiringsSound
namespace JF.Footprints
open JF JF.Act JF.CW

section
variable {α : Type} [Add α] [Sub α] [Mul α] [LT α] [DecidableLT α] [BEq α]

/-- **the footprint tables are sound for the concrete world**: for every wiring of this world (`Supported`), if the effect
footprint `affects (tagger E)` and the dependency footprint `reads (tagger T)` are disjoint, a commit by a handler of `E`
(`Tr`: the `Kin.step` of an event of `E`'s kind, then the activator's occupancy update) does not change what `T` yields, as far
as C09's comparison for `T` sees it.  The states are the consistent ones (`CW.G`; consistency is preserved by every raw
transition: `CW.trRaw_consistent`), and a commit of a sampling / dumping / end-of-run event carries the C11 history premise
`StaysInRecordedCell` (see `Example.quiet_commit_needs_premise` below: without it the table entry `affects · (.cell l) = false` is wrong). -/
theorem footprintsSound_concrete (env : Env α) (c : Wiring) (hs : Supported c = true) :
    FootprintsSound c (world env c) (Tr env c) := by
  constructor
  rintro E T ⟨g, hgc⟩ ⟨g', _⟩ htr hd
  obtain ⟨hstep, hocc, hprem⟩ := htr
  show ((yieldCls env (c.tagger T).cls g').map (viewOf (c.tagger T))).Perm
    ((yieldCls env (c.tagger T).cls g).map (viewOf (c.tagger T)))
  simp only [] at hstep hocc hprem
  generalize hO : hasOccOf c = hasOcc at hgc hocc hprem
  have hid := disjoint_ident hd
  have hE := supported_tagger hs E
  -- a commit that does not affect `.ident` keeps the active units
  have quiet_ident : reads (c.tagger T) .ident = true →
      movers g'.us = movers g.us ∧ g'.us.length = g.us.length := by
    intro hr
    have ha : affects (c.tagger E) .ident = false := by
      cases h : affects (c.tagger E) .ident
      · rfl
      · rw [hid h] at hr; cases hr
    have hk : quietKind (c.tagger E).kind = true ∨ (c.tagger E).kind = .cellBoundary := by
      revert ha; unfold affects; cases (c.tagger E).kind <;> simp [quietKind]
    exact movers_of_identQuiet hk hstep
  rcases supported_tagger hs T with hT | ⟨hTc, _⟩
  case inr => rw [hTc]; exact List.Perm.refl _
  simp only [okT, Bool.and_eq_true, Bool.or_eq_true, Bool.not_eq_true', beq_iff_eq] at hT
  obtain ⟨⟨⟨_, _⟩, hTcell⟩, _⟩ := hT
  cases hcls : (c.tagger T).cls with
  | noInState => exact List.Perm.refl _
  | unknown => exact List.Perm.refl _
  | activeRootUnit => exact List.Perm.refl _
  | activeGlobalState =>
    by_cases hv : idsView (c.tagger T) = true
    · obtain ⟨hm, _⟩ := quiet_ident (by simp [reads, hcls, hv])
      simp only [yieldCls, hm]; exact List.Perm.refl _
    · simp [yieldCls, viewOf, hv]
  | factorTypeMap =>
    obtain ⟨hm, hl⟩ := quiet_ident (by simp [reads, hcls])
    simp only [yieldCls, hm, hl]; exact List.Perm.refl _
  | cellBoundary =>
    obtain ⟨hm, _⟩ := quiet_ident (by simp [reads, hcls])
    cases hasOcc with
    | false =>
      simp only [occAfter, Bool.false_eq_true, if_false, Option.some.injEq] at hocc
      simp only [yieldCls, ← hocc]; exact List.Perm.refl _
    | true => simp only [yieldCls, veto_same hgc hocc hm]; exact List.Perm.refl _
  | cellVeto =>
    obtain ⟨hm, _⟩ := quiet_ident (by simp [reads, hcls])
    cases hasOcc with
    | false =>
      simp only [occAfter, Bool.false_eq_true, if_false, Option.some.injEq] at hocc
      simp only [yieldCls, ← hocc]; exact List.Perm.refl _
    | true => simp only [yieldCls, veto_same hgc hocc hm]; exact List.Perm.refl _
  | cellBounding | excludedCells | surplusCells =>
    -- the three classes that read the cell lists: only sampling / dumping / end-of-run commits are disjoint from them
    all_goals
      have hlab : (c.tagger T).label = some 0 ∧ c.labels.length = 1 := by
        rcases hTcell with h | h
        · simp [cellReading, hcls] at h
        · simpa using h
      obtain ⟨hm, _⟩ := quiet_ident (by simp [reads, hcls])
      have hO' : hasOcc = true := by
        rw [← hO]; unfold hasOccOf
        cases hl : c.labels with
        | nil => rw [hl] at hlab; simp at hlab
        | cons _ _ => rfl
      subst hO'
      have hq : quietKind (c.tagger E).kind = true := by
        have ha : affects (c.tagger E) .ident = false := by
          cases h : affects (c.tagger E) .ident
          · rfl
          · have := hid h; simp [reads, hcls] at this
        have hc0 : affects (c.tagger E) (.cell 0) = false := by
          cases h : affects (c.tagger E) (.cell 0)
          · rfl
          · have := disjoint_cell0 hlab.2 hd h; simp [reads, hcls, hlab.1] at this
        rcases hE with hE | ⟨_, hEk⟩
        · simp only [okT, Bool.and_eq_true, Bool.or_eq_true, Bool.not_eq_true', beq_iff_eq] at hE
          obtain ⟨_, hEb⟩ := hE
          revert ha hc0 hEb; unfold affects
          cases (c.tagger E).kind <;> simp [quietKind]
        · simp [affects, hEk] at ha
      have heq : g'.occ = g.occ := occ_quiet hgc hocc hm (hprem rfl hq)
      simp only [yieldCls, heq]; exact List.Perm.refl _

end

/-! ## the corollaries: C09 and the C08 link at the concrete world, WITHOUT the `FootprintsSound` hypothesis -/

section
variable {α : Type} [Add α] [Sub α] [Mul α] [LT α] [DecidableLT α] [BEq α]

/-- **C09 for every run of a sound, supported configuration in the concrete world**: after every commit, for every tagger except
the start-of-run tagger, the pending events are what the tagger generates from scratch for the current global state of point
masses and the current occupancy (identifier tuples for interaction-type taggers, their number for the others) -/
theorem fresh_concrete (env : Env α) (c : Wiring) (S : TaggerIdx) (sound : WiringSound c = true) (hS : c.start? = some S)
    (hs : Supported c = true) {rs : RS (G env c)} (h : Run c (world env c) (Tr env c) S rs) :
    ∀ T, (world env c).live T → Fresh (world env c) rs T :=
  JF.C09.fresh_of_wiringSound c (world env c) (Tr env c) S sound hS (footprintsSound_concrete env c hs) (liveIs env c) h

/-- **clause (h) of C08 at every step of every run in the concrete world**: when a motion-changing event is about to be
committed, every interaction / cell-veto tagger is in its trash list or has nothing pending -/
theorem clause_h_concrete (env : Env α) (c : Wiring) (S : TaggerIdx) (sound : WiringSound c = true) (hS : c.start? = some S)
    (hs : Supported c = true) {rs : RS (G env c)} (hrun : Run c (world env c) (Tr env c) S rs) {E : TaggerIdx}
    (hE : (getT rs.act E).running ≠ []) (hend : (c.tagger E).kind ≠ .endOfRun) (hm : affects (c.tagger E) .motion = true)
    {T : TaggerIdx} (hT : T < c.n) (hb : motionBound (c.tagger T) = true) :
    T ∈ (getW c.wires E).trashes ∨ (getT rs.act T).running = [] :=
  JF.C08.clause_h_of_wiringSound c (world env c) (Tr env c) S sound hS (footprintsSound_concrete env c hs) (liveIs env c)
    hrun hE hend hm hT hb

end

/-! ## the shipped coulomb_atoms configurations live in this world -/

open JF.Act.Gen

theorem supported_cell_bounded : Supported cfg_coulomb_atoms_cell_bounded = true := by decide
theorem supported_cell_veto : Supported cfg_coulomb_atoms_cell_veto = true := by decide
theorem supported_power_bounded : Supported cfg_coulomb_atoms_power_bounded = true := by decide
theorem supported_power_bounded_dump : Supported cfg_coulomb_atoms_power_bounded_dump = true := by decide

/-- the side condition is not trivially true: a configuration with composite objects is outside this world -/
example : Supported cfg_dipoles_dipole_motion = false := by decide

section
variable {α : Type} [Add α] [Sub α] [Mul α] [LT α] [DecidableLT α] [BEq α]

/-- C09 for `coulomb_atoms/cell_bounded.ini`, any number of point masses, any cell grid, any scalar type -/
theorem fresh_cell_bounded (env : Env α) {rs : RS (G env cfg_coulomb_atoms_cell_bounded)}
    (h : Run cfg_coulomb_atoms_cell_bounded (world env _) (Tr env _) 7 rs) :
    ∀ T, (world env cfg_coulomb_atoms_cell_bounded).live T → Fresh (world env _) rs T :=
  fresh_concrete env _ 7 cfg_sound_coulomb_atoms_cell_bounded (by decide) supported_cell_bounded h

/-- C09 for `coulomb_atoms/cell_veto.ini` -/
theorem fresh_cell_veto (env : Env α) {rs : RS (G env cfg_coulomb_atoms_cell_veto)}
    (h : Run cfg_coulomb_atoms_cell_veto (world env _) (Tr env _) 7 rs) :
    ∀ T, (world env cfg_coulomb_atoms_cell_veto).live T → Fresh (world env _) rs T :=
  fresh_concrete env _ 7 cfg_sound_coulomb_atoms_cell_veto (by decide) supported_cell_veto h

/-- C09 for `coulomb_atoms/power_bounded.ini` (no occupancy: the carried one is never updated) -/
theorem fresh_power_bounded (env : Env α) {rs : RS (G env cfg_coulomb_atoms_power_bounded)}
    (h : Run cfg_coulomb_atoms_power_bounded (world env _) (Tr env _) 3 rs) :
    ∀ T, (world env cfg_coulomb_atoms_power_bounded).live T → Fresh (world env _) rs T :=
  fresh_concrete env _ 3 cfg_sound_coulomb_atoms_power_bounded (by decide) supported_power_bounded h

/-- C09 for `coulomb_atoms/power_bounded_dump.ini` -/
theorem fresh_power_bounded_dump (env : Env α) {rs : RS (G env cfg_coulomb_atoms_power_bounded_dump)}
    (h : Run cfg_coulomb_atoms_power_bounded_dump (world env _) (Tr env _) 4 rs) :
    ∀ T, (world env cfg_coulomb_atoms_power_bounded_dump).live T → Fresh (world env _) rs T :=
  fresh_concrete env _ 4 cfg_sound_coulomb_atoms_power_bounded_dump (by decide) supported_power_bounded_dump h

end

/-! ## non-vacuity: a run of `coulomb_atoms/cell_bounded.ini` with three point masses (exact reading)

One-dimensional box of length 1 with 7 cells (one layer of nearby cells), `maximum_number_occupants = 1`, every unit relevant.
Units 0, 1, 2 at 1/14, 3/14, 9/14 (cells 0, 1, 4).  The run: start of run (unit 0 starts moving, speed 1) — a sampling event — a
cell-boundary event (unit 0 enters cell 1, which already holds unit 1) — an accepted `coulomb_nearby` event (lifting 0 → 1; unit 0
goes to the surplus of cell 1). -/

namespace Example

abbrev cfg : Wiring := cfg_coulomb_atoms_cell_bounded

def env : Env Rat :=
  { o := Ops.rat, L := [1], grid := ⟨[7], 1⟩
    cellOf := fun p => (Ops.rat.toInt (p.headD 0 * 7)).toNat
    relevant := fun _ => true }

/-- the commit of `ev` followed by the occupancy update (which succeeds: `h`) -/
def next (g : CState Rat) (ev : Kin.Ev Rat)
    (h : (occAfter env (hasOccOf cfg) g.occ (Kin.step env.o env.L g.us ev)).isSome = true) : CState Rat :=
  ⟨Kin.step env.o env.L g.us ev, (occAfter env (hasOccOf cfg) g.occ (Kin.step env.o env.L g.us ev)).get h⟩

theorem next_occ (g : CState Rat) (ev : Kin.Ev Rat) (h) :
    occAfter env (hasOccOf cfg) g.occ (next g ev h).us = some (next g ev h).occ := by
  simp [next]

/-- `SingleActiveCellOccupancy.initialize` on the three units -/
def c0 : CState Rat :=
  ⟨[⟨[1/14], none, none⟩, ⟨[3/14], none, none⟩, ⟨[9/14], none, none⟩], Occ.init 1 [⟨0, true, 0⟩, ⟨1, true, 1⟩, ⟨2, true, 4⟩]⟩
def c1 : CState Rat := next c0 (.start ⟨0, 0⟩ 0 [1]) (by decide +kernel)
def c2 : CState Rat := next c1 (.keep ⟨0, 1/28⟩) (by decide +kernel)
def c3 : CState Rat := next c2 (.snap ⟨0, 1/14⟩ 0 (1/7)) (by decide +kernel)
def c4 : CState Rat := next c3 (.lift ⟨0, 3/28⟩ 1) (by decide +kernel)

def g0 : G env cfg := ⟨c0, consistent_at_rest env _ _ 1 _ (by decide +kernel)⟩
def g1 : G env cfg := ⟨c1, consistent_after g0.2 (next_occ ..)⟩
def g2 : G env cfg := ⟨c2, consistent_after g1.2 (next_occ ..)⟩
def g3 : G env cfg := ⟨c3, consistent_after g2.2 (next_occ ..)⟩
def g4 : G env cfg := ⟨c4, consistent_after g3.2 (next_occ ..)⟩

/-- the states are what the description says: after the lifting unit 1 is active in cell 1, unit 0 sits in the surplus of cell 1 -/
example : movers c4.us = [1] ∧ c4.occ.activeCell = some 1 ∧ c4.occ.surplus = [(1, [0])] ∧ c4.occ.occupants 4 = [2] := by
  decide +kernel

abbrev W : World (G env cfg) := world env cfg

def s0 : Act := ((first cfg.wires (initAct cfg.wires) 7 (fun T => W.yieldOf T g0)).get (by decide +kernel)).1
def out0 : List (HandlerId × IdTuple) :=
  ((first cfg.wires (initAct cfg.wires) 7 (fun T => W.yieldOf T g0)).get (by decide +kernel)).2
def rs1 : RS (G env cfg) := (commit cfg.wires W ⟨s0, assign (fun _ => none) out0, g0⟩ 7 g1).get (by decide +kernel)
def rs2 : RS (G env cfg) := (commit cfg.wires W rs1 4 g2).get (by decide +kernel)      -- sampling
def rs3 : RS (G env cfg) := (commit cfg.wires W rs2 2 g3).get (by decide +kernel)      -- cell boundary
def rs4 : RS (G env cfg) := (commit cfg.wires W rs3 1 g4).get (by decide +kernel)      -- coulomb_nearby: lifting 0 → 1

/-- the sampling commit is an instance of `Tr`, premise included: at its time unit 0 is still in its recorded cell 0 -/
theorem tr_sampling : Tr env cfg 4 g1 g2 := by
  refine ⟨Or.inl ⟨.keep ⟨0, 1/28⟩, rfl, rfl⟩, next_occ .., fun _ _ a hm _ => ?_⟩
  have h0 : movers c2.us = [0] := by decide +kernel
  have : a = 0 := by
    have := h0.symm.trans hm
    simpa using this.symm
  subst this
  show c1.occ.activeCell = some (unitIn env c2.us 0).cell
  decide +kernel

theorem tr_cell_boundary : Tr env cfg 2 g2 g3 :=
  ⟨Or.inl ⟨.snap ⟨0, 1/14⟩ 0 (1/7), rfl, rfl⟩, next_occ .., fun _ h => absurd h (by decide)⟩

theorem tr_lift : Tr env cfg 1 g3 g4 :=
  ⟨Or.inl ⟨.lift ⟨0, 3/28⟩ 1, rfl, rfl⟩, next_occ .., fun _ h => absurd h (by decide)⟩

theorem commit1 : commit cfg.wires W ⟨s0, assign (fun _ => none) out0, g0⟩ 7 g1 = some rs1 := by simp [rs1]
theorem commit2 : commit cfg.wires W rs1 4 g2 = some rs2 := by simp [rs2]
theorem commit3 : commit cfg.wires W rs2 2 g3 = some rs3 := by simp [rs3]
theorem commit4 : commit cfg.wires W rs3 1 g4 = some rs4 := by simp [rs4]

theorem run3 : Run cfg W (Tr env cfg) 7 rs3 :=
  .step rs2 rs3 2 g3 (.step rs1 rs2 4 g2 (.start (fun _ => none) g0 g1 s0 out0 rs1
    (Option.some_get (x := first cfg.wires (initAct cfg.wires) 7 (fun T => W.yieldOf T g0)) (by decide +kernel)).symm commit1)
    (by decide +kernel) (by decide) (commit_g commit1 ▸ tr_sampling) commit2)
    (by decide +kernel) (by decide) (commit_g commit2 ▸ tr_cell_boundary) commit3

theorem run4 : Run cfg W (Tr env cfg) 7 rs4 :=
  .step rs3 rs4 1 g4 run3 (by decide +kernel) (by decide) (commit_g commit3 ▸ tr_lift) commit4

/-- the corollary applies to this run -/
example : ∀ T, W.live T → Fresh W rs4 T := fresh_cell_bounded env run4

/-- … and speaks about non-empty pending lists: the surplus tagger's one pending event carries the factor (1, 0), the
cell-bounding tagger's the tuple (1, 2) of the active unit and the occupant of the far cell 4, the cell-boundary tagger's `(1,)` -/
example : (getT rs4.act 3).running.map rs4.ids = [some [[1], [0]]] ∧ (getT rs4.act 0).running.map rs4.ids = [some [[1], [2]]]
    ∧ (getT rs4.act 2).running.map rs4.ids = [some [[1]]] ∧ (getT rs4.act 1).running = [] := by decide +kernel

/-- clause (h) instantiated at the run: before the lifting is committed (`rs3`, the committing tagger `coulomb_nearby` changes
motion) the cell-bounding tagger is in its trash list or idle -/
example : 0 ∈ (getW cfg.wires 1).trashes ∨ (getT rs3.act 0).running = [] :=
  clause_h_concrete env cfg 7 cfg_sound_coulomb_atoms_cell_bounded (by decide) supported_cell_bounded
    run3 (by decide +kernel) (by decide) (by decide) (by decide) (by decide)

/-! ### the premise of the quiet commits is needed

Two units: unit 0 active in cell 0 (x = 1/14, velocity 1 since time 0), unit 1 at rest at 1/2 (cell 3, not nearby cell 0).  A
sampling event at time 2/7 time-slices unit 0 to 5/14 (cell 2); `update` then records cell 2, and cell 3 is nearby cell 2: the
cell-bounding tagger yields one tuple before and none afterwards (the excluded-cells tagger none before and one afterwards), although
`affects sampling (.cell 0) = false` declares the pair disjoint.  In a run this does not happen because the cell-boundary event of
unit 0 (time 1/14) is pending and earlier — which is the premise. -/

def d0 : CState Rat :=
  ⟨[⟨[1/14], some [1], some ⟨0, 0⟩⟩, ⟨[1/2], none, none⟩],
   { cap := 1, occupants := fun c => if c = 3 then [1] else [], surplus := [], activeId := some 0, activeCell := some 0 }⟩
def d1 : CState Rat := next d0 (.keep ⟨0, 2/7⟩) (by decide +kernel)

/-- **finding about the table**: without `StaysInRecordedCell` the entry `affects (sampling | dumping | endOfRun) (.cell l) = false`
is wrong for the concrete world — a consistent state, a sampling commit (`keep` + occupancy update), a tagger pair the tables
declare disjoint (`sampling` → `coulomb_cell_bounding`), and the yield changes -/
theorem quiet_commit_needs_premise :
    Consistent env (hasOccOf cfg) d0 ∧ TrNoPremise env (hasOccOf cfg) (cfg.tagger 4).kind d0 d1 ∧
    disjointFP cfg (cfg.tagger 4) (cfg.tagger 0) = true ∧ ¬ StaysInRecordedCell env d0.occ d1.us ∧
    yieldCls env (cfg.tagger 0).cls d0 = [some [[0], [1]]] ∧ yieldCls env (cfg.tagger 0).cls d1 = [] ∧
    yieldCls env (cfg.tagger 1).cls d0 = [] ∧ yieldCls env (cfg.tagger 1).cls d1 = [some [[0], [1]]] ∧
    ¬ ((yieldCls env (cfg.tagger 0).cls d1).map (viewOf (cfg.tagger 0))).Perm
        ((yieldCls env (cfg.tagger 0).cls d0).map (viewOf (cfg.tagger 0))) := by
  refine ⟨by decide +kernel, ⟨Or.inl ⟨.keep ⟨0, 2/7⟩, rfl, rfl⟩, next_occ ..⟩, by decide, ?_, by decide +kernel, by decide +kernel,
    by decide +kernel, by decide +kernel, fun h => absurd h.length_eq (by decide +kernel)⟩
  intro h
  have := h 0 (by decide +kernel) rfl
  revert this
  decide +kernel

end Example

end JF.Footprints
