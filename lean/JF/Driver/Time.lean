import JF.Driver.Core
import JF.Model.Time
import JF.Model.Sampling
namespace JF.Driver
open JF

private def tm (q r : String) : Time Float := ⟨fl q, fl r⟩
private def showT (t : Time Float) : String := s!"{bits t.q} {bits t.r}"
private def showCmp (t u : Time Float) : String :=
  joinSp [b01 (Time.eq t u), b01 (Time.lt t u), b01 (Time.gt t u), b01 (Time.le t u), b01 (Time.ge t u), b01 (Time.cLt t u)]

private def timePure : List String → String
  | ["from_float", x] => showT (Time.fromFloat Ops.float (fl x))
  | ["add", q, r, d] => showT (Time.add Ops.float (tm q r) (fl d))
  | ["sub", q, r, q', r'] => bits (Time.sub (tm q r) (tm q' r'))
  | ["cmp", q, r, q', r'] => showCmp (tm q r) (tm q' r')
  | ["clock", delta, zf, k] => showT (Sampling.clock Ops.float (fl delta) (zf == "1") (nat! k))
  | ["end_time", x] => showT (Sampling.endTime Ops.float (fl x))
  | ["samples_before_end", delta, tend, zf, fuel] =>
      toString (Sampling.samplesBeforeEnd Ops.float (fl delta) (fl tend) (zf == "1") (nat! fuel) 0)
  | _ => "bad-op"

private def z : Time Float := ⟨0.0, 0.0⟩

/-- register sessions (`JF.Time.Regs`): eight registers; the stateless requests ignore them -/
private def timeStep (s : Time.Regs Float) : List String → Time.Regs Float × String
  | ["rnew", i, q, r] => let t := tm q r; (s.put (nat! i) t, showT t)
  | ["rff", i, x] => let t := Time.fromFloat Ops.float (fl x); (s.put (nat! i) t, showT t)
  | ["radd", i, j, d] => let t := Time.add Ops.float (s.get z (nat! j)) (fl d); (s.put (nat! i) t, showT t)
  | ["rupd", i, j] => let s' := s.update z (nat! i) (nat! j); (s', showT (s'.get z (nat! i)))
  | ["rcmp", i, j] => (s, showCmp (s.get z (nat! i)) (s.get z (nat! j)))
  | ["rsub", i, j] => (s, bits (Time.sub (s.get z (nat! i)) (s.get z (nat! j))))
  | ["rdump"] => (s, joinSp (s.map showT))
  | a => (s, timePure a)

def timeComp : Comp := ⟨Time.Regs Float, List.replicate 8 z, timeStep⟩
end JF.Driver
