import JF.Driver.Core
import JF.Model.Time
import JF.Model.Sampling
namespace JF.Driver
open JF

private def tm (q r : String) : Time Float := ⟨fl q, fl r⟩
private def showT (t : Time Float) : String := s!"{bits t.q} {bits t.r}"

def timeComp : Comp := Comp.pure fun
  | ["from_float", x] => showT (Time.fromFloat Ops.float (fl x))
  | ["add", q, r, d] => showT (Time.add Ops.float (tm q r) (fl d))
  | ["sub", q, r, q', r'] => bits (Time.sub (tm q r) (tm q' r'))
  | ["cmp", q, r, q', r'] =>
      let t := tm q r; let u := tm q' r'
      joinSp [b01 (Time.eq t u), b01 (Time.lt t u), b01 (Time.gt t u), b01 (Time.le t u),
              b01 (Time.ge t u), b01 (Time.cLt t u)]
  | ["clock", delta, zf, k] => showT (Sampling.clock Ops.float (fl delta) (zf == "1") (nat! k))
  | ["end_time", x] => showT (Sampling.endTime Ops.float (fl x))
  | ["samples_before_end", delta, tend, zf, fuel] =>
      toString (Sampling.samplesBeforeEnd Ops.float (fl delta) (fl tend) (zf == "1") (nat! fuel) 0)
  | _ => "bad-op"
end JF.Driver
