import JF.Driver.Core
namespace JF.Driver
/-- component `pot` (stub until its model is written) -/
def potComp : Comp := Comp.pure fun _ => "unimplemented"
end JF.Driver
