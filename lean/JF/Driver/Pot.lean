import JF.Driver.Core
import JF.Model.Potential.Displacement
/-!
Component `pot`: the displacement routines of `JF/Model/Potential/Displacement.lean`.
Requests (floats as uint64 bit patterns, `n` = dimension, `v…` velocity, `s…` separation):

  ip  power prefactor n v… s… c1 c2 dE        InversePowerPotential.displacement
  lj  prefactor charlen n v… s… dE            LennardJonesPotential.displacement
  ep  eqsep power prefactor n v… s… dE        DisplacedEvenPowerPotential.displacement
  cb  prefactor L v0 v1 v2 s0 s1 s2 c1 c2 dE  InversePowerCoulombBoundingPotential.displacement
  hs  radius n v… s…                          HardSpherePotential.displacement
  hd  minsep maxsep n v… s…                   HardDipolePotential.displacement
  cell  b0 b1 cp dE n v…                      CellBoundingPotential (with charges)
  cell0 b c1 c2 dE n v…                       CellBoundingPotential (without charges)

Reply: `v <bits of result> <bits of smallest comparison gap>` or `e <ExceptionName> <bits of gap>`.
-/
namespace JF.Driver
open JF JF.Pot

private def showR (r : Except String Float × Float) : String :=
  match r with
  | (.ok x, g) => s!"v {bits x} {bits g}"
  | (.error e, g) => s!"e {e} {bits g}"

/-- split `n` floats off the front -/
private def takeF (n : Nat) (l : List String) : List Float × List String :=
  ((l.take n).map fl, l.drop n)

def potComp : Comp := Comp.pure fun
  | "ip" :: p :: k :: n :: rest =>
    let n := nat! n
    let (vel, rest) := takeF n rest
    let (sep, rest) := takeF n rest
    match rest with
    | [c1, c2, dE] => showR (run [] ((InvPow.mk (fl p) (fl k)).displacement vel sep (fl c1) (fl c2) (fl dE)))
    | _ => "bad-op"
  | "lj" :: k :: cl :: n :: rest =>
    let n := nat! n
    let (vel, rest) := takeF n rest
    let (sep, rest) := takeF n rest
    match rest with
    | [dE] => showR (run sep (do let H ← lennardJones (fl k) (fl cl); H.displacement vel (fl dE)))
    | _ => "bad-op"
  | "ep" :: eq :: p :: k :: n :: rest =>
    let n := nat! n
    let (vel, rest) := takeF n rest
    let (sep, rest) := takeF n rest
    match rest with
    | [dE] => showR (run sep ((evenPower (fl eq) (fl p) (fl k)).displacement vel (fl dE)))
    | _ => "bad-op"
  | ["cb", k, L, v0, v1, v2, s0, s1, s2, c1, c2, dE] =>
    showR (run [] (cbDisplacement (fl k) (fl L) [fl v0, fl v1, fl v2] [fl s0, fl s1, fl s2] (fl c1) (fl c2) (fl dE)))
  | "hs" :: r :: n :: rest =>
    let n := nat! n
    let (vel, rest) := takeF n rest
    let (sep, rest) := takeF n rest
    match rest with
    | [] => showR (run [] (hardSphere (fl r) vel sep))
    | _ => "bad-op"
  | "hd" :: a :: b :: n :: rest =>
    let n := nat! n
    let (vel, rest) := takeF n rest
    let (sep, rest) := takeF n rest
    match rest with
    | [] => showR (run [] (hardDipole (fl a) (fl b) vel sep))
    | _ => "bad-op"
  | "cell" :: b0 :: b1 :: cp :: dE :: n :: rest =>
    let (vel, rest) := takeF (nat! n) rest
    match rest with
    | [] => showR (run [] (cellBounding (fl b0) (fl b1) (fl cp) (fl dE) vel))
    | _ => "bad-op"
  | "cell0" :: b :: c1 :: c2 :: dE :: n :: rest =>
    let (vel, rest) := takeF (nat! n) rest
    match rest with
    | [] => showR (run [] (cellBoundingNoCharges (fl b) (fl c1) (fl c2) (fl dE) vel))
    | _ => "bad-op"
  | _ => "bad-op"
end JF.Driver
