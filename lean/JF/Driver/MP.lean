import JF.Driver.Core
import JF.Model.MPMediator
namespace JF.Driver
open JF JF.MP

/-- component `mp`: one session replays one run of the multi-process mediator through the protocol model
`JF.MP.leg`, leg by leg.

requests                                       replies
`init <cores> <n> <a_0> … <a_{n-1}>`            `ok`        (`a_h` = 1 iff `send_out_state` of handler `h` takes arguments)
`leg c <created…> w <wait…> w <wait…> x <chosen> t <trashed…>`
    `ok tag=<t> tagok=<0|1> path=<p> left=<k> pre=<l> disc=<l> st=<d…> stored=<l> seen=<d…|d…> pushed=<l> arrived=<l>
        end=<d…> proto=<abc> legit=<0|1> inv=<0|1> quiet=<0|1> inflight=<k>`
    | `err:<outcome>`   (state unchanged)
`d` = stage digit 0 idle, 1 event_time_started, 2 suspended, 3 out_state_started; `<l>` = comma separated handlers
or `-`. `st`/`stored` = stages and `_out_states` keys at commit time (before the trash loop), `end` = stages after
the trash loop, `seen` = stages of the returned pipes at each `wait`; `tagok` = the committed out-state carries the
tag of the last start of the chosen handler; `proto` = activator protocol observed (created handlers not running
and distinct / chosen handler running / chosen handler trashed); `legit` = every `wait` result met the contract;
`inv` = boundary invariant holds after the leg; `quiet` = every worker blocked with an empty pipe after the leg;
`inflight` = handlers left in out_state_started after the leg; `pushed` = handlers of the `push_event` calls in
order (after the receive loop, in the order of `created`), `arrived` = order in which the candidate times arrived. -/
structure MPSt where
  cfg : Cfg := ⟨2, fun _ => false⟩
  nh : Nat := 0
  st : Array HS := #[]
  running : Array Bool := #[]
  last : Array Nat := #[]
  leg : Nat := 0

private def stageDigit : Stage → String
  | .idle => "0" | .timeStarted => "1" | .suspended => "2" | .outStarted => "3"

private def showErr : Err → String
  | .notReady => "notReady" | .alreadyFinished => "alreadyFinished" | .keyError => "keyError"
  | .timeMissing => "timeMissing" | .assertIdle => "assertIdle" | .workerContinueInIdle => "workerContinueInIdle" | .recvBlocks => "recvBlocks"
  | .misread => "misread" | .deadlock => "deadlock" | .starved => "starved" | .adversary => "adversary"

private def showPath : Path → String
  | .startedNow => "startedNow" | .inFlight => "inFlight" | .stored => "stored" | .none => "none"

private def showL (l : List Nat) : String := if l.isEmpty then "-" else ",".intercalate (l.map toString)

private def digits (n : Nat) (s : St) : String := String.join ((List.range n).map fun h => stageDigit (s h).stage)

/-- split `c … w … w … x … t …` into (created, waits, chosen, trash) -/
private def parseLeg (a : List String) : List Nat × List (List Nat) × Nat × List Nat :=
  let rec go (a : List String) (sec : Char) (cr : List Nat) (ws : List (List Nat)) (x : Nat) (tr : List Nat) :
      List Nat × List (List Nat) × Nat × List Nat :=
    match a with
    | [] => (cr.reverse, (ws.map List.reverse).reverse, x, tr.reverse)
    | "c" :: r => go r 'c' cr ws x tr
    | "w" :: r => go r 'w' cr ([] :: ws) x tr
    | "x" :: r => go r 'x' cr ws x tr
    | "t" :: r => go r 't' cr ws x tr
    | tok :: r =>
      let v := nat! tok
      match sec with
      | 'c' => go r sec (v :: cr) ws x tr
      | 'w' => match ws with
               | w :: ws' => go r sec cr ((v :: w) :: ws') x tr
               | [] => go r sec cr [[v]] x tr
      | 'x' => go r sec cr ws v tr
      | _ => go r sec cr ws x (v :: tr)
  go a 'c' [] [] 0 []

def mpComp : Comp := ⟨MPSt, {}, fun s a =>
  match a with
  | "init" :: cores :: n :: flags =>
      let arr := (flags.map fun f => f == "1").toArray
      let nh := nat! n
      ({ cfg := ⟨nat! cores, fun h => arr.getD h false⟩, nh := nh, st := Array.replicate nh {},
         running := Array.replicate nh false, last := Array.replicate nh 0, leg := 0 }, "ok")
  | "leg" :: rest =>
      let (cr, ws, x, tr) := parseLeg rest
      let st0 : St := fun h => s.st.getD h {}
      let run0 := fun h => s.running.getD h false
      let pA := decide cr.Nodup && cr.all fun h => !run0 h
      let pB := run0 x || cr.contains x
      let pC := tr.contains x
      let lg := legLegit s.cfg s.leg st0 cr ws
      match MP.leg s.cfg s.leg st0 cr ws x tr with
      | .error e => (s, "err:" ++ showErr e)
      | .ok o =>
        let last' := fun h => if cr.contains h then s.leg else s.last.getD h 0
        let run' := fun h => (run0 h || cr.contains h) && !tr.contains h
        let hs := List.range s.nh
        let inv := hs.all fun h => (o.st h).boundary (run' h)
        let quiet := hs.all fun h => (o.st h).quiescent
        let infl := (hs.filter fun h => (o.st h).stage == .outStarted).length
        let stored := hs.filter fun h => (o.atCommit h).stored.isSome
        let seen := "|".intercalate (o.loop.seen.reverse.map fun w => String.join (w.map stageDigit))
        let r := s!"ok tag={o.tag} tagok={b01 (o.tag == last' x)} path={showPath o.path} left={o.waitsLeft} " ++
          s!"pre={showL o.loop.pre} disc={showL (o.discarded.filter (· != x))} st={digits s.nh o.atCommit} " ++
          s!"stored={showL stored} seen={if seen.isEmpty then "-" else seen} pushed={showL (o.pushes.map (·.1))} arrived={showL (o.loop.recvd.map (·.1))} " ++
          s!"end={digits s.nh o.st} proto={b01 pA}{b01 pB}{b01 pC} legit={b01 lg} inv={b01 inv} " ++
          s!"quiet={b01 quiet} inflight={infl}"
        ({ s with st := (hs.map o.st).toArray, running := (hs.map run').toArray, last := (hs.map last').toArray,
                  leg := s.leg + 1 }, r)
  | _ => (s, "bad-op")⟩
end JF.Driver
