import JF.Driver.Core
namespace JF.Driver
/-- component `mp` (stub until its model is written) -/
def mpComp : Comp := Comp.pure fun _ => "unimplemented"
end JF.Driver
