import JF.Driver.Core
import JF.Model.Thinning
/-
Line protocol of component `thin` (model `JF.Model.Thinning`, binary64 reading).

  decide <b> <q> <draw>            -> <confirmLeaf> <warns b q> <confirmComposite (max(0.0,q)) draw> <warns b max(0.0,q)>
  uniform <b> <r>                  -> bits of CPython's `uniform(0, b)` for `random() = r`
  summed <n> bd.. <m> q..          -> <Σ max(0.0,bd)> <Σ q> <max(0.0, Σ q)>
  bound <k> <c1> <c2> <d> <sx> <sy> <sz> <speed>   -> bits of the 1/r bound's derivative
  send <kind> <useCharge> <L> <tiny> <etq> <etr> <nroots> ROOT* <hasTarget> [ROOT] <guardOk> <b>
       <nb> bd.. <nq> q.. <nrows> {<len> p..}* <d|r> <draw> <idlen> id..
     UNIT = <idlen> id.. <dim> pos.. <charge> <hasVel> [<dim> vel.. <tq> <tr>]
     ROOT = UNIT <weight> <nchildren> {UNIT <weight>}*
     -> err:<Exc> | none | ok <confirmed> <warned> G<bound handed to uniform|-> C <n> CALL* I <n> INSERT* S STATE
  sendroot <kind 7|8> <useCharge> <L> <tiny> <etq> <etr> <nroots> ROOT* <nbranches> ROOT* <nb> bd.. <nq> q.. <d|r> <draw>
     the root-unit-active handlers: first the in-state as stored (time-sliced) by `send_event_time`, then the branches
     handed to `send_out_state` (not yet time-sliced); bd/q per (active leaf, target leaf) pair in loop order
     -> same reply format as `send` (CALLs in call order: B P B P …)
-/
namespace JF.Driver
open JF JF.Thin

abbrev P := StateT (List String) Option

private def tok : P String := fun s => match s with
  | [] => none
  | t :: r => some (t, r)
private def pf : P Float := do return fl (← tok)
private def pn : P Nat := do return nat! (← tok)
private def pb : P Bool := do return (← tok) == "1"
private def rep {β : Type} (n : Nat) (p : P β) : P (List β) :=
  match n with
  | 0 => pure []
  | n + 1 => do let x ← p; let xs ← rep n p; return x :: xs
private def plist {β : Type} (p : P β) : P (List β) := do let n ← pn; rep n p

private def punit : P (LUnit Float) := do
  let id ← plist pn
  let pos ← plist pf
  let ch ← pf
  let hv ← pb
  if hv then
    let v ← plist pf
    let q ← pf
    let r ← pf
    return ⟨id, pos, ch, some v, some ⟨q, r⟩⟩
  else return ⟨id, pos, ch, none, none⟩

private def proot : P (CNode Float) := do
  let u ← punit
  let w ← pf
  let cs ← plist (do let cu ← punit; let cw ← pf; return (cu, cw))
  return ⟨u, w, cs⟩

private def showList (l : List Float) : List String := toString l.length :: l.map bits
private def showIds (l : List Nat) : List String := toString l.length :: l.map toString

private def showUnit (u : LUnit Float) : List String :=
  ["U"] ++ showIds u.id ++ showList u.pos ++
  (match u.vel with | some v => "V" :: showList v | none => ["N"]) ++
  (match u.ts with | some t => ["T", bits t.q, bits t.r] | none => ["N"])

private def showState (st : List (CNode Float)) : List String :=
  st.flatMap fun r => ["R", toString r.children.length] ++ showUnit r.unit ++ r.children.flatMap fun cw => showUnit cw.1

private def showRes : Res Float → String
  | .err t => "err:" ++ t
  | .invalid => "none"
  | .out st cf w calls ins uni =>
    joinSp (["ok", b01 cf, b01 w, (match uni with | some b => "G" ++ bits b | none => "G-"), "C", toString calls.length] ++
      calls.flatMap (fun c => [c.kind] ++ showList c.vel ++ showList c.sep ++ showList c.charges) ++
      ["I", toString ins.length] ++
      ins.flatMap (fun i => [bits i.1] ++ showIds i.2.1 ++ [b01 i.2.2]) ++
      ["S"] ++ showState st)

private def psend : P String := do
  let kind ← pn
  let useCharge ← pb
  let L ← pf
  let tiny ← pf
  let etq ← pf
  let etr ← pf
  let st ← plist proot
  let hasT ← pb
  let target ← (if hasT then (do let r ← proot; return some r) else pure none)
  let guardOk ← pb
  let b ← pf
  let bds ← plist pf
  let qs ← plist pf
  let pairs ← plist (plist pf)
  let mode ← tok
  let dv ← pf
  let nextId ← plist pn
  let dr : Draw Float := if mode == "r" then .unit dv else .value dv
  let c : Consts Float := ⟨L, tiny⟩
  let et : Time Float := ⟨etq, etr⟩
  if kind ≤ 3 then
    return showRes (sendLeaf Ops.float c kind useCharge et st target guardOk b (qs.headD 0.0) dr)
  else
    return showRes (sendComposite Ops.float c kind useCharge et st target guardOk b bds qs pairs dr nextId)

private def psendroot : P String := do
  let kind ← pn
  let useCharge ← pb
  let L ← pf
  let tiny ← pf
  let etq ← pf
  let etr ← pf
  let ist ← plist proot
  let branches ← plist proot
  let bds ← plist pf
  let qs ← plist pf
  let mode ← tok
  let dv ← pf
  let dr : Draw Float := if mode == "r" then .unit dv else .value dv
  if kind == 7 || kind == 8 then
    return showRes (sendRoot Ops.float ⟨L, tiny⟩ kind useCharge ⟨etq, etr⟩ ist branches bds qs dr)
  else return "bad-args"

private def pow32 (x : Float) : Float := Float.pow x (3.0 / 2.0)

def thinComp : Comp := Comp.pure fun
  | ["decide", b, q, d] =>
      let b := fl b; let q := fl q; let d := fl d
      let e := pymax0 Ops.float q
      joinSp [b01 (confirmLeaf Ops.float q d), b01 (warns Ops.float b q), b01 (confirmComposite e d),
              b01 (warns Ops.float b e)]
  | ["uniform", b, r] => bits (pyUniform (Ops.float.ofInt 0) (fl b) (fl r))
  | ["bound", k, c1, c2, d, sx, sy, sz, sp] =>
      bits (boundDeriv pow32 (fl k) (fl c1) (fl c2) (nat! d) (fl sx, fl sy, fl sz) (fl sp))
  | "summed" :: rest =>
      match (do let bds ← plist pf; let qs ← plist pf; return (bds, qs) : P _).run rest with
      | some ((bds, qs), []) =>
        let fd := factorDerivative Ops.float qs
        joinSp [bits (summedBound Ops.float bds), bits fd, bits (pymax0 Ops.float fd)]
      | _ => "bad-args"
  | "send" :: rest =>
      match psend.run rest with
      | some (r, []) => r
      | _ => "bad-args"
  | "sendroot" :: rest =>
      match psendroot.run rest with
      | some (r, []) => r
      | _ => "bad-args"
  | _ => "bad-op"
end JF.Driver
