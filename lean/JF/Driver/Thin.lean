import JF.Driver.Core
namespace JF.Driver
/-- component `thin` (stub until its model is written) -/
def thinComp : Comp := Comp.pure fun _ => "unimplemented"
end JF.Driver
