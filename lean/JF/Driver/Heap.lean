import JF.Driver.Core
import JF.Model.Sched
namespace JF.Driver
open JF JF.Heap JF.Sched

/-- component `heap`: one session holds a `HeapScheduler` model and a `ListScheduler` model that
receive the same operations.

requests                         replies
`reset`                          `ok`
`push q r h`                     `<heap length> <heap size> <fault>`
`trash h`                        `ok` | `err:SchedulerError`           (list scheduler's outcome; the heap one never fails)
`get`                            `<H> | <L> | <heap length> <fault>` with `<X>` = `ok h q r` | `err:empty` | `err:guard h q r`
`setmv h v`                      `ok`      (`_minimal_valid_counter[h] = v`, heap scheduler only)
`pickle`                         `ok`      (heap scheduler replaced by `loads(dumps(·))`)
`dump`                           `<length> <size> <fault> <n> (q r h c)*`   entries as `entry(0), entry(1), …` returns them
`lget`                           list scheduler only: `<L>`
-/
structure HeapSt where
  hs : HSched (Time Float)
  ls : LSched (Time Float)

private def st0 : HeapSt := ⟨HSched.init floatCfg, LSched.init floatCfg⟩

private def showRes : GetRes (Time Float) → String
  | .ok h t => s!"ok {h} {bits t.q} {bits t.r}"
  | .empty => "err:empty"
  | .guard h t => s!"err:guard {h} {bits t.q} {bits t.r}"

private def showEntry (e : Entry (Time Float)) : String := s!"{bits e.key.q} {bits e.key.r} {e.h} {e.c}"

private def hdr (hp : CHeap (Time Float)) : String := s!"{hp.length} {hp.mem.size} {b01 hp.fault}"

def heapComp : Comp := ⟨HeapSt, st0, fun s a =>
  match a with
  | ["reset"] => (st0, "ok")
  | ["push", q, r, h] =>
      let t : Time Float := ⟨fl q, fl r⟩
      let hs := s.hs.push floatCfg uintRange t (nat! h)
      (⟨hs, s.ls.push t (nat! h)⟩, hdr hs.heap)
  | ["trash", h] =>
      let hs := s.hs.trash (nat! h)
      match s.ls.trash (nat! h) with
      | some ls => (⟨hs, ls⟩, "ok")
      | none => (⟨hs, s.ls⟩, "err:SchedulerError")
  | ["get"] =>
      let (hs, rh) := s.hs.get floatCfg
      let (ls, rl) := s.ls.get floatCfg
      (⟨hs, ls⟩, showRes rh ++ " | " ++ showRes rl ++ s!" | {hs.heap.length} {b01 hs.heap.fault}")
  | ["lget"] =>
      let (ls, rl) := s.ls.get floatCfg
      (⟨s.hs, ls⟩, showRes rl)
  | ["setmv", h, v] => (⟨{ s.hs with mv := mvSet s.hs.mv (nat! h) (nat! v) }, s.ls⟩, "ok")
  | ["pickle"] => (⟨s.hs.pickle floatCfg, s.ls⟩, "ok")
  | ["dump"] =>
      let (l, f) := s.hs.getstate floatCfg
      let hp := s.hs.heap
      (s, joinSp ([hdr { hp with fault := hp.fault || f }, toString l.length] ++ l.map showEntry))
  | _ => (s, "bad-op")⟩
end JF.Driver
