import JF.Driver.Core
namespace JF.Driver
/-- component `heap` (stub until its model is written) -/
def heapComp : Comp := Comp.pure fun _ => "unimplemented"
end JF.Driver
