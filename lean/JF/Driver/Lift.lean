import JF.Driver.Core
import JF.Model.Lifting
namespace JF.Driver
open JF JF.Lifting

private def errTok : LiftErr → String
  | .assertion => "err:AssertionError"
  | .notRecorded => "err:LiftingSchemeError"
  | .index => "err:IndexError"

private def showRes : Except LiftErr Nat → String
  | .ok i => s!"id:{i}"
  | .error e => errTok e

private def showState (s : Lifting Float Nat) : String :=
  s!"{bits s.pos} {bits s.sumPos} {b01 s.recorded} {s.neg.length}"

private def scheme? : String → Option Scheme
  | "inside" => some .inside
  | "outside" => some .outside
  | "ratio" => some .ratio
  | _ => none

/-- `r1 id1 r2 id2 …` -/
private def parseTbl : List String → List (Float × Nat)
  | r :: i :: rest => (fl r, nat! i) :: parseTbl rest
  | _ => []

/-- component `lift`: one `Lifting` object per session.
* `reset`                          -> state
* `ins <rate> <id> <0|1> <u>`      -> state | err:AssertionError
* `get <scheme> <u2>`              -> `<id:n | err:…> <state>`
* `sum <x1> … <xn>`                -> bits of the model's `sum([...])`
* `choose <scheme> <a> <u> <u2> <r1> <id1> …`  (stateless whole move: reset, fill, get)
                                   -> `<id:n | err:…>` -/
def liftComp : Comp :=
  ⟨Lifting Float Nat, Lifting.empty Ops.float, fun s a =>
    match a with
    | ["reset"] => let s' := Lifting.reset Ops.float s; (s', showState s')
    | ["ins", r, i, act, u] =>
        match Lifting.insert Ops.float s (fl r) (nat! i) (act == "1") (fl u) with
        | .ok s' => (s', showState s')
        | .error e => (s, errTok e)
    | ["get", sch, u2] =>
        match scheme? sch with
        | some .inside => (s, s!"{showRes (getInside Ops.float s)} {showState s}")
        | some .outside =>
            let (s', r) := getOutside Ops.float s
            (s', s!"{showRes r} {showState s'}")
        | some .ratio => (s, s!"{showRes (getRatio Ops.float s (fl u2))} {showState s}")
        | none => (s, "bad-op")
    | "sum" :: xs => (s, bits (pySum Ops.float (xs.map fl)))
    | "choose" :: sch :: a' :: u :: u2 :: tbl =>
        match scheme? sch with
        | some sc => (s, showRes (choose Ops.float sc (parseTbl tbl) (nat! a') (fl u) (fl u2)))
        | none => (s, "bad-op")
    | _ => (s, "bad-op")⟩
end JF.Driver
