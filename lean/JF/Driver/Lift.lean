import JF.Driver.Core
namespace JF.Driver
/-- component `lift` (stub until its model is written) -/
def liftComp : Comp := Comp.pure fun _ => "unimplemented"
end JF.Driver
