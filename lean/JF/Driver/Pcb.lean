import JF.Driver.Core
import JF.Model.PiecewiseBounding
/-
Line protocol of component `pcb` (model `JF.Model.PiecewiseBounding`, binary64 reading).  A session is a sequence of
handler objects; `new` constructs one (fresh state), `evt` / `out` are calls on the current object.

  displ <q1> <q2> <offset> <dmax> <E>      -> <displacement> <cache|->          (the three branches alone)
  new <kind 0=two-leaf|1=fixed-separations> <L> <dim> <tiny> <offset> <dmax> <useCharge> <nCharge> <n> sep..   -> ok
  evt <E> <nroots> ROOT* DERIV DERIV       -> err:<Exc> | ok T <q> <r> B<cache|-> C <n> CALL* S STATE
  out DERIV <d|r> <draw> <idlen> id..      -> err:<Exc> | ok <confirmed> <warned> G<limit of uniform|-> B<cache|-> C <n> CALL*
                                              I <n> INSERT* S STATE
     DERIV = s <x> | t <n> x..
     UNIT  = <idlen> id.. <dim> pos.. <charge> <hasVel> [<dim> vel.. <tq> <tr>]
     ROOT  = UNIT <weight> <nchildren> {UNIT <weight>}*
     CALL  = <n> vel.. <nseps> {<n> s..}* <n> charge..
-/
namespace JF.Driver.PcbD
open JF JF.Thin JF.Pcb JF.Driver

abbrev P := StateT (List String) Option

def tok : P String := fun s => match s with
  | [] => none
  | t :: r => some (t, r)
def pf : P Float := do return fl (← tok)
def pn : P Nat := do return nat! (← tok)
def pb : P Bool := do return (← tok) == "1"
def rep {β : Type} (n : Nat) (p : P β) : P (List β) :=
  match n with
  | 0 => pure []
  | n + 1 => do let x ← p; let xs ← rep n p; return x :: xs
def plist {β : Type} (p : P β) : P (List β) := do let n ← pn; rep n p

def punit : P (LUnit Float) := do
  let id ← plist pn
  let pos ← plist pf
  let ch ← pf
  let hv ← pb
  if hv then
    let v ← plist pf
    let q ← pf
    let r ← pf
    return ⟨id, pos, ch, some v, some ⟨q, r⟩⟩
  else return ⟨id, pos, ch, none, none⟩

def proot : P (CNode Float) := do
  let u ← punit
  let w ← pf
  let cs ← plist (do let cu ← punit; let cw ← pf; return (cu, cw))
  return ⟨u, w, cs⟩

def pderiv : P (Deriv Float) := do
  let k ← tok
  if k == "s" then return .scalar (← pf) else return .tuple (← plist pf)

def showList (l : List Float) : List String := toString l.length :: l.map bits
def showIds (l : List Nat) : List String := toString l.length :: l.map toString

def showUnit (u : LUnit Float) : List String :=
  ["U"] ++ showIds u.id ++ showList u.pos ++
  (match u.vel with | some v => "V" :: showList v | none => ["N"]) ++
  (match u.ts with | some t => ["T", bits t.q, bits t.r] | none => ["N"])

def showState (st : List (CNode Float)) : List String :=
  st.flatMap fun r => ["R", toString r.children.length] ++ showUnit r.unit ++ r.children.flatMap fun cw => showUnit cw.1

def showOpt (tag : String) : Option Float → String
  | some b => tag ++ bits b
  | none => tag ++ "-"

def showCalls (calls : List (PCall Float)) : List String :=
  ["C", toString calls.length] ++
  calls.flatMap fun c => showList c.vel ++ [toString c.seps.length] ++ c.seps.flatMap showList ++ showList c.charges

def showReply (h : HState Float) : Reply Float → String
  | .err t => "err:" ++ t
  | .time t calls =>
    joinSp (["ok", "T", bits t.q, bits t.r, showOpt "B" h.cache] ++ showCalls calls ++ ["S"] ++ showState (h.st.getD []))
  | .out r =>
    joinSp (["ok", b01 r.confirmed, b01 r.warned, showOpt "G" r.uni, showOpt "B" h.cache] ++ showCalls r.calls ++
      ["I", toString r.inserts.length] ++ r.inserts.flatMap (fun i => [bits i.1] ++ showIds i.2.1 ++ [b01 i.2.2]) ++
      ["S"] ++ showState r.st)

def pnew : P (Params Float) := do
  let k ← pn
  let L ← pf
  let dim ← pn
  let tiny ← pf
  let offset ← pf
  let dmax ← pf
  let uc ← pb
  let nc ← pn
  let seps ← plist pn
  return ⟨if k == 0 then .twoLeaf else .fixedSep, L, dim, tiny, offset, dmax, uc, nc, seps⟩

def pevt : P (Step Float) := do
  let E ← pf
  let st ← plist proot
  let d1 ← pderiv
  let d2 ← pderiv
  return .evt st E d1 d2

def pout : P (Step Float) := do
  let d ← pderiv
  let mode ← tok
  let dv ← pf
  let nextId ← plist pn
  return .out d (if mode == "r" then .unit dv else .value dv) nextId

structure Sess where
  p : Option (Params Float)
  h : HState Float

def stepSess (s : Sess) : List String → Sess × String
  | ["displ", q1, q2, off, dmax, E] =>
    let r := displacement Ops.float (fl q1) (fl q2) (fl off) (fl dmax) (fl E)
    (s, joinSp [bits r.1, showOpt "" r.2])
  | "new" :: rest =>
    match pnew.run rest with
    | some (p, []) => (⟨some p, HState.init⟩, "ok")
    | _ => (s, "bad-args")
  | "evt" :: rest =>
    match s.p, pevt.run rest with
    | some p, some (st, []) =>
      let (h', r) := step Ops.float p s.h st
      (⟨some p, h'⟩, showReply h' r)
    | none, _ => (s, "no-handler")
    | _, _ => (s, "bad-args")
  | "out" :: rest =>
    match s.p, pout.run rest with
    | some p, some (st, []) =>
      let (h', r) := step Ops.float p s.h st
      (⟨some p, h'⟩, showReply h' r)
    | none, _ => (s, "no-handler")
    | _, _ => (s, "bad-args")
  | _ => (s, "bad-op")

end JF.Driver.PcbD

namespace JF.Driver
/-- component `pcb` (piecewise-constant bounding handlers) -/
def pcbComp : Comp := ⟨PcbD.Sess, ⟨none, JF.Pcb.HState.init⟩, PcbD.stepSess⟩
end JF.Driver
