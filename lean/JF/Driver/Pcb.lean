import JF.Driver.Core
namespace JF.Driver
/-- component `pcb` (piecewise-constant bounding handlers; stub until its model is written) -/
def pcbComp : Comp := Comp.pure fun _ => "unimplemented"
end JF.Driver
