import JF.Driver.Core
import JF.Model.Occupancy
/-
component `occ`: sessions of the `SingleActiveCellOccupancy` model and the cell-boundary core.

requests
  init <ncells> <cap> <chargeGiven 0|1> (<id> <chargeBits> <cell>)*     -> dump
  update <id> <chargeBits> <cell>                                        -> dump | err:<Exception>
  poke <cell>        (white box: `_surplus[cell] = []` if the key is absent)           -> dump
  boundary <L> <x> <v> <bMin> <bMax>            (float bit patterns)     -> <timeBits> <boundaryBits>
dump format
  O=<cell>:<ids>;… (non-empty cells, increasing cell index) S=<cell>:<ids>;<cell>:<ids>… Y=<yield_surplus ids> A=<cell>,<id>|none
  (ids comma separated, in list order; the surplus dictionary in insertion order)
`init` starts a fresh object, so one process can serve many sessions.
-/
namespace JF.Driver
open JF JF.Occ

structure OccSess where
  n : Nat
  chargeGiven : Bool
  st : State

/-- re-tabulate the occupant map over the cells `0 … n-1` (the only ones the harness uses), so that the
closure built by successive `setAt`s does not grow with the length of the session -/
private def flatten (n : Nat) (s : State) : State :=
  let arr := ((List.range n).map s.occupants).toArray
  { s with occupants := fun c => arr.getD c [] }

private def ids (l : List Nat) : String := ",".intercalate (l.map toString)

private def dump (z : OccSess) : String :=
  let o := ";".intercalate ((List.range z.n).filterMap fun c =>
    match getItem z.st c with
    | [] => none
    | l => some s!"{c}:{ids l}")
  let s := ";".intercalate (z.st.surplus.map fun (k, l) => s!"{k}:{ids l}")
  let y := ids (yieldSurplus z.st)
  let a := match yieldActiveCells z.st with
    | [(some c, some u)] => s!"{c},{u}"
    | [(some c, none)] => s!"{c},None"
    | _ => "none"
  s!"O={o} S={s} Y={y} A={a}"

private def parseUnits (chargeGiven : Bool) : List String → List UnitIn
  | i :: q :: c :: t => ⟨nat! i, isRelevant Ops.float chargeGiven (fl q), nat! c⟩ :: parseUnits chargeGiven t
  | _ => []

def occComp : Comp where
  σ := OccSess
  init := ⟨0, false, State.empty 1⟩
  step z
    | "init" :: n :: cap :: cg :: rest =>
        let g := cg == "1"
        let z' : OccSess := ⟨nat! n, g, Occ.init (int! cap) (parseUnits g rest)⟩
        (z', dump z')
    | ["update", i, q, c] =>
        match update z.st ⟨nat! i, isRelevant Ops.float z.chargeGiven (fl q), nat! c⟩ with
        | .ok st => let z' := { z with st := flatten z.n st }; (z', dump z')
        | .error e => (z, e.token)
    | ["poke", c] =>
        -- white box: plant an empty surplus list (unreachable through the public interface)
        let st := { z.st with surplus := if (z.st.surplus.get? (nat! c)).isSome then z.st.surplus
                                         else z.st.surplus ++ [(nat! c, [])] }
        let z' := { z with st := st }; (z', dump z')
    | ["boundary", l, x, v, bmin, bmax] =>
        let r := timeToBoundary Ops.float (fl l) (fl x) (fl v) (fl bmin) (fl bmax)
        (z, s!"{bits r.1} {bits r.2}")
    | _ => (z, "bad-op")
end JF.Driver
