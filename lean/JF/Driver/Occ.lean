import JF.Driver.Core
namespace JF.Driver
/-- component `occ` (stub until its model is written) -/
def occComp : Comp := Comp.pure fun _ => "unimplemented"
end JF.Driver
