import JF.Driver.Core
namespace JF.Driver
/-- component `sys` (stub until its model is written) -/
def sysComp : Comp := Comp.pure fun _ => "unimplemented"
end JF.Driver
