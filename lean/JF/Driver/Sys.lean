import JF.Driver.Core
import JF.Model.Kinematics
import JF.Model.EndOfChain
namespace JF.Driver
open JF JF.Kin

structure SysState where
  dim : Nat := 0
  L : List Float := []
  us : List (PUnit Float) := []

private def fls (l : List String) : List Float := l.map fl

private def showUnit (u : PUnit Float) : String :=
  joinSp (u.pos.map bits) ++ " " ++
  (match u.vel with | some v => "1 " ++ joinSp (v.map bits) | none => "0") ++ " " ++
  (match u.ts with | some t => s!"1 {bits t.q} {bits t.r}" | none => "0")

private def dump (s : SysState) : String := " | ".intercalate (s.us.map showUnit)

private def parseUnit (d : Nat) (a : List String) : Option (PUnit Float) :=
  let pos := fls (a.take d)
  match a.drop d with
  | "0" :: _ => some ⟨pos, none, none⟩
  | "1" :: rest =>
    let v := fls (rest.take d)
    match rest.drop d with
    | ["1", q, r] => some ⟨pos, some v, some ⟨fl q, fl r⟩⟩
    | ["0"] => some ⟨pos, some v, none⟩
    | _ => none
  | _ => none

/-- component `sys`: the chain machine replayed on recorded runs, plus stateless `slice` requests -/
def sysComp : Comp where
  σ := SysState
  init := {}
  step s a :=
    match a with
    | "init" :: d :: ls => ({ dim := nat! d, L := fls ls, us := [] }, "ok")
    | "unit" :: rest =>
      match parseUnit s.dim rest with
      | some u => ({ s with us := s.us ++ [u] }, "ok")
      | none => (s, "bad-op")
    | "set" :: i :: rest =>
      match parseUnit s.dim rest with
      | some u => ({ s with us := s.us.set (nat! i) u }, "ok")
      | none => (s, "bad-op")
    | ["dump"] => (s, dump s)
    | "ev" :: kind :: q :: r :: rest =>
      let t : Time Float := ⟨fl q, fl r⟩
      let ev? : Option (Ev Float) :=
        match kind, rest with
        | "keep", [] => some (.keep t)
        | "snap", [d, x] => some (.snap t (nat! d) (fl x))
        | "snapauto", ps =>
          -- the snapped direction is not recorded in a run: it is the direction in which the committed position of the active
          -- unit differs from its time-sliced position (none: the boundary value IS the sliced value); the snapped value is an
          -- oracle input as for `snap`
          let p := fls ps
          let sl := s.us.map (timeSlice Ops.float s.L t)
          match activeIdx sl with
          | some a =>
            match sl[a]? with
            | some ua =>
              let d := ((List.range p.length).find? (fun k => (ua.pos.getD k 0.0).toBits != (p.getD k 0.0).toBits)).getD 0
              some (.snap t d (p.getD d 0.0))
            | none => none
          | none => none
        | "lift", [b] => some (.lift t (nat! b))
        | "start", a :: v => some (.start t (nat! a) (fls v))
        | "eoc", a :: v => some (.endOfChain t (nat! a) (fls v))
        | _, _ => none
      match ev? with
      | some e => let s' := { s with us := step Ops.float s.L s.us e }; (s', dump s')
      | none => (s, "bad-op")
    | "slice" :: d :: rest =>
      -- slice d L.. pos.. vel.. tsq tsr tq tr
      let d := nat! d
      let L := fls (rest.take d)
      let pos := fls ((rest.drop d).take d)
      let vel := fls ((rest.drop (2*d)).take d)
      match rest.drop (3*d) with
      | [tsq, tsr, tq, tr] =>
        let u := timeSlice Ops.float L ⟨fl tq, fl tr⟩ ⟨pos, some vel, some ⟨fl tsq, fl tsr⟩⟩
        (s, joinSp (u.pos.map bits))
      | _ => (s, "bad-op")
    | "eocvel" :: "periodic" :: dim :: v =>
      match EndOfChain.newVelocityPeriodic Ops.float (nat! dim) (fls v) with
      | .ok w => (s, joinSp (w.map bits))
      | .error _ => (s, "err:AssertionError")
    | ["eocvel", "seq", c, sn, v0, v1] =>
      match EndOfChain.newVelocitySequential (fl c) (fl sn) [fl v0, fl v1] with
      | .ok w => (s, joinSp (w.map bits))
      | .error _ => (s, "err:AssertionError")
    | ["eoctime", lq, lr, cq, cr, chain] =>
      match EndOfChain.eventTime Ops.float ⟨fl lq, fl lr⟩ ⟨fl cq, fl cr⟩ (fl chain) with
      | .ok t => (s, s!"{bits t.q} {bits t.r}")
      | .error _ => (s, "err:AssertionError")
    | _ => (s, "bad-op")
end JF.Driver
