import JF.Driver.Core
namespace JF.Driver
/-- component `store` (stub until its model is written) -/
def storeComp : Comp := Comp.pure fun _ => "unimplemented"
end JF.Driver
