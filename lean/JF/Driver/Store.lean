import JF.Driver.Core
import JF.Model.Store
/-!
Component `store`: one session = one `JF.Store.Sess Float`.

Requests (floats as uint64 bit patterns, identifiers as `0.1`, the empty identifier as `-`):
  init <levels> <perRoot> <dim> <nroots> { <nchildren> <charge> <pos>*dim { <charge> <pos>*dim }*nchildren }*nroots
  extract <id> | active | global | insert <b>:<u> ...
  setpos b u i x | newpos b u x* | setvel b u i x | newvel b u (x* | -) | tsupd b u q r | newts b u (q r | -)
Reply: `<status> | A <ids of the last active extraction> | G <global branches> | D <dictionary> | L1 <ids> | L2 <ids> | B <live branches>`
where every reference is printed as `@<ref>` followed by the value behind it.
-/
namespace JF.Driver
open JF JF.Store

private def showId (id : Ident) : String :=
  if id.isEmpty then "-" else ".".intercalate (id.map toString)

private def parseId (s : String) : Ident :=
  if s == "-" then [] else (s.splitOn ".").map String.toNat!

private def showRef (h : Heap Float) (r : Ref) : String :=
  match h.get? r with
  | some (.vec l) => s!"@{r}[" ++ ",".intercalate (l.map bits) ++ "]"
  | some (.time q r') => s!"@{r}({bits q},{bits r'})"
  | none => s!"@{r}?"

private def showOptRef (h : Heap Float) : Option Ref → String
  | none => "N"
  | some r => showRef h r

private def showUnit (h : Heap Float) (u : CUnit Float) : String :=
  ",".intercalate [showId u.id, showRef h u.pos, (match u.charge with | none => "N" | some c => s!"c{c}"),
    showOptRef h u.vel, showOptRef h u.ts, bits u.weight]

private def showBranch (h : Heap Float) (b : Branch Float) : String :=
  "{" ++ ";".intercalate (b.units.map (showUnit h)) ++ "}"

private def showIds (l : List Ident) : String :=
  if l.isEmpty then "-" else "/".intercalate (l.map showId)

private def dump (s : Sess Float) : String :=
  let g := joinSp ((extractGlobal s.g s.h).map (showBranch s.h))
  let d := joinSp (s.g.lift.dict.map fun (k, v, t) => s!"{showId k}={showRef s.h v}{showRef s.h t}")
  let l1 := showIds (s.g.lift.lifted1.mergeSort (fun a b => lexLe a b))
  let l2 := showIds (s.g.lift.lifted2.mergeSort (fun a b => lexLe a b))
  let b := joinSp (s.live.map fun L => showBranch s.h L.b ++ (if L.iso then "i" else "a"))
  s!"G {g} | D {d} | L1 {l1} | L2 {l2} | B {b}"

private def status : Outcome → String
  | none => "ok"
  | some e => e.token

/-- take `n` floats from the token list -/
private def takeFloats (n : Nat) (toks : List String) : List Float × List String :=
  ((toks.take n).map fl, toks.drop n)

private def parseCharge (s : String) : Option Nat := if s == "-" then none else some s.toNat!

private def parseChildren (dim : Nat) : Nat → List String → List (Option Nat × List Float) × List String
  | 0, toks => ([], toks)
  | n + 1, toks =>
    match toks with
    | [] => ([], [])
    | c :: rest =>
      let (p, rest) := takeFloats dim rest
      let (cs, rest) := parseChildren dim n rest
      ((parseCharge c, p) :: cs, rest)

private def parseRoots (dim : Nat) :
    Nat → List String → List (Option Nat × List Float × List (Option Nat × List Float))
  | 0, _ => []
  | n + 1, toks =>
    match toks with
    | nch :: c :: rest =>
      let (p, rest) := takeFloats dim rest
      let (cs, rest) := parseChildren dim nch.toNat! rest
      (parseCharge c, p, cs) :: parseRoots dim n rest
    | _ => []

private def parseSel (s : String) : Nat × Nat :=
  match s.splitOn ":" with
  | [a, b] => (a.toNat!, b.toNat!)
  | _ => (0, 0)

private def parseOp : List String → Option (Op Float)
  | ["extract", id] => some (.extract (parseId id))
  | ["active"] => some .active
  | ["global"] => some .global
  | "insert" :: sel => some (.insert (sel.map parseSel))
  | ["setpos", b, u, i, x] => some (.setPos b.toNat! u.toNat! i.toNat! (fl x))
  | "newpos" :: b :: u :: xs => some (.newPos b.toNat! u.toNat! (xs.map fl))
  | ["setvel", b, u, i, x] => some (.setVel b.toNat! u.toNat! i.toNat! (fl x))
  | ["newvel", b, u, "-"] => some (.newVel b.toNat! u.toNat! none)
  | "newvel" :: b :: u :: xs => some (.newVel b.toNat! u.toNat! (some (xs.map fl)))
  | ["tsupd", b, u, q, r] => some (.tsUpdate b.toNat! u.toNat! (fl q) (fl r))
  | ["newts", b, u, "-"] => some (.newTs b.toNat! u.toNat! none)
  | ["newts", b, u, q, r] => some (.newTs b.toNat! u.toNat! (some (fl q, fl r)))
  | _ => none

def storeComp : Comp where
  σ := Sess Float
  init := Sess.init Ops.float 1 1 []
  step := fun s args =>
    match args with
    | "init" :: levels :: perRoot :: dim :: nroots :: rest =>
      let s' := Sess.init Ops.float levels.toNat! perRoot.toNat! (parseRoots dim.toNat! nroots.toNat! rest)
      (s', s!"ok | A - | {dump s'}")
    | _ =>
      match parseOp args with
      | none => (s, "bad-op")
      | some op =>
        let r := step s op
        let a := match op with
          | .active => showIds s.g.lift.independent
          | _ => "-"
        (r.1, s!"{status r.2} | A {a} | {dump r.1}")
end JF.Driver
