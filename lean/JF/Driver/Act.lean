import JF.Driver.Core
namespace JF.Driver
/-- component `act` (stub until its model is written) -/
def actComp : Comp := Comp.pure fun _ => "unimplemented"
end JF.Driver
