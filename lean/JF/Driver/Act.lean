import JF.Driver.Core
import JF.Model.Activator
import JF.Model.Wiring
import JF.Gen.Wirings
namespace JF.Driver
open JF.Act

/-!
component `act`: one session holds a wiring and the TagActivator bookkeeping model.

requests                                   replies
`cfg <name>`                               load the generated wiring `cfg_<name>` (JF/Gen/Wirings.lean), `initialize`:
                                           `ok <#taggers> <#handlers> <start tagger | ->`
`dump <name>`                              canonical rendering of the generated wiring (translator self-check)
`sound <name>`                             `ok states=<k>` | `fail <clause>:<E>-><T> …`   (`WiringSound` of the generated wiring)
`wbegin <name> <#labels>`                  start a wiring sent by the harness: `ok`
`tagger <tag> <cls> <handler> <kind> <label|-> <pool> <nc> c… <nt> t… <na> a… <nd> d…`   append a tagger: `ok <idx>`
`wend`                                     finish + `initialize`: `ok <#taggers> <#handlers> <start | ->`
`soundw`                                   `WiringSound` report of the session's wiring
`run <preceding handler | -> <yields>`     `get_event_handlers_to_run`; `<yields>` = for every tagger in index order
                                           `<n> <tuple>*`, `<tuple>` = `N` (None) | `<k> (<m> nat*)*`.
                                           reply `ok <created> | <running per tagger> | <activated bits>` or
                                           `err:TagActivatorError` | `err:AssertionError` | `err:KeyError`
`fp`                                       footprint tables of the session's wiring (see below)
`trash <handler>`                          `get_trashable_events`: `ok <h,h,…|->` | `err:AssertionError` | `err:KeyError`
-/

structure ActSess where
  c : Wiring
  w : Wires
  S : Option TaggerIdx
  a : ActSt
  building : List TaggerW

private def emptyW : Wiring := ⟨"", [], []⟩
private def sess0 : ActSess := ⟨emptyW, [], none, init [], []⟩

private def load (c : Wiring) : ActSess := ⟨c, c.wires, c.start?, init c.wires, []⟩

private def hdr (s : ActSess) : String :=
  let nh := (s.c.taggers.map (·.pool)).foldl (· + ·) 0
  s!"ok {s.c.n} {nh} " ++ (match s.S with | some i => toString i | none => "-")

private def clsName : TaggerClass → String
  | .noInState => "noInState" | .activeGlobalState => "activeGlobalState" | .activeRootUnit => "activeRootUnit"
  | .factorTypeMap => "factorTypeMap" | .cellBoundary => "cellBoundary" | .cellBounding => "cellBounding"
  | .cellVeto => "cellVeto" | .excludedCells => "excludedCells" | .surplusCells => "surplusCells" | .unknown => "unknown"

private def kindName : HandlerKind → String
  | .startOfRun => "startOfRun" | .endOfRun => "endOfRun" | .sampling => "sampling" | .dumping => "dumping"
  | .endOfChain => "endOfChain" | .switcher => "switcher" | .cellBoundary => "cellBoundary" | .cellVeto => "cellVeto"
  | .interaction => "interaction" | .unknown => "unknown"

private def clsOf (s : String) : TaggerClass :=
  ([TaggerClass.noInState, .activeGlobalState, .activeRootUnit, .factorTypeMap, .cellBoundary, .cellBounding,
    .cellVeto, .excludedCells, .surplusCells].find? (clsName · == s)).getD .unknown

private def kindOf (s : String) : HandlerKind :=
  ([HandlerKind.startOfRun, .endOfRun, .sampling, .dumping, .endOfChain, .switcher, .cellBoundary, .cellVeto,
    .interaction].find? (kindName · == s)).getD .unknown

private def commas (l : List Nat) : String := if l.isEmpty then "-" else ",".intercalate (l.map toString)

private def dumpW (c : Wiring) : String :=
  s!"{c.name} labels={",".intercalate c.labels} ; " ++
  " ; ".intercalate (c.taggers.map fun t =>
    s!"{t.tag} {clsName t.cls} {t.handler} {kindName t.kind} {t.pool} " ++
    (match t.label with | some l => toString l | none => "-") ++
    s!" c:{commas t.creates} t:{commas t.trashes} a:{commas t.activates} d:{commas t.deactivates}")

/-- `<n> x₁ … xₙ rest` -/
private def takeNats (a : List String) : Option (List Nat × List String) :=
  match a with
  | [] => none
  | n :: rest =>
    let k := nat! n
    if rest.length < k then none else some ((rest.take k).map nat!, rest.drop k)

private def takeTuple (fuel : Nat) (a : List String) : Option (IdTuple × List String) :=
  match a with
  | [] => none
  | "N" :: rest => some (none, rest)
  | k :: rest =>
    let rec go (fuel n : Nat) (acc : List (List Nat)) (a : List String) : Option (List (List Nat) × List String) :=
      match fuel, n with
      | _, 0 => some (acc.reverse, a)
      | 0, _ => none
      | f + 1, n + 1 => match takeNats a with
        | none => none
        | some (ident, rest) => go f n (ident :: acc) rest
    match go fuel (nat! k) [] rest with
    | none => none
    | some (ids, rest') => some (some ids, rest')

private def takeTuples (fuel : Nat) (n : Nat) (a : List String) : Option (List IdTuple × List String) :=
  let rec go (fuel n : Nat) (acc : List IdTuple) (a : List String) : Option (List IdTuple × List String) :=
    match fuel, n with
    | _, 0 => some (acc.reverse, a)
    | 0, _ => none
    | f + 1, n + 1 => match takeTuple (f + 1) a with
      | none => none
      | some (t, rest) => go f n (t :: acc) rest
  go fuel n [] a

private def takeYields (fuel : Nat) (ntag : Nat) (a : List String) : Option (List (List IdTuple)) :=
  let rec go (fuel n : Nat) (acc : List (List IdTuple)) (a : List String) : Option (List (List IdTuple)) :=
    match fuel, n with
    | _, 0 => if a.isEmpty then some acc.reverse else none
    | 0, _ => none
    | f + 1, n + 1 => match a with
      | [] => none
      | k :: rest => match takeTuples (f + 1) (nat! k) rest with
        | none => none
        | some (ts, rest') => go f n (ts :: acc) rest'
  go fuel ntag [] a

private def encTuple : IdTuple → String
  | none => "N"
  | some [] => "E"
  | some ids => ";".intercalate (ids.map fun i => ".".intercalate (i.map toString))

private def showState (s : ActSess) : String :=
  joinSp (s.a.ts.map fun t => commas t.running) ++ " | " ++ String.join (s.a.ts.map fun t => b01 t.activated)

def actComp : Comp := ⟨ActSess, sess0, fun s a =>
  match a with
  | ["cfg", name] =>
    match Gen.allCfgs.find? (·.name == name) with
    | none => (s, "err:unknown-cfg")
    | some c => let s' := load c; (s', hdr s')
  | ["dump", name] =>
    match Gen.allCfgs.find? (·.name == name) with
    | none => (s, "err:unknown-cfg")
    | some c => (s, dumpW c)
  | ["sound", name] =>
    match Gen.allCfgs.find? (·.name == name) with
    | none => (s, "err:unknown-cfg")
    | some c => (s, soundReport c ++ (if WiringSound c then " [true]" else " [false]"))
  | ["names"] => (s, joinSp (Gen.allCfgs.map (·.name)))
  | ["wbegin", name, nl] => ({ sess0 with c := ⟨name, (List.range (nat! nl)).map toString, []⟩ }, "ok")
  | "tagger" :: tag :: cls :: handler :: kind :: label :: pool :: rest =>
    match takeNats rest with
    | none => (s, "bad-op")
    | some (cr, r1) => match takeNats r1 with
      | none => (s, "bad-op")
      | some (tr, r2) => match takeNats r2 with
        | none => (s, "bad-op")
        | some (ac, r3) => match takeNats r3 with
          | none => (s, "bad-op")
          | some (de, r4) =>
            if !r4.isEmpty then (s, "bad-op") else
            let t : TaggerW := ⟨tag, clsOf cls, handler, kindOf kind, cr, tr, ac, de, nat! pool,
                                if label == "-" then none else some (nat! label)⟩
            ({ s with building := s.building ++ [t] }, s!"ok {s.building.length}")
  | ["wend"] =>
    let s' := load { s.c with taggers := s.building }
    (s', hdr s')
  | ["soundw"] => (s, soundReport s.c ++ (if WiringSound s.c then " [true]" else " [false]"))
  | "run" :: pre :: rest =>
    match takeYields (rest.length + 2) s.c.n rest with
    | none => (s, "bad-op")
    | some ys =>
      let yields : TaggerIdx → List IdTuple := fun T => (ys[T]?).getD []
      let preceding := if pre == "-" then none else some (nat! pre)
      -- without a start-of-run handler `TagActivator.initialize` raises; the harness never gets that far
      let (a', out) := getToRun s.w (s.S.getD 0) s.a preceding yields
      let s' := { s with a := a' }
      match out with
      | .ok created =>
        let cs := if created.isEmpty then "-" else joinSp (created.map fun (h, ids) => s!"{h}={encTuple ids}")
        (s', s!"ok {cs} | " ++ showState s')
      | .tagActivatorError => (s', "err:TagActivatorError")
      | .assertionError => (s', "err:AssertionError")
      | .keyError => (s', "err:KeyError")
  | ["trash", h] =>
    let (a', out) := getTrashable s.w s.a (nat! h)
    let s' := { s with a := a' }
    match out with
    | .ok l => (s', s!"ok {commas l}")
    | .assertionError => (s', "err:AssertionError")
    | .keyError => (s', "err:KeyError")
  | ["state"] => (s, showState s)
  | ["fp"] =>
    -- footprint tables of the session's wiring, per tagger: affects ident, affects motion, idsView, motionBound,
    -- then per tagger pair E,T the bit `disjointFP`
    (s, joinSp (s.c.taggers.map fun t =>
        t.tag ++ ":" ++ b01 (affects t .ident) ++ b01 (affects t .motion) ++ b01 (idsView t) ++ b01 (motionBound t) ++ ":" ++
        String.join (s.c.taggers.map fun u => b01 (disjointFP s.c t u))))
  | _ => (s, "bad-op")⟩

end JF.Driver
