import JF.Driver.Core
namespace JF.Driver
/-- component `deriv` (stub until its model is written) -/
def derivComp : Comp := Comp.pure fun _ => "unimplemented"
end JF.Driver
