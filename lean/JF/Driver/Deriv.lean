import JF.Driver.Core
import JF.Model.Potential.Derivative
import JF.Model.Potential.DerivativeEwald
/-!
Line-protocol component `deriv`: the binary64 reading of the derivative models (property C03).
Floats cross as uint64 bit patterns; Python exceptions as `err:<Name>`.
-/
namespace JF.Driver
open JF JF.Deriv

private def o : DOps Float := DOps.float
private def v3 (a b c : String) : V3 Float := ⟨fl a, fl b, fl c⟩

private def showR (r : Res Float) : String :=
  match r with
  | .ok x => bits x
  | .error e => "err:" ++ e

private def showR3 (r : Res (Float × Float × Float)) : String :=
  match r with
  | .ok (a, b, c) => s!"{bits a} {bits b} {bits c}"
  | .error e => "err:" ++ e

/-- component `deriv` -/
def derivComp : Comp := Comp.pure fun
  | ["erfc", x] => bits (erfcF (fl x))
  | ["norm", a, b, c] => showR (norm o (v3 a b c))
  | ["ip", power, pref, vx, vy, vz, sx, sy, sz, c1, c2] =>
      showR (do let p ← IP.make o (fl power) (fl pref)
                p.derivative o (v3 vx vy vz) (v3 sx sy sz) (fl c1) (fl c2))
  | ["lj", pref, cl, vx, vy, vz, sx, sy, sz] =>
      showR (do let p ← LJ.make o (fl pref) (fl cl)
                p.derivative o (v3 vx vy vz) (v3 sx sy sz))
  | ["dep", eq, power, pref, vx, vy, vz, sx, sy, sz] =>
      showR (do let p ← DEP.make o (fl eq) (int! power) (fl pref)
                p.derivative o (v3 vx vy vz) (v3 sx sy sz))
  | ["bend", eq, pref, vx, vy, vz, ax, ay, az, bx, b_y, bz] =>
      showR3 (do let p ← Bend.make o (fl eq) (fl pref)
                 p.derivative o (v3 vx vy vz) (v3 ax ay az) (v3 bx b_y bz))
  | ["bound", pref, vx, vy, vz, sx, sy, sz, c1, c2] =>
      showR (do let p ← Bound.make o (fl pref)
                p.derivative o (v3 vx vy vz) (v3 sx sy sz) (fl c1) (fl c2))
  | ["ewald", alpha, fc, pc, pref, len, vx, vy, vz, sx, sy, sz, c1, c2] =>
      showR (do let m ← Merged.make o (fl alpha) (int! fc) (int! pc) (fl pref) (fl len)
                m.derivative o (v3 vx vy vz) (v3 sx sy sz) (fl c1) (fl c2))
  | ["ewaldraw", alpha, fc, pc, len, sx, sy, sz] =>
      bits (ewaldC o (Ewald.construct o (nat! fc) (nat! pc) (fl alpha) (fl len)) (fl sx) (fl sy) (fl sz))
  | ["farr", alpha, len, i, j, k] => bits (fourierCoeff o (fl alpha) (fl len) (nat! i) (nat! j) (nat! k))
  | _ => "bad-op"
end JF.Driver
