import JF.Driver.Core
namespace JF.Driver
open JF
/-- self-check component: lets the harness validate the scalar layer against the hardware -/
def numComp : Comp := Comp.pure fun
  | ["fmod", x, y] => bits (Ops.float.fmod (fl x) (fl y))
  | ["pymod", x, y] => bits (pymod Ops.float (fl x) (fl y))
  | ["toint", x] => toString (Ops.float.toInt (fl x))
  | ["floor", x] => bits (Ops.float.floor (fl x))
  | ["divmod1", x] => let (q, r) := pydivmod1 Ops.float (fl x); s!"{bits q} {bits r}"
  | ["add", x, y] => bits (fl x + fl y)
  | ["sub", x, y] => bits (fl x - fl y)
  | ["mul", x, y] => bits (fl x * fl y)
  | ["div", x, y] => bits (fl x / fl y)
  | ["sqrt", x] => bits (fl x).sqrt
  | _ => "bad-op"
end JF.Driver
