import JF.Driver.Core
import JF.Model.Walker
namespace JF.Driver
open JF JF.Walker

/-- session state of component `walker`: the last built walker and the last initialised handler -/
structure WalkerSt where
  walker : Option (Table Float) := none
  handler : Option (Handler Float) := none

private def showRow : Row Float → String
  | .pair s l => s!"p:{s.item}:{bits s.rate}:{l.item}:{bits l.rate}"
  | .single x => s!"s:{x.item}:{bits x.rate}"

private def showTable (t : Table Float) : String :=
  joinSp (["ok", bits t.total, bits t.mean, toString t.rows.length] ++ t.rows.map showRow)

private def showNat : Except Err Nat → String
  | .ok n => s!"ok {n}"
  | .error e => e.token

/-- split `k` tokens off -/
private def takeFl (k : Nat) (l : List String) : List Float × List String := ((l.take k).map fl, l.drop k)

/-- parse `dim` blocks `n L cmin*n cmax*n` -/
private def parseGrid : Nat → List String → Option (List (Nat × Float × List Float × List Float) × List String)
  | 0, l => some ([], l)
  | d + 1, n :: len :: rest =>
    let n' := nat! n
    if rest.length < 2 * n' then none else
    let (mn, rest) := takeFl n' rest
    let (mx, rest) := takeFl n' rest
    match parseGrid d rest with
    | none => none
    | some (bs, rest) => some ((n', fl len, mn, mx) :: bs, rest)
  | _, _ => none

/-- `ndom` rows of `dim` pairs -/
private def parseEst (dim : Nat) : Nat → List String → List (List (Float × Float))
  | 0, _ => []
  | j + 1, l =>
    let row := (List.range dim).map fun d => (fl (l[2 * d]!), fl (l[2 * d + 1]!))
    row :: parseEst dim j (l.drop (2 * dim))

def walkerComp : Comp := ⟨WalkerSt, {}, fun st args =>
  match args with
  | "sum" :: rs => (st, bits (pysum Ops.float (rs.map fl)))
  | "build" :: rs =>
    match build Ops.float (rs.map fl) with
    | .ok t => ({ st with walker := some t }, showTable t)
    | .error e => ({ st with walker := none }, e.token)
  | ["sample", k, x] =>
    match st.walker with
    | none => (st, "no-walker")
    | some t => (st, showNat (sampleCell t (nat! k) (fl x)))
  | "hinit" :: dim :: nl :: rest =>
    let dim' := nat! dim
    match parseGrid dim' rest with
    | none => (st, "bad-args")
    | some (blocks, rest) =>
      let g : Grid Float := ⟨blocks.map (fun b => ⟨b.1, b.2.1, b.2.2.1, b.2.2.2⟩), nat! nl⟩
      let dom := domainOf g.ns g.nl
      if rest.length != 2 * dim' * dom.length then (st, s!"bad-args domain {dom.length}") else
      match initHandler Ops.float g (parseEst dim' dom.length rest) with
      | .error e => ({ st with handler := none }, e.token)
      | .ok h =>
        ({ st with handler := some h },
         joinSp (["ok", toString dom.length] ++ dom.map toString ++ h.upper.map (bits ·.total) ++ h.lower.map (bits ·.total)))
  | ["htable", ul, dir] =>
    match st.handler with
    | none => (st, "no-handler")
    | some h =>
      match (if ul == "u" then h.upper else h.lower)[nat! dir]? with
      | none => (st, "bad-args")
      | some t => (st, showTable t)
  | "translate" :: [cell, rel] =>
    match st.handler with
    | none => (st, "no-handler")
    | some h => (st, showNat (translate Ops.float h.grid (nat! cell) (nat! rel)))
  | "postocell" :: ps =>
    match st.handler with
    | none => (st, "no-handler")
    | some h => (st, showNat (posToCell Ops.float h.grid (ps.map fl)))
  | "hsend" :: rest =>
    match st.handler with
    | none => (st, "no-handler")
    | some h =>
      let dim := h.grid.dims.length
      if rest.length != 2 * dim + 6 then (st, "bad-args") else
      let (vel, rest) := takeFl dim rest
      match rest with
      | cf :: rest =>
        let (pos, rest) := takeFl dim rest
        match rest with
        | [tq, tr, k, x, e] =>
          match sendEventTime Ops.float h vel (fl cf) pos ⟨fl tq, fl tr⟩ (nat! k) (fl x) (fl e) with
          | .ok p => (st, s!"ok {bits p.time.q} {bits p.time.r} {p.target} {bits p.boundingRate}")
          | .error er => (st, er.token)
        | _ => (st, "bad-args")
      | _ => (st, "bad-args")
  | _ => (st, "bad-op")⟩
end JF.Driver
