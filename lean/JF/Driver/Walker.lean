import JF.Driver.Core
namespace JF.Driver
/-- component `walker` (stub until its model is written) -/
def walkerComp : Comp := Comp.pure fun _ => "unimplemented"
end JF.Driver
