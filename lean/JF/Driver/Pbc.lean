import JF.Driver.Core
import JF.Model.Periodic
/-
Component `pbc`: the periodic-boundary model (`JF.Model.Periodic`) in the binary64 reading.

Request lines (floats as uint64 bit patterns, integers as decimals):
  cubic    <dim> <L>            <op …>     HypercubicSetting(dimension=dim, system_length=L), cubic class
  cubicsim <dim> <L>            <op …>     same set-up, but the HypercuboidPeriodicBoundaries class on the
                                           "similar module" state written by `_set_similar_settings`
  cuboid   <dim> <n> <L1 … Ln>  <op …>     HypercuboidSetting(system_lengths=[L1..Ln], dimension=dim)
  fmodK <x> <y>                            self-check of the kernel-reducible fmod
ops:
  pos_entry <x> <i> | sep_entry <s> <i> | next <x> <i>
  pos <k> <x1 … xk> | sep <k> <s1 … sk> | sepvec <k> <r1 … rk> <m> <t1 … tm>
Reply: result floats (bit patterns) separated by blanks, or `err:IndexError`, or the set-up error token.
Every request is evaluated with `Ops.float` and with `Ops.floatK`; if the two differ the reply is `ops-mismatch`.
-/
namespace JF.Driver
open JF JF.Periodic

private def showL (l : List Float) : String := joinSp (l.map bits)
private def showO (r : Option (List Float)) : String :=
  match r with | some l => showL l | none => "err:IndexError"
private def showO1 (r : Option Float) : String :=
  match r with | some x => bits x | none => "err:IndexError"

/-- split `<k> <x1 … xk> rest` -/
private def takeVec (a : List String) : Option (List Float × List String) :=
  match a with
  | k :: rest =>
    let n := nat! k
    if rest.length < n then none else some ((rest.take n).map fl, rest.drop n)
  | [] => none

private def cubicOp (o : Ops Float) (c : Cubic Float) : List String → String
  | ["pos_entry", x, i] => bits (c.correctPositionEntry o (fl x) (int! i))
  | ["sep_entry", s, i] => bits (c.correctSeparationEntry o (fl s) (int! i))
  | ["next", x, i] => bits (c.nextImage (fl x) (int! i))
  | "pos" :: a => match takeVec a with
      | some (p, []) => showL (c.correctPosition o p)
      | _ => "bad-op"
  | "sep" :: a => match takeVec a with
      | some (p, []) => showL (c.correctSeparation o p)
      | _ => "bad-op"
  | "sepvec" :: a => match takeVec a with
      | some (r, b) => match takeVec b with
        | some (t, []) => showO (c.separationVector o r t)
        | _ => "bad-op"
      | _ => "bad-op"
  | _ => "bad-op"

private def cuboidOp (o : Ops Float) (c : Cuboid Float) : List String → String
  | ["pos_entry", x, i] => showO1 (c.correctPositionEntry o (fl x) (int! i))
  | ["sep_entry", s, i] => showO1 (c.correctSeparationEntry o (fl s) (int! i))
  | ["next", x, i] => showO1 (c.nextImage (fl x) (int! i))
  | "pos" :: a => match takeVec a with
      | some (p, []) => showO (c.correctPosition o p)
      | _ => "bad-op"
  | "sep" :: a => match takeVec a with
      | some (p, []) => showO (c.correctSeparation o p)
      | _ => "bad-op"
  | "sepvec" :: a => match takeVec a with
      | some (r, b) => match takeVec b with
        | some (t, []) => showO (c.separationVector o r t)
        | _ => "bad-op"
      | _ => "bad-op"
  | _ => "bad-op"

private def pbcWith (o : Ops Float) : List String → String
  | "cubic" :: d :: L :: op =>
      match Cubic.init o (int! d) (fl L) with
      | .ok c => cubicOp o c op
      | .error e => e
  | "cubicsim" :: d :: L :: op =>
      match Cubic.init o (int! d) (fl L) with
      | .ok c => cuboidOp o (c.similar o) op
      | .error e => e
  | "cuboid" :: d :: a =>
      match takeVec a with
      | some (Ls, op) =>
        match Cuboid.init o (int! d) Ls with
        | .ok c => cuboidOp o c op
        | .error e => e
      | none => "bad-op"
  | _ => "bad-op"

def pbcComp : Comp := Comp.pure fun
  | ["fmodK", x, y] => bits (ffmodK (fl x) (fl y))
  | a =>
    let r := pbcWith Ops.float a
    let rK := pbcWith Ops.floatK a
    if r == rK then r else "ops-mismatch"
end JF.Driver
