import JF.Driver.Core
namespace JF.Driver
/-- component `pbc` (stub until its model is written) -/
def pbcComp : Comp := Comp.pure fun _ => "unimplemented"
end JF.Driver
