import JF.Driver.Core
import JF.Model.Output
/-
Component `output`: the output-handler model (`JF.Model.Output`) in the binary64 reading, as a SESSION: `init` constructs a
handler (replacing the one of the session, if any), `write` feeds it an extracted global state, `post_run` returns its files.

Request lines (floats as uint64 bit patterns, integers as decimals):
  init <kind> cubic  <dim> <L>            <levels> <perRoot>     kind: sep | bond | oo | pol
  init <kind> cuboid <dim> <n> <L1 … Ln>  <levels> <perRoot>
      -> `ok <number of files> <file-name suffixes separated by ','>`  |  `err:ConfigurationError` | set-up error token
  write <state>           -> `<msg 0|1> <ok | err:…> <line> <line> …`   (lines printed by THIS call, in order)
  post_run                -> the files, separated by `|`; lines of a file separated by `;`
  vec norm|normsq <v>  |  vec dot|cos|angle <v> <w>                        (stateless: `base/vectors.py`)
with
  <state> := <number of roots> <root>*          <root> := <node> <number of children> <node>*
  <node>  := <identifier[-1]> <charge bits | N> <v>       <v> := <k> <x1 … xk>
  <line>  := <file index>:<x1>,<x2>,…           file line: `H` (hash header) | `C` (`# Polarization Vector`) | <x1>,<x2>,…
-/
namespace JF.Driver
open JF JF.Periodic JF.Output

private def takeVec (a : List String) : Option (List Float × List String) :=
  match a with
  | k :: rest =>
    let n := nat! k
    if rest.length < n then none else some ((rest.take n).map fl, rest.drop n)
  | [] => none

private def takeN {β : Type} (f : List String → Option (β × List String)) : Nat → List String → Option (List β × List String)
  | 0, a => some ([], a)
  | n + 1, a => do
    let (x, a) ← f a
    let (xs, a) ← takeN f n a
    pure (x :: xs, a)

private def takeNode (a : List String) : Option (Leaf Float × List String) :=
  match a with
  | i :: q :: rest => do
    let (p, rest) ← takeVec rest
    pure (⟨int! i, p, if q == "N" then none else some (fl q)⟩, rest)
  | _ => none

private def takeRoot (a : List String) : Option (Root Float × List String) := do
  let (nd, a) ← takeNode a
  match a with
  | k :: rest =>
    let (ch, rest) ← takeN takeNode (nat! k) rest
    pure (⟨nd.ident, nd.pos, nd.charge, ch⟩, rest)
  | [] => none

private def takeState (a : List String) : Option (List (Root Float)) :=
  match a with
  | k :: rest =>
    match takeN takeRoot (nat! k) rest with
    | some (rs, []) => some rs
    | _ => none
  | [] => none

private def kindOf : String → Option Kind
  | "sep" => some .separation | "bond" => some .bond | "oo" => some .oxygen | "pol" => some .polarization
  | _ => none

private def takeSetting (a : List String) : Except String (Setting Float) :=
  let o := Ops.float
  match a with
  | ["cubic", d, L, lv, pr] =>
    match Cubic.init o (int! d) (fl L) with
    | .ok c => .ok ⟨.cubic c, nat! lv, nat! pr⟩
    | .error e => .error e
  | "cuboid" :: d :: rest =>
    match takeVec rest with
    | some (Ls, [lv, pr]) =>
      match Cuboid.init o (int! d) Ls with
      | .ok c => .ok ⟨.cuboid c, nat! lv, nat! pr⟩
      | .error e => .error e
    | _ => .error "bad-op"
  | _ => .error "bad-op"

private def showVals (v : List Float) : String := ",".intercalate (v.map bits)
private def showLine (l : Line Float) : String := toString l.1 ++ ":" ++ showVals l.2
private def showFLine : FLine Float → String
  | .header => "H" | .comment => "C" | .vals v => showVals v
private def showRes : Except String Float → String
  | .ok x => bits x | .error e => e

private def vecOp : List String → String
  | "norm" :: a => match takeVec a with
      | some (v, []) => bits (norm OOps.float v) | _ => "bad-op"
  | "normsq" :: a => match takeVec a with
      | some (v, []) => bits (normSq Ops.float v) | _ => "bad-op"
  | op :: a => match takeVec a with
      | some (v, b) => match takeVec b with
        | some (w, []) =>
          if op == "dot" then showRes (dot Ops.float v w)
          else if op == "cos" then showRes (cosArg OOps.float v w)
          else if op == "angle" then showRes (angle OOps.float v w)
          else "bad-op"
        | _ => "bad-op"
      | none => "bad-op"
  | _ => "bad-op"

def outputComp : Comp where
  σ := Option (Setting Float × Handler Float)
  init := none
  step s a :=
    match a with
    | "init" :: k :: rest =>
      match kindOf k, takeSetting rest with
      | some kind, .ok st =>
        match Handler.init st kind with
        | .ok h =>
          let sfx := if kind == .separation then (List.range st.perRoot).map (sepFileSuffix st.perRoot)
                     else if kind == .bond then ["_Length", "_Angle"] else [""]
          (some (st, h), s!"ok {h.files.length} {",".intercalate sfx}")
        | .error e => (none, e)
      | some _, .error e => (none, e)
      | none, _ => (s, "bad-op")
    | "write" :: rest =>
      match s, takeState rest with
      | some (st, h), some state =>
        let (h', err, msg) := h.write OOps.float st state
        -- the lines printed by this call, recomputed from the observable (the session state carries the files)
        let ls := (observe OOps.float st h.kind state).1
        (some (st, h'), joinSp ([b01 msg, (match err with | some e => e | none => "ok")] ++ ls.map showLine))
      | _, _ => (s, "bad-op")
    | ["post_run"] =>
      match s with
      | some (_, h) => (s, "|".intercalate (h.postRun.map fun f => ";".intercalate (f.map showFLine)))
      | none => (s, "bad-op")
    | "vec" :: rest => (s, vecOp rest)
    | _ => (s, "bad-op")
end JF.Driver
