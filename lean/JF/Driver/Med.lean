import JF.Driver.Core
import JF.Driver.Act
import JF.Model.Mediator
namespace JF.Driver
open JF JF.Act JF.Heap JF.Sched JF.Med

/-!
component `med`: one session holds a wiring and THREE copies of the composed mediator loop `JF.Med.leg`, one per scheduler
instance (`H` = model of `HeapScheduler` on the model of `heap.c`, `L` = model of `ListScheduler`, `S` = spec-level
scheduler).  Times are `Time Float` (two bit patterns), compared as in `heap.c` / `Time.__lt__` (`JF.Sched.floatCfg`).

requests                                   replies
`wbegin …` / `tagger …` / `wend`           exactly as for component `act` (the wiring sent by the harness)
`nargs b0 b1 …`                            `number_send_event_time_arguments != 0` per handler; (re)starts the three loops: `ok`
`leg <n> (h q r)*n <yields>`               one leg: the candidate time of handler `h` is `(q, r)` (a handler that is handed out
                                           but not listed gets `(nan, nan)`), `<yields>` as in `run` of component `act`.
                                           reply `<H> | <L> | <S>`, each
                                           `ok <handler> <q> <r> <stop> c:<created> p:<pushed> t:<trashed> pre:<preceding> live:<live>`
                                           | `err:<exception>` | `dead` (the loop of that instance has ended).
                                           `<created>` = `h=<ids>` as in `act`; `<pushed>`, `<live>` = `h:q:r,…|-`; `<live>` is the
                                           scheduler's live set after the leg (heap: array order; list/spec: list order)
-/

structure MedSess where
  act : ActSess
  M : MWire
  hs : Option (MedState (HSched (Time Float)))
  ls : Option (MedState (LSched (Time Float)))
  ss : Option (MedState (SSched (Time Float)))

private def mw0 : MWire := ⟨[], 0, fun _ => false, fun _ => false⟩
private def msess0 : MedSess := ⟨actComp.init, mw0, none, none, none⟩

private def hI : SchedI (Time Float) := heapI floatCfg uintRange
private def lI : SchedI (Time Float) := listI floatCfg
private def sI : SchedI (Time Float) := specI floatCfg

private def fNaN : Float := 0.0 / 0.0

private def takeNatsM (a : List String) : Option (List Nat × List String) :=
  match a with
  | [] => none
  | n :: rest =>
    let k := nat! n
    if rest.length < k then none else some ((rest.take k).map nat!, rest.drop k)

private def takeTupleM (fuel : Nat) (a : List String) : Option (IdTuple × List String) :=
  match a with
  | [] => none
  | "N" :: rest => some (none, rest)
  | k :: rest =>
    let rec go (fuel n : Nat) (acc : List (List Nat)) (a : List String) : Option (List (List Nat) × List String) :=
      match fuel, n with
      | _, 0 => some (acc.reverse, a)
      | 0, _ => none
      | f + 1, n + 1 => match takeNatsM a with
        | none => none
        | some (ident, rest) => go f n (ident :: acc) rest
    match go fuel (nat! k) [] rest with
    | none => none
    | some (ids, rest') => some (some ids, rest')

private def takeTuplesM (fuel : Nat) (n : Nat) (a : List String) : Option (List IdTuple × List String) :=
  let rec go (fuel n : Nat) (acc : List IdTuple) (a : List String) : Option (List IdTuple × List String) :=
    match fuel, n with
    | _, 0 => some (acc.reverse, a)
    | 0, _ => none
    | f + 1, n + 1 => match takeTupleM (f + 1) a with
      | none => none
      | some (t, rest) => go f n (t :: acc) rest
  go fuel n [] a

private def takeYieldsM (fuel : Nat) (ntag : Nat) (a : List String) : Option (List (List IdTuple)) :=
  let rec go (fuel n : Nat) (acc : List (List IdTuple)) (a : List String) : Option (List (List IdTuple)) :=
    match fuel, n with
    | _, 0 => if a.isEmpty then some acc.reverse else none
    | 0, _ => none
    | f + 1, n + 1 => match a with
      | [] => none
      | k :: rest => match takeTuplesM (f + 1) (nat! k) rest with
        | none => none
        | some (ts, rest') => go f n (ts :: acc) rest'
  go fuel ntag [] a

/-- `<n> (h q r)*n rest` -/
private def takeTimes (a : List String) : Option (List (Nat × Time Float) × List String) :=
  match a with
  | [] => none
  | n :: rest =>
    let k := nat! n
    if rest.length < 3 * k then none else
    let rec go (k : Nat) (acc : List (Nat × Time Float)) (a : List String) : List (Nat × Time Float) × List String :=
      match k, a with
      | k + 1, h :: q :: r :: rest => go k ((nat! h, ⟨fl q, fl r⟩) :: acc) rest
      | _, a => (acc.reverse, a)
    some (go k [] rest)

private def encTupleM : IdTuple → String
  | none => "N"
  | some [] => "E"
  | some ids => ";".intercalate (ids.map fun i => ".".intercalate (i.map toString))

private def commasM (l : List Nat) : String := if l.isEmpty then "-" else ",".intercalate (l.map toString)

private def showEvents (l : List (Nat × Time Float)) : String :=
  if l.isEmpty then "-" else ",".intercalate (l.map fun (h, t) => s!"{h}:{bits t.q}:{bits t.r}")

private def showErr : Err → String
  | .tagActivatorError => "err:TagActivatorError"
  | .activatorAssertion => "err:AssertionError:get_event_handlers_to_run"
  | .activatorKeyError => "err:KeyError:get_event_handlers_to_run"
  | .inStateAssertion h => s!"err:AssertionError:in_state:{h}"
  | .schedEmpty => "err:SchedulerError:empty"
  | .schedGuard h => s!"err:SchedulerError:time-not-increasing:{h}"
  | .trashAssertion => "err:AssertionError:get_trashable_events"
  | .trashKeyError => "err:KeyError:get_trashable_events"
  | .schedTrash h => s!"err:SchedulerError:trash:{h}"

private def showCommit (c : Committed (Time Float)) (pre : Option Nat) (live : List (Time Float × Nat)) : String :=
  let cs := if c.created.isEmpty then "-" else ",".intercalate (c.created.map fun (h, ids) => s!"{h}={encTupleM ids}")
  s!"ok {c.handler} {bits c.time.q} {bits c.time.r} {b01 c.stop} c:{cs} p:{showEvents c.pushed} t:{commasM c.trashed} " ++
  s!"pre:{match pre with | some h => toString h | none => "-"} live:{showEvents (live.map fun (t, h) => (h, t))}"

/-- one leg of one instance; `live` reads the scheduler's live set off the instance's state -/
private def stepOne (M : MWire) (I : SchedI (Time Float)) (live : I.σ → List (Time Float × Nat))
    (st : Option (MedState I.σ)) (o : Oracle (Time Float)) : Option (MedState I.σ) × String :=
  match st with
  | none => (none, "dead")
  | some s =>
    match leg M I s o with
    | .error e => (none, showErr e)
    | .ok (s', c) => ((if c.stop then none else some s'), showCommit c s'.preceding (live s'.sched))

def medComp : Comp := ⟨MedSess, msess0, fun s a =>
  match a with
  | "wbegin" :: _ | "tagger" :: _ | ["wend"] =>
    let (a', r) := actComp.step s.act a
    ({ msess0 with act := a' }, r)
  | "nargs" :: bs =>
    let need : List Bool := bs.map (· == "1")
    let M := MWire.ofWiring s.act.c (s.act.S.getD 0) (fun h => (need[h]?).getD false)
    ({ s with M := M, hs := some (MedState.init hI M.w), ls := some (MedState.init lI M.w), ss := some (MedState.init sI M.w) }, "ok")
  | "leg" :: rest =>
    match takeTimes rest with
    | none => (s, "bad-op")
    | some (times, r1) =>
      match takeYieldsM (r1.length + 2) s.act.c.n r1 with
      | none => (s, "bad-op")
      | some ys =>
        let o : Oracle (Time Float) :=
          ⟨fun T => (ys[T]?).getD [], fun h => (times.lookup h).getD ⟨fNaN, fNaN⟩⟩
        let (hs', rh) := stepOne s.M hI (fun x => HSched.liveList floatCfg x) s.hs o
        let (ls', rl) := stepOne s.M lI (fun x => LSched.liveList x) s.ls o
        let (ss', rs) := stepOne s.M sI (fun x => x.live) s.ss o
        ({ s with hs := hs', ls := ls', ss := ss' }, rh ++ " | " ++ rl ++ " | " ++ rs)
  | _ => (s, "bad-op")⟩

end JF.Driver
