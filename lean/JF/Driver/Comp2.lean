import JF.Driver.Core
import JF.Model.Composite
namespace JF.Driver
open JF JF.Composite

private def fls2 (l : List String) : List Float := l.map fl

private def showUnit2 (u : PUnit Float) : String :=
  joinSp (u.pos.map bits) ++ " " ++
  (match u.vel with | some v => "1 " ++ joinSp (v.map bits) | none => "0") ++ " " ++
  (match u.ts with | some t => s!"1 {bits t.q} {bits t.r}" | none => "0")

/-- unit = pos(d)  ("0" | "1" vel(d))  ("0" | "1" q r); returns the rest of the tokens -/
private def parseUnit2 (d : Nat) (a : List String) : Option (PUnit Float × List String) :=
  let pos := fls2 (a.take d)
  match a.drop d with
  | "0" :: rest =>
    match rest with
    | "0" :: r => some (⟨pos, none, none⟩, r)
    | "1" :: q :: r :: rr => some (⟨pos, none, some ⟨fl q, fl r⟩⟩, rr)
    | _ => none
  | "1" :: rest =>
    let v := fls2 (rest.take d)
    match rest.drop d with
    | "0" :: r => some (⟨pos, some v, none⟩, r)
    | "1" :: q :: r :: rr => some (⟨pos, some v, some ⟨fl q, fl r⟩⟩, rr)
    | _ => none
  | _ => none

private def parseUnits (d : Nat) : Nat → List String → Option (List (PUnit Float) × List String)
  | 0, a => some ([], a)
  | k + 1, a =>
    match parseUnit2 d a with
    | none => none
    | some (u, r) =>
      match parseUnits d k r with
      | none => none
      | some (us, rr) => some (u :: us, rr)

private def parseComps (d : Nat) : Nat → List String → Option (List (CObj Float) × List String)
  | 0, a => some ([], a)
  | k + 1, a =>
    match a with
    | n :: r =>
      match parseUnits d (nat! n + 1) r with
      | some (root :: leaves, rr) =>
        match parseComps d k rr with
        | none => none
        | some (cs, r3) => some (⟨root, leaves⟩ :: cs, r3)
      | _ => none
    | [] => none

/-- `n x1 … xn` -/
private def parseNats (a : List String) : Option (List Nat × List String) :=
  match a with
  | n :: r => let k := nat! n; if r.length < k then none else some ((r.take k).map nat!, r.drop k)
  | [] => none

private def parseEv (d : Nat) (a : List String) : Option (Composite.Ev Float) :=
  match a with
  | "start" :: i :: rest =>
    match parseNats rest with
    | some (P, v) => if v.length == d then some (.start (nat! i) P (fls2 v)) else none
    | none => none
  | kind :: q :: r :: rest =>
    let t : Time Float := ⟨fl q, fl r⟩
    match kind with
    | "keep" => match parseNats rest with
      | some (S, []) => some (.keep t S)
      | _ => none
    | "snap" => match parseNats rest with
      | some (S, [i, j, dd, x]) => some (.snap t S (nat! i) (if j == "-1" then none else some (nat! j)) (nat! dd) (fl x))
      | _ => none
    | "exchange" => match parseNats rest with
      | some (S, [i, j, i', j']) => some (.exchange t S (nat! i) (nat! j) (nat! i') (nat! j'))
      | _ => none
    | "pass" => match parseNats rest with
      | some (S, [iL, iT]) => some (.pass t S (nat! iL) (nat! iT))
      | _ => none
    | "eocLeaf" => match rest with
      | i :: j :: i' :: j' :: v => if v.length == d then some (.eocLeaf t (nat! i) (nat! j) (nat! i') (nat! j') (fls2 v)) else none
      | _ => none
    | "eocRoot" => match rest with
      | i :: i' :: v => if v.length == d then some (.eocRoot t (nat! i) (nat! i') (fls2 v)) else none
      | _ => none
    | "toLeaf" => match rest with
      | [i, c] => some (.toLeaf t (nat! i) (nat! c))
      | _ => none
    | "toRoot" => match rest with
      | [i] => some (.toRoot t (nat! i))
      | _ => none
    | _ => none
  | _ => none

private def dumpComps (cs : List (CObj Float)) : String :=
  " | ".intercalate (cs.flatMap (fun c => (c.root :: c.leaves).map showUnit2))

/-- component `comp2`: stateless requests
`ev d L.. thr ncomp {n root leaf_1 … leaf_n}.. kind args..` -> all units of the composite objects after the event;
`dipole d L.. c.. dir.. s` / `water d L.. c.. a.. b..` -> leaf positions of the random node creators;
`weight n` -> `1 / n`. -/
def comp2Comp : Comp := Comp.pure fun a =>
  match a with
  | "ev" :: d :: rest =>
    let d := nat! d
    let L := fls2 (rest.take d)
    match rest.drop d with
    | thr :: nc :: r =>
      match parseComps d (nat! nc) r with
      | some (cs, evs) =>
        match parseEv d evs with
        | some e => dumpComps (step Ops.float (smallThr Ops.float (fl thr)) L cs e)
        | none => "bad-op"
      | none => "bad-op"
    | _ => "bad-op"
  | "dipole" :: d :: rest =>
    let d := nat! d
    match rest.drop (3 * d) with
    | [s] =>
      let (p, q) := dipoleLeaves Ops.float (fls2 (rest.take d)) (fls2 ((rest.drop d).take d)) (fls2 ((rest.drop (2*d)).take d)) (fl s)
      joinSp ((p ++ q).map bits)
    | _ => "bad-op"
  | "water" :: d :: rest =>
    let d := nat! d
    if rest.length != 4 * d then "bad-op" else
    let (h1, ox, h2) := waterLeaves Ops.float (fls2 (rest.take d)) (fls2 ((rest.drop d).take d)) (fls2 ((rest.drop (2*d)).take d))
      (fls2 ((rest.drop (3*d)).take d))
    joinSp ((h1 ++ ox ++ h2).map bits)
  | ["weight", n] => bits (weight Ops.float (⟨⟨[], none, none⟩, List.replicate (nat! n) ⟨[], none, none⟩⟩ : CObj Float))
  | _ => "bad-op"
end JF.Driver
