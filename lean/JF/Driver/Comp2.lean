import JF.Driver.Core
namespace JF.Driver
/-- component `comp2` (two-level composite-object model; stub until its model is written) -/
def comp2Comp : Comp := Comp.pure fun _ => "unimplemented"
end JF.Driver
