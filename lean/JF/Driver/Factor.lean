import JF.Driver.Core
import JF.Model.CellTaggers
import JF.Model.FactorMaps
/-
Component `factor` (property C10): the cell taggers / veto domain over an occupancy state given as
data, and the factor-file maps.

Wire format (one request line -> one reply line, tokens separated by blanks):
* tuple of integers  `0,1`            (cell identifier, state identifier, index list)
* list of tuples     `0,1;2,0`  or `-` for the empty list
* list of lists      entries separated by `/`, `-` for empty

requests
  allcells  <n>                                   -> cells `;`
  nearby    <n> <layers> <cell>                   -> cells `;`   (the stored set, model order)
  translate <n> <cell> <rel>                      -> cell
  relative  <n> <cell> <ref>                      -> cell
  cell <n> <layers> <active | -> <k> <occ>*k <surplus>*   with active = `cell=id`, occ/surplus = `cell=id;id`
        -> `V:<in-states> B:<in-states> E:<in-states> S:<in-states> D:<cell>key/...> T:<cell=args/...>`
  file   <nRoots> <nPer> <line>*            line = `0,1:Harmonic`
        -> `ok <Type:loc:idx=S;S|idx=S>*`  |  `err:<Exception>`
  yield  <nRoots> <nPer> <Type> <active id> <line>*   -> `ok <in-states>` | `err:<Exception>`
  tagger <nRoots> <nPer> <Type> <leaf ids> <line>*    -> `ok <in-states>` | `err:<Exception>`
  shipped                                   -> names of the factor-set files the theorems talk about
  shipped <file name>                       -> `<nPer> <line>*` of the table `JF.FactorMaps.shipped`
-/
namespace JF.Driver
open JF.CellTaggers JF.FactorMaps

private def tup (s : String) : List Nat :=
  if s == "" || s == "()" then [] else (s.splitOn ",").map String.toNat!
private def showTup (t : List Nat) : String := if t.isEmpty then "()" else ",".intercalate (t.map toString)
private def tups (s : String) : List (List Nat) := if s == "-" then [] else (s.splitOn ";").map tup
private def showTups (l : List (List Nat)) : String :=
  if l.isEmpty then "-" else ";".intercalate (l.map showTup)
private def showLL (l : List (List (List Nat))) : String :=
  if l.isEmpty then "-" else "/".intercalate (l.map showTups)

private def keyed (s : String) : List Nat × List (List Nat) :=
  match s.splitOn "=" with
  | [c, v] => (tup c, tups v)
  | _ => ([], [])

private def mkOcc (active : String) (occ sur : List String) : Occ :=
  let tbl := occ.map keyed
  { occ := fun c => (tbl.lookup c).getD []
    surplus := sur.map keyed
    active := if active == "-" then none else
      match active.splitOn "=" with
      | [c, a] => some (tup c, tup a)
      | _ => none }

private def showArgs (l : List (Option (List Nat))) : String :=
  ";".intercalate (l.map fun | none => "N" | some t => showTup t)

private def cellReply (g : Grid) (s : Occ) : String :=
  let d := (vetoDomainKeyed g).map fun p => showTup p.1 ++ ">" ++ showTup p.2
  let t := (vetoTargets g s).map fun p => showTup p.1 ++ "=" ++ showArgs p.2
  let j := fun (l : List String) => if l.isEmpty then "-" else "/".intercalate l
  s!"V:{showLL (cellVetoTagger s)} B:{showLL (cellBoundingTagger g s)} E:{showLL (excludedCellsTagger g s)} S:{showLL (surplusCellsTagger s)} D:{j d} T:{j t}"

private def line (s : String) : Line :=
  match s.splitOn ":" with
  | [i, t] => ⟨tup i, t⟩
  | _ => ⟨[], ""⟩

private def showMap (m : IndexMap) : String :=
  if m.isEmpty then "-" else
  "|".intercalate (m.map fun p => toString p.1 ++ "=" ++ showTups p.2)

private def showFactors (fs : Factors) : String :=
  joinSp ("ok" :: fs.map fun p =>
    let loc := match p.2.isLocal with | none => "N" | some true => "1" | some false => "0"
    s!"{p.1}:{loc}:{showMap p.2.map}")

private def showRes : Except String (List InState) → String
  | .error e => "err:" ++ e
  | .ok l => "ok " ++ showLL l

def factorComp : Comp := Comp.pure fun
  | ["allcells", n] => showTups (allCells (tup n))
  | ["nearby", n, l, c] => showTups (nearby ⟨tup n, nat! l⟩ (tup c))
  | ["translate", n, c, r] => showTup (translate (tup n) (tup c) (tup r))
  | ["relative", n, c, r] => showTup (relative (tup n) (tup c) (tup r))
  | "cell" :: n :: l :: active :: k :: rest =>
      let k := nat! k
      cellReply ⟨tup n, nat! l⟩ (mkOcc active (rest.take k) (rest.drop k))
  | "file" :: r :: p :: lines =>
      match instantiate ⟨nat! r, nat! p⟩ (lines.map line) [] with
      | .error e => "err:" ++ e
      | .ok fs => showFactors fs
  | "yield" :: r :: p :: ty :: act :: lines =>
      let s : Setting := ⟨nat! r, nat! p⟩
      match instantiate s (lines.map line) [] with
      | .error e => "err:" ++ e
      | .ok fs => showRes (yieldFactor s fs ty (tup act))
  | "tagger" :: r :: p :: ty :: leaves :: lines =>
      let s : Setting := ⟨nat! r, nat! p⟩
      match instantiate s (lines.map line) [] with
      | .error e => "err:" ++ e
      | .ok fs => showRes (taggerYield s fs ty (tups leaves))
  | ["shipped"] => joinSp (shipped.map fun f => f.1)
  | ["shipped", name] =>
      match shipped.lookup name with
      | none => "unknown"
      | some (n, lines) => joinSp (toString n :: lines.map fun ln => showTup ln.idx ++ ":" ++ ln.ty)
  | _ => "bad-op"
end JF.Driver
