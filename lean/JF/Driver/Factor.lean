import JF.Driver.Core
namespace JF.Driver
/-- component `factor` (stub until its model is written) -/
def factorComp : Comp := Comp.pure fun _ => "unimplemented"
end JF.Driver
