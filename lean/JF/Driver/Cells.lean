import JF.Driver.Core
namespace JF.Driver
/-- component `cells` (stub until its model is written) -/
def cellsComp : Comp := Comp.pure fun _ => "unimplemented"
end JF.Driver
