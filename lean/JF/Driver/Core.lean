import JF.Num.Ops
/-
Line-protocol plumbing.  A *component* is a little state machine: one request line in, one
canonical reply line out.  `Driver/Main.lean` reads the component name from the first input
line and then feeds every further line to that component.
-/
namespace JF.Driver

structure Comp where
  σ : Type
  init : σ
  step : σ → List String → σ × String

/-- a stateless component -/
def Comp.pure (f : List String → String) : Comp := ⟨Unit, (), fun _ a => ((), f a)⟩

def fl (s : String) : Float := JF.fOfBitsStr s
def bits (x : Float) : String := JF.fBitsStr x
def b01 (b : Bool) : String := if b then "1" else "0"
def int! (s : String) : Int := s.toInt!
def nat! (s : String) : Nat := s.toNat!
def joinSp (l : List String) : String := " ".intercalate l


partial def loop (h : IO.FS.Stream) (out : IO.FS.Stream) (c : Comp) (s : c.σ) : IO Unit := do
  let line ← h.getLine
  if line.isEmpty then return ()
  let args := (line.trimAscii.toString.splitOn " ").filter (· ≠ "")
  let (s', r) := c.step s args
  out.putStrLn r
  loop h out c s'

/-- run one session of component `c`: every stdin line is a request, one reply line each -/
def runComp (c : Comp) : IO Unit := do
  loop (← IO.getStdin) (← IO.getStdout) c c.init

end JF.Driver
