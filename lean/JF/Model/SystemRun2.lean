import JF.Model.SystemRun
import JF.Model.ConcreteWorld2
/-
The composed system for the concrete world of COMPOSITE OBJECTS WITHOUT CELLS (E16, the counterpart of `JF/Model/SystemRun.lean`):
the mediator loop of `JF/Model/Mediator.lean` (`JF.Med.leg`, spec-level scheduler over the exact candidate times `JF.Sys.XTime`)
running on the global state of `JF/Model/ConcreteWorld2.lean` (`List (CObj Rat)`: two-level trees, no internal state).

This file has the executable pieces only:

* `Sys2` — the state of the composed system at the boundary between two passes of the loop body of `SingleProcessMediator.run`,
  with ghost fields that the invariants of `JF/Props/SystemInv2.lean` speak about.  There is NO ghost mode in the global state
  (that is the point of E16): the leaf/root mode is READ OFF the activation flags of the activator (`JF.Act.modeOf`);
* `evTime` — the event time a composite event carries (`Time(0.0, 0.0)` for the start-of-run event);
* `flagsOf` — the activation flags of an activator state (`[tagger.activated for tagger in taggers]`);
* `cmodeNext` — the ghost "mode at the request of the candidate time" of E13 (`JF.Act.RunK`), per tagger: the taggers in the create
  list of the preceding handler's tagger get their candidates in this leg, i.e. in the mode of the flags in the middle of this leg.

Core Lean only.
-/
namespace JF.Sys2
open JF JF.Act JF.Heap JF.Sched JF.Med JF.Sys JF.CW2

/-- the composed system between two legs -/
structure Sys2 where
  /-- activator bookkeeping, scheduler, `_event_handler_with_shortest_event_time` -/
  med : MedState (SSched XTime)
  /-- the global state of composite objects (after the last commit) -/
  cs : List (CObj Rat)
  /-- ghost: the in-state identifiers the activator handed out with each handler -/
  ids : HandlerId → IdTuple
  /-- ghost: the global state before the last commit (the state the last leg's candidates were computed on) -/
  csPrev : List (CObj Rat)
  /-- ghost: the activator's lists in the middle of the last leg (after `get_event_handlers_to_run`, before the trash) -/
  mid : Act
  /-- ghost (E13's `cm`): per tagger, the mode read off the activation flags in the middle of the leg in which the candidate times of
  its pending handlers were requested -/
  cmode : TaggerIdx → WMode

/-- `[tagger.activated for tagger in taggers]` (definitionally `JF.Act.absOf` of `JF/Lemmas/ActivatorWiring.lean`) -/
def flagsOf (s : Act) : AState := s.map (·.activated)

/-- the mode of the composed system in the middle of a leg: READ OFF THE ACTIVATION FLAGS (`JF.Act.ModeWiring.mode`) -/
def modeAt (mw : ModeWiring) (mid : Act) : WMode := mw.mode (flagsOf mid)

/-- E13's ghost `cm` after the activator call of a leg (`RunK.step`): the taggers created by the tagger `E` of the preceding handler
request their candidate times now; nothing changes in the first leg (no preceding handler) -/
def cmodeNext (mw : ModeWiring) (preceding : Option HandlerId) (cm : TaggerIdx → WMode) (mid' : Act) : TaggerIdx → WMode :=
  match preceding.bind (owner mw.w.wires) with
  | none => cm
  | some E => fun T => if T ∈ (mw.w.tagger E).creates then modeAt mw mid' else cm T

section
variable {α : Type}

/-- the time of a committed composite event; the start-of-run event is at `Time(0.0, 0.0)` -/
def evTime (o : Ops α) : Composite.Ev α → Time α
  | .keep t _ => t
  | .snap t _ _ _ _ _ => t
  | .exchange t _ _ _ _ _ => t
  | .pass t _ _ _ => t
  | .eocLeaf t _ _ _ _ _ => t
  | .eocRoot t _ _ _ => t
  | .toLeaf t _ _ => t
  | .toRoot t _ => t
  | .start _ _ _ => ⟨o.ofInt 0, o.ofInt 0⟩

end

/-- the state before the first leg; the ghost `cmode` is irrelevant there (nothing is pending) and starts as the mode the
start-of-run handler creates -/
def Sys2.init (mw : ModeWiring) (cs : List (CObj Rat)) : Sys2 :=
  ⟨MedState.init (specI xcfg) mw.w.wires, cs, fun _ => none, cs, initAct mw.w.wires, fun _ => mw.startMode⟩

end JF.Sys2
