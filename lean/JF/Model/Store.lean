import JF.Num.Ops
/-!
Reference-level model of the tree state handler

* `jellyfysh/state_handler/tree_state_handler.py`              (`TreeStateHandler`)
* `jellyfysh/state_handler/physical_state/tree_physical_state.py` (`TreePhysicalState`)
* `jellyfysh/state_handler/lifting_state/tree_lifting_state.py`   (`TreeLiftingState`)
* `jellyfysh/base/node.py`, `base/unit.py`, `base/particle.py`    (the objects it hands around)

Python objects that can be shared *and* mutated (position lists, velocity lists, `Time`
objects) are cells of an explicit heap; a `Ref` is the identity of such an object.  `copy.copy`
allocates a fresh cell, plain attribute assignment (`node.value.position = position`) stores the
reference.  So aliasing versus copying is visible in the model exactly as in the code.

The tree has one or two levels (`setting.number_of_node_levels ∈ {1, 2}`, enforced by
`setting.set_number_of_node_levels`): root nodes with a (possibly empty) list of leaf children.
A branch of cnodes is therefore a root unit with a list of child units.

The second half of the file (`Sess`, `Op`, `step`) models a *client* of the state handler (the
mediator and the event handlers, or the test harness): it holds the branches it got, mutates
their fields and hands them back.  That part is what the line-protocol driver runs.
-/
namespace JF.Store

abbrev Ref := Nat
/-- `StateId = Tuple[int, ...]` (non-negative entries only) -/
abbrev Ident := List Nat

/-- the exceptions the modelled code can raise -/
inductive Err where
  | index      -- IndexError
  | key        -- KeyError
  | assertion  -- AssertionError
  | type       -- TypeError       (client side: subscripting `None`)
  | attribute  -- AttributeError  (client side: `None.update`)
deriving DecidableEq, Repr

def Err.token : Err → String
  | .index => "err:IndexError" | .key => "err:KeyError" | .assertion => "err:AssertionError"
  | .type => "err:TypeError" | .attribute => "err:AttributeError"

/-- a mutable Python object: a list of floats, or a `base.time.Time` (quotient, remainder) -/
inductive Obj (α : Type) where
  | vec (l : List α)
  | time (q r : α)

/-! ### the heap -/

structure Heap (α : Type) where
  cells : Array (Obj α)

namespace Heap
variable {α : Type}
def empty : Heap α := ⟨#[]⟩
/-- the next reference `alloc` will return -/
def next (h : Heap α) : Ref := h.cells.size
def get? (h : Heap α) (r : Ref) : Option (Obj α) := h.cells[r]?
/-- creation of a new object -/
def alloc (h : Heap α) (o : Obj α) : Heap α × Ref := (⟨h.cells.push o⟩, h.cells.size)
/-- in-place mutation of an existing object -/
def write (h : Heap α) (r : Ref) (o : Obj α) : Heap α := ⟨h.cells.setIfInBounds r o⟩
/-- `copy.copy(x)` of a list / of a `Time`: a new object with the same content.  (A dangling
reference does not occur; the default only makes the function total.) -/
def copy (h : Heap α) (r : Ref) : Heap α × Ref := h.alloc ((h.get? r).getD (.vec []))
/-- `copy.copy(x)` where `x` may be `None` (`copy(None) is None`) -/
def copyOpt (h : Heap α) : Option Ref → Heap α × Option Ref
  | none => (h, none)
  | some r => ((h.copy r).1, some (h.copy r).2)
end Heap

/-! ### the global state -/

/-- `Node(Particle(position, charge))` of the physical state.  `charge` is the identity of the
charge dictionary (or `None`); it is handed out by reference and never mutated.  `weight` is
`Node.weight` (`1` for a root, `1 / len(parent.children)` for a child; static). -/
structure PNode (α : Type) where
  pos : Ref
  charge : Option Nat
  weight : α

/-- a root node with its children -/
structure PRoot (α : Type) where
  node : PNode α
  children : List (PNode α)

/-- `TreeLiftingState`: `_lifting_dictionary` (insertion ordered, as a Python dict) and
`_lifted_identifiers[1]`, `_lifted_identifiers[2]` (Python sets; kept as duplicate-free lists,
their iteration order is not part of the model's observable behaviour). `levels` and `perRoot`
are `setting.number_of_node_levels` and `setting.number_of_nodes_per_root_node`. -/
structure Lifting where
  levels : Nat
  perRoot : Nat
  dict : List (Ident × Ref × Ref)
  lifted1 : List Ident
  lifted2 : List Ident

structure Global (α : Type) where
  roots : List (PRoot α)
  lift : Lifting

/-- `Node(Unit(identifier, position, charge, velocity, time_stamp), weight)` -/
structure CUnit (α : Type) where
  id : Ident
  pos : Ref
  charge : Option Nat
  vel : Option Ref
  ts : Option Ref
  weight : α

/-- a branch of cnodes: the root cnode and its child cnodes -/
structure Branch (α : Type) where
  root : CUnit α
  children : List (CUnit α)

/-- preorder list of the cnodes of a branch -/
def Branch.units {α : Type} (b : Branch α) : List (CUnit α) := b.root :: b.children

/-! ### `TreeLiftingState` -/

def dictGet : List (Ident × Ref × Ref) → Ident → Option (Ref × Ref)
  | [], _ => none
  | (k, x) :: rest, id => if k = id then some x else dictGet rest id

/-- `d[id] = (v, t)`: an existing key keeps its place, a new one goes to the end -/
def dictSet : List (Ident × Ref × Ref) → Ident → Ref × Ref → List (Ident × Ref × Ref)
  | [], id, x => [(id, x)]
  | (k, y) :: rest, id, x => if k = id then (k, x) :: rest else (k, y) :: dictSet rest id x

def dictDel (d : List (Ident × Ref × Ref)) (id : Ident) : List (Ident × Ref × Ref) :=
  d.filter (fun e => e.1 ≠ id)

def setAdd (s : List Ident) (id : Ident) : List Ident := if id ∈ s then s else s ++ [id]
def setRemove (s : List Ident) (id : Ident) : List Ident := s.filter (· ≠ id)

namespace Lifting

/-- `TreeLiftingState.get` : `(velocity, time_stamp)` or `(None, None)` -/
def get (l : Lifting) (id : Ident) : Option Ref × Option Ref :=
  match dictGet l.dict id with
  | some (v, t) => (some v, some t)
  | none => (none, none)

/-- `self._lifted_identifiers[n] := f (self._lifted_identifiers[n])`; `KeyError` if there is no
such set (the dictionary of sets has the keys `1 .. levels`) -/
def modLifted (l : Lifting) (n : Nat) (f : List Ident → List Ident) : Except Err Lifting :=
  if n = 1 ∧ 1 ≤ l.levels then .ok { l with lifted1 := f l.lifted1 }
  else if n = 2 ∧ 2 ≤ l.levels then .ok { l with lifted2 := f l.lifted2 }
  else .error .key

/-- `TreeLiftingState.set` (and `_delete`).  Returns the state reached and the exception, if any:
the dictionary entry is written *before* the set of lifted identifiers is looked up. -/
def set (l : Lifting) (id : Ident) (v t : Option Ref) : Lifting × Option Err :=
  match v with
  | some v =>
    match t with
    | none => (l, some .assertion)                      -- assert time_stamp is not None
    | some t =>
      let l1 := { l with dict := dictSet l.dict id (v, t) }
      match l1.modLifted id.length (setAdd · id) with
      | .ok l2 => (l2, none)
      | .error e => (l1, some e)
  | none =>
    match t with
    | some _ => (l, some .assertion)                    -- assert time_stamp is None
    | none =>
      if (dictGet l.dict id).isSome then               -- if identifier in self._lifting_dictionary.keys()
        let l1 := { l with dict := dictDel l.dict id }
        match l1.modLifted id.length (setRemove · id) with
        | .ok l2 => (l2, none)
        | .error e => (l1, some e)
      else (l, none)

/-- `yield_independent_lifted_identifiers`, resp. (chosen in `__init__` when there is one level)
`_yield_independent_lifted_identifiers_simple` -/
def independent (l : Lifting) : List Ident :=
  if l.levels = 1 then l.dict.map (·.1)
  else l.lifted1.flatMap fun root =>
    let ls := ((List.range l.perRoot).map (fun i => root ++ [i])).filter (· ∈ l.lifted2)
    if ls.length = l.perRoot then [root] else ls

end Lifting

/-! ### `TreePhysicalState` -/
section
variable {α : Type}

/-- `TreePhysicalState.get` -/
def physGet (roots : List (PRoot α)) : Ident → Except Err (PNode α)
  | [] => .error .index
  | [r] => match roots[r]? with
    | none => .error .index
    | some R => .ok R.node
  | [r, c] => match roots[r]? with
    | none => .error .index
    | some R => match R.children[c]? with
      | none => .error .index
      | some L => .ok L
  | _ :: _ :: _ :: _ => .error .index     -- a leaf has no children (or an earlier index failed)

/-- `TreePhysicalState.set` : `node.value.position = position` (stores the reference) -/
def physSet (roots : List (PRoot α)) (id : Ident) (p : Ref) : Except Err (List (PRoot α)) :=
  match id with
  | [] => .error .index
  | [r] => match roots[r]? with
    | none => .error .index
    | some R => .ok (roots.set r { R with node := { R.node with pos := p } })
  | [r, c] => match roots[r]? with
    | none => .error .index
    | some R => match R.children[c]? with
      | none => .error .index
      | some L => .ok (roots.set r { R with children := R.children.set c { L with pos := p } })
  | _ :: _ :: _ :: _ => .error .index

/-! ### `TreeStateHandler` -/

/-- `Node(Unit(id, cp(node.value.position), node.value.charge, cp(velocity), cp(time_stamp)),
node.weight)` with `(velocity, time_stamp) = lifting_state.get(id)`; `cp` is `copy` (`true`) or the
identity (`false`); arguments are evaluated left to right. -/
def mkCNode (cp : Bool) (l : Lifting) (h : Heap α) (n : PNode α) (id : Ident) : Heap α × CUnit α :=
  if cp then
    let h1 := h.copy n.pos
    let h2 := h1.1.copyOpt (l.get id).1
    let h3 := h2.1.copyOpt (l.get id).2
    (h3.1, ⟨id, h1.2, n.charge, h2.2, h3.2, n.weight⟩)
  else (h, ⟨id, n.pos, n.charge, (l.get id).1, (l.get id).2, n.weight⟩)

/-- `for index, child in enumerate(children): _construct_cnode_with_all_children_cnodes(child,
identifier + (index,), cp)` for leaf children (which have no children themselves); `i` is the
index of the first element of the list -/
def mkChildren (cp : Bool) (l : Lifting) (r : Nat) : Heap α → List (PNode α) → Nat → Heap α × List (CUnit α)
  | h, [], _ => (h, [])
  | h, n :: ns, i =>
    let a := mkCNode cp l h n [r, i]
    let b := mkChildren cp l r a.1 ns (i + 1)
    (b.1, a.2 :: b.2)

/-- `TreeStateHandler.extract_from_global_state`.  On an exception nothing observable has
changed (only unreachable copies were made), so no state is returned then. -/
def extract (g : Global α) (h : Heap α) : Ident → Except Err (Heap α × Branch α)
  | [] => .error .index                                  -- identifier[0]
  | r :: rest =>
    match g.roots[r]? with
    | none => .error .index
    | some R =>
      let a := mkCNode true g.lift h R.node [r]
      match rest with
      | [] =>
        let b := mkChildren true g.lift r a.1 R.children 0
        .ok (b.1, ⟨a.2, b.2⟩)
      | [c] =>
        match R.children[c]? with
        | none => .error .index
        | some L =>
          let b := mkCNode true g.lift a.1 L [r, c]
          .ok (b.1, ⟨a.2, [b.2]⟩)                         -- the leaf has no children to add
      | _ :: _ :: _ => .error .index

/-- one step of `insert_into_global_state`: `physical_state.set` then `lifting_state.set` -/
def insertUnit (g : Global α) (u : CUnit α) : Global α × Option Err :=
  match physSet g.roots u.id u.pos with
  | .error e => (g, some e)
  | .ok roots =>
    let r := g.lift.set u.id u.vel u.ts
    (⟨roots, r.1⟩, r.2)

/-- the cnodes in the order the recursion of `insert_into_global_state` visits them, up to the
first exception -/
def insertUnits (g : Global α) : List (CUnit α) → Global α × Option Err
  | [] => (g, none)
  | u :: us =>
    match insertUnit g u with
    | (g1, none) => insertUnits g1 us
    | r => r

/-- `TreeStateHandler.insert_into_global_state` -/
def insert (g : Global α) (bs : List (Branch α)) : Global α × Option Err :=
  insertUnits g (bs.flatMap Branch.units)

/-- `[extract_from_global_state(id) for id in ids]` -/
def extractMany (g : Global α) : Heap α → List Ident → Except Err (Heap α × List (Branch α))
  | h, [] => .ok (h, [])
  | h, id :: ids =>
    match extract g h id with
    | .error e => .error e
    | .ok (h1, b) =>
      match extractMany g h1 ids with
      | .error e => .error e
      | .ok (h2, bs) => .ok (h2, b :: bs)

/-- `TreeStateHandler.extract_active_global_state` -/
def extractActive (g : Global α) (h : Heap α) : Except Err (Heap α × List (Branch α)) :=
  extractMany g h g.lift.independent

/-- the branch of root `r` built by `_construct_cnode_with_all_children_cnodes` with the default
(identity) copy method -/
def aliasBranch (l : Lifting) (h : Heap α) (r : Nat) (R : PRoot α) : Branch α :=
  ⟨(mkCNode false l h R.node [r]).2, (mkChildren false l r h R.children 0).2⟩

def aliasBranches (l : Lifting) (h : Heap α) : List (PRoot α) → Nat → List (Branch α)
  | [], _ => []
  | R :: Rs, r => aliasBranch l h r R :: aliasBranches l h Rs (r + 1)

/-- `TreeStateHandler.extract_global_state`: nothing is copied -/
def extractGlobal (g : Global α) (h : Heap α) : List (Branch α) := aliasBranches g.lift h g.roots 0

/-! ### reading values -/

/-- what a unit *says*: the values behind its references -/
structure UVal (α : Type) where
  id : Ident
  pos : Option (Obj α)
  charge : Option Nat
  vel : Option (Option (Obj α))
  ts : Option (Option (Obj α))
  weight : α

def readUnit (h : Heap α) (u : CUnit α) : UVal α :=
  ⟨u.id, h.get? u.pos, u.charge, u.vel.map h.get?, u.ts.map h.get?, u.weight⟩

def readBranch (h : Heap α) (b : Branch α) : List (UVal α) := b.units.map (readUnit h)

/-- the value of the global state: what `extract_global_state` shows -/
def readGlobal (g : Global α) (h : Heap α) : List (List (UVal α)) :=
  (extractGlobal g h).map (readBranch h)

/-! ### a client session -/

/-- a branch held by the client; `iso` is a ghost flag: the branch came from
`extract_from_global_state` / `extract_active_global_state` and has not been handed to
`insert_into_global_state` since -/
structure Live (α : Type) where
  b : Branch α
  iso : Bool

structure Sess (α : Type) where
  g : Global α
  h : Heap α
  live : List (Live α)

/-- the client's operations.  Units of a branch are addressed as `u = 0` (root cnode) or
`u = k + 1` (child cnode `k`). -/
inductive Op (α : Type) where
  | extract (id : Ident)
  | active
  | global
  /-- `insert_into_global_state([...])`; `(b, 0)` is the root cnode of live branch `b`, `(b, k+1)`
  its child cnode `k` on its own -/
  | insert (sel : List (Nat × Nat))
  /-- `unit.position[i] = x` -/
  | setPos (b u i : Nat) (x : α)
  /-- `unit.position = [xs...]` (a new list) -/
  | newPos (b u : Nat) (xs : List α)
  /-- `unit.velocity[i] = x` -/
  | setVel (b u i : Nat) (x : α)
  /-- `unit.velocity = [xs...]` or `None` -/
  | newVel (b u : Nat) (xs : Option (List α))
  /-- `unit.time_stamp.update(Time(q, r))` -/
  | tsUpdate (b u : Nat) (q r : α)
  /-- `unit.time_stamp = Time(q, r)` or `None` -/
  | newTs (b u : Nat) (t : Option (α × α))

def Branch.getUnit (b : Branch α) : Nat → Option (CUnit α)
  | 0 => some b.root
  | k + 1 => b.children[k]?

def Branch.setUnit (b : Branch α) (u : Nat) (x : CUnit α) : Branch α :=
  match u with
  | 0 => { b with root := x }
  | k + 1 => { b with children := b.children.set k x }

/-- the cnode `(b, u)` as a branch root (with its children when it is the root cnode) -/
def selBranch (live : List (Live α)) (s : Nat × Nat) : Option (Branch α) :=
  match live[s.1]? with
  | none => none
  | some L =>
    match s.2 with
    | 0 => some L.b
    | k + 1 => (L.b.children[k]?).map fun c => ⟨c, []⟩

def selBranches (live : List (Live α)) : List (Nat × Nat) → Option (List (Branch α))
  | [] => some []
  | s :: ss =>
    match selBranch live s, selBranches live ss with
    | some b, some bs => some (b :: bs)
    | _, _ => none

/-- lexicographic order on identifiers / identifier lists, as Python compares tuples -/
def lexLe : List Nat → List Nat → Bool
  | [], _ => true
  | _ :: _, [] => false
  | a :: as, b :: bs => a < b || (a == b && lexLe as bs)

/-- sort key of a branch: its identifiers in preorder -/
def Branch.key (b : Branch α) : List Nat := b.units.flatMap (·.id)

/-- clear the ghost flag of the live branches with index in `hs` -/
def markInserted (hs : List Nat) (live : List (Live α)) : List (Live α) :=
  live.mapIdx fun i L => if i ∈ hs then { L with iso := false } else L

/-- replace unit `u` of live branch `b` -/
def setLiveUnit (live : List (Live α)) (b u : Nat) (x : CUnit α) : List (Live α) :=
  match live[b]? with
  | none => live
  | some L => live.set b { L with b := L.b.setUnit u x }

def getLiveUnit (live : List (Live α)) (b u : Nat) : Option (CUnit α) :=
  match live[b]? with
  | none => none
  | some L => L.b.getUnit u

/-- outcome token of a step: `none` = fine, `some e` = exception `e` -/
abbrev Outcome := Option Err

/-- one client operation.  A reference to a non-existing live branch / cnode is a client error
(`KeyError` token, nothing happens). -/
def step (s : Sess α) : Op α → Sess α × Outcome
  | .extract id =>
    match extract s.g s.h id with
    | .error e => (s, some e)
    | .ok (h, b) => ({ s with h := h, live := s.live ++ [⟨b, true⟩] }, none)
  | .active =>
    match extractActive s.g s.h with
    | .error e => (s, some e)
    | .ok (h, bs) =>
      -- the client keeps the branches sorted by key (the iteration order of a Python set is
      -- not modelled)
      let bs' := bs.mergeSort (fun a b => lexLe a.key b.key)
      ({ s with h := h, live := s.live ++ bs'.map (⟨·, true⟩) }, none)
  | .global =>
    ({ s with live := s.live ++ (extractGlobal s.g s.h).map (⟨·, false⟩) }, none)
  | .insert sel =>
    match selBranches s.live sel with
    | none => (s, some .key)
    | some bs =>
      let r := insert s.g bs
      ({ s with g := r.1, live := markInserted (sel.map (·.1)) s.live }, r.2)
  | .setPos b u i x =>
    match getLiveUnit s.live b u with
    | none => (s, some .key)
    | some c =>
      match s.h.get? c.pos with
      | some (.vec l) =>
        if i < l.length then ({ s with h := s.h.write c.pos (.vec (l.set i x)) }, none)
        else (s, some .index)
      | _ => (s, some .type)
  | .newPos b u xs =>
    match getLiveUnit s.live b u with
    | none => (s, some .key)
    | some c =>
      let a := s.h.alloc (.vec xs)
      ({ s with h := a.1, live := setLiveUnit s.live b u { c with pos := a.2 } }, none)
  | .setVel b u i x =>
    match getLiveUnit s.live b u with
    | none => (s, some .key)
    | some c =>
      match c.vel with
      | none => (s, some .type)                          -- 'NoneType' object does not support item assignment
      | some r =>
        match s.h.get? r with
        | some (.vec l) =>
          if i < l.length then ({ s with h := s.h.write r (.vec (l.set i x)) }, none)
          else (s, some .index)
        | _ => (s, some .type)
  | .newVel b u xs =>
    match getLiveUnit s.live b u with
    | none => (s, some .key)
    | some c =>
      match xs with
      | none => ({ s with live := setLiveUnit s.live b u { c with vel := none } }, none)
      | some xs =>
        let a := s.h.alloc (.vec xs)
        ({ s with h := a.1, live := setLiveUnit s.live b u { c with vel := some a.2 } }, none)
  | .tsUpdate b u q r =>
    match getLiveUnit s.live b u with
    | none => (s, some .key)
    | some c =>
      match c.ts with
      | none => (s, some .attribute)                     -- 'NoneType' object has no attribute 'update'
      | some t => ({ s with h := s.h.write t (.time q r) }, none)
  | .newTs b u t =>
    match getLiveUnit s.live b u with
    | none => (s, some .key)
    | some c =>
      match t with
      | none => ({ s with live := setLiveUnit s.live b u { c with ts := none } }, none)
      | some (q, r) =>
        let a := s.h.alloc (.time q r)
        ({ s with h := a.1, live := setLiveUnit s.live b u { c with ts := some a.2 } }, none)

/-- run a list of operations -/
def run (s : Sess α) : List (Op α) → Sess α
  | [] => s
  | op :: ops => run (step s op).1 ops

/-! ### initial state -/

/-- allocate the position lists of the given particles: `(charge, position)` per node -/
def initNodes (w : α) : Heap α → List (Option Nat × List α) → Heap α × List (PNode α)
  | h, [] => (h, [])
  | h, (c, p) :: rest =>
    let a := h.alloc (.vec p)
    let b := initNodes w a.1 rest
    (b.1, ⟨a.2, c, w⟩ :: b.2)

/-- the root nodes as an input handler builds them: every root `(charge, position, children)`.
`Node.weight` is `1` for a root and `1 / len(parent.children)` for a child. -/
def initRoots [Div α] (o : Ops α) : Heap α → List (Option Nat × List α × List (Option Nat × List α)) →
    Heap α × List (PRoot α)
  | h, [] => (h, [])
  | h, (c, p, ch) :: rest =>
    let a := h.alloc (.vec p)
    let k := initNodes (o.ofInt 1 / o.ofInt ch.length) a.1 ch
    let b := initRoots o k.1 rest
    (b.1, ⟨⟨a.2, c, o.ofInt 1⟩, k.2⟩ :: b.2)

/-- `TreeStateHandler(TreePhysicalState(), TreeLiftingState()).initialize(root_nodes)` -/
def Sess.init [Div α] (o : Ops α) (levels perRoot : Nat)
    (roots : List (Option Nat × List α × List (Option Nat × List α))) : Sess α :=
  let a := initRoots o Heap.empty roots
  ⟨⟨a.2, ⟨levels, perRoot, [], [], []⟩⟩, a.1, []⟩

end
end JF.Store
