import JF.Num.Ops
import JF.Model.Time
/-
Model of `jellyfysh/event_handler/walker.py` (classes `WalkerItem`, `Walker`) and of the arithmetic /
selection part of `jellyfysh/event_handler/abstracts/cell_veto_event_handler.py`
(`CellVetoEventHandler.initialize`, `send_event_time`), with the parts of
`activator/internal_state/cell_occupancy/cells/cuboid_(periodic_)cells.py` that `send_event_time` calls
(`position_to_cell`, `translate`, the nearby cells of the zero cell).  Written branch for branch after the
source.  No Mathlib: this file is linked into the driver.

Items of a walker are identified by their position in the sequence handed to the constructor.
Python lists used as stacks (`pop()`/`append` at the end) are Lean lists whose *head* is the top.
-/
namespace JF.Walker

/-- the exceptions the modelled code can raise -/
inductive Err where
  | zeroDivision | assertion | index
deriving Repr, DecidableEq, Inhabited

def Err.token : Err → String
  | .zeroDivision => "err:ZeroDivisionError"
  | .assertion => "err:AssertionError"
  | .index => "err:IndexError"

/-- `WalkerItem` : `item` is the position of the object in the constructor's sequence -/
structure Item (α : Type) where
  item : Nat
  rate : α
deriving Repr, DecidableEq

/-- a row of `Walker._table`: a 2-tuple `(small_item, WalkerItem(large.item, mean - small.rate))` or a
1-tuple `(WalkerItem(item, mean),)` -/
inductive Row (α : Type) where
  | pair (s l : Item α)
  | single (x : Item α)
deriving Repr, DecidableEq

/-- the attributes of a `Walker` after `__init__` -/
structure Table (α : Type) where
  total : α
  mean : α
  rows : List (Row α)
deriving Repr, DecidableEq

section
variable {α : Type} [Add α] [Sub α] [Mul α] [Div α] [Neg α] [LT α] [DecidableLT α] [LE α] [DecidableLE α] [BEq α]

/-- C `fabs` (only ever compared, so the sign of a zero is immaterial) -/
def absv (o : Ops α) (x : α) : α := if x < o.ofInt 0 then -x else x

/-- `Py_IS_FINITE` -/
def isFinite (o : Ops α) (x : α) : Bool := !(o.isInf x) && x == x

/-- one step of the float loop of CPython 3.12's `builtin_sum` (Neumaier's compensated summation):
```
double t = f_result + x;
if (fabs(f_result) >= fabs(x)) c += (f_result - t) + x; else c += (x - t) + f_result;
f_result = t;
``` -/
def sumStep (o : Ops α) (fc : α × α) (x : α) : α × α :=
  let t := fc.1 + x
  if absv o x ≤ absv o fc.1 then (t, fc.2 + ((fc.1 - t) + x)) else (t, fc.2 + ((x - t) + fc.1))

/-- Python 3.12 `sum(floats)`: the integer start value `0` is added to the first float with an ordinary
addition, the remaining floats go through the compensated loop; at the end
`if (c && Py_IS_FINITE(c)) return f_result + c; return f_result;`.  (`sum([])` is the integer 0.) -/
def pysum (o : Ops α) : List α → α
  | [] => o.ofInt 0
  | x0 :: rest =>
    let fc := rest.foldl (sumStep o) (o.ofInt 0 + x0, o.ofInt 0)
    if fc.2 != o.ofInt 0 && isFinite o fc.2 then fc.1 + fc.2 else fc.1

/-- the walker items in constructor order -/
def mkItems : Nat → List α → List (Item α)
  | _, [] => []
  | i, r :: rs => ⟨i, r⟩ :: mkItems (i + 1) rs

/-- `small_list` after the first loop of `_build_table`, as a stack (`rate > mean` goes to `large_list`) -/
def smallOf (mean : α) (items : List (Item α)) : List (Item α) :=
  (items.filter fun it => !(decide (mean < it.rate))).reverse

/-- `large_list` after the first loop of `_build_table`, as a stack -/
def largeOf (mean : α) (items : List (Item α)) : List (Item α) :=
  (items.filter fun it => decide (mean < it.rate)).reverse

/-- `while len(small_list) and len(large_list):` of `_build_table`; the fuel bounds the number of
iterations (`JF.C18.pairLoop_done`: fuel `|small| + |large|` always suffices).  Returns the rows appended
and the two stacks at exit. -/
def pairLoop (mean : α) : Nat → List (Item α) → List (Item α) → List (Row α) × List (Item α) × List (Item α)
  | 0, small, large => ([], small, large)
  | fuel + 1, s :: small, l :: large =>
    -- `self._table.append((small_item, WalkerItem(large_item.item, self._mean_rate - small_item.rate)))`
    let row := Row.pair s ⟨l.item, mean - s.rate⟩
    -- `large_item.rate -= self._mean_rate - small_item.rate`
    let l' : Item α := ⟨l.item, l.rate - (mean - s.rate)⟩
    let out := if l'.rate < mean then pairLoop mean fuel (l' :: small) large
               else pairLoop mean fuel small (l' :: large)
    (row :: out.1, out.2.1, out.2.2)
  | _ + 1, small, large => ([], small, large)

/-- `1e-6` (correctly rounded quotient of two exactly represented integers = the literal) -/
def eps6 (o : Ops α) : α := o.ofInt 1 / o.ofInt 1000000

/-- the two `while len(x_list): assert 1-1e-6 < x_list[-1].rate / mean < 1+1e-6; append((WalkerItem(item, mean),))`
loops of `_build_table` -/
def leftover (o : Ops α) (mean : α) : List (Item α) → Except Err (List (Row α))
  | [] => .ok []
  | it :: rest =>
    if mean == o.ofInt 0 then .error .zeroDivision        -- Python float division by zero
    else
      let q := it.rate / mean
      if o.ofInt 1 - eps6 o < q ∧ q < o.ofInt 1 + eps6 o then
        match leftover o mean rest with
        | .ok rows => .ok (Row.single ⟨it.item, mean⟩ :: rows)
        | .error e => .error e
      else .error .assertion

/-- `Walker.__init__` (with `_build_table`) on the rates of the walker items -/
def build (o : Ops α) (rates : List α) : Except Err (Table α) :=
  match rates with
  | [] => .error .zeroDivision                             -- `total / len(walker_items)` with the int 0
  | _ :: _ =>
    let total := pysum o rates
    let mean := total / o.ofInt rates.length
    if !(rates.all fun r => decide (o.ofInt 0 ≤ r)) then .error .assertion
    else
      let items := mkItems 0 rates
      let out := pairLoop mean rates.length (smallOf mean items) (largeOf mean items)
      match leftover o mean out.2.1 with
      | .error e => .error e
      | .ok rs =>
        match leftover o mean out.2.2 with
        | .error e => .error e
        | .ok rl => .ok ⟨total, mean, out.1 ++ rs ++ rl⟩
end

section
variable {α : Type} [LE α] [DecidableLE α]

/-- the body of `Walker.sample_cell` after `random.choice`: `x` is the value of
`random.uniform(0.0, self._mean_rate)` -/
def sampleRow : Row α → α → Except Err Nat
  | .pair s l, x => if x ≤ s.rate then .ok s.item else .ok l.item
  | .single s, x => if x ≤ s.rate then .ok s.item else .error .index   -- `choice_from_table[1]` on a 1-tuple

/-- `Walker.sample_cell` with `random.choice` picking row `k` and `random.uniform` returning `x` -/
def sampleCell (t : Table α) (k : Nat) (x : α) : Except Err Nat :=
  match t.rows[k]? with
  | none => .error .index
  | some row => sampleRow row x
end

/-! ### cell geometry used by the cell-veto handler -/

/-- one direction of the periodic cell system as the handler reads it: number of cells, system length, and
`cell_min`/`cell_max` per one-dimensional identifier (produced by the real constructor; their construction
belongs to C16) -/
structure Dim (α : Type) where
  n : Nat
  len : α
  cmin : List α
  cmax : List α

/-- number of cells of the grid (`len(self._cells)`) -/
def numCells : List Nat → Nat
  | [] => 1
  | n :: ns => n * numCells ns

/-- the identifier tuple of the cell with list index `idx` (`index = sum(id[d] * cumulative_product[d])`) -/
def cellId : List Nat → Nat → List Nat
  | [], _ => []
  | n :: ns, idx => idx % n :: cellId ns (idx / n)

/-- is the cell with identifier `id` in `nearby_cells(zero_cell)` of `CuboidPeriodicCells`
(`_yield_nearby_cells`: every combination of `c % cells_per_side[d]`, `c ∈ range(-layers, layers+1)`) -/
def nearbyZero (nl : Nat) : List Nat → List Nat → Bool
  | n :: ns, c :: cs =>
    ((List.range (2 * nl + 1)).any fun j => (c : Int) == (((j : Int) - (nl : Int)) % (n : Int))) && nearbyZero nl ns cs
  | _, _ => true

/-- the cells that get a walker item, in `yield_cells` order: `cell not in nearby_cells(zero_cell)` -/
def domainOf (ns : List Nat) (nl : Nat) : List Nat :=
  (List.range (numCells ns)).filter fun idx => !(nearbyZero nl ns (cellId ns idx))

/-- the periodic cell system -/
structure Grid (α : Type) where
  dims : List (Dim α)
  nl : Nat

def Grid.ns {α : Type} (g : Grid α) : List Nat := g.dims.map (·.n)

section
variable {α : Type} [Add α] [Sub α] [Mul α] [Div α] [Neg α] [LT α] [DecidableLT α] [LE α] [DecidableLE α] [BEq α]
  [Inhabited α]

/-- `self._cells[i]` with Python's negative-index rule -/
def pyIndex (n : Nat) (i : Int) : Except Err Nat :=
  if 0 ≤ i then (if i < n then .ok i.toNat else .error .index)
  else (if -(n : Int) ≤ i then .ok (i + n).toNat else .error .index)

/-- `all(0.0 <= position[index] <= setting.system_lengths[index] for index in range(dimension))` -/
def posInBox (o : Ops α) : List (Dim α) → List α → Bool
  | D :: Ds, p :: ps => decide (o.ofInt 0 ≤ p) && decide (p ≤ D.len) && posInBox o Ds ps
  | _, _ => true

/-- `sum(self._cell_identifier(position[index], index) * self._cumulative_product[index] ...)` with
`_cell_identifier(p, index) = min(int(p / self._cell_side_lengths[index]), self._cells_per_side[index] - 1)` and
`_cell_side_lengths[index] = system_lengths[index] / cells_per_side[index]` -/
def posIndex (o : Ops α) : List (Dim α) → List α → Int
  | D :: Ds, p :: ps =>
    min (o.toInt (p / (D.len / o.ofInt D.n))) ((D.n : Int) - 1) + (D.n : Int) * posIndex o Ds ps
  | _, _ => 0

/-- `CuboidCells.position_to_cell` -/
def posToCell (o : Ops α) (g : Grid α) (pos : List α) : Except Err Nat :=
  if !(posInBox o g.dims pos) then .error .assertion
  else pyIndex (numCells g.ns) (posIndex o g.dims pos)

/-- the `translated_position` of `CuboidPeriodicCells.translate(cell, relative_cell)`:
`correct_position_entry((cell.cell_max[d] + cell.cell_min[d]) / 2.0 + relative_cell.cell_min[d], d)`,
`correct_position_entry(p, d) = (r := p % system_lengths[d]; r if r != system_lengths[d] else 0.0)` (`JF.pywrap`);
cells are given by their list indices -/
def translatePos (o : Ops α) : List (Dim α) → Nat → Nat → List α
  | [], _, _ => []
  | D :: Ds, cell, rel =>
    pywrap o ((D.cmax[cell % D.n]! + D.cmin[cell % D.n]!) / o.ofInt 2 + D.cmin[rel % D.n]!) D.len
      :: translatePos o Ds (cell / D.n) (rel / D.n)

/-- `CuboidPeriodicCells.translate(cell, relative_cell)` on list indices -/
def translate (o : Ops α) (g : Grid α) (cell rel : Nat) : Except Err Nat :=
  posToCell o g (translatePos o g.dims cell rel)

/-- Python `max(b, 0.0)` : the first argument unless the second is greater -/
def pymax0 (o : Ops α) (b : α) : α := if b < o.ofInt 0 then o.ofInt 0 else b

/-- the attributes of an initialised `CellVetoEventHandler` that `send_event_time` reads.
`bounds[j][d] = (upper_bound, -lower_bound)` for the `j`-th cell of `domain` (`_derivative_bounds`). -/
structure Handler (α : Type) where
  grid : Grid α
  domain : List Nat
  bounds : List (List (α × α))
  upper : List (Table α)
  lower : List (Table α)

def buildAll (o : Ops α) : List (List α) → Except Err (List (Table α))
  | [] => .ok []
  | r :: rs =>
    match build o r with
    | .error e => .error e
    | .ok t => match buildAll o rs with
      | .error e => .error e
      | .ok ts => .ok (t :: ts)

/-- `CellVetoEventHandler.initialize`: `est[j][d] = (upper_bound, lower_bound)` is what
`estimator.derivative_bound` returned for the `j`-th non-nearby cell and direction `d` -/
def initHandler (o : Ops α) (g : Grid α) (est : List (List (α × α))) : Except Err (Handler α) :=
  let domain := domainOf g.ns g.nl
  let bounds := est.map fun row => row.map fun ul => (ul.1, -ul.2)
  let dims := List.range g.dims.length
  let upperRates := dims.map fun d => bounds.map fun row => pymax0 o (row[d]!).1
  let lowerRates := dims.map fun d => bounds.map fun row => pymax0 o (row[d]!).2
  match buildAll o upperRates with
  | .error e => .error e
  | .ok up => match buildAll o lowerRates with
    | .error e => .error e
    | .ok lo => .ok ⟨g, domain, bounds, up, lo⟩

/-- what `send_event_time` produces: candidate event time, list index of the target cell,
`_bounding_event_rate` -/
structure Proposal (α : Type) where
  time : Time α
  target : Nat
  boundingRate : α

/-- the part of `send_event_time` after the walker, the index of the bound (`sel` picks the upper or the
negated lower bound) and the absolute charge factor `cf'` have been chosen -/
def sendCore (o : Ops α) (h : Handler α) (dir : Nat) (speed : α) (active : Nat) (walker : Table α)
    (sel : α × α → α) (cf' : α) (ts : Time α) (k : Nat) (x e : α) : Except Err (Proposal α) :=
  -- `total_rate = walker.total_rate * charge_factor`
  let totalRate := walker.total * cf'
  -- `relative_cell = walker.sample_cell()`
  match sampleCell walker k x with
  | .error er => .error er
  | .ok j =>
    -- `self._bounding_event_rate = self._derivative_bounds[relative_cell][direction][index] * charge_factor`
    let rate := sel ((h.bounds[j]!)[dir]!) * cf'
    if !(decide (o.ofInt 0 < rate)) then .error .assertion else
    -- `target_cell = self._cells.translate(active_cell, relative_cell)`
    match translate o h.grid active h.domain[j]! with
    | .error er => .error er
    | .ok target =>
      -- `time_displacement = random.expovariate(setting.beta) / (total_rate * speed)`
      let denom := totalRate * speed
      if denom == o.ofInt 0 then .error .zeroDivision else
      .ok ⟨Time.add o ts (e / denom), target, rate⟩

/-- `CellVetoEventHandler.send_event_time`.  `vel`: velocity of the active leaf unit; `cf`: the value of
`estimator.charge_correction_factor(...)`; `pos`: position of the unit on the cell level; `ts`: time stamp
of the active leaf unit; `k`, `x`: the two draws of `sample_cell`; `e`: the value of
`random.expovariate(setting.beta)`. -/
def sendEventTime (o : Ops α) (h : Handler α) (vel : List α) (cf : α) (pos : List α) (ts : Time α)
    (k : Nat) (x e : α) : Except Err (Proposal α) :=
  let dirs := (List.range vel.length).filter fun d => vel[d]! != o.ofInt 0
  match dirs with
  | [dir] =>
    let speed := vel[dir]!
    if !(decide (o.ofInt 0 < speed)) then .error .assertion else
    match posToCell o h.grid pos with
    | .error er => .error er
    | .ok active =>
      if o.ofInt 0 < cf then
        match h.upper[dir]? with
        | none => .error .index
        | some walker => sendCore o h dir speed active walker (·.1) cf ts k x e
      else
        -- `charge_factor *= -1.0`
        match h.lower[dir]? with
        | none => .error .index
        | some walker => sendCore o h dir speed active walker (·.2) (cf * o.ofInt (-1)) ts k x e
  | _ => .error .assertion
end

end JF.Walker
