import JF.Model.CellTaggers
/-
Model of the file-based factor decomposition (property C10, second half).

Sources modelled (under /repo/jellyfysh/activator/tagger):
* `factor_type_maps.py`: `FactorTypeMaps.__FactorTypeMaps._instantiate_factor_type_maps` (after the
  regular expression has split a line into its index list and its factor type; the regular
  expression itself is not modelled, the correspondence run feeds the real parser with text and the
  model with the parsed lines and compares the resulting maps), `__getitem__` (fall back on the
  default map), `_FactorTypeMap.local` (setter), `append_to_map`, `_yield_factor_identifier_local`,
  `_yield_factor_identifier_non_local`, `_yield_factor_identifier_no_composite_objects`,
  `_AllLeafUnitFactorTypeMap`;
* `factor_type_map_in_state_tagger.py`: `FactorTypeMapInStateTagger.yield_identifiers_send_event_time`.

Exceptions of the real code are explicit outcomes (`Except String`, the string is the Python
exception class).  Pure integer / list logic, no Mathlib.
-/
namespace JF.FactorMaps
open JF.CellTaggers (dedupe)

abbrev Ident := List Nat
/-- an in-state identifier: a tuple of global-state identifiers -/
abbrev InState := List Ident

/-- the two numbers of `jellyfysh.setting` the module reads -/
structure Setting where
  /-- `setting.number_of_root_nodes` -/
  nRoots : Nat
  /-- `setting.number_of_nodes_per_root_node` -/
  nPer : Nat
deriving Repr

/-- one non-comment line of a factor file after the regular expression: `[i, j, ...], Type` -/
structure Line where
  idx : List Nat
  ty : String
deriving Repr, BEq, DecidableEq

/-- `_FactorTypeMap._map`: dictionary (insertion order) index -> list of index lists -/
abbrev IndexMap := List (Nat × List (List Nat))

/-- `_FactorTypeMap`: `_local` (`None` until the setter ran) and `_map` -/
structure TypeMap where
  isLocal : Option Bool
  map : IndexMap
deriving Repr, BEq, DecidableEq

/-- `if index not in self._map.keys(): self._map[index] = []` then
`self._map[index].append(copy(indices))` -/
def mapAppend : IndexMap → Nat → List Nat → IndexMap
  | [], i, S => [(i, [S])]
  | (j, l) :: rest, i, S => if i == j then (j, l ++ [S]) :: rest else (j, l) :: mapAppend rest i S

/-- `_FactorTypeMap.append_to_map` -/
def appendToMap (nPer : Nat) (m : IndexMap) (indices : List Nat) : IndexMap :=
  indices.foldl (fun m index => if index ≥ nPer then m else mapAppend m index indices) m

/-- the `local` property setter -/
def setLocal (tm : TypeMap) (value : Bool) : Except String TypeMap :=
  match tm.isLocal with
  | none => .ok { tm with isLocal := some value }
  | some b => if value != b then .error "AttributeError" else .ok tm

/-- `self._factors`: dictionary factor type -> `_FactorTypeMap` -/
abbrev Factors := List (String × TypeMap)

/-- dictionary assignment `d[k] = v` keeping insertion order -/
def upsert : Factors → String → TypeMap → Factors
  | [], k, v => [(k, v)]
  | (k', v') :: rest, k, v => if k == k' then (k', v) :: rest else (k', v') :: upsert rest k v

/-- body of the `for line in file` loop of `_instantiate_factor_type_maps` -/
def addLine (s : Setting) (fs : Factors) (ln : Line) : Except String Factors :=
  if ln.idx.any (fun i => i ≥ 2 * s.nPer) then .error "FactorSetError" else
  let tm := (fs.lookup ln.ty).getD ⟨none, []⟩
  match setLocal tm (ln.idx.all fun i => i < s.nPer) with
  | .error e => .error e
  | .ok tm' => .ok (upsert fs ln.ty { tm' with map := appendToMap s.nPer tm'.map ln.idx })

/-- `_instantiate_factor_type_maps` on the parsed lines -/
def instantiate (s : Setting) : List Line → Factors → Except String Factors
  | [], fs => .ok fs
  | ln :: rest, fs =>
    match addLine s fs ln with
    | .error e => .error e
    | .ok fs' => instantiate s rest fs'

/-- one index list instantiated for the active composite object `r` and the other one `o` -/
def inst (nPer r o : Nat) (S : List Nat) : InState :=
  S.map fun t => if t < nPer then [r, t] else [o, t - nPer]

/-- `_yield_factor_identifier_local` -/
def yieldLocal (s : Setting) (tm : TypeMap) (act : Ident) : Except String (List InState) :=
  match act with
  | [r, i] =>
    if r < s.nRoots then
      match tm.map.lookup i with
      | none => .error "KeyError"
      | some ls => .ok (ls.map fun S => S.map fun t => [r, t])
    else .error "AssertionError"
  | _ => .error "AssertionError"

/-- `_yield_factor_identifier_non_local` -/
def yieldNonLocal (s : Setting) (tm : TypeMap) (act : Ident) : Except String (List InState) :=
  match act with
  | [r, i] =>
    if r < s.nRoots ∧ i < s.nPer then
      .ok (((List.range s.nRoots).filter fun o => o != r).flatMap fun o =>
        match tm.map.lookup i with
        | none => []
        | some ls => ls.map (inst s.nPer r o))
    else .error "AssertionError"
  | _ => .error "AssertionError"

/-- `_AllLeafUnitFactorTypeMap.yield_factor_identifier_no_composite_objects` (also used by
`_FactorTypeMap._yield_factor_identifier_no_composite_objects`) -/
def yieldNoComposite (s : Setting) (act : Ident) : Except String (List InState) :=
  match act with
  | [r] =>
    if r < s.nRoots then
      .ok (((List.range s.nRoots).filter fun o => [o] != act).map fun o => [act, [o]])
    else .error "AssertionError"
  | _ => .error "AssertionError"

/-- `_AllLeafUnitFactorTypeMap._yield_factor_identifier_composite_objects` -/
def yieldAllComposite (s : Setting) (act : Ident) : Except String (List InState) :=
  match act with
  | [r, i] =>
    if r < s.nRoots ∧ i < s.nPer then
      .ok (((List.range s.nRoots).filter fun o => o != r).flatMap fun o =>
        (List.range s.nPer).map fun l => [act, [o, l]])
    else .error "AssertionError"
  | _ => .error "AssertionError"

/-- `FactorTypeMaps[factor].yield_factor_identifier(active_identifier)`: `__getitem__` with its
fall-back, then the method the constructor / the `local` setter bound -/
def yieldFactor (s : Setting) (fs : Factors) (ty : String) (act : Ident) :
    Except String (List InState) :=
  match fs.lookup ty with
  | some tm =>
    match tm.isLocal with
    | some true => yieldLocal s tm act
    | some false => if s.nPer == 1 then yieldNoComposite s act else yieldNonLocal s tm act
    | none => .error "NotImplementedError"
  | none => if s.nPer == 1 then yieldNoComposite s act else yieldAllComposite s act

/-- all factors of a list of active leaf identifiers, in generation order -/
def yieldAll (s : Setting) (fs : Factors) (ty : String) : List Ident → Except String (List InState)
  | [] => .ok []
  | a :: rest =>
    match yieldFactor s fs ty a with
    | .error e => .error e
    | .ok l =>
      match yieldAll s fs ty rest with
      | .error e => .error e
      | .ok l' => .ok (l ++ l')

/-- `FactorTypeMapInStateTagger.yield_identifiers_send_event_time`: `set(...)` of the factors of all
active leaves (argument: the identifiers of the leaf nodes of the active branches, in order) -/
def taggerYield (s : Setting) (fs : Factors) (ty : String) (leaves : List Ident) :
    Except String (List InState) :=
  match yieldAll s fs ty leaves with
  | .error e => .error e
  | .ok l => .ok (dedupe l)

/-! ### the shipped factor-set files as data
(`jellyfysh/config_files/factor_set_files/*.txt`; the correspondence run compares this table with
the files of the tree under test on every run, so the `decide`d facts about it in
`JF/Props/C10.lean` are facts about the current files) -/

/-- name, number of point masses per composite object the file is written for, lines -/
def shipped : List (String × Nat × List Line) := [
  ("factor_set_coulomb_atoms.txt", 1, [⟨[0, 1], "Coulomb"⟩]),
  ("factor_set_dipoles_atomic.txt", 2,
    [⟨[0, 1], "Harmonic"⟩, ⟨[0, 3], "Repulsive"⟩, ⟨[1, 2], "Repulsive"⟩, ⟨[0, 2], "Coulomb"⟩,
     ⟨[0, 3], "Coulomb"⟩, ⟨[1, 2], "Coulomb"⟩, ⟨[1, 3], "Coulomb"⟩]),
  ("factor_set_dipoles_dipole.txt", 2,
    [⟨[0, 1], "Harmonic"⟩, ⟨[0, 3], "Repulsive"⟩, ⟨[1, 2], "Repulsive"⟩, ⟨[0, 1, 2, 3], "Coulomb"⟩]),
  ("factor_set_hard_disk_dipoles.txt", 2,
    [⟨[0, 1], "Dipole"⟩, ⟨[0, 2], "Sphere"⟩, ⟨[0, 3], "Sphere"⟩, ⟨[1, 2], "Sphere"⟩, ⟨[1, 3], "Sphere"⟩]),
  ("factor_set_water.txt", 3,
    [⟨[0, 1], "Harmonic"⟩, ⟨[1, 2], "Harmonic"⟩, ⟨[1, 4], "LennardJones"⟩, ⟨[0, 1, 2], "Bending"⟩,
     ⟨[0, 1, 2, 3, 4, 5], "Coulomb"⟩]),
  ("factor_set_water_atomic.txt", 3,
    [⟨[0, 1], "Harmonic"⟩, ⟨[1, 2], "Harmonic"⟩, ⟨[1, 4], "LennardJones"⟩, ⟨[0, 1, 2], "Bending"⟩,
     ⟨[0, 3], "Coulomb"⟩, ⟨[0, 4], "Coulomb"⟩, ⟨[0, 5], "Coulomb"⟩, ⟨[1, 3], "Coulomb"⟩, ⟨[1, 4], "Coulomb"⟩,
     ⟨[1, 5], "Coulomb"⟩, ⟨[2, 3], "Coulomb"⟩, ⟨[2, 4], "Coulomb"⟩, ⟨[2, 5], "Coulomb"⟩])]

end JF.FactorMaps
