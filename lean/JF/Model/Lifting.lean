import JF.Num.Ops
/-
Model of `jellyfysh/lifting/lifting.py` (class `Lifting`: `__init__`, `reset`, `insert`, the guard of
`get_active_identifier`) and of the three concrete schemes
`inside_first_lifting.py`, `outside_first_lifting.py`, `ratio_lifting.py`, together with the loop that
fills the table in
`event_handler/fixed_separations_event_handler_with_piecewise_constant_bounding_potential.py`
(`send_out_state`: `reset`; `for index, leaf_unit in enumerate(...)`: `insert(derivative[index],
identifier, index == active_index)`; `get_active_identifier`).

Written branch for branch after the source, generic in the scalar `α`:
`α = Float`, `Ops.float` is what the driver runs against the real classes (bit for bit),
`α = ℚ` (or any ordered field) is what `JF/Props/C05.lean` proves theorems about.

Data representation: the source keeps two parallel Python lists `_negative_lifting_rates` and
`_associated_identifiers` which are only ever appended to together (in `insert`) and cleared together
(`__init__`, `reset`); the model keeps them as ONE list of pairs `(negated rate, identifier)`.

Random numbers: `random.uniform(a, b)` is `a + (b - a) * random()` in CPython; the fraction
`u = random()` is an explicit input of the model.
-/
namespace JF

/-- `random.uniform(a, b)` of CPython with the fraction `u = self.random()` made explicit. -/
def pyUniform {α : Type} [Add α] [Sub α] [Mul α] (a b u : α) : α := a + (b - a) * u

/-- error outcomes of the real code -/
inductive LiftErr where
  /-- `assert not is_active` in `Lifting.insert` -/
  | assertion
  /-- `LiftingSchemeError("Active unit has not been recorded.")` -/
  | notRecorded
  /-- `self._associated_identifiers[-1]` on an empty list -/
  | index
deriving Repr, DecidableEq

/-- the attributes of a `Lifting` instance -/
structure Lifting (α : Type) (ι : Type) where
  /-- `zip(_negative_lifting_rates, _associated_identifiers)` -/
  neg : List (α × ι)
  /-- `_random_position` -/
  pos : α
  /-- `_sum_positive_lifting_rates` -/
  sumPos : α
  /-- `_active_recorded` -/
  recorded : Bool

namespace Lifting
variable {α : Type} {ι : Type} [Add α] [Sub α] [Mul α] [Neg α] [LT α] [DecidableLT α] [LE α] [DecidableLE α]
  [BEq α]

/-- `Lifting.__init__` and `Lifting.reset` (identical bodies) -/
def empty (o : Ops α) : Lifting α ι := ⟨[], o.ofInt 0, o.ofInt 0, false⟩

/-- `Lifting.reset` -/
def reset (o : Ops α) (_ : Lifting α ι) : Lifting α ι := empty o

/-- `Lifting.insert(lifting_rate, associated_identifier, is_active)`; `u` is the fraction consumed by
`random.uniform(0.0, lifting_rate)` (only read in the active branch). -/
def insert (o : Ops α) (s : Lifting α ι) (rate : α) (id : ι) (isActive : Bool) (u : α) :
    Except LiftErr (Lifting α ι) :=
  if o.ofInt 0 < rate then
    -- `self._sum_positive_lifting_rates += lifting_rate`
    let sp := s.sumPos + rate
    if isActive then
      .ok { s with sumPos := sp, recorded := true, pos := s.pos + pyUniform (o.ofInt 0) rate u }
    else if !s.recorded then
      .ok { s with sumPos := sp, pos := s.pos + rate }
    else
      .ok { s with sumPos := sp }
  else
    -- `assert not is_active`
    if isActive then .error .assertion
    else .ok { s with neg := s.neg ++ [(-rate, id)] }

/-- `fabs`, only ever used inside a `>=` comparison (so the sign of zero and NaN behave as in C) -/
def absC (o : Ops α) (x : α) : α := if x < o.ofInt 0 then -x else x

/-- the float loop of CPython 3.12 `builtin_sum` (Neumaier compensated summation):
```
double t = f_result + x;
if (fabs(f_result) >= fabs(x)) c += (f_result - t) + x; else c += (x - t) + f_result;
f_result = t;
```
and at the end `if (c && Py_IS_FINITE(c)) f_result += c;` -/
def neumaier (o : Ops α) : List α → α → α → α
  | [], f, c =>
      if (c != o.ofInt 0) && ((c == c) && !(o.isInf c)) then f + c else f
  | x :: xs, f, c =>
      let t := f + x
      let c' := if absC o x ≤ absC o f then c + ((f - t) + x) else c + ((x - t) + f)
      neumaier o xs t c'

/-- `sum(list_of_floats)`: start value int `0`; the first item is added as `0 + item`
(`PyNumber_Add`), then the compensated float loop runs.  The empty sum is the int `0`, which the
callers immediately mix with floats (`0 - x`, `uniform(0.0, 0)`), so it is modelled as the scalar 0. -/
def pySum (o : Ops α) : List α → α
  | [] => o.ofInt 0
  | x :: xs => neumaier o xs (o.ofInt 0 + x) (o.ofInt 0)

/-- the common loop of the three `get_active_identifier` methods
```
for index, lifting_rate in enumerate(self._negative_lifting_rates):
    summed_lifting_rate += lifting_rate
    if position <= summed_lifting_rate: return self._associated_identifiers[index]
```
returning the index (none = loop ran to its end). -/
def walkIdx (position : α) : List (α × ι) → α → Option Nat
  | [], _ => none
  | (r, _) :: rest, summed =>
      let summed' := summed + r
      if position ≤ summed' then some 0 else (walkIdx position rest summed').map (· + 1)

/-- loop + `return self._associated_identifiers[-1]`, as the index into the table of negative rates
that the method reads the identifier from (`[-1]` on an empty list raises `IndexError`) -/
def selectIdx (o : Ops α) (position : α) (neg : List (α × ι)) : Except LiftErr Nat :=
  match walkIdx position neg (o.ofInt 0) with
  | some k => .ok k
  | none => if neg.isEmpty then .error .index else .ok (neg.length - 1)

/-- `self._associated_identifiers[index]` -/
def lookup (neg : List (α × ι)) (k : Nat) : Except LiftErr ι :=
  match neg[k]? with
  | some e => .ok e.2
  | none => .error .index      -- unreachable after `selectIdx`, kept total

/-- the common tail of the three `get_active_identifier` methods: the identifier returned -/
def select (o : Ops α) (position : α) (neg : List (α × ι)) : Except LiftErr ι :=
  match selectIdx o position neg with
  | .ok k => lookup neg k
  | .error e => .error e

/-- `InsideFirstLifting.get_active_identifier` -/
def getInside (o : Ops α) (s : Lifting α ι) : Except LiftErr ι :=
  if !s.recorded then .error .notRecorded else select o s.pos s.neg

/-- `OutsideFirstLifting.get_active_identifier`; it overwrites `_random_position`, so the new state is
returned as well (also when the final lookup raises). -/
def getOutside (o : Ops α) (s : Lifting α ι) : Lifting α ι × Except LiftErr ι :=
  if !s.recorded then (s, .error .notRecorded) else
    let p := pySum o (s.neg.map (·.1)) - s.pos
    ({ s with pos := p }, select o p s.neg)

/-- `RatioLifting.get_active_identifier`; `u` is the fraction consumed by its own `random.uniform`. -/
def getRatio (o : Ops α) (s : Lifting α ι) (u : α) : Except LiftErr ι :=
  if !s.recorded then .error .notRecorded else
    select o (pyUniform (o.ofInt 0) (pySum o (s.neg.map (·.1))) u) s.neg

/-- the table-filling loop of the event handlers: entry number `i + j` of the table is inserted as the
active one iff `i + j = a`. -/
def fillFrom (o : Ops α) (a : Nat) (u : α) : Nat → Lifting α ι → List (α × ι) → Except LiftErr (Lifting α ι)
  | _, s, [] => .ok s
  | i, s, (r, id) :: t =>
      match insert o s r id (i == a) u with
      | .ok s' => fillFrom o a u (i + 1) s' t
      | .error e => .error e

/-- `reset()` followed by the insertion loop -/
def fill (o : Ops α) (tbl : List (α × ι)) (a : Nat) (u : α) : Except LiftErr (Lifting α ι) :=
  fillFrom o a u 0 (empty o) tbl

/-- the three schemes -/
inductive Scheme where
  | inside | outside | ratio
deriving Repr, DecidableEq

/-- the position handed to the common loop by each scheme, for a filled table
(`u2` is only read by the ratio scheme; the outside scheme also stores it back, see `getOutside`) -/
def position (o : Ops α) (sch : Scheme) (s : Lifting α ι) (u2 : α) : α :=
  match sch with
  | .inside => s.pos
  | .outside => pySum o (s.neg.map (·.1)) - s.pos
  | .ratio => pyUniform (o.ofInt 0) (pySum o (s.neg.map (·.1))) u2

/-- one complete lifting move: fill the table with entry `a` active (draw `u`), ask the scheme
(`u2` is only read by the ratio scheme). -/
def choose (o : Ops α) (sch : Scheme) (tbl : List (α × ι)) (a : Nat) (u u2 : α) : Except LiftErr ι :=
  match fill o tbl a u with
  | .error e => .error e
  | .ok s =>
    match sch with
    | .inside => getInside o s
    | .outside => (getOutside o s).2
    | .ratio => getRatio o s u2

/-- the same move, reporting the index into the list of non-positive entries instead of the identifier
stored there (specification helper: `choose = chooseIdx >>= lookup`, theorem `choose_eq`) -/
def chooseIdx (o : Ops α) (sch : Scheme) (tbl : List (α × ι)) (a : Nat) (u u2 : α) : Except LiftErr Nat :=
  match fill o tbl a u with
  | .error e => .error e
  | .ok s => if !s.recorded then .error .notRecorded else selectIdx o (position o sch s u2) s.neg

end Lifting
end JF
