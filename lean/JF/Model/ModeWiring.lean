/-
The MODE DISCIPLINE of a wiring (engineering task E13).

`JF/Props/C12Chain.lean` proves the one-chain invariant of the two-level (composite object) machine for event lists whose
sequence of event KINDS respects a ghost mode (`modeStep`: `exchange`, `eocLeaf`, `toRoot` occur in leaf mode, `pass`, `eocRoot`,
`toLeaf` in root mode, `keep`/`snap` in both, `toRoot`/`toLeaf` switch).  In the code the mode is the state of the activator's
tags: `RootLeafUnitActiveSwitcher` events activate the taggers of the other mode and deactivate the present ones through the
`activate`/`deactivate` lists of the `.ini`.  This file is the executable side of that link:

* `HMode` — what the EVENT-HANDLER CLASS of a tagger can commit, read by the translator (`harness/translate.py: handler_mode`)
  from the class hierarchy under `jellyfysh/event_handler/` and from the two handler options the mode depends on (`aim_mode` of
  a switcher, `initial_active_identifier` of the start-of-run handler); `kindsOf` is the table handler class ↦ composite event kinds;
* `modeOf` — the mode assignment `AState → WMode`, read off the activated taggers;
* `ModeSound` — the decidable predicate over the reachable activation states `reach c S` of `JF/Model/Wiring.lean`.

Core Lean only (theorems: `JF/Props/ModeDiscipline.lean`).
-/
import JF.Model.Wiring
namespace JF.Act

/-- the two modes of a run with composite objects: one point mass moves / all point masses of one composite object move
(`_Modes.leaf_unit_active`, `_Modes.root_unit_active` of `root_leaf_unit_active_switcher.py`) -/
inductive WMode where
  | leaf | root
deriving DecidableEq, Repr

/-- the constructors of `JF.Composite.Ev` (`JF/Model/Composite.lean`) without their arguments -/
inductive EvKind where
  | keep | snap | exchange | pass | eocLeaf | eocRoot | toLeaf | toRoot | start
deriving DecidableEq, Repr

/-- `JF.C12.modeStep` on kinds: which kind is possible in which mode, and the mode afterwards -/
def kStep : WMode → EvKind → Option WMode
  | m, .keep => some m
  | m, .snap => some m
  | .leaf, .exchange => some .leaf
  | .leaf, .eocLeaf => some .leaf
  | .leaf, .toRoot => some .root
  | .root, .pass => some .root
  | .root, .eocRoot => some .root
  | .root, .toLeaf => some .leaf
  | _, _ => none

/-- the ghost mode along a list of kinds (`none`: some kind does not occur in the mode it meets) -/
def kRun : WMode → List EvKind → Option WMode
  | m, [] => some m
  | m, k :: ks => match kStep m k with
    | none => none
    | some m' => kRun m' ks

/-- What the event-handler class of a tagger does to the composite machine (by base class, in this order of precedence;
`harness/translate.py: Tree.handler_mode`):
* `start leaf` — `StartOfRunEventHandler`; `leaf` = the configured `initial_active_identifier` names a point mass (length ≥ 2) and
  not a composite object (`InitialChainStartOfRunEventHandler.send_out_state` gives the velocity to every leaf of the branch of that
  identifier);
* `neutral` — `EndOfRunEventHandler`, `SamplingEventHandler`, `DumpingEventHandler`: time-slice only;
* `endOfChain` — `EndOfChainEventHandler`: stops the moving unit(s) and starts the unit drawn by `_get_new_active_identifiers` WHEN THE
  CANDIDATE TIME WAS REQUESTED — a point mass if the active unit then was a point mass, a composite object if it then was a
  composite object ("This implies that the end-of-chain event should be trashed and recomputed if the simulation switches");
* `switcher aimLeaf` — `RootLeafUnitActiveSwitcher` with `aim_mode = leaf_unit_active` (`aimLeaf = true`: `_send_out_state_leaf_unit_active`,
  from root mode to leaf mode) or `root_unit_active`;
* `cellBoundary` — `CellBoundaryEventHandler`;
* `rootUnit` — `CompositeObjectsLifting` (`_pass_composite_object_velocity`: all leaves of the local object hand over to all
  leaves of the target object; `RootUnitActiveTwoLeafUnitEventHandler`, `RootUnitActiveTwoCompositeObject…`);
* `leafUnit` — `SingleActiveLeafUnitEventHandler` (`_extract_active_leaf_unit` asserts exactly one moving leaf in its branches,
  `_exchange_velocity` leaf to leaf): the two-leaf-unit, two-composite-object, fixed-separations and cell-veto handlers;
* `unknown` — anything else, or an option the translator could not read. -/
inductive HMode where
  | start (leaf : Bool) | neutral | endOfChain | switcher (aimLeaf : Bool) | cellBoundary | rootUnit | leafUnit | unknown
deriving DecidableEq, Repr

/-- a wiring together with the handler modes of its taggers (same order as `w.taggers`); `JF/Gen/ModeWirings.lean` has one per
shipped `.ini` -/
structure ModeWiring where
  w : Wiring
  hm : List HMode
deriving Repr

def ModeWiring.hmode (mw : ModeWiring) (i : TaggerIdx) : HMode := (mw.hm[i]?).getD .unknown

def allKinds : List EvKind := [.keep, .snap, .exchange, .pass, .eocLeaf, .eocRoot, .toLeaf, .toRoot, .start]

/-- THE MAP: the composite event kinds a handler of the given class can commit.  `cm` is the mode of the state in which the
candidate time of the committing handler was requested; only the end of chain depends on it.
A rejected event of a bounding-potential handler and an event whose lifting hands the velocity to nobody are `keep`s. -/
def kindsOf : HMode → WMode → List EvKind
  | .start _, _ => [.start]
  | .neutral, _ => [.keep]
  | .endOfChain, .leaf => [.eocLeaf]
  | .endOfChain, .root => [.eocRoot]
  | .switcher true, _ => [.toLeaf]
  | .switcher false, _ => [.toRoot]
  | .cellBoundary, _ => [.snap]
  | .rootUnit, _ => [.pass, .keep]
  | .leafUnit, _ => [.exchange, .keep]
  | .unknown, _ => allKinds

/-- handler classes whose kind depends on the mode at the time of the candidate-time request -/
def isPoly : HMode → Bool
  | .endOfChain => true
  | _ => false

/-- the mode in which a handler of this class can commit at all, if there is only one -/
def definite : HMode → Option WMode
  | .leafUnit => some .leaf
  | .rootUnit => some .root
  | .switcher true => some .root
  | .switcher false => some .leaf
  | _ => none

def startModeOf : HMode → Option WMode
  | .start true => some .leaf
  | .start false => some .root
  | _ => none

/-- `TaggerW.kind` (family by base class, `translate.py: handler_kind`) and the handler mode are two readings of one class -/
def kindAgrees : HandlerKind → HMode → Bool
  | .startOfRun, .start _ => true
  | .endOfRun, .neutral => true
  | .sampling, .neutral => true
  | .dumping, .neutral => true
  | .endOfChain, .endOfChain => true
  | .switcher, .switcher _ => true
  | .cellBoundary, .cellBoundary => true
  | .cellVeto, .leafUnit => true
  | .interaction, .leafUnit => true
  | .interaction, .rootUnit => true
  | _, _ => false

/-- THE MODE ASSIGNMENT: the mode of an activation state is the mode of the first tagger (in the order of the `taggers` option) that
can commit and whose handler class belongs to one mode only; `m₀` (the mode the start-of-run handler creates) if there is none -/
def modeOf (mw : ModeWiring) (m₀ : WMode) (σ : AState) : WMode :=
  (((List.range mw.w.n).filter (canCommit mw.w σ)).findSome? fun T => definite (mw.hmode T)).getD m₀

/-- the commit of an event of tagger `E` in activation state `σ`:
* every kind the handler class of `E` can commit is possible in the mode of `σ`, and leads to the mode of the activation state after
  the commit (`aStep`): switchers flip the tags, everything else keeps them;
* if the mode changes, every activated tagger whose kind depends on the mode at request time is trashed (so that no candidate
  computed in the old mode survives the switch). -/
def commitOK (mw : ModeWiring) (m₀ : WMode) (σ : AState) (E : TaggerIdx) : Bool :=
  let m := modeOf mw m₀ σ
  let m' := modeOf mw m₀ (aStep mw.w σ E)
  (kindsOf (mw.hmode E) m).all (fun k => kStep m k == some m') &&
  (m' == m || (List.range mw.w.n).all fun T =>
    !(isPoly (mw.hmode T) && aGet σ T) || (mw.w.tagger E).trashes.contains T)

/-- the pairs (activation state, committing tagger) that violate `commitOK` -/
def modeViolations (mw : ModeWiring) (m₀ : WMode) (R : List AState) : List (AState × TaggerIdx) :=
  R.flatMap fun σ => (((List.range mw.w.n).filter (canCommit mw.w σ)).filter fun E => !commitOK mw m₀ σ E).map fun E => (σ, E)

/-- **The decidable mode discipline of a wiring.**  With `S` the start-of-run tagger and `m₀` the mode its handler creates:
the handler modes are one per tagger and agree with the handler kinds; the activation state after the start is a state of mode
`m₀`; and every commit possible in a reachable activation state satisfies `commitOK`. -/
def ModeSound (mw : ModeWiring) : Bool :=
  match mw.w.start? with
  | none => false
  | some S =>
    match startModeOf (mw.hmode S) with
    | none => false
    | some m₀ =>
      mw.hm.length == mw.w.n
      && (List.range mw.w.n).all (fun T => kindAgrees (mw.w.tagger T).kind (mw.hmode T))
      && modeOf mw m₀ (startState mw.w S) == m₀
      && (modeViolations mw m₀ (reach mw.w S)).isEmpty

/-- the mode the start-of-run handler creates (`leaf` if the wiring has no readable start) -/
def ModeWiring.startMode (mw : ModeWiring) : WMode :=
  match mw.w.start? with
  | none => .leaf
  | some S => (startModeOf (mw.hmode S)).getD .leaf

/-- the mode of an activation state of this wiring -/
def ModeWiring.mode (mw : ModeWiring) (σ : AState) : WMode := modeOf mw mw.startMode σ

/-- the mode assignment as a table over the reachable activation states (compared with the table the harness computes with its
Python mirror of `modeOf`, `harness/modecorr.py: mode_table`: `py_mode_tables_agree` in `JF/Props/ModeDiscipline.lean`) -/
def modeTable (mw : ModeWiring) : List (AState × WMode) :=
  match mw.w.start? with
  | none => []
  | some S => (reach mw.w S).map fun σ => (σ, mw.mode σ)

def WMode.name : WMode → String
  | .leaf => "leaf" | .root => "root"

/-- human-readable diagnosis (mirrors `soundReport`): `mixed:<leaf-mode taggers>+<root-mode taggers>` — an activation state in which
handlers of both modes can commit; `commit:<mode>:<tagger>` — a commit that violates `commitOK` in a state of that mode -/
def modeReport (mw : ModeWiring) : String :=
  match mw.w.start? with
  | none => "fail no-unique-start-of-run-handler"
  | some S =>
    match startModeOf (mw.hmode S) with
    | none => "fail start-mode-unreadable"
    | some m₀ =>
      let R := reach mw.w S
      let tagOf := fun i => (mw.w.tagger i).tag
      let items :=
        (if mw.hm.length == mw.w.n then [] else ["hm-length"]) ++
        (((List.range mw.w.n).filter fun T => !kindAgrees (mw.w.tagger T).kind (mw.hmode T)).map fun T => s!"kind-vs-mode:{tagOf T}") ++
        (if modeOf mw m₀ (startState mw.w S) == m₀ then [] else ["start-state-not-in-start-mode"]) ++
        (R.flatMap fun σ =>
          let can := (List.range mw.w.n).filter (canCommit mw.w σ)
          let ls := can.filter fun T => definite (mw.hmode T) == some .leaf
          let rs := can.filter fun T => definite (mw.hmode T) == some .root
          if ls.isEmpty || rs.isEmpty then [] else
            ["mixed:" ++ ",".intercalate (ls.map tagOf) ++ "+" ++ ",".intercalate (rs.map tagOf)]).eraseDups ++
        (((modeViolations mw m₀ R).filter fun (σ, _) =>
            let can := (List.range mw.w.n).filter (canCommit mw.w σ)
            !((can.any fun T => definite (mw.hmode T) == some .leaf) && (can.any fun T => definite (mw.hmode T) == some .root))).map
          fun (σ, E) => s!"commit:{(modeOf mw m₀ σ).name}:{tagOf E}").eraseDups
      if items.isEmpty then s!"ok states={R.length} start={m₀.name}" else "fail " ++ " ".intercalate items

end JF.Act
