import JF.Num.Ops
/-
Model of the cuboid cell systems

* `jellyfysh/activator/internal_state/cell_occupancy/cells/cells.py`                (`Cell`)
* `jellyfysh/activator/internal_state/cell_occupancy/cells/cuboid_cells.py`         (`CuboidCells` with
  `_cell_identifier` — the clamped digit used by `position_to_cell` and the constructor's stepping loops, whose upper
  stepping is bounded by the system length —, `_next_float_up/down`)
* `jellyfysh/activator/internal_state/cell_occupancy/cells/cuboid_periodic_cells.py` (`CuboidPeriodicCells`)
* `HypercuboidPeriodicBoundaries.correct_position_entry` (`r = x % L; r if r != L else 0.0`, via `JF.pywrap`)

written after the source.  Integer identifiers are Python ints (`Int`); everything that touches a
position is generic in the scalar `α` (exact reading `ℚ`, binary64 reading `Float`).
The float-stepping functions of the source are a parameter (`Stepper`), because "the next float" has
no exact-reading counterpart; the binary64 instance `Stepper.float` copies the bit manipulation.
-/
namespace JF
namespace Cells

/-! ### `_next_float_up`, `_next_float_down` -/

structure Stepper (α : Type) where
  up : α → α
  down : α → α

/-- `_next_float_up` (`struct` bit manipulation on the signed 64-bit image) -/
def fNextUp (x : Float) : Float :=
  -- `if math.isnan(x) or (math.isinf(x) and x > 0): return x`
  if x.isNaN || (x.isInf && decide (x > 0.0)) then x
  else
    -- `if x == 0.0: x = 0.0`
    let x := if x == 0.0 then (0.0 : Float) else x
    let b := x.toBits
    -- `n >= 0` (signed) iff the sign bit is clear; `n += 1` else `n -= 1`
    if b < 0x8000000000000000 then Float.ofBits (b + 1) else Float.ofBits (b - 1)

/-- `_next_float_down` : `-_next_float_up(-x)` -/
def fNextDown (x : Float) : Float := -(fNextUp (-x))

def Stepper.float : Stepper Float := ⟨fNextUp, fNextDown⟩

/-! ### integer part: identifiers, mixed-radix index -/

/-- `sum(a[i] * b[i] for i in range(dimension))` -/
def dot : List Int → List Int → Int
  | a :: as, b :: bs => a * b + dot as bs
  | _, _ => 0

/-- `self._cumulative_product`: `[1]`, then `cp[d+1] = cp[d] * cells_per_side[d]` for `d < dim - 1`
(called with `acc = 1`; one entry per direction). -/
def cumProdFrom (acc : Int) : List Int → List Int
  | [] => []
  | n :: ns => acc :: cumProdFrom (acc * n) ns

/-- `number_of_cells = cumulative_product[-1] * cells_per_side[-1]` -/
def numberOfCells : List Int → Int
  | [] => 1
  | n :: ns => n * numberOfCells ns

/-- The identifier update at the end of the constructor's loop body:
```
d = 0
for d in range(dimension):
    if ident[d] + 1 < cells_per_side[d]: break
ident[d] += 1
for smaller_d in range(d): ident[smaller_d] = 0
```
(if no direction can be increased the loop variable ends at `dimension - 1`). -/
def incr : List Int → List Int → List Int
  | n :: ns, i :: is =>
    if i + 1 < n then (i + 1) :: is
    else match is with
      | [] => [i + 1]
      | _ :: _ => 0 :: incr ns is
  | _, _ => []

/-- `range(lo, lo + count)` -/
def intRange (lo : Int) (count : Nat) : List Int := (List.range count).map (fun (k : Nat) => lo + Int.ofNat k)

/-- `itertools.product(*ranges)` (first factor varies slowest) -/
def product : List (List Int) → List (List Int)
  | [] => [[]]
  | r :: rs => r.flatMap (fun x => (product rs).map (fun t => x :: t))

/-- the ranges `range(ident[d] - layers, ident[d] + layers + 1)` -/
def windows (ident : List Int) (layers : Int) : List (List Int) :=
  ident.map (fun i => intRange (i - layers) (2 * layers + 1).toNat)

/-- `0 <= ident[d] < cells_per_side[d]` for every direction -/
def validIdent : List Int → List Int → Bool
  | i :: is, n :: ns => decide (0 ≤ i) && decide (i < n) && validIdent is ns
  | _, _ => true

/-- `[ident[d] % cells_per_side[d] for d in range(dimension)]` (Python `%`; `n > 0` here) -/
def wrapIdent (ident perSide : List Int) : List Int := List.zipWith (fun i n => i % n) ident perSide

/-- identifiers produced by `CuboidCells._yield_nearby_cells` (non-periodic: invalid ones skipped)
resp. `CuboidPeriodicCells._yield_nearby_cells` (wrapped), in generation order -/
def nearbyIdents (periodic : Bool) (perSide : List Int) (layers : Int) (ident : List Int) : List (List Int) :=
  if periodic then (product (windows ident layers)).map (fun t => wrapIdent t perSide)
  else (product (windows ident layers)).filter (fun t => validIdent t perSide)

/-- identifier with entry `dir` replaced by `f` of it -/
def modifyDir : List Int → Nat → (Int → Int) → List Int
  | [], _, _ => []
  | v :: vs, 0, f => f v :: vs
  | v :: vs, d + 1, f => v :: modifyDir vs d f

/-- identifier selected by `neighbor_cell` (`none` = the method returns `None`) -/
def neighborIdent (periodic : Bool) (perSide : List Int) (ident : List Int) (dir : Nat) (positive : Bool) :
    Option (List Int) :=
  let i := ident.getD dir 0
  let n := perSide.getD dir 1
  if periodic then
    if positive then some (modifyDir ident dir (fun v => (v + 1) % n))
    else some (modifyDir ident dir (fun v => (v - 1) % n))
  else
    if positive then
      if i + 1 ≥ n then none else some (modifyDir ident dir (fun v => v + 1))
    else
      if i - 1 < 0 then none else some (modifyDir ident dir (fun v => v - 1))

/-! ### cells -/

structure Cell (α : Type) where
  ident : List Int
  cmin : List α
  cmax : List α

/-- Python list indexing `l[i]` with an `int` index: negative indices count from the end -/
def pyGet {β : Type} (l : Array β) (i : Int) : Except String β :=
  if 0 ≤ i then
    match l[i.toNat]? with
    | some x => .ok x
    | none => .error "IndexError"
  else if 0 ≤ i + (l.size : Int) then
    match l[(i + (l.size : Int)).toNat]? with
    | some x => .ok x
    | none => .error "IndexError"
  else .error "IndexError"

section scalar
variable {α : Type} [Add α] [Sub α] [Mul α] [Div α] [Neg α] [LT α] [DecidableLT α] [LE α] [DecidableLE α] [BEq α]

/-- `while cond(x): x = step(x)` (fuel-bounded; `none` = fuel exhausted) -/
def whileStep (cond : α → Bool) (step : α → α) : Nat → α → Option α
  | 0, _ => none
  | f + 1, x => if cond x then whileStep cond step f (step x) else some x

/-- `int(position / side)`: the raw quotient inside `CuboidCells._cell_identifier` -/
def digit (o : Ops α) (side p : α) : Int := o.toInt (p / side)

/-- `CuboidCells._cell_identifier(position_entry, index)`:
`min(int(position_entry / self._cell_side_lengths[index]), self._cells_per_side[index] - 1)`
(`n = cells_per_side[index]`; the quotient of a position just below the system length can round up to `n`) -/
def cellDigit (o : Ops α) (side : α) (n : Int) (p : α) : Int := min (digit o side p) (n - 1)

/-- the `lower_position` block of `CuboidCells.__init__` for one direction -/
def lowerPos (o : Ops α) (st : Stepper α) (fuel : Nat) (side : α) (n : Int) (i : Int) : Except String α :=
  let lower := o.ofInt i * side
  if o.ofInt 0 < lower then
    match whileStep (fun x => cellDigit o side n x == i) st.down fuel lower with
    | none => .error "fuel"
    | some l1 =>
      match whileStep (fun x => decide (cellDigit o side n x < i)) st.up fuel l1 with
      | none => .error "fuel"
      | some l2 => .ok l2
  else .ok lower

/-- the `upper_position` block of `CuboidCells.__init__` for one direction (`len = setting.system_lengths[index]`):
```
while upper_position < len and self._cell_identifier(upper_position, index) == i: upper_position = _next_float_up(upper_position)
while upper_position >= len or self._cell_identifier(upper_position, index) > i:  upper_position = _next_float_down(upper_position)
```
`_cell_identifier` divides by the loop-invariant `side`, so it raises `ZeroDivisionError` exactly when `side == 0`, at its
first evaluation: at once if `upper < len` (`and` evaluates it), otherwise when the second loop (whose `or` skips it while
`upper >= len`) has stepped below `len`. -/
def upperPos (o : Ops α) (st : Stepper α) (fuel : Nat) (side : α) (n : Int) (len : α) (i : Int) : Except String α :=
  let upper := o.ofInt (i + 1) * side
  if side == o.ofInt 0 then
    if upper < len then .error "ZeroDivisionError"
    else
      match whileStep (fun x => decide (len ≤ x)) st.down fuel upper with
      | none => .error "fuel"
      | some _ => .error "ZeroDivisionError"
  else
    match whileStep (fun x => decide (x < len) && (cellDigit o side n x == i)) st.up fuel upper with
    | none => .error "fuel"
    | some u1 =>
      match whileStep (fun x => decide (len ≤ x) || decide (cellDigit o side n x > i)) st.down fuel u1 with
      | none => .error "fuel"
      | some u2 => .ok u2

/-- the `for index in range(dimension)` loop computing `cell_min`, `cell_max`
(`side`, `perSide`, `lengths`, `ident` run over the directions together) -/
def extents (o : Ops α) (st : Stepper α) (fuel : Nat) :
    List α → List Int → List α → List Int → Except String (List α × List α)
  | s :: ss, n :: ns, len :: lens, i :: is =>
    match lowerPos o st fuel s n i with
    | .error e => .error e
    | .ok lo =>
      match upperPos o st fuel s n len i with
      | .error e => .error e
      | .ok hi =>
        match extents o st fuel ss ns lens is with
        | .error e => .error e
        | .ok (los, his) => .ok (lo :: los, hi :: his)
  | _, _, _, _ => .ok ([], [])

/-- `Cell.__init__`: `ConfigurationError` if `cell_min[d] >= cell_max[d]` for some direction -/
def mkCell (ident : List Int) (lo hi : List α) : Except String (Cell α) :=
  if (List.zipWith (fun a b => decide (b ≤ a)) lo hi).any id then .error "ConfigurationError"
  else .ok ⟨ident, lo, hi⟩

/-- the loop `for summed_cell_identifier in range(number_of_cells)`; `k` cells remain, `summed` is
the loop variable, `ident` is `cell_identifier_list` -/
def buildCells (o : Ops α) (st : Stepper α) (fuel : Nat) (perSide : List Int) (side lengths : List α)
    (cp : List Int) : Nat → Int → List Int → Except String (List (Cell α))
  | 0, _, _ => .ok []
  | k + 1, summed, ident =>
    -- `assert summed_cell_identifier == sum(ident[d] * cumulative_product[d])`
    if summed != dot ident cp then .error "AssertionError"
    else match extents o st fuel side perSide lengths ident with
      | .error e => .error e
      | .ok (lo, hi) =>
        match mkCell ident lo hi with
        | .error e => .error e
        | .ok c =>
          match buildCells o st fuel perSide side lengths cp k (summed + 1) (incr perSide ident) with
          | .error e => .error e
          | .ok rest => .ok (c :: rest)

structure System (α : Type) where
  periodic : Bool
  lengths : List α
  perSide : List Int
  layers : Int
  side : List α
  cumProd : List Int
  cells : Array (Cell α)

/-- `[cells_per_side[i] if i < len(cells_per_side) else cells_per_side[0] for i in range(dimension)]` -/
def expandPerSide (dim : Nat) (cellsPerSide : List Int) : List Int :=
  (List.range dim).map (fun i => if i < cellsPerSide.length then cellsPerSide.getD i 0 else cellsPerSide.getD 0 0)

/-- `CuboidCells.__init__` / `CuboidPeriodicCells.__init__` (`lengths = setting.system_lengths`,
`dimension = lengths.length`).  Cell counts `≤ 0` are outside the modelled domain. -/
def create (o : Ops α) (st : Stepper α) (fuel : Nat) (periodic : Bool) (lengths : List α)
    (cellsPerSide : List Int) (layers : Int) : Except String (System α) :=
  let dim := lengths.length
  -- `if not 0 < len(cells_per_side) <= setting.dimension`
  if !(0 < cellsPerSide.length && cellsPerSide.length ≤ dim) then .error "ConfigurationError"
  -- `if not neighbor_layers >= 0`
  else if !(layers ≥ 0) then .error "ConfigurationError"
  else
    let perSide := expandPerSide dim cellsPerSide
    if perSide.any (fun n => n ≤ 0) then .error "unmodelled:cells_per_side<=0"
    else
      let side := List.zipWith (fun l n => l / o.ofInt n) lengths perSide
      let cp := cumProdFrom 1 perSide
      match buildCells o st fuel perSide side lengths cp (numberOfCells perSide).toNat 0 (List.replicate dim 0) with
      | .error e => .error e
      | .ok cells => .ok ⟨periodic, lengths, perSide, layers, side, cp, cells.toArray⟩

/-- `Except` version of `[f(x) for x in l]` (first error wins) -/
def mapE {β γ : Type} (f : β → Except String γ) : List β → Except String (List γ)
  | [] => .ok []
  | x :: xs =>
    match f x with
    | .error e => .error e
    | .ok y =>
      match mapE f xs with
      | .error e => .error e
      | .ok ys => .ok (y :: ys)

variable (o : Ops α) (s : System α)

/-- `self._cells[sum(ident[d] * cumulative_product[d])]` -/
def cellOfIdent (ident : List Int) : Except String (Cell α) := pyGet s.cells (dot ident s.cumProd)

/-- `_yield_nearby_cells(cell)` as a list in generation order (`nearby_cells(cell)` is its set) -/
def nearby (c : Cell α) : Except String (List (Cell α)) :=
  mapE (cellOfIdent s) (nearbyIdents s.periodic s.perSide s.layers c.ident)

/-- `neighbor_cell(cell, direction, positive)` -/
def neighbor (c : Cell α) (dir : Int) (positive : Bool) : Except String (Option (Cell α)) :=
  -- `assert 0 <= direction < setting.dimension`
  if !(0 ≤ dir && dir < (s.lengths.length : Int)) then .error "AssertionError"
  else match neighborIdent s.periodic s.perSide c.ident dir.toNat positive with
    | none => .ok none
    | some t =>
      match cellOfIdent s t with
      | .error e => .error e
      | .ok c' => .ok (some c')

/-- `[self._cell_identifier(position[d], d) for d in range(dimension)]` -/
def cellDigits : List α → List Int → List α → List Int
  | sd :: sds, n :: ns, p :: ps => cellDigit o sd n p :: cellDigits sds ns ps
  | _, _, _ => []

/-- `CuboidCells.position_to_cell` -/
def positionToCell (pos : List α) : Except String (Cell α) :=
  -- `assert all(0.0 <= position[d] <= setting.system_lengths[d] ...)`
  if !((List.zipWith (fun p l => decide (o.ofInt 0 ≤ p) && decide (p ≤ l)) pos s.lengths).all id) then
    .error "AssertionError"
  else cellOfIdent s (cellDigits o s.side s.perSide pos)

/-- `zip` of three lists with a function -/
def zipWith3' {β γ δ ε : Type} (f : β → γ → δ → ε) : List β → List γ → List δ → List ε
  | a :: as, b :: bs, c :: cs => f a b c :: zipWith3' f as bs cs
  | _, _, _ => []

/-- one entry of the position handed to `position_to_cell` by `relative_cell` (`sign = false`) /
`translate` (`sign = true`): `correct_position_entry((max + min) / 2.0 ∓ other_min, d)` -/
def midEntry (sign : Bool) (cmax cmin other len : α) : α :=
  let mid := (cmax + cmin) / o.ofInt 2
  pywrap o (if sign then mid + other else mid - other) len

def midPosition (sign : Bool) (c other : Cell α) : List α :=
  zipWith3' (fun (mm : α × α) om l => midEntry o sign mm.1 mm.2 om l) (List.zip c.cmax c.cmin) other.cmin s.lengths

/-- `CuboidPeriodicCells.relative_cell(cell, reference_cell)` -/
def relativeCell (c ref : Cell α) : Except String (Cell α) :=
  positionToCell o s (midPosition o s false c ref)

/-- `CuboidPeriodicCells.translate(cell, relative_cell)` -/
def translate (c rel : Cell α) : Except String (Cell α) :=
  positionToCell o s (midPosition o s true c rel)

/-- `CuboidPeriodicCells.zero_cell` -/
def zeroCell : Except String (Cell α) := pyGet s.cells 0

end scalar
end Cells
end JF
