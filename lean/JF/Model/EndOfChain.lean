import JF.Num.Ops
import JF.Model.Time
/-
Model of the end-of-chain event handlers' own computations
(`event_handler/single_independent_active_periodic_direction_end_of_chain_event_handler.py`,
 `…_sequential_direction_end_of_chain_event_handler.py`, `abstracts/end_of_chain_event_handler.py: send_event_time`):
the new velocity, the new chain time and the candidate event time. (What the out-state does to positions, velocities and
time stamps of the global state is `Kin.step (.endOfChain …)` / `Composite.step`.)
-/
namespace JF.EndOfChain
variable {α : Type} [Add α] [Sub α] [Mul α] [Div α] [Neg α] [LT α] [DecidableLT α] [BEq α]

inductive Err where
  | assertion   -- `assert len(direction_of_motions) == 1`, `assert len(old_velocity) == 2`, the chain-time assert
deriving DecidableEq, Repr

/-- indices of the non-zero components: `[index for index, component in enumerate(old_velocity) if component != 0.0]` -/
def nonZeroIdx (o : Ops α) : List α → Nat → List Nat
  | [], _ => []
  | c :: cs, i => if c != o.ofInt 0 then i :: nonZeroIdx o cs (i + 1) else nonZeroIdx o cs (i + 1)

/-- a vector of `dim` zeros with `x` at position `k` -/
def unitAt (o : Ops α) (dim k : Nat) (x : α) : List α :=
  (List.range dim).map (fun i => if i == k then x else o.ofInt 0)

/-- periodic direction: `new_velocity[(d + 1) % dimension] = old_velocity[d]` for the single direction of motion `d` -/
def newVelocityPeriodic (o : Ops α) (dim : Nat) (v : List α) : Except Err (List α) :=
  match nonZeroIdx o v 0 with
  | [d] => .ok (unitAt o dim ((d + 1) % dim) (v.getD d (o.ofInt 0)))
  | _ => .error .assertion

/-- sequential direction (two dimensions): rotation by the precomputed `cos`, `sin` of the configured angle -/
def newVelocitySequential (c s : α) (v : List α) : Except Err (List α) :=
  match v with
  | [v0, v1] => .ok [v0 * c - v1 * s, v0 * s + v1 * c]
  | _ => .error .assertion

/-- `_get_new_chain_time`: `(last_committed_event_time - current_time_stamp) + chain_time`, guarded by
`assert 0.0 <= (current_time_stamp - last) <= chain_time` -/
def newChainTime (o : Ops α) (last cur : Time α) (chain : α) : Except Err α :=
  let d := Time.sub cur last
  if (d < o.ofInt 0) || (chain < d) then .error .assertion
  else .ok (Time.sub last cur + chain)

/-- `send_event_time`: `current_time_stamp + new_chain_time` -/
def eventTime (o : Ops α) (last cur : Time α) (chain : α) : Except Err (Time α) :=
  match newChainTime o last cur chain with
  | .ok d => .ok (Time.add o cur d)
  | .error e => .error e

end JF.EndOfChain
