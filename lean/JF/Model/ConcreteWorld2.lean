import JF.Model.Composite
import JF.Model.FactorMaps
import JF.Model.ModeWiring
/-
A second *concrete world* for the activator link of C09/C08 (`JF.Act.World`, `JF.Act.FootprintsSound`): two-level trees
(COMPOSITE OBJECTS: root units with point masses as leaves) WITHOUT a cell system — the dipole configurations
`config_files/2018_JCP_149_064113/dipoles/{atom_factors, dipole_factors_*, dipole_motion}.ini` and `water/single_molecule.ini`.
(Composite objects WITH a cell-occupancy system — `dipoles/cell_*.ini`, the other water files — are out of scope of this world.)

It connects the models that existed side by side:

* the global state of composite objects and what a committed event does to it: `JF/Model/Composite.lean` (`Composite.step`,
  events `keep snap exchange pass eocLeaf eocRoot toLeaf toRoot start`);
* which event kinds a handler class commits: `JF/Model/ModeWiring.lean` (`HMode`, `kindsOf`; `JF/Gen/ModeWirings.lean`);
* the factor files: `JF/Model/FactorMaps.lean` (`instantiate`, `taggerYield`, the table `shipped`);
* what the taggers under `jellyfysh/activator/tagger/` yield, this file:
  - `TreeLiftingState.yield_independent_lifted_identifiers` (`state_handler/lifting_state/tree_lifting_state.py`) -> `independent`,
  - `TreeStateHandler.extract_active_global_state` / `extract_from_global_state` (`state_handler/tree_state_handler.py`) -> `branches`,
  - `NoInStateTagger` (`yield None`), `ActiveGlobalStateInStateTagger.yield_identifiers_send_event_time` (the variant WITH composite
    objects: one tuple of the independent active identifiers), `ActiveRootUnitInStateTagger` (`(root identifier,)` per active
    branch), `FactorTypeMapInStateTagger` (`set(factor for root_cnode in … for leaf_cnode in yield_leaf_nodes(root_cnode) for factor
    in self._factor_type_map.yield_factor_identifier(leaf identifier))`) -> `yieldF`.

Everything the taggers read of the global state is WHICH units carry a velocity (`flags`: the two sets `_lifted_identifiers[1]`,
`_lifted_identifiers[2]` of the lifting state) and how many units there are; positions, velocity values and time stamps do not
enter.  Scalar type generic; core Lean only.
-/
namespace JF.CW2
open JF JF.Act

/-- what does not change during a run -/
structure Env (α : Type) where
  /-- system lengths -/
  L : List α
  /-- `setting.dimension` -/
  d : Nat
  /-- `setting.number_of_nodes_per_root_node` -/
  nPer : Nat
  /-- `FactorTypeMaps._factors` after `_instantiate_factor_type_maps` on the factor file of the configuration -/
  fs : FactorMaps.Factors
  /-- per tagger: `to_camel_case(factor_type_maps_label or tag)`, the key of `FactorTypeMaps.__getitem__` -/
  ftype : TaggerIdx → String

/-! ### what the taggers see of the global state -/

/-- per composite object: does the root unit carry a velocity (`(i,) ∈ _lifted_identifiers[1]`), and per leaf
(`(i, j) ∈ _lifted_identifiers[2]`) -/
abbrev Flags := List (Bool × List Bool)

section
variable {α : Type}

def flagOf (c : CObj α) : Bool × List Bool := (Kin.isMoving c.root, c.leaves.map Kin.isMoving)

def flags (cs : List (CObj α)) : Flags := cs.map flagOf

/-- velocities of all units (the `.motion` aspect; `flags` is its shadow) -/
def velsOf (c : CObj α) : Option (List α) × List (Option (List α)) := (c.root.vel, c.leaves.map (·.vel))

def vels (cs : List (CObj α)) : List (Option (List α) × List (Option (List α))) := cs.map velsOf

end

/-- `for leaf_unit_identifier in range(setting.number_of_nodes_per_root_node): if identifier in self._lifted_identifiers[2]` -/
def liftedLeaves (nPer : Nat) (f : Bool × List Bool) : List Nat :=
  (List.range nPer).filter fun j => (f.2[j]?).getD false

/-- body of the loop of `yield_independent_lifted_identifiers` for the lifted root `(i,)`:
`if len(lifted_identifiers) == setting.number_of_nodes_per_root_node: yield root else: yield from lifted_identifiers` -/
def independentOf (nPer i : Nat) (f : Bool × List Bool) : List (List Nat) :=
  if f.1 then
    let ls := liftedLeaves nPer f
    if ls.length == nPer then [[i]] else ls.map fun j => [i, j]
  else []

/-- `TreeLiftingState.yield_independent_lifted_identifiers` (the set `_lifted_identifiers[1]` read in index order; outputs
derived from it are compared as multisets) -/
def independent (nPer : Nat) (fl : Flags) : List (List Nat) :=
  (List.range fl.length).flatMap fun i =>
    match fl[i]? with
    | none => []
    | some f => independentOf nPer i f

/-- a branch of the extracted active global state: identifier of the root cnode and the last identifier entries of its children -/
structure Branch where
  root : Nat
  children : List Nat
deriving Repr, DecidableEq

/-- `TreeStateHandler.extract_from_global_state(identifier)`: for `(i,)` the root with ALL its children, for `(i, j)` the root
with the one child `j` -/
def branchOf (fl : Flags) : List Nat → Branch
  | [i] => ⟨i, List.range (((fl[i]?).map fun f => f.2.length).getD 0)⟩
  | [i, j] => ⟨i, [j]⟩
  | _ => ⟨0, []⟩

/-- `TreeStateHandler.extract_active_global_state()` -/
def branches (nPer : Nat) (fl : Flags) : List Branch := (independent nPer fl).map (branchOf fl)

/-- identifiers of `yield_leaf_nodes(root_cnode)` (`base/node.py`: the node itself if it has no children) -/
def leafIds (b : Branch) : List (List Nat) :=
  if b.children.isEmpty then [[b.root]] else b.children.map fun j => [b.root, j]

/-- `tagger.yield_identifiers_send_event_time(extracted_active_global_state)` of an ACTIVATED tagger of the given class, tagger
index `T` (its factor type is `env.ftype T`); a factor map that raises yields nothing here (the harness reports a real tagger
that raises) -/
def yieldF (α : Type) (env : Env α) (T : TaggerIdx) (cls : TaggerClass) (fl : Flags) : List IdTuple :=
  let bs := branches env.nPer fl
  match cls with
  | .noInState => [none]
  | .activeGlobalState =>
    -- `if len(root_cnode.children) == setting.number_of_nodes_per_root_node: root identifier else: children identifiers`
    [some (bs.flatMap fun b => if b.children.length == env.nPer then [[b.root]] else b.children.map fun j => [b.root, j])]
  | .activeRootUnit => bs.map fun b => some [[b.root]]
  | .factorTypeMap =>
    match FactorMaps.taggerYield ⟨fl.length, env.nPer⟩ env.fs (env.ftype T) (bs.flatMap leafIds) with
    | .ok l => l.map some
    | .error _ => []
  | _ => []     -- cell taggers / unknown classes are not part of this world (excluded by `Supported2`)

def yieldCls {α : Type} (env : Env α) (T : TaggerIdx) (cls : TaggerClass) (cs : List (CObj α)) : List IdTuple :=
  yieldF α env T cls (flags cs)

/-- C09's comparison: identifier tuples for interaction-type taggers, the number of pending events for the others -/
def viewOf (t : TaggerW) (x : IdTuple) : IdTuple := if idsView t then x else none

/-! ### event kinds -/

/-- the constructor of a composite event -/
def evKind {α : Type} : Composite.Ev α → EvKind
  | .keep _ _ => .keep
  | .snap _ _ _ _ _ _ => .snap
  | .exchange _ _ _ _ _ _ => .exchange
  | .pass _ _ _ _ => .pass
  | .eocLeaf _ _ _ _ _ _ => .eocLeaf
  | .eocRoot _ _ _ _ => .eocRoot
  | .toLeaf _ _ _ => .toLeaf
  | .toRoot _ _ => .toRoot
  | .start _ _ _ => .start

/-- the kinds that only time-slice (and snap a coordinate onto the value it has reached): according to `affects` they change neither
`.ident` nor `.motion` -/
def quietKind : EvKind → Bool
  | .keep | .snap => true
  | _ => false

/-! ### which wirings live in this world -/

def clsOK : TaggerClass → Bool
  | .noInState | .activeGlobalState | .activeRootUnit | .factorTypeMap => true
  | _ => false

def hmOK : HMode → Bool
  | .unknown | .cellBoundary => false
  | _ => true

/-- the decidable side condition of `footprintsSound_concrete2`: no internal state (no cell system), only the tagger classes of
this world, every handler class is one the translator could classify (`HMode`), and the two readings of the handler class
(`TaggerW.kind`, which the footprint tables use, and `HMode`, which the transition relation uses) agree.
It is a condition on the WIRING only: that the configuration is a two-level system (`setting.number_of_node_levels == 2`) is the
modelling assumption of the world (`harness/fpcorr2.py` judges only traces with two node levels and no internal state). -/
def Supported2 (mw : ModeWiring) : Bool :=
  mw.w.labels.isEmpty && mw.hm.length == mw.w.n
  && mw.w.taggers.all (fun t => clsOK t.cls && t.label.isNone)
  && (List.range mw.w.n).all fun T => hmOK (mw.hmode T) && kindAgrees (mw.w.tagger T).kind (mw.hmode T)

end JF.CW2
