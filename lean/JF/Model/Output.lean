import JF.Num.Ops
import JF.Model.Periodic
import JF.Model.Lifting
/-!
Executable model of the four observable OUTPUT HANDLERS of
`/repo/jellyfysh/input_output_handler/output_handler/` (properties C01 "observables written by a run", C17 "what is
written"):

* `separation_output_handler.py`               : `SeparationOutputHandler.__init__ / write / post_run`
* `bond_length_and_angle_output_handler.py`    : `BondLengthAndAngleOutputHandler.…`
* `oxygen_oxygen_separation_output_handler.py` : `OxygenOxygenSeparationOutputHandler.…`
* `polarization_output_handler.py`             : `PolarizationOutputHandler.…`
* `output_handler.py`                          : `OutputHandler.write` (the sample counter and its message every 100 calls),
                                                 `HardBufferedTextWriter` (header line, append, `close`)
* `base/vectors.py`                            : `norm`, `norm_sq`, `dot`, `angle_between_two_vectors`
* `base/node.py`                               : `yield_leaf_nodes` (one or two levels), `yield_closest_leaf_unit_positions`

Written branch for branch after the source and generic in the scalar.  `setting.periodic_boundaries.separation_vector` is the
model of `JF/Model/Periodic.lean` (both box classes), builtin `sum` over floats is `JF.Lifting.pySum` (CPython >= 3.12: Neumaier
compensated summation, `JF/Model/Lifting.lean`), `x ** 0.5` is libm `pow(x, 0.5)` (NOT `sqrt`: CPython's `float_pow` calls `pow`)
and `math.acos` is libm `acos` with CPython's `ValueError` for arguments outside `[-1, 1]`; the last two are fields of the record
`OOps` so that the same definitions are read

* in binary64 (`OOps.float`, what `jf_output` runs, compared bit for bit with the files the real handlers write), and
* exactly over `ℚ` (`Ops.rat`): every function that needs a root or an arc cosine is `f ∘ (squared / cosine variant)`, the variants
  (`separationsSq`, `bondSq`, `oxygenOxygenSq`, `bondCosines`) take only an `Ops` and are what the theorems of `JF/Props/Output.lean`
  talk about; `separations_eq`-style lemmas there state the factorisation for every scalar type.

Exceptions of the real code are explicit outcomes.  A `write` that raises in the middle has already printed some lines: every
observable function returns `(lines printed so far, some error | none)`.
A printed line is `(file index, values)`: the handlers own a list of files (`_files`, or `[_file_bond_lengths, _file_bond_angles]`,
or `[_file]`); the separation handler's file index is the *identifier distance* of the two leaves.
No Mathlib import: this file is linked into the driver.
-/
namespace JF.Output
open JF JF.Periodic

/-- the two libm functions the handlers reach through `base/vectors.py`, on top of the scalar record `Ops` -/
structure OOps (α : Type) where
  ops : Ops α
  /-- `x ** 0.5` (CPython `float_pow` → libm `pow(x, 0.5)`) for `x ≥ 0` or nan -/
  powHalf : α → α
  /-- `math.acos(x)`: `ValueError` ("math domain error") for a non-nan argument outside `[-1, 1]` -/
  acos : α → Except String α

/-- binary64 reading -/
def OOps.float : OOps Float where
  ops := Ops.float
  powHalf x := Float.pow x 0.5
  acos x := if x < -1.0 || x > 1.0 then .error "err:ValueError" else .ok (Float.acos x)

/-! ### the setting -/

/-- `setting.periodic_boundaries` after `HypercubicSetting(…)` / `HypercuboidSetting(…)` -/
inductive Box (α : Type) where
  | cubic (c : Cubic α)
  | cuboid (c : Cuboid α)

/-- the attributes of `jellyfysh.setting` the handlers read -/
structure Setting (α : Type) where
  box : Box α
  /-- `setting.number_of_node_levels` -/
  levels : Nat
  /-- `setting.number_of_nodes_per_root_node` -/
  perRoot : Nat

def Box.dim {α : Type} : Box α → Nat
  | .cubic c => c.dim
  | .cuboid c => c.dim

/-! ### the extracted global state (`Sequence[Node]`, one or two levels) -/

/-- what the handlers read of a leaf node's `Unit`: `identifier[-1]`, `position`, `charge[self._charge]`
(`none`: the unit's `charge` is `None`) -/
structure Leaf (α : Type) where
  ident : Int
  pos : List α
  charge : Option α

/-- a root node: its own unit and its children (empty in a one-level state) -/
structure Root (α : Type) where
  ident : Int
  pos : List α
  charge : Option α
  children : List (Leaf α)

/-- the root node seen as a leaf (`yield_leaf_nodes` of a node without children yields the node itself) -/
def Root.self {α : Type} (r : Root α) : Leaf α := ⟨r.ident, r.pos, r.charge⟩

/-- `yield_leaf_nodes(root_cnode)` for one or two levels: `if not node.children: yield node` else the children in order -/
def Root.leaves {α : Type} (r : Root α) : List (Leaf α) :=
  if r.children.isEmpty then [r.self] else r.children

/-! ### loops -/

/-- a printed line: file index and the values on the line -/
abbrev Line (α : Type) := Nat × List α

/-- what a (possibly interrupted) loop has printed, and the exception that interrupted it -/
abbrev Out (α : Type) := List (Line α) × Option String

/-- run the loop body `f` over the items in order; the first exception ends the loop, what was printed before stays printed -/
def collect {α γ : Type} (f : γ → Out α) : List γ → Out α
  | [] => ([], none)
  | x :: xs =>
    match f x with
    | (ls, some e) => (ls, some e)
    | (ls, none) => let r := collect f xs; (ls ++ r.1, r.2)

/-- the pair loop of `SeparationOutputHandler.write` over the leaf lists of the root nodes:
```
for i, first in enumerate(state):
    for j in range(i + 1, len(state)):
        for a in yield_leaf_nodes(first):
            for b in yield_leaf_nodes(state[j]):
```
-/
def crossPairs {β : Type} : List (List β) → List (β × β)
  | [] => []
  | g :: gs => (gs.flatMap fun h => g.flatMap fun a => h.map fun b => (a, b)) ++ crossPairs gs

section
variable {α : Type} [Add α] [Sub α] [Mul α] [Div α] [Neg α] [LT α] [DecidableLT α] [LE α] [DecidableLE α] [BEq α]

/-- `setting.periodic_boundaries.separation_vector(reference, target)` (`none`: `IndexError`) -/
def Box.sepVec (o : Ops α) : Box α → List α → List α → Option (List α)
  | .cubic c, ref, tgt => c.separationVector o ref tgt
  | .cuboid c, ref, tgt => c.separationVector o ref tgt

/-! ### `base/vectors.py` -/

/-- `vectors.norm_sq`: `sum(component * component for component in vector)` -/
def normSq (o : Ops α) (v : List α) : α := Lifting.pySum o (v.map fun c => c * c)

/-- `vectors.norm`: `sum(component * component for component in vector) ** 0.5` -/
def norm (oo : OOps α) (v : List α) : α := oo.powHalf (normSq oo.ops v)

/-- `vectors.dot`: `assert len(vector_one) == len(vector_two)`; `sum(x * y for x, y in zip(vector_one, vector_two))` -/
def dot (o : Ops α) (v w : List α) : Except String α :=
  if v.length ≠ w.length then .error "err:AssertionError" else .ok (Lifting.pySum o (List.zipWith (· * ·) v w))

/-- Python float `/`: `ZeroDivisionError` for a zero divisor -/
def pyDiv (o : Ops α) (x y : α) : Except String α :=
  if y == o.ofInt 0 then .error "err:ZeroDivisionError" else .ok (x / y)

/-- the argument of `math.acos` in `vectors.angle_between_two_vectors`:
`dot(vector_one, vector_two) / norm(vector_one) / norm(vector_two)` (left to right) -/
def cosArg (oo : OOps α) (v w : List α) : Except String α := do
  let d ← dot oo.ops v w
  let q ← pyDiv oo.ops d (norm oo v)
  pyDiv oo.ops q (norm oo w)

/-- `vectors.angle_between_two_vectors` -/
def angle (oo : OOps α) (v w : List α) : Except String α := do
  let c ← cosArg oo v w
  oo.acos c

/-! ### `SeparationOutputHandler.write` -/

/-- `identifier_distance = abs(first[-1] - second[-1]) if setting.number_of_node_levels > 1 else 0` -/
def identDistance (levels : Nat) (a b : Int) : Nat := if levels > 1 then (a - b).natAbs else 0

/-- body of the innermost loop, with `root : α → α` applied to the squared norm:
`print(vectors.norm(separation_vector(first.position, second.position)), file=self._files[identifier_distance])`
(`IndexError` from `separation_vector` for a short position, or from `self._files[…]`, which has
`number_of_nodes_per_root_node` entries) -/
def sepEntryWith (o : Ops α) (root : α → α) (st : Setting α) (p : Leaf α × Leaf α) : Out α :=
  let k := identDistance st.levels p.1.ident p.2.ident
  match st.box.sepVec o p.1.pos p.2.pos with
  | none => ([], some "err:IndexError")
  | some v =>
    let x := root (normSq o v)
    if k < st.perRoot then ([(k, [x])], none) else ([], some "err:IndexError")

def separationsWith (o : Ops α) (root : α → α) (st : Setting α) (state : List (Root α)) : Out α :=
  collect (sepEntryWith o root st) (crossPairs (state.map Root.leaves))

/-- the lines `SeparationOutputHandler.write(state)` prints, in order: (file index = identifier distance, [|separation|]) -/
def separations (oo : OOps α) (st : Setting α) (state : List (Root α)) : Out α :=
  separationsWith oo.ops oo.powHalf st state

/-- the same with the SQUARED separation in place of its root (exact reading) -/
def separationsSq (o : Ops α) (st : Setting α) (state : List (Root α)) : Out α :=
  separationsWith o id st state

/-! ### `BondLengthAndAngleOutputHandler.write` (file 0: `_Length`, file 1: `_Angle`) -/

/-- loop body for one root node: `assert len(children) == 3`; hydrogen, OXYGEN, hydrogen;
`vector_oh_one = separation_vector(oxygen, hydrogen_one)`, `vector_oh_two = separation_vector(oxygen, hydrogen_two)`;
two lengths are printed, then the angle (whose exceptions come after the two prints) -/
def bondEntryWith (o : Ops α) (root : α → α) (ang : List α → List α → Except String α) (st : Setting α) (r : Root α) : Out α :=
  match r.children with
  | [h1, ox, h2] =>
    match st.box.sepVec o ox.pos h1.pos with
    | none => ([], some "err:IndexError")
    | some v1 =>
      match st.box.sepVec o ox.pos h2.pos with
      | none => ([], some "err:IndexError")
      | some v2 =>
        let ls : List (Line α) := [(0, [root (normSq o v1)]), (0, [root (normSq o v2)])]
        match ang v1 v2 with
        | .error e => (ls, some e)
        | .ok a => (ls ++ [(1, [a])], none)
  | _ => ([], some "err:AssertionError")

/-- the lines `BondLengthAndAngleOutputHandler.write(state)` prints -/
def bondLengthsAngles (oo : OOps α) (st : Setting α) (state : List (Root α)) : Out α :=
  collect (bondEntryWith oo.ops oo.powHalf (angle oo) st) state

/-- the same with the COSINE (the argument of `math.acos`) in the angle file -/
def bondCosines (oo : OOps α) (st : Setting α) (state : List (Root α)) : Out α :=
  collect (bondEntryWith oo.ops oo.powHalf (cosArg oo) st) state

/-- exact reading: the two squared lengths in file 0 and the dot product of the two bond vectors in file 1
(the cosine is `dot / √len1² / √len2²`) -/
def bondSq (o : Ops α) (st : Setting α) (state : List (Root α)) : Out α :=
  collect (bondEntryWith o id (dot o) st) state

/-! ### `OxygenOxygenSeparationOutputHandler.write` -/

/-- loop body: `print(vectors.norm(separation_vector(first_oxygen_position, oxygen_positions[second_index])), file=self._file)` -/
def ooEntryWith (o : Ops α) (root : α → α) (st : Setting α) (p : Leaf α × Leaf α) : Out α :=
  match st.box.sepVec o p.1.pos p.2.pos with
  | none => ([], some "err:IndexError")
  | some v => ([(0, [root (normSq o v)])], none)

def oxygenOxygenWith (o : Ops α) (root : α → α) (st : Setting α) (state : List (Root α)) : Out α :=
  -- `assert all(len(root_cnode.children) == 3 for root_cnode in extracted_global_state)`
  if !(state.all fun r => r.children.length == 3) then ([], some "err:AssertionError")
  else
    -- `oxygen_positions = [root_cnode.children[1].value.position …]`; pairs `first_index < second_index`
    let oxy := state.filterMap fun r => r.children[1]?
    collect (ooEntryWith o root st) (crossPairs (oxy.map fun x => [x]))

/-- the lines `OxygenOxygenSeparationOutputHandler.write(state)` prints -/
def oxygenOxygen (oo : OOps α) (st : Setting α) (state : List (Root α)) : Out α :=
  oxygenOxygenWith oo.ops oo.powHalf st state

def oxygenOxygenSq (o : Ops α) (st : Setting α) (state : List (Root α)) : Out α :=
  oxygenOxygenWith o id st state

/-! ### `PolarizationOutputHandler.write` -/

/-- `yield_closest_leaf_unit_positions`, one item: `[entry + shortest_separation[index] for index, entry in enumerate(root_position)]`
with `shortest_separation = separation_vector(root_position, leaf_position)` (`IndexError` if the root position has more entries
than the separation vector) -/
def closestPosition (o : Ops α) (st : Setting α) (rootPos leafPos : List α) : Option (List α) :=
  match st.box.sepVec o rootPos leafPos with
  | none => none
  | some s => if rootPos.length ≤ s.length then some (List.zipWith (· + ·) rootPos s) else none

/-- `for index, entry in enumerate(position): polarization[index] += charge * entry` (`IndexError` for a longer position) -/
def accumulate (pol : List α) (q : α) (pos : List α) : Option (List α) :=
  if pos.length ≤ pol.length then
    some (pol.mapIdx fun i p => match pos[i]? with | some e => p + q * e | none => p)
  else none

/-- the `(leaf_unit, position)` items of `yield_closest_leaf_unit_positions(root_cnode)` folded into `polarization` -/
def polRoot (o : Ops α) (st : Setting α) (r : Root α) (pol : List α) : Except String (List α) :=
  -- `assert sum(child.value.charge[self._charge] for child in root_cnode.children) == 0.0`
  match r.children.mapM (·.charge) with
  | none => .error "err:TypeError"
  | some qs =>
    if !(Lifting.pySum o qs == o.ofInt 0) then .error "err:AssertionError"
    else if r.children.isEmpty then
      -- `yield root_cnode.value, root_cnode.value.position`
      match r.charge with
      | none => .error "err:TypeError"
      | some q => match accumulate pol q r.pos with
        | none => .error "err:IndexError"
        | some p => .ok p
    else
      r.children.foldlM (fun (pol : List α) (l : Leaf α) =>
        match l.charge with
        | none => .error "err:TypeError"     -- unreachable after the `mapM` above; kept for the shape of the loop
        | some q =>
          match closestPosition o st r.pos l.pos with
          | none => .error "err:IndexError"
          | some p => match accumulate pol q p with
            | none => .error "err:IndexError"
            | some p' => .ok p') pol

/-- the vector `PolarizationOutputHandler.write(state)` prints on ONE line (nothing is printed if an exception is raised):
`polarization = [0.0 for _ in range(setting.dimension)]`, then root after root -/
def polarization (o : Ops α) (st : Setting α) (state : List (Root α)) : Except String (List α) :=
  state.foldlM (fun pol r => polRoot o st r pol) (List.replicate st.box.dim (o.ofInt 0))

def polarizationOut (o : Ops α) (st : Setting α) (state : List (Root α)) : Out α :=
  match polarization o st state with
  | .error e => ([], some e)
  | .ok p => ([(0, p)], none)

end

/-! ### the handler objects: files, counter, `write`, `post_run` -/

inductive Kind where
  | separation | bond | oxygen | polarization
deriving DecidableEq, Repr

/-- a line of a file written through `HardBufferedTextWriter` -/
inductive FLine (α : Type) where
  /-- `# Run identification hash: <uuid>` (written by the writer's constructor) -/
  | header
  /-- `# Polarization Vector` -/
  | comment
  /-- a printed line of floats -/
  | vals (v : List α)

/-- a handler instance: its files (content of the `.tmp` files so far) and `OutputHandler._counter` -/
structure Handler (α : Type) where
  kind : Kind
  files : List (List (FLine α))
  counter : Nat

/-- suffix of the file names of the separation handler: `"{0}_1{1}.{2}".format(base, number + n + 1, ext)` if
`number_of_nodes_per_root_node > 1`, the bare file name otherwise -/
def sepFileSuffix (perRoot number : Nat) : String :=
  if perRoot > 1 then "_1" ++ toString (number + perRoot + 1) else ""

/-- the constructors (`ConfigurationError` outcomes; the files are opened BEFORE the check in the three water/dipole handlers,
so an aborted construction leaves `.tmp` files behind — not modelled) -/
def Handler.init {α : Type} (st : Setting α) : Kind → Except String (Handler α)
  | .separation => .ok ⟨.separation, List.replicate st.perRoot [FLine.header], 0⟩
  | .bond =>
    if st.levels ≠ 2 || st.perRoot ≠ 3 then .error "err:ConfigurationError"
    else .ok ⟨.bond, [[FLine.header], [FLine.header]], 0⟩
  | .oxygen =>
    if st.levels ≠ 2 || st.perRoot ≠ 3 then .error "err:ConfigurationError"
    else .ok ⟨.oxygen, [[FLine.header]], 0⟩
  | .polarization =>
    if st.levels ≠ 2 || st.perRoot == 1 then .error "err:ConfigurationError"
    else .ok ⟨.polarization, [[FLine.header, FLine.comment]], 0⟩

/-- `print(…, file=self._files[k])` for every printed line, in order -/
def appendLines {α : Type} (files : List (List (FLine α))) (ls : List (Line α)) : List (List (FLine α)) :=
  ls.foldl (fun fs l => fs.modify l.1 (· ++ [FLine.vals l.2])) files

section
variable {α : Type} [Add α] [Sub α] [Mul α] [Div α] [Neg α] [LT α] [DecidableLT α] [LE α] [DecidableLE α] [BEq α]

/-- what one call of `write` prints into the handler's files -/
def observe (oo : OOps α) (st : Setting α) (k : Kind) (state : List (Root α)) : Out α :=
  match k with
  | .separation => separations oo st state
  | .bond => bondLengthsAngles oo st state
  | .oxygen => oxygenOxygen oo st state
  | .polarization => polarizationOut oo.ops st state

/-- `write(extracted_global_state)`: `super().write` first (counter, and the message
`"<class>: Calculated <n> samples."` on stdout when the counter is a multiple of 100), then the observable loop.
Returns the handler, the exception (if any) and whether the message was printed. -/
def Handler.write (oo : OOps α) (st : Setting α) (h : Handler α) (state : List (Root α)) : Handler α × Option String × Bool :=
  let c := h.counter + 1
  let r := observe oo st h.kind state
  ({ h with counter := c, files := appendLines h.files r.1 }, r.2, c % 100 == 0)

/-- `post_run()`: every writer is closed (the `.tmp` file is renamed to the file name): the final content of the files -/
def Handler.postRun (h : Handler α) : List (List (FLine α)) := h.files

end
end JF.Output
