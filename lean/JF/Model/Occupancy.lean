import JF.Num.Ops
/-
Model of `jellyfysh/activator/internal_state/single_active_cell_occupancy.py`
(class `SingleActiveCellOccupancy`: `initialize`, `update`, `__getitem__`, `yield_surplus`,
`yield_active_cells`) and of the one-direction core of
`jellyfysh/event_handler/cell_boundary_event_handler.py`
(`CellBoundaryEventHandler.send_event_time` / `send_out_state`).

The occupancy works over an *abstract cell function*: units and cells are natural numbers
(the harness numbers the global-state identifiers and the cells of the real cell system);
`position_to_cell(unit.position)` is evaluated by the caller and handed in as a cell id.
Python dictionaries are modelled with their insertion order (`Dict`), Python lists as `List`,
so that `__getitem__` and `yield_surplus` can be compared *in order* with the real class.

No Mathlib import here: this file is linked into the driver executable.
-/
namespace JF.Occ

abbrev Cell := Nat
abbrev UId := Nat

/-- error outcomes of the real code (uncaught Python exceptions) -/
inductive Err
  | keyError | valueError | indexError
deriving DecidableEq, Repr

def Err.token : Err → String
  | .keyError => "err:KeyError"
  | .valueError => "err:ValueError"
  | .indexError => "err:IndexError"

/-! ### insertion-ordered dictionary `cell -> list of identifiers` (`self._surplus`) -/

abbrev Dict := List (Cell × List UId)

namespace Dict

/-- `d.get(c)` -/
def get? : Dict → Cell → Option (List UId)
  | [], _ => none
  | (k, v) :: t, c => if k = c then some v else get? t c

/-- `d.setdefault(c, []).append(u)`: a new key goes to the end of the dictionary -/
def appendAt : Dict → Cell → UId → Dict
  | [], c, u => [(c, [u])]
  | (k, v) :: t, c, u => if k = c then (k, v ++ [u]) :: t else (k, v) :: appendAt t c u

/-- in-place replacement of the list stored under an existing key -/
def set : Dict → Cell → List UId → Dict
  | [], _, _ => []
  | (k, v) :: t, c, l => if k = c then (k, l) :: t else (k, v) :: set t c l

/-- `del d[c]` (keys of a dictionary are unique) -/
def del (d : Dict) (c : Cell) : Dict := d.filter (fun e => e.1 != c)

def keys (d : Dict) : List Cell := d.map (·.1)

/-- `for value in d.values(): yield from value` -/
def values (d : Dict) : List UId := (d.map (·.2)).flatten

end Dict

/-! ### the internal state -/

/-- attributes of `SingleActiveCellOccupancy` -/
structure State where
  /-- `_maximum_number_occupants` (`≤ 0`: `_number_occupants_not_bounded`) -/
  cap : Int
  /-- `_occupants` : one list per cell of the cell system -/
  occupants : Cell → List UId
  /-- `_surplus` -/
  surplus : Dict
  /-- `_active_unit_identifier` -/
  activeId : Option UId
  /-- `_active_cell` -/
  activeCell : Option Cell

/-- state after `__init__` -/
def State.empty (cap : Int) : State := ⟨cap, fun _ => [], [], none, none⟩

def setAt (f : Cell → List UId) (c : Cell) (l : List UId) : Cell → List UId :=
  fun c' => if c' = c then l else f c'

/-- `len(self._occupants[cell]) < self._maximum_number_occupants or self._number_occupants_not_bounded` -/
def hasRoom (s : State) (c : Cell) : Bool :=
  decide (((s.occupants c).length : Int) < s.cap) || decide (s.cap ≤ 0)

/-- the common block of `initialize` and `update`:
```
if (len(self._occupants[cell]) < self._maximum_number_occupants or self._number_occupants_not_bounded):
    self._occupants[cell].append(identifier)
else:
    self._surplus.setdefault(cell, []).append(identifier)
``` -/
def insert (s : State) (c : Cell) (u : UId) : State :=
  if hasRoom s c then { s with occupants := setAt s.occupants c (s.occupants c ++ [u]) }
  else { s with surplus := s.surplus.appendAt c u }

/-- a unit of the extracted global state on the cell level, as the occupancy sees it -/
structure UnitIn where
  id : UId
  /-- `self._is_relevant_unit(unit)` -/
  relevant : Bool
  /-- `self._cells.position_to_cell(unit.position)` -/
  cell : Cell

/-- `SingleActiveCellOccupancy._is_relevant_unit`:
`(lambda unit: unit.charge[charge] != 0) if charge is not None else lambda unit: True` -/
def isRelevant {α : Type} [BEq α] (o : Ops α) (chargeGiven : Bool) (q : α) : Bool :=
  if chargeGiven then q != o.ofInt 0 else true

/-- `SingleActiveCellOccupancy.initialize` (loop over all units on the cell level, in order) -/
def init (cap : Int) (units : List UnitIn) : State :=
  units.foldl (fun s u => if u.relevant then insert s u.cell u.id else s) (State.empty cap)

/-- `if not self._surplus.get(self._active_cell, True): del self._surplus[self._active_cell]` -/
def dropEmpty (s : State) (c : Cell) : State :=
  match s.surplus.get? c with
  | some [] => { s with surplus := s.surplus.del c }
  | _ => s

/-- first block of `update` (identifier changed):
```
if self._active_unit_identifier is not None:
    if (len(self._occupants[self._active_cell]) < ... or self._number_occupants_not_bounded): ...append
    else: self._surplus.setdefault(self._active_cell, []).append(self._active_unit_identifier)
```
the previous active unit is re-inserted into the *recorded* active cell -/
def reinsertOld (s : State) : Except Err State :=
  match s.activeId with
  | none => .ok s
  | some old =>
    match s.activeCell with
    | none => .error .keyError            -- `self._occupants[None]`
    | some ac => .ok (insert s ac old)

/-- second block of `update` (identifier changed): `if self._is_relevant_unit(new_active_unit): … else: …` -/
def activate (s1 : State) (new : UnitIn) : Except Err State :=
  if new.relevant then
    let s2 : State := { s1 with activeCell := some new.cell, activeId := some new.id }
    -- `try: self._occupants[self._active_cell].remove(new_active_unit.identifier)`
    if new.id ∈ s2.occupants new.cell then
      let s3 : State :=
        { s2 with occupants := setAt s2.occupants new.cell ((s2.occupants new.cell).erase new.id) }
      -- `if not self._surplus.get(self._active_cell, True):`
      --     `self._occupants[...].append(self._surplus[self._active_cell].pop())`
      -- only an *empty* list is falsy, and `[].pop()` raises IndexError
      match s3.surplus.get? new.cell with
      | some [] => .error .indexError
      | _ => .ok (dropEmpty s3 new.cell)
    else
      -- `except ValueError: self._surplus[self._active_cell].remove(new_active_unit.identifier)`
      match s2.surplus.get? new.cell with
      | none => .error .keyError
      | some l =>
        if new.id ∈ l then
          .ok (dropEmpty { s2 with surplus := s2.surplus.set new.cell (l.erase new.id) } new.cell)
        else .error .valueError
  else
    .ok { s1 with activeId := none, activeCell := none }

/-- `SingleActiveCellOccupancy.update` for the single active unit `new` on the cell level
(`new.cell` is `position_to_cell(new.position)`). -/
def update (s : State) (new : UnitIn) : Except Err State :=
  -- `if new_active_unit.identifier != self._active_unit_identifier:`
  if some new.id != s.activeId then
    match reinsertOld s with
    | .error e => .error e
    | .ok s1 => activate s1 new
  else
    -- `self._active_cell = self._cells.position_to_cell(new_active_unit.position)`
    .ok { s with activeCell := some new.cell }

/-- `__getitem__` -/
def getItem (s : State) (c : Cell) : List UId := s.occupants c

/-- `yield_surplus` -/
def yieldSurplus (s : State) : List UId := s.surplus.values

/-- `yield_active_cells` -/
def yieldActiveCells (s : State) : List (Option Cell × Option UId) :=
  match s.activeCell with
  | some c => [(some c, s.activeId)]
  | none => []

/-! ### cell-boundary event, one direction of motion

`CellBoundaryEventHandler.send_event_time` for a unit whose velocity has the single non-zero
component `v` (direction `d`); `x` is `position[d]`; `bMin`/`bMax` are
`neighbor_cell(cell, d, True).cell_min[d]` and `neighbor_cell(cell, d, False).cell_max[d]`;
`L` is the system length (`next_image(s) = s + L`). Returns the time to the boundary and the
stored `_boundary`. -/
section boundary
variable {α : Type} [Add α] [Sub α] [Mul α] [Div α] [Neg α] [LT α] [DecidableLT α]

/-- body of the loop in `send_event_time` for the moving direction -/
def timeToBoundary (o : Ops α) (L x v bMin bMax : α) : α × α :=
  if o.ofInt 0 < v then
    let separation := bMin - x
    let separation := if separation < o.ofInt 0 then separation + L else separation
    (separation / v, bMin)
  else
    let separation := x - bMax
    let separation := if separation < o.ofInt 0 then separation + L else separation
    -- `abs(velocity_component)` for a negative component
    (separation / (-v), bMax)

/-- `send_out_state`: after the time slice the coordinate is overwritten by the stored boundary
(`self._relevant_unit.position[self._direction] = self._boundary`) -/
def outPosition (o : Ops α) (L x v bMin bMax : α) : α := (timeToBoundary o L x v bMin bMax).2

end boundary

end JF.Occ
