/-
A *wiring* = what the `[TagActivator]` part of an `.ini` file says: the taggers in the order of the
`taggers` option, per tagger its tag, tagger class, event-handler class, the four tag lists (resolved to
indices), the pool size and the internal-state label.  `JF/Gen/Wirings.lean` is generated from the shipped
`.ini` files by `harness/translate.py`.

`WiringSound cfg` is the decidable side condition of C09/C08 (DESIGN §5 "C09/C08"): evaluated over the reachable
abstract states (which taggers are activated) of the wiring, with hand-written footprint tables
(what an event of a handler kind may change / what the yield of a tagger class reads).
-/
import JF.Model.Activator
namespace JF.Act

/-- classes in `jellyfysh/activator/tagger/` -/
inductive TaggerClass where
  | noInState | activeGlobalState | activeRootUnit | factorTypeMap
  | cellBoundary | cellBounding | cellVeto | excludedCells | surplusCells | unknown
deriving DecidableEq, Repr

/-- event-handler families (by base class, as `harness/runs.py: tagger_kind` and the mediator's
`get_arguments_*` dispatch distinguish them) -/
inductive HandlerKind where
  | startOfRun | endOfRun | sampling | dumping | endOfChain | switcher | cellBoundary | cellVeto
  | interaction | unknown
deriving DecidableEq, Repr

structure TaggerW where
  tag : String
  cls : TaggerClass
  /-- class name of the event handler built for this tagger -/
  handler : String
  kind : HandlerKind
  creates : List TaggerIdx
  trashes : List TaggerIdx
  activates : List TaggerIdx
  deactivates : List TaggerIdx
  /-- `len(tagger.get_event_handlers())` = `max 1 number_event_handlers` -/
  pool : Nat
  /-- index into `Wiring.labels` of `internal_state_label` -/
  label : Option Nat
deriving Repr, DecidableEq

structure Wiring where
  name : String
  /-- labels of the internal states (snake case alias of each entry of `internal_states`) -/
  labels : List String
  taggers : List TaggerW
deriving Repr

/-- handler pools: tagger `k` owns the block `[offset_k, offset_k + pool_k)` -/
def poolsFrom : Nat → List TaggerW → Wires
  | _, [] => []
  | off, t :: ts => ⟨t.creates, t.trashes, t.activates, t.deactivates, List.range' off t.pool⟩ :: poolsFrom (off + t.pool) ts

def Wiring.wires (c : Wiring) : Wires := poolsFrom 0 c.taggers

def Wiring.tagger (c : Wiring) (i : TaggerIdx) : TaggerW :=
  (c.taggers[i]?).getD ⟨"", .unknown, "", .unknown, [], [], [], [], 0, none⟩

def Wiring.n (c : Wiring) : Nat := c.taggers.length

/-- the tagger of the start-of-run handler (`TagActivator.initialize` demands exactly one such handler) -/
def Wiring.start? (c : Wiring) : Option TaggerIdx :=
  match (List.range c.n).filter (fun i => (c.tagger i).kind == .startOfRun) with
  | [i] => if (c.tagger i).pool == 1 then some i else none
  | _ => none

/-! ### footprints -/

/-- aspects of the global state + internal states an event may change / a yield may read -/
inductive Aspect where
  /-- which units are active (identity of the independent active unit(s), incl. the mode leaf/root) and,
  with it, the occupancy lists of every cell system -/
  | ident
  /-- the active cell of the occupancy system with this label index -/
  | cell (l : Nat)
  /-- velocity or straight-line trajectory of some unit (C08) -/
  | motion
  /-- time stamps / positions along the unchanged trajectories -/
  | time
deriving DecidableEq, Repr

/-- effect footprint: what the commit of an event of tagger `E` may change -/
def affects (E : TaggerW) : Aspect → Bool
  | .time => true
  | .ident | .motion =>
    match E.kind with
    | .sampling | .dumping | .endOfRun | .cellBoundary => false
    | _ => true
  | .cell l =>
    match E.kind with
    | .sampling | .dumping | .endOfRun => false
    | .cellBoundary => E.label == some l      -- snaps the active unit onto a boundary of ITS cell system
    | _ => true

/-- is the comparison of C09 for this tagger on identifier tuples (interaction-type taggers: factor, cell-veto,
cell-boundary events) or on the number of pending events only (sampling, end of chain, end of run, dumping,
mode switch)? -/
def idsView (T : TaggerW) : Bool :=
  match T.kind with
  | .interaction | .cellVeto | .cellBoundary | .unknown => true
  | _ => false

/-- C08 speaks about interaction and cell-veto events -/
def motionBound (T : TaggerW) : Bool :=
  match T.kind with
  | .interaction | .cellVeto | .unknown => true
  | _ => false

/-- dependency footprint of the yield of tagger `T` w.r.t. the comparison C09 makes for it -/
def reads (T : TaggerW) : Aspect → Bool
  | .time | .motion => false
  | .ident =>
    match T.cls with
    | .noInState => false
    | .activeGlobalState | .activeRootUnit => idsView T   -- always exactly one tuple per independent active chain
    | _ => true
  | .cell l =>
    match T.cls with
    | .excludedCells | .cellBounding | .surplusCells => T.label == some l
    | .unknown => true
    | _ => false     -- cell-veto / cell-boundary taggers yield `(active_identifier,)` only

def aspects (c : Wiring) : List Aspect :=
  [.ident, .motion, .time] ++ (List.range c.labels.length).map .cell

def disjointFP (c : Wiring) (E T : TaggerW) : Bool :=
  (aspects c).all fun a => !(affects E a && reads T a)

/-! ### abstract states: which taggers are activated -/

abbrev AState := List Bool

def aGet (σ : AState) (i : Nat) : Bool := (σ[i]?).getD false

/-- abstract counterpart of `applyActivation` -/
def aStep (c : Wiring) (σ : AState) (E : TaggerIdx) : AState :=
  let σ1 := (c.tagger E).activates.foldl (fun σ i => σ.set i true) σ
  (c.tagger E).deactivates.foldl (fun σ i => σ.set i false) σ1

/-- taggers that may commit an event in `σ` after the start: activated ones, except the start-of-run tagger
(trashed by itself, never re-created) and the end-of-run tagger (its commit ends the run) -/
def canCommit (c : Wiring) (σ : AState) (E : TaggerIdx) : Bool :=
  aGet σ E && (c.tagger E).kind != .startOfRun && (c.tagger E).kind != .endOfRun

def succs (c : Wiring) (σ : AState) : List AState :=
  ((List.range c.n).filter (canCommit c σ)).map (aStep c σ)

def addNew (seen : List AState) : List AState → List AState
  | [] => seen
  | x :: xs => if seen.contains x then addNew seen xs else addNew (seen ++ [x]) xs

/-- fuel-bounded closure of `{σ₁}` under `succs` -/
def reachFrom (c : Wiring) : Nat → List AState → List AState
  | 0, seen => seen
  | k + 1, seen =>
    let nxt := addNew seen (seen.flatMap (succs c))
    if nxt.length == seen.length then seen else reachFrom c k nxt

def closed (c : Wiring) (R : List AState) : Bool :=
  R.all fun σ => (succs c σ).all fun σ' => R.contains σ'

/-! ### the decidable side condition -/

def idxOK (c : Wiring) (l : List Nat) : Bool := l.all (· < c.n)

/-- static well-formedness -/
def wfStatic (c : Wiring) (S : TaggerIdx) : Bool :=
  c.taggers.all (fun t => idxOK c t.creates && idxOK c t.trashes && idxOK c t.activates && idxOK c t.deactivates
    && decide (t.creates.Nodup) && decide (1 ≤ t.pool) && !(t.creates.contains S))
  -- (f) `assert preceding_event_handler in trashable_events`
  && (List.range c.n).all (fun E => (c.tagger E).trashes.contains E)

/-- the state after the commit of the start-of-run event: (g) every tagger the property speaks about is created
by the start-of-run tagger or deactivated -/
def startOK (c : Wiring) (S : TaggerIdx) (σ1 : AState) : Bool :=
  (List.range c.n).all fun T =>
    (c.tagger T).kind == .startOfRun || (c.tagger S).creates.contains T || !aGet σ1 T

inductive Clause where | a | b | c_act | c_fp | h
deriving DecidableEq, Repr

def Clause.name : Clause → String
  | .a => "a" | .b => "b" | .c_act => "c-activation" | .c_fp => "c-footprint" | .h => "h"

/-- the violated clauses for the commit of `E` in `σ` w.r.t. tagger `T` -/
def pairViolations (c : Wiring) (σ : AState) (E T : TaggerIdx) : List Clause :=
  let e := c.tagger E
  let t := c.tagger T
  let σ' := aStep c σ E
  let cr := e.creates.contains T
  let tr := e.trashes.contains T
  if t.kind == .startOfRun then [] else
  (if cr && !tr && aGet σ T then [.a] else [])                      -- (a) duplicates
  ++ (if tr && !cr && aGet σ' T then [.b] else [])                  -- (b) trashed, not re-created, still yields
  ++ (if !tr && !cr && aGet σ' T != aGet σ T then [.c_act] else []) -- (c)/(d)/(e) (de)activated but untouched
  ++ (if !tr && !cr && aGet σ T && !disjointFP c e t then [.c_fp] else [])   -- (c) footprint
  ++ (if affects e .motion && motionBound t && aGet σ T && !tr then [.h] else [])  -- (h) C08

def violations (c : Wiring) (R : List AState) : List (AState × TaggerIdx × TaggerIdx × Clause) :=
  R.flatMap fun σ => ((List.range c.n).filter (canCommit c σ)).flatMap fun E =>
    (List.range c.n).flatMap fun T => (pairViolations c σ E T).map fun cl => (σ, E, T, cl)

def fuel (_c : Wiring) : Nat := 64

/-- the activation flags after the commit of the start-of-run event: all activated (`initialize`), then the activate/deactivate
lists of the start-of-run tagger are applied by the first `get_event_handlers_to_run` AND again by the update call whose
preceding handler is the start-of-run handler -/
def startState (c : Wiring) (S : TaggerIdx) : AState := aStep c (aStep c (List.replicate c.n true) S) S

/-- reachable abstract states after the start-of-run event -/
def reach (c : Wiring) (S : TaggerIdx) : List AState :=
  reachFrom c (fuel c) [startState c S]

def WiringSound (c : Wiring) : Bool :=
  match c.start? with
  | none => false
  | some S =>
    let R := reach c S
    wfStatic c S && startOK c S (startState c S) && closed c R && (violations c R).isEmpty

/-- human-readable diagnosis for the driver (`sound <cfg>`) -/
def soundReport (c : Wiring) : String :=
  match c.start? with
  | none => "fail no-unique-start-of-run-handler"
  | some S =>
    let R := reach c S
    let σ1 := startState c S
    let tagOf := fun i => (c.tagger i).tag
    let v := violations c R
    let items :=
      (if wfStatic c S then [] else ["wf-static"]) ++
      (if startOK c S σ1 then [] else
        ((List.range c.n).filter fun T => !((c.tagger T).kind == .startOfRun || (c.tagger S).creates.contains T || !aGet σ1 T)).map
          fun T => s!"g:start-does-not-create:{tagOf T}") ++
      (if closed c R then [] else ["reach-fuel-exhausted"]) ++
      (v.map fun (_, E, T, cl) => s!"{cl.name}:{tagOf E}->{tagOf T}").eraseDups
    if items.isEmpty then s!"ok states={R.length}" else "fail " ++ " ".intercalate items

end JF.Act
