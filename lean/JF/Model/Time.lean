import JF.Num.Ops
/-
Model of `jellyfysh/base/time.py` (class `Time`) and of the lexicographic comparison used by
`scheduler/heap_scheduler/heap.c`.  Written branch for branch after the source.
-/
namespace JF

structure Time (α : Type) where
  q : α
  r : α
deriving Repr

namespace Time
variable {α : Type} [Add α] [Sub α] [Mul α] [Div α] [Neg α] [LT α] [DecidableLT α] [BEq α]

/-- `Time.from_float` -/
def fromFloat (o : Ops α) (t : α) : Time α :=
  if !(o.isInf t) then let (q, r) := pydivmod1 o t; ⟨q, r⟩ else ⟨t, t⟩

/-- `Time.__add__` -/
def add (o : Ops α) (t : Time α) (d : α) : Time α :=
  if !(o.isInf d) then
    let (aq, nr) := pydivmod1 o (t.r + d)
    ⟨t.q + aq, nr⟩
  else ⟨d, d⟩

/-- `Time.__sub__` : `q - q' + r - r'`, evaluated left to right -/
def sub (t u : Time α) : α := t.q - u.q + t.r - u.r

/-- `Time.__eq__` -/
def eq (t u : Time α) : Bool := t.q == u.q && t.r == u.r
/-- `Time.__lt__` -/
def lt (t u : Time α) : Bool := decide (t.q < u.q) || (t.q == u.q && decide (t.r < u.r))
/-- `Time.__gt__` : `not lt and ne` -/
def gt (t u : Time α) : Bool := !(lt t u) && !(eq t u)
/-- `Time.__le__` : `lt or eq` -/
def le (t u : Time α) : Bool := lt t u || eq t u
/-- `Time.__ge__` : `not lt` -/
def ge (t u : Time α) : Bool := !(lt t u)

/-- the comparison of `heap.c` (`insert`, `bubble_down`):
`a.q < b.q || (a.q == b.q && a.r < b.r)` -/
def cLt (t u : Time α) : Bool := decide (t.q < u.q) || (t.q == u.q && decide (t.r < u.r))

end Time
end JF
