import JF.Num.Ops
/-
Model of `jellyfysh/base/time.py` (class `Time`) and of the lexicographic comparison used by
`scheduler/heap_scheduler/heap.c`.  Written branch for branch after the source.
-/
namespace JF

structure Time (α : Type) where
  q : α
  r : α
deriving Repr

namespace Time
variable {α : Type} [Add α] [Sub α] [Mul α] [Div α] [Neg α] [LT α] [DecidableLT α] [BEq α]

/-- `Time.from_float` -/
def fromFloat (o : Ops α) (t : α) : Time α :=
  if !(o.isInf t) then let (q, r) := pydivmod1 o t; ⟨q, r⟩ else ⟨t, t⟩

/-- `Time.__add__` -/
def add (o : Ops α) (t : Time α) (d : α) : Time α :=
  if !(o.isInf d) then
    let (aq, nr) := pydivmod1 o (t.r + d)
    ⟨t.q + aq, nr⟩
  else ⟨d, d⟩

/-- `Time.__sub__` : `q - q' + r - r'`, evaluated left to right -/
def sub (t u : Time α) : α := t.q - u.q + t.r - u.r

/-- `Time.__eq__` -/
def eq (t u : Time α) : Bool := t.q == u.q && t.r == u.r
/-- `Time.__lt__` -/
def lt (t u : Time α) : Bool := decide (t.q < u.q) || (t.q == u.q && decide (t.r < u.r))
/-- `Time.__gt__` : `not lt and ne` -/
def gt (t u : Time α) : Bool := !(lt t u) && !(eq t u)
/-- `Time.__le__` : `lt or eq` -/
def le (t u : Time α) : Bool := lt t u || eq t u
/-- `Time.__ge__` : `not lt` -/
def ge (t u : Time α) : Bool := !(lt t u)

/-- the comparison of `heap.c` (`insert`, `bubble_down`):
`a.q < b.q || (a.q == b.q && a.r < b.r)` -/
def cLt (t u : Time α) : Bool := decide (t.q < u.q) || (t.q == u.q && decide (t.r < u.r))

end Time
end JF

/-! ## `Time` objects as values (register sessions)

The implementation's `Time` instances are mutable Python objects (`Time.update` overwrites the two fields in place, it is how
time stamps of active units are refreshed). The property speaks about *times*, i.e. values: an object that obtained its fields
through `update` is the time `(quotient, remainder)` like any other, a result of `+`/`from_float` is a new time that shares
nothing with its operands, and the module-level `inf` is a constant. `Regs` is that reading: a finite register file of values. -/
namespace JF.Time
variable {α : Type}

abbrev Regs (α : Type) := List (Time α)

def Regs.get (z : Time α) (s : Regs α) (i : Nat) : Time α := s.getD i z

/-- `regs[i] = t` (a new binding), out-of-range registers do not exist -/
def Regs.put (s : Regs α) (i : Nat) (t : Time α) : Regs α := s.set i t

/-- `regs[i].update(regs[j])`: copies the two fields -/
def Regs.update (z : Time α) (s : Regs α) (i j : Nat) : Regs α := s.put i (s.get z j)

end JF.Time
