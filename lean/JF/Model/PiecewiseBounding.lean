import JF.Num.Ops
import JF.Model.Time
import JF.Model.Kinematics
import JF.Model.Thinning
/-
Model of the *piecewise-constant bounding* family of event handlers, branch for branch after

* `event_handler/abstracts/event_handler_with_bounding_potential.py`
    (class `EventHandlerWithPiecewiseConstantBoundingPotential`:
     `_displacement_from_piecewise_constant_bounding_potential`, `_event_rate_from_piecewise_constant_bounding_potential`),
* `event_handler/two_leaf_unit_event_handler_with_piecewise_constant_bounding_potential.py`          (`Kind.twoLeaf`),
* `event_handler/fixed_separations_event_handler_with_piecewise_constant_bounding_potential.py`     (`Kind.fixedSep`),
* `event_handler/abstracts/abstracts.py` (`_store_in_state`, `_construct_leaf_cnodes`, `_extract_active_leaf_unit`,
  `_time_slice_all_units_in_state`, `_exchange_velocity`; the last one is `JF.Thin.exchange`),
* `setting/hypercubic_setting.py` (`correct_position_entry` = `JF.pywrap`, `separation_vector` = `JF.Thin.sepVec`).

What the potential returns (`derivative`: a float, or a sequence of floats for potentials of several units such as the
bending potential), what `random.expovariate` / `random.uniform` return and what the lifting scheme answers are *inputs*
of the model.  The handler object is modelled as an explicit state machine (`HState`, `step`) over the consecutive
candidates one object is asked for: the stored in-state, the active index, the cached bounding rate
(`self._bounding_event_rate`) and the candidate event time survive from call to call exactly as the attributes do.

One definition, two readings: `α = ℚ` (`JF/Props/C04Piecewise`) and `α = Float` (driver `jf_pcb`, compared bit for bit
with the two real classes).
-/
namespace JF.Pcb
open JF JF.Thin

variable {α : Type} [Add α] [Sub α] [Mul α] [Div α] [Neg α] [LT α] [DecidableLT α] [LE α] [DecidableLE α] [BEq α]

/-! ### the locally constant bound -/

/-- Python `max(a, b)` of two arguments: the first one is kept unless the second one is strictly larger -/
def pymax (a b : α) : α := if a < b then b else a

/-- `constant_derivative = max(derivative_one, derivative_two) + self._offset` -/
def boundRate (q1 q2 offset : α) : α := pymax q1 q2 + offset

/-- The three branches of `_displacement_from_piecewise_constant_bounding_potential` once the two derivatives are known:
```
constant_derivative = max(derivative_one, derivative_two) + self._offset
if constant_derivative <= 0.0:                                  self._bounding_event_rate = None;  return max_displacement
elif potential_change / constant_derivative < max_displacement: self._bounding_event_rate = constant_derivative
                                                                return potential_change / constant_derivative
else:                                                           self._bounding_event_rate = None;  return max_displacement
```
Result: (time displacement, new value of the cache `_bounding_event_rate`). -/
def displacement (o : Ops α) (q1 q2 offset dmax E : α) : α × Option α :=
  let b := boundRate q1 q2 offset
  if b ≤ o.ofInt 0 then (dmax, none)
  else if E / b < dmax then (E / b, some b)
  else (dmax, none)

/-! ### what a potential returns -/

/-- value of `potential.derivative(…)`: a float, or a sequence with one derivative per leaf unit -/
inductive Deriv (α : Type) where
  | scalar (x : α)
  | tuple (xs : List α)

/-- `try: derivatives[index] except TypeError: derivatives` (an `IndexError` is not caught) -/
def Deriv.pick (ai : Nat) : Deriv α → Except String α
  | .scalar x => .ok x
  | .tuple xs => match xs[ai]? with
    | some x => .ok x
    | none => .error "IndexError"

/-! ### parameters, handler state -/

inductive Kind where
  | twoLeaf
  | fixedSep
deriving DecidableEq

structure Params (α : Type) where
  kind : Kind
  /-- `setting.system_length` (hypercubic setting), `setting.dimension` -/
  L : α
  dim : Nat
  /-- the literal `1e-13` of `_commit_sub_tree_non_leaf_velocity_change` -/
  tiny : α
  offset : α
  /-- `max_displacement` (the constructor demands `> 0.0`) -/
  dmax : α
  /-- two-leaf handler: a charge name was given (`charge is not None`) -/
  useCharge : Bool
  /-- `potential.number_charge_arguments` -/
  nCharge : Nat
  /-- fixed-separations handler: `separations = [i1, j1, i2, j2, …]` -/
  seps : List Nat

/-- the attributes of one handler object that survive from call to call -/
structure HState (α : Type) where
  /-- `self._state` (`none`: nothing stored yet) -/
  st : Option (List (CNode α))
  /-- `self._active_leaf_unit_index` -/
  ai : Nat
  /-- `self._bounding_event_rate` -/
  cache : Option α
  /-- `self._event_time` -/
  et : Option (Time α)

/-- a freshly constructed handler -/
def HState.init : HState α := ⟨none, 0, none, none⟩

/-- one call of `potential.derivative(velocity, *separations, *charges)` -/
structure PCall (α : Type) where
  vel : List α
  seps : List (List α)
  charges : List α

/-! ### `_get_separations`, `_get_charges` -/

/-- `zip(it, it)` over `[i1, j1, i2, j2, …]` -/
def sepPairs : List Nat → List (Nat × Nat)
  | i :: j :: r => (i, j) :: sepPairs r
  | _ => []

/-- `_get_separations(positions)` of the two classes -/
def separations (o : Ops α) (p : Params α) (ai : Nat) (pos : List (List α)) : Except String (List (List α)) :=
  match p.kind with
  | .twoLeaf =>
    match pos[ai]?, pos[ai ^^^ 1]? with
    | some a, some t => .ok [sepVec o p.L a t]
    | _, _ => .error "IndexError"
  | .fixedSep =>
    if p.seps.isEmpty then .error "ValueError"                         -- `max([])`
    else if !(p.seps.all fun i => decide (i < pos.length)) then .error "AssertionError"   -- `assert len(positions) > max(…)`
    else .ok ((sepPairs p.seps).map fun ij => sepVec o p.L (pos[ij.1]?.getD []) (pos[ij.2]?.getD []))

/-- `_get_charges(units)`: `(units[0].charge[c], units[1].charge[c])` (two-leaf handler with a charge name), else `1.0`
for every charge argument of the potential -/
def charges (o : Ops α) (p : Params α) (us : List (LUnit α)) : List α :=
  match p.kind with
  | .twoLeaf => if p.useCharge then (us.take 2).map (·.charge) else List.replicate p.nCharge (o.ofInt 1)
  | .fixedSep => List.replicate p.nCharge (o.ofInt 1)

/-! ### time slicing (`_time_slice_all_units_in_state`) -/

def sliceLUnit (o : Ops α) (Ls : List α) (t : Time α) (u : LUnit α) : LUnit α :=
  let q := Kin.timeSlice o Ls t ⟨u.pos, u.vel, u.ts⟩
  { u with pos := q.pos, vel := q.vel, ts := q.ts }

def sliceState (o : Ops α) (p : Params α) (t : Time α) (st : List (CNode α)) : List (CNode α) :=
  let Ls := List.replicate p.dim p.L
  st.map fun c => { c with unit := sliceLUnit o Ls t c.unit,
                           children := c.children.map fun cw => (sliceLUnit o Ls t cw.1, cw.2) }

/-- the active unit `max_displacement` ahead:
`[correct_position_entry(position[d] + velocity[d] * max_displacement, d) for d in range(dimension)]` -/
def aheadPos (o : Ops α) (p : Params α) (pos vel : List α) : List α :=
  Kin.sliceVec o (List.replicate p.dim p.L) pos vel p.dmax

/-! ### `send_event_time` -/

/-- `send_event_time(in_state)` of both classes.  `E` is what `random.expovariate(setting.beta)` returned, `d1` / `d2`
what the potential returned at the present position / `max_displacement` ahead.
Result: new handler state, returned candidate time, the two recorded calls of the potential. -/
def sendEventTime (o : Ops α) (p : Params α) (inState : List (CNode α)) (E : α) (d1 d2 : Deriv α) :
    Except String (HState α × Time α × List (PCall α)) :=
  let us := leafUnits inState
  match activeIndex inState with
  | none => .error "AssertionError"                          -- assert len(active_leaf_units) == 1
  | some ai =>
    if p.kind = .twoLeaf && us.length != 2 then .error "AssertionError"   -- assert len(self._leaf_cnodes) == 2
    else
      match us[ai]? with
      | none => .error "IndexError"
      | some au =>
        let v := au.vel.getD []
        let pos := us.map (·.pos)
        match separations o p ai pos with
        | .error e => .error e
        | .ok s1 =>
          let ch := charges o p us
          match d1.pick ai with
          | .error e => .error e
          | .ok q1 =>
            let pos2 := pos.set ai (aheadPos o p au.pos v)
            match separations o p ai pos2 with
            | .error e => .error e
            | .ok s2 =>
              match d2.pick ai with
              | .error e => .error e
              | .ok q2 =>
                let r := displacement o q1 q2 p.offset p.dmax E
                match au.ts with
                | none => .error "TypeError"                 -- `None + float`
                | some ts =>
                  let et := Time.add o ts r.1
                  .ok (⟨some (sliceState o p et inState), ai, r.2, some et⟩, et, [⟨v, s1, ch⟩, ⟨v, s2, ch⟩])

/-! ### `send_out_state` -/

/-- what `send_out_state` did -/
structure Out (α : Type) where
  /-- the returned out-state (`self._state`) -/
  st : List (CNode α)
  confirmed : Bool
  /-- `bounding_potential_warning` logged -/
  warned : Bool
  calls : List (PCall α)
  /-- `lifting.insert(derivative, identifier, is_active)` calls -/
  inserts : List (α × List Nat × Bool)
  /-- upper limit handed to `random.uniform` (`none`: no uniform number drawn) -/
  uni : Option α

/-- nothing happens: the time-sliced state is returned -/
def Out.idle (st : List (CNode α)) (calls : List (PCall α)) : Out α := ⟨st, false, false, calls, [], none⟩

/-- `send_out_state()` of `TwoLeafUnitEventHandlerWithPiecewiseConstantBoundingPotential` -/
def sendOutTwoLeaf (o : Ops α) (p : Params α) (h : HState α) (st : List (CNode α)) (et : Time α) (d : Deriv α)
    (dr : Draw α) : Except String (Out α) :=
  let us := leafUnits st
  match separations o p h.ai (us.map (·.pos)) with
  | .error e => .error e
  | .ok ss =>
    match h.cache with
    | none => .ok (Out.idle st [])
    | some b =>
      let calls : List (PCall α) := [⟨((us[h.ai]?).bind (·.vel)).getD [], [ss.headD []], charges o p us⟩]
      match d with
      | .tuple _ => .error "TypeError"                       -- `list > int`
      | .scalar q =>
        if o.ofInt 0 < q then
          if dr.get o b < q then
            let refs := leafRefs st
            match refs[h.ai]?, refs[h.ai ^^^ 1]? with
            | some a, some t =>
              match exchange o ⟨p.L, p.tiny⟩ et st a t with
              | some st' => .ok ⟨st', true, warns o b q, calls, [], some b⟩
              | none => .error "AssertionError"
            | _, _ => .error "IndexError"
          else .ok ⟨st, false, warns o b q, calls, [], some b⟩
        else .ok (Out.idle st calls)

/-- the `lifting.insert` loop of the fixed-separations handler:
`for index, leaf_unit in enumerate(self._leaf_units): insert(potential_derivatives[index], leaf_unit.identifier, index == active)`
(`none`: `IndexError`) -/
def liftInserts (ders : List α) (ai : Nat) (us : List (LUnit α)) : Option (List (α × List Nat × Bool)) :=
  us.zipIdx.mapM fun (u, i) => (ders[i]?).map fun x => (x, u.id, i == ai)

/-- `send_out_state()` of `FixedSeparationsEventHandlerWithPiecewiseConstantBoundingPotential`;
`nextId` is what `lifting.get_active_identifier()` answers -/
def sendOutFixedSep (o : Ops α) (p : Params α) (h : HState α) (st : List (CNode α)) (et : Time α) (d : Deriv α)
    (dr : Draw α) (nextId : List Nat) : Except String (Out α) :=
  let us := leafUnits st
  match separations o p h.ai (us.map (·.pos)) with
  | .error e => .error e
  | .ok ss =>
    match h.cache with
    | none => .ok (Out.idle st [])
    | some b =>
      if !(decide (o.ofInt 0 ≤ b)) then .error "AssertionError"          -- assert bounding_event_rate >= 0.0
      else
        let calls : List (PCall α) := [⟨((us[h.ai]?).bind (·.vel)).getD [], ss, charges o p us⟩]
        match d with
        | .scalar _ => .error "TypeError"                    -- `float` is not subscriptable
        | .tuple ders =>
          match ders[h.ai]? with
          | none => .error "IndexError"
          | some q =>
            if o.ofInt 0 < q then
              if dr.get o b < q then
                match liftInserts ders h.ai us with
                | none => .error "IndexError"
                | some ins =>
                  let refs := leafRefs st
                  match (refs.filter fun r => ((getLeaf st r).map (·.id)) == some nextId), refs[h.ai]? with
                  | [t], some a =>
                    match exchange o ⟨p.L, p.tiny⟩ et st a t with
                    | some st' => .ok ⟨st', true, warns o b q, calls, ins, some b⟩
                    | none => .error "AssertionError"
                  | _, _ => .error "AssertionError"          -- assert len(new_active_indices) == 1
              else .ok ⟨st, false, warns o b q, calls, [], some b⟩
            else .ok (Out.idle st calls)

def sendOutState (o : Ops α) (p : Params α) (h : HState α) (d : Deriv α) (dr : Draw α) (nextId : List Nat) :
    Except String (Out α) :=
  match h.st, h.et with
  | some st, some et =>
    match p.kind with
    | .twoLeaf => sendOutTwoLeaf o p h st et d dr
    | .fixedSep => sendOutFixedSep o p h st et d dr nextId
  | _, _ => .error "TypeError"                               -- no candidate was ever requested (`self._leaf_units is None`)

/-! ### the handler object as a state machine -/

inductive Step (α : Type) where
  /-- `send_event_time(in_state)` -/
  | evt (inState : List (CNode α)) (E : α) (d1 d2 : Deriv α)
  /-- `send_out_state()` -/
  | out (d : Deriv α) (dr : Draw α) (nextId : List Nat)

inductive Reply (α : Type) where
  /-- the call raised (the run ends; the state is kept as it was) -/
  | err (tok : String)
  | time (t : Time α) (calls : List (PCall α))
  | out (r : Out α)

/-- one call on the handler object.  The cache is written only by `send_event_time`
(`send_out_state` of the two-leaf class re-assigns it its own value). -/
def step (o : Ops α) (p : Params α) (h : HState α) : Step α → HState α × Reply α
  | .evt s E d1 d2 =>
    match sendEventTime o p s E d1 d2 with
    | .error e => (h, .err e)
    | .ok (h', t, calls) => (h', .time t calls)
  | .out d dr nextId =>
    match sendOutState o p h d dr nextId with
    | .error e => (h, .err e)
    | .ok r => ({ h with st := some r.st }, .out r)

/-- a history of calls on one handler object -/
def run (o : Ops α) (p : Params α) (h : HState α) : List (Step α) → HState α × List (Reply α)
  | [] => (h, [])
  | s :: ss =>
    let (h1, r) := step o p h s
    let (h2, rs) := run o p h1 ss
    (h2, r :: rs)

/-- the state after a history -/
def after (o : Ops α) (p : Params α) (h : HState α) (ss : List (Step α)) : HState α := (run o p h ss).1

end JF.Pcb
