import JF.Num.Ops
import JF.Model.Time
import JF.Model.Kinematics
/-
Model of the clock-driven event handlers:
`event_handler/fixed_interval_sampling_event_handler.py` (also `fixed_interval_dumping_event_handler.py`, same clock),
`event_handler/final_time_end_of_run_event_handler.py`, and of the part of the mediator loop that decides how many
samples precede the end of the run.
-/
namespace JF.Sampling
variable {α : Type} [Add α] [Sub α] [Mul α] [Div α] [Neg α] [LT α] [DecidableLT α] [BEq α]

/-- `self._event_time` after the constructor:
`Time(0.0, 0.0) if not first_event_time_zero else Time.from_float(-sampling_interval)` -/
def clockInit (o : Ops α) (delta : α) (zeroFirst : Bool) : Time α :=
  if !zeroFirst then ⟨o.ofInt 0, o.ofInt 0⟩ else Time.fromFloat o (-delta)

/-- the time returned by the `k`-th call of `send_event_time` (`self._event_time += self._sampling_interval`) -/
def clock (o : Ops α) (delta : α) (zeroFirst : Bool) : Nat → Time α
  | 0 => clockInit o delta zeroFirst
  | k + 1 => Time.add o (clock o delta zeroFirst k) delta

/-- `FinalTimeEndOfRunEventHandler`: `Time.from_float(end_of_run_time)` -/
def endTime (o : Ops α) (tEnd : α) : Time α := Time.fromFloat o tEnd

/-- The mediator loop seen from the two clocks only: the sampling candidate `clock k` and the end-of-run candidate are
both pending; the scheduler returns the smaller one (the end of run on a tie is not modelled: ties are excluded by
hypothesis in the theorems). Returns the number of samples written before the run ends; `fuel` bounds the loop. -/
def samplesBeforeEnd (o : Ops α) (delta tEnd : α) (zeroFirst : Bool) : Nat → Nat → Nat
  | 0, _ => 0
  | fuel + 1, k =>
    if Time.lt (clock o delta zeroFirst (k + 1)) (endTime o tEnd) then
      1 + samplesBeforeEnd o delta tEnd zeroFirst fuel (k + 1)
    else 0

/-- out-state of a sampling / end-of-run / dumping event: `_time_slice_all_units_in_state` on the extracted active state -/
def sampleOutState (o : Ops α) (L : List α) (t : Time α) (us : List (PUnit α)) : List (PUnit α) :=
  us.map (Kin.timeSlice o L t)

end JF.Sampling
