import JF.Model.ConcreteWorld3
/-
Stage 2 of E22 (the composed system for COMPOSITE OBJECTS WITH CELLS), executable side: the decidable predicate `LeafOnly` — every
event-handler class of the wiring commits leaf-mode event kinds only.  All six shipped configurations of composite objects with a cell
system satisfy it (no `RootLeafUnitActiveSwitcher`, no `CompositeObjectsLifting` handler, `initial_active_identifier` names a point
mass): for them the ghost mode of E10's world is constantly `leaf`, and E10's MODE PREMISE is vacuous
(`JF/Lemmas/SystemRun3.lean: modeStep_leafOnly`, `leafOnly_mode`).  Core Lean only.
-/
namespace JF.Sys3
open JF JF.Act

/-- handler classes that commit only `keep` / `snap` / `exchange` / `eocLeaf` (in leaf mode) or the start of a point mass -/
def leafHM : HMode → Bool
  | .start true | .neutral | .endOfChain | .cellBoundary | .leafUnit => true
  | _ => false

/-- every handler class of the wiring is a leaf-mode class -/
def LeafOnly (mw : ModeWiring) : Bool := mw.hm.length == mw.w.n && mw.hm.all leafHM

end JF.Sys3
