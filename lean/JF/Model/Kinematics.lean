import JF.Num.Ops
import JF.Model.Time
/-
Kinematic core of the event handlers (`jellyfysh/event_handler/abstracts/abstracts.py`):
time-slicing of a unit and the hand-over of the velocity, and on top of it the *chain machine* for
point masses (one tree level): what each kind of committed event does to positions, velocities
and time stamps of the global state.

`timeSlice` is `BasicEventHandler._time_slice_unit`:
    position[d] = correct_position_entry(position[d] + velocity[d] * (event_time - time_stamp), d)
    time_stamp.update(event_time)
with `correct_position_entry(x, d) = (r := x % L_d; r if r != L_d else 0.0)` = `JF.pywrap` (`setting/hypercubic_setting.py`,
`hypercuboid_setting.py`).
-/
namespace JF

structure PUnit (α : Type) where
  pos : List α
  vel : Option (List α)
  ts  : Option (Time α)

namespace Kin
variable {α : Type} [Add α] [Sub α] [Mul α] [Div α] [Neg α] [LT α] [DecidableLT α] [BEq α]

/-- one coordinate of `_time_slice_unit` -/
def sliceCoord (o : Ops α) (L p v dt : α) : α := pywrap o (p + v * dt) L

/-- all coordinates (lists are zipped; the dimension is the common length) -/
def sliceVec (o : Ops α) : List α → List α → List α → α → List α
  | l :: L, p :: P, v :: V, dt => sliceCoord o l p v dt :: sliceVec o L P V dt
  | _, _, _, _ => []

/-- `BasicEventHandler._time_slice_unit` (units at rest are left alone) -/
def timeSlice (o : Ops α) (L : List α) (t : Time α) (u : PUnit α) : PUnit α :=
  match u.vel, u.ts with
  | some v, some ts => { pos := sliceVec o L u.pos v (Time.sub t ts), vel := some v, ts := some t }
  | _, _ => u

/-! ### chain machine for point masses -/

/-- the kinds of committed events, seen from the global state of point masses -/
inductive Ev (α : Type) where
  /-- start-of-run: unit `a` starts moving with velocity `v` at time `t` (`InitialChainStartOfRunEventHandler`) -/
  | start (t : Time α) (a : Nat) (v : List α)
  /-- sampling, end of run, dumping, a rejected (thinned) pair event: moving units are time-sliced, nothing else -/
  | keep (t : Time α)
  /-- cell-boundary event: time-slice, then coordinate `d` of the moving unit is set to `x`
      (`CellBoundaryEventHandler.send_out_state`) -/
  | snap (t : Time α) (d : Nat) (x : α)
  /-- accepted pair event: the moving unit is time-sliced and hands its velocity and time stamp to `b`
      (`SingleActiveLeafUnitEventHandler._exchange_velocity`) -/
  | lift (t : Time α) (b : Nat)
  /-- end of chain: the moving unit is time-sliced and stopped, unit `a` moves on with velocity `v`
      (`EndOfChainEventHandler.send_out_state`) -/
  | endOfChain (t : Time α) (a : Nat) (v : List α)

def Ev.time : Ev α → Time α
  | .start t _ _ => t | .keep t => t | .snap t _ _ => t | .lift t _ => t | .endOfChain t _ _ => t

def stop (u : PUnit α) : PUnit α := { u with vel := none, ts := none }

def isMoving (u : PUnit α) : Bool := u.vel.isSome

/-- index of the first moving unit -/
def activeIdx (us : List (PUnit α)) : Option Nat := us.findIdx? isMoving

def setCoord : List α → Nat → α → List α
  | [], _, _ => []
  | _ :: ps, 0, x => x :: ps
  | p :: ps, d + 1, x => p :: setCoord ps d x

/-- apply one committed event to the global state (list index = identifier of the point mass) -/
def step (o : Ops α) (L : List α) (us : List (PUnit α)) : Ev α → List (PUnit α)
  | .start t a v => us.modify a (fun u => { u with vel := some v, ts := some t })
  | .keep t => us.map (timeSlice o L t)
  | .snap t d x =>
      (us.map (timeSlice o L t)).map (fun u => if isMoving u then { u with pos := setCoord u.pos d x } else u)
  | .lift t b =>
      let sl := us.map (timeSlice o L t)
      match activeIdx sl with
      | none => sl
      | some a =>
        match sl[a]? with
        | none => sl
        | some ua =>
          if a == b then sl else
          (sl.modify b (fun u => { u with vel := ua.vel, ts := ua.ts })).modify a stop
  | .endOfChain t a v =>
      let sl := us.map (timeSlice o L t)
      match activeIdx sl with
      | none => sl
      | some a0 =>
        if a0 == a then sl.modify a (fun u => { u with vel := some v })
        else (sl.modify a0 stop).modify a (fun u => { u with vel := some v, ts := some t })

def run (o : Ops α) (L : List α) (us : List (PUnit α)) (es : List (Ev α)) : List (PUnit α) :=
  es.foldl (step o L) us

end Kin
end JF
