/-
Model of the bookkeeping of `jellyfysh/activator/tag_activator.py` (class `TagActivator`) and of
`activator/tagger/tagger.py` (`Tagger.activate/deactivate`, handler pool).

Pure list/integer logic, core Lean only.  The taggers' *yields* (`yield_identifiers_send_event_time`
on the current extracted active global state) are INPUTS of every model step
(`yields : TaggerIdx → List IdTuple` = what the *activated* method of each tagger would generate); the
model itself applies the rule "a deactivated tagger yields nothing"
(`Tagger._deactivated_yield_identifiers_send_event_time`).

Handlers are numbered as in `TagActivator._event_handlers`
(`sum((tagger.get_event_handlers() for tagger in self._taggers), [])`): tagger `k` owns a contiguous block.
-/
namespace JF.Act

abbrev HandlerId := Nat
abbrev TaggerIdx := Nat
/-- in-state identifiers yielded by a tagger: `none` = the `None` of `NoInStateTagger`, `some ids` = a tuple
of global-state identifiers (each a tuple of naturals, `StateId` of the tree state handler) -/
abbrev IdTuple := Option (List (List Nat))

/-- the four tag lists of one tagger (already resolved to tagger indices, as `_build_tagger_dictionary`
does) and its handler pool `tagger.get_event_handlers()` in the code's order -/
structure TWire where
  creates : List TaggerIdx
  trashes : List TaggerIdx
  activates : List TaggerIdx
  deactivates : List TaggerIdx
  pool : List HandlerId
deriving Repr, DecidableEq

abbrev Wires := List TWire

/-- bookkeeping per tagger: `activated` (which of the two yield methods is bound),
`_running_event_handlers[tagger]`, `_not_running_event_handlers[tagger]` -/
structure TState where
  activated : Bool
  running : List HandlerId
  notRunning : List HandlerId
deriving Repr, DecidableEq

abbrev Act := List TState

def TWire.empty : TWire := ⟨[], [], [], [], []⟩
def TState.empty : TState := ⟨false, [], []⟩

def getW (w : Wires) (i : TaggerIdx) : TWire := (w[i]?).getD TWire.empty
def getT (s : Act) (i : TaggerIdx) : TState := (s[i]?).getD TState.empty

/-- `TagActivator.initialize`: every tagger is activated (the constructor of `Tagger` binds the activated
method), `running = []`, `notRunning = copy(tagger.get_event_handlers())` -/
def initAct (w : Wires) : Act := w.map fun t => ⟨true, [], t.pool⟩

/-- `tagger.activate()` / `tagger.deactivate()` -/
def setActivated (s : Act) (i : TaggerIdx) (b : Bool) : Act := s.set i { getT s i with activated := b }

/-- `for tagger in self._activate_taggers[E]: tagger.activate()` then
`for tagger in self._deactivate_taggers[E]: tagger.deactivate()` (in this order: deactivation wins) -/
def applyActivation (w : Wires) (s : Act) (E : TaggerIdx) : Act :=
  let s1 := (getW w E).activates.foldl (fun s i => setActivated s i true) s
  (getW w E).deactivates.foldl (fun s i => setActivated s i false) s1

/-- what `tagger.yield_identifiers_send_event_time(state)` generates: the tagger's own generator when
activated, `iter(())` when deactivated -/
def yieldEff (t : TState) (ys : List IdTuple) : List IdTuple := if t.activated then ys else []

/-- `event_handler = self._not_running_event_handlers[tagger].pop()` (from the END; `IndexError` when empty =
`none`) followed by `self._running_event_handlers[tagger].append(event_handler)` -/
def popOne (t : TState) : Option (HandlerId × TState) :=
  match t.notRunning.getLast? with
  | none => none
  | some h => some (h, { t with notRunning := t.notRunning.dropLast, running := t.running ++ [h] })

/-- the inner loop `for identifiers in tagger.yield_…(state): pop, append, dictionary[handler] = identifiers`;
`none` = `TagActivatorError` -/
def popMany : TState → List IdTuple → Option (TState × List (HandlerId × IdTuple))
  | t, [] => some (t, [])
  | t, y :: ys =>
    match popOne t with
    | none => none
    | some (h, t') =>
      match popMany t' ys with
      | none => none
      | some (t'', out) => some (t'', (h, y) :: out)

/-- the outer loop `for tagger in self._create_taggers[E]` of `_get_event_handlers_to_run_update`; the result
list is the returned dictionary in insertion order -/
def createLoop (yields : TaggerIdx → List IdTuple) : Act → List TaggerIdx → Option (Act × List (HandlerId × IdTuple))
  | s, [] => some (s, [])
  | s, T :: Ts =>
    match popMany (getT s T) (yieldEff (getT s T) (yields T)) with
    | none => none
    | some (t', out) =>
      match createLoop yields (s.set T t') Ts with
      | none => none
      | some (s', out') => some (s', out ++ out')

/-- `TagActivator._get_event_handlers_to_run_update(state, preceding)` with `E` the tagger of the preceding
handler: activate, deactivate, (internal states are updated: not part of the bookkeeping), create.
`none` = `TagActivatorError` (a create demands a handler while the not-running list is empty). -/
def update (w : Wires) (s : Act) (E : TaggerIdx) (yields : TaggerIdx → List IdTuple) :
    Option (Act × List (HandlerId × IdTuple)) :=
  createLoop yields (applyActivation w s E) (getW w E).creates

/-- the first `TagActivator.get_event_handlers_to_run(state, None)`: activate/deactivate lists of the
start-of-run tagger `S`, then one handler per identifier tuple yielded by `S` itself -/
def first (w : Wires) (s : Act) (S : TaggerIdx) (yields : TaggerIdx → List IdTuple) :
    Option (Act × List (HandlerId × IdTuple)) :=
  createLoop yields (applyActivation w s S) [S]

/-- the loop of `get_trashable_events`: `trashable += running[T]; notRunning[T] += running[T]; running[T] = []` -/
def trashLoop : Act → List TaggerIdx → Act × List HandlerId
  | s, [] => (s, [])
  | s, T :: Ts =>
    let t := getT s T
    let r := trashLoop (s.set T { t with notRunning := t.notRunning ++ t.running, running := [] }) Ts
    (r.1, t.running ++ r.2)

/-- `get_trashable_events` without the final assertion -/
def trash (w : Wires) (s : Act) (E : TaggerIdx) : Act × List HandlerId := trashLoop s (getW w E).trashes

/-- `self._event_handler_tagger_dictionary[handler]`: the tagger owning handler `h` (`none` = `KeyError`) -/
def owner (w : Wires) (h : HandlerId) : Option TaggerIdx :=
  let i := w.findIdx (fun t => t.pool.contains h)
  if i < w.length then some i else none

/-! ### the activator object as the mediator sees it -/

structure ActSt where
  /-- `get_event_handlers_to_run` has been rebound to `_get_event_handlers_to_run_update` -/
  started : Bool
  ts : Act
deriving Repr

inductive RunOut where
  | ok (created : List (HandlerId × IdTuple))
  | tagActivatorError
  | assertionError
  | keyError
deriving Repr, DecidableEq

def init (w : Wires) : ActSt := ⟨false, initAct w⟩

/-- `activator.get_event_handlers_to_run(state, preceding_event_handler)`; `S` = tagger of the one and only
`StartOfRunEventHandler` instance (found in `initialize`) -/
def getToRun (w : Wires) (S : TaggerIdx) (a : ActSt) (preceding : Option HandlerId)
    (yields : TaggerIdx → List IdTuple) : ActSt × RunOut :=
  if !a.started then
    match preceding with
    | some _ => (a, .assertionError)                      -- `assert preceding_event_handler is None`
    | none =>
      match first w a.ts S yields with
      | none => (a, .tagActivatorError)
      | some (s', out) => (⟨true, s'⟩, .ok out)
  else
    match preceding.bind (owner w) with
    | none => (a, .keyError)
    | some E =>
      match update w a.ts E yields with
      | none => (a, .tagActivatorError)
      | some (s', out) => (⟨true, s'⟩, .ok out)

inductive TrashOut where
  | ok (trashed : List HandlerId)
  | assertionError
  | keyError
deriving Repr, DecidableEq

/-- `activator.get_trashable_events(preceding_event_handler)` incl. `assert preceding in trashable_events`
(the state change happens before the assertion) -/
def getTrashable (w : Wires) (a : ActSt) (h : HandlerId) : ActSt × TrashOut :=
  match owner w h with
  | none => (a, .keyError)
  | some E =>
    let r := trash w a.ts E
    ({ a with ts := r.1 }, if r.2.contains h then .ok r.2 else .assertionError)

end JF.Act
