import JF.Num.Ops
import JF.Model.Time
import JF.Model.Kinematics
/-
Two-level tree model: composite objects (root units) with `n` point masses (leaf units), and what every
kind of committed event does to positions, velocities and time stamps of roots AND leaves.

Sources (jellyfysh/event_handler):
* `abstracts/abstracts.py`
    `LeavesEventHandler._register_velocity_change_leaf_cnode`   -> `register`, `scale1` (the in-place scaling of the
                                                                    passed list by the parent weight),
    `_commit_non_leaf_velocity_changes` / `_commit_sub_tree_non_leaf_velocity_change` -> `commitRoot`,
    `SingleActiveLeafUnitEventHandler._exchange_velocity`       -> `exchange`,
    `BasicEventHandler._time_slice_all_units_in_state`          -> `sliceAt` / `sliceComp`;
* `abstracts/composite_objects.py: CompositeObjectsLifting._pass_composite_object_velocity` -> `pass`;
* `abstracts/end_of_chain_event_handler.py: EndOfChainEventHandler.send_out_state` -> `eocLeaf`, `eocRoot`;
* `root_leaf_unit_active_switcher.py: _send_out_state_leaf_unit_active / _send_out_state_root_unit_active`
                                                                 -> `toLeaf`, `toRoot`;
* `initial_chain_start_of_run_event_handler.py: send_out_state`  -> `start`;
* `cell_boundary_event_handler.py: send_out_state`               -> `snap`;
* `base/node.py: Node.weight` (`1 / len(self.parent.children)`, `1` for a node without parent) -> `weight`, `one`.

Every event handler performs a sequence of "set velocity and time stamp of a leaf unit + register its velocity
change" steps followed by one commit per root.  The model therefore has ONE generic machine (`Upd`, `applyUpds`)
and one small generator of the update list per event kind, written after the loop of the corresponding method.

Branches.  The code hands *branches* to the event handlers (a root with only some of its children, the root copied
once per branch, the ORIGINAL weights kept: `Node(unit, old_node.weight)` in `tree_state_handler.py`).  The model
always works on the full composite object; a leaf that is absent from the branch is at rest in every reachable
state (only the single active leaf, or all leaves of the active composite object move), and time-slicing a unit
at rest does nothing, so both views agree.  The correspondence run checks this condition on every recorded event.
Several copies of one root in one out-state are treated identically by the code with one exception, see `eocLeaf`.

Physics and random choices (which leaf / composite object receives the velocity, the new velocity after an end of
chain, accept/reject, the leaf chosen by the switcher) are parameters of the events.  The test
`all(abs(component) < 1.0e-13 …)` is the parameter `small` (binary64 reading: `smallThr o thr` with the literal
1.0e-13; exact reading of the theorems: `· == 0`).
-/
namespace JF

/-- a composite object: the root unit and its point masses (index in the list = last entry of the identifier) -/
structure CObj (α : Type) where
  root : PUnit α
  leaves : List (PUnit α)

namespace Composite
variable {α : Type} [Add α] [Sub α] [Mul α] [Div α] [Neg α] [LT α] [DecidableLT α] [BEq α]

/-- `[component * weight for component in v]` -/
def vscale (v : List α) (w : α) : List α := v.map (· * w)
/-- `for d in range(dimension): a[d] += b[d]` -/
def vadd (a b : List α) : List α := List.zipWith (· + ·) a b
/-- `[-component for component in v]` -/
def vneg (v : List α) : List α := v.map (fun c => -c)

/-- weight of the root node (`Node.weight` of a node without parent: the integer `1`) -/
def one (o : Ops α) : α := o.ofInt 1
/-- the in-place scaling `leaf_velocity_change[d] *= parent_cnode.weight` of the list that was passed to
`_register_velocity_change_leaf_cnode` (one ancestor in a two-level tree: the root, weight 1) -/
def scale1 (o : Ops α) (v : List α) : List α := vscale v (one o)
/-- the list after it was passed `k` times -/
def scaleN (o : Ops α) : Nat → List α → List α
  | 0, v => v
  | k + 1, v => scaleN o k (scale1 o v)

/-- weight of a leaf: `1 / len(self.parent.children)` -/
def weight (o : Ops α) (c : CObj α) : α := o.ofInt 1 / o.ofInt c.leaves.length

/-- `abs(component) < 1.0e-13` -/
def smallThr (o : Ops α) (thr : α) (x : α) : Bool := decide ((if x < o.ofInt 0 then -x else x) < thr)

/-- one "set the leaf + register its velocity change" step of an event handler -/
structure Upd (α : Type) where
  /-- index of the leaf in its composite object -/
  leaf : Nat
  /-- new velocity and time stamp of the leaf -/
  vel : Option (List α)
  ts : Option (Time α)
  /-- the list handed to `_register_velocity_change_leaf_cnode` (`none`: nothing is registered for this leaf) -/
  dv : Option (List α)

/-- `_register_velocity_change_leaf_cnode`, dictionary entry of the parent:
`try: entry[d] += velocity_change[d]  except KeyError: entry = velocity_change.copy()` -/
def register (pend : Option (List α)) (change : List α) : Option (List α) :=
  match pend with
  | none => some change
  | some p => some (vadd p change)

/-- `_commit_sub_tree_non_leaf_velocity_change` for the root unit -/
def commitRoot (o : Ops α) (small : α → Bool) (L : List α) (t : Time α) (pend : Option (List α)) (r : PUnit α) : PUnit α :=
  match pend with
  | none => r
  | some ch =>
    match r.vel with
    | none => { r with vel := some ch, ts := some t }
    | some v =>
      let r' := Kin.timeSlice o L t r
      let v' := vadd v ch
      if v'.all small then { r' with vel := none, ts := none } else { r' with vel := some v' }

/-- pending velocity change of the root collected from the registered leaf changes (in the order of the calls) -/
def pendFrom (w : α) (p : Option (List α)) (ups : List (Upd α)) : Option (List α) :=
  ups.foldl (fun p u => match u.dv with | none => p | some dv => register p (vscale dv w)) p

def pendOf (w : α) (ups : List (Upd α)) : Option (List α) := pendFrom w none ups

def setLeaves (ls : List (PUnit α)) (ups : List (Upd α)) : List (PUnit α) :=
  ups.foldl (fun ls u => ls.modify u.leaf (fun l => { l with vel := u.vel, ts := u.ts })) ls

/-- apply the leaf updates of one event to one composite object and commit the change of its root -/
def applyUpds (o : Ops α) (small : α → Bool) (L : List α) (t : Time α) (ups : List (Upd α)) (c : CObj α) : CObj α :=
  { root := commitRoot o small L t (pendOf (weight o c) ups) c.root
    leaves := setLeaves c.leaves ups }

/-- `_time_slice_subtree_units` of the branch of one composite object -/
def sliceComp (o : Ops α) (L : List α) (t : Time α) (c : CObj α) : CObj α :=
  { root := Kin.timeSlice o L t c.root, leaves := c.leaves.map (Kin.timeSlice o L t) }

/-- `_time_slice_all_units_in_state`: the composite objects `S` of the in-state -/
def sliceAt (o : Ops α) (L : List α) (t : Time α) (S : List Nat) (cs : List (CObj α)) : List (CObj α) :=
  S.foldl (fun cs i => cs.modify i (sliceComp o L t)) cs

def leafOf (cs : List (CObj α)) (i j : Nat) : Option (PUnit α) :=
  match cs[i]? with
  | none => none
  | some c => c.leaves[j]?

/-- apply update lists to the composite objects `i` and `i'` (one dictionary entry if they coincide: the entries
of `i` were registered first) -/
def apply2 (o : Ops α) (small : α → Bool) (L : List α) (t : Time α) (i : Nat) (ui : List (Upd α)) (i' : Nat)
    (ui' : List (Upd α)) (cs : List (CObj α)) : List (CObj α) :=
  if i == i' then cs.modify i (applyUpds o small L t (ui ++ ui'))
  else (cs.modify i (applyUpds o small L t ui)).modify i' (applyUpds o small L t ui')

/-- the leaf loop at the end of `EndOfChainEventHandler.send_out_state`:
`if all(abs(c) < 1.0e-13 for c in leaf_unit.velocity): velocity = None; time_stamp = None` -/
def finalize (small : α → Bool) (j : Nat) (v : List α) (ts : Option (Time α)) (dv : List α) : Upd α :=
  if v.all small then ⟨j, none, none, some dv⟩ else ⟨j, some v, ts, some dv⟩

/-- `[0.0 for _ in range(dimension)]` -/
def zeros (o : Ops α) (v : List α) : List α := v.map (fun _ => o.ofInt 0)

/-! ### events -/

inductive Ev (α : Type) where
  /-- sampling, end of run, rejected (thinned) events: the in-state `S` is time-sliced, nothing else -/
  | keep (t : Time α) (S : List Nat)
  /-- cell-boundary event: time-slice, then coordinate `d` of the unit on the cell level (root `i`, or its leaf `j`)
      is set to the boundary `x` -/
  | snap (t : Time α) (S : List Nat) (i : Nat) (j : Option Nat) (d : Nat) (x : α)
  /-- `_exchange_velocity` from leaf `(i, j)` to leaf `(i', j')` after time-slicing the in-state `S` -/
  | exchange (t : Time α) (S : List Nat) (i j i' j' : Nat)
  /-- `_pass_composite_object_velocity` from composite object `iL` to `iT` -/
  | pass (t : Time α) (S : List Nat) (iL iT : Nat)
  /-- end of chain while a single leaf `(i, j)` is active; leaf `(i', j')` moves on with velocity `vn` -/
  | eocLeaf (t : Time α) (i j i' j' : Nat) (vn : List α)
  /-- end of chain while the composite object `i` is active; `i'` moves on with velocity `vn` -/
  | eocRoot (t : Time α) (i i' : Nat) (vn : List α)
  /-- switcher, aim mode `leaf_unit_active`: of the moving composite object `i` only leaf `c` keeps moving -/
  | toLeaf (t : Time α) (i c : Nat)
  /-- switcher, aim mode `root_unit_active`: all leaves of composite object `i` take the velocity of its active leaf -/
  | toRoot (t : Time α) (i : Nat)
  /-- start of run (event time `Time(0.0, 0.0)`): the leaves `P` of composite object `i` start with velocity `v` -/
  | start (i : Nat) (P : List Nat) (v : List α)

variable (o : Ops α) (small : α → Bool) (L : List α)

def exchange (t : Time α) (S : List Nat) (i j i' j' : Nat) (cs : List (CObj α)) : List (CObj α) :=
  let sl := sliceAt o L t S cs
  match leafOf sl i j with
  | none => sl
  | some a =>
    match a.vel with
    | none => sl      -- `assert active_unit.velocity is not None`
    | some v =>
      -- register(active, [-c for c in v]); register(target, v) scales `v` in place; target takes that list object
      apply2 o small L t i [⟨j, none, none, some (vneg v)⟩] i' [⟨j', some (scale1 o v), a.ts, some v⟩] sl

/-- updates of the composite object that loses its velocity in `_pass_composite_object_velocity`:
leaf `k` is registered with `negative_velocity` after that list was passed `k` times -/
def passLocalUpds (v : List α) (n : Nat) : List (Upd α) :=
  (List.range n).map (fun k => ⟨k, none, none, some (scaleN o k (vneg v))⟩)

/-- updates of the composite object that receives the velocity -/
def passTargetUpds (t : Time α) (v : List α) (n : Nat) : List (Upd α) :=
  (List.range n).map (fun k => ⟨k, some (scaleN o k v), some t, some (scaleN o k v)⟩)

def pass (t : Time α) (S : List Nat) (iL iT : Nat) (cs : List (CObj α)) : List (CObj α) :=
  let sl := sliceAt o L t S cs
  match leafOf sl iL 0, sl[iL]?, sl[iT]? with
  | some a, some cL, some cT =>
    match a.vel with
    | none => sl
    | some v =>
      if iL == iT then sl else
      (sl.modify iL (applyUpds o small L t (passLocalUpds o v cL.leaves.length))).modify iT
        (applyUpds o small L t (passTargetUpds o t v cT.leaves.length))
  | _, _, _ => sl

def eocLeaf (t : Time α) (i j i' j' : Nat) (vn : List α) (cs : List (CObj α)) : List (CObj α) :=
  let sl := sliceAt o L t [i] cs
  match leafOf sl i j, cs[i]? with
  | some a, some c0 =>
    match a.vel with
    | none => sl
    | some old =>
      if i == i' then
        if j == j' then
          -- the new active unit is the old one: change = -old + new, the unit keeps its (time-sliced) time stamp
          sl.modify i (applyUpds o small L t [finalize small j vn a.ts (vadd (vneg old) vn)])
        else
          -- another leaf of the same composite object: the out-state holds two copies of the root; the copy in
          -- the branch of the new leaf is the later one (it wins in `insert_into_global_state`) and was NOT
          -- time-sliced by `_time_slice_all_units_in_state`, only by the commit
          sl.modify i (fun c => applyUpds o small L t
            [finalize small j (zeros o old) none (vneg old), finalize small j' vn (some t) vn] { c with root := c0.root })
      else
        (sl.modify i (applyUpds o small L t [finalize small j (zeros o old) none (vneg old)])).modify i'
          (applyUpds o small L t [finalize small j' vn (some t) vn])
  | _, _ => sl

def eocRoot (t : Time α) (i i' : Nat) (vn : List α) (cs : List (CObj α)) : List (CObj α) :=
  let sl := sliceAt o L t [i] cs
  match leafOf sl i 0, sl[i]?, sl[i']? with
  | some a, some c, some c' =>
    match a.vel with
    | none => sl
    | some old =>
      if i == i' then
        sl.modify i (applyUpds o small L t
          ((List.range c.leaves.length).map (fun k =>
            finalize small k vn ((c.leaves[k]?).bind (·.ts)) (vadd (vneg old) vn))))
      else
        (sl.modify i (applyUpds o small L t
          ((List.range c.leaves.length).map (fun k => finalize small k (zeros o old) none (vneg old))))).modify i'
          (applyUpds o small L t ((List.range c'.leaves.length).map (fun k => finalize small k vn (some t) vn)))
  | _, _, _ => sl

def toLeaf (t : Time α) (i c : Nat) (cs : List (CObj α)) : List (CObj α) :=
  let sl := sliceAt o L t [i] cs
  match leafOf sl i 0, sl[i]? with
  | some a, some co =>
    match a.vel with
    | none => sl
    | some v =>
      -- one list `velocity_change`, passed once per leaf that stops
      let ks := (List.range co.leaves.length).filter (· != c)
      sl.modify i (applyUpds o small L t
        (ks.zipIdx.map (fun (k, m) => ⟨k, none, none, some (scaleN o m (vneg v))⟩)))
  | _, _ => sl

/-- index of the first moving leaf -/
def activeLeaf (c : CObj α) : Option Nat := c.leaves.findIdx? Kin.isMoving

def toRoot (t : Time α) (i : Nat) (cs : List (CObj α)) : List (CObj α) :=
  let sl := sliceAt o L t [i] cs
  match sl[i]? with
  | none => sl
  | some co =>
    match activeLeaf co with
    | none => sl
    | some a =>
      match co.leaves[a]? with
      | none => sl
      | some ua =>
        match ua.vel with
        | none => sl
        | some v =>
          -- the active leaf's own list is passed once per other leaf (and scaled in place each time)
          let ks := (List.range co.leaves.length).filter (· != a)
          let ups : List (Upd α) := ks.zipIdx.map (fun (k, m) => ⟨k, some (scaleN o m v), ua.ts, some (scaleN o m v)⟩)
          sl.modify i (applyUpds o small L t (ups ++ [⟨a, some (scaleN o ks.length v), ua.ts, none⟩]))

def start (i : Nat) (P : List Nat) (v : List α) (cs : List (CObj α)) : List (CObj α) :=
  let t0 : Time α := ⟨o.ofInt 0, o.ofInt 0⟩
  cs.modify i (applyUpds o small L t0
    (P.zipIdx.map (fun (k, m) => ⟨k, some (scaleN o m v), some t0, some (scaleN o m v)⟩)))

def snap (t : Time α) (S : List Nat) (i : Nat) (j : Option Nat) (d : Nat) (x : α) (cs : List (CObj α)) : List (CObj α) :=
  let sl := sliceAt o L t S cs
  sl.modify i (fun c =>
    match j with
    | none => { c with root := { c.root with pos := Kin.setCoord c.root.pos d x } }
    | some j => { c with leaves := c.leaves.modify j (fun l => { l with pos := Kin.setCoord l.pos d x }) })

/-- one committed event applied to the global state (list index = identifier of the root node) -/
def step (cs : List (CObj α)) : Ev α → List (CObj α)
  | .keep t S => sliceAt o L t S cs
  | .snap t S i j d x => snap o L t S i j d x cs
  | .exchange t S i j i' j' => exchange o small L t S i j i' j' cs
  | .pass t S iL iT => pass o small L t S iL iT cs
  | .eocLeaf t i j i' j' vn => eocLeaf o small L t i j i' j' vn cs
  | .eocRoot t i i' vn => eocRoot o small L t i i' vn cs
  | .toLeaf t i c => toLeaf o small L t i c cs
  | .toRoot t i => toRoot o small L t i cs
  | .start i P v => start o small L i P v cs

def run (cs : List (CObj α)) (es : List (Ev α)) : List (CObj α) := es.foldl (step o small L) cs

/-! ### geometry of the random node creators
`input_output_handler/input_handler/random_node_creator/{dipole,water}_random_node_creator.py`:
`fill_root_node` stores the random centre as the position of the root node and the positions below (one coordinate
each; `correct_position` is `JF.pywrap`, i.e. `r = x % L; r if r != L else 0.0`, per entry) as its leaves. -/

/-- `DipoleRandomNodeCreator._create_random_dipole`, coordinate `d` of `position_one` and `position_two`:
`center[d] ± random_direction[d] * dipole_separation`, corrected -/
def dipoleCoord (l c dir s : α) : α × α :=
  (pywrap o (c + dir * s) l, pywrap o (c - dir * s) l)

/-- `WaterRandomNodeCreator._create_random_water_molecule`, coordinate `d` of (hydrogen one, oxygen, hydrogen two):
`current_center_component = (oh_vector_one[d] + oh_vector_two[d]) / 3`, `oxygen = center[d] - current_center_component`,
`hydrogen_k = oxygen + oh_vector_k[d]`, each corrected -/
def waterCoord (l c a b : α) : α × α × α :=
  let cc := (a + b) / o.ofInt 3
  let ox := c - cc
  (pywrap o (ox + a) l, pywrap o ox l, pywrap o (ox + b) l)

def dipoleLeaves : List α → List α → List α → α → List α × List α
  | l :: L, c :: C, d :: D, s =>
    let (p, q) := dipoleCoord o l c d s
    let (P, Q) := dipoleLeaves L C D s
    (p :: P, q :: Q)
  | _, _, _, _ => ([], [])

def waterLeaves : List α → List α → List α → List α → List α × List α × List α
  | l :: L, c :: C, a :: A, b :: B =>
    let (h1, ox, h2) := waterCoord o l c a b
    let (H1, OX, H2) := waterLeaves L C A B
    (h1 :: H1, ox :: OX, h2 :: H2)
  | _, _, _, _ => ([], [], [])

end Composite
end JF
