import JF.Model.ConcreteWorld
import JF.Model.ConcreteWorld2
import JF.Model.Occupancy
import JF.Model.CellTaggers
/-
A third *concrete world* for the activator link of C09/C08 (`JF.Act.World`, `JF.Act.FootprintsSound`): two-level trees (COMPOSITE
OBJECTS) WITH cell-occupancy systems — the shipped configurations

* `dipoles/cell_bounded.ini`, `dipoles/cell_veto.ini`            — ONE `SingleActiveCellOccupancy`, `cell_level = 1` (the composite
                                                                     objects are stored; cell-bounding resp. cell-veto + excluded + surplus),
* `water/coulomb_cell_veto_lj_inverted.ini`                      — one occupancy, `cell_level = 1`,
* `water/coulomb_power_bounded_lj_cell_bounded.ini`              — one occupancy, `cell_level = 2`, `charge = oxygen_indicator`
                                                                     (only the oxygens are stored; a hydrogen is an irrelevant active unit),
* `water/coulomb_cell_veto_lj_cell_veto.ini`                     — TWO occupancies: `oxygen_cell` (level 2, charge) and `molecule_cell`
                                                                     (level 1), each with its own cell-boundary, excluded, surplus, cell-veto tagger,
* `hard_disk_dipoles/hard_disk_dipoles_cells.ini`                — one occupancy, `cell_level = 2`, no charge.
All of them run in leaf mode only (no mode switcher); the world nevertheless keeps E10's ghost mode.

It is E10's world (`JF/Model/ConcreteWorld2.lean`: `flags`, `branches`, `yieldF`) × one `Occ.State` of C11's model
(`JF/Model/Occupancy.lean`) per internal state of the activator, read by the cell taggers of C10's model (`JF/Model/CellTaggers.lean`).

Sources modelled here:
* `TagActivator._get_event_handlers_to_run_update` (`activator/tag_activator.py`): after EVERY commit
  `for internal_state in self._internal_states: internal_state.update(extracted_active_global_state)` -> `occAfter` per label;
* `SingleActiveCellOccupancy.update` (`activator/internal_state/single_active_cell_occupancy.py`):
  `active_units_on_cell_level = [cnode.value for root_cnode in extracted_active_global_state for cnode in
   yield_nodes_on_level_below(root_cnode, self.cell_level - 1)]; assert len(active_units_on_cell_level) == 1` -> `unitsOn`
  (level 1: the root unit of every active branch; level 2: the children of every active branch), then `Occ.update` with
  `position_to_cell(new_active_unit.position)` (`OccEnv.cellOf` of `posOn`) and `_is_relevant_unit` (`OccEnv.relevant`);
* the five cell taggers (`activator/tagger/{cell_boundary, cell_veto, cell_bounding_potential, excluded_cells, surplus_cells}_tagger.py`)
  on the internal state named by their `internal_state_label` -> `yieldCls3`.

Identifiers stored in an occupancy are encoded as natural numbers: `(i,)` ↦ `i` on level 1, `(i, j)` ↦ `i * nPer + j` on level 2
(`identOf` decodes).  Scalar type generic; core Lean only.
-/
namespace JF.CW3
open JF JF.Act

/-- what does not change during a run, per internal state (`SingleActiveCellOccupancy`) -/
structure OccEnv (α : Type) where
  /-- `cell_level` (1: composite objects, 2: point masses) -/
  level : Nat
  /-- the cell system of the occupancy -/
  grid : CellTaggers.Grid
  /-- `cells.position_to_cell(position)` as the index of the cell in `yield_cells()` order -/
  cellOf : List α → Nat
  /-- `_is_relevant_unit` of the unit with this (encoded) identifier -/
  relevant : Nat → Bool

/-- what does not change during a run -/
structure Env (α : Type) where
  base : CW2.Env α
  /-- one entry per internal state, in the order of the `internal_states` option (= `Wiring.labels`) -/
  occs : List (OccEnv α)

section
variable {α : Type}

def OccEnv.default : OccEnv α := ⟨1, ⟨[], 0⟩, fun _ => 0, fun _ => true⟩

def Env.oe (env : Env α) (l : Nat) : OccEnv α := (env.occs[l]?).getD OccEnv.default

/-- the occupancy of internal state `l` (an empty one if the list is too short) -/
def getOcc (occs : List Occ.State) (l : Nat) : Occ.State := (occs[l]?).getD (Occ.State.empty 0)

/-- the (encoded) identifiers of `active_units_on_cell_level` -/
def unitsOn (nPer lvl : Nat) (fl : CW2.Flags) : List Nat :=
  if lvl == 1 then (CW2.branches nPer fl).map (·.root)
  else (CW2.branches nPer fl).flatMap fun b => b.children.map fun j => b.root * nPer + j

/-- the global-state identifier behind an encoded one -/
def identOf (nPer lvl : Nat) (u : Nat) : CellTaggers.Ident :=
  if lvl == 1 then [u] else [u / nPer, u % nPer]

/-- `unit.position` of the unit on the cell level -/
def posOn (nPer lvl : Nat) (cs : List (CObj α)) (u : Nat) : List α :=
  if lvl == 1 then ((cs[u]?).map (·.root.pos)).getD []
  else (((cs[u / nPer]?).bind (·.leaves[u % nPer]?)).map (·.pos)).getD []

/-- the active unit as `SingleActiveCellOccupancy.update` sees it -/
def unitIn (nPer : Nat) (oe : OccEnv α) (cs : List (CObj α)) (a : Nat) : Occ.UnitIn :=
  ⟨a, oe.relevant a, oe.cellOf (posOn nPer oe.level cs a)⟩

/-- `internal_state.update(extracted_active_global_state)` of ONE internal state on the global state after the commit;
`none` = `assert len(active_units_on_cell_level) == 1` fails or `update` raises -/
def occAfter (nPer : Nat) (oe : OccEnv α) (occ : Occ.State) (cs' : List (CObj α)) : Option Occ.State :=
  match unitsOn nPer oe.level (CW2.flags cs') with
  | [a] =>
    match Occ.update occ (unitIn nPer oe cs' a) with
    | .ok s => some s
    | .error _ => none
  | _ => none

/-- **the history premise of C11** for internal state `oe` and the state after the commit: the active unit on the cell level — as
the commit left it — is still in the cell the occupancy has recorded for it -/
def StaysInRecordedCell (nPer : Nat) (oe : OccEnv α) (occ : Occ.State) (cs' : List (CObj α)) : Prop :=
  ∀ a, unitsOn nPer oe.level (CW2.flags cs') = [a] → oe.relevant a = true → occ.activeCell = some (unitIn nPer oe cs' a).cell

/-! ### what the cell taggers see -/

/-- the occupancy as the cell taggers read it (`__getitem__`, `_surplus`, `yield_active_cells`) -/
def tocc (nPer : Nat) (oe : OccEnv α) (s : Occ.State) : CellTaggers.Occ :=
  { occ := fun c => (s.occupants (CW.cellIdx oe.grid c)).map (identOf nPer oe.level)
    surplus := s.surplus.map fun e => (CW.cellAt oe.grid e.1, e.2.map (identOf nPer oe.level))
    active := match s.activeCell, s.activeId with
      | some c, some a => some (CW.cellAt oe.grid c, identOf nPer oe.level a)
      | _, _ => none }

def isCellCls : TaggerClass → Bool
  | .cellBoundary | .cellVeto | .cellBounding | .excludedCells | .surplusCells => true
  | _ => false

/-- classes whose yield reads the cell lists of the occupancy -/
def cellReading : TaggerClass → Bool
  | .excludedCells | .cellBounding | .surplusCells => true
  | _ => false

/-- `yield_identifiers_send_event_time` of an activated cell tagger on its internal state -/
def yieldCell (nPer : Nat) (oe : OccEnv α) (cls : TaggerClass) (s : Occ.State) : List IdTuple :=
  match cls with
  | .cellBoundary | .cellVeto => CW.wrapIds (CellTaggers.cellVetoTagger (tocc nPer oe s))
  | .cellBounding => CW.wrapIds (CellTaggers.cellBoundingTagger oe.grid (tocc nPer oe s))
  | .excludedCells => CW.wrapIds (CellTaggers.excludedCellsTagger oe.grid (tocc nPer oe s))
  | .surplusCells => CW.wrapIds (CellTaggers.surplusCellsTagger (tocc nPer oe s))
  | _ => []

/-- `tagger.yield_identifiers_send_event_time(extracted_active_global_state)` of an ACTIVATED tagger with index `T`, class `cls`
and internal-state label `label`: E10's yield for the four classes without internal state, the cell tagger on ITS occupancy otherwise -/
def yieldCls3 (env : Env α) (T : TaggerIdx) (cls : TaggerClass) (label : Option Nat) (cs : List (CObj α))
    (occs : List Occ.State) : List IdTuple :=
  if isCellCls cls then
    match label with
    | some l => yieldCell env.base.nPer (env.oe l) cls (getOcc occs l)
    | none => []
  else CW2.yieldCls env.base T cls cs

end

/-! ### consistency of a carried occupancy with the active units -/

/-- `_active_unit_identifier` the occupancy must hold for these active units on its cell level -/
def expectedActive (rel : Nat → Bool) : List Nat → Option Nat
  | [a] => if rel a then some a else none
  | _ => none

/-- the occupancy's active unit is the active unit on the cell level (if relevant), and `_active_cell` is set iff the identifier is -/
def ConsistentOcc (rel : Nat → Bool) (acts : List Nat) (occ : Occ.State) : Prop :=
  occ.activeId = expectedActive rel acts ∧ occ.activeCell.isSome = occ.activeId.isSome

instance (rel : Nat → Bool) (acts : List Nat) (occ : Occ.State) : Decidable (ConsistentOcc rel acts occ) := by
  unfold ConsistentOcc; infer_instance

/-! ### which wirings live in this world -/

def clsOK : TaggerClass → Bool
  | .unknown => false
  | _ => true

def hmOK : HMode → Bool
  | .unknown => false
  | _ => true

/-- one tagger: a class of this world; the cell taggers and the cell-boundary handler name an internal state of the wiring -/
def okT (nLabels : Nat) (t : TaggerW) : Bool :=
  clsOK t.cls
  && (!(isCellCls t.cls) || (match t.label with | some l => decide (l < nLabels) | none => false))
  && (!(t.kind == .cellBoundary) || (match t.label with | some l => decide (l < nLabels) | none => false))

/-- the decidable side condition of `footprintsSound_concrete3`: only tagger classes of this world, every handler class is one the
translator could classify, the two readings of the handler class (`TaggerW.kind` for the footprint tables, `HMode` for the transition
relation) agree, and every cell tagger / cell-boundary handler names one of the internal states.  ANY number of internal states.
It is a condition on the WIRING only: that the configuration is a two-level system is the modelling assumption of the world
(`harness/fpcorr3.py` judges only traces with two node levels). -/
def Supported3 (mw : ModeWiring) : Bool :=
  mw.hm.length == mw.w.n
  && mw.w.taggers.all (okT mw.w.labels.length)
  && (List.range mw.w.n).all fun T => hmOK (mw.hmode T) && kindAgrees (mw.w.tagger T).kind (mw.hmode T)

end JF.CW3
