import JF.Model.SystemRun2
import JF.Model.SystemRun3
/-
Stage 2 of E22 at the level of the composed MEDIATOR LOOP (E41), executable side: the state of the composed system for COMPOSITE
OBJECTS WITH CELL SYSTEMS between two passes of the loop body of `SingleProcessMediator.run` (`Sys3`: E16's `Sys2` without the ghost
mode bookkeeping — the wirings are `LeafOnly` — plus one carried `SingleActiveCellOccupancy` per internal state, as E9's `Sys` has
one), and the decidable side condition `cbWired3` (E9's `cbWired`, once per internal state).  Core Lean only.
-/
namespace JF.Sys3L
open JF JF.Act JF.Heap JF.Sched JF.Med JF.Sys

/-- the composed system between two legs -/
structure Sys3 where
  /-- activator bookkeeping, scheduler, `_event_handler_with_shortest_event_time` -/
  med : MedState (SSched XTime)
  /-- the global state of composite objects (after the last commit) -/
  cs : List (CObj Rat)
  /-- the activator's internal states as of their last `update` (in the middle of the last leg, on `csPrev`; they are updated at the
  beginning of the next leg) -/
  occs : List Occ.State
  /-- ghost: the in-state identifiers the activator handed out with each handler -/
  ids : HandlerId → IdTuple
  /-- ghost: the global state before the last commit (the state the last leg's candidates were computed on) -/
  csPrev : List (CObj Rat)
  /-- ghost: the activator's lists in the middle of the last leg (after `get_event_handlers_to_run`, before the trash) -/
  mid : Act

/-- `B` is a tagger whose handler is the `CellBoundaryEventHandler` of internal state `l` -/
def isCBT (c : Wiring) (l : Nat) (B : TaggerIdx) : Bool :=
  (c.tagger B).kind == .cellBoundary && (c.tagger B).label == some l

/-- decidable side condition (E9's `cbWired`, per internal state): every internal state `l` of the wiring has exactly one tagger whose
handler is a cell-boundary handler naming `l`; that tagger has the class `CellBoundaryTagger` and is activated in every reachable
activation state -/
def cbWired3 (c : Wiring) (S : TaggerIdx) : Bool :=
  (List.range c.labels.length).all fun l =>
    (List.range c.n).any fun B =>
      (c.tagger B).cls == .cellBoundary && isCBT c l B &&
      (List.range c.n).all (fun T => T == B || !(isCBT c l T)) &&
      (reach c S).all (fun σ => aGet σ B)

/-- the state before the first leg -/
def Sys3.init (c : Wiring) (cs : List (CObj Rat)) (occs : List Occ.State) : Sys3 :=
  ⟨MedState.init (specI xcfg) c.wires, cs, occs, fun _ => none, cs, initAct c.wires⟩

end JF.Sys3L
