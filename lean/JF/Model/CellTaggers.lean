/-
Model of the cell-based event families (property C10, first half).

Sources modelled (all under /repo/jellyfysh):
* `activator/internal_state/cell_occupancy/cells/cuboid_cells.py`  `CuboidCells.__init__` (cell order),
* `.../cuboid_periodic_cells.py`  `_yield_nearby_cells`, `zero_cell`, `translate`, `relative_cell`
  (the latter two in their *integer-torus reading*: the code goes through cell centres and
  `position_to_cell`; that this float detour equals the integer arithmetic below is checked by the
  correspondence run on every pair of cells of every generated grid),
* `activator/tagger/cell_veto_tagger.py`, `cell_bounding_potential_tagger.py`,
  `excluded_cells_tagger.py`, `surplus_cells_tagger.py`  `yield_identifiers_send_event_time`,
* `event_handler/abstracts/cell_veto_event_handler.py`  `initialize` (walker domain) and the target
  cell computed in `send_event_time`,
* `mediator/mediator.py`  `Mediator.get_arguments_cell_veto_event_handler`.

The occupancy (`SingleActiveCellOccupancy`) enters as *data*: `occ` = `__getitem__`, `surplus` =
the values of `_surplus` in dictionary order, `active` = what `yield_active_cells` yields.

Pure integer / list logic: no scalar type, no Mathlib.
-/
namespace JF.CellTaggers

/-- identifier tuple of a cell (`Cell.identifier`) -/
abbrev Cell := List Nat
/-- global state identifier (`StateId`), a tuple of integers -/
abbrev Ident := List Nat

/-- a cuboid periodic cell system: cells per side in every direction, number of neighbour layers -/
structure Grid where
  n : List Nat
  layers : Nat
deriving Repr

/-- `CuboidCells.__init__`: all cell identifiers in the order of `self._cells`
(first index runs fastest). -/
def allCells : List Nat → List Cell
  | [] => [[]]
  | n :: ns => (allCells ns).flatMap fun t => (List.range n).map (· :: t)

/-- a cell identifier of the grid: right length, every entry below the number of cells per side -/
def Valid : List Nat → Cell → Prop
  | [], [] => True
  | n :: ns, c :: cs => c < n ∧ Valid ns cs
  | _, _ => False

instance : (ns : List Nat) → (c : Cell) → Decidable (Valid ns c)
  | [], [] => isTrue trivial
  | n :: ns, c :: cs =>
      have : Decidable (Valid ns cs) := instDecidableValid ns cs
      inferInstanceAs (Decidable (c < n ∧ Valid ns cs))
  | [], _ :: _ => isFalse (by simp [Valid])
  | _ :: _, [] => isFalse (by simp [Valid])

/-- `zero_cell` = `self._cells[0]` -/
def zeroCell (ns : List Nat) : Cell := ns.map fun _ => 0

/-- one coordinate of `CuboidPeriodicCells._yield_nearby_cells`:
`range(c - ℓ, c + ℓ + 1)` corrected by Python's `% n` (non-negative for `n > 0`). -/
def near1 (n ℓ c : Nat) : List Nat :=
  (List.range (2 * ℓ + 1)).map fun (k : Nat) => (((c : Int) - (ℓ : Int) + (k : Int)) % (n : Int)).toNat

/-- `itertools.product` of the corrected ranges (last index runs fastest) -/
def nearbyProduct (ℓ : Nat) : List Nat → Cell → List Cell
  | n :: ns, c :: cs => (near1 n ℓ c).flatMap fun x => (nearbyProduct ℓ ns cs).map (x :: ·)
  | _, _ => [[]]

/-- Python `set(...)` of a generator: duplicates removed (iteration order of a set is
unspecified; every consumer below is order-independent up to permutation). -/
def dedupe {α : Type} [BEq α] : List α → List α
  | [] => []
  | x :: xs => if xs.contains x then dedupe xs else x :: dedupe xs

/-- `nearby_cells(cell)`: the stored set -/
def nearby (g : Grid) (c : Cell) : List Cell := dedupe (nearbyProduct g.layers g.n c)

/-- `cell in nearby_cells(c)` -/
def isNearby (g : Grid) (c x : Cell) : Bool := (nearby g c).contains x

/-- `translate(cell, relative_cell)` on the integer torus -/
def translate : List Nat → Cell → Cell → Cell
  | n :: ns, c :: cs, r :: rs => ((c + r) % n) :: translate ns cs rs
  | _, _, _ => []

/-- `relative_cell(cell, reference_cell)` on the integer torus -/
def relative : List Nat → Cell → Cell → Cell
  | n :: ns, c :: cs, r :: rs => ((c + (n - r % n)) % n) :: relative ns cs rs
  | _, _, _ => []

/-- the state of a `SingleActiveCellOccupancy` as the taggers see it -/
structure Occ where
  /-- `__getitem__` -/
  occ : Cell → List Ident
  /-- `_surplus` (dictionary: insertion order) -/
  surplus : List (Cell × List Ident)
  /-- `yield_active_cells` yields at most one pair -/
  active : Option (Cell × Ident)

/-- `yield_surplus` -/
def Occ.yieldSurplus (s : Occ) : List Ident := s.surplus.flatMap (·.2)

/-- `CellVetoTagger.yield_identifiers_send_event_time` -/
def cellVetoTagger (s : Occ) : List (List Ident) :=
  match s.active with
  | none => []
  | some (_, a) => [[a]]

/-- `CellBoundingPotentialTagger.yield_identifiers_send_event_time` -/
def cellBoundingTagger (g : Grid) (s : Occ) : List (List Ident) :=
  match s.active with
  | none => []
  | some (ac, a) =>
    ((allCells g.n).filter fun cell => !(s.occ cell).isEmpty && !(isNearby g ac cell)).map
      fun cell => a :: s.occ cell

/-- `ExcludedCellsTagger.yield_identifiers_send_event_time` -/
def excludedCellsTagger (g : Grid) (s : Occ) : List (List Ident) :=
  match s.active with
  | none => []
  | some (ac, a) => (nearby g ac).flatMap fun nc => (s.occ nc).map fun o => [a, o]

/-- `SurplusCellsTagger.yield_identifiers_send_event_time` -/
def surplusCellsTagger (s : Occ) : List (List Ident) :=
  match s.active with
  | none => []
  | some (_, a) => s.yieldSurplus.map fun x => [a, x]

/-- `CellVetoEventHandler.initialize`: the items of every walker, in order: the cells that are not
nearby the zero cell; paired with the key `relative_cell(cell, zero_cell)` under which the
derivative bounds are stored. -/
def vetoDomainKeyed (g : Grid) : List (Cell × Cell) :=
  ((allCells g.n).filter fun cell => !(isNearby g (zeroCell g.n) cell)).map
    fun cell => (cell, relative g.n cell (zeroCell g.n))

/-- the walker items -/
def vetoDomain (g : Grid) : List Cell := (vetoDomainKeyed g).map (·.1)

/-- `Mediator.get_arguments_cell_veto_event_handler`: the identifiers whose branches are passed
to `send_out_state`; `[none]` stands for `(None,)`. -/
def vetoArgs (s : Occ) (cell : Cell) : List (Option Ident) :=
  if (s.occ cell).isEmpty then [none] else (s.occ cell).map some

/-- for every cell the walker can sample: the target cell of `send_event_time`
(`translate(active_cell, relative_cell)`) and the arguments the mediator then hands over -/
def vetoTargets (g : Grid) (s : Occ) : List (Cell × List (Option Ident)) :=
  match s.active with
  | none => []
  | some (ac, _) => (vetoDomain g).map fun r =>
      let t := translate g.n ac r
      (t, vetoArgs s t)

/-! ### the units treated by each family -/

/-- units that can become the target of a cell-veto event of the active unit -/
def targetsVeto (g : Grid) (s : Occ) : List Ident :=
  (vetoTargets g s).flatMap fun p => p.2.filterMap id

/-- units that appear as targets of the cell-bounding in-states -/
def targetsBounding (g : Grid) (s : Occ) : List Ident :=
  (cellBoundingTagger g s).flatMap List.tail

/-- second entries of pair in-states -/
def pairTargets (l : List (List Ident)) : List Ident := l.flatMap List.tail

def targetsExcluded (g : Grid) (s : Occ) : List Ident := pairTargets (excludedCellsTagger g s)
def targetsSurplus (s : Occ) : List Ident := pairTargets (surplusCellsTagger s)

/-- everything `SingleActiveCellOccupancy` stores: occupants of all cells, then surplus -/
def stored (g : Grid) (s : Occ) : List Ident :=
  (allCells g.n).flatMap s.occ ++ s.yieldSurplus

end JF.CellTaggers
