import JF.Model.Kinematics
import JF.Model.Occupancy
import JF.Model.CellTaggers
import JF.Model.Wiring
/-
A *concrete world* for the activator link of C09/C08 (`JF.Act.World`, `JF.Act.FootprintsSound`): point-mass systems with at most one
`SingleActiveCellOccupancy` (the coulomb_atoms family: `config_files/2018_JCP_149_064113/coulomb_atoms/*.ini`).  It connects the
models that existed side by side:

* global state of point masses and what a committed event does to it: `JF/Model/Kinematics.lean` (`Kin.step`),
* the cell occupancy and its `update`: `JF/Model/Occupancy.lean`; the activator calls `internal_state.update(active state)` for
  every internal state in `TagActivator._get_event_handlers_to_run_update`, i.e. after EVERY commit, before the create loop,
* what the taggers under `jellyfysh/activator/tagger/` yield: `JF/Model/CellTaggers.lean` for the four cell taggers,
  `NoInStateTagger` (`yield None`), `ActiveGlobalStateInStateTagger._yield_identifiers_send_event_time_no_composite_objects`
  (ONE tuple of the identifiers of all active units), `CellBoundaryTagger` / `CellVetoTagger` (`(active_identifier,)` per pair of
  `yield_active_cells`), `FactorTypeMapInStateTagger` restricted to one pair-factor type over all point masses (active unit ×
  every other unit),
* tagger classes / handler kinds of a configuration: `JF/Model/Wiring.lean`.

The scalar type is generic (`α`, `Ops α`); positions enter the yields only through `Env.cellOf` (= `position_to_cell`, C16).
Core Lean only.
-/
namespace JF.CW
open JF JF.Act

/-- what does not change during a run -/
structure Env (α : Type) where
  o : Ops α
  /-- system lengths -/
  L : List α
  /-- the cell system of the occupancy -/
  grid : CellTaggers.Grid
  /-- `cells.position_to_cell(position)` as the index of the cell in `yield_cells()` order (`CellTaggers.allCells grid.n`) -/
  cellOf : List α → Nat
  /-- `SingleActiveCellOccupancy._is_relevant_unit` of point mass `i` (`charge[…] != 0`, or always true) -/
  relevant : Nat → Bool

/-- global state of point masses (list index `i` = the root node with identifier `(i,)`) + the activator's one internal state -/
structure CState (α : Type) where
  us : List (PUnit α)
  occ : Occ.State

section
variable {α : Type}

/-- identifiers of the units of `extract_active_global_state()` (units with a velocity), in tree order -/
def movers (us : List (PUnit α)) : List Nat :=
  (List.range us.length).filter fun i => (us[i]?).any Kin.isMoving

/-- the active unit as `SingleActiveCellOccupancy.update` sees it -/
def unitIn (env : Env α) (us : List (PUnit α)) (a : Nat) : Occ.UnitIn :=
  ⟨a, env.relevant a, env.cellOf (((us[a]?).map (·.pos)).getD [])⟩

/-- `for internal_state in self._internal_states: internal_state.update(extracted_active_global_state)`: nothing if the
activator has no internal state; `none` = `assert len(active_units_on_cell_level) == 1` fails or `update` raises -/
def occAfter (env : Env α) (hasOcc : Bool) (occ : Occ.State) (us' : List (PUnit α)) : Option Occ.State :=
  if hasOcc then
    match movers us' with
    | [a] =>
      match Occ.update occ (unitIn env us' a) with
      | .ok s => some s
      | .error _ => none
    | _ => none
  else some occ

/-! ### what the taggers see -/

/-- cell with index `k` in `yield_cells()` order -/
def cellAt (g : CellTaggers.Grid) (k : Nat) : CellTaggers.Cell := ((CellTaggers.allCells g.n)[k]?).getD []
/-- index of a cell in `yield_cells()` order -/
def cellIdx (g : CellTaggers.Grid) (c : CellTaggers.Cell) : Nat := (CellTaggers.allCells g.n).idxOf c

/-- the occupancy as the cell taggers read it (`__getitem__`, `_surplus`, `yield_active_cells`); the identifier of point mass
`u` is the tuple `(u,)`. `_active_cell` and `_active_unit_identifier` are set and cleared together by the code. -/
def tocc (env : Env α) (s : Occ.State) : CellTaggers.Occ :=
  { occ := fun c => (s.occupants (cellIdx env.grid c)).map fun u => [u]
    surplus := s.surplus.map fun e => (cellAt env.grid e.1, e.2.map fun u => [u])
    active := match s.activeCell, s.activeId with
      | some c, some a => some (cellAt env.grid c, [a])
      | _, _ => none }

def wrapIds (l : List (List CellTaggers.Ident)) : List IdTuple := l.map some

/-- `tagger.yield_identifiers_send_event_time(extracted_active_global_state)` of an activated tagger of the given class -/
def yieldCls (env : Env α) (cls : TaggerClass) (g : CState α) : List IdTuple :=
  match cls with
  | .noInState => [none]
  | .activeGlobalState => [some ((movers g.us).map fun i => [i])]
  | .factorTypeMap =>
    (movers g.us).flatMap fun i => ((List.range g.us.length).filter (· != i)).map fun j => some [[i], [j]]
  | .cellBoundary | .cellVeto => wrapIds (CellTaggers.cellVetoTagger (tocc env g.occ))
  | .cellBounding => wrapIds (CellTaggers.cellBoundingTagger env.grid (tocc env g.occ))
  | .excludedCells => wrapIds (CellTaggers.excludedCellsTagger env.grid (tocc env g.occ))
  | .surplusCells => wrapIds (CellTaggers.surplusCellsTagger (tocc env g.occ))
  | .activeRootUnit | .unknown => []     -- not part of this world (excluded by `Supported`)

/-- C09's comparison: identifier tuples for interaction-type taggers, the number of pending events for the others -/
def viewOf (t : TaggerW) (x : IdTuple) : IdTuple := if idsView t then x else none

/-! ### what a commit does -/

/-- handler kind ↦ the kinds of `Kin.Ev` its committed events are -/
def allowedEv : HandlerKind → Kin.Ev α → Bool
  | .sampling, .keep _ | .dumping, .keep _ | .endOfRun, .keep _ => true
  | .cellBoundary, .snap _ _ _ => true
  | .interaction, .keep _ | .interaction, .lift _ _ => true       -- rejected / thinned, or accepted
  | .cellVeto, .keep _ | .cellVeto, .lift _ _ => true
  | .endOfChain, .endOfChain _ _ _ => true
  | .startOfRun, .start _ _ _ => true
  | _, _ => false

/-- the events that, according to `affects`, change neither the identity of the active unit nor any active cell -/
def quietKind : HandlerKind → Bool
  | .sampling | .dumping | .endOfRun => true
  | _ => false

/-- **the history premise of C11** for the state after the commit: the active unit — time-sliced to the event time — is still
in the cell the occupancy has recorded for it (`JF.Links.active_unit_stays_in_recorded_cell` derives it from a pending
cell-boundary candidate and the scheduler's minimality) -/
def StaysInRecordedCell (env : Env α) (occ : Occ.State) (us' : List (PUnit α)) : Prop :=
  ∀ a, movers us' = [a] → env.relevant a = true → occ.activeCell = some (unitIn env us' a).cell

variable [Add α] [Sub α] [Mul α] [LT α] [DecidableLT α] [BEq α]

/-- one commit by a handler of kind `kind` followed by the activator's update of its internal state.
A dumping event has an empty out-state (nothing is committed): the identity is allowed for it besides `keep`. -/
def TrRaw (env : Env α) (hasOcc : Bool) (kind : HandlerKind) (g g' : CState α) : Prop :=
  ((∃ ev : Kin.Ev α, allowedEv kind ev = true ∧ g'.us = Kin.step env.o env.L g.us ev) ∨ (kind = .dumping ∧ g'.us = g.us))
  ∧ occAfter env hasOcc g.occ g'.us = some g'.occ
  ∧ (hasOcc = true → quietKind kind = true → StaysInRecordedCell env g.occ g'.us)

/-- the same commit without the premise (used to show that the premise is needed) -/
def TrNoPremise (env : Env α) (hasOcc : Bool) (kind : HandlerKind) (g g' : CState α) : Prop :=
  ((∃ ev : Kin.Ev α, allowedEv kind ev = true ∧ g'.us = Kin.step env.o env.L g.us ev) ∨ (kind = .dumping ∧ g'.us = g.us))
  ∧ occAfter env hasOcc g.occ g'.us = some g'.occ

end

/-! ### consistency of the carried occupancy with the point masses -/

section
variable {α : Type}

/-- `_active_unit_identifier` the occupancy must hold for these active units -/
def expectedActive (env : Env α) : List Nat → Option Nat
  | [a] => if env.relevant a then some a else none
  | _ => none

/-- the occupancy's active unit is the moving point mass (if relevant), and `_active_cell` is set iff the identifier is -/
def Consistent (env : Env α) (hasOcc : Bool) (g : CState α) : Prop :=
  hasOcc = true →
    g.occ.activeId = expectedActive env (movers g.us) ∧ g.occ.activeCell.isSome = g.occ.activeId.isSome

instance (env : Env α) (hasOcc : Bool) (g : CState α) : Decidable (Consistent env hasOcc g) := by
  unfold Consistent; infer_instance

end

/-! ### which wirings live in this world -/

/-- classes whose yield reads the cell lists of the occupancy -/
def cellReading : TaggerClass → Bool
  | .excludedCells | .cellBounding | .surplusCells => true
  | _ => false

def clsOK : TaggerClass → Bool
  | .activeRootUnit | .unknown => false
  | _ => true

def kindOK : HandlerKind → Bool
  | .switcher | .unknown => false
  | _ => true

/-- one tagger: a class and a kind of this world; the cell taggers and the cell-boundary handler belong to THE occupancy
(label index 0, the only one) -/
def okT (nLabels : Nat) (t : TaggerW) : Bool :=
  clsOK t.cls && kindOK t.kind
  && (!(cellReading t.cls) || (t.label == some 0 && nLabels == 1))
  && (!(t.kind == .cellBoundary) || t.label == some 0)

/-- the decidable side condition of `footprintsSound_concrete`: the wiring uses only the tagger classes / handler kinds of this
world and has at most one internal state.  It is a condition on the WIRING only: that the configuration is a one-level system
(point masses, `setting.number_of_node_levels == 1`) with one pair-factor type is the modelling assumption of `CState` / `yieldCls`
and is not visible in a `Wiring` (several shipped composite-object configurations pass `Supported`; the world is not a model of
them — `harness/fpcorr.py` judges only traces with one node level). -/
def Supported (c : Wiring) : Bool :=
  decide (c.labels.length ≤ 1) && c.taggers.all (okT c.labels.length)

/-- does the activator of this wiring carry an internal state? -/
def hasOccOf (c : Wiring) : Bool := !c.labels.isEmpty

end JF.CW
