/-
Model of `jellyfysh/scheduler/heap_scheduler/heap.c` (binary min heap with lazy deletion),
written branch for branch after the C source.

* The allocated block `heap->heap_entries` is the array `mem`; the C field `heap->size` is represented
  by `mem.size` (the block always has exactly `heap->size` entries: `realloc(size * sizeof entry)`).
* Every array access of the C code is bounds-checked against the allocated size (`chk`, `set`); an access
  outside the block sets the sticky flag `fault` (this is what "invalid memory access" means in the
  model).  A loop whose C original would not have terminated within the fuel the model gives it also
  sets `fault`.
* Slots obtained from `realloc` hold arbitrary data: `cfg.garbage i` (a parameter; the theorems
  quantify over it).
* Keys are abstract (`κ`) with the comparison `cfg.lt` and the sentinel key `cfg.bot`; the driver uses
  `κ = Time Float`, `lt = Time.cLt` (the comparison spelled out in `insert`/`bubble_down`),
  `bot = (-inf, -inf)`.
* C `uint` arithmetic is modelled by `Nat` (no wrap-around: fewer than 2^31 entries, see the
  assumption recorded in `harness/props/c06.py`); `realloc` failure is not modelled.

No Mathlib import here: this file is linked into the driver executable.
-/
namespace JF.Heap

/-- `struct HeapEntry`; the handler pointer is a natural number, `0` = `NULL`. -/
structure Entry (κ : Type) where
  key : κ
  h : Nat
  c : Nat

/-- comparison, sentinel key, `time < inf` test of the Python layer, content of fresh memory -/
structure Cfg (κ : Type) where
  lt : κ → κ → Bool
  bot : κ
  finite : κ → Bool
  garbage : Nat → Entry κ

/-- `struct Heap` (`size` is `mem.size`) plus the fault flag of the model -/
structure CHeap (κ : Type) where
  mem : Array (Entry κ)
  length : Nat
  fault : Bool

variable {κ : Type}

/-- `(uint) -1` -/
def uintMax : Nat := 4294967295

/-- the artificial zeroth entry: `(-inf, -inf, NULL, -1)`; also what `root`/`entry` return for "nothing" -/
def nullEntry (cfg : Cfg κ) : Entry κ := ⟨cfg.bot, 0, uintMax⟩

/-- `construct_heap`: `calloc`, i.e. `heap_entries = NULL, length = 0, size = 0` -/
def CHeap.empty : CHeap κ := ⟨#[], 0, false⟩

def CHeap.size (hp : CHeap κ) : Nat := hp.mem.size

/-- value read at index `i` (fresh memory / out of block: garbage) -/
def get (cfg : Cfg κ) (hp : CHeap κ) (i : Nat) : Entry κ := hp.mem.getD i (cfg.garbage i)

/-- bounds check of a read at index `i` -/
def chk (hp : CHeap κ) (i : Nat) : CHeap κ :=
  if i < hp.mem.size then hp else { hp with fault := true }

/-- bounds-checked write -/
def set (hp : CHeap κ) (i : Nat) (e : Entry κ) : CHeap κ :=
  if i < hp.mem.size then { hp with mem := hp.mem.setIfInBounds i e } else { hp with fault := true }

/-- `realloc` to `n` entries: old content kept, new slots arbitrary -/
def grow (cfg : Cfg κ) (mem : Array (Entry κ)) (n : Nat) : Array (Entry κ) :=
  Array.ofFn (n := n) fun i => mem.getD i.val (cfg.garbage i.val)

/-- the `while` loop of `insert` (bubble up): `position`, `parent_position = position >> 1` -/
def insertLoop (cfg : Cfg κ) (key : κ) : Nat → CHeap κ → Nat → CHeap κ × Nat
  | 0, hp, pos => ({ hp with fault := true }, pos)
  | fuel + 1, hp, pos =>
    let par := pos / 2
    let hp := chk hp par
    if cfg.lt key (get cfg hp par).key then
      -- heap_entries[position] = heap_entries[parent_position]; position = parent_position
      let hp := set hp pos (get cfg hp par)
      insertLoop cfg key fuel hp par
    else (hp, pos)

/-- `insert` -/
def insert (cfg : Cfg κ) (hp : CHeap κ) (key : κ) (h c : Nat) : CHeap κ :=
  -- uint position = (heap->length)++;
  let position := hp.length
  let hp := { hp with length := hp.length + 1 }
  let (hp, position) :=
    if hp.length + 1 > hp.mem.size then
      let oldSize := hp.mem.size
      let newSize := if oldSize != 0 then oldSize * 2 else 64
      let hp := { hp with mem := grow cfg hp.mem newSize }
      if oldSize == 0 then
        let hp := set hp 0 (nullEntry cfg)
        ({ hp with length := hp.length + 1 }, position + 1)
      else (hp, position)
    else (hp, position)
  let (hp, position) := insertLoop cfg key (position + 1) hp position
  set hp position ⟨key, h, c⟩

/-- the choice of `compare_position` in one iteration of `bubble_down`: the cached entry at
`length`, replaced by the first child if that is strictly smaller, then by the second child if that
is strictly smaller than the current choice -/
def pick (cfg : Cfg κ) (hp : CHeap κ) (pos : Nat) : Nat :=
  let child := pos * 2
  let cmp := hp.length
  let cmp := if child < hp.length && cfg.lt (get cfg hp child).key (get cfg hp cmp).key then child else cmp
  let cmp := if child + 1 < hp.length && cfg.lt (get cfg hp (child + 1)).key (get cfg hp cmp).key
    then child + 1 else cmp
  cmp

/-- `bubble_down`.  In every iteration the slot `length` (the cached entry) is read — in the first
comparison, or, if there is no child, in the final assignment — and every other index touched
(`child`, `child + 1`, `position`) is `< length`; so the bounds check of the iteration is the one
of index `length`. -/
def bubbleDownLoop (cfg : Cfg κ) : Nat → CHeap κ → Nat → CHeap κ
  | 0, hp, pos => if pos < hp.length then { hp with fault := true } else hp
  | fuel + 1, hp, pos =>
    if pos < hp.length then
      let hp := chk hp hp.length
      let cmp := pick cfg hp pos
      -- heap_entries[position] = heap_entries[compare_position]; position = compare_position
      let hp := set hp pos (get cfg hp cmp)
      bubbleDownLoop cfg fuel hp cmp
    else hp

def bubbleDown (cfg : Cfg κ) (hp : CHeap κ) (pos : Nat) : CHeap κ :=
  bubbleDownLoop cfg hp.length hp pos

/-- the `while` loop of `root`; `dead h c` is the callback ("true if the entry should be deleted") -/
def rootLoop (cfg : Cfg κ) (dead : Nat → Nat → Bool) : Nat → CHeap κ → CHeap κ
  | 0, hp =>
    if hp.length > 1 && dead (get cfg hp 1).h (get cfg hp 1).c then { hp with fault := true } else hp
  | fuel + 1, hp =>
    if hp.length > 1 then
      let hp := chk hp 1
      if dead (get cfg hp 1).h (get cfg hp 1).c then
        -- heap_entries[1] = heap_entries[--(heap->length)]; bubble_down(heap, 1)
        let hp := { hp with length := hp.length - 1 }
        let hp := chk hp hp.length
        let hp := set hp 1 (get cfg hp hp.length)
        rootLoop cfg dead fuel (bubbleDown cfg hp 1)
      else hp
    else hp

/-- `root` -/
def root (cfg : Cfg κ) (dead : Nat → Nat → Bool) (hp : CHeap κ) : CHeap κ × Entry κ :=
  let hp := rootLoop cfg dead hp.length hp
  if hp.length > 1 then (chk hp 1, get cfg hp 1) else (hp, nullEntry cfg)

/-- first loop of `delete_events` (swap-with-last scan) -/
def delScan (cfg : Cfg κ) (h : Nat) : Nat → CHeap κ → Nat → CHeap κ
  | 0, hp, cur => if cur < hp.length then { hp with fault := true } else hp
  | fuel + 1, hp, cur =>
    if cur < hp.length then
      let hp := chk hp cur
      if (get cfg hp cur).h == h then
        let hp := { hp with length := hp.length - 1 }
        let hp := chk hp hp.length
        let hp := set hp cur (get cfg hp hp.length)
        delScan cfg h fuel hp cur
      else delScan cfg h fuel hp (cur + 1)
    else hp

/-- second loop of `delete_events`: `for (index = length / 2; index >= 1; index--)`; the argument
is the current `index` (`0` = loop finished) -/
def heapify (cfg : Cfg κ) : Nat → CHeap κ → CHeap κ
  | 0, hp => hp
  | idx + 1, hp =>
    let hp := chk hp (idx + 1)
    let hp := set hp hp.length (get cfg hp (idx + 1))
    heapify cfg idx (bubbleDown cfg hp (idx + 1))

/-- `delete_events` -/
def deleteEvents (cfg : Cfg κ) (hp : CHeap κ) (h : Nat) : CHeap κ :=
  let hp := delScan cfg h hp.length hp 1
  heapify cfg (hp.length / 2) hp

/-- `entry`: value and "this call touched memory outside the block" -/
def entry (cfg : Cfg κ) (hp : CHeap κ) (index : Nat) : Entry κ × Bool :=
  if index + 1 < hp.length then (get cfg hp (index + 1), !decide (index + 1 < hp.mem.size))
  else (nullEntry cfg, false)

end JF.Heap
