/-!
# Model of the multi-process mediator protocol (property C20)

Source: `jellyfysh/mediator/multi_process_mediator/multi_process_mediator.py`
(`run_in_process`, `EventHandlerState`, `MultiProcessMediator.run`, `post_run`) and, as the reference,
`jellyfysh/mediator/single_process_mediator.py` (`SingleProcessMediator.run`).

Event handlers are natural numbers.  The *computations* of a handler are opaque and deterministic: the candidate
event time and the out-state of handler `h` are functions of the in-state the handler received with its last start
event.  The model therefore does not carry values but **tags**: every message in a pipe and every stored
pre-computed out-state is tagged with the number of the leg in which the in-state it was computed from was
extracted.  "Which computation result is committed" is then a statement about tags.

Everything the mediator and a worker do concerns one handler at a time, so the state of the whole system is a
function `Nat → HS` from handlers to *local states* (`HS`: mediator stage, worker program counter, the in-state tag
the worker holds, the worker→mediator pipe contents, the entry of `_out_states`).  The semaphore only bounds
concurrency and is abstracted away; a worker's reaction to an event that is set (flag set, `wait` returns, flag
cleared) is one atomic step; a computation is finished at the latest when the mediator reads the pipe (`HS.finish`
inside `HS.recv`: a blocking `recv` returns once the worker has sent).
-/
namespace JF.MP

/-- `EventHandlerState` -/
inductive Stage where
  | idle | timeStarted | suspended | outStarted
  deriving DecidableEq, Repr, Inhabited

/-- program counter of `run_in_process`: blocked in the first `start_or_continue_event.wait()` (`idle`), inside
`send_event_time` (`computingTime`), blocked in the second `wait()` (`suspended`), inside `send_out_state`
(`computingOut`) -/
inductive Pc where
  | idle | computingTime | suspended | computingOut
  deriving DecidableEq, Repr, Inhabited

/-- an object travelling worker → mediator; `tag` = leg in which the in-state it was computed from was extracted -/
inductive Msg where
  | time (tag : Nat)
  | out (tag : Nat)
  deriving DecidableEq, Repr

/-- error outcomes -/
inductive Err where
  /-- `MediatorError("Event Process not ready!")` -/
  | notReady
  /-- `MediatorError("Event process with pipe … is already finished and shouldn't receive anything anymore!")` -/
  | alreadyFinished
  /-- `self._out_states[chosen]`: `KeyError` -/
  | keyError
  /-- `received_event_times[event_handler]`: `KeyError` -/
  | timeMissing
  /-- `assert self._event_handlers_state[pipe_with_shortest_event_time] == EventHandlerState.idle` -/
  | assertIdle
  /-- worker: `MediatorError("Continue event is not allowed in idle state!")` -/
  | workerContinueInIdle
  /-- the mediator calls `recv` on a pipe into which nothing was and nothing will be sent: it blocks forever -/
  | recvBlocks
  /-- the object in the pipe is not what the stage says it is (the real code would silently take an out-state for
  an event time or vice versa) -/
  | misread
  /-- `connection.wait` is called although no pipe of this leg has anything in flight: it blocks forever -/
  | deadlock
  /-- not an outcome of the code: the list of `wait` results handed to the model ended while the loop still waits -/
  | starved
  /-- not an outcome of the code: a `wait` result handed to the model violates the contract of `connection.wait`
  (it is empty, lists a pipe twice, or lists a pipe that is not of this leg or has nothing in flight) -/
  | adversary
  deriving DecidableEq, Repr

def Stage.inFlight : Stage → Bool
  | .timeStarted | .outStarted => true
  | _ => false

/-- everything that concerns one event handler -/
structure HS where
  /-- `_event_handlers_state[pipe]` -/
  stage : Stage := .idle
  /-- where the worker process is in `run_in_process` -/
  pc : Pc := .idle
  /-- tag of the in-state the worker received with its last start event -/
  tag : Nat := 0
  /-- objects sent by the worker and not yet received by the mediator (FIFO) -/
  chan : List Msg := []
  /-- `_out_states.get(handler)` (its tag) -/
  stored : Option Nat := none
  deriving DecidableEq, Repr, Inhabited

abbrev St := Nat → HS

def upd (s : St) (h : Nat) (x : HS) : St := fun k => if k = h then x else s k

/-! ## the worker: `run_in_process` -/

/-- the worker finishes the computation it is in and sends the result -/
def HS.finish (x : HS) : HS :=
  match x.pc with
  | .computingTime => { x with pc := .suspended, chan := x.chan ++ [.time x.tag] }
  | .computingOut => { x with pc := .idle, chan := x.chan ++ [.out x.tag] }
  | _ => x

/-- start event (with the in-state extracted in leg `n`). Blocked in the first wait: clear, compute the time.
Blocked in the second wait: `continue` to the top of the loop, where the still-set start event is found. An event
set during a computation is seen when the computation is over. -/
def HS.start (x : HS) (n : Nat) : HS :=
  { x.finish with pc := .computingTime, tag := n }

/-- continue event. Blocked in the second wait: clear, compute the out-state. Blocked in the first wait:
`MediatorError`. -/
def HS.cont (x : HS) : Except Err HS :=
  let y := x.finish
  match y.pc with
  | .suspended => .ok { y with pc := .computingOut }
  | _ => .error .workerContinueInIdle

/-- blocking `pipe.recv()` of the mediator -/
def HS.recv (x : HS) : Except Err (Msg × HS) :=
  let y := x.finish
  match y.chan with
  | [] => .error .recvBlocks
  | m :: ms => .ok (m, { y with chan := ms })

/-! ## the mediator: one leg of `MultiProcessMediator.run` -/

/-- "Send in-states", one handler: `if state == idle: start_event.set() else: raise …; [pipe.send(in_state)];
state = event_time_started` -/
def HS.send (x : HS) (n : Nat) : Except Err HS :=
  if x.stage = .idle then .ok { x.start n with stage := .timeStarted } else .error .notReady

/-- `_send_out_state_events[pipe].set(); [pipe.send(arguments)]; state = out_state_started` -/
def HS.startOut (x : HS) : Except Err HS :=
  match x.cont with
  | .ok y => .ok { y with stage := .outStarted }
  | .error e => .error e

/-- receive branch `event_time_started`: `state = suspended; returned = pipe.recv()`; returns the tag of the time -/
def HS.recvTime (x : HS) : Except Err (Nat × HS) :=
  match ({ x with stage := .suspended }).recv with
  | .ok (.time t, y) => .ok (t, y)
  | .ok (.out _, _) => .error .misread
  | .error e => .error e

/-- `self._out_states[handler] = pipe.recv()` -/
def HS.recvOut (x : HS) : Except Err HS :=
  match x.recv with
  | .ok (.out t, y) => .ok { y with stored := some t }
  | .ok (.time _, _) => .error .misread
  | .error e => .error e

structure Cfg where
  /-- `number_cores` -/
  cores : Nat
  /-- `number_send_out_state_arguments != 0` -/
  outArgs : Nat → Bool

/-- "Send in-states" -/
def sendAll (n : Nat) : St → List Nat → Except Err St
  | s, [] => .ok s
  | s, h :: hs =>
    match (s h).send n with
    | .ok y => sendAll n (upd s h y) hs
    | .error e => .error e

/-- local variables of the receive loop (+ what the model reports about it) -/
structure Loop where
  st : St
  /-- `pipes_time_received` -/
  deque : List Nat := []
  /-- `event_times_received` -/
  received : Nat := 0
  /-- `received_event_times` in the order of the assignments: (handler, tag of the candidate time) -/
  recvd : List (Nat × Nat) := []
  /-- handlers whose out-state computation was started ahead of time, in order -/
  pre : List Nat := []
  /-- stage of the returned pipes at the moment of each `wait` (newest first) -/
  seen : List (List Stage) := []

/-- `next_pipe = pipes_time_received.popleft(); …set(); state[next_pipe] = out_state_started` (if the deque is not
empty). The source's `if number_send_out_state_arguments: next_pipe.send(arguments)` in between is dead code (only
handlers without such arguments are ever queued) and, like every mediator → worker argument transfer, has no effect
on the protocol state. -/
def startNext (L : Loop) : Except Err Loop :=
  match L.deque with
  | [] => .ok L
  | p :: ps =>
    match (L.st p).startOut with
    | .ok y => .ok { L with st := upd L.st p y, deque := ps, pre := L.pre ++ [p] }
    | .error e => .error e

/-- body of `for pipe in connection.wait(pipes)`; `total = len(event_handlers_in_state_dictionary)` -/
def procPipe (c : Cfg) (total : Nat) (L : Loop) (h : Nat) : Except Err Loop :=
  match (L.st h).stage with
  | .timeStarted =>
    match (L.st h).recvTime with
    | .error e => .error e
    | .ok (t, y) =>
      let L1 : Loop := { L with st := upd L.st h y,
                                deque := if c.outArgs h then L.deque else L.deque ++ [h],
                                received := L.received + 1,
                                recvd := L.recvd ++ [(h, t)] }
      if 0 < total - L1.received ∧ total - L1.received < c.cores - 1 ∧ L1.deque ≠ [] then startNext L1
      else .ok L1
  | .outStarted =>
    match startNext { L with st := upd L.st h { L.st h with stage := .idle } } with
    | .error e => .error e
    | .ok L1 =>
      match (L1.st h).recvOut with
      | .error e => .error e
      | .ok y => .ok { L1 with st := upd L1.st h y }
  | _ => .error .alreadyFinished

/-- one `for` loop over a `wait` result -/
def procWait (c : Cfg) (total : Nat) : Loop → List Nat → Except Err Loop
  | L, [] => .ok L
  | L, h :: hs =>
    match procPipe c total L h with
    | .ok L' => procWait c total L' hs
    | .error e => .error e

/-- contract of `connection.wait(pipes)` without time-out: a non-empty list of distinct pipes of this leg that are
readable, i.e. (by `stage_inv`) whose worker has something in flight -/
def waitOK (created : List Nat) (s : St) (w : List Nat) : Bool :=
  !w.isEmpty && decide w.Nodup && w.all fun h => created.contains h && (s h).stage.inFlight

/-- `while event_times_received < len(…): for pipe in connection.wait(pipes): …`; the adversary is the list of
`wait` results. Returns the final loop variables and the `wait` results not consumed. -/
def recvLoop (c : Cfg) (created : List Nat) : Loop → List (List Nat) → Except Err (Loop × List (List Nat))
  | L, [] => if L.received < created.length then
                (if created.any fun h => (L.st h).stage.inFlight then .error .starved else .error .deadlock)
             else .ok (L, [])
  | L, w :: ws =>
    if L.received < created.length then
      if created.any fun h => (L.st h).stage.inFlight then
        match procWait c created.length { L with seen := (w.map fun h => (L.st h).stage) :: L.seen } w with
        | .ok L' => recvLoop c created L' ws
        | .error e => .error e
      else .error .deadlock
    else .ok (L, w :: ws)

/-- does every consumed `wait` result respect the contract `waitOK`? (follows the loop) -/
def legit (c : Cfg) (created : List Nat) : Loop → List (List Nat) → Bool
  | _, [] => true
  | L, w :: ws =>
    if L.received < created.length then
      waitOK created L.st w &&
        match procWait c created.length { L with seen := (w.map fun h => (L.st h).stage) :: L.seen } w with
        | .ok L' => legit c created L' ws
        | .error _ => true
    else true

/-- how the committed out-state was obtained -/
inductive Path where
  /-- chosen handler was `suspended`: computation started now -/
  | startedNow
  /-- chosen handler was `out_state_started`: a pre-computation not yet received -/
  | inFlight
  /-- chosen handler was `idle`: a pre-computed out-state stored in `_out_states` -/
  | stored
  /-- chosen handler was `event_time_started` -/
  | none
  deriving DecidableEq, Repr

/-- "Request shortest time": everything after `get_succeeding_event` up to the `assert`; returns the tag of the
out-state that is committed -/
def HS.commit (x : HS) : Except Err (Nat × Path × HS) :=
  let path : Path := match x.stage with
    | .suspended => .startedNow | .outStarted => .inFlight | .idle => .stored | .timeStarted => .none
  let r1 : Except Err HS := if x.stage = .suspended then x.startOut else .ok x
  match r1 with
  | .error e => .error e
  | .ok y =>
    let r2 : Except Err HS :=
      if y.stage = .outStarted then
        match y.recv with
        | .ok (.out t, z) => .ok { z with stage := .idle, stored := some t }
        | .ok (.time _, _) => .error .misread
        | .error e => .error e
      else .ok y
    match r2 with
    | .error e => .error e
    | .ok z =>
      match z.stored with
      | none => .error .keyError
      | some t => if z.stage = .idle then .ok (t, path, z) else .error .assertIdle

/-- body of the trash loop; the flag says whether a pre-computed (or pre-computing) out-state was thrown away -/
def HS.trash (x : HS) : Except Err (HS × Bool) :=
  let y := { x with stored := none }
  match y.stage with
  | .suspended => .ok ({ y with stage := .idle }, x.stored.isSome)
  | .outStarted =>
    match y.recv with
    | .ok (_, z) => .ok ({ z with stage := .idle }, true)
    | .error e => .error e
  | _ => .ok (y, x.stored.isSome)

/-- trash loop; returns the handlers whose out-state was thrown away, in order -/
def trashAll : St → List Nat → Except Err (St × List Nat)
  | s, [] => .ok (s, [])
  | s, h :: hs =>
    match (s h).trash with
    | .error e => .error e
    | .ok (y, d) =>
      match trashAll (upd s h y) hs with
      | .ok (s', ds) => .ok (s', if d then h :: ds else ds)
      | .error e => .error e

/-- "Push the candidate event times in the order in which the activator returned the event handlers":
`for event_handler in event_handlers_in_state_dictionary.keys(): push_event(received_event_times[event_handler], …)`;
returns the `push_event` calls in order (a dictionary: the last assignment to a key is the one that is read) -/
def pushAll (recvd : List (Nat × Nat)) : List Nat → Except Err (List (Nat × Nat))
  | [] => .ok []
  | h :: hs =>
    match recvd.reverse.lookup h with
    | none => .error .timeMissing
    | some t =>
      match pushAll recvd hs with
      | .ok l => .ok ((h, t) :: l)
      | .error e => .error e

/-- first half of a leg: send in-states, receive loop, pushes; returns the loop variables, the `push_event` calls in
order and the `wait` results not consumed -/
def legRecv (c : Cfg) (n : Nat) (s : St) (created : List Nat) (waits : List (List Nat)) :
    Except Err (Loop × List (Nat × Nat) × List (List Nat)) :=
  match sendAll n s created with
  | .error e => .error e
  | .ok s1 =>
    match recvLoop c created { st := s1 } waits with
    | .error e => .error e
    | .ok (L, rest) =>
      match pushAll L.recvd created with
      | .error e => .error e
      | .ok ps => .ok (L, ps, rest)

/-- is the adversary of this leg legitimate? -/
def legLegit (c : Cfg) (n : Nat) (s : St) (created : List Nat) (waits : List (List Nat)) : Bool :=
  match sendAll n s created with
  | .error _ => true
  | .ok s1 => legit c created { st := s1 } waits

structure LegOut where
  /-- state after the trash loop -/
  st : St
  /-- state at commit time (`insert_into_global_state`), before the trash loop -/
  atCommit : St
  loop : Loop
  /-- `scheduler.push_event` calls of the leg in order: (handler, tag of the candidate time) -/
  pushes : List (Nat × Nat)
  waitsLeft : Nat
  /-- tag of the committed out-state -/
  tag : Nat
  path : Path
  /-- trashed handlers whose pre-computed out-state was thrown away (the committed handler's own entry included
  if it is trashed; the driver takes it out) -/
  discarded : List Nat

/-- one leg: `created` = what the activator returned, `waits` = the adversary, `chosen` = what the scheduler
returned, `trash` = `get_trashable_events` -/
def leg (c : Cfg) (n : Nat) (s : St) (created : List Nat) (waits : List (List Nat)) (chosen : Nat)
    (trash : List Nat) : Except Err LegOut :=
  match legRecv c n s created waits with
  | .error e => .error e
  | .ok (L, ps, left) =>
    match (L.st chosen).commit with
    | .error e => .error e
    | .ok (tag, path, y) =>
      let s2 := upd L.st chosen y
      match trashAll s2 trash with
      | .error e => .error e
      | .ok (s3, ds) => .ok ⟨s3, s2, L, ps, left.length, tag, path, ds⟩

/-! ## the coherence invariant, as a decidable check (used by the theorems and evaluated by the driver) -/

/-- mediator stage ↔ worker program counter ↔ pipe contents (a handler that was trashed while `suspended` is `idle` for
the mediator while its worker stays blocked in the second `wait()`; the next start event takes the `continue` branch
there), and: a stored out-state belongs to an idle handler
and was computed from the in-state the worker holds -/
def HS.coh (x : HS) : Bool :=
  (match x.stage with
    | .idle => decide ((x.pc = .idle ∨ x.pc = .suspended) ∧ x.chan = [])
    | .timeStarted =>
        decide ((x.pc = .computingTime ∧ x.chan = []) ∨ (x.pc = .suspended ∧ x.chan = [.time x.tag]))
    | .suspended => decide (x.pc = .suspended ∧ x.chan = [])
    | .outStarted =>
        decide ((x.pc = .computingOut ∧ x.chan = []) ∨ (x.pc = .idle ∧ x.chan = [.out x.tag])))
  && (match x.stored with
    | none => true
    | some t => decide (x.stage = .idle ∧ t = x.tag))

/-- the invariant at the boundary between two legs; `running` = the handlers the activator has handed out and not
yet taken back (`_running_event_handlers`): no handler is `event_time_started`; a handler that is not running is
`idle` and has no stored out-state; a running handler that is `idle` has a stored out-state -/
def HS.boundary (x : HS) (running : Bool) : Bool :=
  x.coh && decide (x.stage ≠ .timeStarted) &&
    (if running then decide (x.stage = .idle → x.stored ≠ none) else decide (x.stage = .idle ∧ x.stored = none))

/-- worker blocked in one of its two `wait()` calls and nothing unread in its pipe -/
def HS.quiescent (x : HS) : Bool :=
  decide ((x.pc = .idle ∨ x.pc = .suspended) ∧ x.chan = [])

/-! ## closed system: both mediators around the same rest of the application -/

/-- the rest of the application, the same for both mediators. `G` global state, `E` state of activator and
scheduler, `T` candidate event times, `O` out-states.
`timeOf h n g` / `outOf h n g`: what handler `h` computes from the in-state extracted from `g` in leg `n`
(the leg number fixes the position in the handler's private random stream; out-state computations draw
nothing). -/
structure Env (G E T O : Type) where
  activate : G → E → List Nat × E
  timeOf : Nat → Nat → G → T
  outOf : Nat → Nat → G → O
  /-- push the new candidate times (in this order), then `get_succeeding_event` -/
  choose : E → List (Nat × T) → Nat × E
  commit : G → O → G
  trash : E → Nat → List Nat × E

structure Commit (G T O : Type) where
  handler : Nat
  time : T
  out : O
  /-- global state after the commit (every sample written by a mediating method is a function of it) -/
  post : G

variable {G E T O : Type}

/-- `SingleProcessMediator.run`, `k` legs from leg number `n` on. `last h` = leg of the last `send_event_time` of
`h`, `hist m` = global state at the start of leg `m`. -/
def runSP (env : Env G E T O) : Nat → Nat → G → E → (Nat → Nat) → (Nat → G) → List (Commit G T O)
  | 0, _, _, _, _, _ => []
  | k + 1, n, g, e, last, hist =>
    let (cr, e1) := env.activate g e
    let hist' : Nat → G := fun m => if m = n then g else hist m
    let last' : Nat → Nat := fun h => if h ∈ cr then n else last h
    let (c, e2) := env.choose e1 (cr.map fun h => (h, env.timeOf h n g))
    let tag := last' c
    let out := env.outOf c tag (hist' tag)
    let g' := env.commit g out
    let (_, e3) := env.trash e2 c
    ⟨c, env.timeOf c tag (hist' tag), out, g'⟩ :: runSP env k (n + 1) g' e3 last' hist'

/-- `MultiProcessMediator.run`, one leg per element of the adversary (the `wait` results of that leg) -/
def runMP (env : Env G E T O) (cfg : Cfg) :
    List (List (List Nat)) → Nat → G → E → St → (Nat → G) → Except (Nat × Err) (List (Commit G T O))
  | [], _, _, _, _, _ => .ok []
  | ws :: rest, n, g, e, s, hist =>
    let (cr, e1) := env.activate g e
    let hist' : Nat → G := fun m => if m = n then g else hist m
    if legLegit cfg n s cr ws = false then .error (n, .adversary) else
    match legRecv cfg n s cr ws with
    | .error err => .error (n, err)
    | .ok (L, ps, _) =>
      let (c, e2) := env.choose e1 (ps.map fun p => (p.1, env.timeOf p.1 p.2 (hist' p.2)))
      match (L.st c).commit with
      | .error err => .error (n, err)
      | .ok (tag, _, y) =>
        let out := env.outOf c tag (hist' tag)
        let g' := env.commit g out
        let (tr, e3) := env.trash e2 c
        match trashAll (upd L.st c y) tr with
        | .error err => .error (n, err)
        | .ok (s3, _) =>
          match runMP env cfg rest (n + 1) g' e3 s3 hist' with
          | .ok l => .ok (⟨c, env.timeOf c tag (hist' tag), out, g'⟩ :: l)
          | .error err => .error err

end JF.MP
