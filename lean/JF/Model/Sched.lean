import JF.Model.Heap
import JF.Model.Time
/-
Models of `scheduler/heap_scheduler/heap_scheduler.py` (class `HeapScheduler`) on top of the model of
`heap.c`, of `scheduler/list_scheduler.py` (class `ListScheduler`), and the plain reference model of
property C06.  Handlers are natural numbers `≠ 0` (`0` is the `NULL` handle).
-/
namespace JF.Sched
open JF.Heap

variable {κ : Type}

/-! ### the dictionary `_minimal_valid_counter` as an association list -/

abbrev MV := List (Nat × Nat)

/-- `dict.get(h)` -/
def mvGet (m : MV) (h : Nat) : Option Nat := m.lookup h
/-- `dict[h] = v` -/
def mvSet (m : MV) (h v : Nat) : MV := (h, v) :: m.filter (fun p => p.1 != h)

/-- `dict.setdefault(h, v)`: the dictionary afterwards -/
def mvSetDefault (m : MV) (h v : Nat) : MV :=
  match mvGet m h with
  | some _ => m
  | none => mvSet m h v

/-- outcome of `get_succeeding_event` -/
inductive GetRes (κ : Type) where
  /-- returned handler and the time of its event -/
  | ok (h : Nat) (t : κ)
  /-- `SchedulerError`: "does not contain any events" -/
  | empty
  /-- `SchedulerError` of `_event_time_increasing` (new smallest time `<` last returned time) -/
  | guard (h : Nat) (t : κ)

/-! ### HeapScheduler -/

structure HSched (κ : Type) where
  heap : CHeap κ
  mv : MV
  /-- `_last_returned_event[0]` -/
  last : κ

/-- `__init__` -/
def HSched.init (cfg : Cfg κ) : HSched κ := ⟨CHeap.empty, [], cfg.bot⟩

/-- `event_valid_callback`: `self._minimal_valid_counter[handler] > counter`.  (A missing key would
raise `KeyError` inside the cffi callback, which cffi turns into the return value 0.) -/
def deadCb (mv : MV) (h c : Nat) : Bool :=
  match mvGet mv h with
  | some m => decide (m > c)
  | none => false

/-- `push_event`; `W` = number of values of a C `uint` (2^32): passing a counter `≥ W` to the C
function raises `OverflowError`. -/
def HSched.push (cfg : Cfg κ) (W : Nat) (s : HSched κ) (t : κ) (h : Nat) : HSched κ :=
  if cfg.finite t then
    -- self._minimal_valid_counter.setdefault(event_handler, 0)   (evaluated before the call)
    let c := (mvGet s.mv h).getD 0
    let mv := mvSetDefault s.mv h 0
    if c < W then
      { s with mv := mv, heap := insert cfg s.heap t h c }
    else
      -- except OverflowError: delete_events; counter := 0; insert(…, 0)
      let heap := deleteEvents cfg s.heap h
      { s with mv := mvSet mv h 0, heap := insert cfg heap t h 0 }
  else s

/-- `trash_event` -/
def HSched.trash (s : HSched κ) (h : Nat) : HSched κ :=
  { s with mv := mvSet s.mv h ((mvGet s.mv h).getD 0 + 1) }

/-- `get_succeeding_event` (the `assert self._event_time_increasing(…)` included) -/
def HSched.get (cfg : Cfg κ) (s : HSched κ) : HSched κ × GetRes κ :=
  let (heap, top) := root cfg (deadCb s.mv) s.heap
  let s := { s with heap := heap }
  if top.h == 0 then (s, .empty)
  else if cfg.lt top.key s.last then (s, .guard top.h top.key)
  else ({ s with last := top.key }, .ok top.h top.key)

/-- the loop of `__getstate__`: `entry(index)` for `index = 0, 1, …` until the `NULL` handler.
Returns the entries and whether any `entry` call left the block. -/
def getstateLoop (cfg : Cfg κ) (hp : CHeap κ) : Nat → Nat → List (Entry κ) × Bool
  | 0, _ => ([], true)
  | fuel + 1, idx =>
    let (e, f) := entry cfg hp idx
    if e.h == 0 then ([], f)
    else
      let (l, f') := getstateLoop cfg hp fuel (idx + 1)
      (e :: l, f || f')

def HSched.getstate (cfg : Cfg κ) (s : HSched κ) : List (Entry κ) × Bool :=
  getstateLoop cfg s.heap (s.heap.length + 1) 0

/-- `__setstate__`: fresh heap, the pickled entries re-inserted in order -/
def setstateHeap (cfg : Cfg κ) (l : List (Entry κ)) : CHeap κ :=
  l.foldl (fun hp e => insert cfg hp e.key e.h e.c) CHeap.empty

/-- `pickle.loads(pickle.dumps(s))` -/
def HSched.pickle (cfg : Cfg κ) (s : HSched κ) : HSched κ :=
  let (l, f) := s.getstate cfg
  let hp := setstateHeap cfg l
  { s with heap := { hp with fault := hp.fault || f || s.heap.fault } }

/-! ### ListScheduler -/

structure LSched (κ : Type) where
  /-- `_times` -/
  times : List (κ × Nat)
  last : κ

def LSched.init (cfg : Cfg κ) : LSched κ := ⟨[], cfg.bot⟩

/-- `push_event`: append (infinite times included) -/
def LSched.push (s : LSched κ) (t : κ) (h : Nat) : LSched κ := { s with times := s.times ++ [(t, h)] }

/-- Python `min(list, key=…)`: the leftmost minimum (an item replaces the current best only if its key
is strictly smaller) -/
def minBy (lt : κ → κ → Bool) (x : κ × Nat) (l : List (κ × Nat)) : κ × Nat :=
  l.foldl (fun best e => if lt e.1 best.1 then e else best) x

/-- `get_succeeding_event` -/
def LSched.get (cfg : Cfg κ) (s : LSched κ) : LSched κ × GetRes κ :=
  match s.times with
  | [] => (s, .empty)
  | x :: xs =>
    let m := minBy cfg.lt x xs
    if cfg.lt m.1 s.last then (s, .guard m.2 m.1)
    else ({ s with last := m.1 }, .ok m.2 m.1)

/-- `trash_event`: `list.remove` of the first element of that handler; `none` = `SchedulerError` -/
def LSched.trash (s : LSched κ) (h : Nat) : Option (LSched κ) :=
  if s.times.any (fun p => p.2 == h) then some { s with times := s.times.eraseP (fun p => p.2 == h) }
  else none

/-! ### instance used by the driver: keys are `Time Float` -/

def fInf : Float := 1.0 / 0.0

def floatCfg : Cfg (Time Float) where
  lt := Time.cLt
  bot := ⟨-fInf, -fInf⟩
  finite t := Time.lt t ⟨fInf, fInf⟩
  garbage i := ⟨⟨0.0 / 0.0, 0.0 / 0.0⟩, 900000 + i, 12345⟩

/-- the number of values of a C `unsigned int` -/
def uintRange : Nat := 4294967296

end JF.Sched
