import JF.Model.Mediator
import JF.Model.ConcreteWorld
/-
The composed system for the concrete coulomb_atoms world: the mediator loop of `JF/Model/Mediator.lean` (`JF.Med.leg`, spec-level
scheduler) running on the concrete global state of `JF/Model/ConcreteWorld.lean` (point masses + one carried
`SingleActiveCellOccupancy`).  This file has the executable pieces only:

* `XTime` — candidate event times of the exact reading: a `Time Rat`, or one of the two infinite values of `base/time.py`
  (`Time(-inf, -inf)`: the sentinel `_last_returned_event` of a fresh scheduler; `Time(inf, inf)`: "no event", never pushed into
  the heap).  `Ops.rat` has no infinite scalar (`isInf = false`), so the two values are constructors here.  `xcfg` is the scheduler
  configuration over `XTime`: the comparison is `Time.cLt` (the comparison of `heap.c`) on finite times.
* `kindOfH` — handler ↦ handler kind of its tagger (`TagActivator._event_handler_tagger_dictionary`, then the wiring).
* `Sys` — the state of the composed system at the boundary between two passes of the loop body of `SingleProcessMediator.run`,
  with ghost fields (what the previous pass handed out / saw) that the invariants of `JF/Props/SystemInv.lean` speak about.
* `occNext` — the occupancy after `for internal_state in self._internal_states: internal_state.update(...)` of the NEXT call of
  `get_event_handlers_to_run` (the first call — `preceding_event_handler is None` — does not update internal states).

Core Lean only.
-/
namespace JF.Sys
open JF JF.Act JF.Heap JF.Sched JF.Med JF.CW

instance : DecidableEq (Time Rat) := fun a b =>
  if h : a.q = b.q ∧ a.r = b.r then isTrue (by cases a; cases b; cases h; simp_all)
  else isFalse (by intro e; apply h; rw [e]; exact ⟨rfl, rfl⟩)

/-- candidate event times, exact reading -/
inductive XTime where
  /-- `Time(-inf, -inf)` -/
  | bot
  | fin (t : Time Rat)
  /-- `Time(inf, inf)` -/
  | inf
deriving DecidableEq

/-- `Time.cLt` extended by the two infinite values -/
def XTime.lt : XTime → XTime → Bool
  | _, .bot => false
  | .bot, _ => true
  | .inf, _ => false
  | .fin _, .inf => true
  | .fin a, .fin b => Time.cLt a b

/-- `time < inf` -/
def XTime.finite : XTime → Bool
  | .fin _ => true
  | _ => false

/-- the scheduler configuration of the exact reading (`garbage`, the content of fresh heap memory, is irrelevant for the
spec-level scheduler) -/
def xcfg : Cfg XTime := ⟨XTime.lt, .bot, XTime.finite, fun _ => ⟨.bot, 0, 0⟩⟩

/-- handler kind of the tagger that owns handler `h` -/
def kindOfH (c : Wiring) (h : HandlerId) : HandlerKind :=
  match owner c.wires h with
  | some E => (c.tagger E).kind
  | none => .unknown

/-- the composed system between two legs -/
structure Sys where
  /-- activator bookkeeping, scheduler, `_event_handler_with_shortest_event_time` -/
  med : MedState (SSched XTime)
  /-- the global state of point masses (after the last commit) -/
  us : List (PUnit Rat)
  /-- the activator's internal state as of its last `update` (it is updated at the beginning of the next leg) -/
  occ : Occ.State
  /-- ghost: the in-state identifiers the activator handed out with each handler (`dictionary[handler] = identifiers`) -/
  ids : HandlerId → IdTuple
  /-- ghost: the global state of point masses before the last commit (the state the last leg's candidates were computed on) -/
  usPrev : List (PUnit Rat)
  /-- ghost: the activator's lists in the middle of the last leg (after `get_event_handlers_to_run`, before the trash) -/
  mid : Act

/-- the occupancy the next call of `get_event_handlers_to_run` works with -/
def occNext (env : Env Rat) (hasOcc : Bool) (s : Sys) : Option Occ.State :=
  if s.med.act.started then occAfter env hasOcc s.occ s.us else some s.occ

/-- the units `SingleActiveCellOccupancy.initialize` loops over: all point masses, in order -/
def unitsOf (env : Env Rat) (us : List (PUnit Rat)) : List Occ.UnitIn := (List.range us.length).map (unitIn env us)

/-- the mediator's view of the wiring; `needs h` = `event_handler.number_send_event_time_arguments != 0` -/
def mwire (c : Wiring) (S : TaggerIdx) (needs : HandlerId → Bool) : MWire := MWire.ofWiring c S needs

/-- the state before the first leg -/
def Sys.init (c : Wiring) (us : List (PUnit Rat)) (occ : Occ.State) : Sys :=
  ⟨MedState.init (specI xcfg) c.wires, us, occ, fun _ => none, us, initAct c.wires⟩

end JF.Sys
