import JF.Num.Ops
/-!
Executable model of the `derivative` routines of `/repo/jellyfysh/potential` (property C03).

* `potential/abstracts.py`   : `StandardVelocityPotential.derivative`, `_analyse_velocity`
* `potential/potential.py`   : `Potential.__init__` (prefactor must not be `0.0`)
* `base/vectors.py`          : `norm` (`sum(c*c) ** 0.5`, CPython >= 3.12 `sum` = Neumaier), `permutation_3d`
* `potential/inverse_power_potential.py`, `lennard_jones_potential.py`,
  `displaced_even_power_potential.py`, `bending_potential.py` : `standard_velocity_derivative`
* `potential/inverse_power_coulomb_bounding_potential/*.c`   : `derivative`
* `potential/merged_image_coulomb_potential/*.c`             : `construct_…`, `derivative`
  (the Ewald derivative is in `DerivativeEwald.lean`)

Everything is written ONCE, generically over a scalar type `α` and a record `DOps α` of the
non-field operations (`sqrt pow exp erfc cos sin acos π`, literals, finiteness test).  Two readings:

* `DOps.float` (this file)            : binary64, libm through Lean's native `Float`, own `erfc`;
                                         this is what the driver `jf_deriv` runs against the real code;
* `DOps.real`  (`JF/Lemmas/DerivReal`) : `ℝ` with Mathlib's `Real.sqrt`, `Real.rpow`, … and `erfc` a
                                         parameter; this is what the theorems of `JF/Props/C03` are about.

Python-level exceptions are explicit outcomes (`Except String`): `ZeroDivisionError` (float `/`),
`OverflowError` (float `**`), `ValueError` (`math.acos`), `AssertionError` (`_analyse_velocity`),
`ConfigurationError` (constructors).  The C routines never raise; they return `inf`/`nan`.
No Mathlib import: this file is linked into the driver.
-/
namespace JF.Deriv

/-- scalar operations that are not field operations -/
structure DOps (α : Type) where
  ofInt : Int → α
  /-- `Py_IS_FINITE` -/
  isFinite : α → Bool
  sqrt : α → α
  /-- C `pow` -/
  pow : α → α → α
  exp : α → α
  erfc : α → α
  cos : α → α
  sin : α → α
  acos : α → α
  /-- `M_PI` -/
  pi : α

abbrev Res (α : Type) := Except String α

/-- a three-component vector (all derivative routines are used in three dimensions) -/
structure V3 (α : Type) where
  x : α
  y : α
  z : α

def V3.get {α : Type} (v : V3 α) (i : Nat) : α :=
  match i with
  | 0 => v.x
  | 1 => v.y
  | _ => v.z

/-- `vectors.permutation_3d`: rotate until the component at `d` is first
(`itemgetter(0,1,2)`, `itemgetter(1,2,0)`, `itemgetter(2,0,1)`) -/
def V3.perm {α : Type} (v : V3 α) (d : Nat) : V3 α :=
  match d with
  | 0 => ⟨v.x, v.y, v.z⟩
  | 1 => ⟨v.y, v.z, v.x⟩
  | _ => ⟨v.z, v.x, v.y⟩

section generic
variable {α : Type} [Add α] [Sub α] [Mul α] [Div α] [Neg α] [LT α] [DecidableLT α]
  [LE α] [DecidableLE α] [BEq α]

/-! ### Python float semantics -/

/-- Python `x / y` on floats (`float_div`): `ZeroDivisionError` for a zero divisor -/
def pyDiv (o : DOps α) (x y : α) : Res α :=
  if y == o.ofInt 0 then .error "ZeroDivisionError" else .ok (x / y)

/-- Python `x ** y` on floats (`float_pow`) for finite `x`, `y` with `y ≠ 0` and not (`x = 0 ∧ y < 0`):
libm `pow`, an overflowing result raises `OverflowError`, an underflowing one is returned. -/
def pyPow (o : DOps α) (x y : α) : Res α :=
  let r := o.pow x y
  if !(o.isFinite r) && o.isFinite x then .error "OverflowError" else .ok r

def fabs (o : DOps α) (x : α) : α := if x < o.ofInt 0 then -x else x

/-- one step of CPython's float `sum` loop (Neumaier), state `(f_result, c)` -/
def sumStep (o : DOps α) (st : α × α) (x : α) : α × α :=
  let f := st.1
  let t := f + x
  let c := if fabs o x ≤ fabs o f then st.2 + ((f - t) + x) else st.2 + ((x - t) + f)
  (t, c)

/-- builtin `sum(xs)` of floats with the default start `0` (`Python/bltinmodule.c`, 3.12):
the first item is added to the integer `0`, the others by compensated summation, the
compensation is added at the end if it is non-zero and finite. -/
def pySum (o : DOps α) (xs : List α) : α :=
  match xs with
  | [] => o.ofInt 0
  | x :: rest =>
    let st := rest.foldl (sumStep o) (o.ofInt 0 + x, o.ofInt 0)
    if !(st.2 == o.ofInt 0) && o.isFinite st.2 then st.1 + st.2 else st.1

def half (o : DOps α) : α := o.ofInt 1 / o.ofInt 2

/-- `vectors.norm`: `sum(component * component for component in vector) ** 0.5` -/
def norm (o : DOps α) (v : V3 α) : Res α :=
  pyPow o (pySum o [v.x * v.x, v.y * v.y, v.z * v.z]) (half o)

/-- `StandardVelocityPotential._analyse_velocity` -/
def analyseVelocity (o : DOps α) (v : V3 α) : Res (Nat × α) :=
  match [0, 1, 2].filter (fun i => !(v.get i == o.ofInt 0)) with
  | [d] => if o.ofInt 0 < v.get d then .ok (d, v.get d) else .error "AssertionError"
  | _ => .error "AssertionError"

/-- `StandardVelocityPotential.derivative`: space derivative along the axis times the speed -/
def timeDerivative (o : DOps α) (v : V3 α) (svd : Nat → Res α) : Res α := do
  let (d, speed) ← analyseVelocity o v
  let r ← svd d
  return r * speed

/-! ### `InversePowerPotential` -/

structure IP (α : Type) where
  power : α
  prefactor : α
  powerPlusTwo : α

/-- `InversePowerPotential.__init__` -/
def IP.make (o : DOps α) (power prefactor : α) : Res (IP α) :=
  if prefactor == o.ofInt 0 then .error "ConfigurationError"
  else if !(decide (o.ofInt 0 < power)) then .error "ConfigurationError"
  else .ok ⟨power, prefactor, power + o.ofInt 2⟩

/-- `InversePowerPotential.standard_velocity_derivative`:
`power * separation[direction] / norm(separation) ** power_plus_two * prefactor * c1 * c2` -/
def IP.svd (o : DOps α) (p : IP α) (d : Nat) (s : V3 α) (c1 c2 : α) : Res α := do
  let n ← norm o s
  let den ← pyPow o n p.powerPlusTwo
  let q ← pyDiv o (p.power * s.get d) den
  return q * p.prefactor * c1 * c2

def IP.derivative (o : DOps α) (p : IP α) (v s : V3 α) (c1 c2 : α) : Res α :=
  timeDerivative o v (fun d => p.svd o d s c1 c2)

/-! ### `MexicanHatPotential.__init__` (shared by Lennard-Jones and displaced even power) -/

def mexicanHatInit (o : DOps α) (prefactor eqSep : α) : Res Unit :=
  if prefactor == o.ofInt 0 then .error "ConfigurationError"          -- `Potential.__init__`
  else if !(decide (o.ofInt 0 < prefactor)) then .error "ConfigurationError"
  else if !(decide (o.ofInt 0 < eqSep)) then .error "ConfigurationError"
  else .ok ()

/-! ### `LennardJonesPotential` -/

structure LJ (α : Type) where
  six : IP α
  twelve : IP α

/-- `LennardJonesPotential.__init__`: `InversePowerPotential(6, -prefactor * cl ** 6)` and
`InversePowerPotential(12, prefactor * cl ** 12)` -/
def LJ.make (o : DOps α) (prefactor cl : α) : Res (LJ α) := do
  mexicanHatInit o prefactor (cl * o.pow (o.ofInt 2) (o.ofInt 1 / o.ofInt 6))
  let c6 ← pyPow o cl (o.ofInt 6)
  let six ← IP.make o (o.ofInt 6) ((-prefactor) * c6)
  let c12 ← pyPow o cl (o.ofInt 12)
  let twelve ← IP.make o (o.ofInt 12) (prefactor * c12)
  return ⟨six, twelve⟩

/-- `LennardJonesPotential.standard_velocity_derivative` -/
def LJ.svd (o : DOps α) (p : LJ α) (d : Nat) (s : V3 α) : Res α := do
  let a ← p.six.svd o d s (o.ofInt 1) (o.ofInt 1)
  let b ← p.twelve.svd o d s (o.ofInt 1) (o.ofInt 1)
  return a + b

def LJ.derivative (o : DOps α) (p : LJ α) (v s : V3 α) : Res α :=
  timeDerivative o v (fun d => p.svd o d s)

/-! ### `DisplacedEvenPowerPotential` -/

structure DEP (α : Type) where
  eqSep : α
  power : Int
  prefactor : α

def DEP.make (o : DOps α) (eqSep : α) (power : Int) (prefactor : α) : Res (DEP α) := do
  mexicanHatInit o prefactor eqSep
  if !(decide (0 < power) && power % 2 == 0) then .error "ConfigurationError"
  else .ok ⟨eqSep, power, prefactor⟩

/-- `DisplacedEvenPowerPotential.standard_velocity_derivative`:
`- power * prefactor * (norm - r0) ** (power - 1) * separation[direction] / norm` -/
def DEP.svd (o : DOps α) (p : DEP α) (d : Nat) (s : V3 α) : Res α := do
  let n ← norm o s
  let w ← pyPow o (n - p.eqSep) (o.ofInt (p.power - 1))
  pyDiv o (o.ofInt (-p.power) * p.prefactor * w * s.get d) n

def DEP.derivative (o : DOps α) (p : DEP α) (v s : V3 α) : Res α :=
  timeDerivative o v (fun d => p.svd o d s)

/-! ### `BendingPotential` -/

structure Bend (α : Type) where
  eqAngle : α
  prefactor : α

def Bend.make (o : DOps α) (eqAngle prefactor : α) : Res (Bend α) :=
  if prefactor == o.ofInt 0 then .error "ConfigurationError" else .ok ⟨eqAngle, prefactor⟩

/-- `math.acos`: `ValueError` outside `[-1, 1]` (a NaN argument passes through) -/
def pyAcos (o : DOps α) (x : α) : Res α :=
  if x < o.ofInt (-1) ∨ o.ofInt 1 < x then .error "ValueError" else .ok (o.acos x)

/-- `BendingPotential.standard_velocity_derivative`: the derivatives with respect to `i`, `j`, `k`
(`separation_one = r_i - r_j`, `separation_two = r_k - r_j`) -/
def Bend.svd (o : DOps α) (p : Bend α) (d : Nat) (s1 s2 : V3 α) : Res (α × α × α) := do
  let n1 ← norm o s1
  let n2 ← norm o s2
  let dot := pySum o [s1.x * s2.x, s1.y * s2.y, s1.z * s2.z]
  let c0 ← pyDiv o dot n1
  let c ← pyDiv o c0 n2
  let angle ← pyAcos o c
  let dUdphi := p.prefactor * (angle - p.eqAngle)
  let dphidc ← pyDiv o (o.ofInt (-1)) (o.sin angle)
  -- d_cosine_by_d_separation_one
  let a0 ← pyDiv o (s2.get d) n1
  let a ← pyDiv o a0 n2
  let n1sq ← pyPow o n1 (o.ofInt 2)
  let b ← pyDiv o (c * s1.get d) n1sq
  let dc1 := a - b
  -- d_cosine_by_d_separation_two
  let a0' ← pyDiv o (s1.get d) n1
  let a' ← pyDiv o a0' n2
  let n2sq ← pyPow o n2 (o.ofInt 2)
  let b' ← pyDiv o (c * s2.get d) n2sq
  let dc2 := a' - b'
  let d1 := dUdphi * dphidc * dc1
  let d2 := dUdphi * dphidc * dc2
  return (d1, (-d1) - d2, d2)

/-- `BendingPotential.derivative` -/
def Bend.derivative (o : DOps α) (p : Bend α) (v s1 s2 : V3 α) : Res (α × α × α) := do
  let (d, speed) ← analyseVelocity o v
  let (a, b, c) ← p.svd o d s1 s2
  return (a * speed, b * speed, c * speed)

/-! ### `InversePowerCoulombBoundingPotential` (C) -/

/-- C `derivative(prefactor_product, sx, sy, sz)`:
`prefactor_product * sx / pow(sx * sx + sy * sy + sz * sz, 3.0 / 2.0)` -/
def boundC (o : DOps α) (pp sx sy sz : α) : α :=
  pp * sx / o.pow (sx * sx + sy * sy + sz * sz) (o.ofInt 3 / o.ofInt 2)

structure Bound (α : Type) where
  prefactor : α

def Bound.make (o : DOps α) (prefactor : α) : Res (Bound α) :=
  if prefactor == o.ofInt 0 then .error "ConfigurationError" else .ok ⟨prefactor⟩

/-- `InversePowerCoulombBoundingPotential.standard_velocity_derivative` -/
def Bound.svd (o : DOps α) (p : Bound α) (d : Nat) (s : V3 α) (c1 c2 : α) : α :=
  let q := s.perm d
  boundC o (p.prefactor * c1 * c2) q.x q.y q.z

def Bound.derivative (o : DOps α) (p : Bound α) (v s : V3 α) (c1 c2 : α) : Res α :=
  timeDerivative o v (fun d => .ok (p.svd o d s c1 c2))

end generic

/-! ### binary64 reading -/

/-- `erf x` for `0 ≤ x < 2`: `2/√π · e^{-x²} · Σ 2ⁿ x^{2n+1} / (2n+1)!!` (all terms positive) -/
def erfSeries (x : Float) : Float :=
  let (_, s) := (List.range 79).foldl (fun (ts : Float × Float) k =>
    let t := ts.1 * (2.0 * x * x) / (2.0 * (Float.ofNat (k + 1)) + 1.0)
    (t, ts.2 + t)) (x, x)
  2.0 / Float.sqrt 3.141592653589793 * Float.exp (-(x * x)) * s

/-- `erfc x` for `x ≥ 2`: continued fraction `e^{-x²}/√π · 1/(x + (1/2)/(x + 1/(x + (3/2)/(x + …))))`,
evaluated backwards from depth 120 -/
def erfcCF (x : Float) : Float :=
  let f := (List.range 120).foldl (fun f k => x + (Float.ofNat (120 - k) / 2.0) / f) x
  Float.exp (-(x * x)) / Float.sqrt 3.141592653589793 / f

/-- complementary error function, relative accuracy ≈ 2·10⁻¹³ (checked against libm in every run) -/
def erfcF (x : Float) : Float :=
  if x < 0.0 then
    let y := -x
    2.0 - (if y < 2.0 then 1.0 - erfSeries y else erfcCF y)
  else if x < 2.0 then 1.0 - erfSeries x
  else erfcCF x

def DOps.float : DOps Float where
  ofInt n := Float.ofInt n
  isFinite := JF.fIsFinite
  sqrt := Float.sqrt
  pow := Float.pow
  exp := Float.exp
  erfc := erfcF
  cos := Float.cos
  sin := Float.sin
  acos := Float.acos
  pi := 3.141592653589793

end JF.Deriv
