import JF.Model.Potential.Derivative
/-!
Executable model of `merged_image_coulomb_potential.c` (`construct_merged_image_coulomb_potential`,
`derivative`) and of `MergedImageCoulombPotential.standard_velocity_derivative` (the Python wrapper),
generic in the scalar like `Derivative.lean`.

The loops are modelled as left folds over the index lists the C `for` statements run through, in the
same order, with the same accumulation order `derivative += term`.  The integer cut-offs
`(int) sqrt(c*c - k*k)` are modelled by `Nat.sqrt` (equal for every integer below 2^52 because C `sqrt`
is correctly rounded; the harness checks `int(math.sqrt(n)) == math.isqrt(n)` on the range it uses).
-/
namespace JF.Deriv

/-- `struct MergedImageCoulombPotential` -/
structure Ewald (α : Type) where
  fc : Nat
  pc : Nat
  aol : α
  aolSq : α
  twoAolRootPi : α
  L : α
  twoPiOverL : α
  /-- `fourier_array[i][j][k]`, defined for `1 ≤ i ≤ fc`, `0 ≤ j, k ≤ fc` -/
  farr : Nat → Nat → Nat → α

/-- registers of the Fourier loop -/
structure FS (α : Type) where
  d : α
  cx : α
  sx : α
  cy : α
  sy : α
  cz : α
  sz : α

/-- `delta_cos_x … delta_sin_z` -/
structure Deltas (α : Type) where
  cx : α
  sx : α
  cy : α
  sy : α
  cz : α
  sz : α

section generic
variable {α : Type} [Add α] [Sub α] [Mul α] [Div α] [Neg α]

/-- the multiplicity 1 / 2 / 4 of an octant point -/
def coefficient (o : DOps α) (j k : Nat) : α :=
  if j == 0 && k == 0 then o.ofInt 1 else if k == 0 || j == 0 then o.ofInt 2 else o.ofInt 4

/-- `fourier_array[i][j][k] = 4.0 * i * coefficient / (norm_sq * L * L) * exp(- M_PI * M_PI * norm_sq / (alpha * alpha))` -/
def fourierCoeff (o : DOps α) (alpha L : α) (i j k : Nat) : α :=
  let normSq := o.ofInt ((i * i + j * j + k * k : Nat) : Int)
  o.ofInt 4 * o.ofInt (i : Int) * coefficient o j k / (normSq * L * L)
    * o.exp ((-o.pi) * o.pi * normSq / (alpha * alpha))

/-- `construct_merged_image_coulomb_potential` -/
def Ewald.construct (o : DOps α) (fc pc : Nat) (alpha L : α) : Ewald α where
  fc := fc
  pc := pc
  aol := alpha / L
  aolSq := alpha * alpha / (L * L)
  twoAolRootPi := o.ofInt 2 * alpha / (L * o.sqrt o.pi)
  L := L
  twoPiOverL := o.ofInt 2 * o.pi / L
  farr := fourierCoeff o alpha L

/-- the index list of `for (i = -c; i < c + 1; i++)` -/
def intRange (c : Nat) : List Int := (List.range (2 * c + 1)).map (fun (n : Nat) => (n : Int) - (c : Int))

/-- `(int) sqrt(c * c - a * a - b * b)` -/
def cutoff (c : Nat) (a b : Int) : Nat := Nat.sqrt (c * c - a.natAbs * a.natAbs - b.natAbs * b.natAbs)

/-- one term of the position-space sum -/
def posTerm (o : DOps α) (p : Ewald α) (sx sy sz : α) (i j k : Int) : α :=
  let vzSq := (sz + o.ofInt k * p.L) * (sz + o.ofInt k * p.L)
  let vySq := (sy + o.ofInt j * p.L) * (sy + o.ofInt j * p.L)
  let vx := sx + o.ofInt i * p.L
  let vSq := vx * vx + vySq + vzSq
  let vn := o.sqrt vSq
  vx * (p.twoAolRootPi * o.exp ((-p.aolSq) * vSq) + o.erfc (p.aol * vn) / vn) / vSq

/-- the position-space triple loop, accumulating onto `acc0` -/
def posSum (o : DOps α) (p : Ewald α) (sx sy sz : α) (acc0 : α) : α :=
  (intRange p.pc).foldl (fun acc k =>
    (intRange (cutoff p.pc k 0)).foldl (fun acc j =>
      (intRange (cutoff p.pc j k)).foldl (fun acc i => acc + posTerm o p sx sy sz i j k) acc) acc) acc0

/-- body of the innermost Fourier loop: accumulate, then advance exactly one of the three
trigonometric recurrences (or none at the very last point) -/
def fStep (o : DOps α) (p : Ewald α) (D : Deltas α) (i j cutY cutX : Nat) (s : FS α) (k : Nat) : FS α :=
  let d := s.d + p.farr i j k * s.sx * s.cy * s.cz
  if k != cutX then
    { s with d := d, cz := s.cz * D.cz - s.sz * D.sz, sz := s.sz * D.cz + s.cz * D.sz }
  else if j != cutY then
    { s with d := d, cy := s.cy * D.cy - s.sy * D.sy, sy := s.sy * D.cy + s.cy * D.sy,
             cz := o.ofInt 1, sz := o.ofInt 0 }
  else if i != p.fc then
    { d := d, cx := s.cx * D.cx - s.sx * D.sx, sx := s.sx * D.cx + s.cx * D.sx,
      cy := o.ofInt 1, sy := o.ofInt 0, cz := o.ofInt 1, sz := o.ofInt 0 }
  else { s with d := d }

/-- `for (k = 0; k < cutoff_x + 1; k++)` -/
def fLoopK (o : DOps α) (p : Ewald α) (D : Deltas α) (i cutY : Nat) (s : FS α) (j : Nat) : FS α :=
  let cutX := cutoff p.fc i j
  (List.range (cutX + 1)).foldl (fStep o p D i j cutY cutX) s

/-- `for (j = 0; j < cutoff_y + 1; j++)` -/
def fLoopJ (o : DOps α) (p : Ewald α) (D : Deltas α) (s : FS α) (i0 : Nat) : FS α :=
  let i := i0 + 1
  let cutY := cutoff p.fc i 0
  (List.range (cutY + 1)).foldl (fLoopK o p D i cutY) s

/-- the Fourier-space triple loop `for (i = 1; i < fourier_cutoff + 1; i++)` -/
def fourierSum (o : DOps α) (p : Ewald α) (D : Deltas α) (acc : α) : FS α :=
  (List.range p.fc).foldl (fLoopJ o p D)
    { d := acc, cx := D.cx, sx := D.sx, cy := o.ofInt 1, sy := o.ofInt 0, cz := o.ofInt 1, sz := o.ofInt 0 }

def deltas (o : DOps α) (p : Ewald α) (sx sy sz : α) : Deltas α where
  cx := o.cos (p.twoPiOverL * sx)
  sx := o.sin (p.twoPiOverL * sx)
  cy := o.cos (p.twoPiOverL * sy)
  sy := o.sin (p.twoPiOverL * sy)
  cz := o.cos (p.twoPiOverL * sz)
  sz := o.sin (p.twoPiOverL * sz)

/-- C `derivative(potential, sx, sy, sz)` -/
def ewaldC (o : DOps α) (p : Ewald α) (sx sy sz : α) : α :=
  (fourierSum o p (deltas o p sx sy sz) (posSum o p sx sy sz (o.ofInt 0))).d

end generic

section wrapper
variable {α : Type} [Add α] [Sub α] [Mul α] [Div α] [Neg α] [LT α] [DecidableLT α]
  [LE α] [DecidableLE α] [BEq α]

structure Merged (α : Type) where
  prefactor : α
  pot : Ewald α

/-- `MergedImageCoulombPotential.__init__` (in an initialised three-dimensional hypercubic setting) -/
def Merged.make (o : DOps α) (alpha : α) (fc pc : Int) (prefactor L : α) : Res (Merged α) :=
  if prefactor == o.ofInt 0 then .error "ConfigurationError"
  else if alpha ≤ o.ofInt 0 then .error "ConfigurationError"
  else if fc < 0 then .error "ConfigurationError"
  else if pc < 0 then .error "ConfigurationError"
  else .ok ⟨prefactor, Ewald.construct o fc.toNat pc.toNat alpha L⟩

/-- `MergedImageCoulombPotential.standard_velocity_derivative`:
`prefactor * c1 * c2 * lib.derivative(potential, *permutation_3d(separation, direction))` -/
def Merged.svd (o : DOps α) (m : Merged α) (d : Nat) (s : V3 α) (c1 c2 : α) : α :=
  let q := s.perm d
  m.prefactor * c1 * c2 * ewaldC o m.pot q.x q.y q.z

def Merged.derivative (o : DOps α) (m : Merged α) (v s : V3 α) (c1 c2 : α) : Res α :=
  timeDerivative o v (fun d => .ok (m.svd o d s c1 c2))

end wrapper
end JF.Deriv
