import JF.Num.Ops
/-!
Executable model (binary64, native `Float`, libm `pow`/`sqrt`) of the `displacement` routines of the
invertible potentials of `/repo/jellyfysh/potential`:

* `base/vectors.py`                      : `norm`, `norm_sq`, `dot`, `copy_vector_with_replaced_component`,
                                           `displacement_until_new_norm_sq_component_positive/negative`, `permutation_3d`
* `potential/abstracts.py`               : `StandardVelocityInvertiblePotential.displacement`, `_analyse_velocity`,
                                           `MexicanHatPotential` (four-way case tree, in-place separation updates,
                                           `try … except ValueError`)
* `potential/inverse_power_potential.py` : `potential`, `_displacement_repulsive`, `_displacement_attractive`
* `potential/lennard_jones_potential.py`, `potential/displaced_even_power_potential.py` : `_potential`, the two inversions
* `potential/inverse_power_coulomb_bounding_potential/*.c` : `potential`, `displacement` (whole-box laps + remainder)
* `potential/hard_sphere_potential.py`, `potential/hard_dipole_potential.py` : contact times
* `potential/cell_bounding_potential.py` : `ΔE / rate`

Written branch for branch after the source, *directly over `Float`* (the scalar record `Ops` has no `pow`).
Python's arithmetic exceptions are explicit outcomes (`throw "ZeroDivisionError"` …).  The ℝ-level
definitions the theorems of `JF/Props/C02.lean` talk about are written textually parallel to these
(`JF/Lemmas/Displacement*.lean`); the tie between the two readings is by inspection plus the
correspondence run of `harness/props/c02.py` (this file vs the real classes / the compiled C).

Every float comparison that decides a branch is *noted*: the state carries the smallest relative gap
`|a-b| / max(|a|,|b|)` of all comparisons taken, which the harness uses for the "boundary-ambiguous"
rule of DESIGN §5 C02.
-/
namespace JF.Pot

/-- state of one call: smallest relative gap of any deciding comparison so far, and the
(mutable, Python list) separation vector that `MexicanHatPotential` updates in place -/
structure St where
  gap : Float
  sep : List Float

abbrev M := ExceptT String (StateM St)

/-- `float('inf')` -/
def fInf : Float := 1.0 / 0.0

def relGap (a b : Float) : Float :=
  if a == b then 0.0
  else if a.isNaN || b.isNaN || a.isInf || b.isInf then 1.0
  else
    let m := if a.abs < b.abs then b.abs else a.abs
    (a - b).abs / m

/-- note a deciding comparison between `a` and `b` -/
def note (a b : Float) : M Unit :=
  modify fun s => let g := relGap a b; if g < s.gap then { s with gap := g } else s

def getSep : M (List Float) := do return (← get).sep
def setSep (l : List Float) : M Unit := modify fun s => { s with sep := l }

/-! ### Python float semantics -/

/-- `DOUBLE_IS_ODD_INTEGER` of CPython's `floatobject.c` -/
def isOddInt (y : Float) : Bool := JF.ffmod y.abs 2.0 == 1.0

/-- Python `x ** y` for two floats (`Objects/floatobject.c: float_pow`).  A negative base with a
non-integral exponent yields a `complex` in Python; in every use below that complex number reaches
`math.sqrt`, which raises `TypeError` — modelled as that outcome directly. -/
def pyPow (x y : Float) : M Float :=
  if y == 0.0 then pure 1.0
  else if x.isNaN then pure x
  else if y.isNaN then pure (if x == 1.0 then 1.0 else y)
  else if y.isInf then
    let iv := x.abs
    if iv == 1.0 then pure 1.0
    else if (decide (y > 0.0)) == (decide (iv > 1.0)) then pure y.abs
    else pure 0.0
  else if x.isInf then
    let odd := isOddInt y
    if y > 0.0 then pure (if odd then x else x.abs)
    else pure (if odd then (if x < 0.0 then -0.0 else 0.0) else 0.0)
  else if x == 0.0 then
    if y < 0.0 then throw "ZeroDivisionError"
    else pure (if isOddInt y then x else 0.0)
  else do
    let mut iv := x
    let mut neg := false
    if x < 0.0 then
      if y != y.floor then throw "TypeError"
      iv := -x
      neg := isOddInt y
    if iv == 1.0 then return (if neg then -1.0 else 1.0)
    let r := Float.pow iv y
    -- `_Py_ADJUST_ERANGE1`: overflow → `OverflowError`, underflow to zero is not an error
    if r.isInf then throw "OverflowError"
    return (if neg then -r else r)

/-- Python `a / b` for floats -/
def pyDiv (a b : Float) : M Float :=
  if b == 0.0 then throw "ZeroDivisionError" else pure (a / b)

/-- `math.sqrt` -/
def pySqrt (x : Float) : M Float :=
  if x < 0.0 then throw "ValueError" else pure x.sqrt

/-- Python `assert` -/
def pyAssert (b : Bool) : M Unit := if b then pure () else throw "AssertionError"

/-! ### `base/vectors.py` -/

/-- Builtin `sum(...)` of floats with the integer start value `0`, as CPython ≥ 3.12 computes it
(`Python/bltinmodule.c: builtin_sum_impl`): the first float is added to the integer `0`, every further
float enters a Neumaier compensated summation, the compensation is added at the end if it is non-zero
and finite.  (The interpreter under test is 3.12.1.) -/
def pySum (l : List Float) : Float :=
  match l with
  | [] => 0.0
  | x0 :: rest =>
    let st := rest.foldl (fun (st : Float × Float) x =>
      let (f, c) := st
      let t := f + x
      if f.abs >= x.abs then (t, c + ((f - t) + x)) else (t, c + ((x - t) + f))) (0.0 + x0, 0.0)
    if st.2 != 0.0 && st.2.isFinite then st.1 + st.2 else st.1

/-- `vectors.norm_sq` -/
def normSq (v : List Float) : Float := pySum (v.map fun c => c * c)

/-- `vectors.norm` : `sum(c * c) ** 0.5` -/
def norm (v : List Float) : M Float := pyPow (normSq v) 0.5

/-- `vectors.dot` -/
def dot (a b : List Float) : M Float := do
  pyAssert (a.length == b.length)
  return pySum (List.zipWith (· * ·) a b)

/-- `vectors.copy_vector_with_replaced_component` -/
def replaceAt : List Float → Nat → Float → List Float
  | [], _, _ => []
  | _ :: t, 0, r => r :: t
  | h :: t, n+1, r => h :: replaceAt t n r

/-- the components with index `≠ d` -/
def others : List Float → Nat → List Float
  | [], _ => []
  | _ :: t, 0 => t
  | h :: t, n+1 => h :: others t n

def comp (v : List Float) (d : Nat) : Float := v.getD d 0.0

/-- `sum([value ** 2 for index, value in enumerate(old_vector) if index != translation_direction])` -/
def perpSq (v : List Float) (d : Nat) : M Float := do
  let sq ← (others v d).mapM fun c => pyPow c 2.0
  return pySum sq

/-- `vectors.displacement_until_new_norm_sq_component_positive` -/
def dispUntilPos (v : List Float) (nsq : Float) (d : Nat) : M Float := do
  pyAssert (comp v d > 0.0)
  let p ← perpSq v d
  note nsq p
  let r ← pySqrt (nsq - p)
  return comp v d - r

/-- `vectors.displacement_until_new_norm_sq_component_negative` -/
def dispUntilNeg (v : List Float) (nsq : Float) (d : Nat) : M Float := do
  pyAssert (comp v d <= 0.0)
  let p ← perpSq v d
  note nsq p
  let r ← pySqrt (nsq - p)
  return comp v d + r

/-- `vectors.permutation_3d` -/
def permutation3d (v : List Float) (d : Nat) : List Float :=
  match v, d with
  | [a, b, c], 0 => [a, b, c]
  | [a, b, c], 1 => [b, c, a]
  | [a, b, c], 2 => [c, a, b]
  | _, _ => v

/-! ### `StandardVelocityPotential._analyse_velocity` -/

def nonzeroIdx : List Float → Nat → List Nat
  | [], _ => []
  | h :: t, i => if h != 0.0 then i :: nonzeroIdx t (i+1) else nonzeroIdx t (i+1)

/-- returns (direction of motion, speed) -/
def analyseVelocity (vel : List Float) : M (Nat × Float) := do
  match nonzeroIdx vel 0 with
  | [d] =>
    pyAssert (comp vel d > 0.0)
    return (d, comp vel d)
  | _ => throw "AssertionError"

/-! ### `InversePowerPotential` -/

structure InvPow where
  power : Float
  prefactor : Float

namespace InvPow
/-- `self._two_over_power = 2.0 / self._power` -/
def twoOverPower (P : InvPow) : Float := 2.0 / P.power
/-- `self._power_over_two = self._power / 2.0` -/
def powerOverTwo (P : InvPow) : Float := P.power / 2.0

/-- `InversePowerPotential.potential` -/
def potential (P : InvPow) (cp : Float) (sep : List Float) : M Float := do
  let den ← pyPow (normSq sep) P.powerOverTwo
  pyDiv (cp * P.prefactor) den

/-- `InversePowerPotential._displacement_repulsive` (`none` = `float('inf')`) -/
def dispRepulsive (P : InvPow) (d : Nat) (cp dE : Float) (sep : List Float) : M Float := do
  note (comp sep d) 0.0
  if comp sep d <= 0.0 then return fInf
  let maxPot ← P.potential cp (replaceAt sep d 0.0)
  let cur ← P.potential cp sep
  note dE (maxPot - cur)
  if dE < maxPot - cur then
    let q ← pyDiv (cp * P.prefactor) (cur + dE)
    let nsq ← pyPow q P.twoOverPower
    dispUntilPos sep nsq d
  else return fInf

/-- `InversePowerPotential._displacement_attractive` -/
def dispAttractive (P : InvPow) (d : Nat) (cp dE : Float) (sep₀ : List Float) : M Float := do
  let mut sep := sep₀
  let mut cd : Float := 0.0
  note (comp sep d) 0.0
  if comp sep d > 0.0 then
    cd := cd + comp sep d
    sep := replaceAt sep d 0.0
  let cur ← P.potential cp sep
  note (cur + dE) 0.0
  if cur + dE >= 0.0 then return fInf
  let q ← pyDiv (cp * P.prefactor) (cur + dE)
  let nsq ← pyPow q P.twoOverPower
  let r ← dispUntilNeg sep nsq d
  return cd + r

/-- `InversePowerPotential.standard_velocity_displacement` -/
def svDisplacement (P : InvPow) (d : Nat) (sep : List Float) (c1 c2 dE : Float) : M Float := do
  let cp := c1 * c2
  let pp := P.prefactor * cp
  note pp 0.0
  if pp > 0.0 then P.dispRepulsive d cp dE sep else P.dispAttractive d cp dE sep

/-- `StandardVelocityInvertiblePotential.displacement` for the inverse power potential -/
def displacement (P : InvPow) (vel sep : List Float) (c1 c2 dE : Float) : M Float := do
  let (d, speed) ← analyseVelocity vel
  let r ← P.svDisplacement d sep c1 c2 dE
  pyDiv r speed
end InvPow

/-! ### `MexicanHatPotential` (generic in the three abstract methods) -/

structure Hat where
  /-- `_potential(separation)` -/
  pot : List Float → M Float
  /-- `_invert_potential_inside_minimum` -/
  invIn : Float → M Float
  /-- `_invert_potential_outside_minimum` -/
  invOut : Float → M Float
  /-- `self._equilibrium_separation` -/
  eq : Float
  /-- `self._equilibrium_separation_squared` -/
  eqSq : Float

namespace Hat
/-- `_displacement_front_outside_sphere` -/
def frontOutside (H : Hat) (d : Nat) (cur dE : Float) : M Float := do
  let n ← H.invOut (cur + dE)
  dispUntilNeg (← getSep) (n * n) d

/-- `_displacement_front_inside_sphere` -/
def frontInside (H : Hat) (d : Nat) (dE : Float) : M Float := do
  let sep ← getSep
  let disp ← dispUntilNeg sep H.eqSq d
  let sep := replaceAt sep d (comp sep d - disp)
  setSep sep
  let cur ← H.pot sep
  let r ← H.frontOutside d cur dE
  return disp + r

/-- `_displacement_behind_inside_sphere` -/
def behindInside (H : Hat) (d : Nat) (cur dE : Float) : M Float := do
  let sep ← getSep
  let maxIn ← H.pot (replaceAt sep d 0.0)
  let diff := maxIn - cur
  note dE diff
  if dE < diff then
    let n ← H.invIn (cur + dE)
    dispUntilPos sep (n * n) d
  else
    let disp := comp sep d
    setSep (replaceAt sep d 0.0)
    let dE := dE - diff
    let r ← H.frontInside d dE
    return disp + r

/-- `_displacement_behind_outside_sphere`: the `try` block may be left by a `ValueError` raised
*anywhere* inside it (also in the nested calls), with the separation as mutated so far. -/
def behindOutside (H : Hat) (d : Nat) (dE : Float) : M Float :=
  tryCatch
    (do
      let sep ← getSep
      let disp ← dispUntilPos sep H.eqSq d
      let sep := replaceAt sep d (comp sep d - disp)
      setSep sep
      let cur ← H.pot sep
      let r ← H.behindInside d cur dE
      return disp + r)
    (fun e => do
      if e != "ValueError" then throw e
      let sep ← getSep
      let disp := comp sep d
      let sep := replaceAt sep d 0.0
      setSep sep
      let cur ← H.pot sep
      let r ← H.frontOutside d cur dE
      return disp + r)

/-- `MexicanHatPotential.standard_velocity_displacement` -/
def svDisplacement (H : Hat) (d : Nat) (dE : Float) : M Float := do
  let sep ← getSep
  let n ← norm sep
  note n H.eq
  note (comp sep d) 0.0
  if n >= H.eq then
    if comp sep d <= 0.0 then
      let cur ← H.pot sep
      H.frontOutside d cur dE
    else H.behindOutside d dE
  else
    if comp sep d <= 0.0 then H.frontInside d dE
    else
      let cur ← H.pot sep
      H.behindInside d cur dE

/-- `StandardVelocityInvertiblePotential.displacement` -/
def displacement (H : Hat) (vel : List Float) (dE : Float) : M Float := do
  let (d, speed) ← analyseVelocity vel
  let r ← H.svDisplacement d dE
  pyDiv r speed
end Hat

/-! ### `LennardJonesPotential` -/

/-- constructor + the three abstract methods; `prefactor`, `characteristic_length` as given -/
def lennardJones (prefactor cl : Float) : M Hat := do
  -- `equilibrium_separation=characteristic_length * 2 ** (1 / 6)`
  let two16 ← pyPow 2.0 (1.0 / 6.0)
  let eq := cl * two16
  -- `MexicanHatPotential.__init__`: `equilibrium_separation ** 2`
  let eqSq ← pyPow eq 2.0
  let cl6 ← pyPow cl 6.0
  let cl12 ← pyPow cl 12.0
  let six : InvPow := ⟨6.0, (-prefactor) * cl6⟩
  let twelve : InvPow := ⟨12.0, prefactor * cl12⟩
  let pot := fun sep => do
    let a ← six.potential 1.0 sep
    let b ← twelve.potential 1.0 sep
    return a + b
  let invIn := fun (p : Float) => do
    let q ← pyDiv (4.0 * p) prefactor
    let s ← pyPow (1.0 + q) 0.5
    let s6 := (1.0 + s) / 2.0
    let r ← pyPow s6 (1.0 / 6.0)
    pyDiv cl r
  let invOut := fun (p : Float) => do
    note p 0.0
    if p >= 0.0 then return fInf
    else
      let q ← pyDiv (4.0 * p) prefactor
      let s ← pyPow (1.0 + q) 0.5
      let s6 := (1.0 - s) / 2.0
      let r ← pyPow s6 (1.0 / 6.0)
      pyDiv cl r
  return { pot, invIn, invOut, eq, eqSq }

/-! ### `DisplacedEvenPowerPotential` -/

def evenPower (eq power prefactor : Float) : Hat :=
  let inversePower := 1.0 / power
  { pot := fun sep => do
      let n ← norm sep
      let p ← pyPow (n - eq) power
      return prefactor * p
    invIn := fun p => do
      let q ← pyDiv p prefactor
      let r ← pyPow q inversePower
      return eq - r
    invOut := fun p => do
      let q ← pyDiv p prefactor
      let r ← pyPow q inversePower
      return eq + r
    eq := eq
    eqSq := eq * eq }

/-! ### C: `inverse_power_coulomb_bounding_potential.c` -/

/-- C `potential` -/
def cbPotential (pp sx sy sz : Float) : Float := pp / (sx * sx + sy * sy + sz * sz).sqrt

/-- C `non_negative`: zero for a rounding-negative value, a nan is returned unchanged -/
def cbNonNeg (x : Float) : Float := if x < 0.0 then 0.0 else x

/-- C `displacement` (no exceptions in C: NaN/inf propagate).  Returns the value and notes comparisons. -/
def cbDisplacementC (pp sx₀ sy sz dE₀ L : Float) : M Float := do
  let half := L / 2.0
  let mut sx := sx₀
  let mut cur := cbPotential pp sx sy sz
  let pot0 := cbPotential pp 0.0 sy sz
  let potHalf := cbPotential pp half sy sz
  let perL := (pot0 - potHalf).abs
  -- number of complete trips derived from the exact remainder (`round((dE - fmod(dE, c)) / c)`)
  let mut dE := JF.ffmod dE₀ perL
  let mut disp := ((dE₀ - dE) / perL).round * L
  note pp 0.0
  if pp > 0.0 then
    note sx 0.0
    if sx <= 0.0 then
      disp := disp + (half + sx)
      sx := half
      cur := potHalf
    else
      note dE (pot0 - cur)
      if dE >= pot0 - cur then
        dE := dE - (pot0 - cur)
        disp := disp + (sx + half)
        sx := half
        cur := potHalf
    let nn := pp / (cur + dE)
    disp := disp + (sx - (cbNonNeg (nn * nn - (sy * sy + sz * sz))).sqrt)
  else
    note sx 0.0
    if sx > 0.0 then
      disp := disp + sx
      sx := 0.0
      cur := pot0
    else
      note dE (potHalf - cur)
      if dE >= potHalf - cur then
        dE := dE - (potHalf - cur)
        disp := disp + (sx + L)
        sx := 0.0
        cur := pot0
    let nn := pp / (cur + dE)
    disp := disp + (sx + (cbNonNeg (nn * nn - (sy * sy + sz * sz))).sqrt)
  return disp

/-- `InversePowerCoulombBoundingPotential.displacement` (Python wrapper + C) -/
def cbDisplacement (prefactor L : Float) (vel sep : List Float) (c1 c2 dE : Float) : M Float := do
  let (d, speed) ← analyseVelocity vel
  match permutation3d sep d with
  | [sx, sy, sz] =>
    let r ← cbDisplacementC (prefactor * c1 * c2) sx sy sz dE L
    pyDiv r speed
  | _ => throw "AssertionError"

/-! ### hard cores -/

/-- `HardSpherePotential.displacement`; `diamSq = 4.0 * radius * radius` -/
def hardSphere (radius : Float) (vel sep : List Float) : M Float := do
  let diamSq := 4.0 * radius * radius
  let v2 := normSq vel
  pyAssert (v2 > 0.0)
  let s2 := normSq sep
  pyAssert (s2 - diamSq > -1.0e-13)
  let vs ← dot vel sep
  let t := vs * vs - v2 * (s2 - diamSq)
  note t 0.0
  note vs 0.0
  if t >= 0.0 && vs >= 0.0 then
    let r ← pySqrt t
    pyDiv (vs - r) v2
  else return fInf

/-- `HardDipolePotential.displacement` -/
def hardDipole (minSep maxSep : Float) (vel sep : List Float) : M Float := do
  let minSq := minSep * minSep
  let maxSq := maxSep * maxSep
  let v2 := normSq vel
  pyAssert (v2 > 0.0)
  let s2 := normSq sep
  pyAssert (s2 - minSq > -1.0e-13)
  pyAssert (maxSq - s2 > -1.0e-13)
  let vs ← dot vel sep
  note vs 0.0
  let inner : M (Option Float) := do
    if vs >= 0.0 then
      let t := vs * vs - v2 * (s2 - minSq)
      note t 0.0
      if t >= 0.0 then
        let r ← pySqrt t
        let q ← pyDiv (vs - r) v2
        return some q
    return none
  match ← inner with
  | some q => return q
  | none =>
    let t := vs * vs - v2 * (s2 - maxSq)
    pyAssert (t >= 0.0)
    let r ← pySqrt t
    pyDiv (vs + r) v2

/-! ### `CellBoundingPotential` -/

/-- `standard_velocity_displacement` with charges: `bound0`/`bound1` are
`self._derivative_bounds[0/1][cell_separation][direction]`, `cp` the estimator's charge correction factor;
followed by the `/ speed` of `StandardVelocityInvertiblePotential.displacement` -/
def cellBounding (bound0 bound1 cp dE : Float) (vel : List Float) : M Float := do
  let (_, speed) ← analyseVelocity vel
  note cp 0.0
  let rate := if cp > 0.0 then bound0 * cp else bound1 * cp
  note rate 0.0
  let r ← if rate > 0.0 then pyDiv dE rate else pure fInf
  pyDiv r speed

/-- `_standard_velocity_displacement_without_charges` -/
def cellBoundingNoCharges (bound c1 c2 dE : Float) (vel : List Float) : M Float := do
  let (_, speed) ← analyseVelocity vel
  pyAssert (c1 == c2 && c2 == 1.0)
  note bound 0.0
  let r ← if bound > 0.0 then pyDiv dE bound else pure fInf
  pyDiv r speed

/-- run a call: outcome and smallest comparison gap -/
def run (sep : List Float) (m : M Float) : Except String Float × Float :=
  let (r, s) := (ExceptT.run m).run { gap := 1.0, sep := sep }
  (r, s.gap)

end JF.Pot
