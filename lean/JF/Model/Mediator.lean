import JF.Model.Activator
import JF.Model.Wiring
import JF.Model.Sched
/-
Model of the loop of `SingleProcessMediator.run` (`jellyfysh/mediator/single_process_mediator.py`) as ONE machine that
composes

  * the activator model (`JF.Act.getToRun`, `JF.Act.getTrashable` of `JF/Model/Activator.lean` — used as they are),
  * a scheduler behind an interface `SchedI` (push / get / trash) with three instances: the spec-level scheduler `SSched`
    (a list of live `(time, handler)` pairs), the model of `ListScheduler` (`LSched`) and the model of `HeapScheduler` on
    top of the model of `heap.c` (`HSched`), both of `JF/Model/Sched.lean`,
  * `self._event_handler_with_shortest_event_time` (the `preceding` argument of the next leg).

What depends on physics or on the random stream is an input of each leg (`Oracle`): the identifier tuples every tagger would
yield on the current state (as in `JF.Act.getToRun`) and the candidate event time each handed-out handler returns from
`send_event_time` (any value, infinite ones included).  `send_out_state` / `insert_into_global_state` are not part of this
machine (they are the kinematic models of C07/C12); of the mediating methods only `mediate_end_of_run_event_handler`
("raise EndOfRun") is modelled: it stops the loop.

Core Lean only (linked into the driver `jf_med`).
-/
namespace JF.Med
open JF.Act JF.Heap JF.Sched

variable {κ : Type}

/-! ### the scheduler interface -/

/-- what `SingleProcessMediator.run` uses of a scheduler: `push_event`, `get_succeeding_event`, `trash_event`
(`none` = `SchedulerError`), on handlers numbered as in the activator model -/
structure SchedI (κ : Type) where
  σ : Type
  init : σ
  push : σ → κ → HandlerId → σ
  get : σ → σ × GetRes κ
  trash : σ → HandlerId → Option σ

/-! ### the spec-level scheduler -/

/-- live events `(time, handler)`, and the last returned time (the guard `_event_time_increasing` of `Scheduler`) -/
structure SSched (κ : Type) where
  live : List (κ × HandlerId)
  last : κ

def SSched.init (cfg : Cfg κ) : SSched κ := ⟨[], cfg.bot⟩

/-- push adds the event unless its time is infinite -/
def SSched.push (cfg : Cfg κ) (s : SSched κ) (t : κ) (h : HandlerId) : SSched κ :=
  if cfg.finite t then { s with live := s.live ++ [(t, h)] } else s

/-- trash removes the handler's events -/
def SSched.trash (s : SSched κ) (h : HandlerId) : SSched κ := { s with live := s.live.filter (fun p => p.2 != h) }

/-- get returns a minimal live event (the leftmost one); the monotonicity guard as in the real schedulers -/
def SSched.get (cfg : Cfg κ) (s : SSched κ) : SSched κ × GetRes κ :=
  match s.live with
  | [] => (s, .empty)
  | x :: xs =>
    let m := minBy cfg.lt x xs
    if cfg.lt m.1 s.last then (s, .guard m.2 m.1)
    else ({ s with last := m.1 }, .ok m.2 m.1)

def specI (cfg : Cfg κ) : SchedI κ where
  σ := SSched κ
  init := SSched.init cfg
  push s t h := s.push cfg t h
  get s := s.get cfg
  trash s h := some (s.trash h)

/-! ### the models of the real schedulers behind the interface

`JF.Sched` numbers handler objects by naturals `≠ 0` (`0` is the `NULL` handle of `heap.c`): handler `h` of the activator
model is the object `h + 1`. -/

/-- decode the returned object number -/
def dec : GetRes κ → GetRes κ
  | .ok h t => .ok (h - 1) t
  | .guard h t => .guard (h - 1) t
  | .empty => .empty

def listI (cfg : Cfg κ) : SchedI κ where
  σ := LSched κ
  init := LSched.init cfg
  push s t h := s.push t (h + 1)
  get s := ((s.get cfg).1, dec (s.get cfg).2)
  trash s h := s.trash (h + 1)

/-- `W` = number of values of a C `unsigned int` -/
def heapI (cfg : Cfg κ) (W : Nat) : SchedI κ where
  σ := HSched κ
  init := HSched.init cfg
  push s t h := s.push cfg W t (h + 1)
  get s := ((s.get cfg).1, dec (s.get cfg).2)
  trash s h := some (s.trash (h + 1))

/-! observers used by the driver (what the harness reads off the real objects) -/

/-- `ListScheduler._times` as `(time, handler)` -/
def LSched.liveList (s : LSched κ) : List (κ × HandlerId) := s.times.map fun p => (p.1, p.2 - 1)

/-- the heap entries whose counter is still valid (`event_valid_callback` false), in array order -/
def HSched.liveList (cfg : Cfg κ) (s : HSched κ) : List (κ × HandlerId) :=
  (List.range (s.heap.length - 1)).filterMap fun i =>
    let e := Heap.get cfg s.heap (i + 1)
    if deadCb s.mv e.h e.c then none else some (e.key, e.h - 1)

/-! ### the mediator -/

/-- the configuration as the mediator sees it -/
structure MWire where
  /-- tag lists and handler pools (`JF.Act.Wires`) -/
  w : Wires
  /-- tagger of the start-of-run handler -/
  S : TaggerIdx
  /-- `event_handler.number_send_event_time_arguments != 0` -/
  needsInState : HandlerId → Bool
  /-- the handler has the mediating method `mediate_end_of_run_event_handler` (it raises `EndOfRun`) -/
  endOfRun : HandlerId → Bool

/-- the mediator's view of a configuration `c` (`JF/Model/Wiring.lean`; generated for every shipped `.ini`): `S` = the
start-of-run tagger, the end-of-run handlers are those owned by a tagger of kind `endOfRun` -/
def MWire.ofWiring (c : Wiring) (S : TaggerIdx) (needsInState : HandlerId → Bool) : MWire where
  w := c.wires
  S := S
  needsInState := needsInState
  endOfRun h := match owner c.wires h with
    | some E => (c.tagger E).kind == .endOfRun
    | none => false

/-- the inputs of one leg -/
structure Oracle (κ : Type) where
  /-- what the activated generator of each tagger yields on the extracted active global state -/
  yields : TaggerIdx → List IdTuple
  /-- the candidate event time `send_event_time` of handler `h` returns in this leg -/
  cand : HandlerId → κ

structure MedState (σ : Type) where
  act : ActSt
  sched : σ
  /-- `self._event_handler_with_shortest_event_time` -/
  preceding : Option HandlerId

/-- exceptions that leave the loop (other than `EndOfRun`) -/
inductive Err where
  /-- raised by `get_event_handlers_to_run` -/
  | tagActivatorError | activatorAssertion | activatorKeyError
  /-- `assert in_state is not None` / `assert in_state is None` for handler `h` -/
  | inStateAssertion (h : HandlerId)
  /-- `SchedulerError` of `get_succeeding_event`: no event / time not increasing -/
  | schedEmpty | schedGuard (h : HandlerId)
  /-- raised by `get_trashable_events` -/
  | trashAssertion | trashKeyError
  /-- `SchedulerError` of `ListScheduler.trash_event` for handler `h` -/
  | schedTrash (h : HandlerId)
deriving Repr, DecidableEq

/-- what one leg did -/
structure Committed (κ : Type) where
  /-- the dictionary returned by the activator, in insertion order -/
  created : List (HandlerId × IdTuple)
  /-- the `push_event` calls of this leg, in order -/
  pushed : List (HandlerId × κ)
  /-- the handler returned by `get_succeeding_event` and the time of its event -/
  handler : HandlerId
  time : κ
  /-- the `trash_event` calls of this leg, in order -/
  trashed : List HandlerId
  /-- the mediating method raised `EndOfRun` -/
  stop : Bool

def MedState.init (I : SchedI κ) (w : Wires) : MedState I.σ := ⟨Act.init w, I.init, none⟩

/-- `for event_handler, in_state in dictionary.items(): assert …; event_time = send_event_time(…); push_event(…)`
(the in-state itself — deep copies of the identified branches — is not part of this machine: only whether it is `None`) -/
def pushLoop (M : MWire) (I : SchedI κ) (o : Oracle κ) : I.σ → List (HandlerId × IdTuple) → Except Err I.σ
  | s, [] => .ok s
  | s, (h, ids) :: rest =>
    if M.needsInState h != ids.isSome then .error (.inStateAssertion h)
    else pushLoop M I o (I.push s (o.cand h) h) rest

/-- `for event_handler in trashable: self._scheduler.trash_event(event_handler)` -/
def trashAll (I : SchedI κ) : I.σ → List HandlerId → Except Err I.σ
  | s, [] => .ok s
  | s, h :: hs =>
    match I.trash s h with
    | none => .error (.schedTrash h)
    | some s' => trashAll I s' hs

/-- one pass through the body of `while True:` in `SingleProcessMediator.run`.  The dictionary returned by the activator is the
list `created` in insertion order; its keys are pairwise distinct handlers (`JF.Med.LegOK.nodup`, proved for every leg of every
run), so iterating the list is iterating the dictionary. -/
def leg (M : MWire) (I : SchedI κ) (st : MedState I.σ) (o : Oracle κ) : Except Err (MedState I.σ × Committed κ) :=
  -- self._activator.get_event_handlers_to_run(active_global_state, self._event_handler_with_shortest_event_time)
  let r := getToRun M.w M.S st.act st.preceding o.yields
  match r.2 with
  | .tagActivatorError => .error .tagActivatorError
  | .assertionError => .error .activatorAssertion
  | .keyError => .error .activatorKeyError
  | .ok created =>
    -- candidate event times, pushed in dictionary order
    match pushLoop M I o st.sched created with
    | .error e => .error e
    | .ok s1 =>
      -- self._event_handler_with_shortest_event_time = self._scheduler.get_succeeding_event()
      let g := I.get s1
      match g.2 with
      | .empty => .error .schedEmpty
      | .guard h _ => .error (.schedGuard h)
      | .ok h t =>
        -- (send_out_state, insert_into_global_state: the kinematic models)
        -- for event_handler in self._activator.get_trashable_events(h): self._scheduler.trash_event(event_handler)
        let tr := getTrashable M.w r.1 h
        match tr.2 with
        | .keyError => .error .trashKeyError
        | .assertionError => .error .trashAssertion
        | .ok trashed =>
          match trashAll I g.1 trashed with
          | .error e => .error e
          | .ok s3 =>
            .ok (⟨tr.1, s3, some h⟩,
                 ⟨created, created.map (fun p => (p.1, o.cand p.1)), h, t, trashed, M.endOfRun h⟩)

/-- the loop on a list of oracle values: the commits made, and the state reached (`none`: an exception other than
`EndOfRun` left the loop).  The loop ends when the end-of-run handler commits, or when the oracle list is used up. -/
def runLegs (M : MWire) (I : SchedI κ) : MedState I.σ → List (Oracle κ) → List (Committed κ) × Option (MedState I.σ)
  | st, [] => ([], some st)
  | st, o :: os =>
    match leg M I st o with
    | .error _ => ([], none)
    | .ok (st', c) =>
      if c.stop then ([c], some st')
      else
        let r := runLegs M I st' os
        (c :: r.1, r.2)

end JF.Med
