import JF.Num.Ops
/-
Model of the periodic boundary conditions of `jellyfysh/setting`:

* `hypercubic_setting.py`  : `_set_system_length`, `_set_similar_settings`, class `HypercubicPeriodicBoundaries`
* `hypercuboid_setting.py` : `_set_system_lengths`, class `HypercuboidPeriodicBoundaries`
* `setting/__init__.py`    : `_set_dimension` (the `dimension <= 0` error branch)

Written branch for branch after the source, generic in the scalar: `α = ℚ` with `Ops.rat` is the exact
reading the theorems of `JF/Props/C15.lean` talk about, `α = Float` with `Ops.float` / `Ops.floatK` is what the
driver runs bit for bit against the real classes.

Python `%` on floats is `JF.pymod` (CPython `float_rem`); `correct_position_entry` (as repaired in /repo commit
"fix: correct_position_entry returned the system length itself …") is `JF.pywrap`.  Error outcomes of the real code (`AttributeError` of the
setters, `IndexError` of tuple/list indexing) are explicit `none` / `Except.error` results.
-/
namespace JF.Periodic

/-- Python sequence indexing `l[i]` for an `int` index: negative indices count from the end, `none` is `IndexError`. -/
def pyGet {β : Type} (l : List β) (i : Int) : Option β :=
  if 0 ≤ i then l[i.toNat]?
  else if (-i).toNat ≤ l.length then l[l.length - (-i).toNat]?
  else none

/-- the state of module `hypercubic_setting` after `HypercubicSetting(beta, dimension, system_length)` -/
structure Cubic (α : Type) where
  /-- `dimension` -/
  dim : Nat
  /-- `system_length` -/
  L : α
  /-- `system_length_over_two` (precomputed once: `system_length / 2.0`) -/
  half : α

/-- the state of module `hypercuboid_setting` after `HypercuboidSetting(system_lengths, beta, dimension)`
(or after `HypercubicSetting`, which initialises it as a "similar module") -/
structure Cuboid (α : Type) where
  /-- `dimension` -/
  dim : Nat
  /-- `system_lengths` -/
  Ls : List α
  /-- `system_lengths_over_two` -/
  halves : List α

section
variable {α : Type} [Add α] [Sub α] [Mul α] [Div α] [Neg α] [LT α] [DecidableLT α] [LE α] [DecidableLE α] [BEq α]

/-! ### set-up (`HypercubicSetting.__init__`, `HypercuboidSetting.__init__`) -/

/-- `Setting.__init__` → `_set_dimension` (raises if `dimension <= 0`), then `_set_system_length`
(raises if `system_length <= 0.0`; sets `system_length` and `system_length_over_two = system_length / 2.0`). -/
def Cubic.init (o : Ops α) (dim : Int) (L : α) : Except String (Cubic α) :=
  if dim ≤ 0 then .error "err:AttributeError:dimension"
  else if L ≤ o.ofInt 0 then .error "err:AttributeError:length"
  else .ok ⟨dim.toNat, L, L / o.ofInt 2⟩

/-- `_set_similar_settings`: the hypercuboid module as initialised by `HypercubicSetting`:
`tuple(L for _ in range(dimension))`, `tuple(L / 2.0 for _ in range(dimension))`. -/
def Cubic.similar (o : Ops α) (c : Cubic α) : Cuboid α :=
  ⟨c.dim, List.replicate c.dim c.L, List.replicate c.dim (c.L / o.ofInt 2)⟩

/-- `Setting.__init__` → `_set_dimension`, then `_set_system_lengths`: raises if `len(system_lengths) != dimension`
or if some length is `<= 0.0`; `system_lengths_over_two = tuple(l / 2.0 for l in system_lengths)`. -/
def Cuboid.init (o : Ops α) (dim : Int) (Ls : List α) : Except String (Cuboid α) :=
  if dim ≤ 0 then .error "err:AttributeError:dimension"
  else if (Ls.length : Int) ≠ dim then .error "err:AttributeError:count"
  else if Ls.any (fun l => decide (l ≤ o.ofInt 0)) then .error "err:AttributeError:length"
  else .ok ⟨dim.toNat, Ls, Ls.map (fun l => l / o.ofInt 2)⟩

/-! ### the two scalar mechanisms -/

/-- `corrected_entry = x % L; return corrected_entry if corrected_entry != L else 0.0` (`JF.pywrap`): the float modulo
rounds to `L` itself for tiny negative `x`; that single value is mapped to `0.0`, everything else (nan included: `!=`)
is the plain `x % L` -/
def wrap (o : Ops α) (x L : α) : α := pywrap o x L

/-- `(s + L/2) % L - L/2` with the precomputed half length `h` -/
def wrapSep (o : Ops α) (s L h : α) : α := pymod o (s + h) L - h

/-! ### `HypercubicPeriodicBoundaries` -/

/-- `correct_position_entry(position_entry, _)`: `r = position_entry % system_length; r if r != system_length else 0.0`
(index ignored) -/
def Cubic.correctPositionEntry (o : Ops α) (c : Cubic α) (x : α) (_i : Int) : α := wrap o x c.L

/-- `correct_position(position)`: every entry of the sequence (whatever its length), in place -/
def Cubic.correctPosition (o : Ops α) (c : Cubic α) (p : List α) : List α :=
  p.mapIdx fun i x => c.correctPositionEntry o x i

/-- `correct_separation_entry(separation_entry, _)` -/
def Cubic.correctSeparationEntry (o : Ops α) (c : Cubic α) (s : α) (_i : Int) : α := wrapSep o s c.L c.half

/-- `correct_separation(separation)` -/
def Cubic.correctSeparation (o : Ops α) (c : Cubic α) (s : List α) : List α :=
  s.mapIdx fun i x => c.correctSeparationEntry o x i

/-- `[target[i] - reference[i] for i in range(dimension)]` (`none`: `IndexError`, a position shorter than
`dimension`; longer positions are silently truncated) -/
def rawSeparation (dim : Nat) (ref tgt : List α) : Option (List α) :=
  (List.range dim).mapM fun i => do
    let t ← tgt[i]?
    let r ← ref[i]?
    pure (t - r)

/-- `separation_vector(reference_position, target_position)` -/
def Cubic.separationVector (o : Ops α) (c : Cubic α) (ref tgt : List α) : Option (List α) :=
  (rawSeparation c.dim ref tgt).map (c.correctSeparation o)

/-- `next_image(position_entry, _)`: `position_entry + system_length` -/
def Cubic.nextImage (c : Cubic α) (x : α) (_d : Int) : α := x + c.L

/-! ### `HypercuboidPeriodicBoundaries` -/

/-- `correct_position_entry(position_entry, index)`: `r = position_entry % system_lengths[index];
r if r != system_lengths[index] else 0.0` (the length is looked up for the modulo first: `IndexError` as before) -/
def Cuboid.correctPositionEntry (o : Ops α) (c : Cuboid α) (x : α) (i : Int) : Option α := do
  let L ← pyGet c.Ls i
  pure (wrap o x L)

/-- `correct_position(position)`: `IndexError` (`none`) if the sequence is longer than `system_lengths` -/
def Cuboid.correctPosition (o : Ops α) (c : Cuboid α) (p : List α) : Option (List α) :=
  (p.zipIdx).mapM fun (x, i) => c.correctPositionEntry o x i

/-- `correct_separation_entry(separation_entry, index)`:
`(separation_entry + system_lengths_over_two[index]) % system_lengths[index] - system_lengths_over_two[index]`
(the half length is looked up first, as Python evaluates the operands left to right) -/
def Cuboid.correctSeparationEntry (o : Ops α) (c : Cuboid α) (s : α) (i : Int) : Option α := do
  let h ← pyGet c.halves i
  let L ← pyGet c.Ls i
  pure (wrapSep o s L h)

/-- `correct_separation(separation)` -/
def Cuboid.correctSeparation (o : Ops α) (c : Cuboid α) (s : List α) : Option (List α) :=
  (s.zipIdx).mapM fun (x, i) => c.correctSeparationEntry o x i

/-- `separation_vector(reference_position, target_position)` -/
def Cuboid.separationVector (o : Ops α) (c : Cuboid α) (ref tgt : List α) : Option (List α) :=
  (rawSeparation c.dim ref tgt).bind (c.correctSeparation o)

/-- `next_image(position_entry, direction)`: `position_entry + system_lengths[direction]` -/
def Cuboid.nextImage (c : Cuboid α) (x : α) (d : Int) : Option α := do
  let L ← pyGet c.Ls d
  pure (x + L)

end

/-! ### a kernel-reducible twin of `Ops.float`

`Ops.float.fmod` (`JF.ffmod`) re-encodes its exact integer result with `Float.scaleB`, which is an opaque constant
for the Lean kernel, so `decide +kernel` cannot evaluate `pymod Ops.float …`.  `fencodeK` builds the same binary64
value directly as a bit pattern (`Float.ofBits` is kernel-reducible through Lean's `Float.Model`).  The driver runs
the model with BOTH records on every request (`pbc` replies carry both results) so that the two are checked to be
the same function on everything explored, and `fmodK` is checked against libm's `fmod` in the same run. -/

/-- `±m * 2^e` for `m < 2^53`, `e ≥ -1074`, value representable: its binary64 bit pattern. -/
def fencodeK (neg : Bool) (m : Nat) (e : Int) : Float :=
  let sign : Nat := if neg then 2 ^ 63 else 0
  if m == 0 then Float.ofBits (UInt64.ofNat sign)
  else
    let n := m.log2 + 1                      -- number of significant bits, 1 ≤ n ≤ 53
    let ex : Int := e + (n : Int) + 1022     -- biased exponent field: m*2^e = 1.f * 2^(e+n-1), bias 1023
    if 1 ≤ ex then
      let mant := m * 2 ^ (53 - n)           -- 2^52 ≤ mant < 2^53
      Float.ofBits (UInt64.ofNat (sign + ex.toNat * 2 ^ 52 + (mant - 2 ^ 52)))
    else
      -- subnormal: m * 2^e = fr * 2^-1074
      Float.ofBits (UInt64.ofNat (sign + m * 2 ^ (e + 1074).toNat))

/-- C `fmod` exactly as `JF.ffmod`, with `fencodeK` in place of `fencode`. -/
def ffmodK (x y : Float) : Float :=
  if x.isNaN || y.isNaN then x + y
  else if !(fIsFinite x) then Float.ofBits 0x7ff8000000000000
  else if !(fIsFinite y) then x
  else
    let (sx, mx, ex) := fdecode x
    let (_, my, ey) := fdecode y
    if my == 0 then Float.ofBits 0x7ff8000000000000
    else if mx == 0 then x
    else if ex ≥ ey then
      let r := (mx * 2 ^ (ex - ey).toNat) % my
      fencodeK sx r ey
    else
      let r := mx % (my * 2 ^ (ey - ex).toNat)
      fencodeK sx r ex

/-- `Ops.float` with the kernel-reducible `fmod` -/
def _root_.JF.Ops.floatK : Ops Float := { Ops.float with fmod := ffmodK }

end JF.Periodic
