import JF.Num.Ops
import JF.Model.Time
/-
Model of the thinning ("bounding potential") logic of JeLLyFysh, written branch for branch after

* `event_handler/abstracts/event_handler_with_bounding_potential.py`
    (`_calculate_out_state_of_two_leaf_unit_bounding_potential`, `_fill_lifting`),
* `event_handler/two_leaf_unit_bounding_potential_event_handler.py`            (kind 1),
* `event_handler/two_leaf_unit_cell_bounding_potential_event_handler.py`       (kind 2),
* `event_handler/leaf_unit_cell_veto_event_handler.py`                         (kind 3),
* `event_handler/two_composite_object_summed_bounding_potential_event_handler.py` (kind 4),
* `event_handler/two_composite_object_cell_bounding_potential_event_handler.py`   (kind 5),
* `event_handler/composite_object_cell_veto_event_handler.py`                  (kind 6),
* `event_handler/root_unit_active_two_composite_object_summed_bounding_potential_event_handler.py` (kind 7),
* `event_handler/root_unit_active_two_leaf_unit_event_handler.py` (kind 8, `send_out_state` only: it does not thin),
* `event_handler/abstracts/abstracts.py` (`_exchange_velocity`, `_register_velocity_change_leaf_cnode`,
  `_commit_non_leaf_velocity_changes`, `_time_slice_unit`),
* `event_handler/abstracts/composite_objects.py` (`_construct_leaf_units_of_composite_objects`,
  `_pass_composite_object_velocity`),
* `base/exceptions.py` (`bounding_potential_warning`),
* `potential/inverse_power_coulomb_bounding_potential/*` (`derivative`, the Python wrapper).

The values returned by the potentials (`derivative` of the real and of the bounding potential), by the
lifting scheme (`get_active_identifier`) and by `random.uniform` are *inputs* of the model: the model is the
decision and out-state logic around them.  One definition, two readings: `α = ℚ` (theorems, `JF/Props/C04`)
and `α = Float` (driver `jf_thin`, compared bit for bit with the real handlers).
-/
namespace JF.Thin

variable {α : Type} [Add α] [Sub α] [Mul α] [Div α] [Neg α] [LT α] [DecidableLT α] [LE α] [DecidableLE α] [BEq α]

/-! ### the decision kernel -/

/-- `random.uniform(a, b)` of CPython (`Lib/random.py`): `a + (b - a) * self.random()` -/
def pyUniform (a b r : α) : α := a + (b - a) * r

/-- Python `max(0.0, x)`: the first argument is kept unless the second one is strictly larger -/
def pymax0 (o : Ops α) (x : α) : α := if o.ofInt 0 < x then x else o.ofInt 0

/-- `bounding_potential_warning`: `real_derivative > 0 and bounding_derivative < real_derivative`
(a log line, never an error) -/
def warns (o : Ops α) (b q : α) : Bool := decide (o.ofInt 0 < q) && decide (b < q)

/-- two-leaf-unit confirmation (`_calculate_out_state_of_two_leaf_unit_bounding_potential`):
`if real_derivative > 0: … if random.uniform(0, bound) < real_derivative: exchange` -/
def confirmLeaf (o : Ops α) (q draw : α) : Bool := decide (o.ofInt 0 < q) && decide (draw < q)

/-- composite-object confirmation: `if event_rate <= random.uniform(0.0, bound): return self._state` -/
def confirmComposite (e draw : α) : Bool := !(decide (e ≤ draw))

/-- `bounding_event_rate += max(0.0, bounding_potential.derivative(…))` over the target leaf units -/
def summedBound (o : Ops α) (bds : List α) : α := bds.foldl (fun acc bd => acc + pymax0 o bd) (o.ofInt 0)

/-- `factor_derivative += pairwise_derivative` over the target leaf units -/
def factorDerivative (o : Ops α) (qs : List α) : α := qs.foldl (fun acc q => acc + q) (o.ofInt 0)

/-- `target_composite_object_factor_derivatives = [0.0] * n; […][index] -= pairwise_derivative` -/
def targetDerivs (o : Ops α) (qs : List α) : List α := qs.map (fun q => o.ofInt 0 - q)

/-! ### the scaled 1/r bound (`inverse_power_coulomb_bounding_potential.c: derivative`, Python wrapper) -/

/-- C `derivative`: `prefactor_product * sx / pow(sx*sx + sy*sy + sz*sz, 3.0/2.0)`.
`pow32 x` stands for `pow(x, 3.0/2.0)` (libm in the float reading; an abstract positive function in the
exact reading). -/
def boundDerivC (pow32 : α → α) (pp sx sy sz : α) : α := pp * sx / pow32 (sx * sx + sy * sy + sz * sz)

/-- `permutation_3d(vector, main_direction)` -/
def perm3 (d : Nat) (s : α × α × α) : α × α × α :=
  match d with
  | 0 => s
  | 1 => (s.2.1, s.2.2, s.1)
  | _ => (s.2.2, s.1, s.2.1)

/-- `InversePowerCoulombBoundingPotential.derivative(velocity, separation, c1, c2)` for a velocity along
`+d` with the given speed: `_lib_derivative(self._prefactor * c1 * c2, *permutation_3d(separation, d)) * speed` -/
def boundDeriv (pow32 : α → α) (k c1 c2 : α) (d : Nat) (s : α × α × α) (speed : α) : α :=
  let p := perm3 d s
  boundDerivC pow32 (k * c1 * c2) p.1 p.2.1 p.2.2 * speed

/-! ### state: branches of depth ≤ 2 (root node, leaf children), as the tree state handler extracts them -/

structure LUnit (α : Type) where
  id : List Nat
  pos : List α
  charge : α
  vel : Option (List α)
  ts : Option (Time α)

/-- a root cnode with its leaf children `(unit, weight)`; no children: the root is itself a leaf -/
structure CNode (α : Type) where
  unit : LUnit α
  weight : α
  children : List (LUnit α × α)

/-- reference to a leaf cnode: root index, child index (`none`: the root itself) -/
abbrev LeafRef := Nat × Option Nat

/-- `_construct_leaf_cnodes` / `yield_leaf_nodes`: leaf cnodes in state order -/
def leafRefs (st : List (CNode α)) : List LeafRef :=
  (st.zipIdx).flatMap fun (c, i) =>
    if c.children.isEmpty then [(i, none)] else (List.range c.children.length).map fun j => (i, some j)

def getLeaf (st : List (CNode α)) (r : LeafRef) : Option (LUnit α) :=
  match st[r.1]? with
  | none => none
  | some c => match r.2 with
    | none => some c.unit
    | some j => (c.children[j]?).map (·.1)

def leafUnits (st : List (CNode α)) : List (LUnit α) := (leafRefs st).filterMap (getLeaf st)

def setLeaf (st : List (CNode α)) (r : LeafRef) (u : LUnit α) : List (CNode α) :=
  st.zipIdx.map fun (c, i) =>
    if i == r.1 then
      match r.2 with
      | none => { c with unit := u }
      | some j => { c with children := c.children.zipIdx.map fun (cw, jj) => if jj == j then (u, cw.2) else cw }
    else c

/-- `_extract_active_leaf_unit`: index of the unique leaf unit with a velocity (`none`: the assertion
`len(active_leaf_units) == 1` fails) -/
def activeIndex (st : List (CNode α)) : Option Nat :=
  match ((leafUnits st).zipIdx.filter fun (u, _) => u.vel.isSome) with
  | [(_, i)] => some i
  | _ => none

/-! ### `_exchange_velocity` -/

structure Consts (α : Type) where
  /-- `setting.system_length` -/
  L : α
  /-- the literal `1e-13` of `_commit_sub_tree_non_leaf_velocity_change` -/
  tiny : α

def absLt (o : Ops α) (x t : α) : Bool := if x < o.ofInt 0 then decide (-x < t) else decide (x < t)

/-- one `_register_velocity_change_leaf_cnode` call for a leaf with a parent (depth 2: the only parent is the
root): `changes[parent id] (+)= [component * leaf.weight …]` -/
def register (changes : List (List Nat × List α)) (pid : List Nat) (vc : List α) : List (List Nat × List α) :=
  if changes.any (fun e => e.1 == pid) then
    changes.map fun e => if e.1 == pid then (e.1, List.zipWith (· + ·) e.2 vc) else e
  else changes ++ [(pid, vc)]

/-- `_commit_sub_tree_non_leaf_velocity_change` for one unit -/
def commitUnit (o : Ops α) (c : Consts α) (et : Time α) (changes : List (List Nat × List α)) (u : LUnit α) : LUnit α :=
  match changes.find? (fun e => e.1 == u.id) with
  | none => u
  | some (_, ch) =>
    match u.vel with
    | none => { u with vel := some ch, ts := some et }
    | some v =>
      -- `_time_slice_unit`: velocity is not None; `correct_position_entry` is `JF.pywrap`
      let dt : α := match u.ts with
        | some ts => Time.sub et ts
        | none => o.ofInt 0   -- unreachable: an active unit carries a time stamp
      let pos := List.zipWith (fun p vd => pywrap o (p + vd * dt) c.L) u.pos v
      let v' := List.zipWith (· + ·) v ch
      if v'.all (fun x => absLt o x c.tiny) then { u with pos := pos, vel := none, ts := none }
      else { u with pos := pos, vel := some v', ts := some et }

/-- `_exchange_velocity(cnode_with_active_unit, target_cnode)`; `none`: one of its assertions fails -/
def exchange (o : Ops α) (c : Consts α) (et : Time α) (st : List (CNode α)) (a t : LeafRef) :
    Option (List (CNode α)) :=
  match getLeaf st a, getLeaf st t with
  | some au, some tu =>
    match au.vel with
    | none => none                                  -- assert active_unit.velocity is not None
    | some v =>
      if tu.vel.isSome then none                    -- assert target_unit.velocity is None
      else
        -- register(active cnode, [-component …])
        let ch1 : List (List Nat × List α) := match a.2, st[a.1]? with
          | some j, some root =>
            let w : α := match root.children[j]? with
              | some cw => cw.2
              | none => root.weight
            register [] root.unit.id (v.map fun x => (-x) * w)
          | _, _ => []
        -- register(target cnode, active_unit.velocity): the list is scaled in place by the parents' weights
        let r2 : List (List Nat × List α) × List α := match t.2, st[t.1]? with
          | some j, some root =>
            let w : α := match root.children[j]? with
              | some cw => cw.2
              | none => root.weight
            (register ch1 root.unit.id (v.map fun x => x * w), v.map fun x => x * root.weight)
          | _, _ => (ch1, v)
        let ch2 := r2.1
        let v' := r2.2
        let st1 := setLeaf st t { tu with vel := some v', ts := au.ts }
        let st2 := setLeaf st1 a { au with vel := none, ts := none }
        -- `_commit_non_leaf_velocity_changes`
        some (st2.map fun r =>
          { r with unit := commitUnit o c et ch2 r.unit,
                   children := r.children.map fun cw => (commitUnit o c et ch2 cw.1, cw.2) })
  | _, _ => none

/-! ### recorded calls and results -/

/-- one call of a potential's `derivative`: `'B'` bounding / `'P'` real, velocity, separation, charges -/
structure Call (α : Type) where
  kind : String
  vel : List α
  sep : List α
  charges : List α

/-- `HypercubicPeriodicBoundaries.separation_vector(reference, target)` -/
def sepVec (o : Ops α) (L : α) (ref tgt : List α) : List α :=
  let half := L / o.ofInt 2
  List.zipWith (fun r t => pymod o ((t - r) + half) L - half) ref tgt

inductive Res (α : Type) where
  /-- an assertion of the real code fails -/
  | err (tok : String)
  /-- `send_out_state` returns `None` (cell-bounding handlers: active unit left its cell) -/
  | invalid
  /-- out-state, confirmed?, warned?, recorded potential calls, recorded `lifting.insert` calls, the upper
  limit handed to `random.uniform` (`none`: no uniform number was drawn) -/
  | out (st : List (CNode α)) (confirmed warned : Bool) (calls : List (Call α))
        (inserts : List (α × List Nat × Bool)) (uni : Option α)

/-- the branches on which a proposal is decided: the in-state, with the target branch appended by the cell-veto
handlers (`vk` = 3 or 6: `self._state.append(target_cnode)`) -/
def proposalState (vk kind : Nat) (st : List (CNode α)) (target : Option (CNode α)) : List (CNode α) :=
  match target with
  | some t => if kind = vk then st ++ [t] else st
  | none => st

/-! ### two-leaf-unit handlers (kinds 1, 2, 3) -/

/-- `_calculate_out_state_of_two_leaf_unit_bounding_potential` -/
def calcLeaf (o : Ops α) (c : Consts α) (et : Time α) (st : List (CNode α)) (ai : Nat) (b q draw : α)
    (calls : List (Call α)) : Res α :=
  let refs := leafRefs st
  if refs.length != 2 then .err "AssertionError"
  else if o.ofInt 0 < q then
    if draw < q then
      match refs[ai]?, refs[ai ^^^ 1]? with
      | some a, some t =>
        match exchange o c et st a t with
        | some st' => .out st' true (warns o b q) calls [] (some b)
        | none => .err "AssertionError"
      | _, _ => .err "IndexError"
    else .out st false (warns o b q) calls [] (some b)
  else .out st false false calls [] none

/-- how the uniform number reaches the model: the value returned by `random.uniform` itself, or the value
of `random.random()` inside CPython's `uniform` -/
inductive Draw (α : Type) where
  | value (d : α)
  | unit (r : α)

def Draw.get (o : Ops α) (b : α) : Draw α → α
  | .value d => d
  | .unit r => pyUniform (o.ofInt 0) b r

/-- charges passed to a two-leaf potential: `(leaf_units[0].charge, leaf_units[1].charge)` or `()` -/
def leafCharges (useCharge : Bool) (us : List (LUnit α)) : List α :=
  if useCharge then us.map (·.charge) else []

/-- `send_out_state` of kinds 1–3.
* kind 1: `b` is what `bounding_potential.derivative(velocity, separation, charges)` returned;
* kind 2: first the validity guard (`guardOk = false`: position NaN or cell left → `None`), then `b` is what
  the cell bounding potential returned for the relative cell;
* kind 3: `target = none` → in-state returned; else the target branch is appended and `b` is the bound stored
  by `send_event_time`.
`ai` is `_active_leaf_unit_index` as extracted by `send_event_time`. -/
def sendLeaf (o : Ops α) (c : Consts α) (kind : Nat) (useCharge : Bool) (et : Time α) (st : List (CNode α))
    (target : Option (CNode α)) (guardOk : Bool) (b q : α) (dr : Draw α) : Res α :=
  match activeIndex st with
  | none => .err "AssertionError"
  | some ai =>
    if kind == 3 && target.isNone then .out st false false [] [] none
    else if kind == 2 && !guardOk then .invalid
    else
      let st := proposalState 3 kind st target
      let us := leafUnits st
      match us[ai]?, us[ai ^^^ 1]? with
      | some au, some tu =>
        let sep := sepVec o c.L au.pos tu.pos
        let v := au.vel.getD []
        let ch := leafCharges useCharge us
        let calls : List (Call α) :=
          (if kind == 1 then [⟨"B", v, sep, ch⟩] else if kind == 2 then [⟨"B", v, [], ch⟩] else [])
          ++ [⟨"P", v, sep, ch⟩]
        calcLeaf o c et st ai b q (dr.get o b) calls
      | _, _ => .err "AssertionError"      -- `assert len(self._leaf_units) == 2` (kind 3) / IndexError

/-! ### composite-object handlers (kinds 4, 5, 6) -/

def idLt : List Nat → List Nat → Bool
  | [], [] => false
  | [], _ :: _ => true
  | _ :: _, [] => false
  | a :: as, b :: bs => if a < b then true else if b < a then false else idLt as bs

/-- stable insertion (Python `sorted` is stable) -/
def insSorted (x : LUnit α) : List (LUnit α) → List (LUnit α)
  | [] => [x]
  | y :: ys => if idLt x.id y.id then x :: y :: ys else y :: insSorted x ys

def sortUnits (us : List (LUnit α)) : List (LUnit α) := us.foldl (fun acc u => insSorted u acc) []

/-- `_construct_leaf_units_of_composite_objects`: `(local, target)`; `none`: odd number of leaf units -/
def constructComposite (us : List (LUnit α)) : Option (List (LUnit α) × List (LUnit α)) :=
  if us.length % 2 != 0 then none
  else
    let s := sortUnits us
    let h := s.length / 2
    if (s.drop h).all (fun u => u.vel.isNone) then some (s.take h, s.drop h) else some (s.drop h, s.take h)

/-- `_fill_lifting`: the sequence of `lifting.insert(derivative, identifier, is_active)` calls.
`pairs[i]` is the row of pairwise derivatives the potential returned for the non-active local unit `i`
against every target unit (ignored for the active unit). -/
def fillLifting (o : Ops α) (locals : List (List Nat × Bool)) (targets : List (List Nat))
    (activeDeriv : α) (tds : List α) (pairs : List (List α)) : List (α × List Nat × Bool) :=
  let (ls, ts) := (locals.zip pairs).foldl
    (fun (acc : List α × List α) (lp : (List Nat × Bool) × List α) =>
      if lp.1.2 then (acc.1 ++ [activeDeriv], acc.2)
      else (acc.1 ++ [lp.2.foldl (fun s p => s + p) (o.ofInt 0)], List.zipWith (fun t p => t - p) acc.2 lp.2))
    (([] : List α), tds)
  let li := (locals.zip ls).map fun (l, d) => (d, l.1, l.2)
  let ti := (targets.zip ts).map fun (t, d) => (d, t, false)
  let h (x : Option (List Nat)) : Nat := ((x.getD []).head?).getD 0
  if h (locals.head?.map (·.1)) < h targets.head? then li ++ ti else ti ++ li

/-- the bounding rate a composite-object handler uses: the sum of the positive parts of the pairwise bounds
(kind 4), or the cell bound (kinds 5, 6) -/
def compositeBound (o : Ops α) (kind : Nat) (b : α) (bds : List α) : α :=
  if kind = 4 then summedBound o bds else b

/-- the part of `send_out_state` of kinds 4–6 after the rates are known: warning, confirmation, lifting, exchange -/
def calcComposite (o : Ops α) (c : Consts α) (kind : Nat) (et : Time α) (st : List (CNode α)) (ai : Nat)
    (au : LUnit α) (locals targets : List (LUnit α)) (bound fd draw : α) (qs : List α) (pairs : List (List α))
    (nextId : List Nat) (calls flCalls : List (Call α)) : Res α :=
  let e := pymax0 o fd
  if kind != 4 && !(decide (o.ofInt 0 ≤ bound)) then .err "AssertionError"   -- assert bound >= 0.0
  else if !(confirmComposite e draw) then .out st false (warns o bound e) calls [] (some bound)
  else
    let ins := fillLifting o (locals.map fun l => (l.id, l.id == au.id)) (targets.map (·.id))
      (if kind == 4 then e else fd) (targetDerivs o qs) pairs
    let refs := leafRefs st
    match (refs.filter fun r => ((getLeaf st r).map (·.id)) == some nextId), refs[ai]? with
    | [t], some a =>
      match exchange o c et st a t with
      | some st' => .out st' true (warns o bound e) (calls ++ flCalls) ins (some bound)
      | none => .err "AssertionError"
    | _, _ => .err "AssertionError"          -- assert len(next_active_cnode) == 1

/-- `send_out_state` of kinds 4–6.
* kind 4: `bds` are the bounding derivatives per target unit; bound = `Σ max(0.0, ·)`; lifting filled with `event_rate`;
* kind 5: guard; `b` returned by the cell bounding potential, `assert b >= 0.0`; lifting filled with `factor_derivative`;
* kind 6: `target = none` → in-state; else appended; stored `b`, `assert b >= 0.0`; as kind 5.
`qs`: real pairwise derivatives active–target in target order; `pairs`: see `fillLifting`;
`nextId`: what `lifting.get_active_identifier()` returned. -/
def sendComposite (o : Ops α) (c : Consts α) (kind : Nat) (useCharge : Bool) (et : Time α)
    (st : List (CNode α)) (target : Option (CNode α)) (guardOk : Bool) (b : α) (bds qs : List α)
    (pairs : List (List α)) (dr : Draw α) (nextId : List Nat) : Res α :=
  match activeIndex st with
  | none => .err "AssertionError"
  | some ai =>
    if kind == 6 && target.isNone then .out st false false [] [] none
    else if kind == 5 && !guardOk then .invalid
    else
      let st := proposalState 6 kind st target
      let us := leafUnits st
      match us[ai]?, constructComposite us with
      | some au, some (locals, targets) =>
        let v := au.vel.getD []
        let chg (a t : LUnit α) : List α := if useCharge then [a.charge, t.charge] else []
        let pcalls : List (Call α) := targets.map fun t => ⟨"P", v, sepVec o c.L au.pos t.pos, chg au t⟩
        let bcalls : List (Call α) :=
          if kind == 4 then targets.map fun t => ⟨"B", v, sepVec o c.L au.pos t.pos, chg au t⟩
          else if kind == 5 then [⟨"B", v, [], if useCharge then au.charge :: targets.map (·.charge) else []⟩]
          else []
        let flCalls : List (Call α) := (locals.filter fun l => !(l.id == au.id)).flatMap fun l =>
          targets.map fun t => ⟨"P", v, sepVec o c.L l.pos t.pos, chg l t⟩
        let bound := compositeBound o kind b bds
        calcComposite o c kind et st ai au locals targets bound (factorDerivative o qs) (dr.get o bound) qs pairs
          nextId (bcalls ++ pcalls) flCalls
      | _, _ => .err "AssertionError"

/-! ### root-unit-active handlers (kinds 7, 8): a whole composite object moves

* `event_handler/root_unit_active_two_composite_object_summed_bounding_potential_event_handler.py` (kind 7, thins),
* `event_handler/root_unit_active_two_leaf_unit_event_handler.py` (kind 8: directly invertible, NO thinning; only
  its `send_out_state` — time-slice the branches, pass the velocity — is modelled, the candidate time belongs to the
  displacement correspondence of C02),
* `event_handler/abstracts/composite_objects.py` (`CompositeObjectsLifting._pass_composite_object_velocity`),
* `event_handler/abstracts/abstracts.py` (`_time_slice_unit`, `_time_slice_all_units_in_state`).

Differences to kind 4 (leaf mode): ALL leaf units of the active composite object carry the velocity; the rates are
summed over the double loop (active leaf, target leaf); the confirmation is written in the two-leaf style
(`if factor_derivative > 0: if random.uniform(0, bound) < factor_derivative`), the warning gets the raw
`factor_derivative`; no lifting scheme: a confirmed event moves the velocity of every active leaf unit to every
leaf unit of the target composite object (root-level transfer); `send_out_state` receives its own branches, which
are time-sliced to the stored event time first (also when the event is not confirmed). -/

/-- `_time_slice_unit`: `position[d] = correct_position_entry(position[d] + velocity[d] * (event_time - time_stamp), d)`,
`time_stamp.update(event_time)`; nothing for a unit without velocity -/
def timeSliceUnit (o : Ops α) (c : Consts α) (et : Time α) (u : LUnit α) : LUnit α :=
  match u.vel with
  | none => u
  | some v =>
    let dt : α := match u.ts with
      | some ts => Time.sub et ts
      | none => o.ofInt 0   -- unreachable: an active unit carries a time stamp (AttributeError in the real code)
    { u with pos := List.zipWith (fun p vd => pywrap o (p + vd * dt) c.L) u.pos v, ts := some et }

/-- `_time_slice_all_units_in_state` (depth ≤ 2) -/
def timeSliceState (o : Ops α) (c : Consts α) (et : Time α) (st : List (CNode α)) : List (CNode α) :=
  st.map fun r => { r with unit := timeSliceUnit o c et r.unit,
                           children := r.children.map fun cw => (timeSliceUnit o c et cw.1, cw.2) }

/-- every velocity of a state, in state order (root, then its children) -/
def velocities (st : List (CNode α)) : List (Option (List α)) :=
  st.flatMap fun r => r.unit.vel :: r.children.map fun cw => cw.1.vel

/-- accumulator of the loop over `_leaf_cnodes` in `_pass_composite_object_velocity`: the state, the registered
non-leaf velocity changes, and the two lists `negative_velocity` / `velocity`, which
`_register_velocity_change_leaf_cnode` scales IN PLACE by the parents' weights -/
structure PassAcc (α : Type) where
  st : List (CNode α)
  changes : List (List Nat × List α)
  neg : List α
  vel : List α

/-- one iteration of `for leaf_cnode in self._leaf_cnodes` -/
def passStep (et : Time α) (localIds : List (List Nat)) (acc : PassAcc α) (r : LeafRef) : PassAcc α :=
  match getLeaf acc.st r with
  | none => acc
  | some u =>
    -- the parent cnode of the leaf (depth ≤ 2: the root): identifier, weight of the leaf, weight of the parent
    let par : Option (List Nat × α × α) := match r.2, acc.st[r.1]? with
      | some j, some root =>
        some (root.unit.id, (match root.children[j]? with | some cw => cw.2 | none => root.weight), root.weight)
      | _, _ => none
    if localIds.contains u.id then
      -- register(leaf_cnode, negative_velocity); velocity = None; time_stamp = None
      let st' := setLeaf acc.st r { u with vel := none, ts := none }
      match par with
      | none => { acc with st := st' }
      | some (pid, w, rw) =>
        { st := st', changes := register acc.changes pid (acc.neg.map fun x => x * w),
          neg := acc.neg.map fun x => x * rw, vel := acc.vel }
    else
      -- velocity = velocity.copy(); time_stamp = copy(event_time); register(leaf_cnode, velocity)
      let st' := setLeaf acc.st r { u with vel := some acc.vel, ts := some et }
      match par with
      | none => { acc with st := st' }
      | some (pid, w, rw) =>
        { st := st', changes := register acc.changes pid (acc.vel.map fun x => x * w),
          neg := acc.neg, vel := acc.vel.map fun x => x * rw }

/-- `_construct_leaf_cnodes(); _construct_leaf_units_of_composite_objects(); _pass_composite_object_velocity()`
on the (time-sliced) branches; `.error tok`: an assertion / exception of the real code -/
def passComposite (o : Ops α) (c : Consts α) (et : Time α) (st : List (CNode α)) : Except String (List (CNode α)) :=
  match constructComposite (leafUnits st) with
  | none => .error "AssertionError"                 -- assert len(self._leaf_units) % 2 == 0
  | some (locals, targets) =>
    match locals.head? with
    | none => .error "IndexError"                   -- self._local_leaf_units[0]
    | some l0 =>
      if !(locals.all fun l => l.vel == l0.vel) then .error "AssertionError"
      else if !(targets.all fun t => t.vel.isNone) then .error "AssertionError"
      else match l0.vel with
        | none => .error "TypeError"                -- [-component for component in None]
        | some v =>
          let acc := (leafRefs st).foldl (passStep et (locals.map (·.id)))
            ⟨st, [], v.map fun x => -x, v⟩
          -- `_commit_non_leaf_velocity_changes`
          .ok (acc.st.map fun r =>
            { r with unit := commitUnit o c et acc.changes r.unit,
                     children := r.children.map fun cw => (commitUnit o c et acc.changes cw.1, cw.2) })

/-- the potential calls of the double loop of kind 7's `send_out_state`: per (active leaf, target leaf) pair first
the bounding potential's `derivative`, then the potential's, with the active leaf's velocity and the separation
`separation_vector(active.position, target.position)` -/
def rootCalls (o : Ops α) (c : Consts α) (useCharge : Bool) (locals targets : List (LUnit α)) : List (Call α) :=
  locals.flatMap fun a => targets.flatMap fun t =>
    let sep := sepVec o c.L a.pos t.pos
    let ch : List α := if useCharge then [a.charge, t.charge] else []
    [⟨"B", a.vel.getD [], sep, ch⟩, ⟨"P", a.vel.getD [], sep, ch⟩]

/-- `send_out_state(composite_object_root_cnodes)` of kinds 7 and 8.
* kind 7: `ist` is the in-state stored (and time-sliced) by `send_event_time`, whose local/target leaf units the double
  loop runs over; `bds` / `qs` are the values the bounding potential / the potential returned per pair, in loop order;
  bound = `Σ max(0.0, ·)`, `factor_derivative = Σ q`; `bounding_potential_warning(bound, factor_derivative)`; the
  branches are stored and time-sliced; `if factor_derivative > 0: if uniform(0, bound) < factor_derivative:` pass the
  velocity of the composite object;
* kind 8: no rates, no draw: time-slice the branches and pass the velocity. -/
def sendRoot (o : Ops α) (c : Consts α) (kind : Nat) (useCharge : Bool) (et : Time α)
    (ist branches : List (CNode α)) (bds qs : List α) (dr : Draw α) : Res α :=
  let st1 := timeSliceState o c et branches
  if kind == 8 then
    match passComposite o c et st1 with
    | .ok st' => .out st' true false [] [] none
    | .error tok => .err tok
  else
    match constructComposite (leafUnits ist) with
    | none => .err "AssertionError"
    | some (locals, targets) =>
      let calls := rootCalls o c useCharge locals targets
      let bound := summedBound o bds
      let fd := factorDerivative o qs
      let w := warns o bound fd
      if o.ofInt 0 < fd then
        if dr.get o bound < fd then
          match passComposite o c et st1 with
          | .ok st' => .out st' true w calls [] (some bound)
          | .error tok => .err tok
        else .out st1 false w calls [] (some bound)
      else .out st1 false w calls [] none

end JF.Thin
