"""Tie of `lean/JF/Props/Footprints.lean` (`footprintsSound_concrete` over the concrete world `JF.CW`) to the code.

The theorem is about the transition relation `JF.CW.TrRaw` (lean/JF/Model/ConcreteWorld.lean): a commit by a handler of kind k is
the `Kin.step` of an event whose constructor is allowed for k (`allowedEv`), followed by `SingleActiveCellOccupancy.update`;
states are `Consistent` (the occupancy's active identifier is the moving point mass); commits of sampling / dumping / end-of-run
handlers carry the premise `StaysInRecordedCell`.  This module evaluates, on every recorded commit of a traced run whose
configuration lives in that world (`supported`, the Python mirror of `JF.CW.Supported`, point masses only):

* `fp.kind-map`   — WHICH units changed velocity / position / time stamp is the pattern of an allowed event constructor
                    (the values themselves are replayed bit for bit in `Kin.step` by C07's `sys.chain-replay`);
* `fp.consistent` — after the activator's update the occupancy's `_active_unit_identifier` is the moving unit and
                    `_active_cell` is set (needs the job's `extras: ["occupancy"]`);
* `fp.premise-stays-in-recorded-cell` — a sampling / dumping / end-of-run commit leaves `_active_cell` as recorded
                    (`update` recomputes it with the real `position_to_cell` of the time-sliced unit; needs the same extras).

Call `check_trace(ctx, tr, w)` per trace (w = `actcorr.wiring_of_trace`); `occupancy_jobs(ctx)` are a few extra coulomb_atoms cell jobs
that record the occupancy."""
from harness import runs

# JF.CW.allowedEv: handler kind -> `Kin.Ev` constructors ('id': the empty out-state of a dumping event)
ALLOWED = {"sampling": {"keep"}, "dumping": {"keep", "id"}, "endOfRun": {"keep"}, "cellBoundary": {"snap"},
           "interaction": {"keep", "lift"}, "cellVeto": {"keep", "lift"}, "endOfChain": {"endOfChain"}, "startOfRun": {"start"}}
QUIET = ("sampling", "dumping", "endOfRun")       # JF.CW.quietKind
CELL_READING = ("excludedCells", "cellBounding", "surplusCells")
SHIPPED_IN_WORLD = ("coulomb_atoms/cell_bounded.ini", "coulomb_atoms/cell_veto.ini", "coulomb_atoms/power_bounded.ini",
                    "coulomb_atoms/power_bounded_dump.ini")          # `supported_*` theorems of JF/Props/Footprints.lean


def supported(w):
    """JF.CW.Supported"""
    nl = len(w["labels"])
    if nl > 1:
        return False
    for t in w["taggers"]:
        if t["lean_cls"] in ("activeRootUnit", "unknown") or t["kind"] in ("switcher", "unknown"):
            return False
        if t["lean_cls"] in CELL_READING and not (t["label_idx"] == 0 and nl == 1):
            return False
        if t["kind"] == "cellBoundary" and t["label_idx"] != 0:
            return False
    return True


def instances(pre, post):
    """the `Kin.Ev` constructors (and 'id') the commit pre -> post is an instance of, judged by which point masses changed
    velocity / position / time stamp. snapshots: {identifier: (pos, vel, ts, charge)}"""
    keys = sorted(pre)
    if sorted(post) != keys:
        return set()
    mov0 = [k for k in keys if pre[k][1] is not None]
    mov1 = [k for k in keys if post[k][1] is not None]
    ch = {k: tuple(pre[k][j] != post[k][j] for j in range(3)) for k in keys}      # (position, velocity, time stamp) changed?
    # no event touches a unit that is at rest before and after; a unit at rest carries no time stamp
    if any(any(ch[k]) for k in keys if k not in mov0 and k not in mov1):
        return set()
    if any(post[k][2] is not None for k in keys if k not in mov1) or any(post[k][2] is None for k in mov1):
        return set()
    out = set()
    if mov0 == mov1:
        if not any(ch[k][1] for k in keys):
            out |= {"keep", "snap"}                # only moving units moved; velocities as they were
            if not any(any(ch[k]) for k in keys):
                out.add("id")
        if len(mov0) == 1:
            out.add("endOfChain")                  # the chain goes on with the same unit (new velocity)
    elif len(mov0) == 1 and len(mov1) == 1:
        a, b = mov0[0], mov1[0]
        if not ch[b][0]:                           # the unit taking over is not displaced
            out.add("endOfChain")
            if post[b][1] == pre[a][1]:
                out.add("lift")                    # velocity handed over unchanged
    elif not mov0 and len(mov1) == 1:
        if not any(ch[k][0] for k in keys):
            out.add("start")
    return out


def _cell_id(c):
    return None if c is None else tuple(getattr(c, "identifier", c))


def _occ(leg):
    occ = leg.get("occupancy")
    if not occ or len(occ) != 1 or occ[0].get("cls") != "SingleActiveCellOccupancy":
        return None
    return occ[0]


def check_trace(ctx, tr, w):
    """evaluate the three correspondences on every recorded commit of `tr`; returns the number of commits judged"""
    meta = tr["meta"]
    ini = meta.get("ini", "")
    in_world = supported(w) and meta.get("levels") == 1
    overrides = (tr.get("job") or {}).get("overrides") or {}
    if ini.endswith(SHIPPED_IN_WORLD) and "TagActivator" not in overrides and not (tr.get("job") or {}).get("ini_text") and not in_world:
        ctx.disagree("fp.supported", {"ini": ini}, "a coulomb_atoms configuration (point masses, at most one occupancy)", "not Supported")
    if not in_world:
        ctx.count("fp:trace-outside-world")
        return 0
    ctx.count("fp:trace-in-world")
    kind_of = {t["tag"]: t["kind"] for t in w["taggers"]}
    has_occ = len(w["labels"]) == 1
    legs = tr["legs"]
    pre = tr["initial"]
    nbad = 0
    for i, leg in enumerate(legs):
        etag = meta["handlers"][leg["chosen"]][0]
        kind = kind_of[etag]
        post = leg["post"]
        case = {"ini": ini, "seed": meta["seed"], "leg": i, "handler": list(meta["handlers"][leg["chosen"]]), "job": tr.get("job")}
        inst = instances(pre, post)
        allowed = ALLOWED.get(kind, set())
        hit = sorted(inst & allowed)
        ctx.count(f"fp:kind-map:{kind}:" + ("+".join(hit) or "NONE"))
        if not hit:
            nbad += 1
            if nbad <= 3:
                ctx.disagree("fp.kind-map", {**case, "kind": kind}, sorted(inst), sorted(allowed))
        # occupancy after the update that follows this commit = what the next leg recorded
        if has_occ and i + 1 < len(legs):
            o0, o1 = _occ(leg), _occ(legs[i + 1])
            if o1 is not None:
                mov = [k for k, v in post.items() if v[1] is not None]
                aid = o1.get("_active_unit_identifier")
                aid = None if aid is None else tuple(aid)
                ok = len(mov) == 1 and aid == mov[0] and o1.get("_active_cell") is not None
                ctx.count("fp:consistent:" + ("ok" if ok else "BAD"))
                if not ok:
                    ctx.disagree("fp.consistent", case, {"moving": [list(m) for m in mov]},
                                 {"_active_unit_identifier": aid, "_active_cell": _cell_id(o1.get("_active_cell"))})
                if kind in QUIET and o0 is not None and i > 0:
                    same = _cell_id(o0.get("_active_cell")) == _cell_id(o1.get("_active_cell"))
                    ctx.count("fp:premise:" + ("holds" if same else "VIOLATED"))
                    if not same:
                        ctx.disagree("fp.premise-stays-in-recorded-cell", {**case, "kind": kind},
                                     _cell_id(o1.get("_active_cell")), _cell_id(o0.get("_active_cell")))
            elif kind in QUIET:
                ctx.count("fp:premise:not-observed(no occupancy dump)")
        pre = post
    return len(legs)


def occupancy_jobs(ctx):
    """a few coulomb_atoms cell runs (more particles, denser grids) that record the occupancy at every leg"""
    rng = ctx.rng
    jobs = []
    for k in range(ctx.n(3, 8)):
        base = rng.choice(["coulomb_atoms/cell_veto.ini", "coulomb_atoms/cell_bounded.ini"])
        n = rng.randint(2, 8)
        ov = {"RandomInputHandler": {"number_of_root_nodes": n},
              "FinalTimeEndOfRunEventHandler": {"end_of_run_time": rng.choice([3.0, 6.5, 11])},
              "FixedIntervalSamplingEventHandler": {"sampling_interval": rng.choice([0.05, 0.1, 0.37])},
              "CuboidPeriodicCells": {"cells_per_side": ", ".join(str(rng.randint(4, 7)) for _ in range(3))},
              "CoulombNearby": {"number_event_handlers": n}, "CoulombSurplus": {"number_event_handlers": n}}
        if "cell_bounded" in base:
            ov["CoulombCellBounding"] = {"number_event_handlers": n}
        jobs.append({"ini": runs.CFG + base, "seed": ctx.seed * 1000 + 800 + k, "max_legs": ctx.n(2500, 20000), "kind": "generated-fp",
                     "overrides": ov, "extras": ["occupancy"]})
    return jobs
