"""C16 — The cell grid partitions the box; neighbour/offset relations form a torus.

Correspondence: the Lean model `JF.Model.Cells` (binary64 reading) vs the real `CuboidCells` /
`CuboidPeriodicCells`: bit-exact cell side lengths, cumulative product, every cell's identifier and extent,
`position_to_cell`, the generation order of `_yield_nearby_cells`, `neighbor_cell`, `relative_cell`, `translate`,
`zero_cell`, and the error outcomes.
Oracle (on the implementation only, integer arithmetic on identifiers + float comparisons on extents):
tiling of [0, L) in every direction, `position_to_cell(p)` contains `p` for every p in the box, torus laws.
The oracle demands the property without exception.  The witnesses of the former finding F2 (top floats of the box on the
3x5x7 unit grid; repaired in cuboid_cells.py by `_cell_identifier` and the bounded upper stepping) stay in the corpus as
regression inputs: on a tree without the repair they fail with the signatures recorded in known_findings/C16.json."""
import itertools, math

from harness.drive import f2b, b2f

ID = "C16"
THEOREM_MODULES = ["JF.Props.C16"]
COMPONENTS = ["cells"]
ASSUMPTIONS = [
    "box lengths are finite normal floats in [2^-200, 2^200], cells per side >= 1 (so that every cell holds many floats; "
    "L/n subnormal, zero or infinite is outside the explored domain)",
    "a position 'in the box' is a float vector with 0 <= p_d < L_d; p_d = L_d (accepted by the assertion of "
    "position_to_cell, mapped to the last cell) and p_d just outside [0, L_d] (AssertionError) are only compared "
    "model-vs-implementation, not judged by the oracle",
    "'abut without gap or overlap' is read on the float line: max of cell i and min of cell i+1 are adjacent floats",
]
TRUSTED = ["Lean native Float (+ - * / comparisons, toBits/ofBits are the hardware's IEEE-754 binary64 operations); "
           "JF.Num.Ops.ftoInt / ffmod (integer decoding of a float)"]

UP, DOWN = math.inf, -math.inf


def nxt(x, k=1):
    for _ in range(abs(k)):
        x = math.nextafter(x, UP if k > 0 else DOWN)
    return x


def hexes(v):
    return [float(x).hex() for x in v]


# ----------------------------------------------------------------------------------------------- generators
def gen_length(rng):
    c = rng.random()
    if c < 0.25:
        return 1.0
    if c < 0.35:
        return rng.choice([0.1, 0.3, 0.7, 3.7, 1.0 / 3.0, 2.0, 10.0, 5.5, 1e-3, 1e3, 6.02e23, math.pi])
    if c < 0.5:
        return 2.0 ** rng.randint(-60, 60)
    if c < 0.75:
        return rng.uniform(0.5, 20.0)
    if c < 0.9:
        return 10.0 ** rng.uniform(-4, 4)
    return rng.random() * 2.0 ** rng.randint(-200, 200) or 1.0


def gen_grid(rng, max_cells):
    dim = rng.choice([1, 1, 2, 2, 2, 3, 3, 3, 3, 4, 5])
    for _ in range(100):
        c = rng.random()
        if c < 0.25:
            n = [rng.randint(1, 12)] * dim
        elif c < 0.35 and dim <= 2:
            n = [rng.randint(1, 60) for _ in range(dim)]
        else:
            n = [rng.randint(1, 12 if dim <= 3 else 5) for _ in range(dim)]
        if math.prod(n) <= max_cells:
            break
    else:
        n = [2] * dim
    c = rng.random()
    if c < 0.3:
        L = [gen_length(rng)] * dim
    elif c < 0.5 and dim >= 2:
        # commensurate non-cubic box: the SAME float side length in every direction but different cell counts (the directions
        # differ only in where the box ends), e.g. 1.0 x 2.0 with 3 x 6 cells
        side = rng.choice([1.0 / 3.0, 1.0 / 6.0, 1.0 / 7.0, 0.1, 1.0 / 9.0, gen_length(rng) / rng.choice([3, 6, 7, 9, 12])])
        L = [k * side for k in n]
        if any(L[i] / n[i] != side for i in range(dim)):
            L = [gen_length(rng) for _ in range(dim)]
    else:
        L = [gen_length(rng) for _ in range(dim)]
    layers = rng.choice([0, 1, 1, 1, 1, 2, 2, 3])
    while (2 * layers + 1) ** dim * math.prod(n) > 150000 and layers > 0:
        layers -= 1
    # how many numbers are handed to the constructor ("if fewer … the first number is reused")
    k = dim
    if rng.random() < 0.2:
        k = rng.randint(1, dim)
    given = n[:k]
    n = [given[i] if i < k else given[0] for i in range(dim)]
    if math.prod(n) > max_cells:
        given, n = n, n
    return {"L": L, "given": given, "layers": layers, "periodic": rng.random() < 0.6,
            "cubic_setting": len(set(L)) == 1 and rng.random() < 0.5}


class Limiter:
    """ctx.failures is capped by the framework; never let repeats of one signature crowd out another one"""
    def __init__(self, ctx, cap=12):
        self.ctx, self.cap, self.seen = ctx, cap, {}

    def fail(self, sig, case, what):
        k = self.seen.get(sig, 0)
        self.seen[sig] = k + 1
        if k < self.cap:
            self.ctx.fail(sig, case, what)
        else:
            self.ctx.count("oracle-failure(repeat):" + sig)


# ----------------------------------------------------------------------------------------------- implementation side
def build_impl(grid):
    import jellyfysh.setting as setting
    from jellyfysh.setting import hypercuboid_setting, hypercubic_setting
    from jellyfysh.activator.internal_state.cell_occupancy.cells.cuboid_cells import CuboidCells
    from jellyfysh.activator.internal_state.cell_occupancy.cells.cuboid_periodic_cells import CuboidPeriodicCells
    setting.reset()
    L = grid["L"]
    if grid.get("cubic_setting"):
        hypercubic_setting.HypercubicSetting(beta=1.0, dimension=len(L), system_length=L[0])
    else:
        hypercuboid_setting.HypercuboidSetting(beta=1.0, dimension=len(L), system_lengths=list(L))
    setting.set_number_of_node_levels(1)
    setting.set_number_of_root_nodes(1)
    setting.set_number_of_nodes_per_root_node(1)
    assert tuple(hypercuboid_setting.system_lengths) == tuple(L)
    cls = CuboidPeriodicCells if grid["periodic"] else CuboidCells
    return cls(list(grid["given"]), grid["layers"])


def show_cell(c):
    return "%s|%s|%s" % (",".join(str(i) for i in c.identifier), ",".join(f2b(x) for x in c.cell_min),
                         ",".join(f2b(x) for x in c.cell_max))


def outcome(f):
    try:
        r = f()
    except (AssertionError, IndexError, ZeroDivisionError, OverflowError, ValueError) as e:
        return None, "err:" + type(e).__name__
    except Exception as e:  # ConfigurationError and anything unexpected
        return None, "err:" + type(e).__name__
    return r, None


def init_line(grid):
    L = grid["L"]
    return "init %d %d %d %s %d %s" % (1 if grid["periodic"] else 0, len(L), grid["layers"], " ".join(f2b(x) for x in L),
                                        len(grid["given"]), " ".join(str(x) for x in grid["given"]))


# ----------------------------------------------------------------------------------------------- one grid
def positions_for(rng, L, n, per_dir, npos):
    """per_dir[d] = list of (cell_min, cell_max) along direction d (from the implementation)"""
    dim = len(L)
    cand = []
    for d in range(dim):
        side = L[d] / n[d]
        top = nxt(L[d], -1)
        c = [(0.0, "zero"), (top, "top-1ulp"), (nxt(L[d], -2), "top-2ulp"), (nxt(L[d], -3), "top-3ulp"), (5e-324, "tiny"),
             (L[d] / 2, "half")]
        idxs = list(range(n[d])) if n[d] <= 14 else sorted(set([0, 1, n[d] - 2, n[d] - 1] + rng.sample(range(n[d]), 6)))
        for i in idxs:
            lo, hi = per_dir[d][i]
            c += [(lo, "cell-min"), (hi, "cell-max"), (nxt(lo, 1), "cell-min+ulp"), (nxt(hi, -1), "cell-max-ulp"),
                  (i * side, "i*side"), ((i + 1) * side, "i*side"), ((i + 0.5) * side, "mid")]
            if lo > 0.0:
                c.append((nxt(lo, -1), "cell-min-ulp"))
            c.append((nxt(hi, 1), "cell-max+ulp"))
        c = [(p, k) for p, k in c if 0.0 <= p < L[d]]
        cand.append(c)
    out = []
    # every candidate of every direction at least once, the other coordinates random
    for d in range(dim):
        for p, k in cand[d]:
            pos, kinds = [], []
            for e in range(dim):
                if e == d:
                    pos.append(p); kinds.append(k)
                elif rng.random() < 0.5:
                    q, kk = rng.choice(cand[e]); pos.append(q); kinds.append(kk)
                else:
                    pos.append(rng.random() * L[e]); kinds.append("random")
            if all(0.0 <= pos[e] < L[e] for e in range(dim)):
                out.append((pos, tuple(kinds)))
    if len(out) > npos:
        keep = [x for x in out if any(k.startswith("top") for k in x[1])]
        rest = [x for x in out if not any(k.startswith("top") for k in x[1])]
        rng.shuffle(rest)
        out = keep + rest[:max(0, npos - len(keep))]
    # all coordinates at the top of the box, random ones
    out.append(([nxt(L[d], -1) for d in range(dim)], ("top-1ulp",) * dim))
    # not in the box (correspondence only): the system length itself, which the assertion admits, and just outside of it
    for d in range(dim):
        for q, k in ((L[d], "at-L"), (nxt(L[d], 1), "above-L"), (-5e-324, "below-0")):
            pos = [rng.random() * L[e] if rng.random() < 0.5 else nxt(L[e], -1) for e in range(dim)]
            pos[d] = q
            out.append((pos, tuple(k if e == d else "other" for e in range(dim))))
    out.append(([L[d] for d in range(dim)], ("at-L",) * dim))
    for _ in range(max(4, npos // 8)):
        pos = [rng.random() * L[d] for d in range(dim)]
        if all(pos[d] < L[d] for d in range(dim)):
            out.append((pos, ("random",) * dim))
    return out


def run_grid(ctx, lim, rng, grid, budget, extra_positions=()):
    """returns number of compared replies"""
    L = grid["L"]
    dim = len(L)
    periodic = grid["periodic"]
    desc = {"L": hexes(L), "cells_per_side_given": list(grid["given"]), "neighbor_layers": grid["layers"],
            "periodic": periodic, "cubic_setting": bool(grid.get("cubic_setting"))}
    sysm, err = outcome(lambda: build_impl(grid))
    if err is not None:
        rep = ctx.model("cells", [init_line(grid)])
        if rep[0] != err:
            ctx.disagree("cells.init", desc, err, rep[0])
        expected = (not 0 < len(grid["given"]) <= dim) or grid["layers"] < 0
        ctx.cls(("init-error", err, expected))
        if not expected:
            lim.fail("constructor:" + err, desc, f"constructor raised {err} on a valid grid")
        return 1
    cells = list(sysm.yield_cells())
    n = list(sysm._cells_per_side)
    N = len(cells)
    radix = [math.prod(n[:d]) for d in range(dim)]

    def midx(cell):
        """index of the cell in the model's list (mixed radix, first direction fastest; validated on the `cells` reply)"""
        return sum(cell.identifier[d] * radix[d] for d in range(dim))
    by_ident = {}
    for c in cells:
        by_ident.setdefault(tuple(c.identifier), []).append(c)

    # ---------------- oracle A: identifiers / index bijection / tiling
    ok_struct = True
    if N != math.prod(n) or any(len(v) != 1 for v in by_ident.values()) or \
            set(by_ident) != set(itertools.product(*[range(x) for x in n])):
        lim.fail("cells:identifiers-not-a-bijection", desc, "cell identifiers are not exactly the product of range(n_d)")
        ok_struct = False
    per_dir = []
    if ok_struct:
        for d in range(dim):
            ext = {}
            consistent = True
            for c in cells:
                e = (c.cell_min[d], c.cell_max[d])
                if ext.setdefault(c.identifier[d], e) != e:
                    consistent = False
            if not consistent:
                lim.fail("extents:not-a-product-grid", {**desc, "direction": d},
                         "cells with the same identifier entry have different extents in that direction")
            pd = [ext[i] for i in range(n[d])]
            per_dir.append(pd)
            if pd[0][0] != 0.0:
                lim.fail("extents:first-min-not-zero", {**desc, "direction": d}, f"first cell starts at {pd[0][0]!r}")
            for i in range(n[d]):
                if not pd[i][0] < pd[i][1]:
                    lim.fail("extents:empty-cell", {**desc, "direction": d, "i": i}, f"min {pd[i][0]!r} !< max {pd[i][1]!r}")
            for i in range(n[d] - 1):
                if nxt(pd[i][1], 1) != pd[i + 1][0]:
                    lim.fail("extents:gap-or-overlap", {**desc, "direction": d, "i": i},
                             f"max of cell {i} = {pd[i][1]!r}, min of cell {i + 1} = {pd[i + 1][0]!r} are not adjacent floats")
            if pd[-1][1] < nxt(L[d], -1):
                lim.fail("extents:last-cell-max-below-box-top", {**desc, "direction": d},
                         f"last cell ends at {pd[-1][1]!r} < largest float below L = {nxt(L[d], -1)!r}: [0, L) is not covered")
                ctx.cls(("top-gap", dim, n[d] % 4))
            else:
                ctx.cls(("top-covered", dim, pd[-1][1] >= L[d]))
    defect_dirs = [d for d in range(dim) if ok_struct and per_dir[d][-1][1] < nxt(L[d], -1)]
    ctx.cls(("grid", dim, periodic, len(set(L)) == 1, len(set(n)) == 1, grid["layers"], bool(defect_dirs),
             len(grid["given"]) < dim, min(n) == 1, 2 * grid["layers"] + 1 >= min(n)))
    ctx.count("grid:dim=%d" % dim)
    ctx.count("grid:periodic" if periodic else "grid:nonperiodic")
    if defect_dirs:
        ctx.count("grid:top-of-box-gap")

    # ---------------- requests
    req, impl, tags = [], [], []

    def add(line, impl_reply, tag):
        req.append(line); impl.append(impl_reply); tags.append(tag)

    add(init_line(grid), "ok %d" % N, "init")
    if hasattr(sysm, "_cell_side_lengths") and hasattr(sysm, "_cumulative_product"):   # private: compared only if present
        add("info", "%s|%s|%s" % (",".join(f2b(x) for x in sysm._cell_side_lengths),
                                  ",".join(str(x) for x in sysm._cumulative_product), ",".join(str(x) for x in n)), "info")
    add("cells", " ".join(sorted(show_cell(c) for c in cells)), "cells")

    # ---------------- positions: correspondence + oracle B
    if ok_struct:
        plist = positions_for(rng, L, n, per_dir, budget)
    else:
        plist = []
    plist += [(list(p), ("corpus",) * dim) for p in extra_positions]
    for pos, kinds in plist:
        c, err = outcome(lambda: sysm.position_to_cell(tuple(pos)))
        add("p2c " + " ".join(f2b(x) for x in pos), err if err else show_cell(c), "p2c")
        in_box = all(0.0 <= pos[d] < L[d] for d in range(dim))
        if not in_box:
            ctx.count("position:outside-box(correspondence only)")
            ctx.cls(("p2c-outside", tuple(sorted(set(k for k in kinds if k != "other"))), err or "cell"))
            continue
        ctx.count("position:" + ("top" if any(k.startswith("top") for k in kinds) else
                                 "boundary" if any(k.startswith("cell") or k == "i*side" for k in kinds) else "other"))
        case = {**desc, "position": hexes(pos)}
        above = ok_struct and [d for d in range(dim) if pos[d] > per_dir[d][-1][1]]
        where = "above-last-cell-max" if above else "inside-grid"
        if err:
            lim.fail(f"position_to_cell:{where}:{err[4:]}", case, f"position in the box raised {err[4:]}")
            ctx.cls(("p2c", where, err))
        elif not all(c.cell_min[d] <= pos[d] <= c.cell_max[d] for d in range(dim)):
            lim.fail(f"position_to_cell:{where}:wrong-cell", case,
                     f"returned cell {tuple(c.identifier)} with extent {hexes(c.cell_min)}..{hexes(c.cell_max)} does not contain the position")
            ctx.cls(("p2c", where, "wrong-cell"))
        else:
            # exactly one cell contains it: the product structure + tiling (checked above) give uniqueness; check directly
            if ok_struct:
                cnt = 1
                for d in range(dim):
                    cnt *= sum(1 for lo, hi in per_dir[d] if lo <= pos[d] <= hi)
                if cnt != 1:
                    lim.fail("position_to_cell:not-exactly-one-cell", case, f"{cnt} cells contain the position")
            ctx.cls(("p2c", kinds[0] if dim == 1 else tuple(sorted(set(kinds)))[:2]))

    # ---------------- torus relations: correspondence + oracle C
    def ident_mod(t):
        return tuple(t[d] % n[d] for d in range(dim))

    layers = grid["layers"]
    window = list(itertools.product(*[range(-layers, layers + 1)] * dim))
    ks = list(range(N)) if N <= budget else sorted(set([0, N - 1] + rng.sample(range(N), budget)))
    nb_sets = {}
    if ok_struct:
        for k in ks:
            c = cells[k]
            got = sysm.nearby_cells(c)
            add("nearby %d" % midx(c), " ".join(sorted({",".join(str(i) for i in x.identifier) for x in got})), "nearby")
            nb_sets[k] = got
            cid = tuple(c.identifier)
            if periodic:
                want = {ident_mod(tuple(cid[d] + w[d] for d in range(dim))) for w in window}
            else:
                want = {t for t in (tuple(cid[d] + w[d] for d in range(dim)) for w in window)
                        if all(0 <= t[d] < n[d] for d in range(dim))}
            case = {**desc, "cell": list(cid)}
            if {tuple(x.identifier) for x in got} != want or len(got) != len(want):
                lim.fail("nearby_cells:not-index-window" + ("-mod-n" if periodic else "-clipped"), case,
                         "nearby cells differ from the identifier window")
            if c not in got:
                lim.fail("nearby_cells:self-missing", case, "cell is not nearby itself")
            for x in got:
                if c not in sysm.nearby_cells(x):
                    lim.fail("nearby_cells:not-symmetric", {**case, "other": list(x.identifier)}, "c' in nearby(c) but c not in nearby(c')")
            ctx.cls(("nearby", periodic, dim, len(got) == (2 * layers + 1) ** dim))
            for d in range(dim):
                for positive in (True, False):
                    x, err = outcome(lambda: sysm.neighbor_cell(c, d, positive))
                    add("neighbor %d %d %d" % (midx(c), d, 1 if positive else 0), err if err else ("None" if x is None else show_cell(x)),
                        "neighbor")
                    t = list(cid); t[d] += 1 if positive else -1
                    if periodic:
                        want_id = ident_mod(t)
                    else:
                        want_id = tuple(t) if 0 <= t[d] < n[d] else None
                    got_id = None if x is None else tuple(x.identifier)
                    if err or got_id != want_id:
                        lim.fail("neighbor_cell:not-index-plus-minus-one", {**case, "direction": d, "positive": positive},
                                 f"neighbor {err or got_id}, index arithmetic gives {want_id}")
                    ctx.cls(("neighbor", periodic, want_id is None, bool(periodic and (t[d] < 0 or t[d] >= n[d]))))

    if periodic and ok_struct:
        z, err = outcome(lambda: sysm.zero_cell)
        add("zero", err if err else show_cell(z), "zero")
        if err or tuple(z.identifier) != (0,) * dim:
            lim.fail("zero_cell:not-origin", desc, "zero cell is not the cell with identifier 0")
        if N * N <= 4 * budget:
            pairs = [(a, b) for a in range(N) for b in range(N)]
        else:
            pairs = [(rng.randrange(N), rng.randrange(N)) for _ in range(2 * budget)]
            pairs += [(0, 0), (N - 1, N - 1), (0, N - 1), (N - 1, 0)] + [(k, k) for k in rng.sample(range(N), 3)]
        zero_nb = sysm.nearby_cells(cells[0])
        for a, b in pairs:
            ca, cb = cells[a], cells[b]
            ia, ib = tuple(ca.identifier), tuple(cb.identifier)
            case = {**desc, "cell": list(ia), "other": list(ib)}
            r, err = outcome(lambda: sysm.relative_cell(ca, cb))
            add("rel %d %d" % (midx(ca), midx(cb)), err if err else show_cell(r), "rel")
            want = ident_mod(tuple(ia[d] - ib[d] for d in range(dim)))
            if err or tuple(r.identifier) != want:
                lim.fail("relative_cell:not-index-difference-mod-n", case, f"relative_cell gives {err or tuple(r.identifier)}, expected {want}")
            else:
                back, err2 = outcome(lambda: sysm.translate(cb, r))
                if err2 or back is not ca:
                    lim.fail("translate:does-not-invert-relative_cell", case, f"translate(ref, relative_cell(c, ref)) = {err2 or tuple(back.identifier)}")
                # translation invariance of nearby
                if (ca in sysm.nearby_cells(cb)) != (r in zero_nb):
                    lim.fail("nearby_cells:not-translation-invariant", case, "c in nearby(ref) differs from relative_cell(c, ref) in nearby(zero)")
            t, err = outcome(lambda: sysm.translate(ca, cb))
            add("trans %d %d" % (midx(ca), midx(cb)), err if err else show_cell(t), "trans")
            want = ident_mod(tuple(ia[d] + ib[d] for d in range(dim)))
            if err or tuple(t.identifier) != want:
                lim.fail("translate:not-index-sum-mod-n", case, f"translate gives {err or tuple(t.identifier)}, expected {want}")
            ctx.cls(("pair", dim, any(ia[d] < ib[d] for d in range(dim)), any(ia[d] + ib[d] >= n[d] for d in range(dim)), a == b))

    rep = ctx.model("cells", req)
    for line, im, mo, tag in zip(req, impl, rep, tags):
        ctx.count("compared:" + tag)
        if tag == "cells":
            mcells = mo.split(" ")
            if len(mcells) != N or any(
                    mcells[midx(c)].split("|")[0] != ",".join(str(i) for i in c.identifier) for c in cells if midx(c) < len(mcells)):
                ctx.disagree("cells.order-of-model-list", desc, "mixed radix", "other")
            mo = " ".join(sorted(mcells))
        elif tag == "nearby":
            mo = " ".join(sorted(set(mo.split(" "))))
        if im != mo:
            ctx.disagree("cells." + tag, {**desc, "request": line if len(line) < 400 else line[:400] + "…"},
                         im if len(im) < 600 else im[:600] + "…", mo if len(mo) < 600 else mo[:600] + "…")
            if tag.startswith("p2c"):
                # probe the float neighbourhood of the disagreeing position with the oracle
                pos = [b2f(x) for x in line.split()[1:]]
                for d in range(dim):
                    for k in (-2, -1, 1, 2):
                        q = list(pos); q[d] = nxt(q[d], k)
                        if all(0.0 <= q[e] < L[e] for e in range(dim)):
                            c, err = outcome(lambda: sysm.position_to_cell(tuple(q)))
                            if err or not all(c.cell_min[e] <= q[e] <= c.cell_max[e] for e in range(dim)):
                                lim.fail("position_to_cell:near-disagreement:" + (err[4:] if err else "wrong-cell"),
                                         {**desc, "position": hexes(q)}, "position next to a model/implementation disagreement fails")
    if len(ctx.samples) < 6:
        i = min(len(req) - 1, 3 + len(ctx.samples))
        ctx.sample({"grid": desc, "request": req[i][:200], "impl": impl[i][:200], "model": rep[i][:200]})
    return len(req)


WITNESS_GRID = {"L": [1.0, 1.0, 1.0], "given": [3, 5, 7], "layers": 1, "periodic": True, "cubic_setting": False}
WITNESS_POSITIONS = [(0.9999999999999999, 0.1, 0.1), (0.9999999999999999, 0.9999999999999999, 0.9999999999999999)]


def run(ctx):
    import jellyfysh.setting as setting
    rng = ctx.rng
    lim = Limiter(ctx)
    ctx.rule = ("corpus (witness grid and positions of the former finding F2 as regression inputs, error grids, exhaustive "
                "small grids) then seeded random grids "
                "(dimension 1-5, cubic/non-cubic lengths incl. non-dyadic and 2^±60, equal/unequal counts, 0-3 layers, "
                "periodic or not, short cells_per_side); per grid every cell/nearby/neighbour (sampled on big grids), "
                "cell pairs, and positions at every cell's min/max ± ulp, 0, L-1..3ulp, i*side, random (plus L, L+ulp, -tiny: "
                "compared only). A case class is "
                "(grid regime) x (position kind | relation kind | wrap regime)")
    total = 0
    budget = ctx.n(40, 160)
    try:
        # ---- corpus
        total += run_grid(ctx, lim, rng, WITNESS_GRID, budget, WITNESS_POSITIONS)
        for g in [
            {"L": [1.0, 2.0], "given": [], "layers": 1, "periodic": True},
            {"L": [1.0, 2.0], "given": [2, 2, 2], "layers": 1, "periodic": False},
            {"L": [1.0, 2.0], "given": [2, 3], "layers": -1, "periodic": True},
            {"L": [1.0, 2.0], "given": [4, 3], "layers": 1, "periodic": True},      # the unittest grid
            {"L": [1.0, 2.0], "given": [4, 3], "layers": 1, "periodic": False},
            {"L": [1.0, 1.0, 1.0], "given": [5], "layers": 2, "periodic": True, "cubic_setting": True},
            {"L": [1.0], "given": [1], "layers": 1, "periodic": True},
            {"L": [1.0, 1.0], "given": [1, 2], "layers": 3, "periodic": True},
            {"L": [1e-3, 1.0, 1e3], "given": [7, 3, 12], "layers": 1, "periodic": True},
        ]:
            total += run_grid(ctx, lim, rng, g, budget)
        # ---- exhaustive small grids
        top1, top2, top3 = ctx.n(12, 12), ctx.n(6, 12), ctx.n(2, 7)
        grids = [[a] for a in range(1, top1 + 1)]
        grids += [[a, b] for a in range(1, top2 + 1) for b in range(1, top2 + 1)]
        grids += [[a, b, c] for a in range(1, top3 + 1) for b in range(1, top3 + 1) for c in range(1, top3 + 1)]
        for n in grids:
            for L in ([1.0] * len(n), [gen_length(rng) for _ in n]):
                g = {"L": L, "given": n, "layers": rng.choice([0, 1, 1, 2]), "periodic": rng.random() < 0.7,
                     "cubic_setting": len(set(L)) == 1 and rng.random() < 0.5}
                total += run_grid(ctx, lim, rng, g, budget)
        # ---- random grids
        for _ in range(ctx.n(120, 1500)):
            total += run_grid(ctx, lim, rng, gen_grid(rng, ctx.n(1500, 4000)), budget)
    finally:
        setting.reset()
    ctx.evaluations = total


def replay(ctx, case):
    """re-run the grid (and position, if any) of a recorded failing input"""
    c = case.get("case", case)
    grid = {"L": [float.fromhex(x) for x in c["L"]], "given": c["cells_per_side_given"], "layers": c["neighbor_layers"],
            "periodic": c["periodic"], "cubic_setting": c.get("cubic_setting", False)}
    pos = [tuple(float.fromhex(x) for x in c["position"])] if "position" in c else []
    lim = Limiter(ctx)
    run_grid(ctx, lim, ctx.rng, grid, 40, pos)
    return {"failures": ctx.failures[:10], "disagreements": ctx.disagreements[:10]}
