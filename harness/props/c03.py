"""C03 — Reported event rates are the directional derivative of the model energy.

Correspondence: the Lean models `JF.Model.Potential.Derivative` / `DerivativeEwald` (binary64 reading, driver
`jf_deriv`) vs the real potential classes and the freshly compiled C routines, on the same inputs.  The Python
potentials and the 1/r bound agree bit for bit in practice (same libm `pow`); the tolerance is 1e-12 relative
there and 1e-10 relative (+ an absolute floor where the value vanishes by symmetry) for the Ewald routine,
whose `erfc` the model implements itself.

Oracle (independent of the code under test, evaluated on the implementation for every generated case that is
numerically well conditioned): Richardson-extrapolated central finite differences of independently written
energy functions (for the periodic Coulomb potential a direct Ewald energy over the full +- lattice with its own
splitting parameter and cut-offs converged to 1e-17, no octant folding, no recurrences), plus linearity in speed
and charge product, oddness / periodicity / alpha-independence of the lattice-sum derivative, and the bending
derivatives summing to zero.
"""
import math
from harness.drive import f2b, b2f

ID = "C03"
THEOREM_MODULES = ["JF.Props.C03"]
COMPONENTS = ["deriv"]
ASSUMPTIONS = [
    "three-dimensional separations; velocities as the property's quantifier says (one positive component) - other "
    "velocities are checked to give the same AssertionError outcome in model and implementation",
    "the finite-difference oracle is evaluated where the derivative is numerically well conditioned (bending angle with "
    "sin(phi) > 0.02, finite non-overflowing energies); elsewhere only the correspondence and the algebraic "
    "oracles (linearity, sum-to-zero, oddness) are evaluated",
    "the 'fully converged lattice sum' clause is probed numerically for Ewald parameter sets whose truncation error "
    "is below the oracle tolerance (default 3.45/6/2, the unittest variant 5.0/9/2, and neighbours); it is not proved",
    "CPython >= 3.12 builtin sum (Neumaier compensated) is what vectors.norm runs on; the model follows it",
]
TRUSTED = [
    "Lean native Float and the platform libm (pow, exp, sqrt, cos, sin, acos) behind Float.pow etc.",
    "JF.Deriv.erfcF (series / continued fraction) - validated against math.erfc in every run (rel 1e-12)",
    "(int) sqrt(n) == isqrt(n) for the integer cut-offs - validated in every run for n <= 10^4",
]

DIRS = (0, 1, 2)


# ----------------------------------------------------------------------------------------------------------------------
# independent energies (written from the formulas in the class docstrings, not from the derivative code)

def _norm(v):
    return math.sqrt(v[0] * v[0] + v[1] * v[1] + v[2] * v[2])


def shifted(s, d, x):
    t = list(s)
    t[d] = t[d] + x
    return t


def U_ip(power, k, cc, s):
    return cc * k / _norm(s) ** power


def U_lj(k, cl, s):
    q = cl / _norm(s)
    return k * (q ** 12 - q ** 6)


def U_dep(k, r0, power, s):
    return k * (_norm(s) - r0) ** power


def U_bend(k, phi0, s1, s2):
    c = (s1[0] * s2[0] + s1[1] * s2[1] + s1[2] * s2[2]) / (_norm(s1) * _norm(s2))
    phi = math.acos(max(-1.0, min(1.0, c)))
    return 0.5 * k * (phi - phi0) ** 2


class EwaldEnergy:
    """psi(s) = sum_n erfc(a|s+nL|)/|s+nL| + 1/(pi L) sum_{m != 0} exp(-pi^2 m^2 / alpha^2)/m^2 cos(2 pi m.s/L) - pi/(alpha^2 L)
    = the tin-foil lattice sum of 1/|s + nL| up to an s-independent constant.  Full cubes of lattice vectors, centred on
    the image nearest to s."""

    def __init__(self, L, alpha=2.0, pos_cut=3, four_cut=4):
        self.L, self.alpha, self.a, self.pc = L, alpha, alpha / L, pos_cut
        self.coef = []
        for mx in range(-four_cut, four_cut + 1):
            for my in range(-four_cut, four_cut + 1):
                for mz in range(-four_cut, four_cut + 1):
                    m2 = mx * mx + my * my + mz * mz
                    if m2:
                        self.coef.append((mx, my, mz, math.exp(-math.pi ** 2 * m2 / alpha ** 2) / (m2 * math.pi * L)))
        self.const = -math.pi / (alpha ** 2 * L)

    def __call__(self, s):
        L, a = self.L, self.a
        base = [-round(c / L) for c in s]
        tot = 0.0
        rng = range(-self.pc, self.pc + 1)
        for nx in rng:
            x = s[0] + (base[0] + nx) * L
            for ny in rng:
                y = s[1] + (base[1] + ny) * L
                for nz in rng:
                    z = s[2] + (base[2] + nz) * L
                    r = math.sqrt(x * x + y * y + z * z)
                    tot += math.erfc(a * r) / r
        w = 2.0 * math.pi / L
        tx, ty, tz = w * s[0], w * s[1], w * s[2]
        f = 0.0
        for mx, my, mz, c in self.coef:
            f += c * math.cos(mx * tx + my * ty + mz * tz)
        return tot + f + self.const


def richardson(f, h):
    """central differences at h, h/2, h/4, two Richardson steps; returns (estimate, error estimate, max |f| sampled)"""
    vals = []
    D = []
    for k in range(3):
        hh = h / 2 ** k
        a, b = f(hh), f(-hh)
        vals += [abs(a), abs(b)]
        D.append((a - b) / (2 * hh))
    r01 = (4 * D[1] - D[0]) / 3
    r12 = (4 * D[2] - D[1]) / 3
    r = (16 * r12 - r01) / 15
    return r, abs(r - r12), max(vals)


# ----------------------------------------------------------------------------------------------------------------------
# generators

def nxt(x, k=1):
    for _ in range(abs(k)):
        x = math.nextafter(x, math.inf if k > 0 else -math.inf)
    return x


def gen_velocity(rng):
    """(velocity, tag)"""
    c = rng.random()
    d = rng.randrange(3)
    v = [0.0, 0.0, 0.0]
    if c < 0.90:
        v[d] = rng.choice([1.0, 1.0, rng.uniform(0.05, 5.0), 2.0 ** rng.randint(-20, 20)])
        if rng.random() < 0.1:
            v[(d + 1) % 3] = -0.0
        return v, "std"
    if c < 0.93:
        v[d] = -rng.uniform(0.1, 2.0)
        return v, "neg"
    if c < 0.96:
        v[d] = 1.0
        v[(d + 1 + rng.randrange(2)) % 3] = rng.choice([1.0, -0.5, 1e-300])
        return v, "two"
    if c < 0.98:
        return v, "zero"
    v[d] = rng.choice([5e-324, 1e300])
    return v, "extreme"


def gen_sep(rng, scale=1.0):
    """separation for the pair potentials, (vector, tag)"""
    c = rng.random()
    if c < 0.5:
        return [rng.uniform(-2, 2) * scale for _ in range(3)], "bulk"
    if c < 0.62:
        r = 10.0 ** rng.uniform(-6, -1) * scale
        u = [rng.gauss(0, 1) for _ in range(3)]
        n = _norm(u) or 1.0
        return [r * x / n for x in u], "near-origin"
    if c < 0.74:
        s = [rng.uniform(-2, 2) * scale for _ in range(3)]
        s[rng.randrange(3)] = rng.choice([0.0, -0.0, 1e-300, -1e-17 * scale])
        return s, "zero-comp"
    if c < 0.82:
        s = [0.0, 0.0, 0.0]
        s[rng.randrange(3)] = rng.uniform(-2, 2) * scale
        return s, "axis"
    if c < 0.88:
        x = rng.uniform(0.1, 2) * scale
        return [x * rng.choice([-1, 1]) for _ in range(3)], "diagonal"
    if c < 0.93:
        return [rng.uniform(-1, 1) * 10.0 ** rng.choice([-30, -10, 5, 20, 40]) for _ in range(3)], "scale"
    if c < 0.96:
        return [0.0, 0.0, rng.choice([0.0, -0.0])], "origin"
    return [rng.choice([1e-170, 1e-200, 1e160, 1e200, 5e-324]) * rng.choice([-1, 1]) for _ in range(3)], "extreme"


def gen_charges(rng):
    c = rng.random()
    if c < 0.5:
        return rng.choice([1.0, -1.0]), rng.choice([1.0, -1.0])
    if c < 0.9:
        return rng.uniform(-3, 3), rng.uniform(-3, 3)
    return rng.choice([0.0, -0.0, 1e-10, 1e10]), rng.uniform(-3, 3)


def F(*xs):
    return " ".join(f2b(x) for x in xs)


def gen_cases(ctx):
    rng = ctx.rng
    cases = []

    def add(kind, n):
        for _ in range(n):
            v, vt = gen_velocity(rng)
            c = {"kind": kind, "v": v, "vt": vt}
            if kind == "ip":
                c["power"] = rng.choice([1.0, 2.0, 6, 12, 0.5, 3.7, rng.uniform(0.1, 14), 1e-3] +
                                        ([0.0, -1.0] if rng.random() < 0.1 else []))
                c["k"] = rng.choice([1.0, -1.0, rng.uniform(-3, 3), 1e-8, 1e8] + ([0.0] if rng.random() < 0.1 else []))
                c["s"], c["st"] = gen_sep(rng)
                c["c1"], c["c2"] = gen_charges(rng)
                c["line"] = f"ip {F(c['power'], c['k'], *v, *c['s'], c['c1'], c['c2'])}"
            elif kind == "lj":
                c["k"] = rng.choice([1.0, rng.uniform(0.01, 5), 1e-6, 1e6] + ([0.0, -1.0] if rng.random() < 0.1 else []))
                c["cl"] = rng.choice([1.0, rng.uniform(0.2, 3), 1e-3, 30.0] +
                                     ([1e-30, 1e60, 0.0, -1.0] if rng.random() < 0.15 else []))
                cc = rng.random()
                if cc < 0.35 and c["cl"] > 0:
                    # around the minimum cl * 2^(1/6) and around the zero crossing cl
                    r = c["cl"] * rng.choice([2 ** (1 / 6), 1.0, 0.9, 1.5, 2.5]) * (1 + rng.choice([0, 1e-3, -1e-3, 1e-9]))
                    u = [rng.gauss(0, 1) for _ in range(3)]
                    n = _norm(u) or 1.0
                    c["s"], c["st"] = [r * x / n for x in u], "shell"
                else:
                    c["s"], c["st"] = gen_sep(rng, c["cl"] if 0 < c["cl"] < 100 else 1.0)
                c["line"] = f"lj {F(c['k'], c['cl'], *v, *c['s'])}"
            elif kind == "dep":
                c["k"] = rng.choice([1.0, rng.uniform(0.01, 5), 1e-6, 1e6] + ([0.0, -1.0] if rng.random() < 0.1 else []))
                c["r0"] = rng.choice([1.0, rng.uniform(0.2, 3), 1e-3, 30.0] + ([0.0, -1.0] if rng.random() < 0.1 else []))
                c["power"] = rng.choice([2, 2, 4, 6, 8, 20] + ([0, 3, -2, 1] if rng.random() < 0.15 else []))
                cc = rng.random()
                if cc < 0.35 and c["r0"] > 0:
                    r = c["r0"] * rng.choice([1.0, 1.0, 0.5, 1.5, 1 + 1e-9, 1 - 1e-9, nxt(1.0), 3.0])
                    u = [rng.gauss(0, 1) for _ in range(3)]
                    n = _norm(u) or 1.0
                    c["s"], c["st"] = [r * x / n for x in u], "shell"
                else:
                    c["s"], c["st"] = gen_sep(rng, c["r0"] if c["r0"] > 0 else 1.0)
                c["line"] = f"dep {f2b(c['r0'])} {c['power']} {F(c['k'], *v, *c['s'])}"
            elif kind == "bend":
                c["k"] = rng.choice([1.0, rng.uniform(-5, 5), 1e-6, 1e6] + ([0.0] if rng.random() < 0.05 else []))
                c["phi0"] = rng.choice([1.5, math.pi, 0.0, rng.uniform(0, math.pi), 1.9106332362490186])
                cc = rng.random()
                s1, st = gen_sep(rng)
                if cc < 0.55:
                    s2, st2 = gen_sep(rng)
                    st = st + "/" + st2
                elif cc < 0.75:
                    # prescribed angle including nearly (anti)parallel
                    lam = rng.choice([1.0, -1.0, 2.5, -0.3])
                    eps = rng.choice([0.0, 1e-12, 1e-8, 1e-4, 1e-2, 0.3])
                    n1 = _norm([min(abs(x), 1e150) for x in s1]) or 1.0
                    s2 = [max(-1e300, min(1e300, lam * x + eps * rng.gauss(0, 1) * n1)) for x in s1]
                    st = st + "/collinear" + ("" if eps else "-exact")
                elif cc < 0.9:
                    # water-like geometry
                    th = rng.choice([1.9106332362490186, 1.5, rng.uniform(0.3, 2.8)])
                    a, b = rng.uniform(0.5, 1.5), rng.uniform(0.5, 1.5)
                    s1 = [a, 0.0, 0.0]
                    s2 = [b * math.cos(th), b * math.sin(th), 0.0]
                    p = rng.randrange(3)
                    s1 = s1[p:] + s1[:p]
                    s2 = s2[p:] + s2[:p]
                    st = "planar"
                else:
                    s2 = [-x for x in s1] if rng.random() < 0.5 else list(s1)
                    st = st + "/(anti)parallel"
                c["s1"], c["s2"], c["st"] = s1, s2, st
                c["line"] = f"bend {F(c['phi0'], c['k'], *v, *s1, *s2)}"
            elif kind == "bound":
                c["k"] = rng.choice([1.5837, 1.5837, 1.0, rng.uniform(-3, 3), 1e-8] + ([0.0] if rng.random() < 0.05 else []))
                c["s"], c["st"] = gen_sep(rng, 0.25)
                c["c1"], c["c2"] = gen_charges(rng)
                c["line"] = f"bound {F(c['k'], *v, *c['s'], c['c1'], c['c2'])}"
            cases.append(c)

    add("ip", ctx.n(3000, 200000))
    add("lj", ctx.n(1500, 100000))
    add("dep", ctx.n(1500, 100000))
    add("bend", ctx.n(2000, 120000))
    add("bound", ctx.n(1500, 100000))
    return cases


# Ewald parameter sets (alpha, fourier cut-off, position cut-off) whose truncation error is below the oracle tolerance
CONVERGED = [(3.45, 6, 2), (5.0, 9, 2), (3.45, 8, 3), (3.0, 6, 3), (4.0, 8, 2)]
# ... and those that are converged also for separations up to 1.5 L per component (one box outside the minimum image)
WIDE = [(3.45, 8, 3), (3.0, 6, 3)]


def gen_ewald_sep(rng, L):
    """(vector, tag) in units where the box is [-L/2, L/2]^3"""
    c = rng.random()
    h = L / 2
    if c < 0.35:
        return [rng.uniform(-h, h) for _ in range(3)], "bulk"
    if c < 0.5:
        s = [rng.uniform(-h, h) for _ in range(3)]
        for i in range(3):
            if rng.random() < 0.5:
                s[i] = rng.choice([-1, 1]) * (h - L * rng.choice([0.0, 1e-16, 1e-12, 1e-6, 1e-3, 0.02]))
        return s, "face"
    if c < 0.65:
        r = 10.0 ** rng.uniform(-7, -1) * L
        u = [rng.gauss(0, 1) for _ in range(3)]
        n = _norm(u) or 1.0
        return [r * x / n for x in u], "near-origin"
    if c < 0.77:
        s = [rng.uniform(-h, h) for _ in range(3)]
        s[rng.randrange(3)] = rng.choice([0.0, -0.0, 1e-300, -1e-12 * L])
        if rng.random() < 0.3:
            s[rng.randrange(3)] = rng.choice([0.0, h, -h])
        return s, "symmetry-plane"
    if c < 0.85:
        x = rng.uniform(-h, h)
        return rng.choice([[x, x, x], [x, -x, x], [x, 0.0, 0.0], [0.0, x, 0.0], [0.0, 0.0, x], [h, h, x], [x, h, -h]]), "special-line"
    if c < 0.95:
        # one component one box outside the minimum-image cube (with more the spherical cut-off 3 is not converged)
        s = [rng.uniform(-h, h) for _ in range(3)]
        s[rng.randrange(3)] += L * rng.choice([1, -1])
        return s, "outside-box"
    return [1 / 7 * L, 1 / 8 * L, 1 / 5 * L], "unittest-point"


def gen_ewald(ctx):
    rng = ctx.rng
    Ls = [1.0, 2.0, 1e-3, 1e3, rng.uniform(0.5, 20), 10.0 ** rng.uniform(-2, 2)]
    if not ctx.quick:
        Ls += [rng.uniform(0.5, 20) for _ in range(6)] + [7.0, 0.1]
    per = ctx.n(250, 6000)
    out = []
    for L in Ls:
        group = []
        # corpus: the unittest's reference point (value from Mathematica in /repo/unittests)
        group.append({"kind": "ewald", "L": L, "par": (3.45, 6, 2), "k": 1.0, "v": [1.0, 0.0, 0.0], "vt": "std",
                      "s": [L / 7.0, L / 8.0, L / 5.0], "st": "unittest-point", "c1": 1.0, "c2": 1.0, "conv": True})
        for _ in range(per):
            v, vt = gen_velocity(rng)
            c = {"kind": "ewald", "L": L, "v": v, "vt": vt}
            cc = rng.random()
            if cc < 0.7:
                c["par"] = rng.choice(CONVERGED[:2] if rng.random() < 0.8 else CONVERGED)
                c["conv"] = True
            else:
                c["par"] = (rng.choice([3.45, rng.uniform(0.5, 8.0), 1.0]), rng.randint(0, 9), rng.randint(0, 3))
                c["conv"] = False
                if rng.random() < 0.08:
                    c["par"] = (rng.choice([0.0, -1.0, 3.45]), rng.choice([-1, 6]), rng.choice([-2, 2]))
            c["k"] = rng.choice([1.0, 1.0, rng.uniform(-3, 3)] + ([0.0] if rng.random() < 0.03 else []))
            c["s"], c["st"] = gen_ewald_sep(rng, L)
            if c["conv"] and c["st"] == "outside-box":
                # outside the minimum-image cube the sums are converged only with a larger position-space sphere
                c["par"] = rng.choice(WIDE)
            c["c1"], c["c2"] = gen_charges(rng)
            group.append(c)
        for c in group:
            a, fc, pc = c["par"]
            c["line"] = f"ewald {f2b(a)} {fc} {pc} {F(c['k'], L, *c['v'], *c['s'], c['c1'], c['c2'])}"
        out.append((L, group))
    return out


# ----------------------------------------------------------------------------------------------------------------------

def run(ctx):
    import jellyfysh.setting as setting
    from jellyfysh.setting import hypercubic_setting
    from jellyfysh.base.exceptions import ConfigurationError
    from jellyfysh.potential.inverse_power_potential import InversePowerPotential
    from jellyfysh.potential.lennard_jones_potential import LennardJonesPotential
    from jellyfysh.potential.displaced_even_power_potential import DisplacedEvenPowerPotential
    from jellyfysh.potential.bending_potential import BendingPotential
    from jellyfysh.potential.inverse_power_coulomb_bounding_potential import InversePowerCoulombBoundingPotential
    from jellyfysh.potential.merged_image_coulomb_potential import MergedImageCoulombPotential
    from jellyfysh.base import vectors

    rng = ctx.rng
    ctx.rule = ("seeded generator over (potential, parameters incl. invalid ones, velocity class, separation class: bulk / "
                "near origin / zero component / axis / diagonal / shells around minima / (anti)parallel / box faces / "
                "symmetry planes / outside the box / extreme scales, charge pair); a case is non-trivial and distinct by "
                "(potential, direction, separation class, outcome class: value sign or exception, charge-product sign, "
                "Ewald parameter class, box length)")

    def init_setting(L):
        setting.reset()
        hypercubic_setting.HypercubicSetting(beta=1.0, dimension=3, system_length=L)
        setting.set_number_of_root_nodes(2)
        setting.set_number_of_nodes_per_root_node(2)
        setting.set_number_of_node_levels(1)

    # ---------------- self-checks of the trusted pieces
    xs = [rng.uniform(0, 6) for _ in range(ctx.n(1500, 20000))] + [rng.uniform(0, 26) for _ in range(500)]
    xs += [0.0, 2.0, nxt(2.0, -1), 1e-300, 1e-8, 0.5, 26.0, -0.3, -2.5, -7.0]
    rep = ctx.model("deriv", [f"erfc {f2b(x)}" for x in xs])
    for x, r in zip(xs, rep):
        e = math.erfc(x)
        if abs(b2f(r) - e) > 1e-12 * abs(e):
            ctx.disagree("deriv.erfc (self-check of the model's erfc vs libm)", {"x": x.hex()}, f2b(e), r)
    ctx.count("selfcheck:erfc", len(xs))
    for n in range(0, 10001):
        if int(math.sqrt(n)) != math.isqrt(n):
            ctx.disagree("deriv.cutoff (self-check (int) sqrt(n) == Nat.sqrt n)", {"n": n}, int(math.sqrt(n)), math.isqrt(n))
    ctx.count("selfcheck:isqrt", 10001)
    # vectors.norm incl. the interpreter's compensated sum
    nv = [gen_sep(rng)[0] for _ in range(ctx.n(500, 5000))]
    rep = ctx.model("deriv", [f"norm {F(*v)}" for v in nv])
    for v, r in zip(nv, rep):
        try:
            iv = f2b(vectors.norm(v))
        except OverflowError:
            iv = "err:OverflowError"
        if iv != r:
            ctx.disagree("deriv.norm (vectors.norm, bit-exact)", {"v": [x.hex() for x in v]}, iv, r)
    ctx.count("selfcheck:norm", len(nv))
    # the oracle's own Ewald energy: independent of its splitting parameter, and reproduces the Mathematica value
    # quoted in /repo/unittests (6.322464150019139 at (1/7, 1/8, 1/5), L = 1)
    e2, e3 = EwaldEnergy(1.0, 2.0, 3, 4), EwaldEnergy(1.0, 3.0, 3, 6)
    for _ in range(5):
        s = [rng.uniform(-0.5, 0.5) for _ in range(3)]
        if abs(e2(s) - e3(s)) > 1e-12 * abs(e2(s)):
            raise RuntimeError(f"oracle self-check failed: Ewald energy depends on alpha at {s}: {e2(s)} {e3(s)}")
    s0 = [1 / 7, 1 / 8, 1 / 5]
    r, est, _ = richardson(lambda x: e2(shifted(s0, 0, -x)), 1 / 7 / 256)
    if abs(r - 6.322464150019139) > 1e-9:
        raise RuntimeError(f"oracle self-check failed: finite-difference lattice derivative {r} != 6.322464150019139")
    ctx.count("selfcheck:oracle-ewald-energy", 6)

    # ---------------- implementation evaluation
    EXC = (ZeroDivisionError, OverflowError, ValueError, AssertionError, ConfigurationError)
    merged_cache = {}

    def build(c):
        k = c["kind"]
        if k == "ip":
            return InversePowerPotential(power=c["power"], prefactor=c["k"])
        if k == "lj":
            return LennardJonesPotential(prefactor=c["k"], characteristic_length=c["cl"])
        if k == "dep":
            return DisplacedEvenPowerPotential(equilibrium_separation=c["r0"], power=c["power"], prefactor=c["k"])
        if k == "bend":
            return BendingPotential(equilibrium_angle=c["phi0"], prefactor=c["k"])
        if k == "bound":
            return clone(InversePowerCoulombBoundingPotential(prefactor=c["k"]), c)
        if k == "ewald":
            key = (c["par"], c["k"], c["L"])
            if key not in merged_cache:
                if len(merged_cache) > 400:
                    merged_cache.clear()
                a, fc, pc = c["par"]
                merged_cache[key] = {"fresh": MergedImageCoulombPotential(alpha=a, fourier_cutoff=fc, position_cutoff=pc, prefactor=c["k"])}
            return clone(merged_cache[key]["fresh"], c, merged_cache[key])
        raise KeyError(k)

    def clone(pot, c, cache=None):
        """The C-backed potentials reach the event handlers not only freshly constructed: `Tagger.initialize` deep-copies the
        prepared handler for the 2nd..n-th handler of a pool, and a dumped run unpickles them (custom __deepcopy__ /
        __getstate__ / __setstate__ rebuild the C object). Every case is therefore evaluated on one of: the fresh object, a shallow
        copy, a deep copy, a dill round trip — chosen from the case itself so that it is reproducible."""
        import copy as _copy
        variant = ("fresh", "deepcopy", "copy", "pickle")[hash((round(sum(c["s"]) * 1e6), c.get("dirn", 0))) % 4 if "s" in c else 0]
        ctx.count("potential-instance:" + variant)
        if variant == "fresh":
            return pot
        if cache is not None and variant in cache:
            return cache[variant]
        if variant == "deepcopy":
            q = _copy.deepcopy(pot)
        elif variant == "copy":
            q = _copy.copy(pot)
        else:
            import dill
            q = dill.loads(dill.dumps(pot))
        if cache is not None:
            cache[variant] = q
        return q

    def call(pot, c, v=None, s=None, c1=None, c2=None):
        v = list(c["v"] if v is None else v)
        k = c["kind"]
        if k in ("ip", "bound", "ewald"):
            return pot.derivative(v, list(c["s"] if s is None else s), c["c1"] if c1 is None else c1,
                                  c["c2"] if c2 is None else c2)
        if k in ("lj", "dep"):
            return pot.derivative(v, list(c["s"] if s is None else s))
        return pot.derivative(v, list(c["s1"]), list(c["s2"]))

    def impl_eval(c):
        """('ok', value or tuple, potential) | ('err', name, None)"""
        try:
            pot = build(c)
            return "ok", call(pot, c), pot
        except EXC as e:
            return "err", ("ConfigurationError" if isinstance(e, ConfigurationError) else type(e).__name__), None

    def tok(x):
        return " ".join(f2b(t) for t in x) if isinstance(x, tuple) else f2b(x)

    def close(a, b, rel, floor=0.0):
        if a == b or (a != a and b != b):
            return True
        if a != a or b != b or math.isinf(a) or math.isinf(b):
            return False
        return abs(a - b) <= rel * max(abs(a), abs(b)) + floor

    def ewald_scale(c, speed=None):
        """natural magnitude of the lattice-sum derivative at c: |k c1 c2| speed / (distance to nearest lattice point)^2"""
        L = c["L"]
        rho = _norm([x - round(x / L) * L for x in c["s"]])
        rho = max(min(rho, 0.5 * L), 1e-300)
        sp = max(c["v"]) if speed is None else speed
        return abs(c["k"] * c["c1"] * c["c2"]) * sp * (1.0 / rho ** 2 + 1.0 / L ** 2), rho

    def sgn(x):
        return "nan" if x != x else "0" if x == 0 else "+" if x > 0 else "-"

    stats = {"bitexact": 0, "compared": 0}

    def correspond(c, st, val, reply):
        """compare implementation outcome and model reply; True if they agree"""
        if st == "err":
            ok = reply == "err:" + val
        elif reply.startswith("err:") or reply in ("bad-op", "unimplemented"):
            ok = False
        else:
            mv = [b2f(t) for t in reply.split()]
            iv = list(val) if isinstance(val, tuple) else [val]
            if c["kind"] == "ewald":
                floor = 1e-13 * ewald_scale(c)[0]
                ok = len(mv) == len(iv) and all(close(a, b, 1e-10, floor) for a, b in zip(iv, mv))
            else:
                ok = len(mv) == len(iv) and all(close(a, b, 1e-12) for a, b in zip(iv, mv))
            stats["compared"] += 1
            stats["bitexact"] += tok(val) == reply
        if not ok:
            ctx.disagree("deriv." + c["kind"], {"line": c["line"], "case": {k: v for k, v in c.items() if k != "line"}},
                         ("err:" + val) if st == "err" else tok(val), reply)
        return ok

    # ---------------- property oracle on the implementation
    def case_json(c):
        o = {}
        for k, v in c.items():
            if k == "line":
                continue
            if isinstance(v, float):
                o[k] = v.hex()
            elif isinstance(v, (list, tuple)) and v and isinstance(v[0], float):
                o[k] = [x.hex() if isinstance(x, float) else x for x in v]
            else:
                o[k] = v
        return o

    energies = {}

    def ewald_energy(L):
        if L not in energies:
            energies[L] = EwaldEnergy(L)
        return energies[L]

    def fd_check(c, sig, got, f, h, speed, floor_scale):
        """got: implementation's time derivative; f(x): energy with the moving unit displaced by x along d"""
        try:
            r, est, umax = richardson(f, h)
        except (OverflowError, ZeroDivisionError, ValueError):
            ctx.count("oracle:fd-skipped-overflow")
            return
        if not (math.isfinite(r) and math.isfinite(umax)):
            ctx.count("oracle:fd-skipped-overflow")
            return
        want = r * speed
        tol = 1e-7 * abs(want) + 100 * est * speed + 1e-10 * floor_scale * speed
        ctx.count("oracle:fd-evaluated")
        if abs(want) > 0 and tol / abs(want) < 1e-5:
            ctx.count("oracle:fd-tolerance-below-1e-5-relative")
        if not abs(got - want) <= tol:
            ctx.fail(sig, case_json(c), f"reported derivative {got!r} but d/dt of the energy is {want!r} (+- {tol:.3g})")

    def oracle(c, st, val, pot, light=False):
        k = c["kind"]
        if st == "err":
            # exceptions are legitimate only for degenerate input
            if val == "ConfigurationError":
                return
            if val == "AssertionError":
                if c["vt"] in ("std", "extreme"):
                    ctx.fail(f"{k}:exception-on-standard-velocity", case_json(c), "AssertionError for a standard velocity")
                return
            ss = [c["s1"], c["s2"]] if k == "bend" else [c["s"]]
            mags = [_norm([abs(x) if abs(x) < 1e150 else 1e150 for x in s]) for s in ss]
            mags += [abs(c[key]) for key in ("cl", "r0") if key in c]
            lo, hi = (1e-8, 1e8) if (k == "dep" and c["power"] >= 8) else (1e-15, 1e15)
            degenerate = any(not (lo < m < hi) for m in mags)
            if k == "bend" and not degenerate:
                cs = sum(a * b for a, b in zip(*ss)) / (mags[0] * mags[1])
                degenerate = abs(cs) > 1 - 1e-14
            if not degenerate:
                ctx.fail(f"{k}:exception:{val}", case_json(c), f"{val} raised for a regular separation")
            return
        if c["vt"] not in ("std", "extreme"):
            ctx.fail(f"{k}:non-standard-velocity-accepted", case_json(c), "no AssertionError for a non-standard velocity")
            return
        d = max(range(3), key=lambda i: c["v"][i])
        speed = c["v"][d]
        vals = list(val) if isinstance(val, tuple) else [val]
        if not all(math.isfinite(x) for x in vals):
            # inf/nan only from the C routines at a lattice point / at overflow scales
            ss = c.get("s", [0.0, 0.0, 0.0])
            L = c.get("L", 1.0)
            rho = _norm([x - round(x / L) * L for x in ss]) if k == "ewald" else _norm([min(abs(x), 1e150) for x in ss])
            if k in ("bound", "ewald") and (rho < 1e-100 * L or rho > 1e100 or not math.isfinite(c["k"] * c["c1"] * c["c2"] * speed / (rho * rho or 1))):
                ctx.count("oracle:non-finite-at-singularity")
            elif c["vt"] == "extreme" or any(t in c["st"] for t in ("extreme", "scale")):
                ctx.count("oracle:non-finite-at-extreme-scale")
            else:
                ctx.fail(f"{k}:non-finite", case_json(c), f"derivative {vals} is not finite at a regular separation")
            return

        # --- linearity in the speed (exact up to the roundings of the final products)
        lam = rng.choice([2.0, 0.5, 3.1, 1.7e-3]) if c["vt"] == "std" else (2.0 if speed < 1 else 0.5)
        v2 = [x * lam for x in c["v"]]
        try:
            val2 = call(pot, c, v=v2)
            for a, b in zip(vals, list(val2) if isinstance(val2, tuple) else [val2]):
                # (values whose intermediate products are subnormal carry no relative precision: not compared)
                if math.isfinite(b) and abs(a) > 1e-200 * speed and not close(a * lam, b, 1e-13, 1e-300):
                    ctx.fail(f"{k}:not-linear-in-speed", dict(case_json(c), factor=lam), f"derivative({lam} v) = {b!r} != {lam} * {a!r}")
        except EXC as e:
            ctx.fail(f"{k}:not-linear-in-speed", dict(case_json(c), factor=lam), f"scaled velocity raised {e!r}")
        # --- linearity in the charge product
        if k in ("ip", "bound", "ewald") and abs(vals[0]) > 1e-200 * speed * max(1.0, abs(c["c1"] * c["c2"])):
            mu = rng.choice([-1.0, 2.0, 0.3])
            try:
                val2 = call(pot, c, c1=c["c1"] * mu)
                val3 = call(pot, c, c1=c["c2"], c2=c["c1"])
                if math.isfinite(val2) and not close(vals[0] * mu, val2, 1e-13, 1e-300):
                    ctx.fail(f"{k}:not-linear-in-charge-product", dict(case_json(c), factor=mu), f"{val2!r} != {mu} * {vals[0]!r}")
                if not close(vals[0], val3, 1e-13, 1e-300):
                    ctx.fail(f"{k}:not-symmetric-in-charges", case_json(c), f"{val3!r} != {vals[0]!r}")
            except EXC as e:
                ctx.fail(f"{k}:not-linear-in-charge-product", dict(case_json(c), factor=mu), f"scaled charge raised {e!r}")

        # --- the directional derivative itself
        if k == "ip":
            s, rho = c["s"], _norm(c["s"])
            if 1e-100 < rho < 1e100:
                cc = c["c1"] * c["c2"]
                fd_check(c, "ip:derivative-mismatch", vals[0], lambda x: U_ip(c["power"], c["k"], cc, shifted(s, d, -x)),
                         rho / 256, speed, abs(U_ip(c["power"], c["k"], cc, s)) / rho)
        elif k == "lj":
            s, rho = c["s"], _norm(c["s"])
            if 1e-20 < rho < 1e20:
                fd_check(c, "lj:derivative-mismatch", vals[0], lambda x: U_lj(c["k"], c["cl"], shifted(s, d, -x)),
                         rho / 256, speed, c["k"] * ((c["cl"] / rho) ** 12 + (c["cl"] / rho) ** 6) / rho)
        elif k == "dep":
            s, rho = c["s"], _norm(c["s"])
            if 1e-20 < rho < 1e20:
                fd_check(c, "dep:derivative-mismatch", vals[0], lambda x: U_dep(c["k"], c["r0"], c["power"], shifted(s, d, -x)),
                         rho / 256, speed, c["k"] * (abs(rho - c["r0"]) + rho / 256) ** c["power"] / rho)
        elif k == "bound":
            s, rho = c["s"], _norm(c["s"])
            if 1e-100 < rho < 1e100:
                pp = c["k"] * c["c1"] * c["c2"]
                fd_check(c, "bound:derivative-mismatch", vals[0], lambda x: pp / _norm(shifted(s, d, -x)), rho / 256, speed,
                         abs(pp) / rho ** 2)
        elif k == "bend":
            s1, s2 = c["s1"], c["s2"]
            n1, n2 = _norm(s1), _norm(s2)
            m = max(abs(x) for x in vals)
            if not abs(vals[0] + vals[1] + vals[2]) <= 1e-12 * m + 1e-300:
                ctx.fail("bend:derivatives-do-not-sum-to-zero", case_json(c), f"{vals} sum to {vals[0] + vals[1] + vals[2]!r}")
            if 1e-20 < n1 < 1e20 and 1e-20 < n2 < 1e20:
                cs = (s1[0] * s2[0] + s1[1] * s2[1] + s1[2] * s2[2]) / (n1 * n2)
                sn = math.sqrt(max(0.0, 1 - cs * cs))
                if sn > 0.02:
                    rho = min(n1, n2) * sn
                    kk, p0 = c["k"], c["phi0"]
                    fs = abs(kk) * (math.pi ** 2) / rho
                    fd_check(c, "bend:derivative-mismatch:i", vals[0], lambda x: U_bend(kk, p0, shifted(s1, d, x), s2), rho / 256, speed, fs)
                    fd_check(c, "bend:derivative-mismatch:j", vals[1],
                             lambda x: U_bend(kk, p0, shifted(s1, d, -x), shifted(s2, d, -x)), rho / 256, speed, fs)
                    fd_check(c, "bend:derivative-mismatch:k", vals[2], lambda x: U_bend(kk, p0, s1, shifted(s2, d, x)), rho / 256, speed, fs)
                else:
                    ctx.count("oracle:bend-ill-conditioned-skipped")
        elif k == "ewald":
            L, s = c["L"], c["s"]
            scale, rho = ewald_scale(c, speed)
            floor = 1e-9 * scale
            # odd in the direction of motion (exact symmetry of the routine's sums, up to rounding)
            sm = list(s)
            sm[d] = -sm[d]
            vm = call(pot, c, s=sm)
            if not close(vals[0], -vm, 1e-9, floor):
                ctx.fail("ewald:not-odd-in-direction-of-motion", case_json(c), f"D(s) = {vals[0]!r}, D(reflected s) = {vm!r}")
            inside = max(abs(x) for x in s) <= 0.525 * L
            if c["conv"] and rho > 1e-6 * L and (inside or c["par"] in WIDE):
                if not light:
                    pp = c["k"] * c["c1"] * c["c2"]
                    E = ewald_energy(L)
                    fd_check(c, "ewald:derivative-mismatch", vals[0], lambda x: pp * E(shifted(s, d, -x)), rho / 256, speed,
                             10 * abs(pp) * (1 / rho ** 2 + 1 / L ** 2))
                # periodic in the box: across a face with the case's own parameters, by a whole box with a wide sphere
                ax = rng.randrange(3)
                sp_ = list(s)
                sp_[ax] += -L if s[ax] > 0 else L
                if max(abs(x) for x in sp_) <= 0.525 * L or c["par"] in WIDE:
                    vp = call(pot, c, s=sp_)
                    ctx.count("oracle:ewald-periodicity-evaluated")
                    if not close(vals[0], vp, 1e-7, 100 * floor):
                        ctx.fail("ewald:not-periodic", dict(case_json(c), shifted=[x.hex() for x in sp_]), f"D(s) = {vals[0]!r}, D(s + L e) = {vp!r}")
                elif inside:
                    cw = dict(c, par=WIDE[0])
                    pw = build(cw)
                    v0, vp = call(pw, cw), call(pw, cw, s=sp_)
                    ctx.count("oracle:ewald-periodicity-evaluated-wide")
                    if not close(v0, vp, 1e-7, 100 * floor):
                        ctx.fail("ewald:not-periodic", dict(case_json(cw), shifted=[x.hex() for x in sp_]), f"D(s) = {v0!r}, D(s + L e) = {vp!r}")
                # independent of the splitting parameter / cut-offs
                if inside:
                    other = rng.choice([p for p in CONVERGED if p != c["par"]])
                    c2 = dict(c, par=other)
                    vo = call(build(c2), c2)
                    ctx.count("oracle:ewald-alpha-independence-evaluated")
                    if not close(vals[0], vo, 1e-7, 100 * floor):
                        ctx.fail("ewald:depends-on-splitting-parameter", dict(case_json(c), other=list(other)),
                                 f"D = {vals[0]!r} with {c['par']}, {vo!r} with {other}")

    def neighbours(c):
        """a few perturbed copies of a disagreeing case, for the oracle only"""
        out = []
        for _ in range(8):
            c2 = dict(c)
            for key in ("s", "s1", "s2"):
                if key in c2:
                    c2[key] = [x * (1 + rng.uniform(-1e-3, 1e-3)) + rng.uniform(-1e-6, 1e-6) for x in c2[key]]
            out.append(c2)
        return out

    def process(c, reply, light=False):
        st, val, pot = impl_eval(c)
        ctx.evaluations += 1
        ctx.count("kind:" + c["kind"])
        ctx.count("velocity:" + c["vt"])
        d = max(range(3), key=lambda i: c["v"][i])
        outcome = val if st == "err" else ",".join(sgn(x) for x in (val if isinstance(val, tuple) else [val]))
        extra = ()
        if c["kind"] == "ewald":
            extra = (c["par"] if c["conv"] else ("other", min(c["par"][1], 1), min(c["par"][2], 1)), c["L"])
            ctx.count("ewald:" + ("converged-parameters" if c["conv"] else "free-parameters"))
            ctx.count("ewald-sep:" + c["st"])
        if "c1" in c:
            extra += (sgn(c["k"] * c["c1"] * c["c2"]),)
        ctx.cls((c["kind"], d if c["vt"] == "std" else c["vt"], c["st"], outcome) + extra)
        if st == "err":
            ctx.count(f"outcome:{c['kind']}:err:{val}")
        agree = correspond(c, st, val, reply)
        try:
            oracle(c, st, val, pot, light)
            if not agree:
                for c2 in neighbours(c):
                    st2, val2, pot2 = impl_eval(c2)
                    oracle(c2, st2, val2, pot2)
        except EXC as e:
            ctx.fail(f"{c['kind']}:exception-in-oracle-call:{type(e).__name__}", case_json(c), f"implementation raised {e!r}")
        ctx.sample({"request": c["line"], "impl": ("err:" + val) if st == "err" else tok(val), "model": reply})

    # ---------------- non-periodic potentials
    init_setting(1.0)
    cases = gen_cases(ctx)
    rep = ctx.model("deriv", [c["line"] for c in cases])
    for c, r in zip(cases, rep):
        process(c, r)

    # ---------------- merged-image Coulomb, one setting per box length
    n_fd = ctx.n(120, 2000)
    for L, group in gen_ewald(ctx):
        init_setting(L)
        merged_cache.clear()
        rep = ctx.model("deriv", [c["line"] for c in group])
        budget = n_fd
        for c, r in zip(group, rep):
            heavy = c["conv"] and c["vt"] in ("std", "extreme")
            process(c, r, light=not (heavy and budget > 0))
            if heavy:
                budget -= 1
    setting.reset()
    ctx.notes.append("observation (not a violation inside the property's quantifier): outside the minimum-image cube the "
                     "merged-image routine with the shipped cut-offs (alpha 3.45, Fourier 6, position 2) deviates from the "
                     "converged lattice sum by up to ~1e-4 relative (the spherical position cut-off then misses near images), "
                     "so its periodicity holds to full accuracy only across a box face; the oracle therefore probes "
                     "periodicity across faces with the case's own parameters and by a whole box with position cut-off 3")
    ctx.extra["bit_exact_replies"] = f"{stats['bitexact']} of {stats['compared']} compared numeric replies are bit-identical"


def replay(ctx, rec):
    """re-evaluate the implementation on a recorded failing input (`case` of a replay file)"""
    import jellyfysh.setting as setting
    from jellyfysh.setting import hypercubic_setting

    def dec(x):
        if isinstance(x, str):
            try:
                return float.fromhex(x)
            except ValueError:
                return x
        if isinstance(x, list):
            return [dec(t) for t in x]
        return x

    c = {k: dec(v) for k, v in rec.get("case", rec).items()}
    setting.reset()
    hypercubic_setting.HypercubicSetting(beta=1.0, dimension=3, system_length=c.get("L", 1.0))
    setting.set_number_of_root_nodes(2)
    setting.set_number_of_nodes_per_root_node(2)
    setting.set_number_of_node_levels(1)
    k = c["kind"]
    try:
        if k == "ip":
            from jellyfysh.potential.inverse_power_potential import InversePowerPotential
            r = InversePowerPotential(power=c["power"], prefactor=c["k"]).derivative(c["v"], c["s"], c["c1"], c["c2"])
        elif k == "lj":
            from jellyfysh.potential.lennard_jones_potential import LennardJonesPotential
            r = LennardJonesPotential(prefactor=c["k"], characteristic_length=c["cl"]).derivative(c["v"], c["s"])
        elif k == "dep":
            from jellyfysh.potential.displaced_even_power_potential import DisplacedEvenPowerPotential
            r = DisplacedEvenPowerPotential(equilibrium_separation=c["r0"], power=c["power"], prefactor=c["k"]).derivative(c["v"], c["s"])
        elif k == "bend":
            from jellyfysh.potential.bending_potential import BendingPotential
            r = BendingPotential(equilibrium_angle=c["phi0"], prefactor=c["k"]).derivative(c["v"], c["s1"], c["s2"])
        elif k == "bound":
            from jellyfysh.potential.inverse_power_coulomb_bounding_potential import InversePowerCoulombBoundingPotential
            r = InversePowerCoulombBoundingPotential(prefactor=c["k"]).derivative(c["v"], c["s"], c["c1"], c["c2"])
        else:
            from jellyfysh.potential.merged_image_coulomb_potential import MergedImageCoulombPotential
            a, fc, pc = c["par"]
            r = MergedImageCoulombPotential(alpha=a, fourier_cutoff=int(fc), position_cutoff=int(pc),
                                            prefactor=c["k"]).derivative(c["v"], c["s"], c["c1"], c["c2"])
    except Exception as e:  # noqa
        r = "exception: " + repr(e)
    return {"case": rec.get("case", rec), "implementation_returns": r, "recorded": rec.get("what")}
