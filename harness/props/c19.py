"""C19 — A dumped run resumes to exactly the run that was never interrupted.

Real subprocess runs. For dumping variants of several configurations (the shipped power_bounded_dump.ini and harness-built dumping
variants of cell / C-potential / composite configurations, both schedulers): run A (with dumps, every dump file kept), then for
every kept dump a fresh interpreter repeats the steps of jellyfysh/resume.py and continues (run B_k); the legs of B_k are compared
bit for bit (handler, candidate times, out-state, whole global state, trash list, samples written) with the legs of A after dump
k. Run C (same configuration without the dumping tagger, same seed) is compared with A minus its dumping events. Scheduler level
(`scheduler_round_trips`): real HeapScheduler / ListScheduler objects after random histories at large run times: every pending
entry survives pickle bit for bit in its slot (the code side of the premise of `C19Heap.pickle_obsEq`) and original and
unpickled scheduler answer random futures (with candidates within a few ulps of old ones) identically."""
import os, configparser, tempfile, shutil
from harness import runs

ID = "C19"
THEOREM_MODULES = ["JF.Props.C19", "JF.Props.C19Heap", "JF.Props.C19Loop", "JF.Props.SystemInvResume", "JF.Props.SystemInvResume2"]
COMPONENTS = []
ASSUMPTIONS = ["theorem: any deterministic client that talks to the scheduler only through push/trash/get produces the same outputs from two "
               "observationally equal scheduler states; that unpickling the heap scheduler yields an observationally equal state is "
               "C06's pickle theorem + correspondence; dill's faithfulness on ordinary Python objects is exercised, not modelled",
               "second clause (dumping is transparent) is compared up to the first tie between two candidate times (with the heap "
               "scheduler ties may legitimately be served in a different order when an extra handler changes the heap layout)"]
TRUSTED = ["harness/runtrace.py (its wrappers are taken off the mediator while a dump is pickled)"]

CFG = runs.CFG


def dumping_overrides(root, ini, interval):
    """in-memory edit of a shipped .ini that adds a fixed-interval dumping tagger, as power_bounded_dump.ini does"""
    cp = configparser.ConfigParser()
    cp.read(os.path.join(root, "jellyfysh", ini))
    if cp.has_section("Dumping"):
        return {"FixedIntervalDumpingEventHandler": {"dumping_interval": interval}}
    ov = {}
    ov["TagActivator"] = {"taggers": cp.get("TagActivator", "taggers").rstrip() + ",\ndumping (no_in_state_tagger)"}
    ov["Dumping"] = {"create": "dumping", "trash": "dumping", "event_handler": "fixed_interval_dumping_event_handler"}
    ov["FixedIntervalDumpingEventHandler"] = {"dumping_interval": interval, "output_handler": "dumping_output_handler"}
    ov["StartOfRun"] = {"create": cp.get("StartOfRun", "create").rstrip() + ", dumping"}
    ov["EndOfRun"] = {"trash": cp.get("EndOfRun", "trash").rstrip() + ", dumping"}
    ov["InputOutputHandler"] = {"output_handlers": cp.get("InputOutputHandler", "output_handlers").rstrip() + ", dumping_output_handler"}
    ov["DumpingOutputHandler"] = {"filename": "dump.dat"}
    return ov


def merge(a, b):
    out = {k: dict(v) for k, v in a.items()}
    for k, v in b.items():
        out.setdefault(k, {}).update(v)
    return out


def leg_view(leg):
    return {"chosen": leg["chosen"], "created": leg["created"], "times": leg["times"], "out": leg["out"], "post": leg["post"],
            "trashed": leg["trashed"]}


def first_diff(a, b):
    for k in a:
        if a[k] != b[k]:
            return k
    return None


def scheduler_round_trips(ctx):
    """the code side of `C19Heap.pickle_obsEq` / `resume_same_list`: on the real schedulers a pickle round trip leaves every
    pending entry (time quotient, time remainder, handler, counter) bit-identical and in the same array slot, and the original
    and the unpickled scheduler then answer any further sequence of pushes / trashes / gets identically. Times are drawn at
    large run times with full-precision remainders (quotient + remainder is not representable as one double), with
    near-ties between entries pushed before and after the round trip."""
    import pickle, math
    from harness.props import c06
    real = c06.Real()
    rng = ctx.rng
    INF = float("inf")
    for case in range(ctx.n(150, 1500)):
        nh = rng.randint(1, 12)
        H = [c06.Hd(i) for i in range(nh)]
        hs, ls = real.HS(), real.LS()
        q0 = float(rng.choice([0, 1, 3, 1030, 65536, rng.randint(0, 10 ** 6), rng.randint(0, 2 ** 40)]))
        hist = []

        def rtime():
            c = rng.random()
            r = rng.random() if c < 0.7 else rng.choice([0.0, 0.25, 0.5, 1 - 2.0 ** -53, 2.0 ** -53, 0.25000000000022876])
            return max((q0 + rng.randint(0, 2), r), now[0])
        now = [(-INF, -INF)]
        pending = {}
        for _ in range(rng.randint(1, 40)):
            c = rng.random()
            if c < 0.6 or not pending:
                h = rng.randrange(nh)
                if h in pending:
                    continue
                t = rtime()
                for s_ in (hs, ls):
                    s_.push_event(real.Time(*t), H[h])
                pending[h] = t
                hist.append(("push", h, t))
            elif c < 0.8:
                h = rng.choice(sorted(pending))
                for s_ in (hs, ls):
                    s_.trash_event(H[h])
                del pending[h]
                hist.append(("trash", h))
            else:
                if not pending:
                    continue
                a, b = hs.get_succeeding_event(), ls.get_succeeding_event()
                now[0] = min(pending.values())
                hist.append(("get",))
        before = real.dump(hs)
        try:
            hs2, ls2, H2 = pickle.loads(pickle.dumps((hs, ls, H)))
        except Exception as e:  # noqa
            ctx.fail("C19:scheduler-pickle-raises", {"history": hist, "exception": repr(e)}, "pickling the schedulers raised")
            continue
        after = real.dump(hs2)
        ctx.evaluations += 1
        ctx.cls(("scheduler-round-trip", q0 >= 1, min(len(before), 20) // 5, len(before) != len(pending)))
        if before != after:
            k = next((i for i, (x, y) in enumerate(zip(before, after)) if x != y), min(len(before), len(after)))
            ctx.fail("C19:heap-entries-change-in-pickle-round-trip",
                     {"history": hist, "slot": k, "before": before[k] if k < len(before) else None, "after": after[k] if k < len(after) else None},
                     "a pending heap entry (time quotient, remainder, handler, counter; uint64 bit patterns) is not restored exactly")
            continue
        if len(before) < len(pending):
            ctx.fail("C19:heap-entries-missing-from-pickled-state", {"history": hist, "entries": len(before), "pending": len(pending)},
                     "fewer heap entries are pickled than events are pending")
            continue
        # any future: same answers from the original and the unpickled schedulers (new candidates placed within a few ulps of old ones)
        olds = sorted(pending.values())
        fut = []
        for _ in range(rng.randint(1, 25)):
            c = rng.random()
            if c < 0.5:
                h = rng.randrange(nh)
                if olds and rng.random() < 0.6:
                    o = rng.choice(olds)
                    t = max((o[0], min(max(c06.nxt(o[1], rng.randint(-3, 3)), 0.0), 1 - 2.0 ** -53)), now[0])
                else:
                    t = rtime()
                if h in pending:
                    fut.append(("trash", h)); pending.pop(h)
                fut.append(("push", h, t)); pending[h] = t
            elif c < 0.6 and pending:
                h = rng.choice(sorted(pending)); fut.append(("trash", h)); pending.pop(h)
            elif pending:
                fut.append(("get",)); now[0] = min(pending.values())
        if pending:
            fut.append(("get",))

        def play(s_, HH):
            res = []
            for op in fut:
                try:
                    if op[0] == "push":
                        s_.push_event(real.Time(*op[2]), HH[op[1]])
                    elif op[0] == "trash":
                        s_.trash_event(HH[op[1]])
                    else:
                        res.append(s_.get_succeeding_event().i)
                except Exception as e:  # noqa
                    res.append("exc:" + type(e).__name__)
            return res
        ra, rb, rc, rd = play(hs, H), play(hs2, H2), play(ls, H), play(ls2, H2)
        if ra != rb or rc != rd:
            ctx.fail("C19:unpickled-scheduler-answers-differently",
                     {"history": hist, "future": fut, "heap": [ra, rb], "list": [rc, rd]},
                     "the unpickled scheduler serves a different sequence of events than the original for the same future calls")


def run(ctx):
    rng = ctx.rng
    scheduler_round_trips(ctx)
    ctx.rule = ("dumping variants of shipped configurations x {heap, list} scheduler x seeds; a case = one dump point (resume compared leg by "
                "leg with the uninterrupted run); class = (configuration, scheduler, dump index bucket, handler class committed right "
                "before the dump)")
    bases = [(CFG + "coulomb_atoms/power_bounded_dump.ini", 3.0), (CFG + "coulomb_atoms/cell_veto.ini", 0.9),
             (CFG + "dipoles/cell_bounded.ini", 1.7), (CFG + "water/single_molecule.ini", 2.1),
             (CFG + "dipoles/dipole_motion.ini", 2.3), (CFG + "coulomb_atoms/cell_bounded.ini", 1.3),
             (CFG + "water/coulomb_power_bounded_lj_cell_bounded.ini", 0.8), (CFG + "dipoles/dipole_factors_ratio.ini", 2.9)]
    # dense cell systems (several atoms per cell): nearby-cell iteration order matters for the random stream
    dense = [(CFG + "coulomb_atoms/cell_bounded.ini", 0.8, {"RandomInputHandler": {"number_of_root_nodes": 8},
                                                             "CuboidPeriodicCells": {"cells_per_side": "3, 3, 3"},
                                                             "CoulombNearby": {"number_event_handlers": 10},
                                                             "CoulombSurplus": {"number_event_handlers": 10},
                                                             "CoulombCellBounding": {"number_event_handlers": 10}})]
    # exactly simultaneous candidate events (sampling interval = chain time, end time a common multiple): the order in which the
    # resumed scheduler serves ties must be the order of the uninterrupted one (the heap layout is part of what is pickled)
    ties = [(CFG + "coulomb_atoms/power_bounded_dump.ini", 2.0, {"FixedIntervalSamplingEventHandler": {"sampling_interval": 0.5},
                                                                  "SingleIndependentActivePeriodicDirectionEndOfChainEventHandler": {"chain_time": 0.5},
                                                                  "RandomInputHandler": {"number_of_root_nodes": 4},
                                                                  "Coulomb": {"number_event_handlers": 4}})]
    if ctx.quick:
        bases = bases[:2] + [rng.choice(bases[2:])]
    bases = [b if len(b) == 3 else (b[0], b[1], {}) for b in bases + dense + ties]
    work = tempfile.mkdtemp(prefix="jfdumps_", dir=os.path.dirname(ctx.root))
    try:
        jobsA, jobsC = [], []
        for n, (ini, t_end_scale, extra_ov) in enumerate(bases):
            for sched in (["heap_scheduler", "list_scheduler"] if not ctx.quick else [rng.choice(["heap_scheduler", "list_scheduler"])] if n else ["heap_scheduler", "list_scheduler"]):
                seed = ctx.seed * 1000 + n
                t_end = round(t_end_scale * rng.choice([3, 4, 5]) * ctx.n(1, 4), 3)
                interval = round(t_end / rng.choice([3.3, 4.7, 6.1]), 4)
                common = merge({"FinalTimeEndOfRunEventHandler": {"end_of_run_time": t_end}, "SingleProcessMediator": {"scheduler": sched}}, extra_ov)
                dd = os.path.join(work, f"A{len(jobsA)}")
                os.makedirs(dd)
                ovA = merge(common, dumping_overrides(ctx.root, ini, interval))
                # concurrent runs share the scratch tree: every run dumps into its own file
                ovA = merge(ovA, {"DumpingOutputHandler": {"filename": f"dumpA{len(jobsA)}.dat"}})
                jobsA.append({"ini": ini, "seed": seed, "max_legs": 40000, "dump_dir": dd, "overrides": ovA, "sched": sched})
                if "dump" not in ini:
                    jobsC.append({"ini": ini, "seed": seed, "max_legs": 40000, "overrides": common, "sched": sched, "A": len(jobsA) - 1})
        trsA = runs.run_jobs(ctx.root, jobsA)
        trsC = runs.run_jobs(ctx.root, jobsC)
        # resume jobs
        jobsB = []
        for ai, A in enumerate(trsA):
            meta = A["meta"]
            if not A["legs"] or not A.get("dumps"):
                ctx.fail("C19:dumping-run-failed", {"ini": meta.get("ini"), "end": A["end"], "job": A.get("job"),
                                                    "exception": (A.get("exception") or "")[-1200:]},
                         "the run with dumping did not produce a dump")
                continue
            dumps = A["dumps"]
            picks = dumps if not ctx.quick else ([dumps[0], dumps[-1]] if len(dumps) > 1 else dumps)
            for dk in picks:
                last = dk is dumps[-1]
                jobsB.append({"ini": meta["ini"], "resume": dk["file"], "pdb_standin": meta.get("pdb_standin", False),
                              "max_legs": 10 ** 9 if last else ctx.n(400, 3000), "A": ai, "dump_leg": dk["leg"]})
        trsB = runs.run_jobs(ctx.root, jobsB)
        for B in trsB:
            job = B["job"]
            A = trsA[job["A"]]
            meta = A["meta"]
            base = {"ini": meta["ini"], "seed": meta["seed"], "scheduler": meta["scheduler"], "dump_leg": job["dump_leg"], "jobA": A.get("job")}
            ctx.evaluations += 1
            if str(B["end"]).startswith(("exc", "build-exc", "harness-exc", "timeout")):
                ctx.fail("C19:resume-raises", {**base, "end": B["end"], "exception": (B.get("exception") or "")[-1200:]}, "resuming the dump raised")
                continue
            legsA = A["legs"][job["dump_leg"] + 1:]
            nb = len(B["legs"])
            before = meta["handlers"][A["legs"][job["dump_leg"] - 1]["chosen"]][1] if job["dump_leg"] > 0 else None
            ctx.cls((meta["ini"].split("/")[-1], meta["scheduler"], min(job["dump_leg"] // 200, 5), before))
            ctx.count("resume-legs-compared", min(nb, len(legsA)))
            bad = None
            for j in range(min(nb, len(legsA))):
                k = first_diff(leg_view(legsA[j]), leg_view(B["legs"][j]))
                if k is not None:
                    bad = (j, k)
                    break
            if bad is None and B["end"] == "EndOfRun":
                if A["end"] != "EndOfRun" or nb != len(legsA):
                    bad = (min(nb, len(legsA)), "length")
                elif A.get("rng_after") != B.get("rng_after"):
                    bad = (nb, "random-stream")
            if bad is None:
                wa = [w for w in A["writes"] if w["leg"] > job["dump_leg"] and not w.get("dump")]
                wb = [w for w in B["writes"] if not w.get("dump")]
                for x, y in zip(wa, wb):
                    if x.get("state") != y.get("state") or x["handler"] != y["handler"]:
                        bad = (y["leg"], "sample")
                        break
            if bad is not None:
                j, k = bad
                la = legsA[j] if j < len(legsA) else None
                lb = B["legs"][j] if j < nb else None
                ctx.fail("C19:resumed-run-diverges",
                         {**base, "legs_after_dump": j, "field": k,
                          "original": None if la is None else {"handler": meta["handlers"][la["chosen"]], "times": la["times"], "out": la["out"]},
                          "resumed": None if lb is None else {"handler": meta["handlers"][lb["chosen"]], "times": lb["times"], "out": lb["out"]}},
                         f"the resumed run differs from the uninterrupted run {j} legs after the dump (field {k})")
            ctx.traces += 1
            ctx.sample({"ini": meta["ini"], "scheduler": meta["scheduler"], "dump_leg": job["dump_leg"], "legs_compared": min(nb, len(legsA)),
                        "resumed_end": B["end"]})
        # second clause: dumping is transparent
        for C in trsC:
            A = trsA[C["job"]["A"]]
            if not C["legs"] or not A["legs"]:
                continue
            mA, mC = A["meta"], C["meta"]
            etA, etC = runs.event_times(A), runs.event_times(C)
            seqA = [(mA["handlers"][l["chosen"]], etA[i], l["out"], l["post"]) for i, l in enumerate(A["legs"])
                    if mA["handlers"][l["chosen"]][1] != "FixedIntervalDumpingEventHandler"]
            seqC = [(mC["handlers"][l["chosen"]], etC[i], l["out"], l["post"]) for i, l in enumerate(C["legs"])]
            n = min(len(seqA), len(seqC))
            ctx.count("transparent-legs-compared", n)
            for j in range(n):
                if seqA[j] != seqC[j]:
                    tie = seqA[j][1] == seqC[j][1] and seqA[j][0] != seqC[j][0]
                    if tie:
                        ctx.count("transparent:stopped-at-tie")
                    else:
                        ctx.fail("C19:dumping-changes-the-run",
                                 {"ini": mA["ini"], "seed": mA["seed"], "scheduler": mA["scheduler"], "commit_index": j,
                                  "with_dumping": [seqA[j][0], seqA[j][1]], "without": [seqC[j][0], seqC[j][1]], "jobA": A.get("job")},
                                 "the run with dumping commits a different event than the same run without dumping")
                    break
            if A["end"] == "EndOfRun" and C["end"] == "EndOfRun" and len(seqA) != len(seqC):
                ctx.count("transparent:length-differs-after-tie-or-cap")
            ctx.evaluations += 1
    finally:
        shutil.rmtree(work, ignore_errors=True)
