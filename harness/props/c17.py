"""C17 — Samples and end of run occur at nominal times on a fully time-sliced state.

Unit level: the real FixedIntervalSamplingEventHandler / FinalTimeEndOfRunEventHandler clocks vs the Lean model
(`JF.Sampling.clock`, `endTime`, binary64 reading), bit for bit, for random intervals / tick counts; Fraction oracle for
"one rounding per step". Run level: real runs (all shipped + generated sampling intervals, end times, chain times,
first_event_time_zero both ways): oracle_c17 on the recorded writes; sample times of the runs vs the model clock; the
number of samples vs the model's `samplesBeforeEnd`."""
import math
from fractions import Fraction as Fr
from harness import runs, runcommon
from harness.drive import f2b

ID = "C17"
THEOREM_MODULES = ["JF.Props.C17"]
COMPONENTS = ["time"]
ASSUMPTIONS = ["theorems are the exact (rational) reading: t_k = k*interval, sample count = #{k | t_k < T_end}, sampled out-state fully "
               "time-sliced; the float statement 'one rounding of the remainder per step' is C14's and is measured here by the oracle",
               "a tie between a sampling time and the end time is resolved by the scheduler and not judged (property: 'before the end')"]
TRUSTED = ["harness/runtrace.py"]


def run(ctx):
    from jellyfysh.event_handler.fixed_interval_sampling_event_handler import FixedIntervalSamplingEventHandler
    from jellyfysh.event_handler.final_time_end_of_run_event_handler import FinalTimeEndOfRunEventHandler
    rng = ctx.rng
    ctx.rule = ("unit level: random (interval, first_event_time_zero, k) incl. dyadic / non-dyadic / tiny / huge intervals, clock after k "
                "ticks; run level: one case per sampling or end-of-run commit of a traced real run; class = (level, zero-first?, "
                "interval exponent bucket | configuration, handler class)")
    # ---- unit level
    req, meta = [], []
    for _ in range(ctx.n(300, 3000)):
        c = rng.random()
        if c < 0.3:
            delta = rng.choice([0.5, 0.25, 1.0, 2.0, 0.1, 0.56789, 1e-3, 3.0, 1 / 3, 7.25])
        elif c < 0.7:
            delta = rng.random() * 2.0 ** rng.randint(-20, 6) or 0.5
        else:
            delta = math.ldexp(rng.random() + 0.5, rng.randint(-40, 12))
        zf = rng.random() < 0.5
        k = rng.choice([1, 2, 3, 10, 100, rng.randint(1, 2000), rng.randint(1, ctx.n(5000, 50000))])
        h = FixedIntervalSamplingEventHandler(sampling_interval=delta, output_handler="x", first_event_time_zero=zf)
        t = None
        bound_ok = True
        for j in range(1, k + 1):
            t = h.send_event_time()
        kk = k - 1 if zf else k
        exact = Fr(delta) * kk
        got = Fr(t.quotient) + Fr(t.remainder)
        ctx.cls(("unit", zf, math.frexp(delta)[1] // 8, min(k, 1000) // 250))
        if abs(got - exact) > Fr(max(kk, 1)) * Fr(1, 2 ** 53) * (1 + Fr(delta)):
            ctx.fail("C17:clock-off-nominal", {"interval": delta.hex(), "zero_first": zf, "k": k, "t": [t.quotient, t.remainder]},
                     "k-th sample time deviates from k*interval by more than one rounding per step")
        if not (t.quotient == math.floor(t.quotient) and 0.0 <= t.remainder < 1.0):
            ctx.fail("C17:clock-not-normalised", {"interval": delta.hex(), "zero_first": zf, "k": k}, "sample time not normalised")
        req.append(f"clock {f2b(delta)} {1 if zf else 0} {k}")
        meta.append((delta, zf, k, f"{f2b(t.quotient)} {f2b(t.remainder)}"))
    for _ in range(ctx.n(200, 2000)):
        te = rng.choice([0.0, 1.0, 100000.0, rng.random() * 10 ** rng.randint(0, 7), float(rng.randint(0, 10 ** 6))])
        e = FinalTimeEndOfRunEventHandler(end_of_run_time=te).send_event_time()
        if Fr(e.quotient) + Fr(e.remainder) != Fr(te):
            ctx.fail("C17:end-time-inexact", {"t_end": te.hex()}, "end-of-run time is not the configured time")
        req.append(f"end_time {f2b(te)}")
        meta.append((te, None, None, f"{f2b(e.quotient)} {f2b(e.remainder)}"))
        ctx.cls(("unit-end", te == math.floor(te)))
    rep = ctx.model("time", req)
    for line, m, r in zip(req, meta, rep):
        ctx.evaluations += 1
        if m[3] != r:
            ctx.disagree("sampling.clock" if line.startswith("clock") else "end_of_run.time", {"request": line}, m[3], r)
    ctx.sample({"request": req[0], "impl": meta[0][3], "model": rep[0]})

    # ---- run level
    trs = runcommon.traces(ctx)
    mreq, mexp, minfo = [], [], []
    for tr in trs:
        if not tr["legs"]:
            continue
        stats = {}
        runs.oracle_c17(tr, ctx.fail, stats)
        runcommon.record_trace_stats(ctx, tr, stats)
        meta_ = tr["meta"]
        sec = meta_["config"].get("FixedIntervalSamplingEventHandler")
        if not sec:
            continue
        delta = float(sec["sampling_interval"])
        zf = sec.get("first_event_time_zero", "false").strip().lower() in ("true", "1", "yes")
        ets = runs.event_times(tr)
        k = 0
        for i, leg in enumerate(tr["legs"]):
            if meta_["handlers"][leg["chosen"]][1] == "FixedIntervalSamplingEventHandler":
                k += 1
                mreq.append(f"clock {f2b(delta)} {1 if zf else 0} {k}")
                mexp.append(f"{f2b(ets[i][0])} {f2b(ets[i][1])}")
                minfo.append((meta_["ini"], meta_["seed"], i))
        end_sec = meta_["config"].get("FinalTimeEndOfRunEventHandler")
        if tr["end"] == "EndOfRun" and end_sec:
            te = float(end_sec["end_of_run_time"])
            fuel = int(te / delta) + 5
            mreq.append(f"samples_before_end {f2b(delta)} {f2b(te)} {1 if zf else 0} {fuel}")
            # ties between a sample time and the end time are decided by the scheduler: not compared
            tie = any(Fr(delta) * j == Fr(te) for j in range(0, fuel + 2))
            mexp.append(str(k) if not tie else None)
            minfo.append((meta_["ini"], meta_["seed"], "count"))
    rep = ctx.model("time", mreq) if mreq else []
    for line, e, r, inf in zip(mreq, mexp, rep, minfo):
        if e is not None and e != r:
            ctx.disagree("run.sample-times" if line.startswith("clock") else "run.sample-count",
                         {"ini": inf[0], "seed": inf[1], "leg": inf[2], "request": line}, e, r)
        ctx.count("run-model-comparisons")
