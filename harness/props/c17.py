"""C17 — Samples and end of run occur at nominal times on a fully time-sliced state.

Unit level: the real FixedIntervalSamplingEventHandler / FinalTimeEndOfRunEventHandler clocks vs the Lean model
(`JF.Sampling.clock`, `endTime`, binary64 reading), bit for bit, for random intervals / tick counts; Fraction oracle for
"one rounding per step". Run level: real runs (all shipped + generated sampling intervals, end times, chain times,
first_event_time_zero both ways): oracle_c17 on the recorded writes; sample times of the runs vs the model clock; the
number of samples vs the model's `samplesBeforeEnd`. Dump/resume histories: runs with a dumping tagger (the shipped
power_bounded_dump.ini with its own [Dumping] wiring, and dumping variants of other configurations) are dumped and every dump is
resumed through the repository's resume.main(); the history "run up to the dump, then the resumed run" is judged by the same
oracle (sample k at k*interval across dumps and resumes, nothing committed after the end time, run ends at the end time, sample
count)."""
import math
from fractions import Fraction as Fr
from harness import runs, runcommon
from harness.drive import f2b

ID = "C17"
THEOREM_MODULES = ["JF.Props.C17", "JF.Props.C17Float", "JF.Props.SystemInv", "JF.Props.C17System", "JF.Props.Output", "JF.Props.OutputFloat"]
NEEDS_GEN = True
COMPONENTS = ["time", "output"]
ASSUMPTIONS = ["theorems are the exact (rational) reading: t_k = k*interval, sample count = #{k | t_k < T_end}, sampled out-state fully "
               "time-sliced; the float statement 'one rounding of the remainder per step' is C14's and is measured here by the oracle",
               "a tie between a sampling time and the end time is resolved by the scheduler and not judged (property: 'before the end')"]
TRUSTED = ["harness/runtrace.py"]


def run(ctx):
    from jellyfysh.event_handler.fixed_interval_sampling_event_handler import FixedIntervalSamplingEventHandler
    from jellyfysh.event_handler.final_time_end_of_run_event_handler import FinalTimeEndOfRunEventHandler
    rng = ctx.rng
    ctx.rule = ("unit level: random (interval, first_event_time_zero, k) incl. dyadic / non-dyadic / tiny / huge intervals, clock after k "
                "ticks; run level: one case per sampling or end-of-run commit of a traced real run; class = (level, zero-first?, "
                "interval exponent bucket | configuration, handler class)")
    # ---- unit level
    req, meta = [], []
    for _ in range(ctx.n(300, 3000)):
        c = rng.random()
        if c < 0.3:
            delta = rng.choice([0.5, 0.25, 1.0, 2.0, 0.1, 0.56789, 1e-3, 3.0, 1 / 3, 7.25])
        elif c < 0.7:
            delta = rng.random() * 2.0 ** rng.randint(-20, 6) or 0.5
        else:
            delta = math.ldexp(rng.random() + 0.5, rng.randint(-40, 12))
        zf = rng.random() < 0.5
        k = rng.choice([1, 2, 3, 10, 100, rng.randint(1, 2000), rng.randint(1, ctx.n(5000, 50000))])
        h = FixedIntervalSamplingEventHandler(sampling_interval=delta, output_handler="x", first_event_time_zero=zf)
        t = None
        bound_ok = True
        for j in range(1, k + 1):
            t = h.send_event_time()
        kk = k - 1 if zf else k
        exact = Fr(delta) * kk
        got = Fr(t.quotient) + Fr(t.remainder)
        ctx.cls(("unit", zf, math.frexp(delta)[1] // 8, min(k, 1000) // 250))
        if abs(got - exact) > Fr(max(kk, 1)) * Fr(1, 2 ** 53) * (1 + Fr(delta)):
            ctx.fail("C17:clock-off-nominal", {"interval": delta.hex(), "zero_first": zf, "k": k, "t": [t.quotient, t.remainder]},
                     "k-th sample time deviates from k*interval by more than one rounding per step")
        if not (t.quotient == math.floor(t.quotient) and 0.0 <= t.remainder < 1.0):
            ctx.fail("C17:clock-not-normalised", {"interval": delta.hex(), "zero_first": zf, "k": k}, "sample time not normalised")
        req.append(f"clock {f2b(delta)} {1 if zf else 0} {k}")
        meta.append((delta, zf, k, f"{f2b(t.quotient)} {f2b(t.remainder)}"))
    for _ in range(ctx.n(200, 2000)):
        te = rng.choice([0.0, 1.0, 100000.0, rng.random() * 10 ** rng.randint(0, 7), float(rng.randint(0, 10 ** 6))])
        e = FinalTimeEndOfRunEventHandler(end_of_run_time=te).send_event_time()
        if Fr(e.quotient) + Fr(e.remainder) != Fr(te):
            ctx.fail("C17:end-time-inexact", {"t_end": te.hex()}, "end-of-run time is not the configured time")
        req.append(f"end_time {f2b(te)}")
        meta.append((te, None, None, f"{f2b(e.quotient)} {f2b(e.remainder)}"))
        ctx.cls(("unit-end", te == math.floor(te)))
    rep = ctx.model("time", req)
    for line, m, r in zip(req, meta, rep):
        ctx.evaluations += 1
        if m[3] != r:
            ctx.disagree("sampling.clock" if line.startswith("clock") else "end_of_run.time", {"request": line}, m[3], r)
    ctx.sample({"request": req[0], "impl": meta[0][3], "model": rep[0]})

    # ---- what is written: the four observable output handlers, base/vectors.py and the buffered writer against the model JF.Output
    # (bit for bit on the written files, several writes per handler object) and a Fraction oracle on the implementation's files
    from harness import outcorr
    try:
        outcorr.check(ctx, sessions=ctx.n(250, 3000))
    except Exception as e:  # noqa
        ctx.disagree("output.check", {"where": "outcorr.check"}, "evaluated", repr(e))
    # ... and the files that real runs write (unique file names per job) contain exactly the model observables of the recorded sampled states
    try:
        outcorr.check_runs(ctx)
    except Exception as e:  # noqa
        ctx.disagree("output.check", {"where": "outcorr.check_runs"}, "evaluated", repr(e))
    # ---- run level
    trs = runcommon.traces(ctx)
    # the multi-process mediator is a supported way of running: a few soft-sphere runs on 3 and 4 cores under a seeded wait adversary
    # (out-states computed ahead of time on idle cores) are further histories for the oracle
    from harness.props import c20 as _c20
    mpjobs = []
    for k in range(ctx.n(2, 5)):
        b = _c20.soft_sphere(rng.randint(3, 6), rng.choice([2.0, 3.5]), rng.choice(["heap_scheduler", "list_scheduler"]),
                             rng.choice([1.0, 2.0]), rng.choice([0.11, 0.37]))
        for cores in (3, 4):
            mpjobs.append({**b, "seed": ctx.seed * 100 + 70 + k, "max_legs": ctx.n(1200, 5000), "per_handler_rng": True, "timeout": 300,
                           "kind": "generated-mp", "mp": {"cores": cores, "schedule_seed": ctx.seed * 1000 + 31 * k + cores}})
    try:
        mptrs = runs.run_jobs(ctx.root, mpjobs, workers=4)
    except Exception as e:  # noqa
        mptrs = []
        ctx.disagree("run.multi-process-histories", {"jobs": len(mpjobs)}, "evaluated", repr(e))
    for tr in mptrs:
        if not tr["legs"]:
            ctx.count("mp-trace-failed:" + str(tr["end"])[:60])
    ctx.count("mp-histories", sum(1 for tr in mptrs if tr["legs"]))
    trs = trs + [tr for tr in mptrs if tr["legs"]]
    mreq, mexp, minfo = [], [], []
    for tr in trs:
        if not tr["legs"]:
            continue
        stats = {}
        runs.oracle_c17(tr, ctx.fail, stats)
        runcommon.record_trace_stats(ctx, tr, stats)
        meta_ = tr["meta"]
        sec = meta_["config"].get("FixedIntervalSamplingEventHandler")
        if not sec:
            continue
        delta = float(sec["sampling_interval"])
        zf = sec.get("first_event_time_zero", "false").strip().lower() in ("true", "1", "yes")
        ets = runs.event_times(tr)
        k = 0
        for i, leg in enumerate(tr["legs"]):
            if meta_["handlers"][leg["chosen"]][1] == "FixedIntervalSamplingEventHandler":
                k += 1
                mreq.append(f"clock {f2b(delta)} {1 if zf else 0} {k}")
                mexp.append(f"{f2b(ets[i][0])} {f2b(ets[i][1])}")
                minfo.append((meta_["ini"], meta_["seed"], i))
        end_sec = meta_["config"].get("FinalTimeEndOfRunEventHandler")
        # hypothesis `ClockCands` of JF.Props.C17System measured on the run: the candidate time the sampling handler returns at its j-th
        # request (j-th leg in which the activator hands it out) is the model clock at j; every candidate of the end-of-run handler is
        # the configured end time
        job_ = tr.get("job") or {}
        if not (job_.get("resume") or job_.get("mp") or meta_.get("number_cores")):
            j = 0
            for i, leg in enumerate(tr["legs"]):
                for h, t in leg["times"].items():
                    hname = meta_["handlers"][int(h)][1]
                    if hname == "FixedIntervalSamplingEventHandler":
                        j += 1
                        mreq.append(f"clock {f2b(delta)} {1 if zf else 0} {j}")
                        mexp.append(f"{f2b(float(t[0]))} {f2b(float(t[1]))}")
                        minfo.append((meta_["ini"], meta_["seed"], f"leg {i}: candidate of request {j} (ClockCands)"))
                    elif hname == "FinalTimeEndOfRunEventHandler" and end_sec:
                        mreq.append(f"end_time {f2b(float(end_sec['end_of_run_time']))}")
                        mexp.append(f"{f2b(float(t[0]))} {f2b(float(t[1]))}")
                        minfo.append((meta_["ini"], meta_["seed"], f"leg {i}: end-of-run candidate (ClockCands)"))
        if tr["end"] == "EndOfRun" and end_sec:
            te = float(end_sec["end_of_run_time"])
            fuel = int(te / delta) + 5
            mreq.append(f"samples_before_end {f2b(delta)} {f2b(te)} {1 if zf else 0} {fuel}")
            # ties between a sample time and the end time are decided by the scheduler: not compared
            tie = any(Fr(delta) * j == Fr(te) for j in range(0, fuel + 2))
            mexp.append(str(k) if not tie else None)
            minfo.append((meta_["ini"], meta_["seed"], "count"))
    for tr in resume_histories(ctx):
        stats = {}
        runs.oracle_c17(tr, ctx.fail, stats)
        runcommon.record_trace_stats(ctx, tr, stats)
        ctx.count("resume-histories")
    rep = ctx.model("time", mreq) if mreq else []
    for line, e, r, inf in zip(mreq, mexp, rep, minfo):
        if e is not None and e != r:
            ctx.disagree("run.sample-times" if line.startswith("clock") else ("run.end-of-run-candidate" if line.startswith("end_time") else "run.sample-count"),
                         {"ini": inf[0], "seed": inf[1], "leg": inf[2], "request": line}, e, r)
        ctx.count("run-model-comparisons")


def resume_histories(ctx):
    """histories 'run A up to its k-th dump, then the run resumed from that dump' as composite traces (legs and writes of A up
    to and including the dumping event, then those of the resumed run), so that the sampling oracle judges the samples of the
    whole history: a sample skipped or repeated around a dump, a sampling or end-of-run event lost in the dump, a resumed run that
    goes on beyond the end time"""
    import os, tempfile, shutil
    from harness.props import c19
    rng = ctx.rng
    CFG = runs.CFG
    work = tempfile.mkdtemp(prefix="jfdumps17_", dir=os.path.dirname(ctx.root))
    out = []
    try:
        jobsA = []
        bases = [(CFG + "coulomb_atoms/power_bounded_dump.ini", "Coulomb"), (CFG + "coulomb_atoms/power_bounded_dump.ini", "Coulomb"),
                 (CFG + "coulomb_atoms/cell_veto.ini", None), (CFG + "dipoles/dipole_motion.ini", None)]
        for rep in range(ctx.n(1, 4)):
            for n, (ini, pool) in enumerate(bases):
                sched = "heap_scheduler" if (n + rep) % 4 != 1 else "list_scheduler"
                t_end = rng.choice([6.0, 9.5, 12.0, 20.0]) if "coulomb_atoms/power" in ini else rng.choice([2.5, 4.0])
                delta = rng.choice([0.1, 0.37, 0.56789, 1.0])
                dd = os.path.join(work, f"A{len(jobsA)}")
                os.makedirs(dd)
                ov = c19.merge({"FinalTimeEndOfRunEventHandler": {"end_of_run_time": t_end},
                                "SingleProcessMediator": {"scheduler": sched},
                                "FixedIntervalSamplingEventHandler": {"sampling_interval": delta}},
                               c19.dumping_overrides(ctx.root, ini, round(t_end / rng.choice([1.8, 2.3, 3.1, 3.64, 4.4]), 4)))
                ov = c19.merge(ov, {"DumpingOutputHandler": {"filename": f"dumpS{len(jobsA)}_{os.getpid()}.dat"}})
                if pool:
                    k = rng.randint(2, 6)
                    ov = c19.merge(ov, {"RandomInputHandler": {"number_of_root_nodes": k}, pool: {"number_event_handlers": k}})
                jobsA.append({"ini": ini, "seed": ctx.seed * 1000 + 800 + len(jobsA), "max_legs": 60000, "dump_dir": dd, "overrides": ov})
        trsA = runs.run_jobs(ctx.root, jobsA)
        jobsB = []
        for ai, A in enumerate(trsA):
            if not A["legs"] or not A.get("dumps"):
                ctx.count("resume-histories:run-without-dump:" + str(A["end"])[:30])
                continue
            for dk in A["dumps"][:ctx.n(3, 6)]:
                jobsB.append({"ini": A["meta"]["ini"], "resume": dk["file"], "pdb_standin": A["meta"].get("pdb_standin", False),
                              "max_legs": max(4000, 3 * len(A["legs"])), "A": ai, "dump_leg": dk["leg"], "seed": A["meta"]["seed"]})
        trsB = runs.run_jobs(ctx.root, jobsB) if jobsB else []
        for B in trsB:
            job = B["job"]
            A = trsA[job["A"]]
            cut = job["dump_leg"] + 1
            if str(B["end"]).startswith(("exc", "build-exc", "harness-exc", "timeout")):
                ctx.fail("C17:resume-raises", {"ini": A["meta"]["ini"], "seed": A["meta"]["seed"], "dump_leg": job["dump_leg"], "end": B["end"],
                                               "exception": (B.get("exception") or "")[-800:]}, "resuming the dump raised")
                continue
            writes = [w for w in A["writes"] if w["leg"] < cut] + [{**w, "leg": w["leg"] + cut} for w in B["writes"]]
            out.append({"meta": A["meta"], "initial": A["initial"], "legs": A["legs"][:cut] + B["legs"], "writes": writes,
                        "end": B["end"], "job": {**A.get("job", {}), "resumed_at_leg": job["dump_leg"]}})
    finally:
        shutil.rmtree(work, ignore_errors=True)
    return out
