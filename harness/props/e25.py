"""temporary entry to run harness/outcorr.py (E25); not a property"""
ID = "E25"; THEOREM_MODULES = ["JF.Props.Output", "JF.Lemmas.OutputPairs", "JF.Lemmas.OutputGeom"]; COMPONENTS = ["output"]
ASSUMPTIONS = []; TRUSTED = []
def run(ctx):
    from harness import outcorr
    outcorr.check(ctx)
